import Qryn.Proofs.PprofStacks
/-! Interning is correct for strings, functions and locations; one `Merge` adds, per class of resolved stacks, the
    values of the payload's samples of that class; so does any list of payloads. -/
namespace Qryn.Prof.Pprof
open Qryn.Prof

/-! ### `sanitizeProfile`: the string indices of the functions lie in the table -/

theorem sanStrings_len (p : PProfile) : (sanStrings p).length = (sanStrings0 p).length := by
  simp [sanStrings, swap0]

theorem sanZ_lt (p : PProfile) : sanZ p < (sanStrings0 p).length := by
  unfold sanZ sanStrings0
  cases hf : p.strings.findIdx? (· == "") with
  | none => simp
  | some i =>
    have := (List.findIdx?_eq_some_iff_getElem.mp hf).1
    simpa using this

theorem strFix_ok (ms z : Nat) (hz : z < ms) (i : Int) : StrOK ms (strFix ms z i) := by
  unfold strFix StrOK
  split
  · omega
  · split
    · omega
    · omega

theorem sanStr_ok (p : PProfile) (i : Int) : StrOK (sanitize p).strings.length (sanStr p i) := by
  show StrOK (sanStrings p).length _
  rw [sanStrings_len]
  exact strFix_ok _ _ (sanZ_lt p) i

theorem sanitize_fn_strs (p : PProfile) : ∀ f ∈ (sanitize p).functions,
    StrOK (sanitize p).strings.length f.name ∧ StrOK (sanitize p).strings.length f.sysName
      ∧ StrOK (sanitize p).strings.length f.filename := by
  intro f hf
  have hf' : f ∈ (sanFun p).1 := hf
  unfold sanFun at hf'
  obtain ⟨x, hx, j', rfl⟩ := (renumber_spec _ _ _ 1 []).2.1 f hf'
  obtain ⟨f0, _, rfl⟩ := List.mem_map.mp hx
  exact ⟨sanStr_ok p _, sanStr_ok p _, sanStr_ok p _⟩

/-! ### strings -/

theorem getD_map_pred (idxs : List Nat) (k : Nat) : (idxs.map (· - 1)).getD k 0 = idxs.getD k 0 - 1 := by
  simp only [List.getD_eq_getElem?_getD, List.getElem?_map]
  cases idxs[k]? <;> rfl

theorem stepStrings_lookup (S : List String) (p : PProfile) (i : Int) (h : StrOK p.strings.length i) :
    strAt (stepStrings S p).1 ((stepStrings S p).2 i) = strAt p.strings i := by
  have hk : i.toNat < p.strings.length := by have := h.1; have := h.2; omega
  obtain ⟨e, he, hke⟩ := internAll_lookup (fun (s : String) => s) (fun s _ => s) (fun _ _ => rfl) p.strings S i.toNat hk
  simp only [stepStrings, ix, strAt, getD_map_pred]
  generalize hidx : (internAll (fun (s : String) => s) (fun s _ => s) S p.strings).2.getD i.toNat 0 = idx at he
  unfold entryAt at he
  split at he
  · cases he
  · rename_i hne
    have : ((idx - 1 : Nat) : Int).toNat = idx - 1 := by simp
    rw [this, List.getD_eq_getElem?_getD, he, List.getD_eq_getElem?_getD, List.getElem?_eq_getElem hk]
    simp only [Option.getD_some]
    exact hke

theorem stepStrings_ok (S : List String) (p : PProfile) (hstr : 1 ≤ p.strings.length) (x : Int) :
    StrOK (stepStrings S p).1.length ((stepStrings S p).2 x) := by
  obtain ⟨_, hs2, hs3⟩ := internAll_spec (fun (s : String) => s) (fun s _ => s) p.strings S
  have hne : (internAll (fun (s : String) => s) (fun s _ => s) S p.strings).2 ≠ [] := by
    intro e
    have h0 : (internAll (fun (s : String) => s) (fun s _ => s) S p.strings).2.length = 0 := by rw [e]; rfl
    rw [hs2] at h0
    omega
  obtain ⟨g1, g2⟩ := hs3 _ (List.head_mem hne)
  exact ix_ok _ _ (Nat.le_trans g1 g2) hs3 x

/-! ### functions and locations -/

theorem idAt_eq (idx : List Nat) (id : Nat) (h : 1 ≤ id) : idAt idx id = idx.getD (id - 1) 0 := by
  unfold idAt; rw [if_neg (by omega)]

theorem stepFunctions_lookup (sx : Int → Int) (F : List PFunction) (p : PProfile) (id : Nat)
    (h : IdOK p.functions.length id) :
    ∃ f e, entryAt p.functions id = some f ∧ entryAt (stepFunctions sx F p).1 (idAt (stepFunctions sx F p).2 id) = some e
      ∧ funKey e = funKey (rewriteFunction sx f) := by
  have h1 := h.1
  have h2 := h.2
  have hk : id - 1 < (p.functions.map (rewriteFunction sx)).length := by simp; omega
  obtain ⟨e, he, hke⟩ := internAll_lookup funKey (fun (f : PFunction) i => { f with id := i }) (fun _ _ => rfl)
    (p.functions.map (rewriteFunction sx)) F (id - 1) hk
  have hlt : id - 1 < p.functions.length := by omega
  refine ⟨p.functions[id - 1], e, ?_, ?_, ?_⟩
  · unfold entryAt; rw [if_neg (by omega)]; exact List.getElem?_eq_getElem hlt
  · rw [idAt_eq _ _ h1]; exact he
  · rw [hke]; simp

theorem stepLocations_lookup (fidx midx : List Nat) (L : List PLocation) (p : PProfile) (id : Nat)
    (h : IdOK p.locations.length id) :
    ∃ l e, entryAt p.locations id = some l ∧ entryAt (stepLocations fidx midx L p).1 (idAt (stepLocations fidx midx L p).2 id) = some e
      ∧ locKey e = locKey (rewriteLocation fidx midx l) := by
  have h1 := h.1
  have h2 := h.2
  have hk : id - 1 < (p.locations.map (rewriteLocation fidx midx)).length := by simp; omega
  obtain ⟨e, he, hke⟩ := internAll_lookup locKey (fun (l : PLocation) i => { l with id := i }) (fun _ _ => rfl)
    (p.locations.map (rewriteLocation fidx midx)) L (id - 1) hk
  have hlt : id - 1 < p.locations.length := by omega
  refine ⟨p.locations[id - 1], e, ?_, ?_, ?_⟩
  · unfold entryAt; rw [if_neg (by omega)]; exact List.getElem?_eq_getElem hlt
  · rw [idAt_eq _ _ h1]; exact he
  · rw [hke]; simp

/-! ### the packed line array determines the function ids (below 2^32 functions) -/

theorem pack_low (a b : Nat) (ha : a < 2 ^ 32) : ((a ||| (b <<< 32)) % two64) % 2 ^ 32 = a := by
  have h64 : two64 = 2 ^ 64 := by decide
  rw [h64, Nat.mod_mod_of_dvd _ (by decide : (2 : Nat) ^ 32 ∣ 2 ^ 64), Nat.or_mod_two_pow, Nat.shiftLeft_eq]
  have h0 : b * 2 ^ 32 % 2 ^ 32 = 0 := Nat.mul_mod_left _ _
  rw [h0, Nat.mod_eq_of_lt ha, Nat.or_zero]

theorem linesKey_fns : ∀ (a b : List PLine), (∀ ln ∈ a, ln.fn < 2 ^ 32) → (∀ ln ∈ b, ln.fn < 2 ^ 32) →
    linesKey a = linesKey b → a.map (·.fn) = b.map (·.fn) := by
  intro a
  induction a with
  | nil =>
    intro b _ _ h
    cases b with
    | nil => rfl
    | cons y ys => simp [linesKey] at h
  | cons x xs ih =>
    intro b ha hb h
    cases b with
    | nil => simp [linesKey] at h
    | cons y ys =>
      simp only [linesKey, List.map_cons, List.cons.injEq] at h
      have e1 : x.fn = y.fn := by
        have : (x.fn ||| x.line <<< 32) % two64 % 2 ^ 32 = (y.fn ||| y.line <<< 32) % two64 % 2 ^ 32 := by rw [h.1]
        rw [pack_low _ _ (ha x (by simp)), pack_low _ _ (hb y (by simp))] at this
        exact this
      have := ih ys (fun ln hl => ha ln (by simp [hl])) (fun ln hl => hb ln (by simp [hl])) h.2
      simp [e1, this]

theorem rLoc_of_fns (S : List String) (F : List PFunction) (l l' : PLocation) (ha : l.address = l'.address)
    (hf : l.lines.map (·.fn) = l'.lines.map (·.fn)) : rLoc S F l = rLoc S F l' := by
  unfold rLoc
  rw [ha]
  congr 1
  have e : ∀ ls : List PLine, ls.map (rLine S F) = (ls.map (·.fn)).map (fun fn => match entryAt F fn with
      | some f => rFun S f
      | none => (0, "", "", "")) := by
    intro ls; rw [List.map_map]; rfl
  rw [e, e, hf]

/-! ### one `Merge` -/

/-! ### string labels, read back from the sample key -/

/-- resolved string labels: (key, value) as strings -/
abbrev RLabels := List (String × String)

def unpackK (v : Nat) : Int := ((v % 2 ^ 32 : Nat) : Int)
def unpackS (v : Nat) : Int := ((v / 2 ^ 32 % 2 ^ 32 : Nat) : Int)

/-- the labels of a stored sample, read from its key (`hashProfileLabels`' array `key | str << 32`, sorted) -/
def rLabelsK (S : List String) (lk : List Nat) : RLabels := lk.map (fun v => (strAt S (unpackK v), strAt S (unpackS v)))

/-- the labels of a payload's sample in the payload's own string table, in the sample's order -/
def inLabels (p : PProfile) (s : PSample) : RLabels := s.labels.map (fun l => (strAt p.strings l.key, strAt p.strings l.str))

def packLabel (l : PLabel) : Nat := (u64 l.key ||| (u64 l.str <<< 32)) % two64

theorem labelsKey_eq (ls : List PLabel) : labelsKey ls = (ls.foldr insertLabel []).map packLabel := rfl

theorem insertLabel_perm (a : PLabel) (l : List PLabel) : (insertLabel a l).Perm (a :: l) := by
  induction l with
  | nil => simp [insertLabel]
  | cons b l ih =>
    simp only [insertLabel]
    split
    · exact List.Perm.refl _
    · exact (List.Perm.cons b ih).trans (List.Perm.swap a b l)

theorem sortLabels_perm (l : List PLabel) : (l.foldr insertLabel []).Perm l := by
  induction l with
  | nil => simp
  | cons a l ih => simp only [List.foldr_cons]; exact (insertLabel_perm a _).trans (List.Perm.cons a ih)

theorem unpack_pack (n : Nat) (hn : n < 2 ^ 32) (l : PLabel) (hk : StrOK n l.key) (hs : StrOK n l.str) :
    unpackK (packLabel l) = l.key ∧ unpackS (packLabel l) = l.str := by
  have k1 := hk.1; have k2 := hk.2; have s1 := hs.1; have s2 := hs.2
  have h64 : two64 = 2 ^ 64 := by decide
  have ek : u64 l.key = l.key.toNat := by
    unfold u64
    rw [Int.emod_eq_of_lt k1 (by rw [h64]; omega)]
  have es : u64 l.str = l.str.toNat := by
    unfold u64
    rw [Int.emod_eq_of_lt s1 (by rw [h64]; omega)]
  have hkl : l.key.toNat < 2 ^ 32 := by omega
  have hsl : l.str.toNat < 2 ^ 32 := by omega
  unfold packLabel unpackK unpackS
  rw [ek, es, h64]
  have hlt : (l.key.toNat ||| l.str.toNat <<< 32) < 2 ^ 64 := by
    apply Nat.or_lt_two_pow
    · omega
    · rw [Nat.shiftLeft_eq]
      calc l.str.toNat * 2 ^ 32 < 2 ^ 32 * 2 ^ 32 := Nat.mul_lt_mul_of_pos_right hsl (by decide)
        _ = 2 ^ 64 := by decide
  rw [Nat.mod_eq_of_lt hlt]
  constructor
  · rw [Nat.or_mod_two_pow, Nat.shiftLeft_eq, Nat.mul_mod_left, Nat.mod_eq_of_lt hkl, Nat.or_zero]
    omega
  · have : (l.key.toNat ||| l.str.toNat <<< 32) / 2 ^ 32 = l.str.toNat := by
      rw [← Nat.shiftRight_eq_div_pow, Nat.shiftRight_or_distrib, Nat.shiftLeft_shiftRight,
        Nat.shiftRight_eq_div_pow, Nat.div_eq_of_lt hkl, Nat.zero_or]
    rw [this, Nat.mod_eq_of_lt hsl]
    omega

/-- the labels read back from the key of a sample whose label indices lie in the table: the sample's labels, sorted -/
theorem rLabelsK_labelsKey (S : List String) (hS : S.length < 2 ^ 32) (ls : List PLabel)
    (h : ∀ l ∈ ls, StrOK S.length l.key ∧ StrOK S.length l.str) :
    rLabelsK S (labelsKey ls) = (ls.foldr insertLabel []).map (fun l => (strAt S l.key, strAt S l.str)) := by
  rw [labelsKey_eq]
  unfold rLabelsK
  rw [List.map_map]
  apply List.map_congr_left
  intro l hl
  have hl' := (sortLabels_perm ls).subset hl
  have := unpack_pack S.length hS l (h l hl').1 (h l hl').2
  simp only [Function.comp, this.1, this.2]

/-- values of the stored samples whose resolved stack and string labels are in the class `Q` -/
def stackTotal (Q : List RLoc → RLabels → Bool) (st : MState) (j : Nat) : Int :=
  valTotalK (fun k => Q (stStack st k.1) (rLabelsK st.strings k.2)) st.samples j

/-- values of a payload's samples whose resolved stack and string labels (in the payload's own tables) are in `Q` -/
def inStackTotal (Q : List RLoc → RLabels → Bool) (p : PProfile) (j : Nat) : Int :=
  ((p.samples.filter (fun s => Q (inStack p s.locs) (inLabels p s))).map (fun s => s.vals.getD j 0)).sum

theorem sanitize_label_strs (p : PProfile) : ∀ s ∈ (sanitize p).samples, ∀ l ∈ s.labels,
    StrOK (sanitize p).strings.length l.key ∧ StrOK (sanitize p).strings.length l.str := by
  intro s hs l hl
  have hs' : s ∈ sanSamples p := hs
  unfold sanSamples at hs'
  obtain ⟨s0, _, e⟩ := List.mem_filterMap.mp hs'
  unfold sanSample at e
  split at e
  · cases e
  · split at e
    · cases e
    · cases e
      simp only [List.mem_map] at hl
      obtain ⟨l0, _, rfl⟩ := hl
      exact ⟨sanStr_ok p _, sanStr_ok p _⟩

structure Grows (st st' : MState) : Prop where
  strings : ∃ e, st'.strings = st.strings ++ e
  functions : ∃ e, st'.functions = st.functions ++ e
  locations : ∃ e, st'.locations = st.locations ++ e

theorem Grows.refl (st : MState) : Grows st st := ⟨⟨[], by simp⟩, ⟨[], by simp⟩, ⟨[], by simp⟩⟩

theorem Grows.trans {a b c : MState} (h1 : Grows a b) (h2 : Grows b c) : Grows a c := by
  obtain ⟨⟨e1, s1⟩, ⟨f1, g1⟩, ⟨l1, m1⟩⟩ := h1
  obtain ⟨⟨e2, s2⟩, ⟨f2, g2⟩, ⟨l2, m2⟩⟩ := h2
  exact ⟨⟨e1 ++ e2, by rw [s2, s1, List.append_assoc]⟩, ⟨f1 ++ f2, by rw [g2, g1, List.append_assoc]⟩,
    ⟨l1 ++ l2, by rw [m2, m1, List.append_assoc]⟩⟩

theorem mergeSanitized_grows (st st' : MState) (p : PProfile) (hok : mergeSanitized st p = .ok st') : Grows st st' := by
  unfold mergeSanitized at hok
  simp only [] at hok
  split at hok
  · cases hok
  · split at hok
    · cases hok
    · cases hok
      refine ⟨?_, ?_, ?_⟩
      · obtain ⟨⟨e, h, _⟩, _⟩ := internAll_spec (fun (s : String) => s) (fun s _ => s) p.strings st.strings
        exact ⟨e, h⟩
      · obtain ⟨⟨e, h, _⟩, _⟩ := internAll_spec funKey (fun (f : PFunction) i => { f with id := i })
          (p.functions.map (rewriteFunction (stepStrings st.strings p).2)) st.functions
        exact ⟨e, h⟩
      · obtain ⟨⟨e, h, _⟩, _⟩ := internAll_spec locKey (fun (l : PLocation) i => { l with id := i })
          (p.locations.map (rewriteLocation (stepFunctions (stepStrings st.strings p).2 st.functions p).2
            (stepMappings (stepStrings st.strings p).2 st.mappings p).2)) st.locations
        exact ⟨e, h⟩

/-- old entries read the same after the tables grew -/
theorem stStack_grow {st st' : MState} (g : Grows st st') (hr : RefsOK st) (locs : List Nat)
    (hlocs : ∀ x ∈ locs, IdOK st.locations.length x) : stStack st' locs = stStack st locs := by
  obtain ⟨⟨e1, s1⟩, ⟨f1, g1⟩, ⟨l1, m1⟩⟩ := g
  unfold stStack
  rw [s1, g1, m1]
  exact rStack_grow _ _ _ _ _ _ locs hlocs (fun l hl => (hr.locs l hl).2) hr.fns

theorem mergeSanitized_stacks (Q : List RLoc → RLabels → Bool) (hQ : ∀ x a b, a.Perm b → Q x a = Q x b)
    (st st' : MState) (p : PProfile)
    (hinv : ValInv st) (hr : RefsOK st)
    (hp : ∀ s ∈ p.samples, s.vals.length = p.sampleTypes.length)
    (hstr : 1 ≤ p.strings.length)
    (hloc : ∀ l ∈ p.locations, IdOK p.mappings.length l.mapping ∧ ∀ ln ∈ l.lines, IdOK p.functions.length ln.fn)
    (hsam : ∀ s ∈ p.samples, ∀ x ∈ s.locs, IdOK p.locations.length x)
    (hfs : ∀ f ∈ p.functions, StrOK p.strings.length f.name ∧ StrOK p.strings.length f.sysName ∧ StrOK p.strings.length f.filename)
    (hlab : ∀ s ∈ p.samples, ∀ l ∈ s.labels, StrOK p.strings.length l.key ∧ StrOK p.strings.length l.str)
    (hok : mergeSanitized st p = .ok st') (hsmall : st'.functions.length < 2 ^ 32)
    (hsmallS : st'.strings.length < 2 ^ 32) (j : Nat) :
    stackTotal Q st' j = stackTotal Q st j + inStackTotal Q p j := by
  have hsxok := stepStrings_ok st.strings p hstr
  have hr' := mergeSanitized_refs st st' p hr hstr hloc hsam hok
  have hg := mergeSanitized_grows st st' p hok
  have hok0 := hok
  unfold mergeSanitized at hok
  simp only [] at hok
  split at hok
  · cases hok
  · rename_i pt0 _
    split at hok
    · cases hok
    · rename_i hcomp
      simp only [Bool.not_eq_true, Bool.not_eq_false'] at hcomp
      have hcomp' : compatible (headerFor st.header (stepStrings st.strings p).2 p
          ⟨(stepStrings st.strings p).2 pt0.type, (stepStrings st.strings p).2 pt0.unit⟩)
          ⟨(stepStrings st.strings p).2 pt0.type, (stepStrings st.strings p).2 pt0.unit⟩
          (p.sampleTypes.map (fun s => (⟨(stepStrings st.strings p).2 s.type, (stepStrings st.strings p).2 s.unit⟩ : VT))) = true := by
        cases hh : compatible _ _ _ <;> simp_all
      have hlen := compatible_len hcomp'
      simp only [List.length_map] at hlen
      generalize hn : (headerFor st.header (stepStrings st.strings p).2 p
          ⟨(stepStrings st.strings p).2 pt0.type, (stepStrings st.strings p).2 pt0.unit⟩).sampleTypes.length = n at hlen
      have htab : ∀ a ∈ st.samples, a.vals.length = n := by
        intro a ha
        cases hh : st.header with
        | none => rw [hinv.none_empty hh] at ha; simp at ha
        | some h =>
          have := hinv.lens h hh a ha
          rw [this, ← hn, hh]; rfl
      -- abbreviations for the tables of the step
      generalize hsx : (stepStrings st.strings p).2 = sx at *
      generalize hS' : (stepStrings st.strings p).1 = S' at *
      generalize hfr : stepFunctions sx st.functions p = fr at *
      generalize hmr : stepMappings sx st.mappings p = mr at *
      generalize hlr : stepLocations fr.2 mr.2 st.locations p = lr at *
      cases hok
      simp only [] at hr' hsmall hsmallS hg
      have hnew : ∀ s ∈ p.samples.map (rewriteSample sx lr.2), s.vals.length = n := by
        intro s hs
        obtain ⟨s0, hs0, rfl⟩ := List.mem_map.mp hs
        rw [rewriteSample_vals, hp s0 hs0, hlen]
      -- the fold, per key class of the new tables
      have hfold := foldl_upsertSampleK (fun k => Q (rStack S' fr.1 lr.1 k.1) (rLabelsK S' k.2)) n j
        (p.samples.map (rewriteSample sx lr.2)) st.samples hinv.nodup htab hnew
      show valTotalK (fun k => Q (rStack S' fr.1 lr.1 k.1) (rLabelsK S' k.2)) (stepSamples sx lr.2 st.samples p) j = _
      unfold stepSamples
      rw [hfold]
      congr 1
      · -- old entries
        unfold stackTotal
        apply valTotalK_congr
        intro a ha
        have := stStack_grow (st' := ⟨_, S', fr.1, mr.1, lr.1, _⟩) hg hr a.locs (hr.samples a ha).1
        show Q (rStack S' fr.1 lr.1 a.locs) (rLabelsK S' (labelsKey a.labels))
          = Q (stStack st a.locs) (rLabelsK st.strings (labelsKey a.labels))
        have hA : rStack S' fr.1 lr.1 a.locs = stStack st a.locs := this
        rw [hA]
        congr 1
        obtain ⟨e1, hs1⟩ := hg.strings
        have hs1' : S' = st.strings ++ e1 := hs1
        have hlen : st.strings.length ≤ S'.length := by rw [hs1']; simp
        have hlabs : ∀ l ∈ a.labels, StrOK st.strings.length l.key ∧ StrOK st.strings.length l.str :=
          fun l hl => ⟨((hr.samples a ha).2 l hl).1, ((hr.samples a ha).2 l hl).2.1⟩
        have hS'small : S'.length < 2 ^ 32 := hsmallS
        rw [rLabelsK_labelsKey S' hS'small a.labels (fun l hl => ⟨(hlabs l hl).1.mono hlen, (hlabs l hl).2.mono hlen⟩),
          rLabelsK_labelsKey st.strings (by omega) a.labels hlabs]
        apply List.map_congr_left
        intro l hl
        have hl' := (sortLabels_perm a.labels).subset hl
        rw [hs1', strAt_append _ _ _ (hlabs l hl').1, strAt_append _ _ _ (hlabs l hl').2]
      · -- the payload's samples
        unfold inStackTotal valTotalK
        rw [List.filter_map, List.map_map]
        have hfilt : (p.samples.filter ((fun s => Q (rStack S' fr.1 lr.1 (sampleKey s).1) (rLabelsK S' (sampleKey s).2)) ∘ rewriteSample sx lr.2))
            = p.samples.filter (fun s => Q (inStack p s.locs) (inLabels p s)) := by
          apply List.filter_congr
          intro s hs
          simp only [Function.comp]
          -- the labels: read back from the key they are the payload's labels, sorted by merged index
          have hperm : (rLabelsK S' (labelsKey (rewriteSample sx lr.2 s).labels)).Perm (inLabels p s) := by
            have hS'small : S'.length < 2 ^ 32 := hsmallS
            have hok' : ∀ l ∈ (rewriteSample sx lr.2 s).labels, StrOK S'.length l.key ∧ StrOK S'.length l.str := by
              intro l hl
              simp only [rewriteSample, List.mem_map] at hl
              obtain ⟨l0, _, rfl⟩ := hl
              exact ⟨hsxok l0.key, hsxok l0.str⟩
            rw [rLabelsK_labelsKey S' hS'small _ hok']
            refine ((sortLabels_perm _).map _).trans ?_
            have : (rewriteSample sx lr.2 s).labels.map (fun l => (strAt S' l.key, strAt S' l.str)) = inLabels p s := by
              unfold inLabels
              simp only [rewriteSample, List.map_map]
              apply List.map_congr_left
              intro l hl
              simp only [Function.comp]
              have e1 := stepStrings_lookup st.strings p l.key (hlab s hs l hl).1
              have e2 := stepStrings_lookup st.strings p l.str (hlab s hs l hl).2
              rw [hS', hsx] at e1 e2
              rw [e1, e2]
            rw [this]
          -- interning is correct: the rewritten stack reads in the new tables what the stack reads in the payload
          suffices hA : rStack S' fr.1 lr.1 (s.locs.map (idAt lr.2)) = rStack p.strings p.functions p.locations s.locs by
            show Q (rStack S' fr.1 lr.1 (s.locs.map (idAt lr.2))) (rLabelsK S' (labelsKey (rewriteSample sx lr.2 s).labels))
              = Q (inStack p s.locs) (inLabels p s)
            rw [hA]
            exact hQ _ _ _ hperm
          unfold rStack
          rw [List.map_map]
          apply List.map_congr_left
          intro x hx
          simp only [Function.comp]
          have hxok := hsam s hs x hx
          obtain ⟨l, e, hl, he, hke⟩ := stepLocations_lookup fr.2 mr.2 st.locations p x hxok
          rw [hlr] at he
          rw [he, hl]
          show rLoc S' fr.1 e = rLoc p.strings p.functions l
          have hlmem : l ∈ p.locations := by
            unfold entryAt at hl
            split at hl
            · cases hl
            · exact List.mem_of_getElem? hl
          have hemem : e ∈ lr.1 := by
            unfold entryAt at he
            split at he
            · cases he
            · exact List.mem_of_getElem? he
          -- e and the rewritten l have the same key
          simp only [locKey, Prod.mk.injEq] at hke
          obtain ⟨hadr, hlines, _⟩ := hke
          have hfe : ∀ ln ∈ e.lines, ln.fn < 2 ^ 32 := by
            intro ln hln
            have h2 : ln.fn ≤ fr.1.length := ((hr'.locs e hemem).2 ln hln).2
            have h3 : fr.1.length < 2 ^ 32 := hsmall
            omega
          have hfl : ∀ ln ∈ (rewriteLocation fr.2 mr.2 l).lines, ln.fn < 2 ^ 32 := by
            intro ln hln
            simp only [rewriteLocation, List.mem_map] at hln
            obtain ⟨ln0, hln0, rfl⟩ := hln
            obtain ⟨f, e', _, he', _⟩ := stepFunctions_lookup sx st.functions p ln0.fn ((hloc l hlmem).2 ln0 hln0)
            rw [hfr] at he'
            have : IdOK fr.1.length (idAt fr.2 ln0.fn) := by
              unfold entryAt at he'
              split at he'
              · cases he'
              · rename_i hne
                have := (List.getElem?_eq_some_iff.mp he').1
                exact ⟨by omega, by omega⟩
            show idAt fr.2 ln0.fn < 2 ^ 32
            have h2 := this.2
            have h3 : fr.1.length < 2 ^ 32 := hsmall
            omega
          have hfns := linesKey_fns e.lines (rewriteLocation fr.2 mr.2 l).lines hfe hfl hlines
          rw [rLoc_of_fns S' fr.1 e (rewriteLocation fr.2 mr.2 l) hadr hfns]
          -- the rewritten location reads in the new tables what l reads in the payload
          unfold rLoc
          simp only [rewriteLocation, List.map_map]
          congr 1
          apply List.map_congr_left
          intro ln hln
          simp only [Function.comp, rLine]
          obtain ⟨f, e', hf, he', hkf⟩ := stepFunctions_lookup sx st.functions p ln.fn ((hloc l hlmem).2 ln hln)
          rw [hfr] at he'
          rw [he', hf]
          have hfmem : f ∈ p.functions := by
            unfold entryAt at hf
            split at hf
            · cases hf
            · exact List.mem_of_getElem? hf
          simp only [funKey, rewriteFunction, Prod.mk.injEq] at hkf
          obtain ⟨k1, k2, k3, k4⟩ := hkf
          have hs := hfs f hfmem
          simp only [rFun, k1, k2, k3, k4]
          have e1 := stepStrings_lookup st.strings p f.name hs.1
          have e2 := stepStrings_lookup st.strings p f.sysName hs.2.1
          have e3 := stepStrings_lookup st.strings p f.filename hs.2.2
          rw [hS', hsx] at e1 e2 e3
          rw [e1, e2, e3]
        rw [hfilt]
        congr 1

theorem mergeOne_grows (st st' : MState) (p : PProfile) (hok : mergeOne st p = .ok st') : Grows st st' := by
  unfold mergeOne at hok
  split at hok
  · cases hok; exact Grows.refl st
  · exact mergeSanitized_grows st st' _ hok

theorem mergeAll_grows : ∀ (Ps : List PProfile) (st st' : MState), mergeAll st Ps = .ok st' → Grows st st' := by
  intro Ps
  induction Ps with
  | nil => intro st st' hok; simp only [mergeAll] at hok; cases hok; exact Grows.refl st
  | cons p Ps ih =>
    intro st st' hok
    simp only [mergeAll] at hok
    split at hok
    · rename_i st1 h1
      exact (mergeOne_grows st st1 p h1).trans (ih st1 st' hok)
    · cases hok

theorem mergeOne_stacks (Q : List RLoc → RLabels → Bool) (hQ : ∀ x a b, a.Perm b → Q x a = Q x b)
    (st st' : MState) (p : PProfile) (hinv : ValInv st) (hr : RefsOK st)
    (hok : mergeOne st p = .ok st') (hsmall : st'.functions.length < 2 ^ 32) (hsmallS : st'.strings.length < 2 ^ 32) (j : Nat) :
    stackTotal Q st' j = stackTotal Q st j + (if skipped p then 0 else inStackTotal Q (sanitize p) j) := by
  unfold mergeOne at hok
  split at hok
  · cases hok; rename_i h; simp [h]
  · rename_i h
    simp only [h]
    exact mergeSanitized_stacks Q hQ st st' (sanitize p) hinv hr (sanitize_sample_lens p) (sanStrings_length p)
      (sanitize_locations_ok p) (sanitize_samples_ok p) (sanitize_fn_strs p) (sanitize_label_strs p) hok hsmall hsmallS j

/-- the payloads' contribution to a class of resolved stacks -/
def inputStackTotal (Q : List RLoc → RLabels → Bool) (Ps : List PProfile) (j : Nat) : Int :=
  (Ps.map (fun p => if skipped p then 0 else inStackTotal Q (sanitize p) j)).sum

theorem mergeAll_stacks (Q : List RLoc → RLabels → Bool) (hQ : ∀ x a b, a.Perm b → Q x a = Q x b) :
    ∀ (Ps : List PProfile) (st st' : MState), ValInv st → RefsOK st →
    mergeAll st Ps = .ok st' → st'.functions.length < 2 ^ 32 → st'.strings.length < 2 ^ 32 → ∀ j,
    stackTotal Q st' j = stackTotal Q st j + inputStackTotal Q Ps j := by
  intro Ps
  induction Ps with
  | nil => intro st st' _ _ hok _ _ j; simp only [mergeAll] at hok; cases hok; simp [inputStackTotal]
  | cons p Ps ih =>
    intro st st' hinv hr hok hsmall hsmallS j
    simp only [mergeAll] at hok
    split at hok
    · rename_i st1 h1
      have hg := mergeAll_grows Ps st1 st' hok
      have hsm1 : st1.functions.length < 2 ^ 32 := by
        obtain ⟨e, he⟩ := hg.functions
        rw [he, List.length_append] at hsmall
        omega
      have hsm1S : st1.strings.length < 2 ^ 32 := by
        obtain ⟨e, he⟩ := hg.strings
        rw [he, List.length_append] at hsmallS
        omega
      have s1 := mergeOne_stacks Q hQ st st1 p hinv hr h1 hsm1 hsm1S j
      have s2 := ih st1 st' (mergeOne_vals st st1 p hinv h1 j).1 (mergeOne_refs st st1 p hr h1) hok hsmall hsmallS j
      rw [s2, s1]
      simp only [inputStackTotal, List.map_cons, List.sum_cons]
      omega
    · cases hok

end Qryn.Prof.Pprof
