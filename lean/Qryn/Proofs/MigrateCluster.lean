import Qryn.Ctrl.MigrateCluster
import Qryn.Proofs.MigratePath
/-! The cluster model refines the single-catalogue model node by node: seen from a node that takes part
    (the connected node; with a configured cluster every node), the calls of a cluster start are the calls of its own
    single-catalogue start, issued in the same states (`csteps_proj`), and what a call leaves on the node is either
    nothing or the single-catalogue effect of the call (`ceffect_view`). Therefore every state a cluster start can be
    stopped in is, on every such node, a state its own start can be stopped in. For an arbitrary program. -/
set_option linter.unusedSimpArgs false
set_option linter.unusedVariables false
namespace Qryn.Ctrl.Migrate

def CCall.toCall : CCall → Call
  | .createDb s => .boot s.stmt
  | .showCreate => .query 0
  | .boot s => .boot s.stmt
  | .query k => .query k
  | .script k i s => .script k i s.stmt
  | .record k v => .record k v

/-- node `i` takes part in the starts connected to `conn` -/
def App (dist : Bool) (N conn i : Nat) : Prop := i < N ∧ (i = conn ∨ dist = true)

/-- a statement the refinement can handle: `ON CLUSTER` only with a configured cluster, and then every statement
    either carries it or cannot change a catalogue -/
def Good (dist : Bool) (s : CStmt) : Prop := (s.oc = true → dist = true) ∧ (dist = true → s.clusterOkB = true)

theorem neutral_exec {s : Stmt} (h : s.neutralB = true) {c c' : Cat} (he : exec c s = .ok c') : c' = c := by
  cases s <;> simp [Stmt.neutralB] at h
  simp only [exec] at he
  split at he
  · cases he
  · split at he
    · cases he; rfl
    · cases he

theorem stmt_proj {dist : Bool} {N conn i : Nat} (hA : App dist N conn i) {s : CStmt} (hg : Good dist s)
    {cat : Nat → Cat} {c' : Cat} (he : exec (cat i) s.stmt = .ok c') : stepCat N conn allSel s cat i = c' := by
  unfold stepCat
  by_cases ht : tgt N conn s.oc i = true
  · simp [ht, allSel, he]
  · simp only [ht, Bool.false_and, Bool.false_eq_true, if_false]
    have hlt : decide (i < N) = true := by simpa using hA.1
    simp only [tgt, hlt, Bool.true_and, Bool.or_eq_true, beq_iff_eq, not_or] at ht
    have hd : dist = true := by
      rcases hA.2 with h | h
      · exact absurd h ht.2
      · exact h
    have hk := hg.2 hd
    simp only [CStmt.clusterOkB, Bool.or_eq_true] at hk
    rcases hk with hk | hk
    · exact absurd hk ht.1
    · exact (neutral_exec hk he).symm

theorem stepCat_sel (N conn : Nat) (sel : Nat → Bool) (s : CStmt) (cat : Nat → Cat) (i : Nat) :
    stepCat N conn sel s cat i = cat i ∨ ∃ c', exec (cat i) s.stmt = .ok c' ∧ stepCat N conn sel s cat i = c' := by
  unfold stepCat
  split
  · cases he : exec (cat i) s.stmt with
    | ok c => right; exact ⟨c, rfl, rfl⟩
    | error e => left; rfl
  · left; rfl

theorem stepCat_nontarget (N conn : Nat) (sel : Nat → Bool) (s : CStmt) (cat : Nat → Cat) (i : Nat)
    (h : tgt N conn s.oc i = false) : stepCat N conn sel s cat i = cat i := by
  simp [stepCat, h]

theorem visible_append_app {dist : Bool} {i conn : Nat} (h : i = conn ∨ dist = true) (rows : List (Nat × Nat × Nat))
    (k v : Nat) : visible dist i (rows ++ [(conn, k, v)]) = visible dist i rows ++ [(k, v)] := by
  have : (dist || conn == i) = true := by
    rcases h with h | h
    · subst h; simp
    · simp [h]
  simp [visible, List.filter_append, this]

theorem visible_append_frame {i conn : Nat} (h : i ≠ conn) (rows : List (Nat × Nat × Nat)) (k v : Nat) :
    visible false i (rows ++ [(conn, k, v)]) = visible false i rows := by
  have : (conn == i) = false := by simpa using fun e => h e.symm
  simp [visible, List.filter_append, this]

theorem visible_conn {dist : Bool} {i conn : Nat} (h : i = conn ∨ dist = true) (rows : List (Nat × Nat × Nat)) :
    visible dist conn rows = visible dist i rows := by
  rcases h with h | h
  · subst h; rfl
  · subst h; simp [visible]

/-! ## invariants of every state a start goes through -/

def CCall.stmt? : CCall → Option CStmt
  | .createDb s | .boot s | .script _ _ s => some s
  | _ => none

/-- a property of cluster states kept by every way a statement satisfying `R` can be applied and by every version
    row written over the connection -/
structure CInv (conn : Nat) (R : CStmt → Prop) (Q : Cluster → Prop) : Prop where
  step : ∀ (cl : Cluster) (sel : Nat → Bool) (s : CStmt), R s → Q cl → Q { cl with cat := stepCat cl.n conn sel s cl.cat }
  row : ∀ (cl : Cluster) (k v : Nat), Q cl → Q { cl with rows := cl.rows ++ [(conn, k, v)] }

theorem cinv_effect {conn : Nat} {R : CStmt → Prop} {Q : Cluster → Prop} (hQ : CInv conn R Q) (sel : Nat → Bool) (cl : Cluster)
    (c : CCall) (hR : ∀ s, c.stmt? = some s → R s) (h : Q cl) : Q (ceffect conn sel cl c) := by
  cases c <;> simp only [ceffect, Cluster.step_eq]
  · exact hQ.step cl sel _ (hR _ rfl) h
  · exact h
  · exact hQ.step cl sel _ (hR _ rfl) h
  · exact h
  · exact hQ.step cl sel _ (hR _ rfl) h
  · split
    · exact hQ.row cl _ _ h
    · exact h

/-- what the invariant lemmas say of a step: the state satisfies `Q`, the statement of the call satisfies `R` -/
def StepOK (R : CStmt → Prop) (Q : Cluster → Prop) (st : CStep) : Prop := Q st.1 ∧ ∀ s, st.2.stmt? = some s → R s

theorem cinv_boot {conn : Nat} {R : CStmt → Prop} {Q : Cluster → Prop} (hQ : CInv conn R Q) : ∀ (B : List CStmt) (cl : Cluster),
    (∀ s ∈ B, R s) → Q cl →
    (∀ st ∈ cbootSteps conn B cl, StepOK R Q st) ∧ (∀ cl1, cexecAll conn B cl = some cl1 → Q cl1) := by
  intro B
  induction B with
  | nil => intro cl _ h; exact ⟨by simp [cbootSteps], by simp [cexecAll]; exact h⟩
  | cons s r ih =>
    intro cl hR h
    have h2 := hQ.step cl allSel s (hR s (by simp)) h
    have hhead : StepOK R Q (cl, .boot s) := ⟨h, by intro s' e; simp only [CCall.stmt?, Option.some.injEq] at e; subst e; exact hR _ (by simp)⟩
    simp only [Cluster.step_eq, cbootSteps, cexecAll]
    by_cases hok : okAll cl.n conn s cl.cat = true
    · simp only [hok, if_true]
      obtain ⟨a, b⟩ := ih _ (fun s' hs' => hR s' (List.mem_cons_of_mem _ hs')) h2
      refine ⟨?_, b⟩
      intro st hst
      rcases List.mem_cons.mp hst with e | e
      · subst e; exact hhead
      · exact a st e
    · simp only [hok, Bool.false_eq_true, if_false]
      refine ⟨?_, by simp⟩
      intro st hst
      simp only [List.mem_singleton] at hst
      subst hst; exact hhead

theorem cinv_loop {conn : Nat} {R : CStmt → Prop} {Q : Cluster → Prop} (hQ : CInv conn R Q) (k : Nat) :
    ∀ (l : List CStmt) (i : Nat) (cl : Cluster), (∀ s ∈ l, R s) → Q cl →
    (∀ st ∈ cloopSteps conn k l i cl, StepOK R Q st) ∧ (∀ cl1, cloopRun conn k l i cl = some cl1 → Q cl1) := by
  intro l
  induction l with
  | nil => intro i cl _ h; exact ⟨by simp [cloopSteps], by simp [cloopRun]; exact h⟩
  | cons s r ih =>
    intro i cl hR h
    have h2 := hQ.step cl allSel s (hR s (by simp)) h
    have h3 := hQ.row _ k (i + 1) h2
    have hhead : StepOK R Q (cl, .script k i s) := ⟨h, by intro s' e; simp only [CCall.stmt?, Option.some.injEq] at e; subst e; exact hR _ (by simp)⟩
    simp only [Cluster.step_eq, cloopSteps, cloopRun]
    by_cases hok : okAll cl.n conn s cl.cat = true
    · simp only [hok, if_true]
      obtain ⟨a, b⟩ := ih (i + 1) _ (fun s' hs' => hR s' (List.mem_cons_of_mem _ hs')) h3
      refine ⟨?_, b⟩
      intro st hst
      rcases List.mem_cons.mp hst with e | e
      · subst e; exact hhead
      · rcases List.mem_cons.mp e with e | e
        · subst e; exact ⟨h2, by intro s' e; simp [CCall.stmt?] at e⟩
        · exact a st e
    · simp only [hok, Bool.false_eq_true, if_false]
      refine ⟨?_, by simp⟩
      intro st hst
      simp only [List.mem_singleton] at hst
      subst hst; exact hhead

theorem cinv_phase {conn : Nat} {R : CStmt → Prop} {Q : Cluster → Prop} (hQ : CInv conn R Q) (dist : Bool) (ph : CPhase)
    (cl : Cluster) (hR : ∀ s ∈ ph.stmts, R s) (h : Q cl) :
    (∀ st ∈ cphaseSteps dist conn ph cl, StepOK R Q st) ∧ (∀ cl1, cphaseRun dist conn ph cl = some cl1 → Q cl1) := by
  obtain ⟨a, b⟩ := cinv_boot hQ ph.boot cl (fun s hs => hR s (by simp [CPhase.stmts, hs])) h
  simp only [cphaseSteps, cphaseRun]
  cases he : cexecAll conn ph.boot cl with
  | none => simp only [List.append_nil]; exact ⟨a, by simp⟩
  | some cl1 =>
    have h1 := b cl1 he
    cases hs : ph.scripts with
    | none =>
      simp only [List.append_nil]
      exact ⟨a, by intro cl2 e; cases e; exact h1⟩
    | some p =>
      obtain ⟨k, ss⟩ := p
      simp only []
      obtain ⟨c, d⟩ := cinv_loop hQ k (ss.drop (getVer (visible dist conn cl.rows) k)) (getVer (visible dist conn cl.rows) k) cl1
        (fun s hs1 => hR s (by simp only [CPhase.stmts, hs, List.mem_append]; right; exact List.mem_of_mem_drop hs1)) h1
      refine ⟨?_, d⟩
      intro st hst
      rcases List.mem_append.mp hst with e | e
      · exact a st e
      · rcases List.mem_cons.mp e with e | e
        · subst e; exact ⟨h1, by intro s' e; simp [CCall.stmt?] at e⟩
        · exact c st e

theorem cinv_steps {conn : Nat} {R : CStmt → Prop} {Q : Cluster → Prop} (hQ : CInv conn R Q) (dist : Bool) :
    ∀ (P : List CPhase) (cl : Cluster), (∀ s ∈ P.flatMap CPhase.stmts, R s) → Q cl →
    (∀ st ∈ csteps dist conn P cl, StepOK R Q st) ∧ (∀ cl1, crun dist conn P cl = some cl1 → Q cl1) := by
  intro P
  induction P with
  | nil => intro cl _ h; exact ⟨by simp [csteps], by simp [crun]; exact h⟩
  | cons ph r ih =>
    intro cl hR h
    have hR1 : ∀ s ∈ ph.stmts, R s := fun s hs => hR s (by simp only [List.flatMap_cons, List.mem_append]; left; exact hs)
    have hR2 : ∀ s ∈ r.flatMap CPhase.stmts, R s := fun s hs => hR s (by simp only [List.flatMap_cons, List.mem_append]; right; exact hs)
    obtain ⟨a, b⟩ := cinv_phase hQ dist ph cl hR1 h
    simp only [csteps, crun]
    cases he : cphaseRun dist conn ph cl with
    | none => simp only [List.append_nil]; exact ⟨a, by simp⟩
    | some cl1 =>
      obtain ⟨c, d⟩ := ih cl1 hR2 (b cl1 he)
      refine ⟨?_, d⟩
      intro st hst
      rcases List.mem_append.mp hst with e | e
      · exact a st e
      · exact c st e

theorem cinv_update {conn : Nat} {R : CStmt → Prop} {Q : Cluster → Prop} (hQ : CInv conn R Q) (dist : Bool) (P : List CPhase)
    (cl : Cluster) (f : Option CFault) (base : Nat) (hR : ∀ s ∈ P.flatMap CPhase.stmts, R s) (h : Q cl) :
    Q (cupdate dist conn P cl f base).cl := by
  obtain ⟨a, b⟩ := cinv_steps hQ dist P cl hR h
  have hclean : Q (match crun dist conn P cl with
      | some fin => (⟨.done, fin, base + (csteps dist conn P cl).length⟩ : COutcome)
      | none => match (csteps dist conn P cl).getLast? with
        | some (st, call) =>
          ⟨.failed (match call with
            | .boot s | .script _ _ s | .createDb s => (firstErr st.n conn s st.cat).getD .noDatabase
            | _ => .noDatabase), ceffect conn allSel st call, base + (csteps dist conn P cl).length⟩
        | none => ⟨.done, cl, base⟩).cl := by
    cases hr : crun dist conn P cl with
    | some fin => exact b fin hr
    | none =>
      simp only []
      cases hl : (csteps dist conn P cl).getLast? with
      | none => exact h
      | some p =>
        obtain ⟨st, call⟩ := p
        simp only []
        have := a (st, call) (List.mem_of_getLast? hl)
        exact cinv_effect hQ allSel st call this.2 this.1
  cases f with
  | none => exact hclean
  | some f =>
    simp only [cupdate]
    cases hg : (csteps dist conn P cl)[f.n]? with
    | none => exact hclean
    | some p =>
      obtain ⟨st, call⟩ := p
      simp only []
      have := a (st, call) (List.mem_of_getElem? hg)
      exact cinv_effect hQ f.selFn st call this.2 this.1

theorem cinv_start {conn : Nat} {R : CStmt → Prop} {Q : Cluster → Prop} (hQ : CInv conn R Q) (P : CProg) (cl : Cluster)
    (f : Option CFault) (hR : ∀ s ∈ P.stmts, R s) (h : Q cl) : Q (cstart P cl conn f).cl := by
  have hRp : ∀ s ∈ P.phases.flatMap CPhase.stmts, R s := fun s hs => hR s (by simp only [CProg.stmts, List.mem_cons]; right; exact hs)
  have hRc : ∀ s, (CCall.createDb P.createDb).stmt? = some s → R s := by
    intro s e; simp only [CCall.stmt?, Option.some.injEq] at e; subst e; exact hR _ (by simp [CProg.stmts])
  unfold cstart
  split
  · split
    · exact cinv_update hQ _ _ _ _ _ hRp h
    · split
      · rename_i sel kill
        have h1 := cinv_effect hQ (fun i => sel.contains i) cl (.createDb P.createDb) hRc h
        simp only []
        split
        · exact h1
        · split
          · exact cinv_update hQ _ _ _ _ _ hRp h1
          · exact h1
      · have h1 := cinv_effect hQ allSel cl (.createDb P.createDb) hRc h
        simp only []
        split
        · exact h1
        · split
          · exact cinv_update hQ _ _ _ _ _ hRp h1
          · exact h1
  · exact h

/-- the number of nodes never changes -/
theorem cinv_n (conn N : Nat) : CInv conn (fun _ => True) (fun cl => cl.n = N) := ⟨fun _ _ _ _ h => h, fun _ _ _ h => h⟩

theorem cstart_n (P : CProg) (cl : Cluster) (conn : Nat) (f : Option CFault) : (cstart P cl conn f).cl.n = cl.n :=
  cinv_start (cinv_n conn cl.n) P cl f (fun _ _ => trivial) rfl

/-- without a configured cluster a start connected to `conn` leaves every other node as it was: its catalogue and
    the version rows a process connected to it reads -/
theorem cinv_frame (conn i : Nat) (hi : i ≠ conn) (c0 : Cat) (v0 : List (Nat × Nat)) :
    CInv conn (fun s => s.oc = false) (fun cl => cl.cat i = c0 ∧ visible false i cl.rows = v0) := by
  constructor
  · intro cl sel s hs h
    refine ⟨?_, h.2⟩
    simp only []
    rw [stepCat_nontarget _ _ _ _ _ _ (by simp [tgt, hs, hi])]
    exact h.1
  · intro cl k v h
    exact ⟨h.1, by simp only []; rw [visible_append_frame hi]; exact h.2⟩

/-! ## the calls of a cluster start, seen from a node that takes part -/

theorem view_cat (dist : Bool) (cl : Cluster) (i : Nat) : (view dist cl i).cat = cl.cat i := rfl
theorem view_vers (dist : Bool) (cl : Cluster) (i : Nat) : (view dist cl i).vers = visible dist i cl.rows := rfl

theorem cboot_proj {dist : Bool} {N conn i : Nat} (hA : App dist N conn i) : ∀ (B : List CStmt) (cl : Cluster), cl.n = N →
    (∀ s ∈ B, Good dist s) → ∀ c', execAll (B.map (·.stmt)) (cl.cat i) = .ok c' →
    (∀ st ∈ cbootSteps conn B cl,
      (view dist st.1 i, st.2.toCall) ∈ bootSteps (visible dist i cl.rows) (B.map (·.stmt)) (cl.cat i)) ∧
    (∀ cl1, cexecAll conn B cl = some cl1 → cl1.cat i = c' ∧ cl1.rows = cl.rows) := by
  intro B
  induction B with
  | nil =>
    intro cl hn hg c' he
    simp only [List.map_nil, execAll] at he
    cases he
    exact ⟨by simp [cbootSteps], by intro cl1 h; simp only [cexecAll] at h; cases h; exact ⟨rfl, rfl⟩⟩
  | cons s r ih =>
    intro cl hn hg c' he
    simp only [List.map_cons] at he
    obtain ⟨c1, he1, he2⟩ := execAll_cons_ok he
    have hc1 : stepCat cl.n conn allSel s cl.cat i = c1 := by
      rw [hn]; exact stmt_proj hA (hg s (by simp)) he1
    have ih' := ih { cl with cat := stepCat cl.n conn allSel s cl.cat } hn
      (fun s' hs' => hg s' (List.mem_cons_of_mem _ hs')) c' (by simpa [hc1] using he2)
    simp only [hc1] at ih'
    simp only [Cluster.step_eq, cbootSteps, cexecAll, List.map_cons, bootSteps, he1]
    constructor
    · intro st hst
      rcases List.mem_cons.mp hst with e | e
      · subst e; simp [view, CCall.toCall]
      · by_cases hok : okAll cl.n conn s cl.cat = true
        · simp only [hok, if_true] at e
          exact List.mem_cons_of_mem _ (ih'.1 st e)
        · simp [hok] at e
    · intro cl1 h
      by_cases hok : okAll cl.n conn s cl.cat = true
      · simp only [hok, if_true] at h
        exact ih'.2 cl1 h
      · simp [hok] at h

theorem view_step_row {dist : Bool} {conn i : Nat} (happ : i = conn ∨ dist = true) (cl : Cluster) (cat' : Nat → Cat) (k v : Nat) :
    view dist { cl with cat := cat', rows := cl.rows ++ [(conn, k, v)] } i = ⟨cat' i, visible dist i cl.rows ++ [(k, v)]⟩ := by
  simp [view, visible_append_app happ]

theorem cloop_proj {dist : Bool} {N conn i : Nat} (hA : App dist N conn i) (k : Nat) : ∀ (l : List CStmt) (i0 : Nat) (cl : Cluster),
    cl.n = N → (∀ s ∈ l, Good dist s) → ∀ fin, loopRun k (l.map (·.stmt)) i0 (view dist cl i) = .ok fin →
    (∀ st ∈ cloopSteps conn k l i0 cl,
      (view dist st.1 i, st.2.toCall) ∈ loopSteps k (l.map (·.stmt)) i0 (view dist cl i)) ∧
    (∀ cl1, cloopRun conn k l i0 cl = some cl1 → view dist cl1 i = fin) := by
  intro l
  induction l with
  | nil =>
    intro i0 cl hn hg fin he
    simp only [List.map_nil, loopRun] at he
    cases he
    exact ⟨by simp [cloopSteps], by intro cl1 h; simp only [cloopRun] at h; cases h; rfl⟩
  | cons s r ih =>
    intro i0 cl hn hg fin he
    simp only [List.map_cons] at he
    obtain ⟨c1, he1, he2⟩ := loopRun_cons_ok he
    simp only [view_cat] at he1
    have hc1 : stepCat cl.n conn allSel s cl.cat i = c1 := by
      rw [hn]; exact stmt_proj hA (hg s (by simp)) he1
    have hv : view dist { cl with cat := stepCat cl.n conn allSel s cl.cat, rows := cl.rows ++ [(conn, k, i0 + 1)] } i
        = ⟨c1, (view dist cl i).vers ++ [(k, i0 + 1)]⟩ := by
      rw [view_step_row hA.2, hc1]; rfl
    have ih' := ih (i0 + 1) { cl with cat := stepCat cl.n conn allSel s cl.cat, rows := cl.rows ++ [(conn, k, i0 + 1)] } hn
      (fun s' hs' => hg s' (List.mem_cons_of_mem _ hs')) fin (by rw [hv]; exact he2)
    rw [hv] at ih'
    simp only [Cluster.step_eq, cloopSteps, cloopRun, List.map_cons, loopSteps, view_cat, he1]
    constructor
    · intro st hst
      rcases List.mem_cons.mp hst with e | e
      · subst e; simp [view, CCall.toCall]
      · by_cases hok : okAll cl.n conn s cl.cat = true
        · simp only [hok, if_true] at e
          rcases List.mem_cons.mp e with e | e
          · subst e
            apply List.mem_cons_of_mem
            simp [view, CCall.toCall, hc1]
          · exact List.mem_cons_of_mem _ (List.mem_cons_of_mem _ (ih'.1 st e))
        · simp [hok] at e
    · intro cl1 h
      by_cases hok : okAll cl.n conn s cl.cat = true
      · simp only [hok, if_true] at h
        exact ih'.2 cl1 h
      · simp [hok] at h

theorem toPhase_boot (ph : CPhase) : ph.toPhase.boot = ph.boot.map (·.stmt) := rfl

theorem cphase_proj {dist : Bool} {N conn i : Nat} (hA : App dist N conn i) (ph : CPhase) (cl : Cluster) (hn : cl.n = N)
    (hg : ∀ s ∈ ph.stmts, Good dist s) (d : Db) (h : phaseRun ph.toPhase (view dist cl i) = .ok d) :
    (∀ st ∈ cphaseSteps dist conn ph cl, (view dist st.1 i, st.2.toCall) ∈ phaseSteps ph.toPhase (view dist cl i)) ∧
    (∀ cl1, cphaseRun dist conn ph cl = some cl1 → view dist cl1 i = d) := by
  have hgb : ∀ s ∈ ph.boot, Good dist s := fun s hs => hg s (by simp [CPhase.stmts, hs])
  simp only [phaseRun, toPhase_boot, view_cat] at h
  cases he : execAll (ph.boot.map (·.stmt)) (cl.cat i) with
  | error e => rw [he] at h; cases h
  | ok c' =>
    rw [he] at h
    simp only [] at h
    obtain ⟨a, b⟩ := cboot_proj hA ph.boot cl hn hgb c' he
    simp only [cphaseSteps, cphaseRun, phaseSteps, toPhase_boot, view_cat, view_vers, he]
    cases hce : cexecAll conn ph.boot cl with
    | none =>
      simp only [List.append_nil]
      exact ⟨fun st hst => List.mem_append_left _ (a st hst), by simp⟩
    | some cl1 =>
      obtain ⟨hb1, hb2⟩ := b cl1 hce
      cases hs : ph.scripts with
      | none =>
        have hs' : ph.toPhase.scripts = none := by simp [CPhase.toPhase, hs]
        simp only [hs'] at h ⊢
        cases h
        simp only [List.append_nil]
        refine ⟨fun st hst => a st hst, ?_⟩
        intro cl2 e
        cases e
        simp [view, hb1, hb2]
      | some p =>
        obtain ⟨k, ss⟩ := p
        have hs' : ph.toPhase.scripts = some (k, ss.map (·.stmt)) := by simp [CPhase.toPhase, hs]
        simp only [hs'] at h ⊢
        have hvis : visible dist conn cl.rows = visible dist i cl.rows := visible_conn hA.2 cl.rows
        rw [hvis]
        have hview1 : view dist cl1 i = ⟨c', visible dist i cl.rows⟩ := by simp [view, hb1, hb2]
        have hgl : ∀ s ∈ ss.drop (getVer (visible dist i cl.rows) k), Good dist s :=
          fun s hs1 => hg s (by simp only [CPhase.stmts, hs, List.mem_append]; right; exact List.mem_of_mem_drop hs1)
        have hn1 : cl1.n = N := by
          exact (cinv_boot (cinv_n conn N) ph.boot cl (fun _ _ => trivial) hn).2 cl1 hce
        rw [← List.map_drop] at h ⊢
        obtain ⟨c, e⟩ := cloop_proj hA k _ (getVer (visible dist i cl.rows) k) cl1 hn1 hgl d (by rw [hview1]; exact h)
        rw [hview1] at c
        refine ⟨?_, e⟩
        intro st hst
        rcases List.mem_append.mp hst with m | m
        · exact List.mem_append_left _ (a st m)
        · apply List.mem_append_right
          rcases List.mem_cons.mp m with m | m
          · subst m; simp [hview1, CCall.toCall]
          · exact List.mem_cons_of_mem _ (c st m)

theorem cphases_stmts_cons (ph : CPhase) (r : List CPhase) :
    (ph :: r).flatMap CPhase.stmts = ph.stmts ++ r.flatMap CPhase.stmts := by simp

theorem csteps_proj {dist : Bool} {N conn i : Nat} (hA : App dist N conn i) : ∀ (P : List CPhase) (cl : Cluster), cl.n = N →
    (∀ s ∈ P.flatMap CPhase.stmts, Good dist s) → ∀ fin, run (P.map CPhase.toPhase) (view dist cl i) = .ok fin →
    (∀ st ∈ csteps dist conn P cl, (view dist st.1 i, st.2.toCall) ∈ steps (P.map CPhase.toPhase) (view dist cl i)) ∧
    (∀ cl1, crun dist conn P cl = some cl1 → view dist cl1 i = fin) := by
  intro P
  induction P with
  | nil =>
    intro cl hn hg fin h
    simp only [List.map_nil, run] at h
    cases h
    exact ⟨by simp [csteps], by intro cl1 e; simp only [crun] at e; cases e; rfl⟩
  | cons ph r ih =>
    intro cl hn hg fin h
    simp only [List.map_cons] at h
    obtain ⟨d, h1, h2⟩ := run_cons_ok h
    have hg1 : ∀ s ∈ ph.stmts, Good dist s := fun s hs => hg s (by rw [cphases_stmts_cons]; exact List.mem_append_left _ hs)
    have hg2 : ∀ s ∈ r.flatMap CPhase.stmts, Good dist s :=
      fun s hs => hg s (by rw [cphases_stmts_cons]; exact List.mem_append_right _ hs)
    obtain ⟨a, b⟩ := cphase_proj hA ph cl hn hg1 d h1
    simp only [csteps, crun, List.map_cons, steps, h1]
    cases hp : cphaseRun dist conn ph cl with
    | none =>
      simp only [List.append_nil]
      exact ⟨fun st hst => List.mem_append_left _ (a st hst), by simp⟩
    | some cl1 =>
      have hd := b cl1 hp
      have hn1 : cl1.n = N := (cinv_phase (cinv_n conn N) dist ph cl (fun _ _ => trivial) hn).2 cl1 hp
      obtain ⟨c, e⟩ := ih cl1 hn1 hg2 fin (by rw [hd]; exact h2)
      rw [hd] at c
      refine ⟨?_, e⟩
      intro st hst
      rcases List.mem_append.mp hst with m | m
      · exact List.mem_append_left _ (a st m)
      · exact List.mem_append_right _ (c st m)

/-! ## what a call leaves on a node -/

theorem ceffect_view {dist : Bool} {N conn i : Nat} (hA : App dist N conn i) (sel : Nat → Bool) (st : Cluster) (c : CCall) :
    view dist (ceffect conn sel st c) i = view dist st i ∨
    post (view dist st i) c.toCall = some (view dist (ceffect conn sel st c) i) := by
  have hstmt : ∀ s : CStmt, view dist { st with cat := stepCat st.n conn sel s st.cat } i = view dist st i ∨
      post (view dist st i) (.boot s.stmt) = some (view dist { st with cat := stepCat st.n conn sel s st.cat } i) := by
    intro s
    rcases stepCat_sel st.n conn sel s st.cat i with h | ⟨c', he, h⟩
    · left; simp [view, h]
    · right; simp [view, post, he, h]
  cases c with
  | createDb s => simp only [ceffect, Cluster.step_eq]; exact hstmt s
  | boot s => simp only [ceffect, Cluster.step_eq]; exact hstmt s
  | script k j s =>
    simp only [ceffect, Cluster.step_eq]
    rcases hstmt s with h | h
    · left; exact h
    · right; simpa [post, CCall.toCall] using h
  | showCreate => left; rfl
  | query k => left; rfl
  | record k v =>
    simp only [ceffect]
    split
    · right; simp [view, post, CCall.toCall, visible_append_app hA.2]
    · left; rfl

/-- **every state the `Update` part of a cluster start can end in — completed, failed by itself on some node, or
    stopped at a failure point after the call took effect on any set of nodes — is, on a node that takes part and
    whose own start would succeed, one of the states that node's own start can be stopped in** -/
theorem cupdate_points {dist : Bool} {N conn i : Nat} (hA : App dist N conn i) (P : List CPhase) (cl : Cluster) (hn : cl.n = N)
    (hg : ∀ s ∈ P.flatMap CPhase.stmts, Good dist s) (fin : Db) (hJ : run (P.map CPhase.toPhase) (view dist cl i) = .ok fin)
    (f : Option CFault) (base : Nat) :
    view dist (cupdate dist conn P cl f base).cl i ∈ points (P.map CPhase.toPhase) (view dist cl i) := by
  obtain ⟨a, b⟩ := csteps_proj hA P cl hn hg fin hJ
  have hstep : ∀ (sel : Nat → Bool) (st : Cluster) (call : CCall), (st, call) ∈ csteps dist conn P cl →
      view dist (ceffect conn sel st call) i ∈ points (P.map CPhase.toPhase) (view dist cl i) := by
    intro sel st call hm
    have hm' := a (st, call) hm
    rcases ceffect_view hA sel st call with h | h
    · rw [h]; exact state_mem_points _ _ _ _ hm'
    · exact post_mem_points _ _ _ _ _ hm' h
  have hclean : view dist (match crun dist conn P cl with
      | some fin => (⟨.done, fin, base + (csteps dist conn P cl).length⟩ : COutcome)
      | none => match (csteps dist conn P cl).getLast? with
        | some (st, call) =>
          ⟨.failed (match call with
            | .boot s | .script _ _ s | .createDb s => (firstErr st.n conn s st.cat).getD .noDatabase
            | _ => .noDatabase), ceffect conn allSel st call, base + (csteps dist conn P cl).length⟩
        | none => ⟨.done, cl, base⟩).cl i ∈ points (P.map CPhase.toPhase) (view dist cl i) := by
    cases hr : crun dist conn P cl with
    | some cl1 => simp only []; rw [b cl1 hr]; exact fin_mem_points _ _ _ hJ
    | none =>
      simp only []
      cases hl : (csteps dist conn P cl).getLast? with
      | none => exact start_mem_points _ _ _ hJ
      | some p =>
        obtain ⟨st, call⟩ := p
        exact hstep allSel st call (List.mem_of_getLast? hl)
  cases f with
  | none => exact hclean
  | some f =>
    simp only [cupdate]
    cases hgt : (csteps dist conn P cl)[f.n]? with
    | none => exact hclean
    | some p =>
      obtain ⟨st, call⟩ := p
      exact hstep f.selFn st call (List.mem_of_getElem? hgt)

/-! ## success: when every node that takes part would succeed by itself, the cluster start succeeds -/

theorem okAll_of {dist : Bool} {N conn : Nat} {s : CStmt} (hg : Good dist s) (cat : Nat → Cat)
    (h : ∀ j, App dist N conn j → execOk (cat j) s.stmt = true) : okAll N conn s cat = true := by
  simp only [okAll, List.all_eq_true, List.mem_range, Bool.or_eq_true, Bool.not_eq_true']
  intro j hj
  by_cases ht : tgt N conn s.oc j = true
  · right
    apply h j
    refine ⟨hj, ?_⟩
    simp only [tgt, Bool.and_eq_true, decide_eq_true_eq, Bool.or_eq_true, beq_iff_eq] at ht
    rcases ht.2 with h1 | h1
    · right; exact hg.1 h1
    · left; exact h1
  · left; simpa using ht

theorem execOk_of {c c' : Cat} {s : Stmt} (h : exec c s = .ok c') : execOk c s = true := by simp [execOk, h]

theorem cexecAll_ok {dist : Bool} {N conn : Nat} : ∀ (B : List CStmt) (cl : Cluster), cl.n = N → (∀ s ∈ B, Good dist s) →
    (∀ j, App dist N conn j → ∃ c', execAll (B.map (·.stmt)) (cl.cat j) = .ok c') → ∃ cl1, cexecAll conn B cl = some cl1 := by
  intro B
  induction B with
  | nil => intro cl _ _ _; exact ⟨cl, rfl⟩
  | cons s r ih =>
    intro cl hn hg hJ
    have hgs := hg s (by simp)
    have hok : okAll cl.n conn s cl.cat = true := by
      rw [hn]
      refine okAll_of hgs cl.cat ?_
      intro j hj
      obtain ⟨c', he⟩ := hJ j hj
      simp only [List.map_cons] at he
      obtain ⟨c1, he1, _⟩ := execAll_cons_ok he
      exact execOk_of he1
    simp only [Cluster.step_eq, cexecAll, hok, if_true]
    apply ih { cl with cat := stepCat cl.n conn allSel s cl.cat } hn (fun s' hs' => hg s' (List.mem_cons_of_mem _ hs'))
    intro j hj
    obtain ⟨c', he⟩ := hJ j hj
    simp only [List.map_cons] at he
    obtain ⟨c1, he1, he2⟩ := execAll_cons_ok he
    refine ⟨c', ?_⟩
    simp only []
    rw [hn, stmt_proj hj hgs he1]
    exact he2

theorem cloopRun_ok {dist : Bool} {N conn : Nat} (k : Nat) : ∀ (l : List CStmt) (i0 : Nat) (cl : Cluster), cl.n = N →
    (∀ s ∈ l, Good dist s) →
    (∀ j, App dist N conn j → ∃ fin, loopRun k (l.map (·.stmt)) i0 (view dist cl j) = .ok fin) →
    ∃ cl1, cloopRun conn k l i0 cl = some cl1 := by
  intro l
  induction l with
  | nil => intro i0 cl _ _ _; exact ⟨cl, rfl⟩
  | cons s r ih =>
    intro i0 cl hn hg hJ
    have hgs := hg s (by simp)
    have hok : okAll cl.n conn s cl.cat = true := by
      rw [hn]
      refine okAll_of hgs cl.cat ?_
      intro j hj
      obtain ⟨fin, he⟩ := hJ j hj
      simp only [List.map_cons] at he
      obtain ⟨c1, he1, _⟩ := loopRun_cons_ok he
      exact execOk_of he1
    simp only [Cluster.step_eq, cloopRun, hok, if_true]
    apply ih (i0 + 1) { cl with cat := stepCat cl.n conn allSel s cl.cat, rows := cl.rows ++ [(conn, k, i0 + 1)] } hn
      (fun s' hs' => hg s' (List.mem_cons_of_mem _ hs'))
    intro j hj
    obtain ⟨fin, he⟩ := hJ j hj
    simp only [List.map_cons] at he
    obtain ⟨c1, he1, he2⟩ := loopRun_cons_ok he
    refine ⟨fin, ?_⟩
    rw [view_step_row hj.2, hn, stmt_proj hj hgs he1]
    exact he2

theorem cphaseRun_ok {dist : Bool} {N conn : Nat} (ph : CPhase) (cl : Cluster) (hn : cl.n = N)
    (hg : ∀ s ∈ ph.stmts, Good dist s)
    (hJ : ∀ j, App dist N conn j → ∃ d, phaseRun ph.toPhase (view dist cl j) = .ok d) :
    ∃ cl1, cphaseRun dist conn ph cl = some cl1 := by
  have hgb : ∀ s ∈ ph.boot, Good dist s := fun s hs => hg s (by simp [CPhase.stmts, hs])
  have hbootJ : ∀ j, App dist N conn j → ∃ c', execAll (ph.boot.map (·.stmt)) (cl.cat j) = .ok c' := by
    intro j hj
    obtain ⟨d, h⟩ := hJ j hj
    simp only [phaseRun, toPhase_boot, view_cat] at h
    cases he : execAll (ph.boot.map (·.stmt)) (cl.cat j) with
    | error e => rw [he] at h; cases h
    | ok c' => exact ⟨c', rfl⟩
  obtain ⟨cl1, hce⟩ := cexecAll_ok ph.boot cl hn hgb hbootJ
  simp only [cphaseRun, hce]
  cases hs : ph.scripts with
  | none => exact ⟨cl1, rfl⟩
  | some p =>
    obtain ⟨k, ss⟩ := p
    simp only []
    have hn1 : cl1.n = N := (cinv_boot (cinv_n conn N) ph.boot cl (fun _ _ => trivial) hn).2 cl1 hce
    apply cloopRun_ok k _ _ cl1 hn1
      (fun s hs1 => hg s (by simp only [CPhase.stmts, hs, List.mem_append]; right; exact List.mem_of_mem_drop hs1))
    intro j hj
    obtain ⟨d, h⟩ := hJ j hj
    have hs' : ph.toPhase.scripts = some (k, ss.map (·.stmt)) := by simp [CPhase.toPhase, hs]
    simp only [phaseRun, toPhase_boot, view_cat, view_vers, hs'] at h
    cases he : execAll (ph.boot.map (·.stmt)) (cl.cat j) with
    | error e => rw [he] at h; cases h
    | ok c' =>
      rw [he] at h
      simp only [] at h
      obtain ⟨hb1, hb2⟩ := (cboot_proj hj ph.boot cl hn hgb c' he).2 cl1 hce
      refine ⟨d, ?_⟩
      have hview1 : view dist cl1 j = ⟨c', visible dist j cl.rows⟩ := by simp [view, hb1, hb2]
      rw [hview1, visible_conn hj.2 cl.rows, List.map_drop]
      exact h

theorem crun_ok {dist : Bool} {N conn : Nat} : ∀ (P : List CPhase) (cl : Cluster), cl.n = N →
    (∀ s ∈ P.flatMap CPhase.stmts, Good dist s) →
    (∀ j, App dist N conn j → ∃ fin, run (P.map CPhase.toPhase) (view dist cl j) = .ok fin) →
    ∃ cl1, crun dist conn P cl = some cl1 := by
  intro P
  induction P with
  | nil => intro cl _ _ _; exact ⟨cl, rfl⟩
  | cons ph r ih =>
    intro cl hn hg hJ
    have hg1 : ∀ s ∈ ph.stmts, Good dist s := fun s hs => hg s (by rw [cphases_stmts_cons]; exact List.mem_append_left _ hs)
    have hg2 : ∀ s ∈ r.flatMap CPhase.stmts, Good dist s :=
      fun s hs => hg s (by rw [cphases_stmts_cons]; exact List.mem_append_right _ hs)
    have hpJ : ∀ j, App dist N conn j → ∃ d, phaseRun ph.toPhase (view dist cl j) = .ok d := by
      intro j hj
      obtain ⟨fin, h⟩ := hJ j hj
      simp only [List.map_cons] at h
      obtain ⟨d, h1, _⟩ := run_cons_ok h
      exact ⟨d, h1⟩
    obtain ⟨cl1, hp⟩ := cphaseRun_ok ph cl hn hg1 hpJ
    simp only [crun, hp]
    have hn1 : cl1.n = N := (cinv_phase (cinv_n conn N) dist ph cl (fun _ _ => trivial) hn).2 cl1 hp
    apply ih cl1 hn1 hg2
    intro j hj
    obtain ⟨fin, h⟩ := hJ j hj
    simp only [List.map_cons] at h
    obtain ⟨d, h1, h2⟩ := run_cons_ok h
    refine ⟨fin, ?_⟩
    rw [(cphase_proj hj ph cl hn hg1 d h1).2 cl1 hp]
    exact h2

/-- an uninterrupted `Update` part completes and leaves every node where its own start would have left it -/
theorem cupdate_done {dist : Bool} {N conn : Nat} (P : List CPhase) (cl : Cluster) (hn : cl.n = N)
    (hg : ∀ s ∈ P.flatMap CPhase.stmts, Good dist s) (fin : Nat → Db)
    (hJ : ∀ j, App dist N conn j → run (P.map CPhase.toPhase) (view dist cl j) = .ok (fin j)) (base : Nat) :
    (cupdate dist conn P cl none base).status = .done ∧
    ∀ j, App dist N conn j → view dist (cupdate dist conn P cl none base).cl j = fin j := by
  obtain ⟨cl1, hr⟩ := crun_ok P cl hn hg (fun j hj => ⟨fin j, hJ j hj⟩)
  constructor
  · simp [cupdate, hr]
  · intro j hj
    simp only [cupdate, hr]
    exact (csteps_proj hj P cl hn hg (fin j) (hJ j hj)).2 cl1 hr

/-! ## a node without the database -/

theorem exec_nodb {c : Cat} {s : Stmt} (hdb : c.db = false) (hs : s.isCreateDb = false) : ∃ e, exec c s = .error e := by
  cases s <;> simp [Stmt.isCreateDb] at hs <;> simp [exec, hdb]

/-- When the first statement of `Update` goes to every node, a node on which the database does not exist stops the
    `Update` part at that statement and is left as it was (its catalogue and every version row). -/
theorem cupdate_nodb (dist : Bool) (conn : Nat) (P : List CPhase) (hhead : headOc P = true)
    (hnc : ∀ s ∈ P.flatMap CPhase.stmts, s.stmt.isCreateDb = false) (cl : Cluster) (i : Nat) (hi : i < cl.n)
    (hdb : (cl.cat i).db = false) (f : Option CFault) (base : Nat) :
    (cupdate dist conn P cl f base).cl.cat i = cl.cat i ∧ (cupdate dist conn P cl f base).cl.rows = cl.rows := by
  cases P with
  | nil => simp [headOc] at hhead
  | cons ph r =>
    cases hb : ph.boot with
    | nil => simp [headOc, hb] at hhead
    | cons s B =>
      have hoc : s.oc = true := by simpa [headOc, hb] using hhead
      have hsm : s.stmt.isCreateDb = false :=
        hnc s (by simp only [List.flatMap_cons, List.mem_append]; left; simp [CPhase.stmts, hb])
      obtain ⟨e, hex⟩ := exec_nodb hdb hsm
      have hnok : okAll cl.n conn s cl.cat = false := by
        apply Bool.eq_false_iff.mpr
        intro hall
        simp only [okAll, List.all_eq_true, List.mem_range, Bool.or_eq_true, Bool.not_eq_true'] at hall
        rcases hall i hi with h | h
        · simp [tgt, hi, hoc] at h
        · simp [execOk, hex] at h
      have hsteps : csteps dist conn (ph :: r) cl = [(cl, .boot s)] := by
        simp [csteps, cphaseSteps, cphaseRun, hb, cbootSteps, cexecAll, hnok]
      have hrun : crun dist conn (ph :: r) cl = none := by
        simp [crun, cphaseRun, hb, cexecAll, hnok]
      have heff : ∀ sel : Nat → Bool, (ceffect conn sel cl (.boot s)).cat i = cl.cat i ∧ (ceffect conn sel cl (.boot s)).rows = cl.rows := by
        intro sel
        refine ⟨?_, rfl⟩
        simp only [ceffect, Cluster.step_eq, stepCat]
        split
        · rw [hex]
        · rfl
      cases f with
      | none => simp only [cupdate, hsteps, hrun, List.getLast?_singleton]; exact heff allSel
      | some f =>
        simp only [cupdate, hsteps, hrun, List.getLast?_singleton]
        cases hfn : f.n with
        | zero => simp only [List.getElem?_cons_zero]; exact heff f.selFn
        | succ n => simp only [List.getElem?_cons_succ, List.getElem?_nil]; exact heff allSel

/-! ## whole starts -/

/-- what the refinement needs of a program -/
structure CWf (P : CProg) : Prop where
  good : ∀ s ∈ P.stmts, Good P.dist s
  noCdb : ∀ s ∈ P.phases.flatMap CPhase.stmts, s.stmt.isCreateDb = false
  cdb : P.skipInit = false → P.createDb.stmt = .createDatabase true
  head : P.skipInit = false → P.dist = true → headOc P.phases = true

theorem cwf_of_wfB (P : CProg) (h : P.wfB = true) : CWf P := by
  simp only [CProg.wfB, Bool.and_eq_true, List.all_eq_true, Bool.or_eq_true, Bool.not_eq_true', beq_iff_eq] at h
  obtain ⟨⟨h1, h2⟩, h3⟩ := h
  refine ⟨?_, h2, ?_, ?_⟩
  · intro s hs
    have := h1 s hs
    cases hd : P.dist
    · simp only [hd, Bool.false_eq_true, if_false, Bool.not_eq_true'] at this
      exact ⟨(by intro h; rw [this] at h; cases h), (by intro h; cases h)⟩
    · simp only [hd, if_true] at this
      exact ⟨fun _ => rfl, fun _ => this⟩
  · intro hs
    rcases h3 with h | h
    · rw [hs] at h; cases h
    · exact h.1
  · intro hs hd
    rcases h3 with h | h
    · rw [hs] at h; cases h
    · rcases h.2 with h | h
      · rw [hd] at h; cases h
      · exact h

theorem exec_createDb (c : Cat) : ∃ c', exec c (.createDatabase true) = .ok c' ∧ c'.db = true ∧ (c.db = true → c' = c) := by
  cases hdb : c.db
  · exact ⟨{ c with db := true }, by simp [exec, hdb], rfl, by intro h; cases h⟩
  · exact ⟨c, by simp [exec, hdb], hdb, fun _ => rfl⟩

theorem ceffect_n (conn : Nat) (sel : Nat → Bool) (cl : Cluster) (c : CCall) : (ceffect conn sel cl c).n = cl.n :=
  cinv_effect (cinv_n conn cl.n) sel cl c (fun _ _ => trivial) rfl

theorem good_phases {P : CProg} (wf : CWf P) : ∀ s ∈ P.phases.flatMap CPhase.stmts, Good P.dist s :=
  fun s hs => wf.good s (by simp only [CProg.stmts, List.mem_cons]; right; exact hs)

/-- **Refinement, node by node.** Whatever the connection and the failure point of a cluster start — any call, taking
    effect on any set of nodes, process killed or error returned — on every node that takes part and whose own start
    would succeed, the state left behind is one of the states that node's own single-catalogue start can be stopped
    in. -/
theorem cstart_points (P : CProg) (wf : CWf P) (cl : Cluster) (conn : Nat) (f : Option CFault) (i : Nat)
    (hA : App P.dist cl.n conn i) (fin : Db) (hJ : run P.toProg (view P.dist cl i) = .ok fin) :
    view P.dist (cstart P cl conn f).cl i ∈ points P.toProg (view P.dist cl i) := by
  have hself := start_mem_points _ _ _ hJ
  unfold cstart
  by_cases hc : conn < cl.n
  · simp only [hc, if_true]
    cases hsk : P.skipInit with
    | true =>
      simp only [if_true]
      simp only [CProg.toProg, hsk, if_true] at hJ ⊢
      exact cupdate_points hA P.phases cl rfl (good_phases wf) fin hJ f 0
    | false =>
      simp only [Bool.false_eq_true, if_false]
      have hcdb := wf.cdb hsk
      simp only [CProg.toProg, hsk, Bool.false_eq_true, if_false] at hJ hself ⊢
      obtain ⟨d1, h1, h2⟩ := run_cons_ok hJ
      obtain ⟨c1, hex, hc1db, hc1same⟩ := exec_createDb (cl.cat i)
      have hd1 : d1 = ⟨c1, visible P.dist i cl.rows⟩ := by
        simp only [phaseRun, execAll, hcdb, view_cat, hex, view_vers] at h1
        cases h1; rfl
      have hsub := points_cons_sub ⟨[P.createDb.stmt], none⟩ (P.phases.map CPhase.toPhase) (view P.dist cl i) d1 h1
      have hpost : post (view P.dist cl i) (CCall.createDb P.createDb).toCall = some d1 := by
        simp [CCall.toCall, post, hcdb, view_cat, hex, hd1, view_vers]
      -- the state right after CREATE DATABASE took effect on the nodes of `sel`
      have key : ∀ (sel : Nat → Bool) (f' : Option CFault) (base : Nat),
          view P.dist (ceffect conn sel cl (.createDb P.createDb)) i ∈
            points (⟨[P.createDb.stmt], none⟩ :: P.phases.map CPhase.toPhase) (view P.dist cl i) ∧
          (((ceffect conn sel cl (.createDb P.createDb)).cat conn).db = true →
            view P.dist (cupdate P.dist conn P.phases (ceffect conn sel cl (.createDb P.createDb)) f' base).cl i ∈
              points (⟨[P.createDb.stmt], none⟩ :: P.phases.map CPhase.toPhase) (view P.dist cl i)) := by
        intro sel f' base
        have hn1 : (ceffect conn sel cl (.createDb P.createDb)).n = cl.n := ceffect_n ..
        have hview : view P.dist (ceffect conn sel cl (.createDb P.createDb)) i = view P.dist cl i ∨
            view P.dist (ceffect conn sel cl (.createDb P.createDb)) i = d1 := by
          rcases ceffect_view hA sel cl (.createDb P.createDb) with h | h
          · left; exact h
          · right; rw [hpost] at h; exact (Option.some.inj h).symm
        have hd1mem : d1 ∈ points (⟨[P.createDb.stmt], none⟩ :: P.phases.map CPhase.toPhase) (view P.dist cl i) :=
          hsub d1 (start_mem_points _ _ _ h2)
        constructor
        · rcases hview with h | h
          · rw [h]; exact hself
          · rw [h]; exact hd1mem
        · intro hconndb
          by_cases hdbi : ((ceffect conn sel cl (.createDb P.createDb)).cat i).db = true
          · -- the node has the database: it is where its own start is after CREATE DATABASE
            have hv1 : view P.dist (ceffect conn sel cl (.createDb P.createDb)) i = d1 := by
              rcases hview with h | h
              · have hdb0 : (cl.cat i).db = true := by
                  have := congrArg (fun d => d.cat.db) h
                  simp only [view_cat] at this
                  rw [← this]; exact hdbi
                rw [h, hd1, hc1same hdb0]; rfl
              · exact h
            apply hsub
            rw [← hv1]
            exact cupdate_points (N := cl.n) hA P.phases _ hn1 (good_phases wf) fin (by rw [hv1]; exact h2) f' base
          · -- the node does not: it differs from the connected node, so a cluster is configured
            have hdbi' : ((ceffect conn sel cl (.createDb P.createDb)).cat i).db = false := by simpa using hdbi
            have hne : i ≠ conn := by
              intro e; subst e; rw [hconndb] at hdbi'; cases hdbi'
            have hd : P.dist = true := by
              rcases hA.2 with h | h
              · exact absurd h hne
              · exact h
            obtain ⟨hcat, hrows⟩ := cupdate_nodb P.dist conn P.phases (wf.head hsk hd) wf.noCdb
              (ceffect conn sel cl (.createDb P.createDb)) i (by rw [hn1]; exact hA.1) hdbi' f' base
            have hv0 : view P.dist (ceffect conn sel cl (.createDb P.createDb)) i = view P.dist cl i := by
              rcases hview with h | h
              · exact h
              · have := congrArg (fun d => d.cat.db) h
                simp only [view_cat, hd1] at this
                rw [hdbi', hc1db] at this; cases this
            have : view P.dist (cupdate P.dist conn P.phases (ceffect conn sel cl (.createDb P.createDb)) f' base).cl i
                = view P.dist (ceffect conn sel cl (.createDb P.createDb)) i := by
              simp only [view, hcat, hrows]
            rw [this, hv0]; exact hself
      split
      · rename_i sel kill
        obtain ⟨k1, k2⟩ := key (fun j => sel.contains j) none 2
        split
        · exact k1
        · split
          · rename_i hdb; exact k2 hdb
          · exact k1
      · obtain ⟨k1, _⟩ := key allSel none 2
        split
        · exact k1
        · split
          · rename_i hdb
            exact (key allSel (f.map fun g => { g with n := g.n - 2 }) 2).2 hdb
          · exact k1
  · simp only [hc, if_false]; exact hself

/-- **An uninterrupted cluster start completes** when every node that takes part would complete its own start, and
    leaves each of them exactly where its own start would have left it. -/
theorem cstart_done (P : CProg) (wf : CWf P) (cl : Cluster) (conn : Nat) (hc : conn < cl.n) (fin : Nat → Db)
    (hJ : ∀ j, App P.dist cl.n conn j → run P.toProg (view P.dist cl j) = .ok (fin j)) :
    (cstart P cl conn none).status = .done ∧
    ∀ j, App P.dist cl.n conn j → view P.dist (cstart P cl conn none).cl j = fin j := by
  unfold cstart
  simp only [hc, if_true]
  cases hsk : P.skipInit with
  | true =>
    simp only [if_true]
    simp only [CProg.toProg, hsk, if_true] at hJ
    exact cupdate_done P.phases cl rfl (good_phases wf) fin hJ 0
  | false =>
    simp only [Bool.false_eq_true, if_false]
    have hcdb := wf.cdb hsk
    simp only [CProg.toProg, hsk, Bool.false_eq_true, if_false] at hJ
    have hgc : Good P.dist P.createDb := wf.good _ (by simp [CProg.stmts])
    have hn1 : (ceffect conn allSel cl (.createDb P.createDb)).n = cl.n := ceffect_n ..
    -- every node that takes part is where its own start is after CREATE DATABASE
    have hall : ∀ j, App P.dist cl.n conn j →
        ((ceffect conn allSel cl (.createDb P.createDb)).cat j).db = true ∧
        run (P.phases.map CPhase.toPhase) (view P.dist (ceffect conn allSel cl (.createDb P.createDb)) j) = .ok (fin j) := by
      intro j hj
      obtain ⟨d1, h1, h2⟩ := run_cons_ok (hJ j hj)
      obtain ⟨c1, hex, hc1db, _⟩ := exec_createDb (cl.cat j)
      have hd1 : d1 = ⟨c1, visible P.dist j cl.rows⟩ := by
        simp only [phaseRun, execAll, hcdb, view_cat, hex, view_vers] at h1
        cases h1; rfl
      have hcat : (ceffect conn allSel cl (.createDb P.createDb)).cat j = c1 := by
        simp only [ceffect, Cluster.step_eq]
        exact stmt_proj hj hgc (by rw [hcdb]; exact hex)
      refine ⟨by rw [hcat]; exact hc1db, ?_⟩
      have : view P.dist (ceffect conn allSel cl (.createDb P.createDb)) j = d1 := by
        rw [hd1]; simp only [view, hcat]; rfl
      rw [this]; exact h2
    have hconn : App P.dist cl.n conn conn := ⟨hc, Or.inl rfl⟩
    simp only [(hall conn hconn).1, if_true, Option.map_none]
    exact cupdate_done (N := cl.n) P.phases _ hn1 (good_phases wf) fin (fun j hj => (hall j hj).2) 2

/-- Without a configured cluster a start changes nothing on the nodes it is not connected to. -/
theorem cstart_frame (P : CProg) (hd : P.dist = false) (hoc : ∀ s ∈ P.stmts, s.oc = false) (cl : Cluster) (conn : Nat)
    (f : Option CFault) (i : Nat) (hi : i ≠ conn) : view false (cstart P cl conn f).cl i = view false cl i := by
  have := cinv_start (cinv_frame conn i hi (cl.cat i) (visible false i cl.rows)) P cl f hoc ⟨rfl, rfl⟩
  simp only [view, this.1, this.2]

theorem good_noOc {P : CProg} (wf : CWf P) (hd : P.dist = false) : ∀ s ∈ P.stmts, s.oc = false := by
  intro s hs
  have := (wf.good s hs).1
  cases h : s.oc
  · rfl
  · have := this h; rw [hd] at this; cases this

/-- **One start never loses a node**: a node whose own start would end in `fin` still has that property after any
    cluster start — any connection, any failure point, any partial application. -/
theorem cstart_keeps (P : CProg) (wf : CWf P) (swf : WF P.toProg) (cl : Cluster) (conn : Nat) (f : Option CFault) (i : Nat)
    (hi : i < cl.n) (fin : Db) (hJ : run P.toProg (view P.dist cl i) = .ok fin) :
    run P.toProg (view P.dist (cstart P cl conn f).cl i) = .ok fin := by
  by_cases hA : App P.dist cl.n conn i
  · exact run_from_point _ _ _ swf hJ _ (cstart_points P wf cl conn f i hA fin hJ)
  · have hd : P.dist = false := by
      cases h : P.dist
      · rfl
      · exact absurd ⟨hi, Or.inr h⟩ hA
    have hne : i ≠ conn := fun e => hA ⟨hi, Or.inl e⟩
    have := cstart_frame P hd (good_noOc wf hd) cl conn f i hne
    rw [hd] at hJ ⊢
    rw [this]; exact hJ

theorem csched_n (P : CProg) : ∀ (sch : List (Nat × Option CFault)) (cl : Cluster), (csched P cl sch).n = cl.n := by
  intro sch
  induction sch with
  | nil => intro cl; rfl
  | cons x r ih =>
    intro cl
    obtain ⟨conn, f⟩ := x
    simp only [csched]
    rw [ih, cstart_n]

theorem csched_keeps (P : CProg) (wf : CWf P) (swf : WF P.toProg) : ∀ (sch : List (Nat × Option CFault)) (cl : Cluster) (i : Nat),
    i < cl.n → ∀ fin, run P.toProg (view P.dist cl i) = .ok fin → run P.toProg (view P.dist (csched P cl sch) i) = .ok fin := by
  intro sch
  induction sch with
  | nil => intro cl i _ fin h; exact h
  | cons x r ih =>
    intro cl i hi fin h
    obtain ⟨conn, f⟩ := x
    simp only [csched]
    exact ih _ i (by rw [cstart_n]; exact hi) fin (cstart_keeps P wf swf cl conn f i hi fin h)

/-- **Convergence of the cluster.** After any sequence of starts — each connected to any node, each stopped at any
    call after it took effect on any set of nodes (or not stopped at all) — one more uninterrupted start, connected to
    any node, completes and leaves every node that takes part (with a configured cluster: EVERY node; without one: the
    node connected to) exactly where that node's own uninterrupted single-catalogue start would have left it. -/
theorem csched_converges (P : CProg) (wf : CWf P) (swf : WF P.toProg) (cl : Cluster) (fin : Nat → Db)
    (hJ : ∀ i, i < cl.n → run P.toProg (view P.dist cl i) = .ok (fin i))
    (sch : List (Nat × Option CFault)) (conn : Nat) (hc : conn < cl.n) :
    (cstart P (csched P cl sch) conn none).status = .done ∧
    ∀ i, App P.dist cl.n conn i → view P.dist (cstart P (csched P cl sch) conn none).cl i = fin i := by
  have hn := csched_n P sch cl
  have hJ' : ∀ j, App P.dist (csched P cl sch).n conn j → run P.toProg (view P.dist (csched P cl sch) j) = .ok (fin j) := by
    intro j hj
    rw [hn] at hj
    exact csched_keeps P wf swf sch cl j hj.1 (fin j) (hJ j hj.1)
  obtain ⟨a, b⟩ := cstart_done P wf (csched P cl sch) conn (by rw [hn]; exact hc) fin hJ'
  exact ⟨a, fun i hi => b i (by rw [hn]; exact hi)⟩

/-! ## version rows on a cluster -/

/-- In the version loop of a cluster start a version row is written only right after its own script was executed
    successfully by EVERY node it is sent to (`okAll`), in the state that execution left. -/
theorem cloop_record_after_all (conn k : Nat) : ∀ (l : List CStmt) (i0 : Nat) (cl : Cluster) (j : Nat) (cl' : Cluster) (k' v' : Nat),
    (cloopSteps conn k l i0 cl)[j]? = some (cl', .record k' v') →
    ∃ j0 cl0 s, j = j0 + 1 ∧ (cloopSteps conn k l i0 cl)[j0]? = some (cl0, .script k' (v' - 1) s) ∧ 1 ≤ v' ∧
      okAll cl0.n conn s cl0.cat = true ∧ cl' = { cl0 with cat := stepCat cl0.n conn allSel s cl0.cat } := by
  intro l
  induction l with
  | nil => intro i0 cl j cl' k' v' h; simp [cloopSteps] at h
  | cons s r ih =>
    intro i0 cl j cl' k' v' h
    simp only [Cluster.step_eq, cloopSteps] at h ⊢
    by_cases hok : okAll cl.n conn s cl.cat = true
    · simp only [hok, if_true] at h ⊢
      match j, h with
      | 0, h => simp at h
      | 1, h =>
        simp only [List.getElem?_cons_succ, List.getElem?_cons_zero, Option.some.injEq, Prod.mk.injEq,
          CCall.record.injEq] at h
        obtain ⟨rfl, rfl, rfl⟩ := h
        exact ⟨0, cl, s, rfl, by simp, by omega, hok, rfl⟩
      | j + 2, h =>
        simp only [List.getElem?_cons_succ] at h
        obtain ⟨j0, cl0, s0, hj, h0, hv, hok0, hcl⟩ := ih (i0 + 1) _ j cl' k' v' h
        exact ⟨j0 + 2, cl0, s0, by omega, by simpa [List.getElem?_cons_succ] using h0, hv, hok0, hcl⟩
    · simp only [hok, Bool.false_eq_true, if_false] at h
      match j, h with
      | 0, h => simp at h
      | j + 1, h => simp at h

/-- on an up-to-date cluster a start issues no script and no version row -/
theorem csteps_uptodate {dist : Bool} {N conn : Nat} (P : List CPhase) (cl : Cluster) (hn : cl.n = N) (hc : conn < N)
    (hg : ∀ s ∈ P.flatMap CPhase.stmts, Good dist s) (fin : Db)
    (hJ : run (P.map CPhase.toPhase) (view dist cl conn) = .ok fin)
    (hup : UpToDate (P.map CPhase.toPhase) (view dist cl conn).vers) :
    ∀ st ∈ csteps dist conn P cl, st.2.toCall.isMigration = false := by
  intro st hst
  have hA : App dist N conn conn := ⟨hc, Or.inl rfl⟩
  have hm := (csteps_proj hA P cl hn hg fin hJ).1 st hst
  exact (uptodate_run _ _ hup).1 _ hm

end Qryn.Ctrl.Migrate
