import Qryn.LogQL.JsonParserSegs
import Qryn.Proofs.RawAtoms
/-! C10: the text of the `| json` parameter object is well formed for its leaves — labels and path parts of ANY
    bytes (names beginning with a digit, a quote, containing brackets, comment openers) stay single literals. -/
namespace Qryn.LogQL
open Qryn Qryn.Sql Qryn.Lex

theorem kw_jsonType : rawC (b "if(JSONType(") = true := by decide +kernel
theorem kw_jp1 : rawC (b " as jp_") = true := by decide +kernel
theorem kw_jp2 : rawC (b ") == 'String', JSONExtractString(") = true := by decide +kernel
theorem kw_jp3 : rawC (b ", jp_") = true := by decide +kernel
theorem kw_jp4 : rawC (b "), JSONExtractRaw(") = true := by decide +kernel
theorem kw_jp5 : rawC (b "))") = true := by decide +kernel
theorem kw_mapFrom : rawC (b "mapFromArrays([") = true := by decide +kernel
theorem kw_mapMid : rawC (b "], [") = true := by decide +kernel
theorem kw_mapEnd : rawC (b "])") = true := by decide +kernel

theorem PE_strs (xs : List Bytes) : PE (joinS (b ",") (xs.map (fun p => [Seg.str p]))) :=
  PE_joinS (PC_raw kw_comma) _ (PE_of_mem_map (fun p _ => PE_str p))

theorem pathSegs_closed (col : Bytes) (hc : rawE col = true) (n : Nat) (path : List Bytes) : PE (pathSegs col n path) := by
  have hd := rawE_natDigits n
  have h1 : rawC (b "if(JSONType(" ++ col ++ b ", ") = true := rawC_wrap kw_jsonType hc kw_commaSp
  have h2 : rawC (b " as jp_" ++ natDigits n ++ b ") == 'String', JSONExtractString(" ++ col ++ b ", jp_" ++ natDigits n ++
      b "), JSONExtractRaw(" ++ col ++ b ", jp_" ++ natDigits n ++ b "))") = true := by
    have a := rawC_wrap kw_jp1 hd kw_jp2
    have b1 := rawC_wrap a hc kw_jp3
    have c := rawC_wrap b1 hd kw_jp4
    have d := rawC_wrap c hc kw_jp3
    exact rawC_wrap d hd kw_jp5
  unfold pathSegs
  exact (PC.wrap (PC_raw h1) (PE_strs path) (PC_raw h2)).toPE

theorem pathsSegs_closed (col : Bytes) (hc : rawE col = true) : ∀ (id : Nat) (ps : List (List Bytes)),
    ∀ x ∈ pathsSegs col id ps, PE x
  | _, [], x, hx => by simp [pathsSegs] at hx
  | id, p :: ps, x, hx => by
    simp only [pathsSegs, List.mem_cons] at hx
    rcases hx with rfl | hx
    · exact pathSegs_closed col hc _ p
    · exact pathsSegs_closed col hc (id + 1) ps x hx

/-- **for every column text that is closed, every label list and every list of paths** -/
theorem jsonParserSegs_closed (col : Bytes) (hc : rawE col = true) (id : Nat) (labels : List Bytes) (paths : List (List Bytes)) :
    PE (jsonParserSegs col id labels paths) := by
  unfold jsonParserSegs
  have h1 := PC.wrap (PC_raw kw_mapFrom) (PE_strs labels) (PC_raw kw_mapMid)
  have h2 := PC.wrap h1 (PE_joinS (PC_raw kw_comma) _ (pathsSegs_closed col hc id paths)) (PC_raw kw_mapEnd)
  simpa [List.append_assoc] using h2.toPE

end Qryn.LogQL
