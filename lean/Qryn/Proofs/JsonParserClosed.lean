import Qryn.LogQL.JsonParserSegs
import Qryn.Proofs.RawAtoms
import Qryn.Proofs.Closed
/-! C10: the text of the `| json` parameter object is well formed for its leaves — labels and path name parts of ANY
    bytes (names beginning with a digit, a quote, containing brackets, comment openers) stay single literals, index
    parts are decimal integers. -/
namespace Qryn.LogQL
open Qryn Qryn.Sql Qryn.Lex

/-- **for every list of (label, path) parameters** -/
theorem jsonParserSegs_closed (ps : List (Bytes × List JArg)) : PE (jsonParserSegs ps) := by
  unfold jsonParserSegs
  apply PE_jsonMapSegs
  simp only [List.all_eq_true]
  intro p _ a _
  cases a with
  | key k => rfl
  | idx i => exact rawE_intText i

end Qryn.LogQL
