import Qryn.Ctrl.Rotate
/-! Lemmas about the retention machine `Qryn.Ctrl.Rotate` for an arbitrary list of groups. -/
namespace Qryn.Ctrl.Rotate
open Qryn

/-! ## text -/

theorem join_length_ge (sep : Bytes) : ∀ (l : List Bytes) (x : Bytes), x ∈ l → x.length ≤ (join sep l).length
  | [], _, h => by cases h
  | [y], x, h => by
    have : x = y := by simpa using h
    subst this; simp [join]
  | y :: z :: rest, x, h => by
    have ih := join_length_ge sep (z :: rest)
    simp only [join, List.length_append]
    rcases List.mem_cons.mp h with h | h
    · subst h; omega
    · have := ih x h; omega

theorem dropExpr_ne_nil (g : GroupDef) (d : Int) : dropExpr g d ≠ [] := by
  intro h
  have := congrArg List.length h
  simp [dropExpr] at this

theorem ttlWant_ne_nil (g : GroupDef) (c : Cfg) : ttlWant g c ≠ [] := by
  intro h
  have h1 := join_length_ge [44, 32] (c.tiers.map (tierExpr g) ++ [dropExpr g c.days]) (dropExpr g c.days) (by simp)
  unfold ttlWant at h
  rw [h] at h1
  simp at h1
  exact dropExpr_ne_nil g c.days h1

/-- what an acting group wants recorded is never the empty string (which is what a dropped record reads as) -/
theorem desired_ne_nil {c : Cfg} {g : GroupDef} (h : active c g = true) : desired c g ≠ [] := by
  unfold desired; unfold active at h
  cases hk : g.kind <;> simp only [hk] at h ⊢
  · simpa using h
  · exact ttlWant_ne_nil g c

/-! ## one statement, straight-line statements -/

theorem St.ext' {a b : St} (h1 : a.marker = b.marker) (h2 : a.ttl = b.ttl) (h3 : a.policy = b.policy) : a = b := by
  cases a; cases b; simp_all

theorem applyAll_nil (s : St) : applyAll [] s = s := rfl
theorem applyAll_cons (x : Stmt) (xs : List Stmt) (s : St) : applyAll (x :: xs) s = applyAll xs (apply x s) := rfl
theorem applyAll_append (xs ys : List Stmt) (s : St) : applyAll (xs ++ ys) s = applyAll ys (applyAll xs s) := by
  simp [applyAll, List.foldl_append]

theorem applyAll_preserves (P : St → Prop) (xs : List Stmt) (hstep : ∀ x ∈ xs, ∀ s, P s → P (apply x s)) :
    ∀ s, P s → P (applyAll xs s) := by
  induction xs with
  | nil => intro s h; exact h
  | cons x xs ih =>
    intro s h
    rw [applyAll_cons]
    exact ih (fun y hy => hstep y (List.mem_cons_of_mem _ hy)) _ (hstep x (by simp) s h)

theorem issue_log (f : Option Fault) (x : Stmt) (c : Ctx) : (issue f x c).1.log = c.log ++ [x] := by
  unfold issue; cases f with
  | none => rfl
  | some ft => simp only []; split <;> rfl

theorem issue_st (f : Option Fault) (x : Stmt) (c : Ctx) :
    (issue f x c).1.st = c.st ∨ (issue f x c).1.st = apply x c.st := by
  unfold issue; cases f with
  | none => right; rfl
  | some ft =>
    simp only []
    split
    · cases ft.applied <;> simp
    · right; rfl

theorem issue_ok {f : Option Fault} {x : Stmt} {c : Ctx} (h : (issue f x c).2 = true) :
    (issue f x c).1.st = apply x c.st := by
  unfold issue at h ⊢; cases f with
  | none => rfl
  | some ft =>
    simp only [] at h ⊢
    split at h
    · cases h
    · rename_i hne; simp [hne]

theorem issue_none (x : Stmt) (c : Ctx) : issue none x c = (⟨apply x c.st, c.log ++ [x]⟩, true) := rfl

/-- a statement that reports an error is the one the fault names -/
theorem issue_fail {f : Option Fault} {x : Stmt} {c : Ctx} (h : (issue f x c).2 = false) :
    ∃ ft, f = some ft ∧ ft.idx = c.log.length := by
  unfold issue at h; cases f with
  | none => cases h
  | some ft =>
    simp only [] at h
    split at h
    · rename_i he; exact ⟨ft, rfl, he⟩
    · cases h

theorem issue_succ {f : Option Fault} {x : Stmt} {c : Ctx} (h : (issue f x c).2 = true) :
    ∀ ft, f = some ft → ft.idx ≠ c.log.length := by
  intro ft hf; subst hf
  unfold issue at h
  simp only [] at h
  split at h
  · cases h
  · assumption

theorem execPlan_nil (f : Option Fault) (c : Ctx) : execPlan f [] c = (c, true) := rfl

theorem execPlan_cons (f : Option Fault) (x : Stmt) (xs : List Stmt) (c : Ctx) :
    execPlan f (x :: xs) c = if (issue f x c).2 = true then execPlan f xs (issue f x c).1 else ((issue f x c).1, false) := by
  rw [execPlan]
  rcases h : issue f x c with ⟨c', ok⟩
  cases ok <;> simp

theorem execPlan_append (f : Option Fault) (xs ys : List Stmt) (c : Ctx) :
    execPlan f (xs ++ ys) c =
      if (execPlan f xs c).2 = true then execPlan f ys (execPlan f xs c).1 else ((execPlan f xs c).1, false) := by
  induction xs generalizing c with
  | nil => simp [execPlan_nil]
  | cons x xs ih =>
    rw [List.cons_append, execPlan_cons, execPlan_cons]
    by_cases h : (issue f x c).2 = true
    · simp only [h, if_true]; exact ih _
    · simp [h]

/-- the database after some statements of a plan were sent satisfies every property that each statement keeps -/
theorem execPlan_preserves (P : St → Prop) (f : Option Fault) (xs : List Stmt)
    (hstep : ∀ x ∈ xs, ∀ s, P s → P (apply x s)) : ∀ c, P c.st → P (execPlan f xs c).1.st := by
  induction xs with
  | nil => intro c h; exact h
  | cons x xs ih =>
    intro c h
    rw [execPlan_cons]
    have hx : P (issue f x c).1.st := by
      rcases issue_st f x c with e | e
      · rw [e]; exact h
      · rw [e]; exact hstep x (by simp) _ h
    by_cases hok : (issue f x c).2 = true
    · simp only [hok, if_true]
      exact ih (fun y hy => hstep y (List.mem_cons_of_mem _ hy)) _ hx
    · simp only [hok]; exact hx

theorem execPlan_ok {f : Option Fault} {xs : List Stmt} : ∀ {c : Ctx}, (execPlan f xs c).2 = true →
    (execPlan f xs c).1.st = applyAll xs c.st ∧ (execPlan f xs c).1.log = c.log ++ xs := by
  induction xs with
  | nil => intro c _; simp [execPlan_nil, applyAll_nil]
  | cons x xs ih =>
    intro c h
    rw [execPlan_cons] at h ⊢
    by_cases hok : (issue f x c).2 = true
    · simp only [hok, if_true] at h ⊢
      have := ih h
      rw [this.1, this.2, issue_ok hok, issue_log, applyAll_cons]
      simp
    · simp [hok] at h

theorem execPlan_log_prefix (f : Option Fault) (xs : List Stmt) :
    ∀ c, ∃ e, (execPlan f xs c).1.log = c.log ++ e ∧ e <+: xs := by
  induction xs with
  | nil => intro c; exact ⟨[], by simp [execPlan_nil], List.prefix_refl _⟩
  | cons x xs ih =>
    intro c
    rw [execPlan_cons]
    by_cases hok : (issue f x c).2 = true
    · simp only [hok, if_true]
      obtain ⟨e, he, hp⟩ := ih (issue f x c).1
      refine ⟨x :: e, ?_, ?_⟩
      · rw [he, issue_log]; simp
      · exact (List.cons_prefix_cons).mpr ⟨rfl, hp⟩
    · simp only [hok]
      refine ⟨[x], ?_, ?_⟩
      · simp [issue_log]
      · exact (List.cons_prefix_cons).mpr ⟨rfl, List.nil_prefix⟩

theorem execPlan_none (xs : List Stmt) : ∀ c, execPlan none xs c = (⟨applyAll xs c.st, c.log ++ xs⟩, true) := by
  induction xs with
  | nil => intro c; simp [execPlan_nil, applyAll_nil]
  | cons x xs ih =>
    intro c
    rw [execPlan_cons, issue_none]
    simp [ih, applyAll_cons]

end Qryn.Ctrl.Rotate
