import Qryn.Proofs.PlanClosed
import Qryn.Proofs.WfBuild
import Qryn.LogQL.PlannerMetric
/-! C10: the atoms of the LogQL METRIC planner model `planMetric` are well formed (`wfSel`) for every context
    and every query of the modelled fragment. By/without label names and the unwrap label are string leaves
    (escaped); durations, the `k` of topk, comparison literals and the `ctx.Id()` counters are numbers (digits). -/
namespace Qryn.LogQL
open Qryn Qryn.Sql Qryn.Lex

/-! ### column-list helpers -/
theorem wfExprs_map_col (cols : List Expr) (g : Expr → String → Expr)
    (hg : ∀ e a, wfExpr (.col e a) = true → wfExpr (g e a) = true) (h : wfExprs cols = true) :
    wfExprs (cols.map (fun | .col e a => g e a | c => c)) = true := by
  rw [wfExprs_eq_all] at h ⊢
  simp only [List.all_map, List.all_eq_true] at h ⊢
  intro x hx
  have hxw := h x hx
  cases x <;> first | exact hg _ _ hxw | exact hxw

theorem wfExprs_renameCol (cols : List Expr) (old new : String) (hn : rawC (b " as " ++ b new) = true)
    (h : wfExprs cols = true) : wfExprs (renameCol cols old new) = true := by
  unfold renameCol
  refine wfExprs_map_col cols (fun e a => if a == old then .col e new else .col e a) ?_ h
  intro e a hw
  by_cases ha : (a == old) = true
  · simp only [ha, if_true]
    exact wfExpr_col _ _ (wfExpr_col_inner hw) hn
  · simp only [ha]; exact hw

theorem wfExprs_patchCol (cols : List Expr) (name : String) (f : Expr → Expr)
    (hf : ∀ e, wfExpr e = true → wfExpr (f e) = true) (h : wfExprs cols = true) :
    wfExprs (patchCol cols name f) = true := by
  unfold patchCol
  refine wfExprs_map_col cols (fun e a => if a == name then .col (f e) name else .col e a) ?_ h
  intro e a hw
  by_cases ha : (a == name) = true
  · simp only [ha, if_true]
    have : a = name := by simpa using ha
    subst this
    simp only [wfExpr, Bool.and_eq_true] at hw ⊢
    exact ⟨hf e hw.1, hw.2⟩
  · simp only [ha]; exact hw

theorem wfExpr_getCol (cols : List Expr) (name : String) (h : wfExprs cols = true) (d : Expr) (hd : wfExpr d = true) :
    wfExpr ((getCol cols name).getD d) = true := by
  unfold getCol
  induction cols with
  | nil => simpa using hd
  | cons c cs ih =>
    simp only [wfExprs, Bool.and_eq_true] at h
    simp only [List.findSome?_cons]
    cases c with
    | col e a =>
      by_cases ha : (a == name) = true
      · simp only [ha, if_true, Option.getD_some]
        exact wfExpr_col_inner h.1
      · simp only [ha]; exact ih h.2
    | _ => exact ih h.2

/-! ### the fingerprint sub-query -/
structure MAtomsOK (c : MCtx) : Prop where
  tables : TablesOK c.toCtx
  m15 : rawE (b c.metrics15Table) = true

theorem fpChain_ne_nil (c : Ctx) (cur : Sel) (k : Nat) (conds : List LabelCond) : fpChain c cur k conds ≠ [] := by
  cases conds <;> simp [fpChain]

theorem wf_fpQuery (c : Ctx) (q : LogQuery) (ht : TablesOK c) (hn : ∀ lc ∈ labelConds q, condNamesOK lc) :
    wfSel (fpQuery c q) = true := by
  have ha := atomsOK_of_tables c q ht
  have hq := queryOK_of_names q hn
  have hchain := wf_fpChain c ha.ts (labelConds q) 0 _ (wf_streamSelect c q ha) hq.conds hq.subs
  rw [wfWiths_eq_all] at hchain
  unfold fpQuery
  simp only
  cases hl : (fpChain c (streamSelect c q.matchers) 0 (labelConds q)).getLast? with
  | none => exact absurd (List.getLast?_eq_none_iff.mp hl) (fpChain_ne_nil _ _ _ _)
  | some w =>
    obtain ⟨a, s⟩ := w
    simp only
    have hmem := List.mem_of_getLast? hl
    have hw : wfWith (a, s) = true := (List.all_eq_true.mp hchain) _ hmem
    simp only [wfWith, Bool.and_eq_true] at hw
    refine wfSel_setWiths s _ hw.2 ?_
    rw [wfWiths_eq_all, List.all_eq_true]
    exact fun x hx => (List.all_eq_true.mp hchain) x (List.dropLast_subset _ hx)

theorem word_fp_sel : WordS "fp_sel" := by constructor <;> decide +kernel

theorem withOK_fpWith (c : Ctx) (q : LogQuery) (ht : TablesOK c) (hn : ∀ lc ∈ labelConds q, condNamesOK lc) :
    withOK (fpWith c q) := ⟨word_fp_sel.withAlias, wf_fpQuery c q ht hn⟩

theorem wf_samplesInit (c : Ctx) (ht : TablesOK c) : wfSelBody (samplesInit c) = true := by
  have hg := wf_getTypes c (rawE_intText _)
  simp only [samplesInit, simpleCol, wfSelBody, wfExprs, wfExpr, wfJoins, and_, ge, lt, Bool.and_eq_true, Bool.and_true,
    ht.samples, rawE_intText, hg]
  decide +kernel

theorem wf_fingerprintFilter (c : Ctx) (q : LogQuery) (ht : TablesOK c) (hn : ∀ lc ∈ labelConds q, condNamesOK lc)
    (main : Sel) (hm : wfSelBody main = true) : wfSel (fingerprintFilter c q main) = true := by
  unfold fingerprintFilter
  refine wfSel_andWhere _ _ (wfSel_with_ main _ hm ?_) ?_
  · intro w hw
    simp only [List.mem_singleton] at hw
    subst hw
    exact withOK_fpWith c q ht hn
  · simp only [wfExprs, wfExpr, Alias.text, Bool.and_true]; decide +kernel

theorem wf_foldl_andWhere (fs : List LineFilter) : ∀ s : Sel, wfSel s = true →
    wfSel (fs.foldl (fun s f => s.andWhere [lineClause f]) s) = true := by
  induction fs with
  | nil => intro s h; simpa using h
  | cons f fs ih =>
    intro s h
    simp only [List.foldl_cons]
    exact ih _ (wfSel_andWhere s _ h (by simp [wfExprs, wf_lineClause f]))

theorem wf_samplesMain (c : Ctx) (q : LogQuery) (ht : TablesOK c) (hn : ∀ lc ∈ labelConds q, condNamesOK lc) :
    wfSel (samplesMain c q) = true :=
  wf_foldl_andWhere _ _ (wf_fingerprintFilter c q ht hn _ (wf_samplesInit c ht))

/-! ### the matrix functions -/
theorem wf_secLit (d : Nat) : wfExpr (secLit d) = true := by
  simp only [secLit, wfExpr]; exact rawE_fixedText _ _

theorem wf_bucketCol (src : String) (d : Int) (hs : rawE (b src) = true) : wfExpr (bucketCol src d) = true := by
  simp only [bucketCol, wfExpr, wfExprs, hs, rawE_intText, Bool.and_true, Bool.true_and, Bool.and_eq_true]
  decide +kernel

theorem wf_lraValue (fn : RangeFn) (sec : Expr) (hs : wfExpr sec = true) : wfExpr (lraValue fn sec) = true := by
  cases fn <;> simp only [lraValue, perSecond, countF, bytesF, wfExpr, wfExprs, hs, rawE_intText, Bool.and_true, Bool.and_eq_true] <;>
    decide +kernel

theorem word_agg_a : WordS "agg_a" := by constructor <;> decide +kernel

theorem wf_lraSel (fn : RangeFn) (d : Nat) (wl : Bool) (main : Sel) (hm : wfSel main = true) :
    wfSel (lraSel fn d wl main) = true := by
  unfold lraSel
  simp only
  refine wfSel_with_ _ _ ?_ ?_
  · have h1 := wf_bucketCol "time_series.timestamp_ns" d (by decide +kernel)
    have h2 := wf_lraValue fn (.int d) (by simp only [wfExpr]; exact rawE_intText _)
    cases wl <;>
      simp only [emptyStr, simpleCol, wfSelBody, wfExprs, wfExpr, wfJoins, List.append_nil, List.cons_append, List.nil_append,
        if_true, if_false, Bool.false_eq_true, Alias.text, h1, h2, Bool.and_eq_true, Bool.and_true, Bool.true_and] <;>
      decide +kernel
  · intro w hw
    simp only [List.mem_singleton] at hw
    subst hw
    exact ⟨word_agg_a.withAlias, wfSel_setCols main _ hm
      (wfExprs_renameCol _ _ _ (by decide +kernel) (wfExprs_cols (wfSel_body hm)))⟩

theorem wf_shortcutValue (fn : RangeFn) (sec : Expr) (hs : wfExpr sec = true) : wfExpr (shortcutValue fn sec) = true := by
  cases fn <;> simp only [shortcutValue, wfExpr, wfExprs, hs, Bool.and_true, Bool.and_eq_true] <;> decide +kernel

theorem wf_metrics15Sel (c : MCtx) (fn : RangeFn) (d : Nat) (h : MAtomsOK c) : wfSelBody (metrics15Sel c fn d) = true := by
  have hg := wf_getTypes c.toCtx (rawE_intText _)
  have h1 := wf_bucketCol "samples.timestamp_ns" d (by decide +kernel)
  have h2 := wf_shortcutValue fn (secLit d) (wf_secLit d)
  simp only [metrics15Sel, emptyStr, simpleCol, wfSelBody, wfExprs, wfExpr, wfJoins, and_, ge, lt, h.m15, hg, h1, h2,
    rawE_intText, Bool.and_eq_true, Bool.and_true, Bool.true_and]
  decide +kernel

/-! by / without -/
theorem word_labels_ : WordS "labels_" := by constructor <;> decide +kernel
theorem word_pre_without_ : WordS "pre_without_" := by constructor <;> decide +kernel
theorem word_pre_by_without_ : WordS "pre_by_without_" := by constructor <;> decide +kernel
theorem word_fingerprint : WordS "fingerprint" := by constructor <;> decide +kernel
theorem word_timestamp_ns : WordS "timestamp_ns" := by constructor <;> decide +kernel
theorem word_value : WordS "value" := by constructor <;> decide +kernel
theorem word_labels : WordS "labels" := by constructor <;> decide +kernel
theorem word_string : WordS "string" := by constructor <;> decide +kernel
theorem word_new_fingerprint : WordS "new_fingerprint" := by constructor <;> decide +kernel
theorem aw_dot_new_fingerprint : allWord (b ".new_fingerprint") = true := by decide +kernel
theorem aw_dot_timestamp_ns : allWord (b ".timestamp_ns") = true := by decide +kernel
theorem aw_dot_value : allWord (b ".value") = true := by decide +kernel
theorem aw_dot_labels : allWord (b ".labels") = true := by decide +kernel
theorem aw_dot_fingerprint : allWord (b ".fingerprint") = true := by decide +kernel

theorem wf_emptyStr : wfExpr emptyStr = true := by
  simp only [emptyStr, wfExpr, Bool.and_eq_true]; decide +kernel

theorem wf_hashLabels : wfExpr hashLabels = true := by
  simp only [hashLabels, wfExpr, wfExprs, Bool.and_true, Bool.and_eq_true]; decide +kernel

theorem wf_byWithoutCol (g : Grouping) (e : Expr) (he : wfExpr e = true) : wfExpr (byWithoutCol g e) = true := by
  simp only [byWithoutCol, wfExpr]; exact he

theorem wf_timeSeriesSel' (c : Ctx) (ht : TablesOK c) : wfSelBody (timeSeriesSel c) = true :=
  wf_timeSeriesSel c ⟨[], []⟩ (atomsOK_of_tables c _ ht)

theorem rawC_join (tp : String) (l : String) (ht : rawC (b " " ++ b tp ++ b " JOIN ") = true) (hl : WordS l) :
    rawC (b " " ++ b tp ++ b " JOIN " ++ b (Alias.named l).text ++ b " ON ") = true :=
  rawC_wrap ht hl.isRawE (by decide +kernel)

theorem rawC_joinType (c : Ctx) : rawC (b " " ++ b (joinType c) ++ b " JOIN ") = true := by
  unfold joinType
  cases c.isCluster <;> simp only [if_true, if_false, Bool.false_eq_true] <;> decide +kernel

theorem wf_byWithoutTS (c : Ctx) (ht : TablesOK c) (id : Nat) (g : Grouping) (main : Sel) (hm : wfSel main = true) :
    wfSel (byWithoutTS c id g main) = true := by
  unfold byWithoutTS
  simp only
  have hl : WordS ("labels_" ++ toString (id + 1)) := word_labels_.nat _
  have hp : WordS ("pre_without_" ++ toString (id + 2)) := word_pre_without_.nat _
  refine wfSel_with_ _ _ ?_ ?_
  · have c1 := wfExpr_simpleCol (hl.app aw_dot_new_fingerprint) word_fingerprint
    have c2 := wfExpr_simpleCol (hp.app aw_dot_timestamp_ns) word_timestamp_ns
    have c3 := wfExpr_simpleCol (hp.app aw_dot_value) word_value
    have c5 := wfExpr_simpleCol (hl.app aw_dot_labels) word_labels
    have f := wfExpr_withRef_word hp
    have j := rawC_join (joinType c) _ (rawC_joinType c) hl
    have e1 := wfExpr_raw_word (hp.app aw_dot_fingerprint)
    have e2 := wfExpr_raw_word (hl.app aw_dot_fingerprint)
    have hon : wfExpr (eq (.raw ("pre_without_" ++ toString (id + 2) ++ ".fingerprint"))
        (.raw ("labels_" ++ toString (id + 1) ++ ".fingerprint"))) = true := by
      simp only [eq, wfExpr, wfExprs, Bool.and_true, Bool.and_eq_true] at e1 e2 ⊢
      exact ⟨by decide +kernel, e1, e2⟩
    unfold wfSelBody
    simp only [wfExprs, wfJoins, c1, c2, c3, c5, f, j, hon, wf_emptyStr, Bool.and_self]
  · intro w hw
    simp only [List.mem_cons, List.not_mem_nil, or_false] at hw
    rcases hw with rfl | rfl
    · exact ⟨hp.withAlias, hm⟩
    · refine ⟨hl.withAlias, ?_⟩
      have hts := wf_timeSeriesSel' c ht
      have hsel : wfSel (timeSeriesSel c) = true := by
        rw [wfSel_eq, hts]; simp [timeSeriesSel, Sel.withs, wfWiths]
      refine wfSel_setCols _ _ hsel ?_
      rw [wfExprs_append]
      rw [wfExprs_patchCol _ _ _ (fun e he => wf_byWithoutCol g e he) (wfExprs_cols hts)]
      simp only [wfExprs, wfExpr_col _ "new_fingerprint" wf_hashLabels word_new_fingerprint.asAlias, Bool.and_self]

theorem wf_byWithoutSimple (id : Nat) (g : Grouping) (main : Sel) (hm : wfSel main = true) :
    wfSel (byWithoutSimple id g main) = true := by
  unfold byWithoutSimple
  simp only
  have hp : WordS ("pre_by_without_" ++ toString (id + 1)) := word_pre_by_without_.nat _
  refine wfSel_with_ _ _ ?_ ?_
  · have c1 := wfExpr_simpleCol word_timestamp_ns word_timestamp_ns
    have c2 := wfExpr_col _ "fingerprint" wf_hashLabels word_fingerprint.asAlias
    have c3 := wfExpr_col _ "labels" (wf_byWithoutCol g _ (wfExpr_raw_word (hp.app aw_dot_labels))) word_labels.asAlias
    have c4 := wfExpr_simpleCol word_string word_string
    have c5 := wfExpr_simpleCol word_value word_value
    have f := wfExpr_withRef_word hp
    unfold wfSelBody
    simp only [wfExprs, wfJoins, c1, c2, c3, c4, c5, f, Bool.and_self]
  · intro w hw
    simp only [List.mem_singleton] at hw
    subst hw
    exact ⟨hp.withAlias, hm⟩

theorem wf_planByWithout (c : Ctx) (ht : TablesOK c) (useTS : Bool) (g : Option Grouping) (s : PState)
    (hs : wfSel s.sel = true) : wfSel (planByWithout c useTS g s).sel = true := by
  unfold planByWithout
  cases g with
  | none => exact hs
  | some g =>
    cases useTS
    · exact wf_byWithoutSimple _ g _ hs
    · exact wf_byWithoutTS c ht _ g _ hs

theorem wf_unwrapValue (fn : UnwrapFn) (sec : Expr) (hs : wfExpr sec = true) : wfExpr (unwrapValue fn sec) = true := by
  cases fn <;> simp only [unwrapValue, perSecond, wfExpr, wfExprs, hs, rawE_intText, Bool.and_true, Bool.and_eq_true] <;> decide +kernel

theorem word_unwrap_1 : WordS "unwrap_1" := by constructor <;> decide +kernel

theorem wf_unwrapFnSel (fn : UnwrapFn) (d : Nat) (main : Sel) (hm : wfSel main = true) :
    wfSel (unwrapFnSel fn d main) = true := by
  unfold unwrapFnSel
  refine wfSel_with_ _ _ ?_ ?_
  · have h1 := wf_bucketCol "timestamp_ns" d (by decide +kernel)
    have h2 := wf_unwrapValue fn (.int d) (by simp only [wfExpr]; exact rawE_intText _)
    simp only [emptyStr, wfSelBody, wfExprs, wfExpr, wfJoins, Alias.text, h1, h2, Bool.and_eq_true, Bool.and_true, Bool.true_and]
    decide +kernel
  · intro w hw
    simp only [List.mem_singleton] at hw
    subst hw
    exact ⟨word_unwrap_1.withAlias, hm⟩

theorem wf_aggValue (fn : AggFn) : wfExpr (aggValue fn) = true := by
  cases fn <;> simp only [aggValue, wfExpr, wfExprs, Bool.and_true, Bool.and_eq_true] <;> decide +kernel

theorem word_lra_main : WordS "lra_main" := by constructor <;> decide +kernel

theorem wf_aggSel (fn : AggFn) (wl : Bool) (main : Sel) (hm : wfSel main = true) : wfSel (aggSel fn wl main) = true := by
  unfold aggSel
  refine wfSel_with_ _ _ ?_ ?_
  · have h2 := wf_aggValue fn
    cases wl <;>
      simp only [emptyStr, simpleCol, wfSelBody, wfExprs, wfExpr, wfJoins, List.append_nil, List.cons_append, List.nil_append,
        if_true, if_false, Bool.false_eq_true, Alias.text, h2, Bool.and_eq_true, Bool.and_true, Bool.true_and] <;>
      decide +kernel
  · intro w hw
    simp only [List.mem_singleton] at hw
    subst hw
    exact ⟨word_lra_main.withAlias, hm⟩

theorem rawE_topkText (isTop hasLabels : Bool) (k : Nat) : rawE (topkText isTop hasLabels k) = true := by
  unfold topkText
  refine rawC_toE (rawC_wrap ?_ (rawE_natDigits k) kw_close)
  cases isTop <;> cases hasLabels <;> decide +kernel

theorem word_par_a : WordS "par_a" := by constructor <;> decide +kernel
theorem word_par_b : WordS "par_b" := by constructor <;> decide +kernel

theorem wf_tupleAt (i : Nat) : wfExpr (.tupleAt "arr_b" i) = true := by
  simp only [wfExpr]
  refine rawE_word (allWord_append (allWord_append (by decide +kernel) (by decide +kernel)) (allWord_natDigits i))

theorem wf_topkSel (isTop : Bool) (k : Nat) (main : Sel) (hm : wfSel main = true) : wfSel (topkSel isTop k main) = true := by
  unfold topkSel
  simp only
  have ht := rawE_topkText isTop (hasColumn main.cols "labels") k
  have t1 := wf_tupleAt 1
  have t2 := wf_tupleAt 2
  have t3 := wf_tupleAt 3
  refine wfSel_with_ _ _ ?_ ?_
  · cases hasColumn main.cols "labels" <;>
      simp only [emptyStr, simpleCol, wfSelBody, wfExprs, wfExpr, wfJoins, List.append_nil, List.cons_append, List.nil_append,
        if_true, if_false, Bool.false_eq_true, Alias.text, t1, t2, t3, Bool.and_eq_true, Bool.and_true, Bool.true_and] <;>
      decide +kernel
  · intro w hw
    simp only [List.mem_singleton] at hw
    subst hw
    refine ⟨word_par_b.withAlias, ?_⟩
    dsimp only
    refine wfSel_with_ _ _ ?_ ?_
    · simp only [simpleCol, wfSelBody, wfExprs, wfExpr, wfJoins, Alias.text, ht, Bool.and_eq_true, Bool.and_true, Bool.true_and]
      decide +kernel
    · intro w hw
      simp only [List.mem_singleton] at hw
      subst hw
      exact ⟨word_par_a.withAlias, hm⟩

theorem wf_cmpExpr (cm : Comparison) : wfExpr (cmpExpr cm) = true := by
  have hl : wfExpr (cmpLit cm.val) = true := by simp only [cmpLit, wfExpr]; exact rawE_fixedText _ _
  unfold cmpExpr
  cases cm.op <;> simp only [gt, lt, ge, le, eq, neq, wfExpr, wfExprs, hl, Bool.and_true, Bool.and_eq_true] <;> decide +kernel

theorem wf_comparisonSel (cm : Comparison) (main : Sel) (hm : wfSel main = true) : wfSel (comparisonSel cm main) = true :=
  wfSel_andHaving main _ hm (by simp [wfExprs, wf_cmpExpr cm])

theorem word_pre_step_fix : WordS "pre_step_fix" := by constructor <;> decide +kernel

theorem wf_stepFixSel (c : MCtx) (d : Nat) (main : Sel) (hm : wfSel main = true) : wfSel (stepFixSel c d main) = true := by
  unfold stepFixSel
  by_cases h : c.stepNs ≤ (d : Int)
  · simp only [h, if_true]; exact hm
  · simp only [h, if_false]
    refine wfSel_with_ _ _ ?_ ?_
    · have h1 := wf_bucketCol "pre_step_fix.timestamp_ns" c.stepNs (by decide +kernel)
      cases hasColumn main.cols "labels" <;>
        simp only [emptyStr, wfSelBody, wfExprs, wfExpr, wfJoins, List.append_nil, List.cons_append, List.nil_append,
          if_true, if_false, Bool.false_eq_true, Alias.text, h1, Bool.and_eq_true, Bool.and_true, Bool.true_and] <;>
        decide +kernel
    · intro w hw
      simp only [List.mem_singleton] at hw
      subst hw
      exact ⟨word_pre_step_fix.withAlias, hm⟩

theorem word_main : WordS "main" := by constructor <;> decide +kernel
theorem word__time_series : WordS "_time_series" := by constructor <;> decide +kernel
theorem word_prefinal : WordS "prefinal" := by constructor <;> decide +kernel

theorem wf_labelsJoin (c : Ctx) (q : LogQuery) (ht : TablesOK c) (hn : ∀ lc ∈ labelConds q, condNamesOK lc)
    (main : Sel) (hm : wfSel main = true) : wfSel (labelsJoin c q main) = true := by
  unfold labelsJoin
  refine wfSel_with_ _ _ (wf_joinedSel c) ?_
  intro w hw
  simp only [List.mem_cons, List.not_mem_nil, or_false] at hw
  rcases hw with rfl | rfl
  · exact ⟨word_main.withAlias, hm⟩
  · refine ⟨word__time_series.withAlias, wfSel_with_ _ _ (wf_timeSeriesSel' c ht) ?_⟩
    intro w hw
    simp only [List.mem_singleton] at hw
    subst hw
    exact withOK_fpWith c q ht hn

theorem wf_unwrapSel (label : String) (joined : Sel) (hj : wfSel joined = true) : wfSel (unwrapSel label joined) = true := by
  unfold unwrapSel
  have hc := wfExprs_cols (wfSel_body hj)
  refine wfSel_setCols _ _ hj (wfExprs_patchCol _ _ _ (fun _ _ => ?_) hc)
  have hsrc : wfExpr (if label = "_entry" then (getCol joined.cols "string").getD (.raw "string")
      else .mapAt ((getCol joined.cols "labels").getD (.raw "labels")) label.toUTF8.toList) = true := by
    by_cases hl : label = "_entry"
    · simp only [hl, if_true]
      exact wfExpr_getCol _ _ hc _ (wfExpr_raw_word word_string)
    · simp only [hl, if_false, wfExpr]
      exact wfExpr_getCol _ _ hc _ (wfExpr_raw_word word_labels)
  simp only [wfExpr, wfExprs, hsrc, Bool.and_true, Bool.and_eq_true]
  decide +kernel

theorem wf_finalizeMatrix (req : Sel) (hr : wfSel req = true) : wfSel (finalizeMatrix req) = true := by
  unfold finalizeMatrix
  refine wfSel_with_ _ _ ?_ ?_
  · simp only [simpleCol, wfSelBody, wfExprs, wfExpr, wfJoins, Alias.text, Bool.and_eq_true, Bool.and_true, Bool.true_and]
    decide +kernel
  · intro w hw
    simp only [List.mem_singleton] at hw
    subst hw
    exact ⟨word_prefinal.withAlias, hr⟩

/-- what the theorem assumes of the query: the label names of its label FILTERS are `LabelName` tokens (they are
    embedded as `'name'` without escaping). Nothing is assumed of by/without labels, the unwrap label, values. -/
def MetricNamesOK (q : MetricQuery) : Prop := ∀ lc ∈ labelConds q.rangeAgg.sel, condNamesOK lc

theorem wf_splSel (c : MCtx) (q : MetricQuery) (h : MAtomsOK c) (hn : MetricNamesOK q) : wfSel (splSel c q) = true := by
  unfold splSel
  simp only
  have hmain := wf_samplesMain c.toCtx q.rangeAgg.sel h.tables hn
  cases hk : q.rangeAgg.kind with
  | lra fn => exact hmain
  | unwrap fn label =>
    simp only
    refine wf_unwrapSel _ _ (wf_labelsJoin _ _ h.tables hn _ (wfSel_setOrderBy _ _ hmain ?_))
    unfold dirOf
    cases c.orderAsc <;> simp only [wfExprs, wfExpr, if_true, if_false, Bool.false_eq_true, Bool.and_true] <;> decide +kernel

theorem wf_applyStep (c : MCtx) (q : MetricQuery) (h : MAtomsOK c) (hn : MetricNamesOK q) (s : PState)
    (hs : wfSel s.sel = true) (st : Step) : wfSel (applyStep c q s st).sel = true := by
  cases st with
  | lra fn d => exact wf_lraSel fn d _ _ hs
  | shortcut fn d => exact wf_fingerprintFilter _ _ h.tables hn _ (wf_metrics15Sel c fn d h)
  | unwrapFn fn d g => exact wf_unwrapFnSel fn d _ (wf_planByWithout _ h.tables _ g s hs)
  | agg fn g => exact wf_aggSel fn _ _ (wf_planByWithout _ h.tables _ g s hs)
  | topk isTop k => exact wf_topkSel isTop k _ hs
  | cmp cm => exact wf_comparisonSel cm _ hs

theorem wf_foldl_applyStep (c : MCtx) (q : MetricQuery) (h : MAtomsOK c) (hn : MetricNamesOK q) :
    ∀ (steps : List Step) (s : PState), wfSel s.sel = true → wfSel (steps.foldl (applyStep c q) s).sel = true
  | [], s, hs => by simpa using hs
  | st :: steps, s, hs => by
    simp only [List.foldl_cons]
    exact wf_foldl_applyStep c q h hn steps _ (wf_applyStep c q h hn s hs st)

/-- **the atoms of every metric plan are well formed** -/
theorem wf_planMetric (c : MCtx) (q : MetricQuery) (h : MAtomsOK c) (hn : MetricNamesOK q) :
    wfSel (planMetric c q) = true := by
  unfold planMetric
  simp only
  have h1 := wf_foldl_applyStep c q h hn (planSteps q) ⟨splSel c q, (labelConds q.rangeAgg.sel).length⟩ (wf_splSel c q h hn)
  have h2 := wf_stepFixSel c q.rangeAgg.durNs _ h1
  refine wf_finalizeMatrix _ ?_
  by_cases hm : matrixLabels q = true
  · simp only [hm, if_true]; exact h2
  · simp only [hm]; exact wf_labelsJoin _ _ h.tables hn _ h2

end Qryn.LogQL
