import Qryn.Sql.SemX
import Qryn.Proofs.SqlSemLemmas
/-! Equation lemmas for `Sql.SemX` and for the expression nodes of the SQL-side LogQL stages. -/
namespace Qryn.Sql

/-- ORDER BY and LIMIT of a SELECT -/
def finish (ob : List Expr) (lim : Option Expr) (rows : Table) : Table :=
  match lim with
  | some (.int n) => (if ob.isEmpty then rows else sortBy (rowLe (orderKeys ob)) rows).take n.toNat
  | _ => if ob.isEmpty then rows else sortBy (rowLe (orderKeys ob)) rows

theorem evalBodyX_flat (o : Oracles) (db : Db) (env : Env) (ws : List (Alias × Sel)) (dist : Bool) (cols : List Expr)
    (f : Expr) (joins : List (String × Alias × Expr)) (pre wher hv : Option Expr) (ob : List Expr) (lim : Option Expr) :
    evalBodyX o db env (.mk ws dist cols (some f) joins pre wher [] hv ob lim) =
      finish ob lim
        (((joins.foldl (fun t (j : String × Alias × Expr) => anyLeftJoin o env t j.2.1 j.2.2) (sourceRowsX db env f)).filter
            (fun r => optB o env (aliasRow o env cols r) pre && optB o env (aliasRow o env cols r) wher)).map
          (fun r => project o env cols (aliasRow o env cols r))) := by
  simp only [evalBodyX, finish]
  cases lim with
  | none => rfl
  | some l => cases l <;> rfl

theorem evalBodyX_group (o : Oracles) (db : Db) (env : Env) (ws : List (Alias × Sel)) (dist : Bool) (cols : List Expr)
    (f : Option Expr) (joins : List (String × Alias × Expr)) (pre wher hv : Option Expr) (g : Expr) (gs : List Expr)
    (ob : List Expr) (lim : Option Expr) :
    evalBodyX o db env (.mk ws dist cols f joins pre wher (g :: gs) hv ob lim) =
      evalBody o db env (.mk ws dist cols f joins pre wher (g :: gs) hv ob lim) := rfl

theorem finish_none (rows : Table) : finish [] none rows = rows := rfl

theorem evalWithsX_append (o : Oracles) (db : Db) (env : Env) (a b : List (Alias × Sel)) :
    evalWithsX o db env (a ++ b) = evalWithsX o db (evalWithsX o db env a) b := by
  induction a generalizing env with
  | nil => rfl
  | cons x a ih => obtain ⟨al, s⟩ := x; simp only [List.cons_append, evalWithsX, ih]

section
variable (o : Oracles) (env : Env) (r : Row)

theorem evalE_mapUpdate_map (a b : Expr) (x y : List (Bytes × Bytes)) (ha : evalE o env r a = .map x)
    (hb : evalE o env r b = .map y) : evalE o env r (.call "mapUpdate" [a, b]) = .map (mapUpdate x y) := by
  rw [evalE.eq_def]; simp [ha, hb]
theorem evalE_mapUpdate_null (a b : Expr) (y : List (Bytes × Bytes)) (ha : evalE o env r a = .null)
    (hb : evalE o env r b = .map y) : evalE o env r (.call "mapUpdate" [a, b]) = .map y := by
  rw [evalE.eq_def]; simp [ha, hb]
theorem evalE_jsonMap (ps : List (Bytes × List JArg)) (s : Bytes) (h : r.get "string" = .str s) :
    evalE o env r (.jsonMap ps) = .map (ps.map (fun p => (p.1, o.jsonField s p.2))) := by
  rw [evalE.eq_def]; simp [h]
theorem evalE_regexMap (labels : List Bytes) (re : Bytes) (id : Nat) (s : Bytes) (h : r.get "string" = .str s) :
    evalE o env r (.regexMap labels re id) = .map (regexPairs labels (o.reCaps re s)) := by
  rw [evalE.eq_def]; simp [h]
theorem evalE_mapDrop (m : Expr) (ps : List (Bytes × Bytes)) :
    evalE o env r (.mapDrop m ps) = .map ((asMap (evalE o env r m)).filter (dropKeeps ps)) := by
  rw [evalE.eq_def]
theorem evalE_labelsFp (m : List (Bytes × Bytes)) (h : r.get "labels" = .map m) :
    evalE o env r .labelsFp = .int (o.cityHash (sortPairs m)) := by
  rw [evalE.eq_def]; simp [h]
theorem evalE_mapAt (m : Expr) (key : Bytes) (kv : List (Bytes × Bytes)) (h : evalE o env r m = .map kv) :
    evalE o env r (.mapAt m key) = .str ((kv.lookup key).getD []) := by
  rw [evalE.eq_def]; simp [h]
end

end Qryn.Sql
