import Qryn.Ingest.LabelPipeline
import Qryn.Proofs.Utf8
import Qryn.Proofs.JsonStr
import Qryn.Proofs.Fingerprint
/-! Lemmas for the label pipeline (`Ingest/LabelPipeline.lean`): the discipline of step orders is sound, facts
    about `strings.ToValidUTF8` around the truncation at byte 100, the encoding/json view of a valid document. -/
namespace Qryn.Pipeline
open Qryn Qryn.Ingest

/-! ### validity of label lists -/

def AllValid (ls : Labels) : Prop := ∀ l, l ∈ ls → validUTF8 l.1 = true ∧ validUTF8 l.2 = true

theorem allValid_validLabels (ls : Labels) : AllValid (validLabels ls) := by
  intro l hl
  simp only [validLabels, List.mem_map] at hl
  obtain ⟨a, _, rfl⟩ := hl
  exact ⟨toValidUTF8_valid' _, toValidUTF8_valid' _⟩

theorem validLabels_of_allValid (ls : Labels) (h : AllValid ls) : validLabels ls = ls := by
  induction ls with
  | nil => rfl
  | cons a rest ih =>
    have ha := h a (by simp)
    have hr : AllValid rest := fun l hl => h l (by simp [hl])
    simp only [validLabels, List.map_cons] at ih ⊢
    rw [ih hr, toValidUTF8_of_valid' _ ha.1, toValidUTF8_of_valid' _ ha.2]

theorem allValid_effective (t : Nat) (ls : Labels) (h : AllValid ls) : AllValid (effective t ls).1 := by
  intro l hl
  unfold effective at hl
  split at hl
  · exact h l hl
  · exact h l (List.mem_filter.mp hl).1

/-! ### the discipline is sound -/

/-- what the flags claim about an interpreter state -/
structure Inv (f : Bool × Bool) (nfp ndoc : Nat) (st : St) : Prop where
  valid : f.1 = true → AllValid st.labels
  fpLen : st.fpIn.length = nfp
  docLen : st.docIn.length = ndoc
  fpd : f.2 = true → st.fpIn = [st.labels]
  docs : nfp ≤ 1 → ∀ d, d ∈ st.docIn → st.fpIn = [d]
  fpValid : ∀ a, a ∈ st.fpIn → AllValid a

theorem xf_inv (t : Nat) (x : Xf) (f : Bool × Bool) (ls : Labels) (hv : f.1 = true → AllValid ls) :
    ((xfFlags f x).1 = true → AllValid (applyXf t x ls)) ∧ ((xfFlags f x).2 = true → f.2 = true ∧ applyXf t x ls = ls) := by
  cases x with
  | ttlStrip =>
    simp only [xfFlags, applyXf]
    exact ⟨fun h => allValid_effective t ls (hv h), fun h => by simp at h⟩
  | validUTF8 =>
    simp only [xfFlags, applyXf]
    by_cases h1 : f.1 = true
    · simp only [h1, ↓reduceIte]
      exact ⟨fun _ => by rw [validLabels_of_allValid ls (hv h1)]; exact hv h1,
             fun h => ⟨h, validLabels_of_allValid ls (hv h1)⟩⟩
    · simp only [h1, Bool.false_eq_true, ↓reduceIte]
      exact ⟨fun _ => allValid_validLabels ls, fun h => by simp at h⟩
  | sanitize =>
    simp only [xfFlags, applyXf]
    exact ⟨fun h => by simp at h, fun h => by simp at h⟩

theorem xfs_inv (t : Nat) (xs : List Xf) : ∀ (f : Bool × Bool) (ls : Labels), (f.1 = true → AllValid ls) →
    ((xfsFlags f xs).1 = true → AllValid (applyXfs t xs ls)) ∧
    ((xfsFlags f xs).2 = true → f.2 = true ∧ applyXfs t xs ls = ls) := by
  induction xs with
  | nil => intro f ls hv; exact ⟨hv, fun h => ⟨h, rfl⟩⟩
  | cons x rest ih =>
    intro f ls hv
    have h1 := xf_inv t x f ls hv
    have h2 := ih (xfFlags f x) (applyXf t x ls) h1.1
    simp only [xfsFlags, applyXfs, List.foldl_cons] at h2 ⊢
    refine ⟨h2.1, fun h => ?_⟩
    obtain ⟨ha, hb⟩ := h2.2 h
    obtain ⟨hc, hd⟩ := h1.2 ha
    exact ⟨hc, by rw [hb, hd]⟩

theorem disciplined_sound_from (t : Nat) : ∀ (steps : List Step) (f : Bool × Bool) (nfp ndoc : Nat) (st : St),
    Inv f nfp ndoc st → disciplinedFrom steps f nfp ndoc = true →
    ∃ ls, (steps.foldl (stepRun t) st).fpIn = [ls] ∧ AllValid ls ∧
      (steps.foldl (stepRun t) st).docIn ≠ [] ∧ ∀ d, d ∈ (steps.foldl (stepRun t) st).docIn → d = ls := by
  intro steps
  induction steps with
  | nil =>
    intro f nfp ndoc st inv h
    simp only [disciplinedFrom, Bool.and_eq_true, beq_iff_eq, decide_eq_true_eq] at h
    obtain ⟨h1, h2⟩ := h
    have hlen := inv.fpLen
    rw [h1] at hlen
    obtain ⟨ls, hls⟩ := List.length_eq_one_iff.mp hlen
    refine ⟨ls, hls, inv.fpValid ls (by simp [hls]), ?_, ?_⟩
    · intro hd
      have := inv.docLen
      simp only [List.foldl_nil] at hd
      rw [hd] at this
      simp at this
      omega
    · intro d hd
      have := inv.docs (by omega) d hd
      rw [hls] at this
      simpa using this.symm
  | cons s rest ih =>
    intro f nfp ndoc st inv h
    cases s with
    | assign x w =>
      simp only [disciplinedFrom] at h
      simp only [List.foldl_cons]
      refine ih _ nfp ndoc _ ?_ h
      have hw := xfs_inv t w f st.labels inv.valid
      have hx := xf_inv t x (xfsFlags f w) (applyXfs t w st.labels) hw.1
      refine ⟨hx.1, inv.fpLen, inv.docLen, fun h2 => ?_, inv.docs, inv.fpValid⟩
      obtain ⟨ha, hb⟩ := hx.2 h2
      obtain ⟨hc, hd⟩ := hw.2 ha
      simp only [stepRun]
      rw [hb, hd]
      exact inv.fpd hc
    | fingerprint w =>
      simp only [disciplinedFrom, Bool.and_eq_true, beq_iff_eq] at h
      obtain ⟨⟨hv, h0⟩, hrest⟩ := h
      simp only [List.foldl_cons]
      refine ih _ (nfp + 1) ndoc _ ?_ hrest
      have hw := xfs_inv t w f st.labels inv.valid
      have hfp0 : st.fpIn = [] := by
        have := inv.fpLen; rw [h0] at this; exact List.length_eq_zero_iff.mp this
      subst h0
      refine ⟨fun _ => hw.1 hv, by simp [stepRun, hfp0], inv.docLen, fun _ => by simp [stepRun, hfp0], ?_, ?_⟩
      · intro _ d hd
        have := inv.docs (by omega) d hd
        rw [hfp0] at this
        simp at this
      · intro a ha
        simp only [stepRun, hfp0, List.nil_append, List.mem_singleton] at ha
        subst ha
        exact hw.1 hv
    | document w =>
      simp only [disciplinedFrom, Bool.and_eq_true] at h
      obtain ⟨⟨hv, hf⟩, hrest⟩ := h
      simp only [List.foldl_cons]
      refine ih _ nfp (ndoc + 1) _ ?_ hrest
      have hw := xfs_inv t w f st.labels inv.valid
      obtain ⟨hf2, hsame⟩ := hw.2 hf
      have hfpd := inv.fpd hf2
      refine ⟨fun _ => hw.1 hv, inv.fpLen, by simp [stepRun, inv.docLen], fun _ => ?_, ?_, inv.fpValid⟩
      · simp only [stepRun]; rw [hsame]; exact hfpd
      · intro hn d hd
        simp only [stepRun, List.mem_append, List.mem_singleton] at hd ⊢
        rcases hd with hd | hd
        · exact inv.docs hn d hd
        · rw [hd, hsame]; exact hfpd

/-- an order obeying the discipline stores, for EVERY label list: one fingerprint, computed from a list of valid UTF-8
    strings, and documents written from exactly that list -/
theorem disciplined_sound (t : Nat) (steps : List Step) (h : disciplined steps = true) (raw : Labels) :
    ∃ ls, (run t steps raw).fpIn = [ls] ∧ AllValid ls ∧ (run t steps raw).docIn ≠ [] ∧
      ∀ d, d ∈ (run t steps raw).docIn → d = ls := by
  refine disciplined_sound_from t steps (false, false) 0 0 { labels := raw } ?_ h
  exact ⟨fun h => by simp at h, rfl, rfl, fun h => by simp at h, fun _ d hd => by simp at hd, fun a ha => by simp at ha⟩

/-! ### `strings.ToValidUTF8` around a cut -/

theorem lead_three_range {x lo hi : UInt8} (h : lead x = .three lo hi) : 0x80 ≤ lo ∧ hi ≤ 0xBF := by
  unfold lead at h
  split at h; · cases h
  split at h; · cases h
  split at h
  · injection h with h1 h2
    subst h1 h2
    constructor <;> split <;> decide
  split at h <;> cases h

theorem lead_four_range {x lo hi : UInt8} (h : lead x = .four lo hi) : 0x80 ≤ lo ∧ hi ≤ 0xBF := by
  unfold lead at h
  split at h; · cases h
  split at h; · cases h
  split at h; · cases h
  split at h
  · injection h with h1 h2
    subst h1 h2
    constructor <;> split <;> decide
  · cases h

theorem range_not_cont {lo hi c : UInt8} (hlo : 0x80 ≤ lo) (hhi : hi ≤ 0xBF) (hc : isCont c = false) :
    (decide (lo ≤ c) && decide (c ≤ hi)) = false := by
  by_cases h1 : lo ≤ c
  · by_cases h2 : c ≤ hi
    · have : isCont c = true := by
        simp only [isCont, Bool.and_eq_true, decide_eq_true_eq]
        exact ⟨UInt8.le_trans hlo h1, UInt8.le_trans h2 hhi⟩
      rw [this] at hc; cases hc
    · simp [h2]
  · simp [h1]

/-- the head of `b` (if any) is not a continuation byte -/
def HeadNotCont : Bytes → Prop
  | [] => True
  | c :: _ => isCont c = false

theorem runeLen_append_nc (x : UInt8) (a b : Bytes) (hb : HeadNotCont b) :
    runeLen (x :: (a ++ b)) = runeLen (x :: a) := by
  cases hl : lead x with
  | single => rcases a with _ | ⟨b1, _ | ⟨b2, _ | ⟨b3, r⟩⟩⟩ <;> rcases b with _ | ⟨c, _ | ⟨d, _ | ⟨e, r'⟩⟩⟩ <;> simp [runeLen, hl]
  | two =>
    rcases a with _ | ⟨b1, a'⟩
    · rcases b with _ | ⟨c, b'⟩
      · simp
      · simp only [HeadNotCont] at hb
        simp [runeLen, hl, hb]
    · simp [runeLen, hl]
  | three lo hi =>
    obtain ⟨hlo, hhi⟩ := lead_three_range hl
    rcases a with _ | ⟨b1, _ | ⟨b2, a'⟩⟩
    · rcases b with _ | ⟨c, _ | ⟨d, b'⟩⟩
      · simp
      · simp [runeLen, hl]
      · simp only [HeadNotCont] at hb
        have := range_not_cont hlo hhi hb
        simp only [Bool.and_eq_false_iff, decide_eq_false_iff_not] at this
        simp only [runeLen, hl, List.nil_append]
        rcases this with h | h <;> simp [h]
    · rcases b with _ | ⟨c, b'⟩
      · simp
      · simp only [HeadNotCont] at hb
        simp [runeLen, hl, hb]
    · simp [runeLen, hl]
  | four lo hi =>
    obtain ⟨hlo, hhi⟩ := lead_four_range hl
    rcases a with _ | ⟨b1, _ | ⟨b2, _ | ⟨b3, a'⟩⟩⟩
    · rcases b with _ | ⟨c, _ | ⟨d, _ | ⟨e, b'⟩⟩⟩
      · simp
      · simp [runeLen, hl]
      · simp [runeLen, hl]
      · simp only [HeadNotCont] at hb
        have := range_not_cont hlo hhi hb
        simp only [Bool.and_eq_false_iff, decide_eq_false_iff_not] at this
        simp only [runeLen, hl, List.nil_append]
        rcases this with h | h <;> simp [h]
    · rcases b with _ | ⟨c, _ | ⟨d, b'⟩⟩
      · simp
      · simp [runeLen, hl]
      · simp only [HeadNotCont] at hb
        simp [runeLen, hl, hb]
    · rcases b with _ | ⟨c, b'⟩
      · simp
      · simp only [HeadNotCont] at hb
        simp [runeLen, hl, hb]
    · simp [runeLen, hl]

def Ascii (b : Bytes) : Prop := ∀ c, c ∈ b → c < 0x80

theorem headNotCont_of_ascii {b : Bytes} (h : Ascii b) : HeadNotCont b := by
  cases b with
  | nil => trivial
  | cons c r =>
    have hc := h c (by simp)
    simp only [HeadNotCont, isCont, Bool.and_eq_false_iff, decide_eq_false_iff_not]
    left
    intro h2
    exact absurd (UInt8.lt_of_lt_of_le hc h2) (UInt8.lt_irrefl _)

theorem toValidGo_ascii (b : Bytes) (h : Ascii b) (inv : Bool) : toValidGo 0 inv b = b := by
  induction b generalizing inv with
  | nil => rfl
  | cons c r ih =>
    have hc := h c (by simp)
    simp only [toValidGo, hc, ↓reduceIte]
    rw [ih (fun d hd => h d (by simp [hd]))]

theorem runeLen_pos (b : UInt8) (rest : Bytes) : 1 ≤ runeLen (b :: rest) := by
  simp only [runeLen]; split <;> (try split) <;> omega

/-- `strings.ToValidUTF8` commutes with appending ASCII text: a rune cut at the end of `a` stays cut -/
theorem toValidGo_append_ascii (b : Bytes) (hb : Ascii b) : ∀ (a : Bytes) (k : Nat) (inv : Bool), k ≤ a.length →
    toValidGo k inv (a ++ b) = toValidGo k inv a ++ b := by
  intro a
  induction a with
  | nil =>
    intro k inv hk
    have : k = 0 := by simpa using hk
    subst this
    simp [toValidGo, toValidGo_ascii b hb]
  | cons x a' ih =>
    intro k inv hk
    cases k with
    | succ k' =>
      simp only [List.cons_append, toValidGo]
      rw [ih k' false (by simpa using hk)]
    | zero =>
      simp only [List.cons_append, toValidGo]
      rw [runeLen_append_nc x a' b (headNotCont_of_ascii hb)]
      by_cases hx : x < 0x80
      · simp only [hx, ↓reduceIte]
        rw [ih 0 false (by omega)]; rfl
      · simp only [hx, ↓reduceIte]
        by_cases hn : runeLen (x :: a') = 1
        · simp only [hn, ↓reduceIte]
          rw [ih 0 true (by omega)]
          simp
        · simp only [hn, ↓reduceIte]
          have h2 : 2 ≤ runeLen (x :: a') := by have := runeLen_pos x a'; omega
          have := (runeLen_stable x a' [] h2).1
          rw [ih _ false this]; rfl

theorem toValidUTF8_append_ascii (a b : Bytes) (hb : Ascii b) : toValidUTF8 (a ++ b) = toValidUTF8 a ++ b :=
  toValidGo_append_ascii b hb a 0 false (by omega)

theorem validGo_append_ascii (b : Bytes) (hb : Ascii b) : ∀ (a : Bytes) (k : Nat), k ≤ a.length →
    validGo k (a ++ b) = validGo k a := by
  intro a
  induction a with
  | nil =>
    intro k hk
    have : k = 0 := by simpa using hk
    subst this
    simp only [List.nil_append]
    have : ∀ (b : Bytes), Ascii b → validGo 0 b = true := by
      intro b hb
      induction b with
      | nil => rfl
      | cons c r ih =>
        have hc := hb c (by simp)
        simp only [validGo, hc, ↓reduceIte]
        exact ih (fun d hd => hb d (by simp [hd]))
    rw [this b hb]; rfl
  | cons x a' ih =>
    intro k hk
    cases k with
    | succ k' =>
      simp only [List.cons_append, validGo]
      exact ih k' (by simpa using hk)
    | zero =>
      simp only [List.cons_append, validGo]
      rw [runeLen_append_nc x a' b (headNotCont_of_ascii hb)]
      by_cases hx : x < 0x80
      · simp only [hx, ↓reduceIte]; exact ih 0 (by omega)
      · simp only [hx, ↓reduceIte]
        by_cases hn : runeLen (x :: a') = 1
        · simp [hn]
        · simp only [hn, ↓reduceIte]
          have h2 : 2 ≤ runeLen (x :: a') := by have := runeLen_pos x a'; omega
          exact ih _ (runeLen_stable x a' [] h2).1

/-- on a valid prefix the walk copies every byte and starts afresh behind it -/
theorem toValidGo_append_valid (q : Bytes) : ∀ (p : Bytes) (k : Nat) (inv : Bool), k ≤ p.length → validGo k p = true →
    toValidGo k inv (p ++ q) = p ++ toValidGo 0 (p.isEmpty && inv) q := by
  intro p
  induction p with
  | nil =>
    intro k inv hk _
    have : k = 0 := by simpa using hk
    subst this
    simp
  | cons x p' ih =>
    intro k inv hk hv
    cases k with
    | succ k' =>
      simp only [validGo] at hv
      simp only [List.cons_append, toValidGo]
      rw [ih k' false (by simpa using hk) hv]
      simp
    | zero =>
      simp only [validGo] at hv
      simp only [List.cons_append, toValidGo]
      by_cases hx : x < 0x80
      · simp only [hx, ↓reduceIte] at hv ⊢
        rw [ih 0 false (by omega) hv]; simp
      · simp only [hx, ↓reduceIte] at hv ⊢
        by_cases hn : runeLen (x :: p') = 1
        · simp [hn] at hv
        · simp only [hn, ↓reduceIte] at hv
          have h2 : 2 ≤ runeLen (x :: p') := by have := runeLen_pos x p'; omega
          obtain ⟨hlen, hst⟩ := runeLen_stable x p' (p'.drop (runeLen (x :: p') - 1) ++ q) h2
          have hsplit : p' ++ q = p'.take (runeLen (x :: p') - 1) ++ (p'.drop (runeLen (x :: p') - 1) ++ q) := by
            rw [← List.append_assoc, List.take_append_drop]
          rw [hsplit, hst, ← hsplit]
          simp only [hn, ↓reduceIte]
          rw [ih _ false hlen hv]; simp

theorem toValidUTF8_append_valid (p q : Bytes) (hp : validUTF8 p = true) (hne : p ≠ []) :
    toValidUTF8 (p ++ q) = p ++ toValidUTF8 q := by
  have := toValidGo_append_valid q p 0 false (by omega) hp
  cases p with
  | nil => exact absurd rfl hne
  | cons a b => simpa [toValidUTF8] using this

/-- a continuation byte on its own is an invalid byte -/
theorem runeLen_cont (c : UInt8) (rest : Bytes) (hc : isCont c = true) : runeLen (c :: rest) = 1 := by
  have : lead c = .single := by
    simp only [isCont, Bool.and_eq_true, decide_eq_true_eq] at hc
    unfold lead
    have : c < 0xC2 := UInt8.lt_of_le_of_lt hc.2 (by decide)
    simp [this]
  simp [runeLen, this]

theorem cont_ge (c : UInt8) (hc : isCont c = true) : ¬ c < 0x80 := by
  simp only [isCont, Bool.and_eq_true, decide_eq_true_eq] at hc
  intro h
  exact absurd (UInt8.lt_of_lt_of_le h hc.1) (UInt8.lt_irrefl _)

/-- a run of continuation bytes behind an invalid byte adds nothing -/
theorem toValidGo_conts (cs : Bytes) (h : ∀ c, c ∈ cs → isCont c = true) : toValidGo 0 true cs = [] := by
  induction cs with
  | nil => rfl
  | cons c r ih =>
    have hc := h c (by simp)
    simp only [toValidGo, cont_ge c hc, ↓reduceIte, runeLen_cont c r hc, List.nil_append]
    exact ih (fun d hd => h d (by simp [hd]))

/-- `r` is exactly one well-formed multi-byte encoding -/
def OneRune (r : Bytes) : Prop := 2 ≤ r.length ∧ runeLen r = r.length

/-- a lead byte followed by fewer continuation bytes than it announces: what is left of a rune the truncation cut -/
theorem cut_rune (r : Bytes) (hr : OneRune r) (j : Nat) (h0 : 0 < j) (hj : j < r.length) :
    runeLen (r.take j) = 1 ∧ (∃ x cs, r.take j = x :: cs ∧ ¬ x < 0x80 ∧ ∀ c, c ∈ cs → isCont c = true) := by
  obtain ⟨h2, hl⟩ := hr
  rcases r with _ | ⟨x, r'⟩
  · simp at h2
  have hx : ¬ x < 0x80 := by
    intro hx
    have : lead x = .single := by
      unfold lead
      have : x < 0xC2 := UInt8.lt_trans hx (by decide)
      simp [this]
    simp only [runeLen, this, List.length_cons] at hl h2
    omega
  simp only [List.length_cons] at h2 hj
  obtain ⟨j', rfl⟩ : ∃ j', j = j' + 1 := ⟨j - 1, by omega⟩
  simp only [List.take_succ_cons]
  cases hlead : lead x with
  | single => simp only [runeLen, hlead, List.length_cons] at hl; omega
  | two =>
    rcases r' with _ | ⟨b1, r''⟩
    · simp at h2
    · simp only [runeLen, hlead] at hl
      split at hl
      · simp only [List.length_cons] at hl hj
        have : j' = 0 := by omega
        subst this
        exact ⟨by simp [runeLen, hlead], x, [], by simp, hx, by simp⟩
      · simp at hl
  | three lo hi =>
    rcases r' with _ | ⟨b1, _ | ⟨b2, r''⟩⟩
    · simp at h2
    · simp [runeLen, hlead] at hl
    · simp only [runeLen, hlead] at hl
      split at hl
      · rename_i hc
        simp only [Bool.and_eq_true, decide_eq_true_eq] at hc
        simp only [List.length_cons] at hl hj
        have hb1 : isCont b1 = true := by
          obtain ⟨hlo, hhi⟩ := lead_three_range hlead
          simp only [isCont, Bool.and_eq_true, decide_eq_true_eq]
          exact ⟨UInt8.le_trans hlo hc.1.1, UInt8.le_trans hc.1.2 hhi⟩
        have : j' = 0 ∨ j' = 1 := by omega
        rcases this with rfl | rfl
        · exact ⟨by simp [runeLen, hlead], x, [], by simp, hx, by simp⟩
        · exact ⟨by simp [runeLen, hlead], x, [b1], by simp, hx, by simp [hb1]⟩
      · simp at hl
  | four lo hi =>
    rcases r' with _ | ⟨b1, _ | ⟨b2, _ | ⟨b3, r''⟩⟩⟩
    · simp at h2
    · simp [runeLen, hlead] at hl
    · simp [runeLen, hlead] at hl
    · simp only [runeLen, hlead] at hl
      split at hl
      · rename_i hc
        simp only [Bool.and_eq_true, decide_eq_true_eq] at hc
        simp only [List.length_cons] at hl hj
        have hb1 : isCont b1 = true := by
          obtain ⟨hlo, hhi⟩ := lead_four_range hlead
          simp only [isCont, Bool.and_eq_true, decide_eq_true_eq]
          exact ⟨UInt8.le_trans hlo hc.1.1.1, UInt8.le_trans hc.1.1.2 hhi⟩
        have : j' = 0 ∨ j' = 1 ∨ j' = 2 := by omega
        rcases this with rfl | rfl | rfl
        · exact ⟨by simp [runeLen, hlead], x, [], by simp, hx, by simp⟩
        · exact ⟨by simp [runeLen, hlead], x, [b1], by simp, hx, by simp [hb1]⟩
        · exact ⟨by simp [runeLen, hlead], x, [b1, b2], by simp, hx, by simp [hb1, hc.1.2]⟩
      · simp at hl

/-- what is left of a cut rune becomes ONE U+FFFD -/
theorem toValidUTF8_cut_rune (r : Bytes) (hr : OneRune r) (j : Nat) (h0 : 0 < j) (hj : j < r.length) (inv : Bool) :
    toValidGo 0 inv (r.take j) = if inv then [] else replacementChar := by
  obtain ⟨hlen, x, cs, hq, hx, hcs⟩ := cut_rune r hr j h0 hj
  rw [hq] at hlen ⊢
  simp only [toValidGo, hx, ↓reduceIte, hlen, toValidGo_conts cs hcs, List.append_nil]

/-! ### the encoding/json view; the cache key -/

theorem validGo_skip : ∀ (s : Bytes) (k : Nat), k ≤ s.length → validGo k s = validGo 0 (s.drop k) := by
  intro s
  induction s with
  | nil => intro k hk; have : k = 0 := by simpa using hk
           subst this; rfl
  | cons x r ih =>
    intro k hk
    cases k with
    | zero => rfl
    | succ k' => simp only [validGo, List.drop_succ_cons]; exact ih k' (by simpa using hk)

/-- encoding/json's coercion changes nothing on valid UTF-8 -/
theorem coerceGo_of_valid : ∀ (fuel : Nat) (s : Bytes), s.length ≤ fuel → validGo 0 s = true → coerceGo fuel s = s := by
  intro fuel
  induction fuel with
  | zero => intro s hs _; have : s = [] := List.eq_nil_of_length_eq_zero (by omega)
            subst this; rfl
  | succ fuel ih =>
    intro s hs hv
    cases s with
    | nil => rfl
    | cons b rest =>
      simp only [List.length_cons] at hs
      simp only [validGo] at hv
      simp only [coerceGo]
      by_cases hb : b < 0x80
      · simp only [hb, ↓reduceIte] at hv ⊢
        rw [ih rest (by omega) hv]
      · simp only [hb, ↓reduceIte] at hv ⊢
        by_cases hn : runeLen (b :: rest) = 1
        · simp [hn] at hv
        · simp only [hn, ↓reduceIte] at hv ⊢
          have h2 : 2 ≤ runeLen (b :: rest) := by have := runeLen_pos b rest; omega
          have hlen := (runeLen_stable b rest [] h2).1
          rw [validGo_skip rest _ hlen] at hv
          rw [ih _ (by simp; omega) hv]
          obtain ⟨m, hm⟩ : ∃ m, runeLen (b :: rest) = m + 1 := ⟨runeLen (b :: rest) - 1, by omega⟩
          rw [hm]
          simp

theorem coerceUTF8_of_valid (s : Bytes) (h : validUTF8 s = true) : coerceUTF8 s = s :=
  coerceGo_of_valid s.length s (Nat.le_refl _) h

theorem coerce_labels_of_allValid (ls : Labels) (h : AllValid ls) :
    ls.map (fun l => (coerceUTF8 l.1, coerceUTF8 l.2)) = ls := by
  induction ls with
  | nil => rfl
  | cons a rest ih =>
    have ha := h a (by simp)
    simp only [List.map_cons]
    rw [ih (fun l hl => h l (by simp [hl])), coerceUTF8_of_valid _ ha.1, coerceUTF8_of_valid _ ha.2]

theorem keyBytes_inj {d d' f f' : BitVec 64} {t t' : UInt8} (h : keyBytes d f t = keyBytes d' f' t') :
    d = d' ∧ f = f' ∧ t = t' := by
  simp only [keyBytes, List.append_assoc] at h
  obtain ⟨h1, h2⟩ := List.append_inj h (by simp [Fp.le64_length])
  obtain ⟨h3, h4⟩ := List.append_inj h2 (by simp [Fp.le64_length])
  exact ⟨Fp.le64_inj h1, Fp.le64_inj h3, by simpa using h4⟩

/-! ### what an order obeying the discipline stores -/

theorem outOf_of_disciplined (t : Nat) (steps : List Step) (h : disciplined steps = true) (raw : Labels) :
    ∃ ls, outOf t steps raw = some (ls, ls) ∧ AllValid ls := by
  obtain ⟨ls, hfp, hv, hne, hall⟩ := disciplined_sound t steps h raw
  refine ⟨ls, ?_, hv⟩
  unfold outOf
  rw [hfp]
  cases hd : (run t steps raw).docIn with
  | nil => exact absurd hd hne
  | cons b rest =>
    rw [hd] at hall
    have hb : b = ls := hall b (by simp)
    subst hb
    have : rest.all (fun d => d == b) = true := by
      rw [List.all_eq_true]
      intro d hdm
      simp [hall d (by simp [hdm])]
    simp [this]

end Qryn.Pipeline
