import Qryn.Proofs.ProfDiffTree
/-! `computeFlameGraphDiff`: the FIFO work list walks the aligned trees level by level; each side of a level is the
    corresponding generation of `alignedL` / `alignedR`, laid out contiguously from the parents' offsets. -/
namespace Qryn.Prof

variable (kL kR : Nat → List Row)

/-! ### the queue is a level-order walk -/

def nextItems (cur : List QItem) : List QItem := cur.flatMap (kidItems kL kR)

def itemLevel : Nat → List QItem → List QItem
  | 0, c => c
  | i + 1, c => itemLevel i (nextItems kL kR c)

theorem itemLevel_succ (i : Nat) (c : List QItem) :
    itemLevel kL kR (i + 1) c = nextItems kL kR (itemLevel kL kR i c) := by
  induction i generalizing c with
  | zero => rfl
  | succ i ih => simp only [itemLevel] at ih ⊢; rw [ih]

theorem diffLoop_nil (fuel : Nat) : diffLoop kL kR fuel [] = [] := by
  cases fuel <;> rfl

theorem diffLoop_append : ∀ (cur nxt : List QItem) (fuel : Nat), cur.length ≤ fuel →
    diffLoop kL kR fuel (cur ++ nxt) = cur ++ diffLoop kL kR (fuel - cur.length) (nxt ++ nextItems kL kR cur) := by
  intro cur
  induction cur with
  | nil => intro nxt fuel _; simp [nextItems]
  | cons c cs ih =>
    intro nxt fuel h
    simp only [List.length_cons] at h
    obtain ⟨f, rfl⟩ : ∃ f, fuel = f + 1 := ⟨fuel - 1, by omega⟩
    simp only [List.cons_append, diffLoop]
    rw [List.append_assoc, ih (nxt ++ kidItems kL kR c) f (by omega)]
    have e : f + 1 - (c :: cs).length = f - cs.length := by simp
    rw [e]
    simp [nextItems, List.append_assoc]

theorem flatMap_congr' {α β : Type} {l : List α} {f g : α → List β} (h : ∀ a ∈ l, f a = g a) :
    l.flatMap f = l.flatMap g := by
  induction l with
  | nil => rfl
  | cons a l ih =>
    rw [List.flatMap_cons, List.flatMap_cons, h a (by simp), ih (fun x hx => h x (by simp [hx]))]

/-- the items of the first `n` levels, in walk order -/
def walkItems (n : Nat) (c : List QItem) : List QItem := ((List.range n).map (fun i => itemLevel kL kR i c)).flatten

theorem walkItems_succ (n : Nat) (c : List QItem) :
    walkItems kL kR (n + 1) c = c ++ walkItems kL kR n (nextItems kL kR c) := by
  unfold walkItems
  rw [List.range_succ_eq_map, List.map_cons, List.flatten_cons, List.map_map]
  rfl

/-- **the fuel is not what ends the loop**: when some level is empty (the trees have finite depth) and the fuel covers
    the items of the levels before it, the loop emits exactly those levels, one after the other -/
theorem diffLoop_levels : ∀ (n : Nat) (c : List QItem) (fuel : Nat), itemLevel kL kR n c = [] →
    (walkItems kL kR n c).length ≤ fuel → diffLoop kL kR fuel c = walkItems kL kR n c := by
  intro n
  induction n with
  | zero =>
    intro c fuel h _
    simp only [itemLevel] at h
    subst h
    simp [walkItems, diffLoop_nil]
  | succ n ih =>
    intro c fuel h hf
    rw [walkItems_succ] at hf ⊢
    rw [List.length_append] at hf
    have := diffLoop_append kL kR c [] fuel (by omega)
    simp only [List.append_nil, List.nil_append] at this
    rw [this, ih (nextItems kL kR c) (fuel - c.length) h (by omega)]

/-! ### one step: the children of an item -/

theorem pairKids_zip (P : List (Row × Row)) : pairKids (P.map (·.1)) (P.map (·.2)) = P := by
  induction P with
  | nil => rfl
  | cons pr P ih => simp only [List.map_cons, pairKids, ih]

/-- children of one parent placed from `x` in list order, each starting where the previous one ends -/
def placeFrom : Int → List Row → List (Row × Int)
  | _, [] => []
  | x, c :: cs => (c, x) :: placeFrom (x + c.total) cs

def viewL (q : QItem) : Row × Int := (q.left, q.xl)
def viewR (q : QItem) : Row × Int := (q.right, q.xr)

theorem pushKids_views (lvl : Nat) : ∀ (ps : List (Row × Row)) (xl xr : Int),
    (pushKids lvl ps xl xr).map viewL = placeFrom xl (ps.map (·.1))
      ∧ (pushKids lvl ps xl xr).map viewR = placeFrom xr (ps.map (·.2))
      ∧ (pushKids lvl ps xl xr).map (fun q => (q.left, q.right)) = ps
      ∧ ∀ q ∈ pushKids lvl ps xl xr, q.level = lvl + 1 := by
  intro ps
  induction ps with
  | nil => intro xl xr; simp [pushKids, placeFrom]
  | cons pr ps ih =>
    obtain ⟨l, r⟩ := pr
    intro xl xr
    obtain ⟨i1, i2, i3, i4⟩ := ih (xl + l.total) (xr + r.total)
    simp only [pushKids, List.map_cons, placeFrom, i1, i2, i3]
    refine ⟨by simp [viewL], by simp [viewR], trivial, ?_⟩
    intro q hq
    rcases List.mem_cons.mp hq with rfl | hq
    · rfl
    · exact i4 q hq

theorem placeFrom_rows : ∀ (cs : List Row) (x : Int), (placeFrom x cs).map (·.1) = cs := by
  intro cs
  induction cs with
  | nil => intro x; rfl
  | cons c cs ih => intro x; simp [placeFrom, ih]

/-! ### the items of the aligned trees -/

section Aligned
variable (T1 T2 : List Row)

/-- an item whose two nodes carry the same id (every item of the walk over aligned trees) -/
def SameNode (q : QItem) : Prop := q.left.node = q.right.node

theorem kidItems_aligned (q : QItem) (hq : SameNode q) :
    (kidItems (kidsL T1 T2) (kidsR T1 T2) q).map (fun c => (c.left, c.right)) = (alignedKids T1 T2 q.left.node).reverse
      ∧ (kidItems (kidsL T1 T2) (kidsR T1 T2) q).map viewL = placeFrom q.xl (kidsL T1 T2 q.left.node).reverse
      ∧ (kidItems (kidsL T1 T2) (kidsR T1 T2) q).map viewR = placeFrom q.xr (kidsR T1 T2 q.left.node).reverse
      ∧ ∀ c ∈ kidItems (kidsL T1 T2) (kidsR T1 T2) q, c.level = q.level + 1 := by
  unfold kidItems
  rw [← hq]
  have hz : pairKids (kidsL T1 T2 q.left.node) (kidsR T1 T2 q.left.node) = alignedKids T1 T2 q.left.node :=
    pairKids_zip (alignedKids T1 T2 q.left.node)
  rw [hz]
  obtain ⟨i1, i2, i3, i4⟩ := pushKids_views q.level (alignedKids T1 T2 q.left.node).reverse q.xl q.xr
  refine ⟨i3, ?_, ?_, i4⟩
  · rw [i1, List.map_reverse]; rfl
  · rw [i2, List.map_reverse]; rfl

variable (h1 : (T1.map rkey).Nodup) (h2 : (T2.map rkey).Nodup)
include h1 h2

/-- every item below the root is an aligned pair of `mergeNodes` -/
theorem kidItems_pairs (q : QItem) (hq : SameNode q) :
    ∀ c ∈ kidItems (kidsL T1 T2) (kidsR T1 T2) q,
      (c.left, c.right) ∈ alignedKids T1 T2 q.left.node ∧ SameNode c := by
  intro c hc
  have h := (kidItems_aligned T1 T2 q hq).1
  have hm : (c.left, c.right) ∈ (alignedKids T1 T2 q.left.node).reverse := by
    rw [← h]; exact List.mem_map.mpr ⟨c, hc, rfl⟩
  have hm' := List.mem_reverse.mp hm
  exact ⟨hm', ((alignedSpec T1 T2 h1 h2 _).pair _ hm').1⟩

def rootOf : QItem := rootItem (ticks (kidsL T1 T2 0)) (ticks (kidsR T1 T2 0))

/-- invariant of every level of the walk -/
theorem level_inv : ∀ (i : Nat), ∀ q ∈ itemLevel (kidsL T1 T2) (kidsR T1 T2) i [rootOf T1 T2],
    SameNode q ∧ q.level = i ∧ (i = 0 ∨ ∃ p, (q.left, q.right) ∈ alignedKids T1 T2 p) := by
  intro i
  induction i with
  | zero =>
    intro q hq
    simp only [itemLevel, List.mem_singleton] at hq
    subst hq
    exact ⟨rfl, rfl, Or.inl rfl⟩
  | succ i ih =>
    intro q hq
    rw [itemLevel_succ] at hq
    obtain ⟨p, hp, hqp⟩ := List.mem_flatMap.mp hq
    obtain ⟨hs, hl, _⟩ := ih p hp
    have := kidItems_pairs T1 T2 h1 h2 p hs q hqp
    exact ⟨this.2, by rw [(kidItems_aligned T1 T2 p hs).2.2.2 q hqp, hl], Or.inr ⟨_, this.1⟩⟩

/-- the left nodes of level `i` are generation `i` of the left aligned tree, the right nodes that of the right one -/
theorem level_rows : ∀ (i : Nat),
    (itemLevel (kidsL T1 T2) (kidsR T1 T2) i [rootOf T1 T2]).map (·.left) = levelRows (alignedL T1 T2) i
      ∧ (itemLevel (kidsL T1 T2) (kidsR T1 T2) i [rootOf T1 T2]).map (·.right) = levelRows (alignedR T1 T2) i := by
  intro i
  induction i with
  | zero =>
    have eL : rootTotal (alignedL T1 T2) = ticks (kidsL T1 T2 0) := by
      unfold rootTotal ticks
      rw [children_alignedL T1 T2 h1 h2 0]
      exact sumTotals_perm (List.reverse_perm _)
    have eR : rootTotal (alignedR T1 T2) = ticks (kidsR T1 T2 0) := by
      unfold rootTotal ticks
      rw [children_alignedR T1 T2 h1 h2 0]
      exact sumTotals_perm (List.reverse_perm _)
    simp [itemLevel, levelRows, rootOf, rootItem, rootBar, eL, eR]
  | succ i ih =>
    rw [itemLevel_succ]
    simp only [levelRows]
    rw [← ih.1, ← ih.2]
    unfold nextItems
    rw [List.map_flatMap, List.map_flatMap, List.flatMap_map, List.flatMap_map]
    constructor
    · apply flatMap_congr'
      intro q hq
      have hs := (level_inv T1 T2 h1 h2 i q hq).1
      have := (kidItems_aligned T1 T2 q hs).2.1
      have h' : (kidItems (kidsL T1 T2) (kidsR T1 T2) q).map (·.left) = ((kidItems (kidsL T1 T2) (kidsR T1 T2) q).map viewL).map (·.1) := by
        rw [List.map_map]; rfl
      rw [h', this, placeFrom_rows, children_alignedL T1 T2 h1 h2]
    · apply flatMap_congr'
      intro q hq
      have hs := (level_inv T1 T2 h1 h2 i q hq).1
      have := (kidItems_aligned T1 T2 q hs).2.2.1
      have h' : (kidItems (kidsL T1 T2) (kidsR T1 T2) q).map (·.right) = ((kidItems (kidsL T1 T2) (kidsR T1 T2) q).map viewR).map (·.1) := by
        rw [List.map_map]; rfl
      rw [h', this, placeFrom_rows, children_alignedR T1 T2 h1 h2, ← hs]

end Aligned

/-! ### layout of one side -/

theorem placeFrom_bounds : ∀ (cs : List Row) (x : Int), (∀ c ∈ cs, 0 ≤ c.total) →
    (∀ s ∈ placeFrom x cs, s.1 ∈ cs ∧ x ≤ s.2 ∧ s.2 + s.1.total ≤ x + sumTotals cs)
      ∧ (placeFrom x cs).Pairwise (fun s t => s.2 + s.1.total ≤ t.2) := by
  intro cs
  induction cs with
  | nil => intro x _; simp [placeFrom]
  | cons c cs ih =>
    intro x hnn
    have hc := hnn c (by simp)
    have hrest : ∀ c ∈ cs, 0 ≤ c.total := fun y hy => hnn y (by simp [hy])
    have hsum := sumTotals_nonneg hrest
    obtain ⟨i1, i2⟩ := ih (x + c.total) hrest
    simp only [placeFrom, sumTotals_cons]
    constructor
    · intro s hs
      rcases List.mem_cons.mp hs with rfl | hs
      · simp only [List.mem_cons, true_or, true_and]; omega
      · have := i1 s hs
        exact ⟨by simp [this.1], by omega, by omega⟩
    · refine List.pairwise_cons.mpr ⟨?_, i2⟩
      intro s hs
      have := i1 s hs
      show x + c.total ≤ s.2
      omega

/-- a side of a level: bars ordered left to right without overlap -/
def SideOrdered (L : List (Row × Int)) : Prop := L.Pairwise (fun s t => s.2 + s.1.total ≤ t.2)

/-- the next level of one side: each bar's children placed from the bar's offset -/
def sideNext (kids : Nat → List Row) (L : List (Row × Int)) : List (Row × Int) :=
  L.flatMap (fun s => placeFrom s.2 (kids s.1.node))

/-- **nesting of one side**: if every bar of a level is at least as wide as its children together and all widths are
    non-negative, the children lie inside their parents and the next level is again ordered without overlap -/
theorem sideNext_nest (kids : Nat → List Row) : ∀ (L : List (Row × Int)), SideOrdered L →
    (∀ s ∈ L, sumTotals (kids s.1.node) ≤ s.1.total ∧ ∀ c ∈ kids s.1.node, 0 ≤ c.total) →
    (∀ c ∈ sideNext kids L, ∃ p ∈ L, c.1 ∈ kids p.1.node ∧ p.2 ≤ c.2 ∧ c.2 + c.1.total ≤ p.2 + p.1.total)
      ∧ SideOrdered (sideNext kids L) := by
  intro L
  induction L with
  | nil => intro _ _; simp [sideNext, SideOrdered]
  | cons s L ih =>
    intro hord hL
    have hs := hL s (by simp)
    have ho := List.pairwise_cons.mp hord
    obtain ⟨i1, i2⟩ := ih ho.2 (fun t ht => hL t (by simp [ht]))
    obtain ⟨b1, b2⟩ := placeFrom_bounds (kids s.1.node) s.2 hs.2
    unfold sideNext at i1 i2 ⊢
    rw [List.flatMap_cons]
    constructor
    · intro c hc
      rcases List.mem_append.mp hc with hc | hc
      · have := b1 c hc
        exact ⟨s, by simp, this.1, this.2.1, by omega⟩
      · obtain ⟨p, hp, h⟩ := i1 c hc
        exact ⟨p, by simp [hp], h⟩
    · unfold SideOrdered
      refine List.pairwise_append.mpr ⟨b2, i2, ?_⟩
      intro c hc d hd
      obtain ⟨p, hp, _, hlo, _⟩ := i1 d hd
      have := b1 c hc
      have := ho.1 p hp
      omega

end Qryn.Prof
