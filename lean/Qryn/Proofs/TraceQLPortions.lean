import Qryn.Proofs.TraceQLWhole
/-! C11: the portion loop of `ComplexRequestProcessor`. The portion filter of a statement, read on the computed
    columns of the index, lets through exactly the traces of the portion and the cached ones; what a script says of a
    trace depends on the index rows of that trace only; merging portion after portion — each statement over its portion
    plus the traces kept so far, cut at `limit` — ends with a choice of the `limit` most recent of all. -/
namespace Qryn.TraceQL
open Qryn Qryn.Sql

/-! ### the computed columns -/
theorem head_append (p x : String) (ch : Char) (hp : p.toList.head? = some ch) : (p ++ x).toList.head? = some ch := by
  rw [String.toList_append]
  cases h : p.toList with
  | nil => rw [h] at hp; simp at hp
  | cons a as => rw [h] at hp; simpa using hp

theorem lookup_none_of_head (n : String) (l : List (String × Val)) (h : ∀ p ∈ l, p.1.toList.head? ≠ n.toList.head?) :
    l.lookup n = none := by
  induction l with
  | nil => rfl
  | cons p ps ih =>
    obtain ⟨k, v⟩ := p
    have hk : (n == k) = false := by
      rw [beq_eq_false_iff_ne]; intro hnk; exact h (k, v) (by simp) (by rw [hnk])
    simp [List.lookup, hk, ih (fun q hq => h q (List.mem_cons_of_mem _ hq))]

theorem hashName_head (n : Nat) : (hashName n).toList.head? = some 'c' := head_append _ _ 'c' (by decide)
theorem unhexName_head (t : String) : (unhexName t).toList.head? = some 'u' := by
  unfold unhexName; rw [String.append_assoc]; exact head_append _ _ 'u' (by decide)

theorem unhexName_inj (a b : String) (h : unhexName a = unhexName b) : a = b := by
  unfold unhexName at h
  have h1 := str_app_cancel "unhex('" (a ++ "')") (b ++ "')") (by simpa [String.append_assoc] using h)
  have h2 := congrArg String.toList h1
  simp only [String.toList_append] at h2
  exact String.toList_inj.mp (List.append_cancel_right h2)

/-- a name that starts with neither `t` nor one of the first letters of the index columns is looked up in the computed columns -/
theorem qrow_get_extra (a : AttrRow) (n : String) (ch : Char) (hn : n.toList.head? = some ch)
    (h1 : ch ≠ 't') (h2 : ch ≠ 'd') (h3 : ch ≠ 'k') (h4 : ch ≠ 'v') (h5 : ch ≠ 's') :
    a.qrow.get n = (a.extra.lookup n).getD .null := by
  unfold AttrRow.qrow qualify Row.get
  rw [List.lookup_append]
  have e1 : List.lookup n (a.row.map (fun (k, v) => ("traces_idx" ++ "." ++ k, v))) = none := by
    apply lookup_none_of_head
    intro p hp
    obtain ⟨q, _, rfl⟩ := List.mem_map.mp hp
    obtain ⟨k, v⟩ := q
    simp only
    rw [hn, String.append_assoc, head_append "traces_idx" _ 't' (by decide)]
    intro h; cases h; exact h1 rfl
  rw [e1]
  simp only [Option.none_or, AttrRow.row]
  rw [List.lookup_append]
  have e2 : List.lookup n [("date", Val.str a.date), ("key", .str a.key), ("val", .str a.val), ("trace_id", .str a.traceId),
      ("span_id", .str a.spanId), ("timestamp_ns", .int a.ts), ("duration", .int a.dur)] = none := by
    apply lookup_none_of_head
    intro p hp
    rw [hn]
    simp only [List.mem_cons, List.not_mem_nil, or_false] at hp
    have hd : ∀ (s : String) (x : Char), s.toList.head? = some x → x ≠ ch → s.toList.head? ≠ some ch := by
      intro s x hs hx h; rw [hs] at h; injection h with h; exact hx h
    rcases hp with rfl | rfl | rfl | rfl | rfl | rfl | rfl
    · exact hd "date" 'd' (by decide) (Ne.symm h2)
    · exact hd "key" 'k' (by decide) (Ne.symm h3)
    · exact hd "val" 'v' (by decide) (Ne.symm h4)
    · exact hd "trace_id" 't' (by decide) (Ne.symm h1)
    · exact hd "span_id" 's' (by decide) (Ne.symm h5)
    · exact hd "timestamp_ns" 't' (by decide) (Ne.symm h1)
    · exact hd "duration" 'd' (by decide) (Ne.symm h2)
  rw [e2]
  simp

theorem lookup_map_inj {α} [BEq α] [LawfulBEq α] (l : List α) (f : α → String) (g : α → Val) (hf : ∀ a b, f a = f b → a = b) (t0 : α) :
    (l.map (fun t => (f t, g t))).lookup (f t0) = if l.contains t0 then some (g t0) else none := by
  induction l with
  | nil => rfl
  | cons x xs ih =>
    by_cases hx : x = t0
    · subst hx; simp [List.lookup]
    · have : (f t0 == f x) = false := by rw [beq_eq_false_iff_ne]; exact fun h => hx (hf _ _ h).symm
      have h2 : (t0 == x) = false := by rw [beq_eq_false_iff_ne]; exact fun h => hx h.symm
      simp only [List.map_cons, List.lookup, this, ih, List.contains_cons, h2, Bool.false_or]

section
variable (hash : Bytes → Nat) (idText : Bytes → String) (hinj : ∀ a b, idText a = idText b → a = b) (n : Nat) (ids : List Bytes)
include hinj

theorem portionCols_hash (tr : Bytes) : (portionCols hash idText n ids tr).lookup (hashName n) = some (.int ((hash tr % n : Nat) : Int)) := by
  unfold portionCols
  simp only [List.lookup, beq_self_eq_true]

theorem portionCols_unhex (tr t0 : Bytes) :
    (portionCols hash idText n ids tr).lookup (unhexName (idText t0)) = if ids.contains t0 then some (.str t0) else none := by
  unfold portionCols
  have hne : (unhexName (idText t0) == hashName n) = false := by
    rw [beq_eq_false_iff_ne]
    intro h
    have h1 := unhexName_head (idText t0)
    rw [h, hashName_head n] at h1
    cases h1
  simp only [List.lookup, hne]
  exact lookup_map_inj ids (fun t => unhexName (idText t)) (fun t => Val.str t)
    (fun a b h => hinj a b (unhexName_inj _ _ h)) t0
end

/-! ### the portion filter on the computed columns -/
theorem evalE_isIn_raws (o : Oracles) (env : Env) (r : Row) (l : Expr) (names : List String) :
    evalE o env r (.isIn l (names.map Expr.raw)) = boolVal ((names.map (fun n => r.get n)).contains (evalE o env r l)) := by
  have hes : ∀ ns : List String, evalEs o env r (ns.map Expr.raw) = ns.map (fun n => r.get n) := by
    intro ns
    induction ns with
    | nil => simp [evalEs]
    | cons x xs ih => simp [evalEs, evalE, ih]
  rcases names with _ | ⟨x, _ | ⟨y, ys⟩⟩
  · simp [evalE, evalEs]
  · simp [evalE, evalEs]
  · have := hes (x :: y :: ys)
    simp only [List.map_cons] at this ⊢
    simp only [evalE, this]

section
variable (o : Oracles) (c : Ctx) (hash : Bytes → Nat) (idText : Bytes → String) (hinj : ∀ a b, idText a = idText b → a = b)
  (n i : Nat) (hn : 0 < n) (ids cachedIds : List Bytes) (hsub : ∀ t ∈ cachedIds, ids.contains t = true)
include hinj hn hsub

/-- **the portion filter**: on an index row carrying the computed columns, `cityHash64(trace_id) % n == i OR trace_id IN
    (unhex('<cached id>'), …)` holds iff the trace is in portion `i` of `n` or among the cached ones -/
theorem portionOk_cols (a0 : AttrRow) :
    portionOk o (portionCtx c n i (cachedIds.map idText)) { a0 with extra := portionCols hash idText n ids a0.traceId } =
      (hash a0.traceId % n == i || cachedIds.contains a0.traceId) := by
  generalize ha : ({ a0 with extra := portionCols hash idText n ids a0.traceId } : AttrRow) = a
  have hextra : a.extra = portionCols hash idText n ids a0.traceId := by rw [← ha]
  have htr : a.qrow.get "trace_id" = .str a0.traceId := by rw [qrow_trace, ← ha]
  have hh : a.qrow.get (hashName n) = .int ((hash a0.traceId % n : Nat) : Int) := by
    rw [qrow_get_extra a _ 'c' (hashName_head n) (by decide) (by decide) (by decide) (by decide) (by decide), hextra,
      portionCols_hash hash idText hinj n ids]
    rfl
  have hu : ∀ t ∈ cachedIds, a.qrow.get (unhexName (idText t)) = .str t := by
    intro t ht
    rw [qrow_get_extra a _ 'u' (unhexName_head _) (by decide) (by decide) (by decide) (by decide) (by decide), hextra,
      portionCols_unhex hash idText hinj n ids, hsub t ht]
    rfl
  have hhash : evalB o [] a.qrow (eq (.raw ("cityHash64(trace_id) % " ++ toString ((n : Nat) : Int))) (.int (i : Nat))) =
      (hash a0.traceId % n == i) := by
    have : ("cityHash64(trace_id) % " ++ toString ((n : Nat) : Int)) = hashName n := rfl
    simp only [evalB, eq, evalE, this, hh, cmpOp, show ("==" = "and") = False from by decide,
      show ("==" = "or") = False from by decide, if_false, truthy_boolVal]
    rw [Bool.eq_iff_iff]
    simp
    omega
  have hnz : ((n : Nat) : Int) ≠ 0 := by omega
  unfold portionOk randomFilter portionCtx
  simp only [hnz, ne_eq, not_false_eq_true, true_and, List.isEmpty_map]
  cases hc : cachedIds with
  | nil =>
    simp only [List.isEmpty_nil, not_true_eq_false, if_false, List.contains_nil, Bool.or_false, if_true, evalAll_cons, evalAll_nil,
      Bool.and_true]
    exact hhash
  | cons t ts =>
    simp only [List.isEmpty_cons, Bool.false_eq_true, not_false_eq_true, if_true, evalAll_cons, evalAll_nil, Bool.and_true, evalB_or,
      evalAny_cons, evalAny_nil, Bool.or_false, hhash]
    congr 1
    have hnames : ((t :: ts).map idText).map (fun t => Expr.raw ("unhex('" ++ t ++ "')")) =
        (((t :: ts).map idText).map unhexName).map Expr.raw := by
      simp [List.map_map, Function.comp_def, unhexName]
    rw [hnames, evalB, evalE_isIn_raws, truthy_boolVal]
    simp only [evalE, htr, List.map_map]
    have : ((t :: ts).map ((fun n => a.qrow.get n) ∘ unhexName ∘ idText)) = (t :: ts).map Val.str := by
      apply List.map_congr_left
      intro x hx
      simp only [Function.comp]
      exact hu x (by rw [hc]; exact hx)
    rw [this, contains_map_str]
end

theorem withPortionCols_traceIds (d : TraceDb) (hash : Bytes → Nat) (idText : Bytes → String) (n : Nat) :
    (d.withPortionCols hash idText n).attrs.map (·.traceId) = d.attrs.map (·.traceId) := by
  simp [TraceDb.withPortionCols, List.map_map, Function.comp_def]

/-- **what a portion statement sees**: behind its portion filter, the index (with the computed columns) restricted to the
    traces of portion `i` of `n` and the cached ones -/
theorem seen_portion (o : Oracles) (c : Ctx) (d : TraceDb) (hash : Bytes → Nat) (idText : Bytes → String)
    (hinj : ∀ a b, idText a = idText b → a = b) (n i : Nat) (hn : 0 < n) (cachedIds : List Bytes)
    (hsub : ∀ t ∈ cachedIds, d.traceIds.contains t = true) :
    (d.withPortionCols hash idText n).seen o (portionCtx c n i (cachedIds.map idText)) =
      (d.withPortionCols hash idText n).portion hash n i cachedIds := by
  unfold TraceDb.seen TraceDb.portion
  congr 1
  apply List.filter_congr
  intro a ha
  simp only [TraceDb.withPortionCols, List.mem_map] at ha
  obtain ⟨a0, _, rfl⟩ := ha
  exact portionOk_cols o c hash idText hinj n i hn d.traceIds cachedIds hsub a0

/-! ### merging portions -/
theorem nodup_eq_length_subset {α} [DecidableEq α] (A B : List α) (hA : A.Nodup) (hlen : B.length ≤ A.length)
    (hsub : ∀ x ∈ A, x ∈ B) : ∀ x ∈ B, x ∈ A := by
  intro b hb
  by_cases hba : b ∈ A
  · exact hba
  · exfalso
    have : A.length ≤ (B.erase b).length := nodup_subset_length A (B.erase b) hA (by
      intro x hx
      have hxb : x ≠ b := fun h => hba (h ▸ hx)
      exact (List.mem_erase_of_ne hxb).mpr (hsub x hx))
    rw [List.length_erase_of_mem hb] at this
    have := List.length_pos_of_mem hb
    omega

/-- **one step of the merge**: `K` is a choice of the `n` most recent among `P`; `K'` a choice of the `n` most recent
    among the new candidates `Q` together with `K`: then `K'` is a choice of the `n` most recent among `P ∪ Q` -/
theorem topN_merge (rec : Bytes → Int) (P Q : Bytes → Prop) (n : Nat) (K K' : List Bytes)
    (hK : IsTopN rec P n K) (hK' : IsTopN rec (fun t => Q t ∨ t ∈ K) n K') :
    IsTopN rec (fun t => P t ∨ Q t) n K' := by
  refine ⟨hK'.nodup, ?_, hK'.atMost, ?_, hK'.sorted⟩
  · intro k hk
    rcases hK'.sound k hk with h | h
    · exact Or.inr h
    · exact Or.inl (hK.sound k h)
  · intro m hm hmK'
    -- a candidate of the last round that was left out: the round's own guarantee
    have cand : (Q m ∨ m ∈ K) → K'.length = n ∧ ∀ k ∈ K', rec m ≤ rec k := fun h => hK'.most m h hmK'
    rcases hm with hP | hQ
    · by_cases hmK : m ∈ K
      · exact cand (Or.inr hmK)
      · obtain ⟨hfull, hle⟩ := hK.most m hP hmK
        -- `K` is full, all of it were candidates: `K'` is full too
        have hK'full : K'.length = n := by
          by_cases hall : ∀ k ∈ K, k ∈ K'
          · have := nodup_subset_length K K' hK.nodup hall
            have := hK'.atMost
            omega
          · have : ∃ k, k ∈ K ∧ k ∉ K' := by
              by_cases h : ∃ k, k ∈ K ∧ k ∉ K'
              · exact h
              · exfalso; apply hall; intro k hk
                by_cases hk' : k ∈ K'
                · exact hk'
                · exact absurd ⟨k, hk, hk'⟩ h
            obtain ⟨k, hk, hk'⟩ := this
            exact (hK'.most k (Or.inr hk) hk').1
        refine ⟨hK'full, ?_⟩
        intro k' hk'
        by_cases hk'K : k' ∈ K
        · exact hle k' hk'K
        · -- `k'` came in for a member `r` of `K` that went out: `rec m ≤ rec r ≤ rec k'`
          have : ∃ r, r ∈ K ∧ r ∉ K' := by
            by_cases h : ∃ r, r ∈ K ∧ r ∉ K'
            · exact h
            · exfalso
              have hall : ∀ r ∈ K, r ∈ K' := by
                intro r hr
                by_cases hr' : r ∈ K'
                · exact hr'
                · exact absurd ⟨r, hr, hr'⟩ h
              exact hk'K (nodup_eq_length_subset K K' hK.nodup (by omega) hall k' hk')
          obtain ⟨r, hr, hr'⟩ := this
          exact Int.le_trans (hle r hr) ((hK'.most r (Or.inr hr) hr').2 k' hk')
    · exact cand (Or.inl hQ)

/-! ### what a script says of a trace depends on the index rows of that trace -/
/-- the index restricted to the traces satisfying `φ` -/
def TraceDb.restrict (d : TraceDb) (φ : Bytes → Bool) : TraceDb := { d with attrs := d.attrs.filter (fun a => φ a.traceId) }

theorem dedup_filter {α} [BEq α] [LawfulBEq α] (p : α → Bool) : ∀ l : List α, dedup (l.filter p) = (dedup l).filter p
  | [] => rfl
  | x :: xs => by
    by_cases hp : p x = true
    · simp only [List.filter_cons, hp, if_true, dedup, dedup_filter p xs, List.filter_filter]
      congr 1
      apply List.filter_congr
      intro y _
      rw [Bool.and_comm]
    · simp only [Bool.not_eq_true] at hp
      simp only [List.filter_cons, hp, Bool.false_eq_true, if_false, dedup, dedup_filter p xs, List.filter_filter]
      apply List.filter_congr
      intro y hy
      by_cases hyx : y = x
      · subst hyx; simp [hp]
      · simp [hyx]

section
variable (o : Oracles) (ao : AggOracles) (c : Ctx) (d : TraceDb) (φ : Bytes → Bool)

theorem spanTerm_restrict (k : SpanKey) (hk : φ k.1 = true) (t : Term) :
    spanTerm o c (d.restrict φ) k t = spanTerm o c d k t := by
  simp only [spanTerm, TraceDb.restrict, List.any_filter]
  apply any_congr_mem
  intro a _
  by_cases h : a.span = k
  · have : φ a.traceId = true := by rw [← h] at hk; exact hk
    simp [this]
  · have : (a.span == k) = false := by rw [beq_eq_false_iff_ne]; exact h
    simp [this]

theorem spanHolds_restrict (e : AttrExp) (k : SpanKey) (hk : φ k.1 = true) :
    spanHolds o c (d.restrict φ) e k = spanHolds o c d e k := by
  unfold spanHolds
  have : spanTerm o c (d.restrict φ) k = spanTerm o c d k := funext (spanTerm_restrict o c d φ k hk)
  rw [this]

theorem spans_restrict : spans c (d.restrict φ) = (spans c d).filter (fun k => φ k.1) := by
  simp only [spans, TraceDb.restrict, List.filter_filter]
  rw [← dedup_filter, List.filter_map]
  congr 2
  rw [List.filter_filter]
  apply List.filter_congr
  intro a _
  simp [AttrRow.span, Function.comp, Bool.and_comm]

theorem matchedSpans_restrict (e : AttrExp) (tr : Bytes) (htr : φ tr = true) :
    matchedSpans o c (d.restrict φ) e tr = matchedSpans o c d e tr := by
  simp only [matchedSpans, spans_restrict, List.filter_filter]
  apply List.filter_congr
  intro k _
  by_cases hk : k.1 = tr
  · have hφ : φ k.1 = true := by rw [hk]; exact htr
    simp [hk, htr, spanHolds_restrict o c d φ e k hφ]
  · have : (k.1 == tr) = false := by rw [beq_eq_false_iff_ne]; exact hk
    simp [this]

theorem find_restrict (k : SpanKey) (hk : φ k.1 = true) (p : AttrRow → Bool) :
    (d.restrict φ).attrs.find? (fun a => a.span == k && p a) = d.attrs.find? (fun a => a.span == k && p a) := by
  simp only [TraceDb.restrict, List.find?_filter]
  congr 1
  funext a
  by_cases h : a.span = k
  · have : φ a.traceId = true := by rw [← h] at hk; exact hk
    simp [this, h]
  · have : (a.span == k) = false := by rw [beq_eq_false_iff_ne]; exact h
    simp [this, h]

theorem aggValue_restrict (attr : String) (k : SpanKey) (hk : φ k.1 = true) :
    aggValue o c (d.restrict φ) attr k = aggValue o c d attr k := by
  unfold aggValue
  split
  · rw [find_restrict d φ k hk (fun a => admissible c a)]
  · have := find_restrict d φ k hk (fun a => admissible c a && a.key == (aggAttrKey attr).toUTF8.toList && o.isNum a.val)
    simp only [← Bool.and_assoc] at this ⊢
    rw [this]

theorem spanTs_restrict (k : SpanKey) (hk : φ k.1 = true) : spanTs c (d.restrict φ) k = spanTs c d k := by
  unfold spanTs
  rw [find_restrict d φ k hk (fun a => admissible c a)]

theorem selMatches_restrict (s : Selector) (tr : Bytes) (htr : φ tr = true) :
    selMatches o ao c (d.restrict φ) s tr = selMatches o ao c d s tr := by
  unfold selMatches
  cases s.attrs with
  | none => rfl
  | some e =>
    simp only [matchedSpans_restrict o c d φ e tr htr]
    congr 1
    cases s.agg with
    | none => rfl
    | some a =>
      simp only
      cases aggCmpText a with
      | error _ => rfl
      | ok lit =>
        simp only
        unfold aggHolds
        cases cmpName a.cmp with
        | none => rfl
        | some f =>
          simp only
          cases a.fn <;> simp only
          all_goals
            congr 1
            apply filterMap_congr_mem
            intro k hk
            have hk1 : k.1 = tr := by
              simp only [matchedSpans, List.mem_filter, Bool.and_eq_true, beq_iff_eq] at hk
              exact hk.2.1
            exact aggValue_restrict o c d φ a.attr k (by rw [hk1]; exact htr)

theorem traceMatches_restrict (script : Script) (tr : Bytes) (htr : φ tr = true) :
    traceMatches o ao c (d.restrict φ) script tr = traceMatches o ao c d script tr := by
  unfold traceMatches
  have : (fun s => selMatches o ao c (d.restrict φ) s tr) = fun s => selMatches o ao c d s tr :=
    funext (fun s => selMatches_restrict o ao c d φ s tr htr)
  rw [this]

theorem scriptL_restrict {α} (leaf leaf' : Selector → Bytes → List α) (script : Script) (tr : Bytes) (htr : φ tr = true)
    (hl : ∀ s, leaf s tr = leaf' s tr) :
    scriptL (fun s tr => selMatches o ao c (d.restrict φ) s tr) leaf script tr =
      scriptL (fun s tr => selMatches o ao c d s tr) leaf' script tr := by
  unfold scriptL
  have : (fun s => selMatches o ao c (d.restrict φ) s tr) = fun s => selMatches o ao c d s tr :=
    funext (fun s => selMatches_restrict o ao c d φ s tr htr)
  rw [this]
  congr 1
  funext s
  exact hl s

theorem selTs_restrict (s : Selector) (tr : Bytes) (htr : φ tr = true) : selTs o c (d.restrict φ) s tr = selTs o c d s tr := by
  unfold selTs
  cases s.attrs with
  | none => rfl
  | some e =>
    simp only [matchedSpans_restrict o c d φ e tr htr]
    apply List.map_congr_left
    intro k hk
    have hk1 : k.1 = tr := by
      simp only [matchedSpans, List.mem_filter, Bool.and_eq_true, beq_iff_eq] at hk
      exact hk.2.1
    exact spanTs_restrict c d φ k (by rw [hk1]; exact htr)

theorem selSpans_restrict (s : Selector) (tr : Bytes) (htr : φ tr = true) : selSpans o c (d.restrict φ) s tr = selSpans o c d s tr := by
  unfold selSpans
  cases s.attrs with
  | none => rfl
  | some e => simp only [matchedSpans_restrict o c d φ e tr htr]

theorem traceRec_restrict (script : Script) (tr : Bytes) (htr : φ tr = true) :
    traceRec o ao c (d.restrict φ) script tr = traceRec o ao c d script tr := by
  unfold traceRec
  have := scriptL_restrict o ao c d φ (selTs o c (d.restrict φ)) (selTs o c d) script tr htr (fun s => selTs_restrict o c d φ s tr htr)
  unfold scriptL at this
  rw [this]

theorem traceSpans_restrict (script : Script) (tr : Bytes) (htr : φ tr = true) :
    traceSpans o ao c (d.restrict φ) script tr = traceSpans o ao c d script tr := by
  unfold traceSpans
  have := scriptL_restrict o ao c d φ (selSpans o c (d.restrict φ)) (selSpans o c d) script tr htr (fun s => selSpans_restrict o c d φ s tr htr)
  unfold scriptL at this
  exact this
end

/-! ### rows of a statement as `TraceOut`s -/
theorem rowOut_of_take5 (r : Row) (t : TraceOut) (h : r.take 5 = t.row) : rowOut r = some t := by
  have hr : r = t.row ++ r.drop 5 := by rw [← h, List.take_append_drop]
  have hget : ∀ n v, t.row.lookup n = some v → r.get n = v := by
    intro n v hv
    rw [hr, Row.get, List.lookup_append, hv]; rfl
  obtain ⟨tid, sids, durs, tss, st⟩ := t
  have h1 := hget "trace_id" (.str tid) rfl
  have h2 := hget "span_id" (.strs sids) rfl
  have h3 := hget "duration" (.tuples (durs.map (fun i => [Atom.int i]))) rfl
  have h4 := hget "timestamp_ns" (.tuples (tss.map (fun i => [Atom.int i]))) rfl
  have h5 := hget "start_time_unix_nano" (.int st) rfl
  have hfm : ∀ (f : List Atom → Option Int), (∀ i, f [Atom.int i] = some i) → ∀ l : List Int,
      (l.map (fun i => [Atom.int i])).filterMap f = l := by
    intro f hf l; induction l with
    | nil => rfl
    | cons x xs ih => simp [hf, ih]
  simp only [rowOut, h1, h2, h3, h4, h5]
  rw [hfm _ (fun i => rfl) durs, hfm _ (fun i => rfl) tss]

theorem filterMap_rowOut (rows : Table) (outs : List TraceOut) (h : rows.map (fun r => r.take 5) = outs.map TraceOut.row) :
    rows.filterMap rowOut = outs := by
  induction rows generalizing outs with
  | nil => cases outs with
    | nil => rfl
    | cons x xs => simp at h
  | cons r rs ih =>
    cases outs with
    | nil => simp at h
    | cons t ts =>
      simp only [List.map_cons, List.cons.injEq] at h
      simp only [List.filterMap_cons, rowOut_of_take5 r t h.1, ih ts h.2]

/-! ### traces that a script describes are traces of the index -/
theorem groups_nonempty : ∀ (script : Script), ∀ g ∈ groups script, g ≠ []
  | [], g, h => by simp [groups] at h
  | (s, .none) :: _, g, h => by simp [groups] at h; subst h; simp
  | (s, .or) :: rest, g, h => by
    simp only [groups, List.mem_cons] at h
    rcases h with rfl | h
    · simp
    · exact groups_nonempty rest g h
  | (s, .and) :: rest, g, h => by
    simp only [groups] at h
    cases hg : groups rest with
    | nil => rw [hg] at h; simp at h; subst h; simp
    | cons g2 gs2 =>
      rw [hg] at h
      simp only [List.mem_cons] at h
      rcases h with rfl | h
      · simp
      · exact groups_nonempty rest g (by rw [hg]; exact List.mem_cons_of_mem _ h)

theorem traceMatches_traceId (o : Oracles) (ao : AggOracles) (c : Ctx) (d : TraceDb) (script : Script) (tr : Bytes)
    (h : traceMatches o ao c d script tr = true) : tr ∈ d.attrs.map (·.traceId) := by
  simp only [traceMatches, scriptHolds, List.any_eq_true] at h
  obtain ⟨g, hg, hall⟩ := h
  obtain ⟨s, hs⟩ := List.exists_mem_of_ne_nil g (groups_nonempty script g hg)
  have hsm : selMatches o ao c d s tr = true := List.all_eq_true.mp hall s hs
  unfold selMatches at hsm
  cases he : s.attrs with
  | none => rw [he] at hsm; simp at hsm
  | some e =>
    rw [he] at hsm
    simp only [Bool.and_eq_true, Bool.not_eq_true'] at hsm
    have hne : matchedSpans o c d e tr ≠ [] := by
      intro h0; rw [h0] at hsm; simp at hsm
    obtain ⟨k, hk⟩ := List.exists_mem_of_ne_nil _ hne
    simp only [matchedSpans, List.mem_filter, Bool.and_eq_true, beq_iff_eq] at hk
    obtain ⟨hks, hkt, _⟩ := hk
    simp only [spans, mem_dedup, List.mem_map, List.mem_filter] at hks
    obtain ⟨a, ⟨ha, _⟩, hak⟩ := hks
    exact List.mem_map.mpr ⟨a, ha, by rw [← hkt, ← hak]; rfl⟩

theorem IsTopN.congrOn {rec rec' : Bytes → Int} {P P' : Bytes → Prop} {n : Nat} {K : List Bytes} (h : IsTopN rec' P' n K)
    (hP : ∀ t, P' t ↔ P t) (hrec : ∀ t, P t → rec' t = rec t) : IsTopN rec P n K := by
  refine ⟨h.nodup, fun k hk => (hP k).mp (h.sound k hk), h.atMost, ?_, ?_⟩
  · intro m hm hmK
    obtain ⟨h1, h2⟩ := h.most m ((hP m).mpr hm) hmK
    refine ⟨h1, fun k hk => ?_⟩
    rw [← hrec m hm, ← hrec k ((hP k).mp (h.sound k hk))]
    exact h2 k hk
  · refine List.Pairwise.imp_of_mem ?_ h.sorted
    intro a b ha hb hab
    rw [← hrec a ((hP a).mp (h.sound a ha)), ← hrec b ((hP b).mp (h.sound b hb))]
    exact hab

/-! ### which traces `assemble` returns -/
theorem mem_keptSpans (K : List (Bytes × List Bytes)) (S : List SpanRow) (s : SpanRow) :
    s ∈ keptSpans K S ↔ s ∈ S ∧ s.traceId ∈ K.map (·.1) ∧ ∃ k ∈ K, k.1 = s.traceId ∧ s.spanId ∈ k.2 := by
  simp only [keptSpans, List.mem_filter, Bool.and_eq_true, List.contains_iff_mem, tidsOf, pairsFlat, List.mem_flatMap, List.mem_map]
  constructor
  · rintro ⟨hs, ht, k, hk, v, hv, heq⟩
    injection heq with h1 h2
    exact ⟨hs, ht, k, hk, h1, by rw [← h2]; exact hv⟩
  · rintro ⟨hs, ht, k, hk, h1, h2⟩
    exact ⟨hs, ht, k, hk, s.spanId, h2, by rw [h1]⟩

/-- the traces `assemble` returns are the traces of `K` when every one of them has a selected span in the span table
    and `K` fits the limit -/
theorem assemble_traces (K : List (Bytes × List Bytes)) (S : List SpanRow) (n : Nat) (hnd : (K.map (·.1)).Nodup) (hlen : K.length ≤ n)
    (hcover : ∀ k ∈ K, ∃ v ∈ k.2, ∃ s ∈ S, s.traceId = k.1 ∧ s.spanId = v) (t : Bytes) :
    t ∈ (assemble K S (some n)).map (·.traceId) ↔ t ∈ K.map (·.1) := by
  rw [assemble_eq]
  simp only
  generalize hkeys : dedup ((keptSpans K S).map (·.traceId)) = keys
  have hkmem : ∀ x, x ∈ keys ↔ ∃ s ∈ keptSpans K S, s.traceId = x := by
    intro x; rw [← hkeys, mem_dedup, List.mem_map]
  have hksub : ∀ x ∈ keys, x ∈ K.map (·.1) := by
    intro x hx
    obtain ⟨s, hs, rfl⟩ := (hkmem x).mp hx
    exact ((mem_keptSpans K S s).mp hs).2.1
  have hklen : keys.length ≤ n := by
    have := nodup_subset_length keys (K.map (·.1)) (by rw [← hkeys]; exact nodup_dedup _) hksub
    simp at this; omega
  have hslen : (sortBy (fun a b : TraceOut => decide (b.start ≤ a.start)) (keys.map (outOf K S))).length ≤ n := by
    rw [(ListAux.sortBy_perm _ _).length_eq]; simpa using hklen
  rw [List.take_of_length_le hslen, List.mem_map]
  constructor
  · rintro ⟨out, hout, rfl⟩
    obtain ⟨x, hx, rfl⟩ := List.mem_map.mp ((ListAux.mem_sortBy _ _ _).mp hout)
    exact hksub x hx
  · intro ht
    obtain ⟨k, hk, rfl⟩ := List.mem_map.mp ht
    obtain ⟨v, hv, s, hs, hst, hsv⟩ := hcover k hk
    have : s ∈ keptSpans K S := (mem_keptSpans K S s).mpr ⟨hs, by rw [hst]; exact ht, k, hk, hst.symm, by rw [hsv]; exact hv⟩
    have hkk : k.1 ∈ keys := (hkmem k.1).mpr ⟨s, this, hst⟩
    exact ⟨outOf K S k.1, (ListAux.mem_sortBy _ _ _).mpr (List.mem_map.mpr ⟨k.1, hkk, rfl⟩), rfl⟩

/-- every index span has its row in the span table -/
def SpansCover (d : TraceDb) : Prop :=
  ∀ a ∈ d.attrs, ∃ s ∈ d.spansT, s.traceId = a.traceId ∧ s.spanId = a.spanId

theorem traceSpans_index (o : Oracles) (ao : AggOracles) (c : Ctx) (d : TraceDb) (script : Script) (tr v : Bytes)
    (h : v ∈ traceSpans o ao c d script tr) : ∃ a ∈ d.attrs, a.traceId = tr ∧ a.spanId = v := by
  simp only [traceSpans, List.mem_flatMap] at h
  obtain ⟨s, _, hv⟩ := h
  unfold selSpans at hv
  cases he : s.attrs with
  | none => rw [he] at hv; simp at hv
  | some e =>
    rw [he] at hv
    obtain ⟨k, hk, rfl⟩ := List.mem_map.mp hv
    simp only [matchedSpans, List.mem_filter, Bool.and_eq_true, beq_iff_eq] at hk
    obtain ⟨hks, hkt, _⟩ := hk
    simp only [spans, mem_dedup, List.mem_map, List.mem_filter] at hks
    obtain ⟨a, ⟨ha, _⟩, hak⟩ := hks
    exact ⟨a, ha, by rw [← hkt, ← hak]; rfl, by rw [← hak]; rfl⟩

/-! ### one portion statement, and the loop -/
theorem DurConsistent.filter {d : TraceDb} (h : DurConsistent d) (p : AttrRow → Bool) :
    DurConsistent { d with attrs := d.attrs.filter p } :=
  fun a ha b hb hab => h a (List.mem_filter.mp ha).1 b (List.mem_filter.mp hb).1 hab

theorem TsConsistent.filter {d : TraceDb} (h : TsConsistent d) (p : AttrRow → Bool) :
    TsConsistent { d with attrs := d.attrs.filter p } :=
  fun a ha b hb hab => h a (List.mem_filter.mp ha).1 b (List.mem_filter.mp hb).1 hab

theorem portion_eq_restrict (d : TraceDb) (hash : Bytes → Nat) (n i : Nat) (cached : List Bytes) :
    d.portion hash n i cached = d.restrict (fun tr => hash tr % n == i || cached.contains tr) := rfl

theorem restrict_traceId (d : TraceDb) (φ : Bytes → Bool) (tr : Bytes) (h : tr ∈ (d.restrict φ).attrs.map (·.traceId)) : φ tr = true := by
  obtain ⟨a, ha, rfl⟩ := List.mem_map.mp h
  exact (List.mem_filter.mp ha).2

section
variable (o : Oracles) (ao : AggOracles) (hp : PermInv ao) (c : Ctx) (d : TraceDb) (hash : Bytes → Nat) (idText : Bytes → String)
  (hinj : ∀ a b, idText a = idText b → a = b) (N : Nat) (hN : 0 < N)
  (hcons : DurConsistent (d.withPortionCols hash idText N)) (hts : TsConsistent (d.withPortionCols hash idText N))
  (script : Script) (hok : ∀ p ∈ script, SelOk p.1) (hlim : 0 < c.limit) (htab : TablesDistinct c)
include hp hinj hN hcons hts hok hlim htab

/-- **one portion statement**: the statement of portion `i` with the cached trace ids `cachedIds` returns `assemble` of a
    choice of the `limit` most recent among the described traces that are in portion `i` or cached — described, recency and
    selected spans all read on the WHOLE index -/
theorem portion_statement (i : Nat) (cachedIds : List Bytes) (hsub : ∀ t ∈ cachedIds, d.traceIds.contains t = true)
    (outs : List TraceOut)
    (h : stmtRows o ao (d.withPortionCols hash idText N) script (portionCtx c N i (cachedIds.map idText)) = .ok outs) :
    ∃ K : List (Bytes × List Bytes),
      IsTopN (traceRec o ao c (d.withPortionCols hash idText N) script)
        (fun tr => traceMatches o ao c (d.withPortionCols hash idText N) script tr = true ∧ (hash tr % N == i || cachedIds.contains tr) = true)
        c.limit.toNat (K.map (·.1)) ∧
      (∀ k ∈ K, SpanSetOk (traceSpans o ao c (d.withPortionCols hash idText N) script k.1)
        (scriptL (fun s tr => selMatches o ao c (d.withPortionCols hash idText N) s tr)
          (fun s tr => [selSpans o c (d.withPortionCols hash idText N) s tr]) script k.1) k.2) ∧
      outs = assemble K (d.withPortionCols hash idText N).spansT (some c.limit.toNat) := by
  generalize hdv : d.withPortionCols hash idText N = dv at *
  simp only [stmtRows, bind, Except.bind] at h
  cases hpl : plan (portionCtx c N i (cachedIds.map idText)) script with
  | error e => simp [hpl] at h
  | ok S =>
    simp only [hpl, pure, Except.pure, Except.ok.injEq] at h
    have hseen : dv.seen o (portionCtx c N i (cachedIds.map idText)) = dv.restrict (fun tr => hash tr % N == i || cachedIds.contains tr) := by
      rw [← hdv, seen_portion o c d hash idText hinj N i hN cachedIds hsub]; rfl
    have hcons' : DurConsistent (dv.seen o (portionCtx c N i (cachedIds.map idText))) := by
      rw [hseen]; exact hcons.filter _
    have hts' : TsConsistent (dv.seen o (portionCtx c N i (cachedIds.map idText))) := by
      rw [hseen]; exact hts.filter _
    obtain ⟨K, hK, hspans, hrows⟩ := plan_rows o ao hp (portionCtx c N i (cachedIds.map idText)) dv hcons' hts' script S hpl hok hlim
      ⟨htab.t1, htab.t2, htab.t3, htab.t4⟩
    rw [hseen] at hK hspans
    have hφ : ∀ k ∈ K, (hash k.1 % N == i || cachedIds.contains k.1) = true := by
      intro k hk
      have := hK.sound k.1 (List.mem_map.mpr ⟨k, hk, rfl⟩)
      exact restrict_traceId dv _ k.1 (traceMatches_traceId o ao _ _ script k.1 this)
    refine ⟨K, ?_, ?_, ?_⟩
    · refine IsTopN.congrOn (rec' := traceRec o ao c (dv.restrict (fun tr => hash tr % N == i || cachedIds.contains tr)) script) hK ?_ ?_
      · intro t
        constructor
        · intro ht
          have hφt := restrict_traceId dv _ t (traceMatches_traceId o ao _ _ script t ht)
          exact ⟨by rw [← traceMatches_restrict o ao c dv (fun tr => hash tr % N == i || cachedIds.contains tr) script t hφt]; exact ht, hφt⟩
        · rintro ⟨ht, hφt⟩
          show traceMatches o ao c (dv.restrict (fun tr => hash tr % N == i || cachedIds.contains tr)) script t = true
          rw [traceMatches_restrict o ao c dv (fun tr => hash tr % N == i || cachedIds.contains tr) script t hφt]; exact ht
      · rintro t ⟨_, hφt⟩
        exact traceRec_restrict o ao c dv (fun tr => hash tr % N == i || cachedIds.contains tr) script t hφt
    · intro k hk
      have := hspans k hk
      have e1 : traceSpans o ao (portionCtx c N i (cachedIds.map idText)) (dv.restrict (fun tr => hash tr % N == i || cachedIds.contains tr)) script k.1 =
          traceSpans o ao c dv script k.1 := traceSpans_restrict o ao c dv (fun tr => hash tr % N == i || cachedIds.contains tr) script k.1 (hφ k hk)
      have e2 : scriptL (fun s tr => selMatches o ao (portionCtx c N i (cachedIds.map idText)) (dv.restrict (fun tr => hash tr % N == i || cachedIds.contains tr)) s tr)
            (fun s tr => [selSpans o (portionCtx c N i (cachedIds.map idText)) (dv.restrict (fun tr => hash tr % N == i || cachedIds.contains tr)) s tr]) script k.1 =
          scriptL (fun s tr => selMatches o ao c dv s tr) (fun s tr => [selSpans o c dv s tr]) script k.1 :=
        scriptL_restrict o ao c dv (fun tr => hash tr % N == i || cachedIds.contains tr) _ _ script k.1 (hφ k hk)
          (fun s => by
            show [selSpans o c (dv.restrict (fun tr => hash tr % N == i || cachedIds.contains tr)) s k.1] = [selSpans o c dv s k.1]
            rw [selSpans_restrict o c dv (fun tr => hash tr % N == i || cachedIds.contains tr) s k.1 (hφ k hk)])
      rw [e1, e2] at this
      exact this
    · rw [← h]
      exact filterMap_rowOut _ _ hrows
end

theorem assemble_nil (S : List SpanRow) (n : Nat) : assemble [] S (some n) = [] := by
  rw [assemble_eq]
  have : keptSpans [] S = [] := by simp [keptSpans, tidsOf]
  simp [this, dedup, sortBy]

section
variable (o : Oracles) (ao : AggOracles) (hp : PermInv ao) (c : Ctx) (d : TraceDb) (hash : Bytes → Nat) (idText : Bytes → String)
  (hinj : ∀ a b, idText a = idText b → a = b) (N : Nat) (hN : 0 < N)
  (hcons : DurConsistent (d.withPortionCols hash idText N)) (hts : TsConsistent (d.withPortionCols hash idText N))
  (hcover : SpansCover (d.withPortionCols hash idText N))
  (script : Script) (hok : ∀ p ∈ script, SelOk p.1) (hlim : 0 < c.limit) (htab : TablesDistinct c)
include hp hinj hN hcons hts hcover hok hlim htab

/-- the invariant of the loop: after the portions below `j`, the result is `assemble` of a choice of the `limit` most
    recent described traces of those portions -/
theorem loop_inv (k : Nat) (hk : k ≤ N) (K : List (Bytes × List Bytes))
    (hInv : IsTopN (traceRec o ao c (d.withPortionCols hash idText N) script)
      (fun t => traceMatches o ao c (d.withPortionCols hash idText N) script t = true ∧ hash t % N < N - k) c.limit.toNat (K.map (·.1)))
    (hsp : ∀ x ∈ K, SpanSetOk (traceSpans o ao c (d.withPortionCols hash idText N) script x.1)
      (scriptL (fun s tr => selMatches o ao c (d.withPortionCols hash idText N) s tr)
        (fun s tr => [selSpans o c (d.withPortionCols hash idText N) s tr]) script x.1) x.2)
    (out : List TraceOut)
    (h : portionLoop (stmtRows o ao (d.withPortionCols hash idText N) script) idText c N k
      (((assemble K (d.withPortionCols hash idText N).spansT (some c.limit.toNat)).map (·.traceId)).map idText)
      (assemble K (d.withPortionCols hash idText N).spansT (some c.limit.toNat)) = .ok out) :
    ∃ K' : List (Bytes × List Bytes),
      IsTopN (traceRec o ao c (d.withPortionCols hash idText N) script)
        (fun t => traceMatches o ao c (d.withPortionCols hash idText N) script t = true) c.limit.toNat (K'.map (·.1)) ∧
      (∀ x ∈ K', SpanSetOk (traceSpans o ao c (d.withPortionCols hash idText N) script x.1)
        (scriptL (fun s tr => selMatches o ao c (d.withPortionCols hash idText N) s tr)
          (fun s tr => [selSpans o c (d.withPortionCols hash idText N) s tr]) script x.1) x.2) ∧
      out = assemble K' (d.withPortionCols hash idText N).spansT (some c.limit.toNat) := by
  induction k generalizing K with
  | zero =>
    simp only [portionLoop, pure, Except.pure, Except.ok.injEq] at h
    refine ⟨K, ?_, hsp, h.symm⟩
    refine hInv.congrOn ?_ (fun _ _ => rfl)
    intro t
    constructor
    · exact fun h => h.1
    · intro ht
      exact ⟨ht, by simpa using Nat.mod_lt _ hN⟩
  | succ k ih =>
    simp only [portionLoop, bind, Except.bind] at h
    generalize hdv : d.withPortionCols hash idText N = dv at *
    -- the traces cached for this iteration are the traces of `K`
    have hcov : ∀ x ∈ K, ∃ v ∈ x.2, ∃ s ∈ dv.spansT, s.traceId = x.1 ∧ s.spanId = v := by
      intro x hx
      have hs := hsp x hx
      obtain ⟨v, hv⟩ := List.exists_mem_of_ne_nil _ hs.nonempty
      obtain ⟨a, ha, hat, hav⟩ := traceSpans_index o ao c dv script x.1 v (hs.sound v hv)
      obtain ⟨s, hs', hst, hss⟩ := hcover a ha
      exact ⟨v, hv, s, hs', by rw [hst, hat], by rw [hss, hav]⟩
    have hids : ∀ t, ((assemble K dv.spansT (some c.limit.toNat)).map (·.traceId)).contains t = true ↔ t ∈ K.map (·.1) := by
      intro t
      rw [List.contains_iff_mem]
      exact assemble_traces K dv.spansT c.limit.toNat hInv.nodup (by simpa using hInv.atMost) hcov t
    have hsub : ∀ t ∈ (assemble K dv.spansT (some c.limit.toNat)).map (·.traceId), d.traceIds.contains t = true := by
      intro t ht
      have hK := (hids t).mp (List.contains_iff_mem.mpr ht)
      have hm := (hInv.sound t hK).1
      have := traceMatches_traceId o ao c dv script t hm
      rw [← hdv, withPortionCols_traceIds] at this
      exact List.contains_iff_mem.mpr ((mem_dedup _ _).mpr this)
    cases hrun : stmtRows o ao dv script (portionCtx c N (N - (k + 1)) (((assemble K dv.spansT (some c.limit.toNat)).map (·.traceId)).map idText)) with
    | error e => rw [hrun] at h; cases h
    | ok res' =>
      simp only [hrun] at h
      obtain ⟨K', hK', hsp', hres'⟩ := portion_statement o ao hp c d hash idText hinj N hN (hdv ▸ hcons) (hdv ▸ hts) script hok hlim htab
        (N - (k + 1)) ((assemble K dv.spansT (some c.limit.toNat)).map (·.traceId)) hsub res' (by rw [hdv]; exact hrun)
      rw [hdv] at hK' hsp' hres'
      -- the candidates of this round: the described traces of portion `N - (k+1)` and the traces kept so far
      have hcand : IsTopN (traceRec o ao c dv script)
          (fun t => (traceMatches o ao c dv script t = true ∧ hash t % N = N - (k + 1)) ∨ t ∈ K.map (·.1)) c.limit.toNat (K'.map (·.1)) := by
        refine hK'.congrOn ?_ (fun _ _ => rfl)
        intro t
        simp only [Bool.or_eq_true, beq_iff_eq, hids]
        constructor
        · rintro ⟨hm, hh | hk⟩
          · exact Or.inl ⟨hm, hh⟩
          · exact Or.inr hk
        · rintro (⟨hm, hh⟩ | hk)
          · exact ⟨hm, Or.inl hh⟩
          · exact ⟨(hInv.sound t hk).1, Or.inr hk⟩
      have hmerge := topN_merge _ _ _ _ _ _ hInv hcand
      have hInv' : IsTopN (traceRec o ao c dv script)
          (fun t => traceMatches o ao c dv script t = true ∧ hash t % N < N - k) c.limit.toNat (K'.map (·.1)) := by
        refine hmerge.congrOn ?_ (fun _ _ => rfl)
        intro t
        constructor
        · rintro (⟨hm, hlt⟩ | ⟨hm, heq⟩)
          · exact ⟨hm, by omega⟩
          · exact ⟨hm, by omega⟩
        · rintro ⟨hm, hlt⟩
          by_cases hh : hash t % N < N - (k + 1)
          · exact Or.inl ⟨hm, hh⟩
          · exact Or.inr ⟨hm, by omega⟩
      have hmap : res'.map (fun t => idText t.traceId) = (res'.map (·.traceId)).map idText := by
        rw [List.map_map]; rfl
      rw [hmap, hres'] at h
      exact ih (by omega) K' hInv' hsp' h

/-- **portions_partition**: the loop of `ComplexRequestProcessor` over `N ≥ 1` portions (any hash function) returns
    `assemble` of a choice of the `limit` most recent traces the script describes in the WHOLE index, each with an
    admissible array of the spans the script selects of it — the specification the single statement meets (`plan_rows`) -/
theorem portions_partition (out : List TraceOut)
    (h : portionLoop (stmtRows o ao (d.withPortionCols hash idText N) script) idText c N N [] [] = .ok out) :
    ∃ K : List (Bytes × List Bytes),
      IsTopN (traceRec o ao c (d.withPortionCols hash idText N) script)
        (fun t => traceMatches o ao c (d.withPortionCols hash idText N) script t = true) c.limit.toNat (K.map (·.1)) ∧
      (∀ x ∈ K, SpanSetOk (traceSpans o ao c (d.withPortionCols hash idText N) script x.1)
        (scriptL (fun s tr => selMatches o ao c (d.withPortionCols hash idText N) s tr)
          (fun s tr => [selSpans o c (d.withPortionCols hash idText N) s tr]) script x.1) x.2) ∧
      out = assemble K (d.withPortionCols hash idText N).spansT (some c.limit.toNat) := by
  have h0 : IsTopN (traceRec o ao c (d.withPortionCols hash idText N) script)
      (fun t => traceMatches o ao c (d.withPortionCols hash idText N) script t = true ∧ hash t % N < N - N) c.limit.toNat
      (([] : List (Bytes × List Bytes)).map (·.1)) := by
    refine ⟨by simp, by simp, by simp, ?_, by simp⟩
    intro m hm _
    simp at hm
  apply loop_inv o ao hp c d hash idText hinj N hN hcons hts hcover script hok hlim htab N (Nat.le_refl N) [] h0 (by simp) out
  rw [assemble_nil]
  exact h
end

/-- **when recency tells the described traces apart, the choice is unique**: two choices of the `n` most recent have the
    same members -/
theorem topN_unique (rec : Bytes → Int) (P : Bytes → Prop) (n : Nat) (K1 K2 : List Bytes)
    (h1 : IsTopN rec P n K1) (h2 : IsTopN rec P n K2) (hinj : ∀ a b, P a → P b → rec a = rec b → a = b) :
    ∀ t, t ∈ K1 ↔ t ∈ K2 := by
  have key : ∀ (A B : List Bytes), IsTopN rec P n A → IsTopN rec P n B → ∀ t ∈ A, t ∈ B := by
    intro A B hA hB t htA
    by_cases htB : t ∈ B
    · exact htB
    · exfalso
      obtain ⟨hBfull, hBle⟩ := hB.most t (hA.sound t htA) htB
      -- `B` is full, `A` has at most as many members and one outside `B`: some member of `B` is outside `A`
      have : ∃ b, b ∈ B ∧ b ∉ A := by
        by_cases h : ∃ b, b ∈ B ∧ b ∉ A
        · exact h
        · exfalso
          have hall : ∀ b ∈ B, b ∈ A := by
            intro b hb
            by_cases hb' : b ∈ A
            · exact hb'
            · exact absurd ⟨b, hb, hb'⟩ h
          have := nodup_eq_length_subset B A hB.nodup (by have := hA.atMost; omega) hall t htA
          exact htB this
      obtain ⟨b, hbB, hbA⟩ := this
      obtain ⟨_, hAle⟩ := hA.most b (hB.sound b hbB) hbA
      have e := Int.le_antisymm (hAle t htA) (hBle b hbB)
      have := hinj b t (hB.sound b hbB) (hA.sound t htA) e
      exact hbA (this ▸ htA)
  intro t
  exact ⟨key K1 K2 h1 h2 t, key K2 K1 h2 h1 t⟩

end Qryn.TraceQL
