import Qryn.Proofs.TraceQLWhole
/-! C11: the portion loop of `ComplexRequestProcessor`. The portion filter of a statement, read on the computed
    columns of the index, lets through exactly the traces of the portion and the cached ones; what a script says of a
    trace depends on the index rows of that trace only; merging portion after portion — each statement over its portion
    plus the traces kept so far, cut at `limit` — ends with a choice of the `limit` most recent of all. -/
namespace Qryn.TraceQL
open Qryn Qryn.Sql

/-! ### the computed columns -/
theorem head_append (p x : String) (ch : Char) (hp : p.toList.head? = some ch) : (p ++ x).toList.head? = some ch := by
  rw [String.toList_append]
  cases h : p.toList with
  | nil => rw [h] at hp; simp at hp
  | cons a as => rw [h] at hp; simpa using hp

theorem lookup_none_of_head (n : String) (l : List (String × Val)) (h : ∀ p ∈ l, p.1.toList.head? ≠ n.toList.head?) :
    l.lookup n = none := by
  induction l with
  | nil => rfl
  | cons p ps ih =>
    obtain ⟨k, v⟩ := p
    have hk : (n == k) = false := by
      rw [beq_eq_false_iff_ne]; intro hnk; exact h (k, v) (by simp) (by rw [hnk])
    simp [List.lookup, hk, ih (fun q hq => h q (List.mem_cons_of_mem _ hq))]

theorem hashName_head (n : Nat) : (hashName n).toList.head? = some 'c' := head_append _ _ 'c' (by decide)
theorem unhexName_head (t : String) : (unhexName t).toList.head? = some 'u' := by
  unfold unhexName; rw [String.append_assoc]; exact head_append _ _ 'u' (by decide)

theorem unhexName_inj (a b : String) (h : unhexName a = unhexName b) : a = b := by
  unfold unhexName at h
  have h1 := str_app_cancel "unhex('" (a ++ "')") (b ++ "')") (by simpa [String.append_assoc] using h)
  have h2 := congrArg String.toList h1
  simp only [String.toList_append] at h2
  exact String.toList_inj.mp (List.append_cancel_right h2)

/-- a name that starts with neither `t` nor one of the first letters of the index columns is looked up in the computed columns -/
theorem qrow_get_extra (a : AttrRow) (n : String) (ch : Char) (hn : n.toList.head? = some ch)
    (h1 : ch ≠ 't') (h2 : ch ≠ 'd') (h3 : ch ≠ 'k') (h4 : ch ≠ 'v') (h5 : ch ≠ 's') :
    a.qrow.get n = (a.extra.lookup n).getD .null := by
  unfold AttrRow.qrow qualify Row.get
  rw [List.lookup_append]
  have e1 : List.lookup n (a.row.map (fun (k, v) => ("traces_idx" ++ "." ++ k, v))) = none := by
    apply lookup_none_of_head
    intro p hp
    obtain ⟨q, _, rfl⟩ := List.mem_map.mp hp
    obtain ⟨k, v⟩ := q
    simp only
    rw [hn, String.append_assoc, head_append "traces_idx" _ 't' (by decide)]
    intro h; cases h; exact h1 rfl
  rw [e1]
  simp only [Option.none_or, AttrRow.row]
  rw [List.lookup_append]
  have e2 : List.lookup n [("date", Val.str a.date), ("key", .str a.key), ("val", .str a.val), ("trace_id", .str a.traceId),
      ("span_id", .str a.spanId), ("timestamp_ns", .int a.ts), ("duration", .int a.dur)] = none := by
    apply lookup_none_of_head
    intro p hp
    rw [hn]
    simp only [List.mem_cons, List.not_mem_nil, or_false] at hp
    have hd : ∀ (s : String) (x : Char), s.toList.head? = some x → x ≠ ch → s.toList.head? ≠ some ch := by
      intro s x hs hx h; rw [hs] at h; injection h with h; exact hx h
    rcases hp with rfl | rfl | rfl | rfl | rfl | rfl | rfl
    · exact hd "date" 'd' (by decide) (Ne.symm h2)
    · exact hd "key" 'k' (by decide) (Ne.symm h3)
    · exact hd "val" 'v' (by decide) (Ne.symm h4)
    · exact hd "trace_id" 't' (by decide) (Ne.symm h1)
    · exact hd "span_id" 's' (by decide) (Ne.symm h5)
    · exact hd "timestamp_ns" 't' (by decide) (Ne.symm h1)
    · exact hd "duration" 'd' (by decide) (Ne.symm h2)
  rw [e2]
  simp

theorem lookup_map_inj {α} [BEq α] [LawfulBEq α] (l : List α) (f : α → String) (g : α → Val) (hf : ∀ a b, f a = f b → a = b) (t0 : α) :
    (l.map (fun t => (f t, g t))).lookup (f t0) = if l.contains t0 then some (g t0) else none := by
  induction l with
  | nil => rfl
  | cons x xs ih =>
    by_cases hx : x = t0
    · subst hx; simp [List.lookup]
    · have : (f t0 == f x) = false := by rw [beq_eq_false_iff_ne]; exact fun h => hx (hf _ _ h).symm
      have h2 : (t0 == x) = false := by rw [beq_eq_false_iff_ne]; exact fun h => hx h.symm
      simp only [List.map_cons, List.lookup, this, ih, List.contains_cons, h2, Bool.false_or]

section
variable (hash : Bytes → Nat) (idText : Bytes → String) (hinj : ∀ a b, idText a = idText b → a = b) (n : Nat) (ids : List Bytes)
include hinj

theorem portionCols_hash (tr : Bytes) : (portionCols hash idText n ids tr).lookup (hashName n) = some (.int ((hash tr % n : Nat) : Int)) := by
  unfold portionCols
  simp only [List.lookup, beq_self_eq_true]

theorem portionCols_unhex (tr t0 : Bytes) :
    (portionCols hash idText n ids tr).lookup (unhexName (idText t0)) = if ids.contains t0 then some (.str t0) else none := by
  unfold portionCols
  have hne : (unhexName (idText t0) == hashName n) = false := by
    rw [beq_eq_false_iff_ne]
    intro h
    have h1 := unhexName_head (idText t0)
    rw [h, hashName_head n] at h1
    cases h1
  simp only [List.lookup, hne]
  exact lookup_map_inj ids (fun t => unhexName (idText t)) (fun t => Val.str t)
    (fun a b h => hinj a b (unhexName_inj _ _ h)) t0
end

/-! ### the portion filter on the computed columns -/
theorem evalE_isIn_raws (o : Oracles) (env : Env) (r : Row) (l : Expr) (names : List String) :
    evalE o env r (.isIn l (names.map Expr.raw)) = boolVal ((names.map (fun n => r.get n)).contains (evalE o env r l)) := by
  have hes : ∀ ns : List String, evalEs o env r (ns.map Expr.raw) = ns.map (fun n => r.get n) := by
    intro ns
    induction ns with
    | nil => simp [evalEs]
    | cons x xs ih => simp [evalEs, evalE, ih]
  rcases names with _ | ⟨x, _ | ⟨y, ys⟩⟩
  · simp [evalE, evalEs]
  · simp [evalE, evalEs]
  · have := hes (x :: y :: ys)
    simp only [List.map_cons] at this ⊢
    simp only [evalE, this]

section
variable (o : Oracles) (c : Ctx) (hash : Bytes → Nat) (idText : Bytes → String) (hinj : ∀ a b, idText a = idText b → a = b)
  (n i : Nat) (hn : 0 < n) (ids cachedIds : List Bytes) (hsub : ∀ t ∈ cachedIds, ids.contains t = true)
include hinj hn hsub

/-- **the portion filter**: on an index row carrying the computed columns, `cityHash64(trace_id) % n == i OR trace_id IN
    (unhex('<cached id>'), …)` holds iff the trace is in portion `i` of `n` or among the cached ones -/
theorem portionOk_cols (a0 : AttrRow) :
    portionOk o (portionCtx c n i (cachedIds.map idText)) { a0 with extra := portionCols hash idText n ids a0.traceId } =
      (hash a0.traceId % n == i || cachedIds.contains a0.traceId) := by
  generalize ha : ({ a0 with extra := portionCols hash idText n ids a0.traceId } : AttrRow) = a
  have hextra : a.extra = portionCols hash idText n ids a0.traceId := by rw [← ha]
  have htr : a.qrow.get "trace_id" = .str a0.traceId := by rw [qrow_trace, ← ha]
  have hh : a.qrow.get (hashName n) = .int ((hash a0.traceId % n : Nat) : Int) := by
    rw [qrow_get_extra a _ 'c' (hashName_head n) (by decide) (by decide) (by decide) (by decide) (by decide), hextra,
      portionCols_hash hash idText hinj n ids]
    rfl
  have hu : ∀ t ∈ cachedIds, a.qrow.get (unhexName (idText t)) = .str t := by
    intro t ht
    rw [qrow_get_extra a _ 'u' (unhexName_head _) (by decide) (by decide) (by decide) (by decide) (by decide), hextra,
      portionCols_unhex hash idText hinj n ids, hsub t ht]
    rfl
  have hhash : evalB o [] a.qrow (eq (.raw ("cityHash64(trace_id) % " ++ toString ((n : Nat) : Int))) (.int (i : Nat))) =
      (hash a0.traceId % n == i) := by
    have : ("cityHash64(trace_id) % " ++ toString ((n : Nat) : Int)) = hashName n := rfl
    simp only [evalB, eq, evalE, this, hh, cmpOp, show ("==" = "and") = False from by decide,
      show ("==" = "or") = False from by decide, if_false, truthy_boolVal]
    rw [Bool.eq_iff_iff]
    simp
    omega
  have hnz : ((n : Nat) : Int) ≠ 0 := by omega
  unfold portionOk randomFilter portionCtx
  simp only [hnz, ne_eq, not_false_eq_true, true_and, List.isEmpty_map]
  cases hc : cachedIds with
  | nil =>
    simp only [List.isEmpty_nil, not_true_eq_false, if_false, List.contains_nil, Bool.or_false, if_true, evalAll_cons, evalAll_nil,
      Bool.and_true]
    exact hhash
  | cons t ts =>
    simp only [List.isEmpty_cons, Bool.false_eq_true, not_false_eq_true, if_true, evalAll_cons, evalAll_nil, Bool.and_true, evalB_or,
      evalAny_cons, evalAny_nil, Bool.or_false, hhash]
    congr 1
    have hnames : ((t :: ts).map idText).map (fun t => Expr.raw ("unhex('" ++ t ++ "')")) =
        (((t :: ts).map idText).map unhexName).map Expr.raw := by
      simp [List.map_map, Function.comp_def, unhexName]
    rw [hnames, evalB, evalE_isIn_raws, truthy_boolVal]
    simp only [evalE, htr, List.map_map]
    have : ((t :: ts).map ((fun n => a.qrow.get n) ∘ unhexName ∘ idText)) = (t :: ts).map Val.str := by
      apply List.map_congr_left
      intro x hx
      simp only [Function.comp]
      exact hu x (by rw [hc]; exact hx)
    rw [this, contains_map_str]
end

end Qryn.TraceQL
