import Qryn.Proofs.ListAux
/-! Unfolding lemmas for `Sql.SemG`. -/
namespace Qryn.Sql
open Qryn

/-- the ordered, limited groups of a grouped select over the scope `env` -/
def groupsG (o : Oracles) (ao : AggOracles) (db : Db) (env : Env) (from_ : Expr) (wher : Option Expr)
    (gb : List Expr) (having : Option Expr) (cols ob : List Expr) (limit : Option Expr) : List (List Row) :=
  let filtered := (sourceRowsG o ao db env from_).filter (fun r => optB o env r wher)
  let keyOf := fun (r : Row) => gb.map (fun k => evalE o env r k)
  let groups := (dedup (filtered.map keyOf)).map (fun k => filtered.filter (fun r => keyOf r == k))
  let kept := groups.filter (fun g => havingG o ao env g having)
  limitG limit (if ob.isEmpty then kept else sortBy (grpLe o env cols ob) kept)

def projG (o : Oracles) (env : Env) (cols : List Expr) (g : List Row) : Row :=
  cols.map (fun c => (colName c, evalGrp o env g c))

theorem evalSelG_grouped (o : Oracles) (ao : AggOracles) (db : Db) (own : Bool) (env0 : Env)
    (ws : List (Alias × Sel)) (d : Bool) (cols : List Expr) (f : Expr) (wher : Option Expr) (k0 : Expr) (ks : List Expr)
    (having : Option Expr) (ob : List Expr) (limit : Option Expr) :
    evalSelG o ao db own env0 (.mk ws d cols (some f) [] none wher (k0 :: ks) having ob limit) =
      (groupsG o ao db (if own then evalWithsG o ao db env0 ws else env0) f wher (k0 :: ks) having cols ob limit).map
        (projG o (if own then evalWithsG o ao db env0 ws else env0) cols) := by
  simp [evalSelG, groupsG, projG, optB]

theorem evalWithsG_append (o : Oracles) (ao : AggOracles) (db : Db) (env : Env) (ws vs : List (Alias × Sel)) :
    evalWithsG o ao db env (ws ++ vs) = evalWithsG o ao db (evalWithsG o ao db env ws) vs := by
  induction ws generalizing env with
  | nil => simp [evalWithsG]
  | cons w ws ih => obtain ⟨a, s⟩ := w; simp [evalWithsG, ih]

theorem lookup_head (a : Alias) (t : Table) (env : Env) : (((a, t) :: env : Env).lookup a) = some t := by
  simp [List.lookup]

theorem dedup_map_inj {α β} [BEq α] [LawfulBEq α] [BEq β] [LawfulBEq β] (f : α → β)
    (hf : ∀ a b, f a = f b → a = b) (l : List α) : dedup (l.map f) = (dedup l).map f := by
  induction l with
  | nil => simp [dedup]
  | cons x xs ih =>
    simp only [List.map_cons, dedup, ih, List.filter_map]
    congr 1
    congr 1
    apply List.filter_congr
    intro y _
    simp only [Function.comp]
    by_cases h : y = x
    · simp [h]
    · have : f y ≠ f x := fun h' => h (hf _ _ h')
      rw [beq_eq_false_iff_ne.mpr this, beq_eq_false_iff_ne.mpr h]

theorem dedup_eq_self_of_nodup {α} [BEq α] [LawfulBEq α] (l : List α) (h : l.Nodup) : dedup l = l := by
  induction l with
  | nil => simp [dedup]
  | cons x xs ih =>
    rw [List.nodup_cons] at h
    simp only [dedup, ih h.2]
    congr 1
    rw [List.filter_eq_self]
    intro y hy
    have : y ≠ x := fun hyx => h.1 (hyx ▸ hy)
    simp [this]

/-- grouping rows `q a` by a key that is an injective image `kv (key a)` of a key of the records -/
theorem groups_of_records {α κ} [BEq κ] [LawfulBEq κ] (l : List α) (q : α → Row) (key : α → κ) (kv : κ → List Val)
    (keyOf : Row → List Val) (hk : ∀ a, keyOf (q a) = kv (key a)) (hinj : ∀ a b, kv a = kv b → a = b) :
    (dedup ((l.map q).map keyOf)).map (fun k => (l.map q).filter (fun r => keyOf r == k)) =
      (dedup (l.map key)).map (fun k => (l.filter (fun a => key a == k)).map q) := by
  have h1 : (l.map q).map keyOf = (l.map key).map kv := by simp [List.map_map, Function.comp_def, hk]
  rw [h1, dedup_map_inj kv hinj, List.map_map]
  apply List.map_congr_left
  intro k _
  simp only [Function.comp, List.filter_map]
  congr 1
  apply List.filter_congr
  intro a _
  simp only [Function.comp, hk]
  by_cases h : key a = k
  · simp [h]
  · have : kv (key a) ≠ kv k := fun h' => h (hinj _ _ h')
    rw [beq_eq_false_iff_ne.mpr this, beq_eq_false_iff_ne.mpr h]

theorem str_app_cancel (x k k' : String) (h : x ++ k = x ++ k') : k = k' := by
  have := congrArg String.toList h
  simp [String.toList_append] at this
  exact String.toList_inj.mp this

theorem qual_ne (x k n : String) (hn : '.' ∉ n.toList) : x ++ "." ++ k ≠ n := by
  intro h
  apply hn
  rw [← h]
  simp [String.toList_append]

/-- an unqualified name is not shadowed by the alias-qualified copies of the columns -/
theorem get_qualify_nodot (al : String) (r : Row) (n : String) (hn : '.' ∉ n.toList) :
    (qualify al r).get n = r.get n := by
  have h0 : ∀ (l : Row), List.lookup n (l.map (fun (k, v) => (al ++ "." ++ k, v))) = none := by
    intro l
    induction l with
    | nil => rfl
    | cons p ps ih =>
      obtain ⟨k', v'⟩ := p
      have : (n == al ++ "." ++ k') = false := by
        rw [beq_eq_false_iff_ne]; exact fun h => qual_ne al k' n hn h.symm
      simp [List.lookup, this, ih]
  simp only [Row.get, qualify, List.lookup_append]
  rw [h0 r]; simp

/-- a qualified name finds the column of that name -/
theorem get_qualify_dot (al : String) (r : Row) (k : String) : (qualify al r).get (al ++ "." ++ k) =
    (match r.lookup k with | some v => v | none => r.get (al ++ "." ++ k)) := by
  have h0 : ∀ (l : Row), List.lookup (al ++ "." ++ k) (l.map (fun (k, v) => (al ++ "." ++ k, v))) =
      List.lookup k l := by
    intro l
    induction l with
    | nil => rfl
    | cons p ps ih =>
      obtain ⟨k', v'⟩ := p
      have : (al ++ "." ++ k == al ++ "." ++ k') = (k == k') := by
        by_cases h : k = k'
        · simp [h]
        · have : al ++ "." ++ k ≠ al ++ "." ++ k' := fun h' => h (str_app_cancel _ _ _ h')
          rw [beq_eq_false_iff_ne.mpr this, beq_eq_false_iff_ne.mpr h]
      simp [List.lookup, this, ih]
  simp only [Row.get, qualify, List.lookup_append]
  rw [h0 r]
  cases List.lookup k r <;> simp

/-- the rows of a source whose key expression evaluates to `v` -/
def rowsWith (o : Oracles) (env : Env) (F : Table) (e : Expr) (v : Val) : Table :=
  F.filter (fun r => evalE o env r e == v)

/-- GROUP BY one key, no WHERE, no LIMIT: up to order, one group per distinct key value that passes HAVING -/
theorem groupsG_single (o : Oracles) (ao : AggOracles) (db : Db) (env : Env) (f e : Expr) (hav : Option Expr)
    (cols ob : List Expr) :
    (groupsG o ao db env f none [e] hav cols ob none).Perm
      (((dedup ((sourceRowsG o ao db env f).map (fun r => evalE o env r e))).filter
          (fun v => havingG o ao env (rowsWith o env (sourceRowsG o ao db env f) e v) hav)).map
        (rowsWith o env (sourceRowsG o ao db env f) e)) := by
  unfold groupsG
  have hft : (sourceRowsG o ao db env f).filter (fun r => optB o env r none) = sourceRowsG o ao db env f := by
    rw [List.filter_eq_self]; intro r _; rfl
  simp only [limitG, hft, List.map_cons, List.map_nil]
  have h1 : (sourceRowsG o ao db env f).map (fun r => [evalE o env r e]) =
      ((sourceRowsG o ao db env f).map (fun r => evalE o env r e)).map (fun v => [v]) := by
    simp [List.map_map, Function.comp_def]
  rw [h1, dedup_map_inj (fun v : Val => [v]) (by intro a b h; simpa using h), List.map_map, List.filter_map]
  have hk : ∀ (l : List (List Row)), (if ob.isEmpty = true then l else sortBy (grpLe o env cols ob) l).Perm l := by
    intro l; split
    · exact List.Perm.refl _
    · exact ListAux.sortBy_perm _ _
  refine (hk _).trans ?_
  have h2 : ∀ v : Val, ((fun k => (sourceRowsG o ao db env f).filter (fun r => [evalE o env r e] == k)) ∘ fun v => [v]) v =
      rowsWith o env (sourceRowsG o ao db env f) e v := by
    intro v
    simp only [Function.comp, rowsWith]
    apply List.filter_congr
    intro r _
    by_cases h : evalE o env r e = v
    · simp [h]
    · have : [evalE o env r e] ≠ [v] := by simpa using h
      rw [beq_eq_false_iff_ne.mpr this, beq_eq_false_iff_ne.mpr h]
  have h3 : ((fun k => (sourceRowsG o ao db env f).filter (fun r => [evalE o env r e] == k)) ∘ fun v => [v]) =
      rowsWith o env (sourceRowsG o ao db env f) e := funext h2
  rw [h3]
  exact List.Perm.refl _

theorem dedup_perm {α} [BEq α] [LawfulBEq α] (l l' : List α) (h : l.Perm l') : (dedup l).Perm (dedup l') := by
  rw [List.perm_ext_iff_of_nodup (nodup_dedup _) (nodup_dedup _)]
  intro a
  simp [mem_dedup, h.mem_iff]

theorem dedup_length_perm {α} [BEq α] [LawfulBEq α] (l l' : List α) (h : l.Perm l') :
    (dedup l).length = (dedup l').length := (dedup_perm l l' h).length_eq

end Qryn.Sql
