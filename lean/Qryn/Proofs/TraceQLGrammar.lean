import Qryn.TraceQL.Grammar
import Qryn.TraceQL.Sem
/-! C11: the participle grammar reads back exactly the chain of conditions that was written (so the parser's tree IS
    the chain, nested to the right whatever the operators are); reading that tree as nested is NOT the TraceQL reading. -/
namespace Qryn.TraceQL
open Qryn

theorem parseExp_ends : ∀ (fuel : Nat) (rest : List Tok), endsExp rest → parseExp fuel rest = none
  | 0, _, _ => rfl
  | fuel + 1, [], _ => rfl
  | fuel + 1, .rp :: _, _ => rfl
  | fuel + 1, .term _ :: _, h => by simp [endsExp] at h
  | fuel + 1, .lp :: _, h => by simp [endsExp] at h
  | fuel + 1, .and :: _, h => by simp [endsExp] at h
  | fuel + 1, .or :: _, h => by simp [endsExp] at h

theorem toks_ne_nil (e : AttrExp) : toks e ≠ [] := by cases e <;> simp [toks]

/-- the first token of an expression is a condition or an opening parenthesis -/
theorem toks_head (e : AttrExp) : ∃ x r, toks e = x :: r ∧ ((∃ t, x = .term t) ∨ x = .lp) := by
  cases e with
  | leaf t => exact ⟨_, _, rfl, Or.inl ⟨t, rfl⟩⟩
  | paren e => exact ⟨_, _, rfl, Or.inr rfl⟩
  | leafOp t op tail => exact ⟨_, _, rfl, Or.inl ⟨t, rfl⟩⟩
  | parenOp e op tail => exact ⟨_, _, rfl, Or.inr rfl⟩

theorem andOr_opToks (op : BoolOp) (e : AttrExp) (rest : List Tok) :
    andOr? (opToks op ++ toks e ++ rest) = (op, toks e ++ rest) := by
  obtain ⟨x, r, hx, hk⟩ := toks_head e
  cases op
  · simp [opToks, andOr?]
  · simp [opToks, andOr?]
  · simp only [opToks, List.nil_append, hx, List.cons_append]
    rcases hk with ⟨t, rfl⟩ | rfl <;> rfl

theorem andOr_ends (rest : List Tok) (h : endsExp rest) : andOr? rest = (.none, rest) := by
  cases rest with
  | nil => rfl
  | cons x r => cases x <;> simp [endsExp] at h <;> rfl

/-- **the parser reads back the chain as written**: for every expression `e` (a chain of conditions and
    parenthesised expressions with the operators between them), the recursive descent of the grammar on the text of `e`
    returns `e` — right nested, whatever the operators are -/
theorem parse_toks : ∀ (e : AttrExp) (fuel : Nat) (rest : List Tok), e.size < fuel → endsExp rest →
    parseExp fuel (toks e ++ rest) = some (e, rest)
  | .leaf t, fuel + 1, rest, _, hr => by
    simp only [toks, List.cons_append, List.nil_append, parseExp, andOr_ends rest hr, parseExp_ends fuel rest hr, mkLeaf]
    rfl
  | .paren e, fuel + 1, rest, hf, hr => by
    have ih := parse_toks e fuel (.rp :: rest) (by simp [AttrExp.size] at hf; omega) trivial
    simp only [toks, List.cons_append, List.nil_append, List.append_assoc, parseExp, ih, andOr_ends rest hr,
      parseExp_ends fuel rest hr, mkParen]
    rfl
  | .leafOp t op tail, fuel + 1, rest, hf, hr => by
    have ih := parse_toks tail fuel rest (by simp [AttrExp.size] at hf; omega) hr
    have ha := andOr_opToks op tail rest
    simp only [toks, List.cons_append, List.nil_append, List.append_assoc, parseExp] at ha ⊢
    rw [ha]
    simp only [ih, mkLeaf]
    cases op <;> rfl
  | .parenOp e op tail, fuel + 1, rest, hf, hr => by
    have ihe := parse_toks e fuel (.rp :: (opToks op ++ toks tail ++ rest)) (by simp [AttrExp.size] at hf; omega) trivial
    have iht := parse_toks tail fuel rest (by simp [AttrExp.size] at hf; omega) hr
    have ha := andOr_opToks op tail rest
    simp only [toks, List.cons_append, List.nil_append, List.append_assoc] at ihe ha ⊢
    simp only [parseExp, ihe, ha, iht, mkParen]
    cases op <;> rfl

/-- reading the parser's tree as it is nested -/
def nestedHolds (f : Term → Bool) : AttrExp → Bool
  | .leaf t => f t
  | .paren e => nestedHolds f e
  | .leafOp t op tail => bop op (f t) (nestedHolds f tail)
  | .parenOp e op tail => bop op (nestedHolds f e) (nestedHolds f tail)

def tA : Term := ⟨".a", .eq, .str [34, 120, 34] (some [120])⟩
def tB : Term := ⟨".b", .eq, .str [34, 121, 34] (some [121])⟩
def tC : Term := ⟨".c", .eq, .str [34, 122, 34] (some [122])⟩

/-- `{.a="x" && .b="y" || .c="z"}` of a span with only `.c="z"`: TraceQL (`&&` binds tighter) says yes, the tree as the
    parser nests it — `a && (b || c)`, what the planner read before fix 99a4847 — says no -/
theorem nested_reading_differs :
    let e := AttrExp.leafOp tA .and (.leafOp tB .or (.leaf tC))
    let f : Term → Bool := fun t => t == tC
    parseExp 10 [.term tA, .and, .term tB, .or, .term tC] = some (e, []) ∧ expHolds f e = true ∧ nestedHolds f e = false := by
  decide

/-! ### the chain of selectors -/
def stoks : Script → List STok
  | [] => []
  | (s, .and) :: rest => .sel s :: .and :: stoks rest
  | (s, .or) :: rest => .sel s :: .or :: stoks rest
  | (s, .none) :: rest => .sel s :: stoks rest

/-- the chain of selectors is read back as written, for scripts whose last selector has no operator after it and
    every other one has -/
def ScriptWf : Script → Prop
  | [] => False
  | [(_, op)] => op = .none
  | (_, op) :: rest => op ≠ .none ∧ ScriptWf rest

theorem parse_stoks : ∀ (script : Script) (fuel : Nat), ScriptWf script → script.length < fuel →
    parseScriptToks fuel (stoks script) = some (script, [])
  | [], _, h, _ => by simp [ScriptWf] at h
  | [(s, op)], fuel + 1, h, _ => by
    simp only [ScriptWf] at h
    subst h
    cases fuel <;> simp [stoks, parseScriptToks, scriptOp?]
  | (s, op) :: p2 :: rest, fuel + 1, h, hf => by
    simp only [ScriptWf] at h
    have ih := parse_stoks (p2 :: rest) fuel h.2 (by simp at hf ⊢; omega)
    obtain ⟨s2, o2⟩ := p2
    cases op with
    | none => exact absurd rfl h.1
    | and => simp only [stoks, parseScriptToks, scriptOp?, ih]
    | or => simp only [stoks, parseScriptToks, scriptOp?, ih]

end Qryn.TraceQL
