import Qryn.Proofs.StreamSelect
/-! The chain of simple label filters over the stream selector computes `chainSelected`. -/
namespace Qryn.Sql

theorem firstCol_map_project (o : Oracles) (env : Env) (c : Expr) (cs : List Expr) (l : List Row) :
    firstCol (l.map (project o env (c :: cs))) = l.map (fun r => evalE o env r c) := by
  induction l with
  | nil => rfl
  | cons a l ih =>
    simp only [List.map_cons, firstCol, List.filterMap_cons, project, List.head?_cons, Option.map_some] at ih ⊢
    rw [ih]

theorem evalWiths_append (o : Oracles) (db : Db) (env : Env) (a b : List (Alias × Sel)) :
    evalWiths o db env (a ++ b) = evalWiths o db (evalWiths o db env a) b := by
  induction a generalizing env with
  | nil => rfl
  | cons x a ih => obtain ⟨al, s⟩ := x; simp only [List.cons_append, evalWiths, ih]

end Qryn.Sql

namespace Qryn.LogQL
open Qryn Qryn.Sql

/-! ### columns of a series row -/
@[simp] theorem ts_date (t : TsRow) : Row.get t.row "date" = .str t.date := by simp [Row.get, TsRow.row]
@[simp] theorem ts_fp (t : TsRow) : Row.get t.row "fingerprint" = .int t.fp := by simp [Row.get, TsRow.row, List.lookup]
@[simp] theorem ts_labels (t : TsRow) : Row.get t.row "labels" = .str t.labels := by simp [Row.get, TsRow.row, List.lookup]
@[simp] theorem ts_type (t : TsRow) : Row.get t.row "type" = .int t.tp := by simp [Row.get, TsRow.row, List.lookup]

theorem labelGetter_eval (o : Oracles) (env : Env) (t : TsRow) (l : String) :
    evalE o env t.row (labelGetterTS l) = .str (labelValue (o.jsonLabels t.labels) l) := by
  unfold labelGetterTS labelValue
  exact evalE_call_json o env t.row _ _ t.labels l.toUTF8.toList (by simp) (by simp)

theorem labelCond_eval (o : Oracles) (env : Env) (t : TsRow) (lc : LabelCond) :
    evalB o env t.row (labelCondSql labelGetterTS lc) = labelCondHolds o (o.jsonLabels t.labels) lc := by
  induction lc with
  | str l op v =>
    have hm := evalE_call_match o env t.row (labelGetterTS l) (.str v) _ v (labelGetter_eval o env t l) (by simp)
    cases op <;> simp [labelCondSql, labelCondHolds, labelGetter_eval, hm]
  | num l op v =>
    have hf := evalE_call_toFloat o env t.row (labelGetterTS l) _ (labelGetter_eval o env t l)
    have hnn := evalB_notNull_num o env t.row _ _ hf
    cases op <;> simp [labelCondSql, labelCondHolds, hf, hnn, cmpName]
  | and a b iha ihb => simp [labelCondSql, labelCondHolds, iha, ihb]
  | or a b iha ihb => simp [labelCondSql, labelCondHolds, iha, ihb]

/-- a table whose first column holds exactly the fingerprints satisfying `P` -/
def FpTable (T : Table) (P : Int → Bool) : Prop := ∀ v, v ∈ firstCol T ↔ ∃ fp, v = .int fp ∧ P fp = true

theorem FpTable.contains {T : Table} {P : Int → Bool} (h : FpTable T P) (fp : Int) :
    (firstCol T).contains (.int fp) = P fp := by
  rw [Bool.eq_iff_iff, List.contains_iff_mem, h]
  constructor
  · rintro ⟨fp', he, hp⟩; cases he; exact hp
  · intro hp; exact ⟨fp, rfl, hp⟩

theorem labelFilter_eval (o : Oracles) (c : Ctx) (hn : c.namesOk) (d : LokiDb) (env : Env) (k : Nat) (lc : LabelCond)
    (T : Table) (P : Int → Bool) (hT : env.lookup (.sub k) = some T) (hP : FpTable T P) :
    FpTable (evalBody o (d.toDb c) env (labelFilterBody c k lc))
      (fun fp => d.ts.any (fun t => t.fp == fp && P t.fp && labelCondHolds o (o.jsonLabels t.labels) lc)) := by
  intro v
  unfold labelFilterBody
  rw [evalBody_plain, firstCol_map_project]
  simp only [sourceRows, toDb_ts d c hn, optB, Bool.true_and, List.filter_map, List.map_map, List.mem_map,
    List.mem_filter, Function.comp_def, evalB_and, evalAll_cons, evalAll_nil, Bool.and_true, evalB_isIn_ref, hT,
    Option.getD_some, evalE_raw, ts_fp, hP.contains, labelCond_eval, List.any_eq_true, Bool.and_eq_true, beq_iff_eq]
  constructor
  · rintro ⟨t, ⟨ht, hp, hl⟩, rfl⟩; exact ⟨t.fp, rfl, t, ht, ⟨rfl, hp⟩, hl⟩
  · rintro ⟨fp, rfl, t, ht, ⟨rfl, hp⟩, hl⟩; exact ⟨t, ⟨ht, hp, hl⟩, rfl⟩

theorem fpChain_eval (o : Oracles) (c : Ctx) (hn : c.namesOk) (d : LokiDb) (conds : List LabelCond) :
    ∀ (cur : Sel) (k : Nat) (env : Env) (P : Int → Bool), FpTable (evalBody o (d.toDb c) env cur) P →
      ∃ T rest, evalWiths o (d.toDb c) env (fpChain c cur k conds) = (.named "fp_sel", T) :: rest ∧
        FpTable T (chainSelected o d P conds) := by
  induction conds with
  | nil => intro cur k env P h; exact ⟨_, env, rfl, h⟩
  | cons lc rest ih =>
    intro cur k env P h
    simp only [fpChain, evalWiths, chainSelected]
    apply ih
    exact labelFilter_eval o c hn d _ (k + 1) lc _ P (by simp [List.lookup]) h

end Qryn.LogQL
