import Qryn.Prom.Select
/-! Lemmas for matcher selection: the regenerated operator tables say what the model needs (these `decide`s
    are the tie to the Go switches), each condition means its matcher, and the bit-set query selects exactly
    the fingerprints every matcher is satisfied for. -/
namespace Qryn.Prom
open Qryn Qryn.Prom.Bits

/-! ### ties to `Gen.PromSelect` (fail when a Go switch maps an operator differently) -/
theorem lookup_eq : Gen.PromSelect.opClauses.lookup (getOp .eq) = some ("==", false, 0) := by decide
theorem lookup_ne : Gen.PromSelect.opClauses.lookup (getOp .ne) = some ("!=", false, 0) := by decide
theorem lookup_re : Gen.PromSelect.opClauses.lookup (getOp .re) = some ("==", true, 1) := by decide
theorem lookup_nre : Gen.PromSelect.opClauses.lookup (getOp .nre) = some ("==", true, 0) := by decide
theorem anchored_eq : Gen.PromSelect.anchoredTypes.contains MatchType.eq.goName = false := by decide
theorem anchored_ne : Gen.PromSelect.anchoredTypes.contains MatchType.ne.goName = false := by decide
theorem anchored_re : Gen.PromSelect.anchoredTypes.contains MatchType.re.goName = true := by decide
theorem anchored_nre : Gen.PromSelect.anchoredTypes.contains MatchType.nre.goName = true := by decide
theorem fnOf_Eq : fnOf "Eq" = "==" := by decide
theorem fnOf_Ge : fnOf "Ge" = ">=" := by decide

/-- every match type has a condition (no NotSupportedError), and on every index row the condition is true
    exactly when the row satisfies the matcher -/
theorem condOf_spec (re : Bytes → Bytes → Bool) (m : Matcher) :
    ∃ c, condOf m = some c ∧ ∀ r, c.eval re r = rowSatisfies re m r := by
  obtain ⟨name, type, val⟩ := m
  cases type
  · refine ⟨_, by simp only [condOf, lookup_eq]; rfl, ?_⟩
    intro r
    simp [Cond.eval, fnOf_Eq, cmpBytes, IdxRow.get, rowSatisfies, opHolds]
  · refine ⟨_, by simp only [condOf, lookup_ne]; rfl, ?_⟩
    intro r
    simp [Cond.eval, fnOf_Eq, cmpBytes, IdxRow.get, rowSatisfies, opHolds]
  · refine ⟨_, by simp only [condOf, lookup_re]; rfl, ?_⟩
    intro r
    cases h : re (matcherVal ⟨name, .re, val⟩) r.val <;>
      simp [Cond.eval, fnOf_Eq, cmpBytes, cmpInt, IdxRow.get, rowSatisfies, opHolds, h]
  · refine ⟨_, by simp only [condOf, lookup_nre]; rfl, ?_⟩
    intro r
    cases h : re (matcherVal ⟨name, .nre, val⟩) r.val <;>
      simp [Cond.eval, fnOf_Eq, cmpBytes, cmpInt, IdxRow.get, rowSatisfies, opHolds, h]

theorem condsOf_spec (re : Bytes → Bytes → Bool) (ms : List Matcher) :
    ∃ cs, condsOf ms = some cs ∧ cs.length = ms.length ∧
      ∀ r, cs.map (·.eval re r) = ms.map (rowSatisfies re · r) := by
  induction ms with
  | nil => exact ⟨[], rfl, rfl, fun _ => rfl⟩
  | cons m ms ih =>
    obtain ⟨c, hc, hce⟩ := condOf_spec re m
    obtain ⟨cs, hcs, hl, hcse⟩ := ih
    refine ⟨c :: cs, by simp [condsOf, hc, hcs], by simp [hl], ?_⟩
    intro r
    simp [hce r, hcse r]

/-- f is selected by the direct reading: it occurs among admissible index rows matching some matcher, and
    every matcher is satisfied by an admissible index row of f -/
def Selected (re : Bytes → Bytes → Bool) (fromDate : Bytes) (tp : Int) (ms : List Matcher)
    (tbl : List IdxRow) (f : Nat) : Prop :=
  (∃ r ∈ tbl, r.fp = f ∧ admissible fromDate tp r = true ∧ ∃ m ∈ ms, rowSatisfies re m r = true) ∧
  ∀ m ∈ ms, ∃ r ∈ tbl, r.fp = f ∧ admissible fromDate tp r = true ∧ rowSatisfies re m r = true

theorem havingConst_eq (n : Nat) (hn : n ≤ 63) (x : Nat) :
    (((x : Nat) : Int) == havingConst n) = true ↔ x = 2 ^ n - 1 := by
  have h1 : (2 ^ n : Nat) ≥ 1 := Nat.one_le_two_pow
  have h2 : ((2 ^ n : Nat) : Int) = (2 : Int) ^ n := by simp
  simp only [havingConst, hn, if_true, beq_iff_eq]
  rw [← h2]
  omega

theorem getD_map_sat (re : Bytes → Bytes → Bool) (r : IdxRow) (ms : List Matcher) (i : Nat) :
    (ms.map (rowSatisfies re · r)).getD i false
      = (match ms[i]? with | some m => rowSatisfies re m r | none => false) := by
  simp only [List.getD, List.getElem?_map]
  cases h : ms[i]? <;> simp

/-- the bit-set query, evaluated over the index rows, selects exactly the fingerprints of the direct reading
    — for at most `W` matchers (`W` = width of the shifted operand) and at most 63 (Go's `1<<n` on int64) -/
theorem fpQuery_correct (re : Bytes → Bytes → Bool) (W : Nat) (table : String) (fromDate : Bytes) (tp : Int)
    (ms : List Matcher) (hW : ms.length ≤ W) (h63 : ms.length ≤ 63) (tbl : List IdxRow) (f : Nat) :
    ∃ q, fingerprintsQuery table fromDate tp ms = some q ∧
      (f ∈ q.eval re W tbl ↔ Selected re fromDate tp ms tbl f) := by
  obtain ⟨cs, hcs, hlen, hmap⟩ := condsOf_spec re ms
  refine ⟨⟨table, fromDate, tp, cs⟩, by simp [fingerprintsQuery, hcs], ?_⟩
  unfold FpQuery.eval Selected
  simp only [List.mem_filter, distinctFps, List.mem_eraseDups, List.mem_map]
  -- rows kept by WHERE
  have hany : ∀ r, cs.any (·.eval re r) = ms.any (rowSatisfies re · r) := by
    intro r
    have := congrArg (fun l => l.any id) (hmap r)
    simpa [List.any_map] using this
  have hrow : ∀ r, (FpQuery.whereHolds re ⟨table, fromDate, tp, cs⟩ r = true ↔
      admissible fromDate tp r = true ∧ ∃ m ∈ ms, rowSatisfies re m r = true) := by
    intro r
    simp only [FpQuery.whereHolds, hany r, fnOf_Ge, cmpBytes, admissible]
    simp [List.any_eq_true, and_assoc]
  have hbits : ∀ (grp : List IdxRow), grp.map (fun r => cs.map (·.eval re r))
      = grp.map (fun r => ms.map (rowSatisfies re · r)) := by
    intro grp; apply List.map_congr_left; intro r _; exact hmap r
  rw [hbits, hlen, havingConst_eq _ h63]
  have hlenr : ∀ v ∈ (List.filter (fun r => r.fp == f)
        (List.filter (FpQuery.whereHolds re ⟨table, fromDate, tp, cs⟩) tbl)).map
        (fun r => ms.map (rowSatisfies re · r)), v.length = ms.length := by
    intro v hvm; simp only [List.mem_map] at hvm; obtain ⟨r', _, rfl⟩ := hvm; simp
  rw [having_all_bits_w W ms.length _ hlenr hW]
  constructor
  · rintro ⟨⟨r, ⟨hr, hw⟩, hf⟩, hb⟩
    refine ⟨⟨r, hr, hf, (hrow r).mp hw⟩, ?_⟩
    intro m hm
    obtain ⟨i, hi, hmi⟩ := List.getElem_of_mem hm
    obtain ⟨v, hvmem, hbit⟩ := hb i hi
    simp only [List.mem_map, List.mem_filter, beq_iff_eq] at hvmem
    obtain ⟨r', ⟨⟨hr', hw'⟩, hf'⟩, rfl⟩ := hvmem
    rw [getD_map_sat, List.getElem?_eq_getElem hi, hmi] at hbit
    exact ⟨r', hr', hf', ((hrow r').mp hw').1, hbit⟩
  · rintro ⟨⟨r, hr, hf, hadm, hsat⟩, hall⟩
    refine ⟨⟨r, ⟨hr, (hrow r).mpr ⟨hadm, hsat⟩⟩, hf⟩, ?_⟩
    intro i hi
    obtain ⟨r', hr', hf', hadm', hsat'⟩ := hall ms[i] (List.getElem_mem hi)
    refine ⟨ms.map (rowSatisfies re · r'), ?_, ?_⟩
    · simp only [List.mem_map, List.mem_filter, beq_iff_eq]
      exact ⟨r', ⟨⟨hr', (hrow r').mpr ⟨hadm', ⟨ms[i], List.getElem_mem hi, hsat'⟩⟩⟩, hf'⟩, rfl⟩
    · rw [getD_map_sat, List.getElem?_eq_getElem hi]
      exact hsat'

/-! ### from index rows to label sets -/

/-- with the values anchored by `fingerprintsQuery`, ClickHouse's search is Prometheus' full match -/
theorem opHolds_anchor (search full : Bytes → Bytes → Bool)
    (hanch : ∀ p s, search (anchor p) s = full p s) (m : Matcher) (v : Bytes) :
    opHolds search m.type v (matcherVal m) = opHolds full m.type v m.val := by
  obtain ⟨n, t, w⟩ := m
  cases t
  · simp only [matcherVal, anchored_eq]; rfl
  · simp only [matcherVal, anchored_ne]; rfl
  · simp only [matcherVal, anchored_re, opHolds, if_true, hanch]
  · simp only [matcherVal, anchored_nre, opHolds, if_true, hanch]

theorem mem_of_lookup {l : List (Bytes × Bytes)} {k v : Bytes} (h : l.lookup k = some v) : (k, v) ∈ l := by
  induction l with
  | nil => simp [List.lookup] at h
  | cons a l ih =>
    obtain ⟨a1, a2⟩ := a
    simp only [List.lookup] at h
    by_cases hk : k == a1
    · simp only [hk] at h
      have : k = a1 := by simpa using hk
      simp at h; subst h; subst this; exact List.mem_cons_self
    · simp only [hk] at h
      exact List.mem_cons_of_mem _ (ih h)

theorem lookup_of_mem {l : List (Bytes × Bytes)} (hnd : (l.map (·.1)).Nodup) {k v : Bytes}
    (h : (k, v) ∈ l) : l.lookup k = some v := by
  induction l with
  | nil => cases h
  | cons a l ih =>
    obtain ⟨a1, a2⟩ := a
    simp only [List.map_cons, List.nodup_cons] at hnd
    simp only [List.lookup]
    rcases List.mem_cons.mp h with heq | hmem
    · have h1 : k = a1 := congrArg Prod.fst heq
      have h2 : v = a2 := congrArg Prod.snd heq
      subst h1; subst h2; simp
    · have hne : (k == a1) = false := by
        apply beq_false_of_ne
        intro e; subst e
        exact hnd.1 (List.mem_map.mpr ⟨(k, v), hmem, rfl⟩)
      simp only [hne]
      exact ih hnd.2 hmem

theorem eq_of_fp {db : List Stored} (hnd : (db.map (·.fp)).Nodup) {s s' : Stored} (h : s ∈ db)
    (h' : s' ∈ db) (e : s.fp = s'.fp) : s = s' := by
  induction db with
  | nil => cases h
  | cons a db ih =>
    simp only [List.map_cons, List.nodup_cons] at hnd
    rcases List.mem_cons.mp h with rfl | hm <;> rcases List.mem_cons.mp h' with rfl | hm'
    · rfl
    · exact absurd (List.mem_map.mpr ⟨s', hm', e.symm⟩) hnd.1
    · exact absurd (List.mem_map.mpr ⟨s, hm, e⟩) hnd.1
    · exact ih hnd.2 hm hm'

theorem mem_indexRows {db : List Stored} {r : IdxRow} :
    r ∈ indexRows db ↔ ∃ s ∈ db, ∃ kv ∈ s.labels, r = ⟨s.date, kv.1, kv.2, s.fp, s.type⟩ := by
  simp only [indexRows, List.mem_flatMap, List.mem_map]
  constructor
  · rintro ⟨s, hs, kv, hkv, rfl⟩; exact ⟨s, hs, kv, hkv, rfl⟩
  · rintro ⟨s, hs, kv, hkv, rfl⟩; exact ⟨s, hs, kv, hkv, rfl⟩

/-- fingerprints identify series, label names are unique inside a series -/
structure WellFormed (db : List Stored) : Prop where
  fps : (db.map (·.fp)).Nodup
  names : ∀ s ∈ db, (s.labels.map (·.1)).Nodup

/-- when no matcher accepts the empty value, "every matcher is satisfied by an index row of f" is
    Prometheus' "the label set of f satisfies every matcher" -/
theorem selected_iff_prom (search full : Bytes → Bytes → Bool)
    (hanch : ∀ p s, search (anchor p) s = full p s) (fromDate : Bytes) (tp : Int) (ms : List Matcher)
    (hne : ms ≠ []) (hnoempty : ∀ m ∈ ms, opHolds full m.type [] m.val = false)
    (db : List Stored) (wf : WellFormed db) (f : Nat) :
    Selected search fromDate tp ms (indexRows db) f ↔
      ∃ s ∈ db, s.fp = f ∧ admissibleS fromDate tp s = true ∧ promMatches full ms s = true := by
  -- a satisfied matcher on a row of s is a satisfied matcher on the label set of s
  have key : ∀ (s : Stored), s ∈ db → ∀ m ∈ ms,
      ((∃ kv ∈ s.labels, rowSatisfies search m ⟨s.date, kv.1, kv.2, s.fp, s.type⟩ = true) ↔
        opHolds full m.type (labelValue s.labels m.name) m.val = true) := by
    intro s hs m hm
    constructor
    · rintro ⟨kv, hkv, hsat⟩
      simp only [rowSatisfies, Bool.and_eq_true, beq_iff_eq] at hsat
      obtain ⟨hk, hop⟩ := hsat
      have hl : s.labels.lookup m.name = some kv.2 := by
        apply lookup_of_mem (wf.names s hs)
        rw [← hk]; exact hkv
      rw [opHolds_anchor search full hanch] at hop
      simpa [labelValue, hl] using hop
    · intro hop
      cases hl : s.labels.lookup m.name with
      | none =>
        simp only [labelValue, hl, Option.getD_none] at hop
        rw [hnoempty m hm] at hop; cases hop
      | some v =>
        simp only [labelValue, hl, Option.getD_some] at hop
        refine ⟨(m.name, v), mem_of_lookup hl, ?_⟩
        simp only [rowSatisfies, Bool.and_eq_true, beq_iff_eq, true_and]
        rw [opHolds_anchor search full hanch]; exact hop
  constructor
  · rintro ⟨⟨r, hr, hf, hadm, _⟩, hall⟩
    obtain ⟨s, hs, kv, hkv, rfl⟩ := mem_indexRows.mp hr
    refine ⟨s, hs, hf, by simpa [admissible, admissibleS] using hadm, ?_⟩
    simp only [promMatches, List.all_eq_true]
    intro m hm
    obtain ⟨r', hr', hf', _, hsat'⟩ := hall m hm
    obtain ⟨s', hs', kv', hkv', rfl⟩ := mem_indexRows.mp hr'
    have : s' = s := eq_of_fp wf.fps hs' hs (by simp at hf hf'; omega)
    subst this
    exact (key s' hs' m hm).mp ⟨kv', hkv', hsat'⟩
  · rintro ⟨s, hs, hf, hadm, hprom⟩
    simp only [promMatches, List.all_eq_true] at hprom
    have hrows : ∀ m ∈ ms, ∃ r ∈ indexRows db, r.fp = f ∧ admissible fromDate tp r = true ∧
        rowSatisfies search m r = true := by
      intro m hm
      obtain ⟨kv, hkv, hsat⟩ := (key s hs m hm).mpr (hprom m hm)
      exact ⟨_, mem_indexRows.mpr ⟨s, hs, kv, hkv, rfl⟩, hf, by simpa [admissible, admissibleS] using hadm, hsat⟩
    refine ⟨?_, hrows⟩
    cases ms with
    | nil => exact absurd rfl hne
    | cons m0 ms' =>
      obtain ⟨r, hr, hf', hadm', hsat⟩ := hrows m0 List.mem_cons_self
      exact ⟨r, hr, hf', hadm', m0, List.mem_cons_self, hsat⟩

/-! ### the raw-sample scan -/
theorem scanLower_ge : Gen.PromSelect.scanLower = ">=" := by decide
theorem scanUpper_le : Gen.PromSelect.scanUpper = "<=" := by decide

theorem scanHolds_iff (fromNs toNs ts : Int) : scanHolds fromNs toNs ts = true ↔ fromNs ≤ ts ∧ ts ≤ toNs := by
  simp [scanHolds, scanLower_ge, scanUpper_le, cmpInt]

end Qryn.Prom
