import Qryn.Prom.Select
import Qryn.Proofs.BitSetQuery
/-! Lemmas for matcher selection: the regenerated operator tables say what the model needs (these `decide`s
    are the tie to the Go switches), each condition means its matcher, and the bit-set query selects exactly
    the fingerprints every matcher is satisfied for. -/
namespace Qryn.Prom
open Qryn Qryn.Prom.Bits

/-! ### ties to `Gen.PromSelect` (fail when a Go switch maps an operator differently) -/
theorem lookup_eq : Gen.PromSelect.opClauses.lookup (getOp .eq) = some ("==", false, 0) := by decide
theorem lookup_ne : Gen.PromSelect.opClauses.lookup (getOp .ne) = some ("!=", false, 0) := by decide
theorem lookup_re : Gen.PromSelect.opClauses.lookup (getOp .re) = some ("==", true, 1) := by decide
theorem lookup_nre : Gen.PromSelect.opClauses.lookup (getOp .nre) = some ("==", true, 0) := by decide
theorem anchored_eq : Gen.PromSelect.anchoredTypes.contains MatchType.eq.goName = false := by decide
theorem anchored_ne : Gen.PromSelect.anchoredTypes.contains MatchType.ne.goName = false := by decide
theorem anchored_re : Gen.PromSelect.anchoredTypes.contains MatchType.re.goName = true := by decide
theorem anchored_nre : Gen.PromSelect.anchoredTypes.contains MatchType.nre.goName = true := by decide
theorem fnOf_Eq : fnOf "Eq" = "==" := by decide
theorem fnOf_Ge : fnOf "Ge" = ">=" := by decide

/-- every match type has a condition (no NotSupportedError), and on every index row the condition is true
    exactly when the row satisfies the matcher -/
theorem condOf_spec (re : Bytes → Bytes → Bool) (m : Matcher) :
    ∃ c, condOf m = some c ∧ ∀ r, c.eval re r = rowSatisfies re m r := by
  obtain ⟨name, type, val⟩ := m
  cases type
  · refine ⟨_, by simp only [condOf, lookup_eq]; rfl, ?_⟩
    intro r
    simp [Cond.eval, fnOf_Eq, cmpBytes, IdxRow.get, rowSatisfies, opHolds]
  · refine ⟨_, by simp only [condOf, lookup_ne]; rfl, ?_⟩
    intro r
    simp [Cond.eval, fnOf_Eq, cmpBytes, IdxRow.get, rowSatisfies, opHolds]
  · refine ⟨_, by simp only [condOf, lookup_re]; rfl, ?_⟩
    intro r
    cases h : re (matcherVal ⟨name, .re, val⟩) r.val <;>
      simp [Cond.eval, fnOf_Eq, cmpBytes, cmpInt, IdxRow.get, rowSatisfies, opHolds, h]
  · refine ⟨_, by simp only [condOf, lookup_nre]; rfl, ?_⟩
    intro r
    cases h : re (matcherVal ⟨name, .nre, val⟩) r.val <;>
      simp [Cond.eval, fnOf_Eq, cmpBytes, cmpInt, IdxRow.get, rowSatisfies, opHolds, h]

theorem condsOf_spec (re : Bytes → Bytes → Bool) (ms : List Matcher) :
    ∃ cs, condsOf ms = some cs ∧ cs.length = ms.length ∧
      ∀ r, cs.map (·.eval re r) = ms.map (rowSatisfies re · r) := by
  induction ms with
  | nil => exact ⟨[], rfl, rfl, fun _ => rfl⟩
  | cons m ms ih =>
    obtain ⟨c, hc, hce⟩ := condOf_spec re m
    obtain ⟨cs, hcs, hl, hcse⟩ := ih
    refine ⟨c :: cs, by simp [condsOf, hc, hcs], by simp [hl], ?_⟩
    intro r
    simp [hce r, hcse r]

/-! ### matchers that accept the empty value -/
theorem absentLabel_inverse : Gen.PromSelect.absentLabel = "inverse" := by decide
/-- the value clauses of `optionalLabelsQuery` are those of the shared `StreamSelectPlanner` (one `condOf` serves both) -/
theorem optClauses_eq : Gen.PromSelect.optClauses = Gen.PromSelect.opClauses := by decide

theorem acceptsEmpty_eq (full : Bytes → Bytes → Bool) (m : Matcher) :
    acceptsEmpty full m = opHolds full m.type [] m.val := by
  simp [acceptsEmpty, absentLabel_inverse]

theorem matcherVal_inverse (m : Matcher) : matcherVal { m with type := m.type.inverse } = matcherVal m := by
  obtain ⟨n, t, v⟩ := m
  cases t <;> simp only [matcherVal, MatchType.inverse, anchored_eq, anchored_ne, anchored_re, anchored_nre]

/-- an index row satisfies the inverse matcher exactly when it is a row of the label that violates the matcher -/
theorem rowSatisfies_inverse (re : Bytes → Bytes → Bool) (m : Matcher) (r : IdxRow) :
    rowSatisfies re { m with type := m.type.inverse } r = (r.key == m.name && !opHolds re m.type r.val (matcherVal m)) := by
  have hv := matcherVal_inverse m
  obtain ⟨n, t, v⟩ := m
  simp only [rowSatisfies, hv]
  cases t <;> simp [MatchType.inverse, opHolds, bne]

/-- f is selected by the direct reading: it has an admissible index row; every matcher that rejects the empty value is
    satisfied by an admissible index row of f; and for every matcher that accepts the empty value no admissible index
    row of f carrying the matcher's label violates it -/
def Selected (re full : Bytes → Bytes → Bool) (fromDate : Bytes) (tp : Int) (ms : List Matcher)
    (tbl : List IdxRow) (f : Nat) : Prop :=
  (∃ r ∈ tbl, r.fp = f ∧ admissible fromDate tp r = true) ∧
  (∀ m ∈ ms, acceptsEmpty full m = false →
    ∃ r ∈ tbl, r.fp = f ∧ admissible fromDate tp r = true ∧ rowSatisfies re m r = true) ∧
  (∀ m ∈ ms, acceptsEmpty full m = true →
    ∀ r ∈ tbl, r.fp = f → admissible fromDate tp r = true → r.key = m.name →
      opHolds re m.type r.val (matcherVal m) = true)

theorem havingConst_eq (n : Nat) (hn : n ≤ 63) (x : Nat) :
    (((x : Nat) : Int) == havingConst n) = true ↔ x = 2 ^ n - 1 := by
  have h1 : (2 ^ n : Nat) ≥ 1 := Nat.one_le_two_pow
  have h2 : ((2 ^ n : Nat) : Int) = (2 : Int) ^ n := by simp
  simp only [havingConst, hn, if_true, beq_iff_eq]
  rw [← h2]
  omega

/-- for at most 63 matchers the Go `int64` holds the bit set exactly -/
theorem requiredConst_eq (req : List Bool) (h : req.length ≤ 63) : requiredConst req = (bits req : Int) := by
  have h1 : bitsW 64 req = bits req := bitsW_eq 64 req (by omega)
  have h2 : bits req < 2 ^ 63 :=
    Nat.lt_of_lt_of_le (bits_lt req) (Nat.pow_le_pow_right (by decide) h)
  simp [requiredConst, h1, h2]

/-- with every bit required the constant is the `(1<<n)−1` of the shared planner (the two Go paths render the same text) -/
theorem requiredConst_all (n : Nat) (h : n ≤ 63) : requiredConst (List.replicate n true) = havingConst n := by
  rw [requiredConst_eq _ (by simpa using h)]
  have : bits (List.replicate n true) = 2 ^ n - 1 := by
    induction n with
    | zero => rfl
    | succ k ih =>
      have hk : 2 ^ k ≥ 1 := Nat.one_le_two_pow
      simp only [List.replicate_succ, bits, Bool.toNat_true, ih (by omega), Nat.pow_succ]
      omega
  have h1 : (2 ^ n : Nat) ≥ 1 := Nat.one_le_two_pow
  have h2 : ((2 ^ n : Nat) : Int) = (2 : Int) ^ n := by simp
  simp only [this, havingConst, h, if_true]
  rw [← h2]
  omega

theorem getD_map_sat (re : Bytes → Bytes → Bool) (r : IdxRow) (ms : List Matcher) (i : Nat) :
    (ms.map (rowSatisfies re · r)).getD i false
      = (match ms[i]? with | some m => rowSatisfies re m r | none => false) := by
  simp only [List.getD, List.getElem?_map]
  cases h : ms[i]? <;> simp

/-- the bit-set query, evaluated over the index rows, selects exactly the fingerprints of the direct reading
    — for at most `W` matchers (`W` = width of the shifted operand) and at most 63 (Go's `1<<i` on int64) -/
theorem fpQuery_correct (re full : Bytes → Bytes → Bool) (W : Nat) (table : String) (fromDate : Bytes) (tp : Int)
    (ms : List Matcher) (hW : ms.length ≤ W) (h63 : ms.length ≤ 63) (tbl : List IdxRow) (f : Nat) :
    ∃ q, fingerprintsQuery full table fromDate tp ms = some q ∧
      (f ∈ q.eval re W tbl ↔ Selected re full fromDate tp ms tbl f) := by
  obtain ⟨cs, hcs, hlen, hmap⟩ := condsOf_spec re (ms.map (asked full))
  have hlen' : cs.length = ms.length := by simpa using hlen
  refine ⟨⟨table, fromDate, tp, cs, ms.map (fun m => !acceptsEmpty full m)⟩, by simp [fingerprintsQuery, hcs], ?_⟩
  have hadm : ∀ r, FpQuery.admits ⟨table, fromDate, tp, cs, ms.map (fun m => !acceptsEmpty full m)⟩ r = admissible fromDate tp r := by
    intro r; simp [FpQuery.admits, admissible, fnOf_Ge, cmpBytes]
  unfold FpQuery.eval Selected
  by_cases hemp : cs.isEmpty = true
  · have hms : ms = [] := List.eq_nil_of_length_eq_zero (by
      have : cs.length = 0 := by simpa using hemp
      omega)
    subst hms
    simp only [hemp, if_true, distinctFps, List.mem_eraseDups, List.mem_map, List.mem_filter, hadm]
    constructor
    · rintro ⟨r, ⟨hr, ha⟩, hf⟩
      exact ⟨⟨r, hr, hf, ha⟩, (fun m hm => absurd hm List.not_mem_nil), (fun m hm => absurd hm List.not_mem_nil)⟩
    · rintro ⟨⟨r, hr, hf, ha⟩, _⟩
      exact ⟨r, ⟨hr, ha⟩, hf⟩
  · have hemp' : cs.isEmpty = false := by simpa using hemp
    simp only [hemp', Bool.false_eq_true, if_false]
    have hreq63 : (ms.map (fun m => !acceptsEmpty full m)).length ≤ 63 := by simpa using h63
    rw [mem_bitsetSelectGen W _ _ (ms.map (fun m => !acceptsEmpty full m)) _ _ _ tbl (by simpa [hlen'] using hW)
      (by simp [hlen']) (by
        simp only [FpQuery.useOr, requiredConst_eq _ hreq63]
        cases h : (ms.map (fun m => !acceptsEmpty full m)).any id with
        | false =>
          have := (bits_eq_zero _).mpr h
          simp [this]
        | true =>
          have : bits (ms.map (fun m => !acceptsEmpty full m)) ≠ 0 := by
            intro h0; rw [(bits_eq_zero _).mp h0] at h; cases h
          simp only [bne_iff_ne, ne_eq]
          omega) (by
        intro x
        simp only [requiredConst_eq _ hreq63]
        cases hx : x == bits (ms.map (fun m => !acceptsEmpty full m)) with
        | true => have := eq_of_beq hx; subst this; simp
        | false =>
          have : x ≠ bits (ms.map (fun m => !acceptsEmpty full m)) := ne_of_beq_false hx
          simp only [beq_eq_false_iff_ne, ne_eq]
          omega) f]
    simp only [hadm]
    -- condition i on a row = the row satisfies the matcher asked for matcher i
    have hcond : ∀ (i : Nat) (hi : i < ms.length) (hi' : i < (cs.map (fun (c : Cond) (r : IdxRow) => c.eval re r)).length) (r : IdxRow),
        (cs.map (fun (c : Cond) (r : IdxRow) => c.eval re r))[i] r = rowSatisfies re (asked full ms[i]) r := by
      intro i hi hi' r
      have := congrArg (fun l => l[i]?) (hmap r)
      have hic : i < cs.length := by omega
      simp only [List.getElem?_map, List.getElem?_eq_getElem hic, List.getElem?_eq_getElem hi, Option.map_some] at this
      simpa using this
    have hreqi : ∀ (i : Nat) (hi : i < ms.length),
        (ms.map (fun m => !acceptsEmpty full m)).getD i false = !acceptsEmpty full ms[i] := by
      intro i hi
      simp [List.getD, List.getElem?_map, List.getElem?_eq_getElem hi]
    constructor
    · rintro ⟨hrow, hall⟩
      refine ⟨hrow, ?_, ?_⟩
      · intro m hm hacc
        obtain ⟨i, hi, rfl⟩ := List.getElem_of_mem hm
        have hi' : i < (cs.map (fun (c : Cond) (r : IdxRow) => c.eval re r)).length := by simp; omega
        obtain ⟨r, hr, hf, ha, hc⟩ := (hall i hi').mpr (by rw [hreqi i hi, hacc]; rfl)
        rw [hcond i hi hi' r] at hc
        simp only [asked, hacc] at hc
        exact ⟨r, hr, hf, ha, hc⟩
      · intro m hm hacc r hr hf ha hk
        obtain ⟨i, hi, rfl⟩ := List.getElem_of_mem hm
        have hi' : i < (cs.map (fun (c : Cond) (r : IdxRow) => c.eval re r)).length := by simp; omega
        have hno := (hall i hi')
        rw [hreqi i hi, hacc] at hno
        cases hop : opHolds re ms[i].type r.val (matcherVal ms[i]) with
        | true => rfl
        | false =>
          exfalso
          have : (false = true) := hno.mp ⟨r, hr, hf, ha, by
            rw [hcond i hi hi' r]
            simp only [asked, hacc, if_true, rowSatisfies_inverse, hop, hk]
            simp⟩
          cases this
    · rintro ⟨hrow, hpos, hneg⟩
      refine ⟨hrow, ?_⟩
      intro i hi'
      have hi : i < ms.length := by simp at hi'; omega
      rw [hreqi i hi]
      cases hacc : acceptsEmpty full ms[i] with
      | false =>
        obtain ⟨r, hr, hf, ha, hc⟩ := hpos ms[i] (List.getElem_mem hi) hacc
        simp only [Bool.not_false, iff_true]
        refine ⟨r, hr, hf, ha, ?_⟩
        rw [hcond i hi hi' r]
        simp only [asked, hacc]
        exact hc
      | true =>
        simp only [Bool.not_true, Bool.false_eq_true, iff_false]
        rintro ⟨r, hr, hf, ha, hc⟩
        rw [hcond i hi hi' r] at hc
        simp only [asked, hacc, if_true, rowSatisfies_inverse, Bool.and_eq_true, beq_iff_eq, Bool.not_eq_true'] at hc
        have := hneg ms[i] (List.getElem_mem hi) hacc r hr hf ha hc.1
        rw [this] at hc
        cases hc.2

/-! ### from index rows to label sets -/

/-- with the values anchored by `fingerprintsQuery`, ClickHouse's search is Prometheus' full match -/
theorem opHolds_anchor (search full : Bytes → Bytes → Bool)
    (hanch : ∀ p s, search (anchor p) s = full p s) (m : Matcher) (v : Bytes) :
    opHolds search m.type v (matcherVal m) = opHolds full m.type v m.val := by
  obtain ⟨n, t, w⟩ := m
  cases t
  · simp only [matcherVal, anchored_eq]; rfl
  · simp only [matcherVal, anchored_ne]; rfl
  · simp only [matcherVal, anchored_re, opHolds, if_true, hanch]
  · simp only [matcherVal, anchored_nre, opHolds, if_true, hanch]

theorem mem_of_lookup {l : List (Bytes × Bytes)} {k v : Bytes} (h : l.lookup k = some v) : (k, v) ∈ l := by
  induction l with
  | nil => simp [List.lookup] at h
  | cons a l ih =>
    obtain ⟨a1, a2⟩ := a
    simp only [List.lookup] at h
    by_cases hk : k == a1
    · simp only [hk] at h
      have : k = a1 := by simpa using hk
      simp at h; subst h; subst this; exact List.mem_cons_self
    · simp only [hk] at h
      exact List.mem_cons_of_mem _ (ih h)

theorem lookup_of_mem {l : List (Bytes × Bytes)} (hnd : (l.map (·.1)).Nodup) {k v : Bytes}
    (h : (k, v) ∈ l) : l.lookup k = some v := by
  induction l with
  | nil => cases h
  | cons a l ih =>
    obtain ⟨a1, a2⟩ := a
    simp only [List.map_cons, List.nodup_cons] at hnd
    simp only [List.lookup]
    rcases List.mem_cons.mp h with heq | hmem
    · have h1 : k = a1 := congrArg Prod.fst heq
      have h2 : v = a2 := congrArg Prod.snd heq
      subst h1; subst h2; simp
    · have hne : (k == a1) = false := by
        apply beq_false_of_ne
        intro e; subst e
        exact hnd.1 (List.mem_map.mpr ⟨(k, v), hmem, rfl⟩)
      simp only [hne]
      exact ih hnd.2 hmem

theorem eq_of_fp {db : List Stored} (hnd : (db.map (·.fp)).Nodup) {s s' : Stored} (h : s ∈ db)
    (h' : s' ∈ db) (e : s.fp = s'.fp) : s = s' := by
  induction db with
  | nil => cases h
  | cons a db ih =>
    simp only [List.map_cons, List.nodup_cons] at hnd
    rcases List.mem_cons.mp h with rfl | hm <;> rcases List.mem_cons.mp h' with rfl | hm'
    · rfl
    · exact absurd (List.mem_map.mpr ⟨s', hm', e.symm⟩) hnd.1
    · exact absurd (List.mem_map.mpr ⟨s, hm, e⟩) hnd.1
    · exact ih hnd.2 hm hm'

theorem mem_indexRows {db : List Stored} {r : IdxRow} :
    r ∈ indexRows db ↔ ∃ s ∈ db, ∃ kv ∈ s.labels, r = ⟨s.date, kv.1, kv.2, s.fp, s.type⟩ := by
  simp only [indexRows, List.mem_flatMap, List.mem_map]
  constructor
  · rintro ⟨s, hs, kv, hkv, rfl⟩; exact ⟨s, hs, kv, hkv, rfl⟩
  · rintro ⟨s, hs, kv, hkv, rfl⟩; exact ⟨s, hs, kv, hkv, rfl⟩

/-- fingerprints identify series, label names are unique inside a series -/
structure WellFormed (db : List Stored) : Prop where
  fps : (db.map (·.fp)).Nodup
  names : ∀ s ∈ db, (s.labels.map (·.1)).Nodup

/-- "every matcher that rejects the empty value is satisfied by an index row of f, and no index row of f violates a
    matcher that accepts it" is Prometheus' "the label set of f satisfies every matcher" (a missing label has the empty
    value). A series must have an index row to be found at all: either some matcher rejects the empty value (the PromQL
    parser insists on one in every selector) or every stored series carries a label (Prometheus stores no series with
    an empty label set). -/
theorem selected_iff_prom (search full : Bytes → Bytes → Bool)
    (hanch : ∀ p s, search (anchor p) s = full p s) (fromDate : Bytes) (tp : Int) (ms : List Matcher)
    (db : List Stored) (wf : WellFormed db)
    (hrow : (∃ m ∈ ms, opHolds full m.type [] m.val = false) ∨ (∀ s ∈ db, s.labels ≠ [])) (f : Nat) :
    Selected search full fromDate tp ms (indexRows db) f ↔
      ∃ s ∈ db, s.fp = f ∧ admissibleS fromDate tp s = true ∧ promMatches full ms s = true := by
  constructor
  · rintro ⟨⟨r, hr, hf, hadm⟩, hpos, hneg⟩
    obtain ⟨s, hs, kv, hkv, rfl⟩ := mem_indexRows.mp hr
    refine ⟨s, hs, hf, by simpa [admissible, admissibleS] using hadm, ?_⟩
    simp only [promMatches, List.all_eq_true]
    intro m hm
    cases hacc : acceptsEmpty full m with
    | false =>
      obtain ⟨r', hr', hf', _, hsat'⟩ := hpos m hm hacc
      obtain ⟨s', hs', kv', hkv', rfl⟩ := mem_indexRows.mp hr'
      have : s' = s := eq_of_fp wf.fps hs' hs (by simp at hf hf'; omega)
      subst this
      simp only [rowSatisfies, Bool.and_eq_true, beq_iff_eq] at hsat'
      obtain ⟨hk, hop⟩ := hsat'
      have hl : s'.labels.lookup m.name = some kv'.2 := by
        apply lookup_of_mem (wf.names s' hs')
        rw [← hk]; exact hkv'
      rw [opHolds_anchor search full hanch] at hop
      simpa [labelValue, hl] using hop
    | true =>
      cases hl : s.labels.lookup m.name with
      | none =>
        simp only [labelValue, hl, Option.getD_none]
        rw [← acceptsEmpty_eq]; exact hacc
      | some v =>
        simp only [labelValue, hl, Option.getD_some]
        have hmem : (m.name, v) ∈ s.labels := mem_of_lookup hl
        have := hneg m hm hacc ⟨s.date, m.name, v, s.fp, s.type⟩
          (mem_indexRows.mpr ⟨s, hs, (m.name, v), hmem, rfl⟩) hf (by simpa [admissible, admissibleS] using hadm) rfl
        rw [opHolds_anchor search full hanch] at this
        exact this
  · rintro ⟨s, hs, hf, hadm, hprom⟩
    simp only [promMatches, List.all_eq_true] at hprom
    have hadm' : ∀ kv : Bytes × Bytes, admissible fromDate tp ⟨s.date, kv.1, kv.2, s.fp, s.type⟩ = true := by
      intro kv; simpa [admissible, admissibleS] using hadm
    have hpos : ∀ m ∈ ms, acceptsEmpty full m = false →
        ∃ r ∈ indexRows db, r.fp = f ∧ admissible fromDate tp r = true ∧ rowSatisfies search m r = true := by
      intro m hm hacc
      have hop := hprom m hm
      cases hl : s.labels.lookup m.name with
      | none =>
        simp only [labelValue, hl, Option.getD_none] at hop
        rw [← acceptsEmpty_eq, hacc] at hop; cases hop
      | some v =>
        simp only [labelValue, hl, Option.getD_some] at hop
        refine ⟨_, mem_indexRows.mpr ⟨s, hs, (m.name, v), mem_of_lookup hl, rfl⟩, hf, hadm' _, ?_⟩
        simp only [rowSatisfies, Bool.and_eq_true, beq_iff_eq, true_and]
        rw [opHolds_anchor search full hanch]; exact hop
    refine ⟨?_, hpos, ?_⟩
    · rcases hrow with ⟨m, hm, hne⟩ | hlab
      · obtain ⟨r, hr, hf', ha, _⟩ := hpos m hm (by rw [acceptsEmpty_eq]; exact hne)
        exact ⟨r, hr, hf', ha⟩
      · cases hls : s.labels with
        | nil => exact absurd hls (hlab s hs)
        | cons kv rest =>
          exact ⟨_, mem_indexRows.mpr ⟨s, hs, kv, by rw [hls]; exact List.mem_cons_self, rfl⟩, hf, hadm' _⟩
    · intro m hm _ r hr hf' _ hk
      obtain ⟨s', hs', kv', hkv', rfl⟩ := mem_indexRows.mp hr
      have : s' = s := eq_of_fp wf.fps hs' hs (by simp at hf hf'; omega)
      subst this
      have hl : s'.labels.lookup m.name = some kv'.2 := by
        apply lookup_of_mem (wf.names s' hs')
        simp only at hk
        rw [← hk]; exact hkv'
      have hop := hprom m hm
      simp only [labelValue, hl, Option.getD_some] at hop
      rw [opHolds_anchor search full hanch]; exact hop

/-! ### the raw-sample scan -/
theorem scanLower_ge : Gen.PromSelect.scanLower = ">=" := by decide
theorem scanUpper_le : Gen.PromSelect.scanUpper = "<=" := by decide

theorem scanHolds_iff (fromNs toNs ts : Int) : scanHolds fromNs toNs ts = true ↔ fromNs ≤ ts ∧ ts ≤ toNs := by
  simp [scanHolds, scanLower_ge, scanUpper_le, cmpInt]

end Qryn.Prom
