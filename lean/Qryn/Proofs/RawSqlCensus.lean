import Qryn.Read.RawSqlTable
import Qryn.Proofs.Template
/-! C10 — the census theorems, by kernel evaluation over the regenerated inventory and the reviewed table (kept apart from
    `Props/C10.lean` so that a change of the inventory is reported under its own name). -/
namespace Qryn.RawSql
open Qryn Qryn.Sql

/-- the regenerated inventory is exactly the reviewed one: file by file, site by site (hash of file, function, kind, format
    string, arguments and their origins) -/
theorem census_sites :
    Gen.RawSqlSites.files.map (fun f => (f.1, f.2.map (·.hash))) = Table.files.map (fun f => (f.1, f.2.map (·.hash))) := by
  decide +kernel

theorem census_length : Gen.RawSqlSites.sites.length = Table.entries.length := by decide +kernel

/-- every site passes the check of its reviewed entry: an SQL-writing site has — for its REGENERATED format string — a closed
    template for the holes its argument classes admit, and origins that support the mechanical classes; dead sites are
    backed by the regenerated dead-code facts; no argument anywhere is request text written raw -/
theorem census_entries : (Gen.RawSqlSites.sites.zip Table.entries).all (fun p => entryOK p.1 p.2) = true := by
  decide +kernel

open Gen.RawSqlSites in
/-- what the check of an SQL-writing `Sprintf` / concatenation site means: its regenerated format string parses, and for
    EVERY filling of its holes that respects the reviewed argument classes — any byte string where the argument is the text
    of `NewStringVal(..).String`, any expression-like text where it is the rendering of a sub-object, any closed text where
    it is a number / name / constant, any quote-and-backslash-free text inside the quotes of `'%s'` — the text it writes is
    an expression-like segment list: well formed for its leaves from every state between tokens -/
theorem siteClosed_sound (s : Site) (cls : List Cls) (hk : s.kindN ≤ 2) (h : siteClosed s cls = true) :
    ∃ hs ps, holesOf cls = some hs ∧ parseFmt s.fmtB = some ps ∧ ∀ fills, FillsOK hs fills → PE (instT fills ps) := by
  unfold siteClosed at h
  cases hh : holesOf cls with
  | none => simp [hh] at h
  | some hs =>
    simp only [hh, hk, if_true] at h
    obtain ⟨ps, hp, hpe⟩ := fmtClosed_sound s.fmtB hs h
    exact ⟨hs, ps, rfl, hp, hpe⟩

/-- … for every site of the regenerated inventory that the reviewed table marks as writing SQL -/
theorem sql_sites_closed : ∀ p ∈ Gen.RawSqlSites.sites.zip Table.entries, p.2.role = .sql → p.1.kindN ≤ 2 →
    ∃ hs ps, holesOf p.2.cls = some hs ∧ parseFmt p.1.fmtB = some ps ∧ ∀ fills, FillsOK hs fills → PE (instT fills ps) := by
  intro p hp hr hk
  have h := (List.all_eq_true.mp census_entries) p hp
  unfold entryOK at h
  simp only [hr, Bool.and_eq_true] at h
  exact siteClosed_sound p.1 p.2.cls hk h.2.1

end Qryn.RawSql
