import Qryn.Proofs.Escape
import Qryn.Gen.Lexers
/-! C10: identifiers admitted by the query-language lexers, embedded in SQL without escaping. -/
namespace Qryn.Sql
open Qryn Qryn.Lex

/-- membership in a list of byte ranges (the compiled character classes of `Gen.Lexers`) -/
def inRanges (rs : List (UInt8 × UInt8)) (c : UInt8) : Bool := rs.any (fun r => r.1 ≤ c && c ≤ r.2)

/-- a byte that cannot end or escape a single-quoted literal -/
def litSafe (c : UInt8) : Bool := c != 39 && c != 92

/-- bytes with a meaning of their own for the ClickHouse lexer: quotes, backslash, brackets, blanks,
    comment introducers, statement separator -/
def sqlMeta (c : UInt8) : Bool :=
  c = 39 || c = 34 || c = 96 || c = 92 || c = 40 || c = 41 || c = 91 || c = 93 || c = 123 || c = 125 ||
  isSpace c || c = 45 || c = 47 || c = 42 || c = 59 || c = 44 || c = 35

theorem litSafe_of_not_meta : ∀ c : UInt8, sqlMeta c = false → litSafe c = true := by
  apply forall_byte_of_lt; decide +kernel

/-- inside a literal, a `litSafe` byte is read as itself -/
theorem step_str_litSafe (c : UInt8) (h : litSafe c = true) : step .str c = (.str, [.sByte c]) := by
  simp [litSafe] at h
  simp [step, h.1, h.2]

theorem run_str_litSafe (s : Bytes) (h : ∀ c ∈ s, litSafe c = true) : run .str s = (.str, s.map .sByte) := by
  induction s with
  | nil => rfl
  | cons c s ih =>
    have hc := step_str_litSafe c (h c (by simp))
    have hs := ih (fun d hd => h d (by simp [hd]))
    simp [run, hc, hs]

/-- `'` ++ s ++ `'` with `s` free of quote and backslash, from any state where a quote opens a literal -/
theorem run_rawQuoted (q : St) (hq : q.safe = true) (s : Bytes) (h : ∀ c ∈ s, litSafe c = true) :
    run q (39 :: s ++ [39]) = (.strQ, openEv q ++ s.map .sByte) := by
  rw [show (39 : UInt8) :: s ++ [39] = [39] ++ (s ++ [39]) by simp, run_append]
  have h1 : run q [39] = (.str, openEv q) := by simp [run, step_open q hq]
  rw [h1, run_append, run_str_litSafe s h]
  simp [run, step]

theorem assemble_str_bytes (acc t : Bytes) :
    assemble (some (.str acc)) (t.map .sByte ++ [.sClose]) = [Tok.str (acc ++ t)] := by
  induction t generalizing acc with
  | nil => simp [assemble]
  | cons c t ih => simp [assemble, ih]

theorem lex_rawQuoted (s : Bytes) (h : ∀ c ∈ s, litSafe c = true) : lex (39 :: s ++ [39]) = [Tok.str s] := by
  have hr := run_rawQuoted .normal rfl s h
  simp only [lex, lexEv, hr, openEv, flush]
  simpa [assemble] using assemble_str_bytes [] s

/-- a word byte keeps the lexer inside the bareword -/
theorem run_word (s : Bytes) (h : ∀ c ∈ s, isWordByte c = true) : run .word s = (.word, s.map .wByte) := by
  induction s with
  | nil => rfl
  | cons c s ih =>
    have hc : step .word c = (.word, [.wByte c]) := by simp [step, h c (by simp)]
    have hs := ih (fun d hd => h d (by simp [hd]))
    simp [run, hc, hs]

theorem assemble_word_bytes (acc t : Bytes) :
    assemble (some (.word acc)) (t.map .wByte ++ [.wEnd]) = [Tok.word (acc ++ t)] := by
  induction t generalizing acc with
  | nil => simp [assemble]
  | cons c t ih => simp [assemble, ih]

theorem wordByte_not_special : ∀ c : UInt8, isWordByte c = true → c ≠ 39 ∧ c ≠ 34 ∧ c ≠ 96 ∧ c ≠ 45 ∧ c ≠ 47 := by
  apply forall_byte_of_lt; decide +kernel

/-- a non-empty string of word bytes is exactly one bareword token -/
theorem lex_word (c : UInt8) (s : Bytes) (h : ∀ d ∈ c :: s, isWordByte d = true) : lex (c :: s) = [Tok.word (c :: s)] := by
  have hc : isWordByte c = true := h c (by simp)
  have hq := wordByte_not_special c hc
  have h0 : step .normal c = (.word, [.wByte c]) := by
    simp [step, stepNormal, hc, hq.1, hq.2.1, hq.2.2.1, hq.2.2.2.1, hq.2.2.2.2]
  have hs := run_word s (fun d hd => h d (by simp [hd]))
  simp only [lex, lexEv, run, h0, hs, flush]
  have := assemble_word_bytes [c] s
  simpa [assemble] using this

end Qryn.Sql
