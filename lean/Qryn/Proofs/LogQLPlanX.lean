import Qryn.Proofs.RunsX
import Qryn.Proofs.AnalyzeX
/-! `plan_correct_ext`: `Sql.evalSelX (planLogX c fin q) = evalLogX o c fin d q`. -/
namespace Qryn.LogQL
open Qryn Qryn.Sql

/-! ### runs = stages -/
theorem runCh_cons (o : Oracles) (c : Changer) (cs : List Changer) (e : EntryX) :
    runCh o (c :: cs) e = runCh o cs (relabel o c e) := by
  simp [runCh, relabel]

theorem runCh_single (o : Oracles) (c : Changer) (e : EntryX) : runCh o [c] e = relabel o c e := by
  simp [runCh, relabel]

theorem applyRuns_consCh (o : Oracles) (c : Changer) (rs : List Run) (E : List EntryX) :
    applyRuns o (consCh c rs) E = applyRuns o rs (E.map (relabel o c)) := by
  have h1 : E.map (runCh o [c]) = E.map (relabel o c) := by simp [runCh_single]
  cases rs with
  | nil => simp [consCh, h1]
  | cons r more =>
    cases r with
    | ch cs =>
      have h2 : E.map (runCh o (c :: cs)) = (E.map (relabel o c)).map (runCh o cs) := by
        simp [List.map_map, Function.comp_def, runCh_cons]
      simp [consCh, h2]
    | fl fs => simp [consCh, h1]

theorem applyRuns_consFl (o : Oracles) (s : Stage) (rs : List Run) (E : List EntryX) :
    applyRuns o (consFl s rs) E = applyRuns o rs (E.filter (fun e => stageHolds o e s)) := by
  have h1 : E.filter (fun e => [s].all (stageHolds o e)) = E.filter (fun e => stageHolds o e s) := by simp
  cases rs with
  | nil => simp [consFl]
  | cons r more =>
    cases r with
    | ch cs => simp [consFl]
    | fl fs =>
      have h2 : E.filter (fun e => (s :: fs).all (stageHolds o e)) =
          (E.filter (fun e => stageHolds o e s)).filter (fun e => fs.all (stageHolds o e)) := by
        simp [List.filter_filter, Bool.and_comm]
      simp only [consFl, applyRuns_cons, applyRun_fl, h2]

theorem applyRuns_group (o : Oracles) (ss : List StageX) : ∀ E, applyRuns o (groupRuns ss) E = stagesX o ss E := by
  induction ss with
  | nil => intro E; rfl
  | cons s rest ih =>
    intro E
    cases s with
    | ch c => simp only [groupRuns, applyRuns_consCh, ih, stagesX, List.foldl_cons, stageX]
    | fl f => simp only [groupRuns, applyRuns_consFl, ih, stagesX, List.foldl_cons, stageX]

def AllChNonempty (rs : List Run) : Prop := ∀ cs, Run.ch cs ∈ rs → cs ≠ []

theorem allCh_consCh (c : Changer) (rs : List Run) (h : AllChNonempty rs) : AllChNonempty (consCh c rs) := by
  intro cs hm
  cases rs with
  | nil => simp [consCh] at hm; subst hm; simp
  | cons r more =>
    cases r with
    | ch cs' =>
      simp only [consCh, List.mem_cons] at hm
      rcases hm with hm | hm
      · cases hm; simp
      · exact h cs (by simp [hm])
    | fl fs =>
      simp only [consCh, List.mem_cons] at hm
      rcases hm with hm | hm
      · cases hm; simp
      · exact h cs (by simpa using hm)

theorem allCh_consFl (s : Stage) (rs : List Run) (h : AllChNonempty rs) : AllChNonempty (consFl s rs) := by
  intro cs hm
  cases rs with
  | nil => simp [consFl] at hm
  | cons r more =>
    cases r with
    | ch cs' =>
      simp only [consFl, List.mem_cons] at hm
      rcases hm with hm | hm
      · cases hm
      · exact h cs (by simpa using hm)
    | fl fs =>
      simp only [consFl, List.mem_cons] at hm
      rcases hm with hm | hm
      · cases hm
      · exact h cs (by simp [hm])

theorem allCh_group (ss : List StageX) : AllChNonempty (groupRuns ss) := by
  induction ss with
  | nil => intro cs hm; simp [groupRuns] at hm
  | cons s rest ih =>
    cases s with
    | ch c => exact allCh_consCh c _ ih
    | fl f => exact allCh_consFl f _ ih

/-- after the split the first run rewrites labels -/
theorem group_head_ch (c : Changer) (rest : List StageX) :
    ∃ cs more, groupRuns (.ch c :: rest) = .ch (c :: cs) :: more := by
  simp only [groupRuns]
  cases groupRuns rest with
  | nil => exact ⟨[], [], rfl⟩
  | cons r more =>
    cases r with
    | ch cs => exact ⟨cs, more, rfl⟩
    | fl fs => exact ⟨[], .fl fs :: more, rfl⟩

end Qryn.LogQL

namespace Qryn.LogQL
open Qryn Qryn.Sql

/-! ### ORDER BY timestamp, LIMIT of the last run -/
theorem rowLe_rowS (c : Ctx) (j : Bool) (a b : EntryX) :
    rowLe [("timestamp_ns", dirOf c)] (rowS j a) (rowS j b) = tsLeX c a b := by
  have ha : Row.get (rowS j a) "timestamp_ns" = .int a.ts := by cases j <;> simp [rowS, rowJ, rowR, Row.get, List.lookup]
  have hb : Row.get (rowS j b) "timestamp_ns" = .int b.ts := by cases j <;> simp [rowS, rowJ, rowR, Row.get, List.lookup]
  simp only [rowLe, ha, hb, int_beq, dirOf, tsLeX]
  by_cases h : a.ts = b.ts
  · simp [h]
  · cases c.orderAsc <;> simp [h, Val.cmpLe]

theorem finish_last (c : Ctx) (L : Int) (j : Bool) (E : List EntryX) :
    finish [.orderBy (.raw "timestamp_ns") (dirOf c)] (if L = 0 then none else some (.int L)) (E.map (rowS j)) =
      (takeLimit L (sortBy (tsLeX c) E)).map (rowS j) := by
  by_cases h0 : L = 0
  · simp only [h0, if_true, finish, List.isEmpty_cons, Bool.false_eq_true, if_false, orderKeys, takeLimit]
    rw [sortBy_map (tsLeX c) _ (rowS j) (rowLe_rowS c j)]
  · simp only [h0, if_false, finish, List.isEmpty_cons, Bool.false_eq_true, orderKeys, takeLimit]
    rw [sortBy_map (tsLeX c) _ (rowS j) (rowLe_rowS c j), List.map_take]

/-! ### the WITH entries of the runs -/
theorem planRunsR_eval (o : Oracles) (c : Ctx) (db : Db) (ob : List Expr) (lim : Option Expr) :
    ∀ (rs : List Run), rs ≠ [] → AllChNonempty rs → ∀ (kprev k rid : Nat) (j : Bool) (E : List EntryX) (env : Env),
      env.lookup (.sub kprev) = some (E.map (rowS j)) →
      ∃ rest, evalWithsX o db env (planRuns c ob lim (some kprev) k rid rs) =
        (.named "prefinal", finish ob lim ((applyRuns o rs E).map rowR)) :: rest := by
  intro rs
  induction rs with
  | nil => intro h; exact absurd rfl h
  | cons r rs' ih =>
    intro _ hall kprev k rid j E env hE
    cases rs' with
    | nil =>
      refine ⟨env, ?_⟩
      simp only [planRuns, evalWithsX, applyRuns_cons, applyRuns_nil]
      cases r with
      | ch cs => rw [runChR_eval o c db env kprev j E cs (hall cs (by simp)) rid ob lim hE]; rfl
      | fl fs => rw [runFlR_eval o c db env kprev j E fs rid ob lim hE]; rfl
    | cons r' rs'' =>
      simp only [planRuns, evalWithsX, applyRuns_cons]
      have hall' : AllChNonempty (r' :: rs'') := fun cs hm => hall cs (List.mem_cons_of_mem _ hm)
      have hstep : evalBodyX o db env (runSel c (some kprev) rid r [] none).1 = (applyRun o r E).map (rowS false) := by
        cases r with
        | ch cs => rw [runChR_eval o c db env kprev j E cs (hall cs (by simp)) rid [] none hE, finish_none]; rfl
        | fl fs => rw [runFlR_eval o c db env kprev j E fs rid [] none hE, finish_none]; rfl
      rw [hstep]
      exact ih (by simp) hall' k (k + 1) _ false (applyRun o r E) _ (by simp [List.lookup])

theorem planRunsJ_eval (o : Oracles) (c : Ctx) (d : LokiDb) (q : LogQuery) (env : Env) (L0 : List Sample)
    (hM : env.lookup (.named "main") = some (L0.map mainRow))
    (hTS : env.lookup (.named "_time_series") = some ((d.ts.filter (tsOk o c d q)).map (tsOut o)))
    (cs : List Changer) (hcs : cs ≠ []) (more : List Run) (hall : AllChNonempty more) (k rid : Nat)
    (ob : List Expr) (lim : Option Expr) :
    ∃ j rest, evalWithsX o (d.toDb c) env (planRuns c ob lim none k rid (.ch cs :: more)) =
      (.named "prefinal", finish ob lim ((applyRuns o (.ch cs :: more) (L0.map (joinEntry o c d q))).map (rowS j))) :: rest := by
  cases more with
  | nil =>
    refine ⟨true, env, ?_⟩
    simp only [planRuns, evalWithsX, applyRuns_cons, applyRuns_nil, applyRun_ch, List.map_map]
    rw [runChJ_eval o c d q env L0 cs hcs rid ob lim hM hTS, List.map_map]
    rfl
  | cons r' rs'' =>
    simp only [planRuns, evalWithsX, applyRuns_cons, applyRun_ch]
    rw [runChJ_eval o c d q env L0 cs hcs rid [] none hM hTS, finish_none]
    have hE : (List.map rowJ (List.map (fun s => runCh o cs (joinEntry o c d q s)) L0)) =
        ((L0.map (joinEntry o c d q)).map (runCh o cs)).map (rowS true) := by
      simp [List.map_map, Function.comp_def, rowS]
    rw [hE]
    obtain ⟨rest, h⟩ := planRunsR_eval o c (d.toDb c) ob lim (r' :: rs'') (by simp) hall k (k + 1)
      (runSel c none rid (.ch cs) [] none).2 true
      ((L0.map (joinEntry o c d q)).map (runCh o cs))
      ((Alias.sub k, ((L0.map (joinEntry o c d q)).map (runCh o cs)).map (rowS true)) :: env) (by simp [List.lookup])
    exact ⟨false, rest, h⟩

/-! ### the final SELECT -/
theorem orderKeys_final (c : Ctx) (fin : Bool) : orderKeys (finalOrder c fin) = finalKeysX c fin := by
  cases fin <;> simp [finalOrder, orderKeys, finalKeysX]

theorem finalOrder_ne (c : Ctx) (fin : Bool) : (finalOrder c fin).isEmpty = false := by
  cases fin <;> simp [finalOrder]

theorem project_finalX (o : Oracles) (env : Env) (j : Bool) (e : EntryX) :
    project o env finalCols (aliasRow o env finalCols (qualify "prefinal" (rowS j e))) = e.row := by
  cases j <;> simp [aliasRow, project, finalCols, colName, simpleCol, qualify, rowS, rowJ, rowR, Row.get, List.lookup, EntryX.row]

theorem finalX_eval (o : Oracles) (db : Db) (c : Ctx) (fin : Bool) (env : Env) (j : Bool) (F : List EntryX)
    (ws : List (Alias × Sel)) (h : env.lookup (.named "prefinal") = some (F.map (rowS j))) :
    evalBodyX o db env (.mk ws false finalCols (some (.withRef (.named "prefinal"))) [] none none [] none (finalOrder c fin) none) =
      sortBy (rowLe (finalKeysX c fin)) (F.map EntryX.row) := by
  rw [evalBodyX_flat]
  simp only [finish, finalOrder_ne, Bool.false_eq_true, if_false, orderKeys_final, List.foldl_nil, sourceRowsX, sourceRows, h,
    Option.getD_some, optB, Bool.and_self, filter_true, List.map_map, Function.comp_def, Alias.text, project_finalX]

/-- after the split the rest is empty or starts with a label-rewriting stage -/
theorem splitPre_snd (ss : List StageX) : (splitPre ss).2 = [] ∨ ∃ c rest, (splitPre ss).2 = .ch c :: rest := by
  induction ss with
  | nil => left; rfl
  | cons s rest ih =>
    cases s with
    | fl f => simpa [splitPre] using ih
    | ch c => right; exact ⟨c, rest, rfl⟩

end Qryn.LogQL

namespace Qryn.LogQL
open Qryn Qryn.Sql

/-! ### no label-rewriting stage: the plan of `LogQL.Planner`, evaluated by `Sql.SemX` -/
theorem project_preX_some (o : Oracles) (env : Env) (s : Sample) (t : TsRow) :
    project o env preCols (aliasRow o env preCols (qualify "main" (mainRow s) ++ tsJoin o t)) =
      [("fingerprint", .int s.fp), ("timestamp_ns", .int s.ts), ("labels", .map (o.jsonLabels t.labels)),
       ("string", .str s.str), ("value", .null)] := by
  simp [aliasRow, project, preCols, colName, simpleCol, qualify, mainRow, tsJoin, Row.get, List.lookup]

theorem project_preX_none (o : Oracles) (env : Env) (s : Sample) :
    project o env preCols (aliasRow o env preCols (qualify "main" (mainRow s))) =
      [("fingerprint", .int s.fp), ("timestamp_ns", .int s.ts), ("labels", .null),
       ("string", .str s.str), ("value", .null)] := by
  simp [aliasRow, project, preCols, colName, simpleCol, qualify, mainRow, Row.get, List.lookup]

theorem joinedX_eval (o : Oracles) (c : Ctx) (d : LokiDb) (q : LogQuery) (env : Env) (L : List Sample)
    (hM : env.lookup (.named "main") = some (L.map mainRow))
    (hTS : env.lookup (.named "_time_series") = some ((d.ts.filter (tsOk o c d q)).map (tsOut o))) :
    evalBodyX o (d.toDb c) env (joinedSel c) = L.map (preRow o c d q) := by
  unfold joinedSel
  rw [evalBodyX_flat, finish_none]
  have hcols : [simpleCol "main.fingerprint" "fingerprint", simpleCol "main.timestamp_ns" "timestamp_ns",
     simpleCol "_time_series.labels" "labels", simpleCol "main.string" "string", simpleCol "main.value" "value"] = preCols := rfl
  simp only [List.foldl_cons, List.foldl_nil, optB, Bool.and_self, filter_true, anyLeftJoin_eq, sourceRowsX,
    sourceRows, hM, hTS, Option.getD_some, List.map_map, hcols]
  apply List.map_congr_left
  intro s _
  have hfind : List.find? (fun rr => evalB o env (qualify (Alias.named "main").text (mainRow s) ++ rr)
        (eq (.raw "main.fingerprint") (.raw "_time_series.fingerprint")))
      (List.map (prefixRow (Alias.named "_time_series").text ∘ tsOut o) (List.filter (tsOk o c d q) d.ts)) =
      (d.ts.find? (fun t => decide (fromDate c ≤ t.date) && typeOk c t.tp && fpSelected o c d q t.fp && t.fp == s.fp)).map (tsJoin o) := by
    simp only [Function.comp_def, prefix_tsOut, List.find?_map, List.find?_filter]
    refine congrArg (fun p => Option.map (tsJoin o) (List.find? p d.ts)) ?_
    funext t
    have := joinOn_eval o env s t
    simp only [Alias.text, this, tsOk]
    simp
    congr 1
  simp only [Function.comp_apply]
  rw [hfind]
  unfold preRow labelsOf
  cases hf : List.find? (fun t => decide (fromDate c ≤ t.date) && typeOk c t.tp && fpSelected o c d q t.fp && t.fp == s.fp) d.ts with
  | none => exact project_preX_none o env s
  | some t => exact project_preX_some o env s t

theorem project_finalX0 (o : Oracles) (c : Ctx) (d : LokiDb) (q : LogQuery) (env : Env) (s : Sample) :
    project o env finalCols (aliasRow o env finalCols (qualify "prefinal" (preRow o c d q s))) = outRow o c d q s := by
  simp [aliasRow, project, finalCols, colName, simpleCol, qualify, preRow, outRow, Row.get, List.lookup]

theorem finalX0_eval (o : Oracles) (db : Db) (c : Ctx) (d : LokiDb) (q : LogQuery) (fin : Bool) (env : Env) (L : List Sample)
    (ws : List (Alias × Sel)) (h : env.lookup (.named "prefinal") = some (L.map (preRow o c d q))) :
    evalBodyX o db env (.mk ws false finalCols (some (.withRef (.named "prefinal"))) [] none none [] none (finalOrder c fin) none) =
      sortBy (rowLe (finalKeysX c fin)) (L.map (outRow o c d q)) := by
  rw [evalBodyX_flat]
  simp only [finish, finalOrder_ne, Bool.false_eq_true, if_false, orderKeys_final, List.foldl_nil, sourceRowsX, sourceRows, h,
    Option.getD_some, optB, Bool.and_self, filter_true, List.map_map, Function.comp_def, Alias.text, project_finalX0]

/-- **the refinement**: the statement planned for the SQL-side stages, evaluated with the SELECT aliases visible,
    returns exactly the rows of the direct reading -/
theorem planLogX_correct (o : Oracles) (c : Ctx) (hn : c.namesOk) (d : LokiDb) (q : LogQueryX) (fin : Bool)
    (hm : q.matchers.length ≤ 63) :
    evalSelX o (d.toDb c) (planLogX c fin q) = evalLogX o c fin d q := by
  obtain ⟨T, rest, hchain, hT⟩ := fpChainX_eval o c hn d (labelConds ⟨q.matchers, (splitPre q.stages).1⟩)
    (streamSelect c q.matchers) 0 [] (streamSelected o c d q.matchers) (streamSelectX_eval o c hn d q.matchers hm [])
  have hT' : FpTable T (fpSelected o c d ⟨q.matchers, (splitPre q.stages).1⟩) := hT
  -- the plan's analysis (`analyzeScript`) splits the pipeline where the specification does
  have ha : analyze q.stages = ⟨labelConds ⟨q.matchers, (splitPre q.stages).1⟩, (splitPre q.stages).1, (splitPre q.stages).2⟩ :=
    analyze_eq_splitPre q.stages
  rcases splitPre_snd q.stages with hpost | ⟨ch, more, hpost⟩
  · -- only filters: `planLog` with the limit / final order of `fin`
    simp only [planLogX, ha, evalLogX, hpost, evalSelX, evalWithsX_append, hchain, evalWithsX]
    have hmain := mainX_eval o (limCtx c fin) d ⟨q.matchers, (splitPre q.stages).1⟩ ((.named "fp_sel", T) :: rest) T
      (by simp [List.lookup]) hT'
    have hmain' : evalBodyX o (d.toDb c) ((.named "fp_sel", T) :: rest) (mainSel (limCtx c fin) ⟨q.matchers, (splitPre q.stages).1⟩) =
        (limited o (limCtx c fin) d ⟨q.matchers, (splitPre q.stages).1⟩).map mainRow := hmain
    rw [hmain']
    rw [timeSeriesX_eval o c hn d ⟨q.matchers, (splitPre q.stages).1⟩ _ T (by simp [List.lookup]) hT']
    rw [joinedX_eval o c d ⟨q.matchers, (splitPre q.stages).1⟩ _ (limited o (limCtx c fin) d ⟨q.matchers, (splitPre q.stages).1⟩)
      (by simp [List.lookup]) (by simp [List.lookup])]
    exact finalX0_eval o _ c d _ fin _ _ _ (by simp [List.lookup])
  · -- at least one parser / drop
    obtain ⟨cs, runs, hgr⟩ := group_head_ch ch more
    have hall : AllChNonempty runs := fun cs' hm' => allCh_group (.ch ch :: more) cs' (by rw [hgr]; exact List.mem_cons_of_mem _ hm')
    simp only [planLogX, ha, evalLogX, hpost, evalSelX, evalWithsX_append, hchain, evalWithsX, hgr]
    have hmain := mainX_eval o { c with limit := 0 } d ⟨q.matchers, (splitPre q.stages).1⟩ ((.named "fp_sel", T) :: rest) T
      (by simp [List.lookup]) hT'
    have hmain' : evalBodyX o (d.toDb c) ((.named "fp_sel", T) :: rest) (mainSel { c with limit := 0 } ⟨q.matchers, (splitPre q.stages).1⟩) =
        (limited o { c with limit := 0 } d ⟨q.matchers, (splitPre q.stages).1⟩).map mainRow := hmain
    rw [hmain']
    rw [timeSeriesX_eval o c hn d ⟨q.matchers, (splitPre q.stages).1⟩ _ T (by simp [List.lookup]) hT']
    obtain ⟨j, rest', hruns⟩ := planRunsJ_eval o c d ⟨q.matchers, (splitPre q.stages).1⟩
      ((.named "_time_series", (d.ts.filter (tsOk o c d ⟨q.matchers, (splitPre q.stages).1⟩)).map (tsOut o)) ::
       (.named "main", (limited o { c with limit := 0 } d ⟨q.matchers, (splitPre q.stages).1⟩).map mainRow) ::
       (.named "fp_sel", T) :: rest)
      (limited o { c with limit := 0 } d ⟨q.matchers, (splitPre q.stages).1⟩)
      (by simp [List.lookup]) (by simp [List.lookup]) (ch :: cs) (by simp) runs hall
      ((labelConds ⟨q.matchers, (splitPre q.stages).1⟩).length + 1) 1
      [.orderBy (.raw "timestamp_ns") (dirOf c)]
      (if (limCtx c fin).limit = 0 then none else some (.int (limCtx c fin).limit))
    rw [hruns, finish_last]
    have hfin := fun ws => finalX_eval o (d.toDb c) c fin
      ((.named "prefinal", (takeLimit (limCtx c fin).limit (sortBy (tsLeX c) (applyRuns o (Run.ch (ch :: cs) :: runs)
        ((limited o { c with limit := 0 } d ⟨q.matchers, (splitPre q.stages).1⟩).map
          (joinEntry o c d ⟨q.matchers, (splitPre q.stages).1⟩))))).map (rowS j)) :: rest') j
      (takeLimit (limCtx c fin).limit (sortBy (tsLeX c) (applyRuns o (Run.ch (ch :: cs) :: runs)
        ((limited o { c with limit := 0 } d ⟨q.matchers, (splitPre q.stages).1⟩).map
          (joinEntry o c d ⟨q.matchers, (splitPre q.stages).1⟩))))) ws (by simp [List.lookup])
    rw [hfin, ← hgr, applyRuns_group]
    rfl

end Qryn.LogQL

namespace Qryn.LogQL
open Qryn Qryn.Sql

/-! ### facts about the specification -/
def filtersOf : List StageX → List Stage
  | [] => []
  | .fl s :: rest => s :: filtersOf rest
  | .ch _ :: rest => filtersOf rest

/-- every entry the stages let through is an input entry: same line, same timestamp, its labels rewritten by the
    label-rewriting stages in order -/
theorem stagesX_origin (o : Oracles) (ss : List StageX) : ∀ (E : List EntryX) (e' : EntryX), e' ∈ stagesX o ss E →
    ∃ e ∈ E, e'.line = e.line ∧ e'.ts = e.ts ∧ e'.labels = (changersOf ss).foldl (applyChanger o e.line) e.labels := by
  induction ss with
  | nil => intro E e' h; exact ⟨e', h, rfl, rfl, rfl⟩
  | cons s rest ih =>
    intro E e' h
    cases s with
    | fl f =>
      simp only [stagesX, List.foldl_cons, stageX] at h
      obtain ⟨e, he, h1, h2, h3⟩ := ih _ e' h
      exact ⟨e, (List.mem_filter.mp he).1, h1, h2, by simpa [changersOf] using h3⟩
    | ch c =>
      simp only [stagesX, List.foldl_cons, stageX] at h
      obtain ⟨e, he, h1, h2, h3⟩ := ih _ e' h
      obtain ⟨e0, he0, rfl⟩ := List.mem_map.mp he
      exact ⟨e0, he0, by simpa [relabel] using h1, by simpa [relabel] using h2, by simpa [changersOf, relabel] using h3⟩

theorem splitPre_fl (ss : List Stage) : splitPre (ss.map StageX.fl) = (ss, []) := by
  induction ss with
  | nil => rfl
  | cons s rest ih => simp [splitPre, ih]

theorem limCtx_true (c : Ctx) : limCtx c true = c := by cases c; rfl

/-- without a label-rewriting stage the specification is the one of `LogQL.Sem` -/
theorem evalLogX_plain (o : Oracles) (c : Ctx) (d : LokiDb) (q : LogQuery) :
    evalLogX o c true d ⟨q.matchers, q.stages.map .fl⟩ = evalLog o c d q := by
  simp only [evalLogX, splitPre_fl, limCtx_true, finalKeysX, if_true, evalLog, finalKeys]

/-- `breakScript`: ClickHouse gets the stages before the first one only the in-process engine has -/
theorem sqlPrefix_spec (ss : List ScriptStage) :
    ∃ rest, ss = (sqlPrefix ss).map .sql ++ rest ∧ (finalizes ss = true ↔ rest = []) ∧
      (∀ s, rest.head? = some s → s.breaks = true) := by
  induction ss with
  | nil => exact ⟨[], rfl, by simp [finalizes], by simp⟩
  | cons s rest ih =>
    cases s with
    | inproc t => exact ⟨.inproc t :: rest, by simp [sqlPrefix], by simp [finalizes, ScriptStage.breaks], by simp [ScriptStage.breaks]⟩
    | sql x =>
      obtain ⟨r, h1, h2, h3⟩ := ih
      refine ⟨r, by simp only [sqlPrefix, List.map_cons, List.cons_append]; rw [← h1], ?_, h3⟩
      simpa [finalizes, ScriptStage.breaks] using h2

end Qryn.LogQL
