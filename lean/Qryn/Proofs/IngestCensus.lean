import Qryn.Ingest.FaultCensus
/-! The kernel evaluation of the ingest census comparison (kept apart from `Props/C05.lean` so that a change of the
    regenerated census is reported under its own name). The table equalities are closed by `rfl` (the kernel compares
    string literals directly), the Boolean checks by `decide +kernel`. -/
namespace Qryn.IngestCensus
open Qryn.Gen

/-- the regenerated fault sites are exactly the reviewed ones: same functions, same sites (kind, source text), same order -/
theorem census_checked : genShape IngestCensus.functions = revShape reviewed := by rfl

/-- every cited guard is among the conditions the translator found at that site -/
theorem guards_checked : backedAll IngestCensus.functions reviewed = true := by decide +kernel

/-- the library calls on the goroutines' stacks are exactly the reviewed ones -/
theorem externs_checked : IngestCensus.externsUnion = reviewedExterns.map (·.name) := by rfl

/-- a placed site runs only on goroutines that catch its panic the way the model says -/
theorem roots_checked : IngestCensus.goroutines.all rootOk = true := by decide +kernel

/-- the sites the review cites are the sites the model carries -/
theorem placed_checked : citedSites = sortDedup (modelSites.map (·.id)) := by decide +kernel

theorem excluded_checked : IngestCensus.excludedPackages = reviewedExcluded := by rfl

end Qryn.IngestCensus
