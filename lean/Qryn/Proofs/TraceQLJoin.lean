import Qryn.Proofs.TraceQLTopN
import Qryn.TraceQL.Portions
/-! C11: `TracesDataPlanner` — the statement around `index_grouped`: the selected (trace, span) pairs are looked up in
    the span table, grouped per trace with the start of the whole trace, newest trace start first, LIMIT. Evaluated by
    `Sql.SemJ`; the result is `assemble` of the rows of `index_grouped`. -/
namespace Qryn.TraceQL
open Qryn Qryn.Sql

/-- the (trace, span ids) pairs of a table of trace rows -/
def pairsOf (T : Table) : List (Bytes × List Bytes) :=
  T.filterMap (fun r => match r.get "trace_id", r.get "span_id" with | .str t, .strs vs => some (t, vs) | _, _ => none)

/-- every row is a trace row -/
def TraceShaped (T : Table) : Prop := ∀ r ∈ T, ∃ tr vs, r.get "trace_id" = .str tr ∧ r.get "span_id" = .strs vs

theorem pairsOf_cons (r : Row) (T : Table) (tr : Bytes) (vs : List Bytes) (h1 : r.get "trace_id" = .str tr)
    (h2 : r.get "span_id" = .strs vs) : pairsOf (r :: T) = (tr, vs) :: pairsOf T := by
  simp [pairsOf, h1, h2]

/-! ### the sub-queries over `index_grouped` -/
def traceIdsSel : Sel := .mk [] false [.raw "trace_id"] (some (.withRef (.named "index_grouped"))) [] none none [] none [] none
def traceSpanIdsSel : Sel := .mk [] false [.raw "trace_id", .raw "span_id"]
  (some (.arrayJoin (.withRef (.named "index_grouped")) (.raw "span_id"))) [] none none [] none [] none

theorem traceIds_eval (o : Oracles) (ao : AggOracles) (db : Db) (env : Env) (T : Table)
    (henv : env.lookup (.named "index_grouped") = some T) (hT : TraceShaped T) :
    evalCteJ o ao db env traceIdsSel = (pairsOf T).map (fun k => [("trace_id", Val.str k.1)]) := by
  have hu : evalCteJ o ao db env traceIdsSel = evalSelG o ao db false env traceIdsSel := by
    have : usesJ traceIdsSel = false := by decide
    simp [evalCteJ, this]
  rw [hu]
  simp only [traceIdsSel, evalSelG, sourceRowsG, henv, Option.getD_some,
    List.foldl_nil, optB, Bool.and_true, List.isEmpty_nil, if_true, limitG, Alias.text, Bool.false_eq_true, if_false]
  rw [List.filter_eq_self.mpr (by intro r _; rfl), List.map_map]
  clear henv
  induction T with
  | nil => rfl
  | cons r rs ih =>
    obtain ⟨tr, vs, h1, h2⟩ := hT r (by simp)
    rw [pairsOf_cons r rs tr vs h1 h2, List.map_cons, List.map_cons, ih (fun x hx => hT x (List.mem_cons_of_mem _ hx))]
    simp [project, colName, evalE, get_qualify_nodot _ _ _ tid_nodot, h1]

theorem traceSpanIds_eval (o : Oracles) (ao : AggOracles) (db : Db) (env : Env) (T : Table)
    (henv : env.lookup (.named "index_grouped") = some T) (hT : TraceShaped T) :
    evalCteJ o ao db env traceSpanIdsSel =
      (pairsOf T).flatMap (fun k => k.2.map (fun v => [("trace_id", Val.str k.1), ("span_id", Val.str v)])) := by
  have hu : evalCteJ o ao db env traceSpanIdsSel = evalSelG o ao db false env traceSpanIdsSel := by
    have : usesJ traceSpanIdsSel = false := by decide
    simp [evalCteJ, this]
  rw [hu]
  simp only [traceSpanIdsSel, evalSelG, sourceRowsG, henv, Option.getD_some,
    List.foldl_nil, optB, Bool.and_true, List.isEmpty_nil, if_true, limitG, Alias.text, arrayJoinRows, Bool.false_eq_true, if_false]
  rw [List.filter_eq_self.mpr (by intro r _; rfl)]
  clear henv
  induction T with
  | nil => rfl
  | cons r rs ih =>
    obtain ⟨tr, vs, h1, h2⟩ := hT r (by simp)
    have ih' := ih (fun x hx => hT x (List.mem_cons_of_mem _ hx))
    rw [pairsOf_cons r rs tr vs h1 h2]
    simp only [List.map_cons, List.flatMap_cons, List.map_append, ih']
    congr 1
    have hq : (qualify "index_grouped" r).get "span_id" = .strs vs := by rw [get_qualify_nodot _ _ _ sid_nodot, h2]
    rw [hq, List.map_map]
    apply List.map_congr_left
    intro v _
    simp [project, colName, evalE, Row.get, List.lookup]
    have := get_qualify_nodot "index_grouped" r "trace_id" tid_nodot
    simp only [Row.get] at this h1
    rw [this, h1]

/-! ### `traces_info` -/
def tracesInfoSel (c : Ctx) : Sel :=
  .mk [] false
    [simpleCol "traces.trace_id" "trace_id", .col (.call "min" [.raw "traces.timestamp_ns"]) "_start_time_unix_nano",
     simpleCol "toFloat64(max(traces.timestamp_ns + traces.duration_ns) - min(traces.timestamp_ns)) / 1000000" "_duration_ms",
     simpleCol "argMin(traces.service_name, traces.timestamp_ns)" "_root_service_name",
     simpleCol "argMin(traces.name, traces.timestamp_ns)" "_root_trace_name"]
    (some (.col (.raw c.tracesTable) "traces")) [] none
    (some (and_ [.isIn (.raw "traces.trace_id") [.withRef (.named "trace_ids")]]))
    [.raw "traces.trace_id"] none [] none

/-- a span-table row as the statement sees it: `FROM <table> as traces` -/
def srow (s : SpanRow) : Row := qualify "traces" s.row

theorem srow_qtrace (s : SpanRow) : (srow s).get "traces.trace_id" = .str s.traceId := by rfl
theorem srow_qspan (s : SpanRow) : (srow s).get "traces.span_id" = .str s.spanId := by rfl
theorem srow_qts (s : SpanRow) : (srow s).get "traces.timestamp_ns" = .int s.ts := by rfl
theorem srow_qdur (s : SpanRow) : (srow s).get "traces.duration_ns" = .int s.dur := by rfl

def infoRow (t : Bytes) (m : Int) : Row :=
  [("trace_id", .str t), ("_start_time_unix_nano", .int m), ("_duration_ms", .null), ("_root_service_name", .null),
   ("_root_trace_name", .null)]

theorem foldl_min_le (l : List Int) (x : Int) : l.foldl min x ≤ x ∧ ∀ y ∈ l, l.foldl min x ≤ y := by
  induction l generalizing x with
  | nil => simp
  | cons a as ih =>
    simp only [List.foldl_cons]
    obtain ⟨h1, h2⟩ := ih (min x a)
    refine ⟨Int.le_trans h1 (Int.min_le_left x a), ?_⟩
    intro y hy
    rcases List.mem_cons.mp hy with rfl | hy
    · exact Int.le_trans h1 (Int.min_le_right x y)
    · exact h2 y hy

theorem minInts_ints (l : List Int) (h : l ≠ []) : minInts (l.map Val.int) = some (listMin l) := by
  induction l with
  | nil => exact absurd rfl h
  | cons x xs ih =>
    cases xs with
    | nil => simp [minInts, listMin]
    | cons y ys =>
      have := ih (by simp)
      simp only [List.map_cons, minInts] at this ⊢
      rw [this]
      simp only [listMin, List.foldl_cons]
      congr 1
      -- min x (foldl min y ys) = foldl min (min x y) ys
      have key : ∀ (l : List Int) (a b : Int), min a (l.foldl min b) = l.foldl min (min a b) := by
        intro l
        induction l with
        | nil => intro a b; rfl
        | cons z zs ihz =>
          intro a b
          simp only [List.foldl_cons]
          rw [ihz a (min b z), Int.min_assoc]
      exact key ys x y

/-- the ids of the traces `index_grouped` returned -/
def tidsOf (K : List (Bytes × List Bytes)) : List Bytes := K.map (·.1)

/-- the start of a trace: of its earliest span in the span table -/
def traceStart (S : List SpanRow) (t : Bytes) : Int := listMin ((S.filter (fun s => s.traceId == t)).map (·.ts))

theorem firstCol_tids (K : List (Bytes × List Bytes)) :
    firstCol (K.map (fun k => [("trace_id", Val.str k.1)])) = (tidsOf K).map Val.str := by
  induction K with
  | nil => rfl
  | cons k ks ih => simp only [List.map_cons, firstCol, List.filterMap_cons, tidsOf] at ih ⊢; simp [ih]

theorem contains_map_str (l : List Bytes) (t : Bytes) : (l.map Val.str).contains (Val.str t) = l.contains t := by
  induction l with
  | nil => rfl
  | cons x xs ih => simp only [List.map_cons, List.contains_cons, ih, val_str_beq]

theorem traceInfo_eval (o : Oracles) (ao : AggOracles) (db : Db) (env : Env) (c : Ctx) (S : List SpanRow) (K : List (Bytes × List Bytes))
    (hdb : db c.tracesTable = S.map SpanRow.row) (T : Table)
    (henv : env.lookup (.named "trace_ids") = some T)
    (hT : ∀ t : Bytes, (firstCol T).contains (Val.str t) = (tidsOf K).contains t) :
    evalCteJ o ao db env (tracesInfoSel c) =
      (dedup ((S.filter (fun s => (tidsOf K).contains s.traceId)).map (·.traceId))).map (fun t => infoRow t (traceStart S t)) := by
  have hu : evalCteJ o ao db env (tracesInfoSel c) = evalBodyJ o ao db env (tracesInfoSel c) := by
    have : usesJ (tracesInfoSel c) = true := by simp [usesJ, tracesInfoSel, isJ, isJcall, simpleCol]
    simp [evalCteJ, this]
  rw [hu]
  simp only [tracesInfoSel, evalBodyJ, sourceRowsG, hdb, List.foldl_nil, optBJ, Bool.true_and, havingG, List.isEmpty_nil, if_true,
    limitG, List.map_map]
  have hsrc : List.map (qualify "traces" ∘ SpanRow.row) S = S.map srow := rfl
  rw [hsrc]
  have hf : (S.map srow).filter (fun r => evalBJ o env r (and_ [.isIn (.raw "traces.trace_id") [.withRef (.named "trace_ids")]])) =
      (S.filter (fun s => (tidsOf K).contains s.traceId)).map srow := by
    rw [List.filter_map]
    congr 1
    apply List.filter_congr
    intro s _
    simp only [Function.comp, and_, evalBJ, evalAllJ, if_true, Bool.and_true, evalB, evalE, henv, Option.getD_some,
      truthy_boolVal, srow_qtrace, hT]
  rw [hf]
  have hg := groups_of_records (S.filter (fun s => (tidsOf K).contains s.traceId)) srow (fun s => s.traceId) (fun t => [Val.str t])
    (fun r => [Expr.raw "traces.trace_id"].map (fun k => evalE o env r k))
    (by intro s; simp [evalE, srow_qtrace]) (by intro a b h; simpa using h)
  rw [hg, List.filter_eq_self.mpr (by intro g _; rfl), List.map_map]
  apply List.map_congr_left
  intro t ht
  simp only [Function.comp]
  -- the group of `t`: the rows of `t` that pass the filter = all rows of `t`
  have hmem : t ∈ (S.filter (fun s => (tidsOf K).contains s.traceId)).map (·.traceId) := (mem_dedup _ _).mp ht
  obtain ⟨s0, hs0, hs0t⟩ := List.mem_map.mp hmem
  have hs0' := List.mem_filter.mp hs0
  have hgrp : (S.filter (fun s => (tidsOf K).contains s.traceId)).filter (fun a => a.traceId == t) = S.filter (fun s => s.traceId == t) := by
    rw [List.filter_filter]
    apply List.filter_congr
    intro s _
    by_cases hst : s.traceId = t
    · have : (tidsOf K).contains s.traceId = true := by rw [hst, ← hs0t]; exact hs0'.2
      rw [this]; simp
    · simp [hst]
  rw [hgrp]
  have hne : S.filter (fun s => s.traceId == t) ≠ [] := by
    intro h0
    have : s0 ∈ S.filter (fun s => s.traceId == t) := List.mem_filter.mpr ⟨hs0'.1, by simp [hs0t]⟩
    rw [h0] at this; simp at this
  obtain ⟨s1, rest, hs1⟩ := List.ne_nil_iff_exists_cons.mp hne
  have hs1t : s1.traceId = t := by
    have : s1 ∈ S.filter (fun s => s.traceId == t) := by rw [hs1]; simp
    simpa using (List.mem_filter.mp this).2
  have hmin : minInts ((S.filter (fun s => s.traceId == t)).map (fun s => (srow s).get "traces.timestamp_ns")) = some (traceStart S t) := by
    have : (S.filter (fun s => s.traceId == t)).map (fun s => (srow s).get "traces.timestamp_ns") =
        ((S.filter (fun s => s.traceId == t)).map (·.ts)).map Val.int := by
      rw [List.map_map]; apply List.map_congr_left; intro s _; exact srow_qts s
    rw [this, minInts_ints _ (by simpa using hne)]
    rfl
  have hjunk : ∀ (txt a : String), (∀ s : SpanRow, (srow s).get txt = .null) →
      evalGrpJ o env ((S.filter (fun s => s.traceId == t)).map srow) (simpleCol txt a) = .null := by
    intro txt a hnull
    rw [hs1]
    simp [simpleCol, evalGrpJ, evalGrp, evalE, hnull]
  have h_a : evalGrpJ o env ((S.filter (fun s => s.traceId == t)).map srow) (simpleCol "traces.trace_id" "trace_id") = .str t := by
    rw [hs1]
    simp [simpleCol, evalGrpJ, evalGrp, evalE, srow_qtrace, hs1t]
  have h_b : evalGrpJ o env ((S.filter (fun s => s.traceId == t)).map srow) (.col (.call "min" [.raw "traces.timestamp_ns"]) "_start_time_unix_nano") =
      .int (traceStart S t) := by
    simp only [evalGrpJ, if_true, List.map_map, evalE]
    have : ((fun r : Row => r.get "traces.timestamp_ns") ∘ srow) = fun s => (srow s).get "traces.timestamp_ns" := rfl
    rw [this, hmin]
  simp only [infoRow, colName, List.map_cons, List.map_nil, h_a, h_b, simpleCol]
  have h_c := hjunk "toFloat64(max(traces.timestamp_ns + traces.duration_ns) - min(traces.timestamp_ns)) / 1000000" "_duration_ms" (fun _ => by rfl)
  have h_d := hjunk "argMin(traces.service_name, traces.timestamp_ns)" "_root_service_name" (fun _ => by rfl)
  have h_e := hjunk "argMin(traces.name, traces.timestamp_ns)" "_root_trace_name" (fun _ => by rfl)
  simp only [simpleCol] at h_a h_c h_d h_e
  rw [h_a, h_c, h_d, h_e]

/-! ### the body of the statement -/
def tracesCols : List Expr :=
  [.col (.call "lower" [.call "hex" [.raw "traces.trace_id"]]) "trace_id",
   .col (.call "arrayMap" [.raw "x -> lower(hex(x))", .call "groupArray" [.raw "traces.span_id"]]) "span_id",
   .col (.call "groupArray" [.raw "traces.duration_ns"]) "duration",
   .col (.call "groupArray" [.raw "traces.timestamp_ns"]) "timestamp_ns",
   .col (.call "min" [.raw "_start_time_unix_nano"]) "start_time_unix_nano",
   simpleCol "min(_duration_ms)" "duration_ms",
   simpleCol "min(_root_service_name)" "root_service_name",
   simpleCol "min(_root_trace_name)" "root_trace_name"]

def tracesWhere : Expr :=
  and_ [.isIn (.raw "traces.trace_id") [.withRef (.named "trace_ids")],
        .isIn (.call "" [.raw "traces.trace_id", .raw "traces.span_id"]) [.withRef (.named "trace_span_ids")]]

def tracesOn : Expr := eq (.raw "traces.trace_id") (.raw "traces_info.trace_id")

def tracesBody (table : String) (lim : Option Expr) : Sel :=
  .mk [] false tracesCols (some (.col (.raw table) "traces")) [("any left", .named "traces_info", tracesOn)] none
    (some tracesWhere) [.raw "traces.trace_id"] none [.orderBy (.raw "start_time_unix_nano") .desc] lim

/-- the (trace, span) pairs `index_grouped` selected -/
def pairsFlat (K : List (Bytes × List Bytes)) : List (Bytes × Bytes) := K.flatMap (fun k => k.2.map (fun v => (k.1, v)))

/-- the span-table rows the statement keeps -/
def keptSpans (K : List (Bytes × List Bytes)) (S : List SpanRow) : List SpanRow :=
  S.filter (fun s => (tidsOf K).contains s.traceId && (pairsFlat K).contains (s.traceId, s.spanId))

/-- a kept span-table row after the join with `traces_info` -/
def jrow (S : List SpanRow) (s : SpanRow) : Row := srow s ++ qualify "traces_info" (infoRow s.traceId (traceStart S s.traceId))

theorem firstTwo_pairs (K : List (Bytes × List Bytes)) :
    firstTwo (K.flatMap (fun k => k.2.map (fun v => [("trace_id", Val.str k.1), ("span_id", Val.str v)]))) =
      (pairsFlat K).map (fun p => (Val.str p.1, Val.str p.2)) := by
  induction K with
  | nil => rfl
  | cons k ks ih =>
    simp only [List.flatMap_cons, firstTwo, List.filterMap_append, pairsFlat, List.map_append] at ih ⊢
    rw [ih]
    congr 1
    induction k.2 with
    | nil => rfl
    | cons v vs ihv => simp [ihv]

theorem contains_map_pair (l : List (Bytes × Bytes)) (a b : Bytes) :
    (l.map (fun p => (Val.str p.1, Val.str p.2))).contains (Val.str a, Val.str b) = l.contains (a, b) := by
  induction l with
  | nil => rfl
  | cons x xs ih =>
    simp only [List.map_cons, List.contains_cons, ih]
    congr 1
    rw [Bool.eq_iff_iff]
    simp [Prod.ext_iff]

theorem find_map_key {κ} [DecidableEq κ] (ks : List κ) (f : κ → Row) (p : Row → Bool) (a : κ)
    (hp : ∀ k, p (f k) = decide (k = a)) : (ks.map f).find? p = if a ∈ ks then some (f a) else none := by
  induction ks with
  | nil => simp
  | cons k rest ih =>
    simp only [List.map_cons, List.find?_cons, hp k]
    by_cases hk : k = a
    · subst hk; simp
    · simp [hk, ih, Ne.symm hk]

theorem minInts_const {α} (l : List α) (m : Int) (h : l ≠ []) : minInts (l.map (fun _ => Val.int m)) = some m := by
  induction l with
  | nil => exact absurd rfl h
  | cons x xs ih =>
    cases xs with
    | nil => simp [minInts]
    | cons y ys =>
      have := ih (by simp)
      simp only [List.map_cons, minInts] at this ⊢
      rw [this]
      simp

def tidsTable (K : List (Bytes × List Bytes)) : Table := K.map (fun k => [("trace_id", Val.str k.1)])
def tsidsTable (K : List (Bytes × List Bytes)) : Table :=
  K.flatMap (fun k => k.2.map (fun v => [("trace_id", Val.str k.1), ("span_id", Val.str v)]))
def infoTable (K : List (Bytes × List Bytes)) (S : List SpanRow) : Table :=
  (dedup ((S.filter (fun s => (tidsOf K).contains s.traceId)).map (·.traceId))).map (fun t => infoRow t (traceStart S t))

/-- the environment the body of the statement is evaluated in -/
structure BodyEnv (env : Env) (K : List (Bytes × List Bytes)) (S : List SpanRow) : Prop where
  tids : ∃ T, env.lookup (.named "trace_ids") = some T ∧ ∀ t : Bytes, (firstCol T).contains (Val.str t) = (tidsOf K).contains t
  tsids : env.lookup (.named "trace_span_ids") = some (tsidsTable K)
  info : env.lookup (.named "traces_info") = some (infoTable K S)

theorem where_srow (o : Oracles) (env : Env) (K : List (Bytes × List Bytes)) (S : List SpanRow) (he : BodyEnv env K S)
    (s : SpanRow) (x : Row) :
    evalBJ o env (srow s ++ x) tracesWhere =
      ((tidsOf K).contains s.traceId && (pairsFlat K).contains (s.traceId, s.spanId)) := by
  have g1 : (srow s ++ x).get "traces.trace_id" = .str s.traceId := by rfl
  have g2 : (srow s ++ x).get "traces.span_id" = .str s.spanId := by rfl
  obtain ⟨T, hT1, hT2⟩ := he.tids
  simp only [tracesWhere, and_, evalBJ, evalAllJ, if_true, Bool.and_true, evalB, evalE, hT1, he.tsids, Option.getD_some,
    tsidsTable, firstTwo_pairs, truthy_boolVal, g1, g2, hT2, contains_map_pair]

theorem on_srow (o : Oracles) (env : Env) (S : List SpanRow) (s : SpanRow) (t : Bytes) (m : Int) :
    evalB o env (srow s ++ qualify "traces_info" (infoRow t m)) tracesOn = decide (t = s.traceId) := by
  have g1 : (srow s ++ qualify "traces_info" (infoRow t m)).get "traces.trace_id" = .str s.traceId := by rfl
  have g2 : (srow s ++ qualify "traces_info" (infoRow t m)).get "traces_info.trace_id" = .str t := by rfl
  simp only [tracesOn, eq, evalB, evalE, cmpOp, g1, g2, val_str_beq, show ("==" = "and") = False from by decide,
    show ("==" = "or") = False from by decide, if_false, truthy_boolVal]
  by_cases h : t = s.traceId
  · subst h; simp
  · rw [decide_eq_false h, beq_eq_false_iff_ne]; exact fun h' => h h'.symm

/-- FROM, ANY LEFT JOIN and WHERE of the body: the kept span-table rows, each with the start of its trace -/
theorem body_filtered (o : Oracles) (ao : AggOracles) (db : Db) (env : Env) (table : String) (K : List (Bytes × List Bytes))
    (S : List SpanRow) (hdb : db table = S.map SpanRow.row) (he : BodyEnv env K S) :
    (anyLeftJoinJ o env (sourceRowsG o ao db env (.col (.raw table) "traces")) (.named "traces_info") tracesOn).filter
        (fun r => optBJ o env r none && optBJ o env r (some tracesWhere)) =
      (keptSpans K S).map (jrow S) := by
  have hsrc : sourceRowsG o ao db env (.col (.raw table) "traces") = S.map srow := by
    simp [sourceRowsG, hdb, List.map_map, srow, Function.comp_def]
  rw [hsrc]
  simp only [anyLeftJoinJ, he.info, Option.getD_some, Alias.text, optBJ, Bool.true_and, List.map_map, List.filter_map]
  have hright : (infoTable K S).map (qualify "traces_info") =
      (dedup ((S.filter (fun s => (tidsOf K).contains s.traceId)).map (·.traceId))).map
        (fun t => qualify "traces_info" (infoRow t (traceStart S t))) := by
    simp [infoTable, List.map_map, Function.comp_def]
  rw [hright]
  have hJ : ∀ s : SpanRow, joinOneJ o env ((dedup ((S.filter (fun s => (tidsOf K).contains s.traceId)).map (·.traceId))).map
        (fun t => qualify "traces_info" (infoRow t (traceStart S t)))) tracesOn (srow s) =
      if s.traceId ∈ dedup ((S.filter (fun s => (tidsOf K).contains s.traceId)).map (·.traceId)) then jrow S s else srow s := by
    intro s
    unfold joinOneJ
    rw [find_map_key _ (fun t => qualify "traces_info" (infoRow t (traceStart S t))) _ s.traceId
      (fun t => on_srow o env S s t (traceStart S t))]
    by_cases hm : s.traceId ∈ dedup ((S.filter (fun s => (tidsOf K).contains s.traceId)).map (·.traceId))
    · simp only [hm, if_true]; rfl
    · simp only [hm, if_false]
  simp only [Function.comp_def, hJ]
  have hfilter : S.filter (fun s => evalBJ o env
      (if s.traceId ∈ dedup ((S.filter (fun s => (tidsOf K).contains s.traceId)).map (·.traceId)) then jrow S s else srow s) tracesWhere) =
      keptSpans K S := by
    unfold keptSpans
    apply List.filter_congr
    intro s _
    split
    · exact where_srow o env K S he s _
    · have := where_srow o env K S he s []
      simpa using this
  rw [hfilter]
  apply List.map_congr_left
  intro s hs
  have hk := (List.mem_filter.mp hs)
  have : s.traceId ∈ dedup ((S.filter (fun s => (tidsOf K).contains s.traceId)).map (·.traceId)) := by
    rw [mem_dedup]
    simp only [Bool.and_eq_true] at hk
    exact List.mem_map.mpr ⟨s, List.mem_filter.mpr ⟨hk.1, hk.2.1⟩, rfl⟩
  rw [if_pos this]

/-! ### grouping, ORDER BY, LIMIT -/
theorem insertBy_congr_on {α} (le le' : α → α → Bool) (x : α) (l : List α) (h : ∀ b ∈ l, le b x = le' b x) :
    insertBy le x l = insertBy le' x l := by
  induction l with
  | nil => rfl
  | cons y ys ih =>
    simp only [insertBy, h y (by simp), ih (fun b hb => h b (List.mem_cons_of_mem _ hb))]

theorem sortBy_congr_on {α} (le le' : α → α → Bool) (l : List α) (h : ∀ a ∈ l, ∀ b ∈ l, le a b = le' a b) :
    sortBy le l = sortBy le' l := by
  induction l with
  | nil => rfl
  | cons x xs ih =>
    have e1 : sortBy le (x :: xs) = insertBy le x (sortBy le xs) := by simp [sortBy]
    have e2 : sortBy le' (x :: xs) = insertBy le' x (sortBy le' xs) := by simp [sortBy]
    rw [e1, e2, ih (fun a ha b hb => h a (List.mem_cons_of_mem _ ha) b (List.mem_cons_of_mem _ hb))]
    apply insertBy_congr_on
    intro b hb
    exact h b (List.mem_cons_of_mem _ ((ListAux.mem_sortBy le' xs b).mp hb)) x (by simp)

theorem insertBy_map' {α β} (le : α → α → Bool) (le' : β → β → Bool) (f : α → β)
    (h : ∀ a b, le' (f a) (f b) = le a b) (x : α) (l : List α) :
    insertBy le' (f x) (l.map f) = (insertBy le x l).map f := by
  induction l with
  | nil => rfl
  | cons y ys ih =>
    simp only [List.map_cons, insertBy, h]
    split
    · simp [ih]
    · simp

theorem sortBy_map' {α β} (le : α → α → Bool) (le' : β → β → Bool) (f : α → β)
    (h : ∀ a b, le' (f a) (f b) = le a b) (l : List α) :
    sortBy le' (l.map f) = (sortBy le l).map f := by
  induction l with
  | nil => rfl
  | cons x l ih =>
    have e1 : sortBy le' ((x :: l).map f) = insertBy le' (f x) (sortBy le' (l.map f)) := by simp [sortBy]
    have e2 : sortBy le (x :: l) = insertBy le x (sortBy le l) := by simp [sortBy]
    rw [e1, e2, ih, insertBy_map' le le' f h]

theorem jrow_start (S : List SpanRow) (s : SpanRow) : (jrow S s).get "_start_time_unix_nano" = .int (traceStart S s.traceId) := by
  have : ∀ (t : Bytes) (m : Int), (srow s ++ qualify "traces_info" (infoRow t m)).get "_start_time_unix_nano" = .int m := by
    intro t m; simp [srow, qualify, infoRow, SpanRow.row, Row.get, List.lookup]
  exact this _ _
theorem jrow_qtrace (S : List SpanRow) (s : SpanRow) : (jrow S s).get "traces.trace_id" = .str s.traceId := by
  simp [jrow, srow, qualify, SpanRow.row, Row.get, List.lookup]
theorem jrow_qspan (S : List SpanRow) (s : SpanRow) : (jrow S s).get "traces.span_id" = .str s.spanId := by
  simp [jrow, srow, qualify, SpanRow.row, Row.get, List.lookup]
theorem jrow_qdur (S : List SpanRow) (s : SpanRow) : (jrow S s).get "traces.duration_ns" = .int s.dur := by
  simp [jrow, srow, qualify, SpanRow.row, Row.get, List.lookup]
theorem jrow_qts (S : List SpanRow) (s : SpanRow) : (jrow S s).get "traces.timestamp_ns" = .int s.ts := by
  simp [jrow, srow, qualify, SpanRow.row, Row.get, List.lookup]

/-- the returned trace built from the kept rows of trace `t` -/
def outOf (K : List (Bytes × List Bytes)) (S : List SpanRow) (t : Bytes) : TraceOut :=
  ⟨t, ((keptSpans K S).filter (fun s => s.traceId == t)).map (·.spanId), ((keptSpans K S).filter (fun s => s.traceId == t)).map (·.dur),
    ((keptSpans K S).filter (fun s => s.traceId == t)).map (·.ts), traceStart S t⟩

theorem assemble_eq (K : List (Bytes × List Bytes)) (S : List SpanRow) (n : Option Nat) :
    assemble K S n =
      (match n with
       | some n => (sortBy (fun a b => decide (b.start ≤ a.start)) ((dedup ((keptSpans K S).map (·.traceId))).map (outOf K S))).take n
       | none => sortBy (fun a b => decide (b.start ≤ a.start)) ((dedup ((keptSpans K S).map (·.traceId))).map (outOf K S))) := by
  rfl

/-- the group of trace `t` in the body -/
def bodyGroup (K : List (Bytes × List Bytes)) (S : List SpanRow) (t : Bytes) : List Row :=
  ((keptSpans K S).filter (fun s => s.traceId == t)).map (jrow S)

theorem arrOf_strs {α} (f : α → Bytes) (x : α) (xs : List α) : arrOf ((x :: xs).map (fun a => Val.str (f a))) = .strs ((x :: xs).map f) := by
  simp only [List.map_cons, arrOf]
  have := strsOf_map_str f (x :: xs)
  simp only [List.map_cons] at this
  rw [this]

theorem arrOf_ints {α} (f : α → Int) (x : α) (xs : List α) :
    arrOf ((x :: xs).map (fun a => Val.int (f a))) = .tuples ((x :: xs).map (fun a => [Atom.int (f a)])) := by
  simp only [List.map_cons, arrOf, intArr, List.filterMap_cons]
  congr 2
  induction xs with
  | nil => rfl
  | cons y ys ih => simp [ih]

theorem evalGrpJ_min (o : Oracles) (env : Env) (g : List Row) (e : Expr) (a : String) (m : Int)
    (hm : minInts (g.map (fun r => evalE o env r e)) = some m) :
    evalGrpJ o env g (.col (.call "min" [e]) a) = .int m := by
  simp [evalGrpJ, hm]

theorem evalGrpJ_groupArray (o : Oracles) (env : Env) (g : List Row) (e : Expr) (a : String) :
    evalGrpJ o env g (.col (.call "groupArray" [e]) a) = arrOf (g.map (fun r => evalE o env r e)) := by
  simp [evalGrpJ]

theorem evalGrpJ_arrayMap (o : Oracles) (env : Env) (g : List Row) (x e : Expr) (a : String) :
    evalGrpJ o env g (.col (.call "arrayMap" [x, .call "groupArray" [e]]) a) = arrOf (g.map (fun r => evalE o env r e)) := by
  simp [evalGrpJ]

theorem evalGrpJ_lowerhex (o : Oracles) (env : Env) (r : Row) (rs : List Row) (n a : String) :
    evalGrpJ o env (r :: rs) (.col (.call "lower" [.call "hex" [.raw n]]) a) = r.get n := by
  simp [evalGrpJ, evalGrp, evalE]

theorem bodyGroup_proj (o : Oracles) (env : Env) (K : List (Bytes × List Bytes)) (S : List SpanRow) (t : Bytes)
    (ht : t ∈ (keptSpans K S).map (·.traceId)) :
    (tracesCols.map (fun c => (colName c, evalGrpJ o env (bodyGroup K S t) c))).take 5 = (outOf K S t).row ∧
    evalGrpJ o env (bodyGroup K S t) (.col (.call "min" [.raw "_start_time_unix_nano"]) "start_time_unix_nano") = .int (traceStart S t) := by
  obtain ⟨s0, hs0, hs0t⟩ := List.mem_map.mp ht
  have hne : (keptSpans K S).filter (fun s => s.traceId == t) ≠ [] := by
    intro h0
    have : s0 ∈ (keptSpans K S).filter (fun s => s.traceId == t) := List.mem_filter.mpr ⟨hs0, by simp [hs0t]⟩
    rw [h0] at this; simp at this
  obtain ⟨s1, rest, hs1⟩ := List.ne_nil_iff_exists_cons.mp hne
  have hall : ∀ s ∈ s1 :: rest, s.traceId = t := by
    intro s hs
    rw [← hs1] at hs
    simpa using (List.mem_filter.mp hs).2
  have hbg : bodyGroup K S t = (s1 :: rest).map (jrow S) := by simp [bodyGroup, hs1]
  have h4 : evalGrpJ o env (bodyGroup K S t) (.col (.call "min" [.raw "_start_time_unix_nano"]) "start_time_unix_nano") = .int (traceStart S t) := by
    apply evalGrpJ_min
    rw [hbg, List.map_map]
    have : (s1 :: rest).map ((fun r => evalE o env r (.raw "_start_time_unix_nano")) ∘ jrow S) = (s1 :: rest).map (fun _ => Val.int (traceStart S t)) := by
      apply List.map_congr_left
      intro s hs
      simp only [Function.comp, evalE, jrow_start, hall s hs]
    rw [this, minInts_const _ _ (by simp)]
  refine ⟨?_, h4⟩
  have h0 : evalGrpJ o env (bodyGroup K S t) (.col (.call "lower" [.call "hex" [.raw "traces.trace_id"]]) "trace_id") = .str t := by
    rw [hbg, List.map_cons, evalGrpJ_lowerhex, jrow_qtrace, hall s1 (by simp)]
  have h1 : evalGrpJ o env (bodyGroup K S t) (.col (.call "arrayMap" [.raw "x -> lower(hex(x))", .call "groupArray" [.raw "traces.span_id"]]) "span_id") =
      .strs ((s1 :: rest).map (·.spanId)) := by
    rw [evalGrpJ_arrayMap, hbg, List.map_map]
    have : (s1 :: rest).map ((fun r => evalE o env r (.raw "traces.span_id")) ∘ jrow S) = (s1 :: rest).map (fun s => Val.str s.spanId) := by
      apply List.map_congr_left; intro s _; simp only [Function.comp, evalE, jrow_qspan]
    rw [this, arrOf_strs]
  have h2 : evalGrpJ o env (bodyGroup K S t) (.col (.call "groupArray" [.raw "traces.duration_ns"]) "duration") =
      .tuples ((s1 :: rest).map (fun s => [Atom.int s.dur])) := by
    rw [evalGrpJ_groupArray, hbg, List.map_map]
    have : (s1 :: rest).map ((fun r => evalE o env r (.raw "traces.duration_ns")) ∘ jrow S) = (s1 :: rest).map (fun s => Val.int s.dur) := by
      apply List.map_congr_left; intro s _; simp only [Function.comp, evalE, jrow_qdur]
    rw [this, arrOf_ints]
  have h3 : evalGrpJ o env (bodyGroup K S t) (.col (.call "groupArray" [.raw "traces.timestamp_ns"]) "timestamp_ns") =
      .tuples ((s1 :: rest).map (fun s => [Atom.int s.ts])) := by
    rw [evalGrpJ_groupArray, hbg, List.map_map]
    have : (s1 :: rest).map ((fun r => evalE o env r (.raw "traces.timestamp_ns")) ∘ jrow S) = (s1 :: rest).map (fun s => Val.int s.ts) := by
      apply List.map_congr_left; intro s _; simp only [Function.comp, evalE, jrow_qts]
    rw [this, arrOf_ints]
  simp only [tracesCols, List.map_cons, List.take_succ_cons, List.take_zero, colName, h0, h1, h2, h3, h4, TraceOut.row, outOf, hs1,
    List.map_map, Function.comp_def]

def limNat : Option Expr → Option Nat
  | some (.int n) => some n.toNat
  | _ => none

theorem limitG_limNat {α} (lim : Option Expr) (hl : lim = none ∨ ∃ n, lim = some (.int n)) (l : List α) :
    limitG lim l = (match limNat lim with | some n => l.take n | none => l) := by
  rcases hl with rfl | ⟨n, rfl⟩ <;> rfl

/-- **the body of the statement**: the kept span-table rows grouped per trace, newest trace start first, LIMIT -/
theorem body_eval (o : Oracles) (ao : AggOracles) (db : Db) (env : Env) (table : String) (K : List (Bytes × List Bytes))
    (S : List SpanRow) (hdb : db table = S.map SpanRow.row) (he : BodyEnv env K S) (lim : Option Expr)
    (hl : lim = none ∨ ∃ n, lim = some (.int n)) :
    (evalBodyJ o ao db env (tracesBody table lim)).map (fun r => r.take 5) = (assemble K S (limNat lim)).map TraceOut.row := by
  have hfil := body_filtered o ao db env table K S hdb he
  simp only [tracesBody, evalBodyJ, List.foldl_cons, List.foldl_nil, hfil, havingG, List.isEmpty_cons, Bool.false_eq_true, if_false]
  have hg := groups_of_records (keptSpans K S) (jrow S) (fun s => s.traceId) (fun t => [Val.str t])
    (fun r => [Expr.raw "traces.trace_id"].map (fun k => evalE o env r k))
    (by intro s; simp [evalE, jrow_qtrace]) (by intro a b h; simpa using h)
  rw [hg, List.filter_eq_self.mpr (by intro g _; rfl)]
  have hgrp : (dedup ((keptSpans K S).map (fun s => s.traceId))).map (fun k => ((keptSpans K S).filter (fun a => a.traceId == k)).map (jrow S)) =
      (dedup ((keptSpans K S).map (fun s => s.traceId))).map (bodyGroup K S) := rfl
  rw [hgrp, assemble_eq, limitG_limNat lim hl]
  generalize hkeys : dedup ((keptSpans K S).map (fun s => s.traceId)) = keys
  have hkm : ∀ t ∈ keys, t ∈ (keptSpans K S).map (·.traceId) := by intro t ht; rw [← hkeys] at ht; exact (mem_dedup _ _).mp ht
  -- the order
  have hle : ∀ a ∈ keys, ∀ b ∈ keys,
      grpLeJ o env tracesCols [.orderBy (.raw "start_time_unix_nano") .desc] (bodyGroup K S a) (bodyGroup K S b) =
        decide ((outOf K S b).start ≤ (outOf K S a).start) := by
    intro a ha b hb
    have ea := (bodyGroup_proj o env K S a (hkm a ha)).2
    have eb := (bodyGroup_proj o env K S b (hkm b hb)).2
    have hfind : tracesCols.find? (fun c => colName c == "start_time_unix_nano") =
        some (.col (.call "min" [.raw "_start_time_unix_nano"]) "start_time_unix_nano") := by
      simp [tracesCols, colName, simpleCol]
    simp only [grpLeJ, orderValJ, hfind, ea, eb, valLe, Val.cmpLe, outOf]
    by_cases h : traceStart S a = traceStart S b
    · simp [h]
    · have : (Val.int (traceStart S a) == Val.int (traceStart S b)) = false := by simp; exact h
      simp [this]
      congr
  have hs1 : sortBy (grpLeJ o env tracesCols [.orderBy (.raw "start_time_unix_nano") .desc]) (keys.map (bodyGroup K S)) =
      (sortBy (fun a b => grpLeJ o env tracesCols [.orderBy (.raw "start_time_unix_nano") .desc] (bodyGroup K S a) (bodyGroup K S b)) keys).map (bodyGroup K S) :=
    sortBy_map' _ _ _ (fun _ _ => rfl) keys
  have hs2 : sortBy (fun a b : TraceOut => decide (b.start ≤ a.start)) (keys.map (outOf K S)) =
      (sortBy (fun a b => decide ((outOf K S b).start ≤ (outOf K S a).start)) keys).map (outOf K S) :=
    sortBy_map' _ _ _ (fun _ _ => rfl) keys
  rw [hs1, hs2, sortBy_congr_on _ _ keys hle]
  generalize hsorted : sortBy (fun a b => decide ((outOf K S b).start ≤ (outOf K S a).start)) keys = sk
  have hskm : ∀ t ∈ sk, t ∈ keys := by intro t ht; rw [← hsorted] at ht; exact (ListAux.mem_sortBy _ _ _).mp ht
  have hproj : ∀ t ∈ sk, ((fun r : Row => r.take 5) ∘ (fun g => tracesCols.map (fun c => (colName c, evalGrpJ o env g c))) ∘ bodyGroup K S) t =
      (TraceOut.row ∘ outOf K S) t := by
    intro t ht
    exact (bodyGroup_proj o env K S t (hkm t (hskm t ht))).1
  cases hn : limNat lim with
  | none =>
    simp only [List.map_map]
    exact List.map_congr_left hproj
  | some n =>
    simp only [List.map_map, ← List.map_take]
    exact List.map_congr_left (fun t ht => hproj t (List.mem_of_mem_take ht))

/-! ### the statement `TracesDataPlanner` builds around `index_grouped` -/
def tracesTableOf (c : Ctx) : String := if c.isCluster then c.tracesDistTable else c.tracesTable

theorem tracesData_eq (c : Ctx) (main : Sel) :
    tracesData c main = (tracesBody (tracesTableOf c) none).with_
      [(.named "index_grouped", main), (.named "trace_ids", traceIdsSel), (.named "trace_span_ids", traceSpanIdsSel),
       (.named "traces_info", tracesInfoSel c)] := rfl

def limOf (c : Ctx) : Option Expr := if c.limit = 0 then none else some (.int c.limit)

theorem limOf_ok (c : Ctx) : limOf c = none ∨ ∃ n, limOf c = some (.int n) := by
  unfold limOf; split
  · exact Or.inl rfl
  · exact Or.inr ⟨_, rfl⟩

/-- the WITH list and the body of the whole statement, for an `index_grouped` select that brings at most the
    sub-query `index_search` with it -/
def NotReserved (a : Alias) : Prop :=
  a ≠ .named "index_grouped" ∧ a ≠ .named "trace_ids" ∧ a ≠ .named "trace_span_ids" ∧ a ≠ .named "traces_info"

theorem plan_shape (c : Ctx) (main : Sel)
    (hW : main.withs = [] ∨ ∃ a s, main.withs = [(a, s)] ∧ NotReserved a) :
    ∃ ws, indexLimit c (tracesData c main) = (tracesBody (tracesTableOf c) (limOf c)).setWiths ws ∧
      ws = main.withs ++ [(.named "index_grouped", main), (.named "trace_ids", traceIdsSel), (.named "trace_span_ids", traceSpanIdsSel),
        (.named "traces_info", tracesInfoSel c)] := by
  refine ⟨_, ?_, rfl⟩
  rw [tracesData_eq]
  have hwith : (tracesBody (tracesTableOf c) none).with_
      [(.named "index_grouped", main), (.named "trace_ids", traceIdsSel), (.named "trace_span_ids", traceSpanIdsSel),
       (.named "traces_info", tracesInfoSel c)] =
      (tracesBody (tracesTableOf c) none).setWiths (main.withs ++ [(.named "index_grouped", main), (.named "trace_ids", traceIdsSel),
        (.named "trace_span_ids", traceSpanIdsSel), (.named "traces_info", tracesInfoSel c)]) := by
    have w1 : traceIdsSel.withs = [] := rfl
    have w2 : traceSpanIdsSel.withs = [] := rfl
    have w3 : (tracesInfoSel c).withs = [] := rfl
    rcases hW with h0 | ⟨a, s, h0, n1, n2, n3, n4⟩
    · simp (config := { decide := true }) [Sel.with_, addWith1, hasAlias, h0, w1, w2, w3]
    · simp (config := { decide := true }) [Sel.with_, addWith1, hasAlias, h0, w1, w2, w3, n1, n2, n3, n4]
  rw [hwith]
  unfold indexLimit limOf
  split <;> rfl

theorem evalBodyJ_setWiths (o : Oracles) (ao : AggOracles) (db : Db) (env : Env) (s : Sel) (ws : List (Alias × Sel)) :
    evalBodyJ o ao db env (s.setWiths ws) = evalBodyJ o ao db env s := by
  obtain ⟨w, d, c, f, j, p, wh, g, h, ob, l⟩ := s; rfl

theorem selWiths_setWiths (s : Sel) (ws : List (Alias × Sel)) : selWiths (s.setWiths ws) = ws := by
  obtain ⟨w, d, c, f, j, p, wh, g, h, ob, l⟩ := s; rfl

theorem usesJ_tracesBody (table : String) (lim : Option Expr) (ws : List (Alias × Sel)) :
    usesJ ((tracesBody table lim).setWiths ws) = true := by
  simp [tracesBody, Sel.setWiths, usesJ]

theorem evalWithsJ_append (o : Oracles) (ao : AggOracles) (db : Db) (env : Env) (ws vs : List (Alias × Sel)) :
    evalWithsJ o ao db env (ws ++ vs) = evalWithsJ o ao db (evalWithsJ o ao db env ws) vs := by
  induction ws generalizing env with
  | nil => simp [evalWithsJ]
  | cons w ws ih => obtain ⟨a, s⟩ := w; simp [evalWithsJ, ih]

/-- **the whole statement given `index_grouped`**: if the sub-queries in front of `index_grouped` evaluate to `env1`
    and `index_grouped` in that scope to the trace rows `T`, the rows of the statement are `assemble` of the pairs of `T` -/
theorem stmt_eval (o : Oracles) (ao : AggOracles) (db : Db) (c : Ctx) (main : Sel) (S : List SpanRow)
    (hdb : db (tracesTableOf c) = S.map SpanRow.row) (hdb2 : db c.tracesTable = S.map SpanRow.row)
    (hW : main.withs = [] ∨ ∃ a s, main.withs = [(a, s)] ∧ NotReserved a)
    (T : Table) (hT : TraceShaped T)
    (hmain : evalCteJ o ao db (evalWithsJ o ao db [] main.withs) main = T) :
    (evalStmtJ o ao db (indexLimit c (tracesData c main))).map (fun r => r.take 5) =
      (assemble (pairsOf T) S (limNat (limOf c))).map TraceOut.row := by
  obtain ⟨ws, hS, hws⟩ := plan_shape c main hW
  rw [hS]
  unfold evalStmtJ
  rw [selWiths_setWiths, evalCteJ, usesJ_tracesBody, if_pos rfl, evalBodyJ_setWiths, hws, evalWithsJ_append]
  generalize evalWithsJ o ao db [] main.withs = env1 at hmain ⊢
  simp only [evalWithsJ, hmain]
  have e1 := traceIds_eval o ao db ((.named "index_grouped", T) :: env1) T (by rfl) hT
  rw [e1]
  have e2 := traceSpanIds_eval o ao db ((.named "trace_ids", (pairsOf T).map (fun k => [("trace_id", Val.str k.1)])) :: (.named "index_grouped", T) :: env1) T
    (by rfl) hT
  rw [e2]
  have e3 := traceInfo_eval o ao db
    ((.named "trace_span_ids", (pairsOf T).flatMap (fun k => k.2.map (fun v => [("trace_id", Val.str k.1), ("span_id", Val.str v)]))) ::
      (.named "trace_ids", (pairsOf T).map (fun k => [("trace_id", Val.str k.1)])) :: (.named "index_grouped", T) :: env1) c S (pairsOf T) hdb2
    ((pairsOf T).map (fun k => [("trace_id", Val.str k.1)])) (by rfl) (fun t => by rw [firstCol_tids, contains_map_str])
  rw [e3]
  exact body_eval o ao db _ (tracesTableOf c) (pairsOf T) S hdb
    ⟨⟨_, by rfl, fun t => by rw [firstCol_tids, contains_map_str]⟩, by rfl, by rfl⟩ (limOf c) (limOf_ok c)

end Qryn.TraceQL
