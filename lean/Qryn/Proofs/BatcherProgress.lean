import Qryn.Proofs.BatcherCount
/-! Progress of one sub-service (`C01.resolve_eventually`): a potential that calm activity never raises and
    that the five designated environment steps lower to zero. -/
namespace Qryn.Ingest.Batcher

def inWaiting (s : Svc) (id : ReqId) : Bool :=
  match s.inflight with
  | some q => q.waiting.contains id
  | none => false

/-- how far a promise is from completion, from: queued?, a portion in flight?, flush planned?, client?,
    in the portion in flight? — 0 gone, 1 in flight, 2 ready to swap, 3 needs a client, 4 needs a trigger,
    5 queued behind a portion in flight -/
def phaseOf : Bool → Bool → Bool → Bool → Bool → Nat
  | true, true, _, _, _ => 5
  | true, false, false, _, _ => 4
  | true, false, true, false, _ => 3
  | true, false, true, true, _ => 2
  | false, _, _, _, true => 1
  | false, _, _, _, false => 0

def phase (s : Svc) (id : ReqId) : Nat :=
  phaseOf (s.pending.contains id) s.inflight.isSome s.flushPlanned s.client (inWaiting s id)

/-- the sub-service is up, its columns are in place and queued promises have an accounted size -/
def Alive (p : Plan) (s : Svc) : Prop :=
  s.plan = p ∧ s.crashed = false ∧ s.running = true ∧ s.cols.isSome = true ∧ (s.pending ≠ [] → 0 < s.size)

theorem phaseOf_mono (pd inf fl cl w fl' cl' : Bool) (h3 : fl = true → fl' = true) (h4 : cl = true → cl' = true) :
    phaseOf pd inf fl' cl' w ≤ phaseOf pd inf fl cl w := by
  cases pd <;> cases inf <;> cases fl <;> cases cl <;> cases w <;> cases fl' <;> cases cl' <;> simp_all [phaseOf]

theorem phase_mono {s s' : Svc} {id : ReqId} (h1 : s'.inflight = s.inflight)
    (h2 : s'.pending.contains id = s.pending.contains id)
    (h3 : s.flushPlanned = true → s'.flushPlanned = true) (h4 : s.client = true → s'.client = true) :
    phase s' id ≤ phase s id := by
  unfold phase inWaiting
  rw [h1, h2]
  exact phaseOf_mono _ _ _ _ _ _ _ h3 h4

theorem phaseOf_zero {pd inf fl cl w : Bool} (h : phaseOf pd inf fl cl w = 0) : pd = false ∧ w = false := by
  cases pd <;> cases inf <;> cases fl <;> cases cl <;> cases w <;> simp_all [phaseOf]

theorem phase_zero_not_live {s : Svc} {id : ReqId} (h : phase s id = 0) : id ∉ live s := by
  obtain ⟨hp, hw⟩ := phaseOf_zero h
  intro hl
  simp only [live, List.mem_append] at hl
  have hnp : id ∉ s.pending := by simpa using hp
  rcases hl with hl | hl
  · exact hnp hl
  · unfold inWaiting at hw
    cases hq : s.inflight with
    | none => simp [hq] at hl
    | some q =>
      simp only [hq] at hl hw
      have : q.waiting.contains id = true := by simpa using hl
      rw [this] at hw; cases hw

/-- calm activity keeps the sub-service alive and never moves the promise backwards -/
theorem step_calm {p : Plan} {id : ReqId} (s : Svc) (op : Op) (hA : Alive p s) (hC : Calm p id op) :
    Alive p (step s op).1 ∧ phase (step s op).1 id ≤ phase s id := by
  obtain ⟨hplan, hcr, hrun, hcols, hsz⟩ := hA
  cases op with
  | request r =>
    rw [step_request s r hcr]
    obtain ⟨hid, hsize, hty, hnf⟩ := hC
    obtain ⟨cs, hc⟩ := Option.isSome_iff_exists.mp hcols
    have hpr : processRequest s.plan r s.cols = .ok ⟨(colData (applySteps r p.steps cs) p.countCol).length - (colData cs p.countCol).length,
        some (applySteps r p.steps cs), false⟩ := by
      rw [hplan]
      rcases processRequest_cases p r s.cols with ⟨h, _⟩ | ⟨_, h, _⟩ | ⟨_, cs', _, hf, _⟩ | ⟨_, cs', hcs', _, hpr⟩
      · exact absurd hty h
      · rw [hc] at h; cases h
      · rw [hnf] at hf; cases hf
      · rw [hc] at hcs'; cases hcs'; exact hpr
    rcases stepRequest_cases s r with ⟨h, _⟩ | ⟨_, f, hres, _⟩ | ⟨_, res, hres, _, he⟩ | ⟨_, res, hres, _, he⟩
    · rw [hrun] at h; cases h
    · rw [hpr] at hres; cases hres
    · rw [hpr] at hres; cases hres
      rw [he]
      exact ⟨⟨hplan, hcr, hrun, rfl, hsz⟩, phase_mono rfl rfl (fun h => h) (fun h => h)⟩
    · rw [hpr] at hres; cases hres
      rw [he]
      refine ⟨⟨hplan, hcr, hrun, rfl, fun _ => by show 0 < s.size + r.size; omega⟩, phase_mono rfl ?_ ?_ (fun h => h)⟩
      · show (s.pending ++ [r.id]).contains id = s.pending.contains id
        have : ¬ id = r.id := fun h => hid h.symm
        simp [List.contains_eq_mem, this]
      · intro h; show (s.flushPlanned || _) = true; simp [h]
  | trigger k =>
    rw [step_trigger s k hcr]
    exact ⟨⟨hplan, hcr, hrun, hcols, hsz⟩, phase_mono rfl rfl (fun _ => rfl) (fun h => h)⟩
  | connect ok =>
    rw [step_connect s ok hcr]
    unfold stepConnect
    by_cases h : (s.running && s.flushPlanned && !s.client && s.inflight.isNone) = true
    · simp only [h, if_true]
      refine ⟨⟨hplan, hcr, hrun, hcols, hsz⟩, phase_mono rfl rfl (fun h => h) ?_⟩
      intro hc
      simp [hc] at h
    · simp only [h]; exact ⟨⟨hplan, hcr, hrun, hcols, hsz⟩, Nat.le_refl _⟩
  | swap =>
    rw [step_swap s hcr]
    unfold stepSwap
    by_cases h : (s.running && s.flushPlanned && s.client && s.inflight.isNone) = true
    · simp only [h, if_true]
      have hn : s.inflight = none := by
        simp only [Bool.and_eq_true, Option.isNone_iff_eq_none] at h; exact h.2
      by_cases hz : s.size = 0
      · simp only [hz, if_true]
        have hpe : s.pending = [] := by
          rcases hp : s.pending with _ | ⟨a, t⟩
          · rfl
          · have := hsz (by rw [hp]; simp); omega
        refine ⟨⟨hplan, hcr, hrun, hcols, fun h => absurd hpe h⟩, ?_⟩
        show phaseOf (s.pending.contains id) s.inflight.isSome false s.client (inWaiting s id) ≤ phase s id
        unfold phase
        rw [hpe]
        cases s.inflight.isSome <;> cases s.flushPlanned <;> cases s.client <;> cases inWaiting s id <;>
          simp [phaseOf]
      · obtain ⟨cs, hc⟩ := Option.isSome_iff_exists.mp hcols
        simp only [hz, if_false, hc]
        refine ⟨⟨hplan, hcr, hrun, rfl, fun h => absurd rfl h⟩, ?_⟩
        show phaseOf false true false s.client (s.pending.contains id) ≤
          phaseOf (s.pending.contains id) s.inflight.isSome s.flushPlanned s.client (inWaiting s id)
        rw [hn]
        cases s.pending.contains id <;> cases s.flushPlanned <;> cases s.client <;> simp [phaseOf]
    · simp only [h]; exact ⟨⟨hplan, hcr, hrun, hcols, hsz⟩, Nat.le_refl _⟩
  | doResult o =>
    rw [step_doResult s o hcr]
    unfold stepDoResult
    cases hq : s.inflight with
    | none => exact ⟨⟨hplan, hcr, hrun, hcols, hsz⟩, Nat.le_refl _⟩
    | some q =>
      refine ⟨⟨hplan, hcr, hrun, hcols, hsz⟩, ?_⟩
      show phaseOf (s.pending.contains id) false s.flushPlanned (o == .ok) false ≤
        phaseOf (s.pending.contains id) s.inflight.isSome s.flushPlanned s.client (inWaiting s id)
      rw [hq]
      cases s.pending.contains id <;> cases s.flushPlanned <;> cases s.client <;> cases (o == Outcome.ok) <;>
        cases inWaiting s id <;> simp [phaseOf]
  | ping ok =>
    rw [step_ping s ok hcr]
    unfold stepPing
    have : ok = true := hC
    subst this
    simp only [Bool.not_true, Bool.and_false, Bool.false_eq_true, if_false]
    exact ⟨⟨hplan, hcr, hrun, hcols, hsz⟩, Nat.le_refl _⟩
  | stop => exact absurd hC (by simp [Calm])

theorem run_append (s : Svc) (a b : List Op) :
    run s (a ++ b) = ((run (run s a).1 b).1, (run s a).2 ++ (run (run s a).1 b).2) := by
  induction a generalizing s with
  | nil => simp [run]
  | cons op a ih => simp only [List.cons_append, run, ih, List.append_assoc]

theorem run_calm {p : Plan} {id : ReqId} (ops : List Op) (s : Svc) (hA : Alive p s) (hC : ∀ op ∈ ops, Calm p id op) :
    Alive p (run s ops).1 ∧ phase (run s ops).1 id ≤ phase s id := by
  induction ops generalizing s with
  | nil => exact ⟨hA, Nat.le_refl _⟩
  | cons op ops ih =>
    simp only [run]
    have h1 := step_calm s op hA (hC op (by simp))
    have h2 := ih _ h1.1 (fun o ho => hC o (by simp [ho]))
    exact ⟨h2.1, Nat.le_trans h2.2 h1.2⟩

/-! the five designated steps -/

theorem prog5 {p : Plan} {id : ReqId} (s : Svc) (o : Outcome) (hA : Alive p s) : phase (step s (.doResult o)).1 id ≤ 4 := by
  obtain ⟨_, hcr, _, _, _⟩ := hA
  rw [step_doResult s o hcr]
  unfold stepDoResult
  cases hq : s.inflight with
  | none =>
    show phaseOf (s.pending.contains id) s.inflight.isSome s.flushPlanned s.client (inWaiting s id) ≤ 4
    rw [hq]
    cases s.pending.contains id <;> cases s.flushPlanned <;> cases s.client <;> cases inWaiting s id <;> simp [phaseOf]
  | some q =>
    show phaseOf (s.pending.contains id) false s.flushPlanned (o == .ok) false ≤ 4
    cases s.pending.contains id <;> cases s.flushPlanned <;> cases (o == Outcome.ok) <;> simp [phaseOf]

theorem prog4 {p : Plan} {id : ReqId} (s : Svc) (k : Trigger) (hA : Alive p s) (h : phase s id ≤ 4) :
    phase (step s (.trigger k)).1 id ≤ 3 := by
  obtain ⟨_, hcr, _, _, _⟩ := hA
  rw [step_trigger s k hcr]
  show phaseOf (s.pending.contains id) s.inflight.isSome true s.client (inWaiting s id) ≤ 3
  unfold phase at h
  revert h
  cases s.pending.contains id <;> cases s.inflight.isSome <;> cases s.flushPlanned <;> cases s.client <;>
    cases inWaiting s id <;> simp [phaseOf]

theorem prog3 {p : Plan} {id : ReqId} (s : Svc) (hA : Alive p s) (h : phase s id ≤ 3) :
    phase (step s (.connect true)).1 id ≤ 2 := by
  obtain ⟨_, hcr, hrun, _, _⟩ := hA
  rw [step_connect s true hcr]
  unfold stepConnect
  unfold phase at h
  by_cases hc : (s.running && s.flushPlanned && !s.client && s.inflight.isNone) = true
  · simp only [hc, if_true]
    show phaseOf (s.pending.contains id) s.inflight.isSome s.flushPlanned true (inWaiting s id) ≤ 2
    revert h
    cases s.pending.contains id <;> cases s.inflight.isSome <;> cases s.flushPlanned <;> cases s.client <;>
      cases inWaiting s id <;> simp [phaseOf]
  · simp only [hc]
    show phaseOf (s.pending.contains id) s.inflight.isSome s.flushPlanned s.client (inWaiting s id) ≤ 2
    rw [hrun] at hc
    revert h hc
    cases hi : s.inflight <;> cases s.pending.contains id <;> cases s.flushPlanned <;> cases s.client <;>
      cases inWaiting s id <;> simp [phaseOf]

theorem prog2 {p : Plan} {id : ReqId} (s : Svc) (hA : Alive p s) (h : phase s id ≤ 2) :
    phase (step s .swap).1 id ≤ 1 := by
  have hmono := (step_calm (p := p) (id := id) s .swap hA trivial).2
  obtain ⟨_, hcr, hrun, hcols, hsz⟩ := hA
  cases hp : s.pending.contains id with
  | false =>
    have h0 : phase s id ≤ 1 := by
      unfold phase; rw [hp]
      cases s.inflight.isSome <;> cases s.flushPlanned <;> cases s.client <;> cases inWaiting s id <;> simp [phaseOf]
    omega
  | true =>
    have hne : s.pending ≠ [] := by
      intro he; rw [he] at hp; simp at hp
    have hpos := hsz hne
    obtain ⟨cs, hc⟩ := Option.isSome_iff_exists.mp hcols
    -- phase ≤ 2 with the promise queued: nothing in flight, flush planned, client present
    unfold phase at h
    rw [hp] at h
    have hst : s.inflight.isSome = false ∧ s.flushPlanned = true ∧ s.client = true := by
      revert h
      cases s.inflight.isSome <;> cases s.flushPlanned <;> cases s.client <;> simp [phaseOf]
    have hn : s.inflight = none := by
      cases hi : s.inflight with
      | none => rfl
      | some q => rw [hi] at hst; simp at hst
    rw [step_swap s hcr]
    unfold stepSwap
    have hz : ¬ s.size = 0 := by omega
    simp only [hrun, hst.2.1, hst.2.2, hn, Option.isNone_none, Bool.and_self, if_true, hz, if_false, hc]
    show phaseOf false true false true (s.pending.contains id) ≤ 1
    rw [hp]; simp [phaseOf]

theorem prog1 {p : Plan} {id : ReqId} (s : Svc) (o : Outcome) (hA : Alive p s) (h : phase s id ≤ 1) :
    phase (step s (.doResult o)).1 id = 0 := by
  obtain ⟨_, hcr, _, _, _⟩ := hA
  rw [step_doResult s o hcr]
  unfold stepDoResult
  unfold phase at h
  cases hq : s.inflight with
  | none =>
    show phaseOf (s.pending.contains id) s.inflight.isSome s.flushPlanned s.client (inWaiting s id) = 0
    have : inWaiting s id = false := by simp [inWaiting, hq]
    rw [this] at h ⊢
    revert h
    cases s.pending.contains id <;> cases s.inflight.isSome <;> cases s.flushPlanned <;> cases s.client <;> simp [phaseOf]
  | some q =>
    show phaseOf (s.pending.contains id) false s.flushPlanned (o == .ok) false = 0
    rw [hq] at h
    revert h
    cases s.pending.contains id <;> cases s.flushPlanned <;> cases s.client <;> cases (o == Outcome.ok) <;>
      cases inWaiting s id <;> simp [phaseOf]

end Qryn.Ingest.Batcher
