import Qryn.Prof.PlannersSegs
import Qryn.Proofs.SelectorClosed
import Qryn.Proofs.WfBuild
/-! C10 for every Pyroscope statement of `Prof/Planners.lean`, over the segment view of `Prof/PlannersSegs.lean`:

    * closedness: for EVERY planner context whose five table names are closed text (`PCtxOK`), every selector request whose
      conditions carry closed operators / field expressions (`PQueryOK`; `Prof.plan` gives it for every selector list:
      `plan_queryOK`), every list of global conditions of that kind, every `group_by` / `label_names` list, type id, step,
      limit, label — the segment list is well formed for its leaves (`PX`, hence `safeSegs .normal`);
    * the tie to the `Sel` models: `renderSegs (…B …).segs = renderSel (Prof.… …)` when the strings the model routes through
      `utf8` survive it (`Utf8OK`) and the operator / field texts are ASCII (`PCond.okU`). -/
namespace Qryn.Prof
open Qryn Qryn.Sql Qryn.Lex Qryn.Prom

/-! ### lists of expression-like segment lists -/
theorem PEs_nil : ∀ y ∈ ([] : List (List Seg)), PE y := by intro y hy; cases hy
theorem PEs_cons {x : List Seg} {xs : List (List Seg)} (hx : PE x) (hxs : ∀ y ∈ xs, PE y) : ∀ y ∈ x :: xs, PE y := by
  intro y hy
  rcases List.mem_cons.mp hy with rfl | hy
  · exact hx
  · exact hxs y hy
theorem PEs_append {xs ys : List (List Seg)} (hx : ∀ x ∈ xs, PE x) (hy : ∀ x ∈ ys, PE x) : ∀ x ∈ xs ++ ys, PE x := by
  intro x h
  rcases List.mem_append.mp h with h | h
  · exact hx x h
  · exact hy x h
theorem PEs_ite {p : Prop} [Decidable p] {xs ys : List (List Seg)} (hx : ∀ x ∈ xs, PE x) (hy : ∀ x ∈ ys, PE x) :
    ∀ x ∈ (if p then xs else ys), PE x := by
  split
  · exact hx
  · exact hy

theorem PE.appendPX {x y : List Seg} (hx : PE x) (hy : PX y) : PE (x ++ y) := fun q hq => by
  have h1 := hx q hq
  have h2 := hy _ h1.2
  simp [safeSegs_append, runSegs_append_fst, h1.1, h2.1, h2.2]

theorem wfExprs_of_all : ∀ es : List Expr, (∀ e ∈ es, wfExpr e = true) → wfExprs es = true
  | [], _ => by simp [wfExprs]
  | e :: es, h => by
    simp only [wfExprs, Bool.and_eq_true]
    exact ⟨h e (by simp), wfExprs_of_all es (fun x hx => h x (by simp [hx]))⟩

theorem PEs_exprs (es : List Expr) (h : ∀ e ∈ es, wfExpr e = true) : ∀ x ∈ es.map segsExpr, PE x :=
  PE_of_mem_map (fun e he => closedExpr e (h e he))

/-! ### the combinators -/
theorem PC_parB {x : List Seg} (h : PE x) : PC (parB x) := PC.wrap (PC_raw kw_open) h (PC_raw kw_close)

theorem PE_logicalB {fn : String} (hf : rawC (b " " ++ b fn ++ b " ") = true) {xs : List (List Seg)} (h : ∀ x ∈ xs, PE x) :
    PE (logicalB fn xs) :=
  PE_joinS (PC_raw hf) _ (PE_of_mem_map (fun x hx => (PC_parB (h x hx)).toPE))

theorem kw_eqeq : rawC (b " " ++ b "==" ++ b " ") = true := by decide +kernel

theorem PEs_shiftB : ∀ (i : Nat) (xs : List (List Seg)), (∀ x ∈ xs, PE x) → ∀ y ∈ shiftB i xs, PE y
  | _, [], _ => by simp [shiftB]
  | i, x :: xs, h => by
    intro y hy
    simp only [shiftB, List.mem_cons] at hy
    rcases hy with rfl | hy
    · exact (PC.wrap (PC_raw kw_shift) (h x (by simp)) (PC_raw (rawC_wrap kw_closeComma (rawE_natDigits i) kw_close))).toPE
    · exact PEs_shiftB (i + 1) xs (fun z hz => h z (by simp [hz])) y hy

theorem PE_bitSetAndB {xs : List (List Seg)} (h : ∀ x ∈ xs, PE x) : PE (bitSetAndB xs) :=
  (PC.wrap (PC_raw kw_gbo) (PE_joinS (PC_raw kw_plus) _ (PEs_shiftB 0 xs h)) (PC_raw kw_close)).toPE

theorem PE_colB {x : List Seg} {a : String} (hx : PE x) (ha : rawC (b " as " ++ b a) = true) : PE (colB x a) :=
  PE.appendPC hx (PC_raw ha)

theorem PX_selBodyB {d : Bool} {cols : List (List Seg)} {fr wh : Option (List Seg)} {gb : List (List Seg)}
    {hv : Option (List Seg)} {ob : List (List Seg)} {lim : Option (List Seg)}
    (hc : ∀ x ∈ cols, PE x) (hf : ∀ f, fr = some f → PE f) (hw : ∀ p, wh = some p → PE p) (hg : ∀ x ∈ gb, PE x)
    (hh : ∀ p, hv = some p → PE p) (ho : ∀ x ∈ ob, PE x) (hl : ∀ p, lim = some p → PE p) :
    PX (selBodyB d cols fr wh gb hv ob lim) := by
  unfold selBodyB
  refine PX.append (PX.append (PX.append (PX.append (PX.append (PX.append ?h1 ?h2) ?h4) ?h5) ?h6) ?h7) ?h8
  case h1 =>
    refine PC.appendPE (PC_raw ?_) (PE_joinS (PC_raw kw_commaSp) _ hc)
    cases d
    · exact kw_select
    · exact kw_selectDistinct
  case h2 =>
    cases fr with
    | none => exact PX_nil
    | some f => exact PC.appendPE (PC_raw kw_from) (hf f rfl)
  case h4 =>
    cases wh with
    | none => exact PX_nil
    | some p => exact PC.appendPE (PC_raw kw_where) (hw p rfl)
  case h5 =>
    by_cases hgb : gb.isEmpty = true
    · simpa [hgb] using PX_nil
    · simpa [hgb] using PC.appendPE (PC_raw kw_groupBy) (PE_joinS (PC_raw kw_commaSp) _ hg)
  case h6 =>
    cases hv with
    | none => exact PX_nil
    | some p => exact PC.appendPE (PC_raw kw_having) (hh p rfl)
  case h7 =>
    by_cases hob : ob.isEmpty = true
    · simpa [hob] using PX_nil
    · simpa [hob] using PC.appendPE (PC_raw kw_orderBy) (PE_joinS (PC_raw kw_commaSp) _ ho)
  case h8 =>
    cases lim with
    | none => exact PX_nil
    | some p => exact PC.appendPE (PC_raw kw_limit) (hl p rfl)

theorem none_PE : ∀ p : List Seg, (none : Option (List Seg)) = some p → PE p := by intro p h; cases h
theorem some_PE {x : List Seg} (hx : PE x) : ∀ p : List Seg, some x = some p → PE p := by
  intro p h; cases h; exact hx

/-- a WITH entry: a closed alias and a well-formed body -/
def withOKB (w : String × List Seg) : Prop := rawC (b w.1 ++ b " as (") = true ∧ PX w.2

theorem PE_withB {w : String × List Seg} (h : withOKB w) : PE (withB w) :=
  (PC.wrap (PC_raw h.1) h.2.toPE (PC_raw kw_close)).toPE

/-- every WITH entry and the body are well formed -/
def StB.OK (s : StB) : Prop := (∀ w ∈ s.withs, withOKB w) ∧ PX s.body

theorem StB.closed (s : StB) (h : s.OK) : PX s.segs := by
  unfold StB.segs
  by_cases hw : s.withs.isEmpty = true
  · simpa [hw] using h.2
  · have hj := PE_joinS (PC_raw kw_comma) _ (PE_of_mem_map (fun w hwm => PE_withB (h.1 w hwm)))
    have := PX.append (PC.appendPE (PC_raw kw_with) hj) h.2
    simpa [hw, List.append_assoc] using this

theorem StB.OK_under {inner : StB} {alias : String} {body : List Seg} (hi : inner.OK)
    (ha : rawC (b alias ++ b " as (") = true) (hb : PX body) : (inner.under alias body).OK := by
  refine ⟨?_, hb⟩
  intro w hw
  simp only [StB.under, List.mem_append, List.mem_singleton] at hw
  rcases hw with hw | rfl
  · exact hi.1 w hw
  · exact ⟨ha, hi.2⟩

theorem kw_unionOpen (alias : String) (ha : rawC (b alias ++ b " as (") = true) : rawC (b alias ++ b " as ((") = true := by
  have h : b " as ((" = b " as (" ++ b "(" := by decide +kernel
  rw [h, ← List.append_assoc]
  exact rawC_append ha kw_open
theorem kw_unionSep : rawC (b ") UNION ALL (") = true := by decide +kernel
theorem kw_unionClose : rawC (b "))") = true := by decide +kernel

theorem PX_unionB {pre : List (List Seg)} {alias : String} {ops post : List (List Seg)} {main : List Seg}
    (hpre : ∀ x ∈ pre, PE x) (ha : rawC (b alias ++ b " as (") = true) (hops : ∀ x ∈ ops, PX x)
    (hpost : ∀ x ∈ post, PE x) (hm : PX main) : PX (unionB pre alias ops post main) := by
  have hentry : PE ([Seg.raw (b alias ++ b " as ((")] ++ joinS (b ") UNION ALL (") ops ++ [Seg.raw (b "))")]) :=
    (PC.wrap (PC_raw (kw_unionOpen alias ha)) (PE_joinS (PC_raw kw_unionSep) _ (fun x hx => (hops x hx).toPE))
      (PC_raw kw_unionClose)).toPE
  have hj := PE_joinS (PC_raw kw_comma) _ (PEs_append (PEs_append hpre (PEs_cons hentry PEs_nil)) hpost)
  have := PX.append (PC.appendPE (PC_raw kw_with) hj) hm
  simpa [unionB, List.append_assoc] using this

/-! ### hypotheses: the table names of the context, the operators / field expressions of the conditions -/
/-- the five table names of the planner context are closed text -/
structure PCtxOK (c : PCtx) : Prop where
  gin : rawE (b c.ginTable) = true
  ginDist : rawE (b c.ginDistTable) = true
  series : rawE (b c.seriesTable) = true
  seriesDist : rawE (b c.seriesDistTable) = true
  profilesDist : rawE (b c.profilesDistTable) = true

/-- the conditions of a selector request carry closed operators and field expressions (nothing about names, values,
    patterns) -/
def PQueryOK (q : PQuery) : Prop := (∀ g ∈ q.globals, g.wf = true) ∧ (∀ g ∈ q.kvs, g.wf = true)

/-- `Prof.plan` gives `PQueryOK` for EVERY selector list and every `gre` -/
theorem plan_queryOK (gre : Bytes → Bytes → Bool) (table : String) (fromDate toDate : Bytes) (ss : List Selector) (q : PQuery)
    (h : plan gre table fromDate toDate ss = some q) : PQueryOK q :=
  (plan_wf gre table fromDate toDate ss q h).2

theorem PEs_condsB (gs : List PCond) (h : ∀ g ∈ gs, g.wf = true) : ∀ x ∈ condsB gs, PE x :=
  PE_of_mem_map (fun g hg => PCond.closed g (h g hg))

/-! ### raw atoms of the statements -/
/-- unfold the well-formedness conditions of a term, decide the constant atoms -/
macro "wf_dec" : tactic =>
  `(tactic| (simp only [wfExpr, wfExprs, wfSelBody, wfSel, wfWiths, wfJoins, wfSels, simpleCol, Sql.ge, Sql.le, Sql.lt, Sql.eq,
      Sql.and_, Sql.or_, Alias.text, rawE_intText, Bool.and_eq_true, Bool.and_true, Bool.true_and, and_true, true_and]
     <;> try decide +kernel))
/-- the same, rewriting with one given fact (a closed table name) -/
macro "wf_dec1" h:term : tactic =>
  `(tactic| (simp only [wfExpr, wfExprs, wfSelBody, wfSel, wfWiths, wfJoins, wfSels, simpleCol, Sql.ge, Sql.le, Sql.lt, Sql.eq,
      Sql.and_, Sql.or_, Alias.text, rawE_intText, Bool.and_eq_true, Bool.and_true, Bool.true_and, and_true, true_and, $h:term]
     <;> try decide +kernel))

theorem wf_fingerprint : wfExpr (.raw "fingerprint") = true := by wf_dec
theorem wf_dateConds (c : PCtx) : ∀ e ∈ dateConds c, wfExpr e = true := by
  intro e he
  simp only [dateConds, List.mem_cons, List.not_mem_nil, or_false] at he
  rcases he with rfl | rfl <;> wf_dec

theorem PEs_dateB (c : PCtx) : ∀ x ∈ dateB c, PE x := PEs_exprs _ (wf_dateConds c)

theorem al_fp : rawC (b "fp" ++ b " as (") = true := by decide +kernel
theorem al_raw : rawC (b "raw" ++ b " as (") = true := by decide +kernel
theorem al_preJoined : rawC (b "pre_joined" ++ b " as (") = true := by decide +kernel
theorem al_joined : rawC (b "joined" ++ b " as (") = true := by decide +kernel
theorem al_labels : rawC (b "labels" ++ b " as (") = true := by decide +kernel
theorem al_preLabelFilter : rawC (b "pre_label_filter" ++ b " as (") = true := by decide +kernel
theorem al_preProfileSize : rawC (b "pre_profile_size" ++ b " as (") = true := by decide +kernel
theorem al_preDistinct : rawC (b "pre_distinct" ++ b " as (") = true := by decide +kernel
theorem as_tags : rawC (b " as " ++ b "tags") = true := by decide +kernel
theorem as_tree : rawC (b " as " ++ b "tree") = true := by decide +kernel
theorem as_value : rawC (b " as " ++ b "value") = true := by decide +kernel

/-! ### the closure texts -/
theorem kw_arrayFilter : rawC (b "arrayFilter(x -> ") = true := by decide +kernel
theorem rawE_x1 : rawE (b "x.1") = true := by decide +kernel

/-- `arrayFilter(x -> x.1 IN (<names>), <arr>)` for EVERY list of names -/
theorem PE_arrayFilterInB (names : List Bytes) (arr : String) (ha : rawE (b arr) = true) : PE (arrayFilterInB names arr) := by
  have hin : wfExpr (.isIn (.raw "x.1") (names.map .str)) = true := by
    simp only [wfExpr, Bool.and_eq_true]
    refine ⟨rawE_x1, wfExprs_of_all _ ?_⟩
    intro e he
    rcases List.mem_map.mp he with ⟨n, _, rfl⟩
    simp [wfExpr]
  exact (PC.wrap (PC_raw kw_arrayFilter) (closedExpr _ hin) (PC_raw (rawC_wrap kw_commaSp ha kw_close))).toPE

theorem kw_treeOpen : rawC (b "arrayMap(x -> (x.1, x.2, x.3, (arrayFirst(y -> y.1 == ") = true := by decide +kernel
theorem kw_treeClose : rawC (b ", x.4) as af).2, af.3), tree)") = true := by decide +kernel

/-- the `tree` column of MergeRaw for EVERY type id -/
theorem PE_rawTreeColB (typeUnit : Bytes) : PE (rawTreeColB typeUnit) :=
  PE_colB (PC.wrap (PC_raw kw_treeOpen) (PE_str typeUnit) (PC_raw kw_treeClose)).toPE as_tree

theorem kw_valOpen : rawC (b "sum(toFloat64(arrayFirst(x -> ") = true := by decide +kernel
theorem kw_valMid : rawC (b ", p.values_agg).2))") = true := by decide +kernel
theorem kw_valAvg : rawC (b " / sum(toFloat64(arrayFirst(x -> x.1 == ") = true := by decide +kernel
theorem kw_valEnd : rawC (b ").3))") = true := by decide +kernel

/-- the value column of SelectSeries for EVERY type id -/
theorem PE_seriesValueColB (typeUnit : Bytes) (avg : Bool) : PE (seriesValueColB typeUnit avg) := by
  have hc : PE (segsExpr (eq (.raw "x.1") (.str typeUnit))) := closedExpr _ (by wf_dec)
  have h1 := PC.wrap (PC_raw kw_valOpen) hc (PC_raw kw_valMid)
  unfold seriesValueColB
  cases avg
  · simpa using PE_colB h1.toPE as_value
  · have h2 := PC.wrap (PC_raw kw_valAvg) hc (PC_raw kw_valEnd)
    simpa [List.append_assoc] using PE_colB (PC.append h1 h2).toPE as_value

/-! ### the statements -/
theorem PX_selectorBody (c : PCtx) (q : PQuery) (hc : PCtxOK c) (hq : PQueryOK q) : PX (selectorBody c q) := by
  unfold selectorBody
  refine PX_selBodyB (PEs_cons (closedExpr _ wf_fingerprint) PEs_nil) (some_PE (closedExpr _ (by wf_dec1 hc.gin)))
    (some_PE (PE_logicalB kw_and (PEs_append (PEs_append (PEs_dateB c)
      (PEs_ite PEs_nil (PEs_cons (PE_logicalB kw_and (PEs_condsB _ hq.1)) PEs_nil)))
      (PEs_ite PEs_nil (PEs_cons (PE_logicalB kw_or (PEs_condsB _ hq.2)) PEs_nil)))))
    (PEs_cons (closedExpr _ wf_fingerprint) PEs_nil) ?_ PEs_nil none_PE
  intro p hp
  split at hp
  · cases hp
  · cases hp
    exact PE_logicalB kw_and (PEs_cons (PE_logicalB kw_eqeq (PEs_cons (PE_bitSetAndB (PEs_condsB _ hq.2))
      (PEs_cons (closedExpr _ (by wf_dec)) PEs_nil))) PEs_nil)

theorem selectorB_OK (c : PCtx) (q : PQuery) (hc : PCtxOK c) (hq : PQueryOK q) : (selectorB c q).OK :=
  ⟨(by intro w hw; cases hw), PX_selectorBody c q hc hq⟩

theorem PEs_limitObB (c : PCtx) : ∀ x ∈ limitObB c, PE x := by
  unfold limitObB
  exact PEs_ite (PEs_cons (closedExpr _ (by wf_dec)) PEs_nil) PEs_nil

theorem PE_limitB (c : PCtx) : ∀ p, limitB c = some p → PE p := by
  intro p hp
  unfold limitB at hp
  split at hp
  · cases hp; exact closedExpr _ (by wf_dec)
  · cases hp

theorem mergeProfilesB_OK (c : PCtx) (fp : PQuery) (globals : List PCond) (hc : PCtxOK c) (hq : PQueryOK fp)
    (hg : ∀ g ∈ globals, g.wf = true) : (mergeProfilesB c fp globals).OK := by
  refine StB.OK_under (selectorB_OK c fp hc hq) al_fp ?_
  refine PX_selBodyB (PEs_cons (closedExpr _ (by wf_dec)) PEs_nil) (some_PE (closedExpr _ (by wf_dec1 hc.profilesDist)))
    (some_PE (PE_logicalB kw_and (PEs_append (PEs_exprs _ ?_) (PEs_condsB _ hg)))) PEs_nil none_PE (PEs_limitObB c) (PE_limitB c)
  intro e he
  simp only [List.mem_cons, List.not_mem_nil, or_false] at he
  rcases he with rfl | rfl | rfl <;> wf_dec

theorem mergeRawB_OK (c : PCtx) (typeUnit : Bytes) (fp : PQuery) (globals : List PCond) (hc : PCtxOK c) (hq : PQueryOK fp)
    (hg : ∀ g ∈ globals, g.wf = true) : (mergeRawB c typeUnit fp globals).OK := by
  refine StB.OK_under (selectorB_OK c fp hc hq) al_fp ?_
  refine PX_selBodyB (PEs_cons (PE_rawTreeColB typeUnit) (PEs_cons (closedExpr _ (by wf_dec)) PEs_nil))
    (some_PE (closedExpr _ (by wf_dec1 hc.profilesDist)))
    (some_PE (PE_logicalB kw_and (PEs_append (PEs_exprs _ ?_) (PEs_cons (PE_logicalB kw_and (PEs_condsB _ hg)) PEs_nil))))
    PEs_nil none_PE (PEs_limitObB c) (PE_limitB c)
  intro e he
  simp only [List.mem_cons, List.not_mem_nil, or_false] at he
  rcases he with rfl | rfl | rfl <;> wf_dec

theorem mergeJoinedB_OK (raw : StB) (h : raw.OK) : (mergeJoinedB raw).OK := by
  refine StB.OK_under (StB.OK_under h al_raw (closedSelBody _ (by wf_dec))) al_preJoined (closedSelBody _ ?_)
  simp only [mergeJoined, Sel.with_, Sel.setWiths]
  wf_dec

theorem mergeAggregatedB_OK (joined : StB) (h : joined.OK) : (mergeAggregatedB joined).OK := by
  refine StB.OK_under h al_joined (closedSelBody _ ?_)
  simp only [mergeAggregated, Sel.with_, Sel.setWiths]
  wf_dec

theorem mergeTracesB_OK (c : PCtx) (typeUnit : Bytes) (fp : PQuery) (globals : List PCond) (hc : PCtxOK c) (hq : PQueryOK fp)
    (hg : ∀ g ∈ globals, g.wf = true) : (mergeTracesB c typeUnit fp globals).OK :=
  mergeAggregatedB_OK _ (mergeJoinedB_OK _ (mergeRawB_OK c typeUnit fp globals hc hq hg))

theorem rawE_ptags : rawE (b "p.tags") = true := by decide +kernel
theorem rawE_tags : rawE (b "tags") = true := by decide +kernel

theorem getLabelsB_OK (c : PCtx) (groupBy : List Bytes) (fp : PQuery) (globals : List PCond) (hc : PCtxOK c) (hq : PQueryOK fp)
    (hg : ∀ g ∈ globals, g.wf = true) : (getLabelsB c groupBy fp globals).OK := by
  refine StB.OK_under (selectorB_OK c fp hc hq) al_fp ?_
  refine PX_selBodyB (PEs_cons (closedExpr _ wf_fingerprint) (PEs_cons ?_ (PEs_cons ?_ PEs_nil)))
    (some_PE (closedExpr _ (by wf_dec1 hc.series)))
    (some_PE (PE_logicalB kw_and (PEs_append (PEs_append (PEs_exprs _ ?_) (PEs_dateB c)) (PEs_condsB _ hg))))
    PEs_nil none_PE PEs_nil none_PE
  · split
    · exact closedExpr _ (by wf_dec)
    · exact PE_colB (PE_arrayFilterInB groupBy "p.tags" rawE_ptags) as_tags
  · split <;> exact closedExpr _ (by wf_dec)
  · intro e he
    simp only [List.mem_cons, List.not_mem_nil, or_false] at he
    subst he
    wf_dec

theorem kw_step1 : rawC (b "intDiv(p.timestamp_ns, 1000000000 * ") = true := by decide +kernel
theorem kw_step2 : rawC (b ") * ") = true := by decide +kernel
theorem kw_step3 : rawC (b " * 1000") = true := by decide +kernel

/-- the time-bucket column for EVERY step -/
theorem wf_stepCol (step : Int) : wfExpr (stepCol step) = true := by
  have ht : b (toString step) = intText step := rfl
  have h : rawE (b ("intDiv(p.timestamp_ns, 1000000000 * " ++ toString step ++ ") * " ++ toString step ++ " * 1000")) = true := by
    simp only [b_append, ht]
    exact rawC_toE (rawC_wrap (rawC_wrap kw_step1 (rawE_intText step) kw_step2) (rawE_intText step) kw_step3)
  simp only [stepCol, simpleCol, wfExpr, h, Bool.true_and]
  decide +kernel

theorem selectSeriesB_OK (c : PCtx) (typeUnit : Bytes) (avg : Bool) (step : Int) (labels : StB) (globals : List PCond)
    (hc : PCtxOK c) (hl : labels.OK) (hg : ∀ g ∈ globals, g.wf = true) :
    (selectSeriesB c typeUnit avg step labels globals).OK := by
  refine StB.OK_under hl al_labels ?_
  refine PX_selBodyB
    (PEs_cons (closedExpr _ (wf_stepCol step)) (PEs_cons (closedExpr _ (by wf_dec)) (PEs_cons (closedExpr _ (by wf_dec))
      (PEs_cons (PE_seriesValueColB typeUnit avg) PEs_nil))))
    (some_PE (PE.appendPX (closedExpr _ (by wf_dec1 hc.profilesDist)) (closedJoins _ (by simp only [seriesJoin]; wf_dec))))
    (some_PE (PE_logicalB kw_and (PEs_append (PEs_exprs _ ?_) (PEs_condsB _ hg))))
    (PEs_cons (closedExpr _ (by wf_dec)) (PEs_cons (closedExpr _ (by wf_dec)) PEs_nil)) none_PE
    (PEs_cons (closedExpr _ (by wf_dec)) (PEs_cons (closedExpr _ (by wf_dec)) PEs_nil)) none_PE
  intro e he
  simp only [List.mem_cons, List.not_mem_nil, or_false] at he
  rcases he with rfl | rfl | rfl <;> wf_dec

theorem planSelectSeriesB_OK (c : PCtx) (typeUnit : Bytes) (avg : Bool) (step : Int) (groupBy : List Bytes) (fp : PQuery)
    (globals : List PCond) (hc : PCtxOK c) (hq : PQueryOK fp) (hg : ∀ g ∈ globals, g.wf = true) :
    (planSelectSeriesB c typeUnit avg step groupBy fp globals).OK :=
  selectSeriesB_OK c typeUnit avg step _ globals hc (getLabelsB_OK c groupBy fp globals hc hq hg) hg

theorem wf_seriesCols : ∀ e ∈ seriesCols, wfExpr e = true := by
  intro e he
  simp only [seriesCols, List.mem_cons, List.not_mem_nil, or_false] at he
  rcases he with rfl | rfl | rfl <;> wf_dec

theorem wf_seriesFrom (c : PCtx) (hc : PCtxOK c) : wfExpr (seriesFrom c) = true := by
  simp only [seriesFrom]
  wf_dec1 hc.seriesDist

theorem allTimeSeriesB_OK (c : PCtx) (hc : PCtxOK c) : (allTimeSeriesB c).OK := by
  refine ⟨(by intro w hw; cases hw), closedSelBody _ ?_⟩
  have h1 := wfExprs_of_all _ wf_seriesCols
  have h2 := wf_seriesFrom c hc
  have h3 := wfExprs_of_all _ (wf_dateConds c)
  simp only [allTimeSeries, wfSelBody, wfExprs, wfJoins, and_, wfExpr, h1, h2, h3, Bool.and_true, Bool.true_and]
  exact kw_and

theorem PX_timeSeriesBody (c : PCtx) (globals : List PCond) (hc : PCtxOK c) (hg : ∀ g ∈ globals, g.wf = true) :
    PX (timeSeriesBody c globals) := by
  refine PX_selBodyB (PEs_exprs _ wf_seriesCols) (some_PE (closedExpr _ (wf_seriesFrom c hc)))
    (some_PE (PE_logicalB kw_and (PEs_append (PEs_append (PEs_exprs _ ?_) (PEs_dateB c)) (PEs_condsB _ hg))))
    PEs_nil none_PE PEs_nil none_PE
  intro e he
  simp only [List.mem_cons, List.not_mem_nil, or_false] at he
  subst he
  wf_dec

theorem timeSeriesSelectB_OK (c : PCtx) (fp : PQuery) (globals : List PCond) (hc : PCtxOK c) (hq : PQueryOK fp)
    (hg : ∀ g ∈ globals, g.wf = true) : (timeSeriesSelectB c fp globals).OK :=
  StB.OK_under (selectorB_OK c fp hc hq) al_fp (PX_timeSeriesBody c globals hc hg)

theorem PX_filterBody (labels : List Bytes) : PX (filterBody labels) :=
  PX_selBodyB (PEs_cons (PE_colB (PE_arrayFilterInB labels "tags" rawE_tags) as_tags)
      (PEs_cons (closedExpr _ (by wf_dec)) (PEs_cons (closedExpr _ (by wf_dec)) PEs_nil)))
    (some_PE (closedExpr _ (by wf_dec))) none_PE PEs_nil none_PE PEs_nil none_PE

theorem filterLabelsB_OK (labels : List Bytes) (main : StB) (h : main.OK) : (filterLabelsB labels main).OK := by
  unfold filterLabelsB
  split
  · exact h
  · exact StB.OK_under h al_preLabelFilter (PX_filterBody labels)

theorem planSeriesB_OK (c : PCtx) (labels : List Bytes) (sel : Option PQuery) (hc : PCtxOK c)
    (hq : ∀ q, sel = some q → PQueryOK q) : (planSeriesB c labels sel).OK := by
  cases sel with
  | none => exact allTimeSeriesB_OK c hc
  | some q => exact filterLabelsB_OK labels _ (timeSeriesSelectB_OK c q q.globals hc (hq q rfl) (hq q rfl).1)

/-- `col` is the planner's own column name (`key` / `val`): closed text; the label is any byte string -/
theorem labelsNoSelB_OK (c : PCtx) (col : String) (label : Option Bytes) (hc : PCtxOK c) (hcol : rawE (b col) = true) :
    (labelsNoSelB c col label).OK := by
  refine ⟨(by intro w hw; cases hw), closedSelBody _ ?_⟩
  have h3 := wfExprs_of_all _ (wf_dateConds c)
  cases label <;>
    simp only [labelsNoSel, wfSelBody, wfExprs, wfJoins, and_, Sql.eq, wfExpr, wfExprs_append, h3, hcol, hc.ginDist,
      rawE_intText, Bool.and_true, Bool.true_and, List.append_nil] <;> decide +kernel

theorem labelsSelB_OK (c : PCtx) (col : String) (label : Option Bytes) (withFp : Bool) (hc : PCtxOK c)
    (hcol : rawE (b col) = true) : (labelsSelB c col label withFp).OK := by
  refine ⟨(by intro w hw; cases hw), closedSelBody _ ?_⟩
  have h3 := wfExprs_of_all _ (wf_dateConds c)
  cases label <;> cases withFp <;>
    simp only [labelsSel, wfSelBody, wfExprs, wfJoins, and_, Sql.eq, wfExpr, wfExprs_append, h3, hcol, hc.ginDist,
      rawE_intText, Bool.and_true, Bool.true_and, List.append_nil, ↓reduceIte, Bool.false_eq_true, Alias.text] <;>
    decide +kernel

theorem profileSizeB_OK (main : StB) (h : main.OK) : (profileSizeB main).OK := by
  refine StB.OK_under h al_preProfileSize (closedSelBody _ ?_)
  simp only [profileSize, Sel.with_, Sel.setWiths]
  wf_dec

theorem analyzeQueryB_OK (c : PCtx) (q : PQuery) (hc : PCtxOK c) (hq : PQueryOK q) : (analyzeQueryB c q).OK :=
  profileSizeB_OK _ (mergeProfilesB_OK c q q.globals hc hq hq.1)

theorem labelsUnion_PX (c : PCtx) (col : String) (label : Option Bytes) (scripts : List PQuery) (hc : PCtxOK c)
    (hcol : rawE (b col) = true) (hs : ∀ q ∈ scripts, PQueryOK q) : PX (labelsUnionSegs c col label scripts) := by
  refine PX_unionB PEs_nil al_fp ?_ PEs_nil (labelsSelB_OK c col label true hc hcol).2
  intro x hx
  rcases List.mem_map.mp hx with ⟨q, hq, rfl⟩
  exact PX_selectorBody c q hc (hs q hq)

theorem wf_preDistinct : wfSelBody preDistinctSel = true := by
  simp only [preDistinctSel]
  wf_dec

theorem seriesUnion_PX (c : PCtx) (labels : List Bytes) (scripts : List PQuery) (hc : PCtxOK c)
    (hs : ∀ q ∈ scripts, PQueryOK q) : PX (seriesUnionSegs c labels scripts) := by
  have hfp : ∀ x ∈ (match scripts with | [] => [] | p :: _ => [withB ("fp", selectorBody c p)] : List (List Seg)), PE x := by
    cases scripts with
    | nil => exact PEs_nil
    | cons p rest => exact PEs_cons (PE_withB ⟨al_fp, PX_selectorBody c p hc (hs p (by simp))⟩) PEs_nil
  have hops : ∀ x ∈ scripts.map (fun p => timeSeriesBody c p.globals), PX x := by
    intro x hx
    rcases List.mem_map.mp hx with ⟨q, hq, rfl⟩
    exact PX_timeSeriesBody c q.globals hc (hs q hq).1
  unfold seriesUnionSegs
  simp only
  split
  · exact PX_unionB hfp al_preDistinct hops PEs_nil (closedSelBody _ wf_preDistinct)
  · exact PX_unionB hfp al_preDistinct hops
      (PEs_cons (PE_withB ⟨al_preLabelFilter, closedSelBody _ wf_preDistinct⟩) PEs_nil) (PX_filterBody labels)

/-! ### the statements, entered in `.normal`: well formed for their leaves for ALL arguments

    Hypotheses: `PCtxOK c` (table names), `PQueryOK` of the selector requests and `PCond.wf` of the global conditions (operators
    and field expressions; `plan_queryOK` gives both for every output of `Prof.plan`). Nothing about selector names / values /
    patterns, `group_by` / `label_names` entries, the type id, the label, the numbers. -/
theorem StB.safe (s : StB) (h : s.OK) : safeSegs .normal s.segs = true := (s.closed h .normal rfl).1

theorem selector_closed (c : PCtx) (q : PQuery) (hc : PCtxOK c) (hq : PQueryOK q) :
    safeSegs .normal (selectorSegs c q) = true := StB.safe _ (selectorB_OK c q hc hq)
theorem mergeProfiles_closed (c : PCtx) (fp : PQuery) (globals : List PCond) (hc : PCtxOK c) (hq : PQueryOK fp)
    (hg : ∀ g ∈ globals, g.wf = true) : safeSegs .normal (mergeProfilesSegs c fp globals) = true :=
  StB.safe _ (mergeProfilesB_OK c fp globals hc hq hg)
theorem mergeRaw_closed (c : PCtx) (typeUnit : Bytes) (fp : PQuery) (globals : List PCond) (hc : PCtxOK c) (hq : PQueryOK fp)
    (hg : ∀ g ∈ globals, g.wf = true) : safeSegs .normal (mergeRawSegs c typeUnit fp globals) = true :=
  StB.safe _ (mergeRawB_OK c typeUnit fp globals hc hq hg)
theorem mergeJoined_closed (c : PCtx) (typeUnit : Bytes) (fp : PQuery) (globals : List PCond) (hc : PCtxOK c) (hq : PQueryOK fp)
    (hg : ∀ g ∈ globals, g.wf = true) : safeSegs .normal (mergeJoinedSegs c typeUnit fp globals) = true :=
  StB.safe _ (mergeJoinedB_OK _ (mergeRawB_OK c typeUnit fp globals hc hq hg))
/-- `mergeAggregated (mergeJoined (mergeRaw …))` = `mergeTraces` -/
theorem mergeTraces_closed (c : PCtx) (typeUnit : Bytes) (fp : PQuery) (globals : List PCond) (hc : PCtxOK c) (hq : PQueryOK fp)
    (hg : ∀ g ∈ globals, g.wf = true) : safeSegs .normal (mergeTracesSegs c typeUnit fp globals) = true :=
  StB.safe _ (mergeTracesB_OK c typeUnit fp globals hc hq hg)
theorem getLabels_closed (c : PCtx) (groupBy : List Bytes) (fp : PQuery) (globals : List PCond) (hc : PCtxOK c) (hq : PQueryOK fp)
    (hg : ∀ g ∈ globals, g.wf = true) : safeSegs .normal (getLabelsSegs c groupBy fp globals) = true :=
  StB.safe _ (getLabelsB_OK c groupBy fp globals hc hq hg)
/-- `selectSeries` over `getLabels` -/
theorem selectSeries_closed (c : PCtx) (typeUnit : Bytes) (avg : Bool) (step : Int) (groupBy : List Bytes) (fp : PQuery)
    (globals : List PCond) (hc : PCtxOK c) (hq : PQueryOK fp) (hg : ∀ g ∈ globals, g.wf = true) :
    safeSegs .normal (selectSeriesSegs c typeUnit avg step groupBy fp globals) = true :=
  StB.safe _ (planSelectSeriesB_OK c typeUnit avg step groupBy fp globals hc hq hg)
theorem allTimeSeries_closed (c : PCtx) (hc : PCtxOK c) : safeSegs .normal (allTimeSeriesSegs c) = true :=
  StB.safe _ (allTimeSeriesB_OK c hc)
theorem timeSeriesSelect_closed (c : PCtx) (fp : PQuery) (globals : List PCond) (hc : PCtxOK c) (hq : PQueryOK fp)
    (hg : ∀ g ∈ globals, g.wf = true) : safeSegs .normal (timeSeriesSelectSegs c fp globals) = true :=
  StB.safe _ (timeSeriesSelectB_OK c fp globals hc hq hg)
theorem filterLabels_closed (c : PCtx) (labels : List Bytes) (fp : PQuery) (globals : List PCond) (hc : PCtxOK c)
    (hq : PQueryOK fp) (hg : ∀ g ∈ globals, g.wf = true) : safeSegs .normal (filterLabelsSegs c labels fp globals) = true :=
  StB.safe _ (filterLabelsB_OK labels _ (timeSeriesSelectB_OK c fp globals hc hq hg))
theorem planSeries_closed (c : PCtx) (labels : List Bytes) (sel : Option PQuery) (hc : PCtxOK c)
    (hq : ∀ q, sel = some q → PQueryOK q) : safeSegs .normal (planSeriesSegs c labels sel) = true :=
  StB.safe _ (planSeriesB_OK c labels sel hc hq)
theorem labelsNoSel_closed (c : PCtx) (col : String) (label : Option Bytes) (hc : PCtxOK c) (hcol : rawE (b col) = true) :
    safeSegs .normal (labelsNoSelSegs c col label) = true := StB.safe _ (labelsNoSelB_OK c col label hc hcol)
theorem labelsSel_closed (c : PCtx) (col : String) (label : Option Bytes) (withFp : Bool) (hc : PCtxOK c)
    (hcol : rawE (b col) = true) : safeSegs .normal (labelsSelSegs c col label withFp) = true :=
  StB.safe _ (labelsSelB_OK c col label withFp hc hcol)
theorem profileSize_closed (c : PCtx) (q : PQuery) (globals : List PCond) (hc : PCtxOK c) (hq : PQueryOK q)
    (hg : ∀ g ∈ globals, g.wf = true) : safeSegs .normal (profileSizeSegs c q globals) = true :=
  StB.safe _ (profileSizeB_OK _ (mergeProfilesB_OK c q globals hc hq hg))
theorem analyzeQuery_closed (c : PCtx) (q : PQuery) (hc : PCtxOK c) (hq : PQueryOK q) :
    safeSegs .normal (analyzeQuerySegs c q) = true := StB.safe _ (analyzeQueryB_OK c q hc hq)
theorem labelsUnion_closed (c : PCtx) (col : String) (label : Option Bytes) (scripts : List PQuery) (hc : PCtxOK c)
    (hcol : rawE (b col) = true) (hs : ∀ q ∈ scripts, PQueryOK q) :
    safeSegs .normal (labelsUnionSegs c col label scripts) = true := (labelsUnion_PX c col label scripts hc hcol hs .normal rfl).1
theorem seriesUnion_closed (c : PCtx) (labels : List Bytes) (scripts : List PQuery) (hc : PCtxOK c)
    (hs : ∀ q ∈ scripts, PQueryOK q) : safeSegs .normal (seriesUnionSegs c labels scripts) = true :=
  (seriesUnion_PX c labels scripts hc hs .normal rfl).1

/-- the two column names `GenericLabelsPlanner` is used with -/
theorem col_key : rawE (b "key") = true := by decide +kernel
theorem col_val : rawE (b "val") = true := by decide +kernel

/-! ### non-vacuity: hostile bytes (39 quote, 92 backslash, 45 45 comment opener) in a pseudo-label value (inside the
    `arrayExists` closure), in an ordinary label name and value, in `group_by` names, in the type id, in the label -/
private def exCtx : PCtx :=
  { fromNs := 1700000000000000000, toNs := 1700000360000000000, limit := 10, ginTable := "profiles_series_gin",
    ginDistTable := "`qryn`.profiles_series_gin_dist", seriesTable := "profiles_series", seriesDistTable := "profiles_series_dist",
    profilesDistTable := "profiles_dist" }
private theorem exCtx_ok : PCtxOK exCtx := by constructor <;> decide +kernel
/-- `__sample_type__="'\--"`, `'--="\'"`, `a=~"')--"` -/
private def exSels : List Selector :=
  [⟨[95, 95, 115, 97, 109, 112, 108, 101, 95, 116, 121, 112, 101, 95, 95], .eq, [39, 92, 45, 45]⟩,
   ⟨[39, 45, 45], .eq, [92, 39]⟩, ⟨[97], .re, [39, 41, 45, 45]⟩]
example : (plan (fun _ _ => false) "profiles_series_gin" [50] [51] exSels).isSome = true := by decide +kernel
example (q : PQuery) (h : plan (fun _ _ => false) "profiles_series_gin" [50] [51] exSels = some q) :
    safeSegs .normal (mergeTracesSegs exCtx [39, 92, 45, 45] q q.globals) = true ∧
    safeSegs .normal (selectSeriesSegs exCtx [39, 58, 45, 45] true (-15) [[39], [92, 39], [45, 45]] q q.globals) = true ∧
    safeSegs .normal (planSeriesSegs exCtx [[39, 41, 45, 45], []] (some q)) = true ∧
    safeSegs .normal (labelsUnionSegs exCtx "val" (some [39, 92]) [q, q]) = true ∧
    safeSegs .normal (seriesUnionSegs exCtx [[92]] [q, q]) = true :=
  have hq := plan_queryOK _ _ _ _ _ q h
  ⟨mergeTraces_closed _ _ _ _ exCtx_ok hq hq.1, selectSeries_closed _ _ _ _ _ _ _ exCtx_ok hq hq.1,
   planSeries_closed _ _ _ exCtx_ok (by intro x hx; cases hx; exact hq),
   labelsUnion_closed _ _ _ _ exCtx_ok col_val (by intro x hx; simp at hx; subst hx; exact hq),
   seriesUnion_closed _ _ _ exCtx_ok (by intro x hx; simp at hx; subst hx; exact hq)⟩

end Qryn.Prof
