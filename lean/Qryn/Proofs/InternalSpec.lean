import Qryn.Proofs.InternalVal
/-! The per-entry functions of the in-process stages are the LogQL definitions of `LogQL.Stages`
    (on proper entries, i.e. not the end-of-stream / error markers). Core only. -/
namespace Qryn.Read
open Qryn Qryn.Sql Qryn.LogQL Qryn.LogQL.Stages

variable {V : Type}

/-- the model-side flat reading of a pipeline stage: what `runStage` does to the concatenation of the batches -/
def stageFlat (E : Env V) : StageK V → List (Entry V) → List (Entry V)
  | .line op val => fun es => es.filterMap (lineFilterFn E.o op val)
  | .labelFilter c => fun es => es.filterMap (labelFilterFn E.o c)
  | .parser k => fun es => es.map (parserFn E k)
  | .labelFormat ops => fun es => es.map (labelFormatFn E ops)
  | .lineFormat t => fun es => es.filterMap (lineFormatFn E t)
  | .drop ns vs => fun es => es.map (dropFn E ns vs)
  | .unwrap l => fun es => es.map (unwrapFn E l)

theorem runStage_flatten (E : Env V) (s : StageK V) (bs : Batches V) :
    (runStage E s bs).flatten = stageFlat E s bs.flatten := by
  cases s <;> simp only [runStage, stageFlat, run_accOps, run_mapOps, flatten_map_filterMap, flatten_map_map]

theorem filterMap_ite {α : Type} (p : α → Bool) (l : List α) :
    l.filterMap (fun e => if p e then some e else none) = l.filter p := by
  induction l with
  | nil => rfl
  | cons x xs ih => by_cases h : p x <;> simp [List.filterMap_cons, List.filter_cons, h, ih]

theorem filterMap_congr_mem {α β : Type} {f g : α → Option β} {l : List α} (h : ∀ x ∈ l, f x = g x) :
    l.filterMap f = l.filterMap g := filterMap_congr' h

/-! ### filters -/
theorem lineCompare_eq (o : Oracles) (op : LineOp) (val msg : Bytes) :
    lineCompare o op val msg = lineHolds o ⟨op, val, none⟩ msg := by
  cases op <;> rfl

theorem ite_isEmpty_num (o : Oracles) (h0 : o.isNum [] = false) (x : Bytes) (b : Bytes → Bool) :
    (if x.isEmpty then false else o.isNum x && b x) = (o.isNum x && b x) := by
  cases x <;> simp [h0]

theorem ite_lookup_field (ox : Option Bytes) (acc : Labels) (v : Bytes) :
    (if (ox.getD []).isEmpty then acc else acc.set (ox.getD []) v) =
      (match ox with | some name => if name.isEmpty then acc else acc.set name v | none => acc) := by
  cases ox <;> simp

theorem labelFn_eq (o : Oracles) (h0 : o.isNum [] = false) (m : Labels) (c : LabelCond) :
    labelFn o m c = labelCondHolds o m c := by
  induction c with
  | str l op v =>
    simp only [labelFn, labelCondHolds, Labels.get, labelValue]
    cases op
    · exact Bool.eq_iff_iff.mpr ⟨fun h => by simpa using (eq_of_beq h).symm, fun h => by simpa using (eq_of_beq h).symm⟩
    · simp only [bne]
      congr 1
      exact Bool.eq_iff_iff.mpr ⟨fun h => by simpa using (eq_of_beq h).symm, fun h => by simpa using (eq_of_beq h).symm⟩
    · rfl
    · rfl
  | num l op v =>
    simp only [labelFn, labelCondHolds, Labels.get, labelValue]
    exact ite_isEmpty_num o h0 _ (fun x => o.numCmp (cmpName op) x (numText v))
  | and a b iha ihb => simp only [labelFn, labelCondHolds, iha, ihb]
  | or a b iha ihb => simp only [labelFn, labelCondHolds, iha, ihb]

theorem line_meets (E : Env V) (op : LineOp) (val : Bytes) (es : List (Entry V)) (hp : ∀ e ∈ es, e.err = none) :
    stageFlat E (.line op val) es = lineStage E op val es := by
  simp only [stageFlat, lineStage, ← filterMap_ite]
  apply filterMap_congr_mem
  intro e he
  simp [lineFilterFn, hp e he, lineCompare_eq]

theorem label_meets (E : Env V) (h0 : E.o.isNum [] = false) (c : LabelCond) (es : List (Entry V)) :
    stageFlat E (.labelFilter c) es = labelStage E c es := by
  simp only [stageFlat, labelStage, ← filterMap_ite]
  apply filterMap_congr_mem
  intro e _
  simp [labelFilterFn, labelFn_eq E.o h0]

/-! ### `| json` -/
def setLeaf (acc : Labels) (pv : List Bytes × Bytes) : Labels := acc.set (pathLabel pv.1) pv.2

theorem foldl_joinPrefix_snoc (path : List Bytes) (k : Bytes) :
    (path ++ [k]).foldl joinPrefix [] = joinPrefix (path.foldl joinPrefix []) k := by
  simp [List.foldl_append]

mutual
theorem subDecVal_leaves (path : List Bytes) (l : Labels) (v : JVal) :
    subDecVal (path.foldl joinPrefix []) (l, true) v = ((leavesVal path v).1.foldl setLeaf l, (leavesVal path v).2) := by
  cases v with
  | obj _ kvs => simp only [subDecVal, leavesVal]; exact subDecKvs_leaves path l kvs
  | arr _ xs => simp [subDecVal, leavesVal]
  | str s => simp [subDecVal, leavesVal, setLeaf, pathLabel]
  | raw t => simp [subDecVal, leavesVal, setLeaf, pathLabel]
  | bad => simp [subDecVal, leavesVal]
theorem subDecKvs_leaves (path : List Bytes) (l : Labels) (kvs : JKvs) :
    subDecKvs (path.foldl joinPrefix []) (l, true) kvs =
      ((leavesKvs path kvs).1.foldl setLeaf l, (leavesKvs path kvs).2) := by
  cases kvs with
  | nil => simp [subDecKvs, leavesKvs]
  | cons k v rest =>
    simp only [subDecKvs, leavesKvs]
    rw [← foldl_joinPrefix_snoc, subDecVal_leaves (path ++ [k]) l v]
    by_cases h : (leavesVal (path ++ [k]) v).2 = true
    · simp only [h, if_true]
      rw [subDecKvs_leaves path _ rest]
      simp [List.foldl_append]
    · simp [h]
end

theorem json_meets (doc : JVal) (l : Labels) : jsonAll doc l = jsonLabels doc l := by
  cases doc with
  | obj _ kvs =>
    simp only [jsonAll, jsonLabels]
    have := subDecKvs_leaves [] l kvs
    simp only [List.foldl_nil] at this
    rw [this]
    rfl
  | _ => rfl

theorem lookup_fieldsPut (m : List (Bytes × Bytes)) (k v k2 : Bytes) :
    (fieldsPut m k v).lookup k2 = if k2 = k then some v else m.lookup k2 := by
  induction m with
  | nil =>
    by_cases h : k2 = k
    · simp [fieldsPut, List.lookup, h]
    · have : (k2 == k) = false := by simpa using h
      simp [fieldsPut, List.lookup, h, this]
  | cons p rest ih =>
    obtain ⟨k', v'⟩ := p
    simp only [fieldsPut]
    by_cases h1 : k' = k
    · subst h1
      by_cases h : k2 = k'
      · simp [List.lookup, h]
      · have : (k2 == k') = false := by simpa using h
        simp [List.lookup, h, this]
    · simp only [h1, if_false, List.lookup]
      by_cases h : k2 = k'
      · subst h
        have : ¬ k2 = k := h1
        simp [this]
      · have : (k2 == k') = false := by simpa using h
        simp only [this, ih]

/-- the map `Process` builds answers a key with the name of the last parameter whose path starts with that key -/
theorem lookup_paramFields_from (ps : List Ahead) (m : List (Bytes × Bytes)) (k : Bytes) :
    (ps.foldl (fun m (a : Ahead) => match a.2 with
      | .key k :: _ => fieldsPut m k a.1
      | _ => m) m).lookup k = (match fieldParam ps k with | some n => some n | none => m.lookup k) := by
  induction ps generalizing m with
  | nil => simp [fieldParam]
  | cons a rest ih =>
    simp only [List.foldl_cons, fieldParam]
    rw [ih]
    cases hf : fieldParam rest k with
    | some n => rfl
    | none =>
      simp only
      obtain ⟨n, path⟩ := a
      cases path with
      | nil => simp
      | cons s r =>
        cases s with
        | idx i => simp
        | key k' =>
          simp only [lookup_fieldsPut, List.head?_cons, Option.some.injEq, PathSeg.key.injEq]
          by_cases h : k = k'
          · simp [h]
          · have : ¬ k' = k := fun e => h e.symm
            simp [h, this]

theorem lookup_paramFields (ps : List Ahead) (k : Bytes) : (paramFields ps).lookup k = fieldParam ps k := by
  have := lookup_paramFields_from ps [] k
  simp only [List.lookup] at this
  unfold paramFields
  refine this.trans ?_
  cases fieldParam ps k <;> rfl

/-- `| logfmt n="k", …`: the map filled by `Process` and consulted by `HandleLogfmt` extracts every logfmt key to
    the label of the last parameter naming it -/
theorem logfmtParams_meets (ps : List Ahead) (pairs : List (Bytes × Bytes)) (l : Labels) :
    logfmtFields (paramFields ps) pairs l = logfmtParamLabels ps pairs l := by
  simp only [logfmtFields, logfmtParamLabels]
  congr 1
  funext acc kv
  have hg : Labels.get (paramFields ps) kv.1 = (fieldParam ps kv.1).getD [] := by
    simp only [Labels.get, lookup_paramFields]
  rw [hg]
  exact ite_lookup_field _ acc kv.2

/-- the parsers proved here (JSON paths: `jsonParams_meets` in Proofs/InternalParams.lean, then `parser_meets_all`) -/
def ParserKind.total : ParserKind → Bool
  | .jsonParams _ => false
  | _ => true

theorem parser_meets (E : Env V) (k : ParserKind) (hk : k.total = true) (es : List (Entry V)) (hp : ∀ e ∈ es, e.err = none) :
    stageFlat E (.parser k) es = parserStage E k es := by
  simp only [stageFlat, parserStage]
  apply List.map_congr_left
  intro e he
  simp only [parserFn, hp e he, Option.isSome_none, Bool.false_eq_true, if_false, relabel]
  have : parseLabels E k e.msg e.labels = parserLabels E k e.msg e.labels := by
    cases k with
    | json => exact json_meets _ _
    | jsonParams ps => simp [ParserKind.total] at hk
    | logfmt => rfl
    | logfmtParams fs => exact logfmtParams_meets _ _ _
  rw [this]

/-! ### label_format, line_format, drop, unwrap -/
theorem labelFormat_meets (E : Env V) (ops : List FormatOp) (es : List (Entry V)) (hp : ∀ e ∈ es, e.err = none) :
    stageFlat E (.labelFormat ops) es = labelFormatStage E ops es := by
  simp only [stageFlat, labelFormatStage]
  apply List.map_congr_left
  intro e he
  simp only [labelFormatFn, hp e he, Option.isSome_none, Bool.false_eq_true, if_false, relabel]
  have : formatStep = (fun (m : Labels) (op : FormatOp) => match op with
      | .const l v => m.set l v
      | .copy l src => if (m.get src).isEmpty then m else m.set l (m.get src)) := by
    funext m op
    cases op <;> rfl
  rw [this]
  rfl

theorem lineFormat_meets (E : Env V) (t : Bytes) (es : List (Entry V)) :
    stageFlat E (.lineFormat t) es = lineFormatStage E t es := by
  simp only [stageFlat, lineFormatStage]
  apply filterMap_congr_mem
  intro e _
  simp only [lineFormatFn]
  cases E.tpl t (e.labels.set entryKey e.msg) <;> rfl

theorem dropped_eq (names vals : List Bytes) (kv : Bytes × Bytes) : dropped names vals kv = dropMatches names vals kv := by
  simp only [dropped, dropMatches]
  congr 1
  funext nv
  have h1 : (kv.1 == nv.1) = (nv.1 == kv.1) :=
    Bool.eq_iff_iff.mpr ⟨fun h => by simpa using (eq_of_beq h).symm, fun h => by simpa using (eq_of_beq h).symm⟩
  have h2 : (kv.2 == nv.2) = (nv.2 == kv.2) :=
    Bool.eq_iff_iff.mpr ⟨fun h => by simpa using (eq_of_beq h).symm, fun h => by simpa using (eq_of_beq h).symm⟩
  have h3 : nv.2.isEmpty = (nv.2 == []) := by cases nv.2 <;> rfl
  rw [h1, h2, h3]

theorem drop_meets (E : Env V) (ns vs : List Bytes) (es : List (Entry V)) (hp : ∀ e ∈ es, e.err = none) :
    stageFlat E (.drop ns vs) es = dropStage E ns vs es := by
  simp only [stageFlat, dropStage]
  apply List.map_congr_left
  intro e he
  simp only [dropFn, hp e he, Option.isSome_none, Bool.false_eq_true, if_false, relabel]
  have : (fun kv => !dropped ns vs kv) = (fun kv => !dropMatches ns vs kv) := by
    funext kv; rw [dropped_eq]
  rw [this]

theorem unwrap_meets (E : Env V) (label : Bytes) (es : List (Entry V)) (hp : ∀ e ∈ es, e.err = none) :
    stageFlat E (.unwrap label) es = unwrapStage E label es := by
  simp only [stageFlat, unwrapStage]
  apply List.map_congr_left
  intro e he
  simp only [unwrapFn, hp e he, Option.isSome_none, Bool.false_eq_true, if_false]
  generalize (if label = entryKey then e.msg else e.labels.get label) = s
  cases s with
  | nil => simp
  | cons c cs => simp only [List.isEmpty_cons, Bool.false_eq_true, if_false]; rfl

theorem byWithout_meets (E : Env V) (isBy : Bool) (names : List Bytes) (es : List (Entry V)) (hp : ∀ e ∈ es, e.err = none) :
    es.map (byWithoutFn E isBy names) = byWithoutStage E isBy names es := by
  simp only [byWithoutStage]
  apply List.map_congr_left
  intro e he
  simp only [byWithoutFn, hp e he, Option.isSome_none, Bool.false_eq_true, if_false, relabel]
  have : (fun (kv : Bytes × Bytes) => if isBy = true then names.contains kv.1 else !names.contains kv.1) =
         (fun kv => (names.contains kv.1) == isBy) := by
    funext kv
    cases isBy <;> cases names.contains kv.1 <;> rfl
  rw [this]

theorem comparison_meets (N : NumOps V) (op : CmpOp) (v : V) (es : List (Entry V)) :
    es.filterMap (comparisonFn N op v) = compareStage N op v es := by
  simp only [compareStage, ← filterMap_ite]
  rfl

theorem limit_meets (limit : Int) (es : List (Entry V)) : limitRest limit 0 es = limitStage limit es := by
  simp [limitRest, limitStage]

/-! ### stages keep the proper entries proper -/
theorem stageFlat_proper (E : Env V) (s : StageK V) (es : List (Entry V)) (hp : ∀ e ∈ es, e.err = none) :
    ∀ e ∈ stageFlat E s es, e.err = none := by
  intro e he
  cases s with
  | line op val =>
    simp only [stageFlat, List.mem_filterMap, lineFilterFn] at he
    obtain ⟨a, ha, h⟩ := he
    split at h
    · rw [← Option.some.inj h]; exact hp a ha
    · cases h
  | labelFilter c =>
    simp only [stageFlat, List.mem_filterMap, labelFilterFn] at he
    obtain ⟨a, ha, h⟩ := he
    split at h
    · rw [← Option.some.inj h]; exact hp a ha
    · cases h
  | parser k =>
    simp only [stageFlat, List.mem_map] at he
    obtain ⟨a, ha, hae⟩ := he
    subst hae
    simp [parserFn, hp a ha]
  | labelFormat ops =>
    simp only [stageFlat, List.mem_map] at he
    obtain ⟨a, ha, hae⟩ := he
    subst hae
    simp [labelFormatFn, hp a ha]
  | lineFormat t =>
    simp only [stageFlat, List.mem_filterMap, lineFormatFn] at he
    obtain ⟨a, ha, h⟩ := he
    split at h
    · rw [← Option.some.inj h]; exact hp a ha
    · cases h
  | drop ns vs =>
    simp only [stageFlat, List.mem_map] at he
    obtain ⟨a, ha, hae⟩ := he
    subst hae
    simp [dropFn, hp a ha]
  | unwrap l =>
    simp only [stageFlat, List.mem_map] at he
    obtain ⟨a, ha, hae⟩ := he
    subst hae
    simp only [unwrapFn, hp a ha, Option.isSome_none, Bool.false_eq_true, if_false]
    repeat' split
    all_goals first | exact hp a ha | rfl

end Qryn.Read
