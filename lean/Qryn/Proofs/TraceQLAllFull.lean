import Qryn.Proofs.TraceQLAll
import Qryn.Proofs.TraceQLWhole
/-! C11, `{}`: the WHOLE statement of `AttrlessConditionPlanner` + `IndexGroupByPlanner` + `IndexLimitPlanner` +
    `TracesDataPlanner`. The WITH lists of the sub-queries are hoisted into one flat list; the `trace_ids` of
    `TracesDataPlanner` is dropped because `AttrlessConditionPlanner` already defined that alias. -/
namespace Qryn.TraceQL
open Qryn Qryn.Sql

/-! ### the sub-queries -/
/-- `trace_and_span_ids` -/
def tasSel (c : Ctx) : Sel :=
  .mk [] false
    [simpleCol "trace_id" "trace_id", .col (.call "groupArray(100)" [.raw "span_id"]) "span_id"]
    (some (.col (.raw c.tracesTable) "traces")) [] none
    (some (and_ [and_ [ge (.raw "timestamp_ns") (.int c.fromNs), lt (.raw "timestamp_ns") (.int c.toNs),
      .isIn (.raw "trace_id") [.withRef (.named "trace_ids")]]]))
    [.raw "trace_id"] none [] none

/-- `trace_and_span_ids_unnested` -/
def unnestedSel : Sel :=
  .mk [] false [simpleCol "trace_id" "trace_id", simpleCol "_span_id" "span_id"]
    (some (.arrayJoin (.withRef (.named "trace_and_span_ids")) (simpleCol "trace_and_span_ids.span_id" "_span_id")))
    [] none none [] none [] none

/-- `index_grouped` of `{}` (with the LIMIT of `IndexLimitPlanner`) -/
def igAll (c : Ctx) : Sel := indexLimit c (indexGroupBy "" (attrless c))

/-- the sub-queries in front of `index_grouped` -/
def preWiths (c : Ctx) : List (Alias × Sel) :=
  [(.named "trace_ids", traceIdsAll c), (.named "trace_and_span_ids", tasSel c),
   (.named "trace_and_span_ids_unnested", unnestedSel), (.named "index_search", attrless c)]

def allWiths (c : Ctx) : List (Alias × Sel) :=
  preWiths c ++ [(.named "index_grouped", igAll c), (.named "trace_span_ids", traceSpanIdsSel), (.named "traces_info", tracesInfoSel c)]

theorem plan_all_eq (c : Ctx) (op : ScriptOp) :
    plan c [(⟨none, none⟩, op)] = .ok (indexLimit c (tracesData c (igAll c))) := rfl

theorem igAll_eq (c : Ctx) (hl : c.limit ≠ 0) : igAll c =
    (Sel.mk [] false
      [simpleCol "trace_id" "trace_id", .col (.call "groupArray(100)" [.raw "span_id"]) "span_id"]
      (some (.withRef (.named "index_search"))) [] none none [.raw "trace_id"] none
      [.orderBy (.call "max" [.raw "index_search.timestamp_ns"]) .desc] (some (.int c.limit))).setWiths
      [(.named "trace_ids", traceIdsAll c), (.named "trace_and_span_ids", tasSel c),
       (.named "trace_and_span_ids_unnested", unnestedSel), (.named "index_search", attrless c)] := by
  unfold igAll indexLimit
  rw [if_neg hl]
  simp (config := { decide := true }) [indexGroupBy, attrless, Sel.with_, addWith1, hasAlias, Sel.setWiths, Sel.setLimit, Sel.withs,
    traceIdsAll, tasSel, unnestedSel]

/-- **the flat WITH list of the `{}` statement** -/
theorem plan_all_shape (c : Ctx) (op : ScriptOp) (S : Sel) (h : plan c [(⟨none, none⟩, op)] = .ok S) (hl : c.limit ≠ 0) :
    S = (tracesBody (tracesTableOf c) (limOf c)).setWiths (allWiths c) := by
  rw [plan_all_eq] at h
  cases h
  rw [tracesData_eq]
  have hw : (igAll c).withs = [(.named "trace_ids", traceIdsAll c), (.named "trace_and_span_ids", tasSel c),
       (.named "trace_and_span_ids_unnested", unnestedSel), (.named "index_search", attrless c)] := by
    rw [igAll_eq c hl]; rfl
  have w2 : traceSpanIdsSel.withs = [] := rfl
  have w3 : (tracesInfoSel c).withs = [] := rfl
  have hwith : (tracesBody (tracesTableOf c) none).with_
      [(.named "index_grouped", igAll c), (.named "trace_ids", traceIdsSel), (.named "trace_span_ids", traceSpanIdsSel),
       (.named "traces_info", tracesInfoSel c)] = (tracesBody (tracesTableOf c) none).setWiths (allWiths c) := by
    simp (config := { decide := true }) [Sel.with_, addWith1, hasAlias, hw, w2, w3, allWiths, preWiths]
  rw [hwith]
  unfold indexLimit limOf
  rw [if_neg hl, if_neg hl]
  rfl

/-! ### the statement given `index_grouped` -/
theorem lookup_cons_ne (a b : Alias) (t : Table) (env : Env) (h : a ≠ b) : ((b, t) :: env : Env).lookup a = env.lookup a := by
  simp [List.lookup, beq_eq_false_iff_ne.mpr h]

theorem firstCol_ids (A : List Bytes) : firstCol (A.map (fun t => [("trace_id", Val.str t)])) = A.map Val.str := by
  induction A with
  | nil => rfl
  | cons k ks ih => simp only [List.map_cons, firstCol, List.filterMap_cons] at ih ⊢; simp [ih]

theorem contains_congr (l l' : List Bytes) (h : ∀ t, t ∈ l ↔ t ∈ l') (t : Bytes) : l.contains t = l'.contains t := by
  rw [Bool.eq_iff_iff]; simp [h t]

/-- **the whole `{}` statement given `index_grouped`**: if the four sub-queries in front of `index_grouped` evaluate to `env1`, in
    which `trace_ids` is the table of the ids `A`, and `index_grouped` in that scope to the trace rows `T` holding exactly the
    traces `A`, the rows of the statement are `assemble` of the pairs of `T` -/
theorem stmt_eval_all (o : Oracles) (ao : AggOracles) (db : Db) (c : Ctx) (S : List SpanRow)
    (hdb : db (tracesTableOf c) = S.map SpanRow.row) (hdb2 : db c.tracesTable = S.map SpanRow.row)
    (A : List Bytes)
    (hA : (evalWithsJ o ao db [] (preWiths c)).lookup (.named "trace_ids") = some (A.map (fun t => [("trace_id", Val.str t)])))
    (T : Table) (hT : TraceShaped T) (hTA : ∀ t, t ∈ tidsOf (pairsOf T) ↔ t ∈ A)
    (hmain : evalCteJ o ao db (evalWithsJ o ao db [] (preWiths c)) (igAll c) = T) :
    (evalStmtJ o ao db ((tracesBody (tracesTableOf c) (limOf c)).setWiths (allWiths c))).map (fun r => r.take 5) =
      (assemble (pairsOf T) S (limNat (limOf c))).map TraceOut.row := by
  unfold evalStmtJ
  rw [selWiths_setWiths, evalCteJ, usesJ_tracesBody, if_pos rfl, evalBodyJ_setWiths, allWiths, evalWithsJ_append]
  generalize evalWithsJ o ao db [] (preWiths c) = env1 at hmain hA ⊢
  simp only [evalWithsJ, hmain]
  have e2 := traceSpanIds_eval o ao db ((.named "index_grouped", T) :: env1) T (by rfl) hT
  rw [e2]
  have hcont : ∀ t : Bytes, (firstCol (A.map (fun t => [("trace_id", Val.str t)]))).contains (Val.str t) = (tidsOf (pairsOf T)).contains t := by
    intro t
    rw [firstCol_ids, contains_map_str]
    exact contains_congr _ _ (fun t => (hTA t).symm) t
  have hlk : ∀ (x y : Table), (((.named "trace_span_ids", x) :: (.named "index_grouped", y) :: env1 : Env)).lookup (.named "trace_ids") =
      some (A.map (fun t => [("trace_id", Val.str t)])) := by
    intro x y
    rw [lookup_cons_ne _ _ _ _ (by decide), lookup_cons_ne _ _ _ _ (by decide), hA]
  have e3 := traceInfo_eval o ao db
    ((.named "trace_span_ids", (pairsOf T).flatMap (fun k => k.2.map (fun v => [("trace_id", Val.str k.1), ("span_id", Val.str v)]))) ::
      (.named "index_grouped", T) :: env1) c S (pairsOf T) hdb2 _ (hlk _ _) hcont
  rw [e3]
  refine body_eval o ao db _ (tracesTableOf c) (pairsOf T) S hdb ⟨⟨_, ?_, hcont⟩, by rfl, by rfl⟩ (limOf c) (limOf_ok c)
  rw [lookup_cons_ne _ _ _ _ (by decide)]
  exact hlk _ _

/-! ### `trace_and_span_ids` -/
/-- a row of `trace_and_span_ids` / `index_grouped` -/
def trow (k : Bytes × List Bytes) : Row := [("trace_id", .str k.1), ("span_id", .strs k.2)]

/-- the span-table rows inside the window of the traces `A` -/
def rowsOfIds (c : Ctx) (S : List SpanRow) (A : List Bytes) : List SpanRow :=
  S.filter (fun s => spanInWindow c s && A.contains s.traceId)

/-- per trace, the first 100 span ids of the rows `L` -/
def firstSpans (L : List SpanRow) (t : Bytes) : Bytes × List Bytes :=
  (t, ((L.filter (fun s => s.traceId == t)).map (·.spanId)).take 100)

def tasPairs (c : Ctx) (S : List SpanRow) (A : List Bytes) : List (Bytes × List Bytes) :=
  (dedup ((rowsOfIds c S A).map (·.traceId))).map (firstSpans (rowsOfIds c S A))

theorem srow_span (s : SpanRow) : (srow s).get "span_id" = .str s.spanId := by rfl

theorem window_srow (o : Oracles) (env : Env) (c : Ctx) (s : SpanRow) :
    (evalB o env (srow s) (ge (.raw "timestamp_ns") (.int c.fromNs)) && evalB o env (srow s) (lt (.raw "timestamp_ns") (.int c.toNs))) =
      spanInWindow c s := by
  simp [evalB, ge, lt, evalE, cmpOp, srow_ts, Val.cmpLe, Val.cmpLt, spanInWindow]

theorem evalGrp_ga100 (o : Oracles) (env : Env) (g : List Row) (e : Expr) (a : String) :
    evalGrp o env g (.col (.call "groupArray(100)" [e]) a) = .strs ((strsOf (g.map (fun r => evalE o env r e))).take 100) := by
  simp (config := { decide := true }) [evalGrp]

/-- the row a select of the shape `trace_id, groupArray(100)(span_id) … GROUP BY trace_id` makes of the group of trace `t` -/
theorem projG_trow (o : Oracles) (env : Env) (q : SpanRow → Row) (hq1 : ∀ s, (q s).get "trace_id" = .str s.traceId)
    (hq2 : ∀ s, (q s).get "span_id" = .str s.spanId) (L : List SpanRow) (t : Bytes) (hne : L ≠ []) (hall : ∀ s ∈ L, s.traceId = t) :
    projG o env [simpleCol "trace_id" "trace_id", .col (.call "groupArray(100)" [.raw "span_id"]) "span_id"] (L.map q) =
      trow (t, (L.map (·.spanId)).take 100) := by
  obtain ⟨s1, rest, rfl⟩ := List.ne_nil_iff_exists_cons.mp hne
  have hstrs : strsOf (((s1 :: rest).map q).map (fun r => evalE o env r (.raw "span_id"))) = (s1 :: rest).map (·.spanId) := by
    rw [List.map_map]
    have : (s1 :: rest).map ((fun r => evalE o env r (.raw "span_id")) ∘ q) = (s1 :: rest).map (fun s => Val.str s.spanId) := by
      apply List.map_congr_left; intro s _; simp only [Function.comp, evalE, hq2]
    rw [this, strsOf_map_str]
  have htid : evalGrp o env ((s1 :: rest).map q) (simpleCol "trace_id" "trace_id") = .str t := by
    simp only [List.map_cons, simpleCol, evalGrp, evalE, hq1, hall s1 (by simp)]
  generalize (s1 :: rest).map q = g at hstrs htid ⊢
  simp only [projG, List.map_cons, List.map_nil, evalGrp_ga100, hstrs, htid]
  rfl

theorem tas_eval (o : Oracles) (ao : AggOracles) (db : Db) (env : Env) (c : Ctx) (S : List SpanRow) (A : List Bytes)
    (hdb : db c.tracesTable = S.map SpanRow.row)
    (henv : env.lookup (.named "trace_ids") = some (A.map (fun t => [("trace_id", Val.str t)]))) :
    evalCteJ o ao db env (tasSel c) = (tasPairs c S A).map trow := by
  have hu : usesJ (tasSel c) = false := by
    simp [usesJ, tasSel, isJ, isJcall, simpleCol, whereTuple, clauseTuple, isTupleIn, and_, ge, lt]
  rw [evalCteJ, hu]
  simp only [Bool.false_eq_true, if_false]
  unfold tasSel
  rw [evalSelG_grouped]
  simp only [Bool.false_eq_true, if_false]
  simp only [groupsG]
  have hsrc : sourceRowsG o ao db env (.col (.raw c.tracesTable) "traces") = S.map srow := by
    simp [sourceRowsG, hdb, List.map_map, srow, Function.comp_def]
  rw [hsrc]
  have hf : (S.map srow).filter (fun r => optB o env r (some (and_ [and_ [ge (.raw "timestamp_ns") (.int c.fromNs),
      lt (.raw "timestamp_ns") (.int c.toNs), .isIn (.raw "trace_id") [.withRef (.named "trace_ids")]]]))) = (rowsOfIds c S A).map srow := by
    unfold rowsOfIds
    rw [List.filter_map]
    congr 1
    apply List.filter_congr
    intro s _
    simp only [Function.comp, optB, evalB_and, evalAll_cons, evalAll_nil, Bool.and_true]
    rw [← Bool.and_assoc, window_srow]
    congr 1
    simp only [evalB, evalE, henv, Option.getD_some, truthy_boolVal, firstCol_ids, srow_trace, contains_map_str]
  rw [hf]
  have hg := groups_of_records (rowsOfIds c S A) srow (fun s => s.traceId) (fun t => [Val.str t])
    (fun r => [Expr.raw "trace_id"].map (fun k => evalE o env r k))
    (by intro s; simp [evalE, srow_trace]) (by intro a b h; simpa using h)
  rw [hg]
  simp only [havingG, List.filter_eq_self.mpr (fun (g : List Row) _ => rfl), List.isEmpty_nil, if_true, limitG, tasPairs, List.map_map]
  apply List.map_congr_left
  intro t ht
  have hmem : t ∈ (rowsOfIds c S A).map (·.traceId) := (mem_dedup _ _).mp ht
  obtain ⟨s0, hs0, hs0t⟩ := List.mem_map.mp hmem
  have hne : (rowsOfIds c S A).filter (fun a => a.traceId == t) ≠ [] := by
    intro h0
    have : s0 ∈ (rowsOfIds c S A).filter (fun a => a.traceId == t) := List.mem_filter.mpr ⟨hs0, by simp [hs0t]⟩
    rw [h0] at this; simp at this
  obtain ⟨s1, rest, hs1⟩ := List.ne_nil_iff_exists_cons.mp hne
  have hs1t : s1.traceId = t := by
    have : s1 ∈ (rowsOfIds c S A).filter (fun a => a.traceId == t) := by rw [hs1]; simp
    simpa using (List.mem_filter.mp this).2
  simp only [Function.comp]
  rw [projG_trow o env srow srow_trace srow_span _ t hne (by intro s hs; simpa using (List.mem_filter.mp hs).2)]
  rfl

/-! ### `trace_and_span_ids_unnested` -/
theorem unnested_eval (o : Oracles) (ao : AggOracles) (db : Db) (env : Env) (K : List (Bytes × List Bytes))
    (henv : env.lookup (.named "trace_and_span_ids") = some (K.map trow)) :
    evalCteJ o ao db env unnestedSel = tsidsTable K := by
  have hu : usesJ unnestedSel = false := by decide
  rw [evalCteJ, hu]
  simp only [Bool.false_eq_true, if_false]
  simp only [unnestedSel, evalSelG, sourceRowsG, henv, Option.getD_some, simpleCol,
    List.foldl_nil, optB, Bool.and_true, List.isEmpty_nil, if_true, limitG, Alias.text, arrayJoinRows, Bool.false_eq_true, if_false]
  rw [List.filter_eq_self.mpr (by intro r _; rfl)]
  clear henv
  unfold tsidsTable
  induction K with
  | nil => rfl
  | cons k ks ih =>
    simp only [List.map_cons, List.flatMap_cons, List.map_append, ih]
    congr 1
    have hq : (qualify "trace_and_span_ids" (trow k)).get "trace_and_span_ids.span_id" = .strs k.2 := by rfl
    rw [hq, List.map_map]
    apply List.map_congr_left
    intro v _
    rfl

/-! ### `index_search` -/
/-- a row of `index_search` -/
def irow (s : SpanRow) : Row :=
  [("trace_id", .str s.traceId), ("span_id", .str s.spanId), ("duration", .int s.dur), ("timestamp_ns", .int s.ts)]

/-- the span-table rows inside the window whose (trace, span) is one of the pairs -/
def rowsOfPairs (c : Ctx) (S : List SpanRow) (K : List (Bytes × List Bytes)) : List SpanRow :=
  S.filter (fun s => spanInWindow c s && (pairsFlat K).contains (s.traceId, s.spanId))

/-- newest first (stable) -/
def allSearchRows (c : Ctx) (S : List SpanRow) (K : List (Bytes × List Bytes)) : List SpanRow :=
  sortBy (fun a b => rowLe [("timestamp_ns", .desc)] (irow a) (irow b)) (rowsOfPairs c S K)

theorem index_search_eval (o : Oracles) (ao : AggOracles) (db : Db) (env : Env) (c : Ctx) (S : List SpanRow) (K : List (Bytes × List Bytes))
    (hdb : db c.tracesTable = S.map SpanRow.row)
    (henv : env.lookup (.named "trace_and_span_ids_unnested") = some (tsidsTable K)) :
    evalCteJ o ao db env (attrless c) = (allSearchRows c S K).map irow := by
  have hu : usesJ (attrless c) = true := by
    simp [usesJ, attrless, Sel.with_, Sel.setWiths, isJ, simpleCol, whereTuple, clauseTuple, isTupleIn, and_, ge, lt]
  rw [evalCteJ, hu, if_pos rfl]
  simp only [attrless, Sel.with_, Sel.setWiths, evalBodyJ, List.foldl_nil, optBJ, Bool.true_and, Bool.false_eq_true, if_false,
    List.isEmpty_cons, limitG, orderKeys]
  have hsrc : sourceRowsG o ao db env (.col (.raw c.tracesTable) "traces") = S.map srow := by
    simp [sourceRowsG, hdb, List.map_map, srow, Function.comp_def]
  rw [hsrc]
  have hf : (S.map srow).filter (fun r => evalBJ o env r (and_ [and_ [ge (.raw "timestamp_ns") (.int c.fromNs),
      lt (.raw "timestamp_ns") (.int c.toNs),
      .isIn (.call "" [.raw "traces.trace_id", .raw "traces.span_id"]) [.withRef (.named "trace_and_span_ids_unnested")]]])) =
      (rowsOfPairs c S K).map srow := by
    unfold rowsOfPairs
    rw [List.filter_map]
    congr 1
    apply List.filter_congr
    intro s _
    have hw := window_srow o env c s
    simp only [ge, lt] at hw
    simp only [Function.comp, and_, ge, lt, evalBJ, evalAllJ, if_true, Bool.and_true, evalE, henv, Option.getD_some,
      tsidsTable, firstTwo_pairs, srow_qtrace, srow_qspan, contains_map_pair]
    rw [← Bool.and_assoc]
    congr 1
  rw [hf, List.map_map]
  have hp : (rowsOfPairs c S K).map (project o env [simpleCol "trace_id" "trace_id", simpleCol "span_id" "span_id",
      simpleCol "duration_ns" "duration", simpleCol "timestamp_ns" "timestamp_ns"] ∘ srow) = (rowsOfPairs c S K).map irow := by
    apply List.map_congr_left
    intro s _
    rfl
  rw [hp]
  exact sortBy_map' _ _ irow (fun _ _ => rfl) _

/-! ### `index_grouped` -/
/-- a row of `index_search` as `index_grouped` sees it -/
def gqrow (s : SpanRow) : Row := qualify "index_search" (irow s)

theorem gq_trace (s : SpanRow) : (gqrow s).get "trace_id" = .str s.traceId := by rfl
theorem gq_span (s : SpanRow) : (gqrow s).get "span_id" = .str s.spanId := by rfl
theorem gq_qts (s : SpanRow) : (gqrow s).get "index_search.timestamp_ns" = .int s.ts := by rfl

/-- the newest of the rows `L` of trace `t` -/
def keptRec (L : List SpanRow) (t : Bytes) : Int := listMax ((L.filter (fun s => s.traceId == t)).map (·.ts))

/-- `index_grouped` over the rows `L` of `index_search`: one row per trace of `L` with its first 100 span ids, the trace with
    the newest row of `L` first, LIMIT -/
theorem igAll_eval (o : Oracles) (ao : AggOracles) (db : Db) (env : Env) (c : Ctx) (hl : c.limit ≠ 0) (L : List SpanRow)
    (henv : env.lookup (.named "index_search") = some (L.map irow)) :
    evalCteJ o ao db env (igAll c) =
      (((sortBy (fun a b => decide (keptRec L b ≤ keptRec L a)) (dedup (L.map (·.traceId)))).take c.limit.toNat).map (firstSpans L)).map trow := by
  rw [igAll_eq c hl]
  have hu : usesJ ((Sel.mk [] false
      [simpleCol "trace_id" "trace_id", .col (.call "groupArray(100)" [.raw "span_id"]) "span_id"]
      (some (.withRef (.named "index_search"))) [] none none [.raw "trace_id"] none
      [.orderBy (.call "max" [.raw "index_search.timestamp_ns"]) .desc] (some (.int c.limit))).setWiths
      [(.named "trace_ids", traceIdsAll c), (.named "trace_and_span_ids", tasSel c),
       (.named "trace_and_span_ids_unnested", unnestedSel), (.named "index_search", attrless c)]) = false := by
    simp [usesJ, Sel.setWiths, isJ, isJcall, simpleCol, whereTuple]
  rw [evalCteJ, hu]
  simp only [Bool.false_eq_true, if_false, Sel.setWiths]
  rw [evalSelG_grouped]
  simp only [Bool.false_eq_true, if_false]
  simp only [groupsG]
  have hsrc : sourceRowsG o ao db env (.withRef (.named "index_search")) = L.map gqrow := by
    simp [sourceRowsG, henv, List.map_map, gqrow, Function.comp_def, Alias.text]
  rw [hsrc]
  have hft : (L.map gqrow).filter (fun r => optB o env r none) = L.map gqrow := List.filter_eq_self.mpr (by intro r _; rfl)
  rw [hft]
  have hg := groups_of_records L gqrow (fun s => s.traceId) (fun t => [Val.str t])
    (fun r => [Expr.raw "trace_id"].map (fun k => evalE o env r k))
    (by intro s; simp [evalE, gq_trace]) (by intro a b h; simpa using h)
  rw [hg]
  simp only [havingG, List.filter_eq_self.mpr (fun (g : List Row) _ => rfl), List.isEmpty_cons, Bool.false_eq_true, if_false, limitG]
  generalize hkeys : dedup (L.map (fun s => s.traceId)) = keys
  have hkmem : ∀ t, t ∈ keys ↔ ∃ s ∈ L, s.traceId = t := by
    intro t
    rw [← hkeys, mem_dedup, List.mem_map]
  have hkey : ∀ t ∈ keys, evalGrp o env ((L.filter (fun a => a.traceId == t)).map gqrow)
      (.call "max" [.raw "index_search.timestamp_ns"]) = .int (keptRec L t) := by
    intro t ht
    obtain ⟨s0, hs0, hs0t⟩ := (hkmem t).mp ht
    have hl' : ((L.filter (fun s => s.traceId == t)).map (·.ts)) ≠ [] := by
      intro h0
      have : s0 ∈ L.filter (fun s => s.traceId == t) := List.mem_filter.mpr ⟨hs0, by simp [hs0t]⟩
      have h1 : s0.ts ∈ (L.filter (fun s => s.traceId == t)).map (·.ts) := List.mem_map.mpr ⟨s0, this, rfl⟩
      rw [h0] at h1; simp at h1
    obtain ⟨m, hm, hmax⟩ := evalGrp_max o env ((L.filter (fun a => a.traceId == t)).map gqrow) "index_search.timestamp_ns"
      ((L.filter (fun s => s.traceId == t)).map (·.ts)) hl' (by
        intro i
        simp only [List.map_map, List.mem_map, Function.comp, gq_qts]
        constructor
        · rintro ⟨s, hs, hi⟩
          exact ⟨s, hs, by simpa using hi⟩
        · rintro ⟨s, hs, hi⟩
          exact ⟨s, hs, by rw [hi]⟩)
    rw [hm, ← (listMax_isMax _ hl').unique hmax]
    rfl
  have hs1 : sortBy (grpLe o env [simpleCol "trace_id" "trace_id", .col (.call "groupArray(100)" [.raw "span_id"]) "span_id"]
          [.orderBy (.call "max" [.raw "index_search.timestamp_ns"]) .desc])
        (keys.map (fun k => (L.filter (fun a => a.traceId == k)).map gqrow)) =
      (sortBy (fun a b => grpLe o env [simpleCol "trace_id" "trace_id", .col (.call "groupArray(100)" [.raw "span_id"]) "span_id"]
          [.orderBy (.call "max" [.raw "index_search.timestamp_ns"]) .desc]
          ((L.filter (fun x => x.traceId == a)).map gqrow) ((L.filter (fun x => x.traceId == b)).map gqrow)) keys).map
        (fun k => (L.filter (fun a => a.traceId == k)).map gqrow) :=
    sortBy_map' _ _ _ (fun _ _ => rfl) keys
  rw [hs1]
  have hle : ∀ a ∈ keys, ∀ b ∈ keys, grpLe o env [simpleCol "trace_id" "trace_id", .col (.call "groupArray(100)" [.raw "span_id"]) "span_id"]
        [.orderBy (.call "max" [.raw "index_search.timestamp_ns"]) .desc]
        ((L.filter (fun x => x.traceId == a)).map gqrow) ((L.filter (fun x => x.traceId == b)).map gqrow) =
      decide (keptRec L b ≤ keptRec L a) := by
    intro a ha b hb
    rw [grpLe_call, hkey a ha, hkey b hb]
    simp only [Val.cmpLe]
    by_cases h : keptRec L a = keptRec L b
    · simp [h]
    · have : (Val.int (keptRec L a) == Val.int (keptRec L b)) = false := by simp; exact h
      simp [this]
  rw [sortBy_congr_on _ _ keys hle]
  generalize hsk : sortBy (fun a b => decide (keptRec L b ≤ keptRec L a)) keys = sk
  rw [← List.map_take, List.map_map, List.map_map]
  apply List.map_congr_left
  intro t ht
  have htk : t ∈ keys := by
    have := List.mem_of_mem_take ht
    rw [← hsk] at this
    exact (ListAux.mem_sortBy _ _ _).mp this
  obtain ⟨s0, hs0, hs0t⟩ := (hkmem t).mp htk
  have hne : L.filter (fun a => a.traceId == t) ≠ [] := by
    intro h0
    have : s0 ∈ L.filter (fun a => a.traceId == t) := List.mem_filter.mpr ⟨hs0, by simp [hs0t]⟩
    rw [h0] at this; simp at this
  simp only [Function.comp]
  rw [projG_trow o env gqrow gq_trace gq_span _ t hne (by intro s hs; simpa using (List.mem_filter.mp hs).2)]
  rfl

/-! ### the four sub-queries in front of `index_grouped`, and `index_grouped` -/
/-- what `index_grouped` of the `{}` statement holds, given the ids `A` that `trace_ids` picked: per trace of `A` the first 100
    span ids among the span-table rows that survive `trace_and_span_ids` (first 100 rows per trace, table order) and the window,
    read newest first; the traces ordered by the newest of these rows -/
def allPairs (c : Ctx) (S : List SpanRow) (A : List Bytes) : List (Bytes × List Bytes) :=
  let L := allSearchRows c S (tasPairs c S A)
  (sortBy (fun a b => decide (keptRec L b ≤ keptRec L a)) (dedup (L.map (·.traceId)))).map (firstSpans L)

theorem pairsOf_trow (K : List (Bytes × List Bytes)) : pairsOf (K.map trow) = K := by
  induction K with
  | nil => rfl
  | cons k ks ih => rw [List.map_cons, pairsOf_cons (trow k) _ k.1 k.2 rfl rfl, ih]

theorem traceShaped_trow (K : List (Bytes × List Bytes)) : TraceShaped (K.map trow) := by
  intro r hr
  obtain ⟨k, _, rfl⟩ := List.mem_map.mp hr
  exact ⟨k.1, k.2, rfl, rfl⟩

theorem pre_eval (o : Oracles) (ao : AggOracles) (db : Db) (c : Ctx) (S : List SpanRow) (A : List Bytes)
    (hdb : db c.tracesTable = S.map SpanRow.row)
    (hA : evalSelG o ao db false [] (traceIdsAll c) = A.map (fun t => [("trace_id", Val.str t)])) :
    evalWithsJ o ao db [] (preWiths c) =
      [(.named "index_search", (allSearchRows c S (tasPairs c S A)).map irow),
       (.named "trace_and_span_ids_unnested", tsidsTable (tasPairs c S A)),
       (.named "trace_and_span_ids", (tasPairs c S A).map trow),
       (.named "trace_ids", A.map (fun t => [("trace_id", Val.str t)]))] := by
  have h1 : evalCteJ o ao db [] (traceIdsAll c) = A.map (fun t => [("trace_id", Val.str t)]) := by
    have hu : usesJ (traceIdsAll c) = false := by
      simp [usesJ, traceIdsAll, isJ, isJcall, simpleCol, whereTuple, clauseTuple, isTupleIn, and_, ge, lt]
    rw [evalCteJ, hu]
    simpa using hA
  simp only [preWiths, evalWithsJ, h1]
  rw [tas_eval o ao db _ c S A hdb (by rfl)]
  rw [unnested_eval o ao db _ (tasPairs c S A) (by rfl)]
  rw [index_search_eval o ao db _ c S (tasPairs c S A) hdb (by rfl)]

/-! ### which traces and spans `index_grouped` holds -/
theorem mem_pairsFlat (K : List (Bytes × List Bytes)) (t v : Bytes) : (t, v) ∈ pairsFlat K ↔ ∃ k ∈ K, k.1 = t ∧ v ∈ k.2 := by
  simp only [pairsFlat, List.mem_flatMap, List.mem_map, Prod.mk.injEq]
  constructor
  · rintro ⟨k, hk, v', hv', rfl, rfl⟩; exact ⟨k, hk, rfl, hv'⟩
  · rintro ⟨k, hk, rfl, hv⟩; exact ⟨k, hk, v, hv, rfl, rfl⟩

theorem mem_rowsOfIds (c : Ctx) (S : List SpanRow) (A : List Bytes) (s : SpanRow) :
    s ∈ rowsOfIds c S A ↔ s ∈ S ∧ spanInWindow c s = true ∧ s.traceId ∈ A := by
  simp [rowsOfIds, List.mem_filter]

theorem mem_firstSpans (L : List SpanRow) (t v : Bytes) (h : v ∈ (firstSpans L t).2) : ∃ s ∈ L, s.traceId = t ∧ s.spanId = v := by
  obtain ⟨s, hs, rfl⟩ := List.mem_map.mp (List.mem_of_mem_take h)
  obtain ⟨h1, h2⟩ := List.mem_filter.mp hs
  exact ⟨s, h1, by simpa using h2, rfl⟩

theorem firstSpans_ne (L : List SpanRow) (t : Bytes) (s : SpanRow) (hs : s ∈ L) (ht : s.traceId = t) :
    ∃ s1 ∈ L, s1.traceId = t ∧ s1.spanId ∈ (firstSpans L t).2 := by
  have hne : L.filter (fun a => a.traceId == t) ≠ [] := by
    intro h0
    have : s ∈ L.filter (fun a => a.traceId == t) := List.mem_filter.mpr ⟨hs, by simp [ht]⟩
    rw [h0] at this; simp at this
  obtain ⟨s1, rest, hs1⟩ := List.ne_nil_iff_exists_cons.mp hne
  have hm : s1 ∈ L.filter (fun a => a.traceId == t) := by rw [hs1]; simp
  refine ⟨s1, (List.mem_filter.mp hm).1, by simpa using (List.mem_filter.mp hm).2, ?_⟩
  simp [firstSpans, hs1]

theorem mem_allSearchRows (c : Ctx) (S : List SpanRow) (K : List (Bytes × List Bytes)) (s : SpanRow) :
    s ∈ allSearchRows c S K ↔ s ∈ S ∧ spanInWindow c s = true ∧ (s.traceId, s.spanId) ∈ pairsFlat K := by
  simp [allSearchRows, ListAux.mem_sortBy, rowsOfPairs, List.mem_filter]

/-- every row of `index_search` is a span-table row inside the window of a trace of `A` -/
theorem allSearchRows_sound (c : Ctx) (S : List SpanRow) (A : List Bytes) (s : SpanRow) (hs : s ∈ allSearchRows c S (tasPairs c S A)) :
    s ∈ S ∧ spanInWindow c s = true ∧ s.traceId ∈ A := by
  obtain ⟨h1, h2, h3⟩ := (mem_allSearchRows c S _ s).mp hs
  refine ⟨h1, h2, ?_⟩
  obtain ⟨k, hk, hk1, hk2⟩ := (mem_pairsFlat _ _ _).mp h3
  obtain ⟨t, _, rfl⟩ := List.mem_map.mp hk
  obtain ⟨s', hs', ht', _⟩ := mem_firstSpans _ _ _ hk2
  have : t = s.traceId := hk1
  rw [← this, ← ht']
  exact ((mem_rowsOfIds c S A s').mp hs').2.2

/-- every trace of `A` with a row inside the window has a row in `index_search` -/
theorem allSearchRows_complete (c : Ctx) (S : List SpanRow) (A : List Bytes) (t : Bytes) (ht : t ∈ A)
    (hw : ∃ s ∈ S, s.traceId = t ∧ spanInWindow c s = true) : ∃ s ∈ allSearchRows c S (tasPairs c S A), s.traceId = t := by
  obtain ⟨s0, hs0, hs0t, hs0w⟩ := hw
  have h0 : s0 ∈ rowsOfIds c S A := (mem_rowsOfIds c S A s0).mpr ⟨hs0, hs0w, hs0t ▸ ht⟩
  obtain ⟨s1, hs1, hs1t, hs1v⟩ := firstSpans_ne (rowsOfIds c S A) t s0 h0 hs0t
  obtain ⟨g1, g2, _⟩ := (mem_rowsOfIds c S A s1).mp hs1
  refine ⟨s1, (mem_allSearchRows c S _ s1).mpr ⟨g1, g2, (mem_pairsFlat _ _ _).mpr ⟨firstSpans (rowsOfIds c S A) t, ?_, hs1t.symm, hs1v⟩⟩, hs1t⟩
  exact List.mem_map.mpr ⟨t, (mem_dedup _ _).mpr (List.mem_map.mpr ⟨s0, h0, hs0t⟩), rfl⟩

theorem allPairs_fst (c : Ctx) (S : List SpanRow) (A : List Bytes) :
    (allPairs c S A).map (·.1) = sortBy (fun a b => decide (keptRec (allSearchRows c S (tasPairs c S A)) b ≤ keptRec (allSearchRows c S (tasPairs c S A)) a))
      (dedup ((allSearchRows c S (tasPairs c S A)).map (·.traceId))) := by
  simp only [allPairs, List.map_map]
  conv => rhs; rw [← List.map_id (sortBy _ _)]
  apply List.map_congr_left
  intro t _
  rfl

theorem mem_allPairs_fst (c : Ctx) (S : List SpanRow) (A : List Bytes) (t : Bytes) :
    t ∈ (allPairs c S A).map (·.1) ↔ ∃ s ∈ allSearchRows c S (tasPairs c S A), s.traceId = t := by
  rw [allPairs_fst, ListAux.mem_sortBy, mem_dedup, List.mem_map]

theorem allPairs_nodup (c : Ctx) (S : List SpanRow) (A : List Bytes) : ((allPairs c S A).map (·.1)).Nodup := by
  rw [allPairs_fst]
  exact (ListAux.sortBy_perm _ _).nodup_iff.mpr (nodup_dedup _)

theorem allPairs_perm (c : Ctx) (S : List SpanRow) (A : List Bytes) (hn : A.Nodup)
    (hA : ∀ t ∈ A, ∃ s ∈ S, s.traceId = t ∧ spanInWindow c s = true) : ((allPairs c S A).map (·.1)).Perm A := by
  rw [List.perm_ext_iff_of_nodup (allPairs_nodup c S A) hn]
  intro t
  rw [mem_allPairs_fst]
  constructor
  · rintro ⟨s, hs, rfl⟩; exact (allSearchRows_sound c S A s hs).2.2
  · intro ht; exact allSearchRows_complete c S A t ht (hA t ht)

/-! ### the whole statement -/
/-- **the `{}` statement, explicitly**: its rows are `assemble` of `allPairs` of the ids `A` the sub-query `trace_ids` picked -/
theorem plan_all_traces_explicit (o : Oracles) (ao : AggOracles) (c : Ctx) (d : TraceDb) (op : ScriptOp) (S : Sel)
    (h : plan c [(⟨none, none⟩, op)] = .ok S) (hlim : 0 < c.limit) (htab : TablesDistinct c) :
    ∃ A : List Bytes, IsTopN (allTraceRec c d) (InWindowTrace c d) c.limit.toNat A ∧
      (evalStmtJ o ao (d.toDb c) S).map (fun r => r.take 5) =
        (assemble (allPairs c d.spansT A) d.spansT (some c.limit.toNat)).map TraceOut.row := by
  have hl : c.limit ≠ 0 := by omega
  obtain ⟨hdb1, hdb2⟩ := toDb_traces d c htab
  obtain ⟨A, hA, htop⟩ := all_traces_choice o ao c d [] hdb2
  refine ⟨A, htop, ?_⟩
  rw [plan_all_shape c op S h hl]
  have hpre := pre_eval o ao (d.toDb c) c d.spansT A hdb2 hA
  have hperm := allPairs_perm c d.spansT A htop.nodup htop.sound
  have hig : evalCteJ o ao (d.toDb c) (evalWithsJ o ao (d.toDb c) [] (preWiths c)) (igAll c) = (allPairs c d.spansT A).map trow := by
    rw [hpre, igAll_eval o ao (d.toDb c) _ c hl (allSearchRows c d.spansT (tasPairs c d.spansT A)) (by rfl)]
    congr 1
    rw [List.take_of_length_le]
    · rfl
    · rw [← allPairs_fst, hperm.length_eq]
      exact htop.atMost
  have hstmt := stmt_eval_all o ao (d.toDb c) c d.spansT hdb1 hdb2 A (by rw [hpre]; rfl) _ (traceShaped_trow _)
    (by intro t; rw [pairsOf_trow]; exact hperm.mem_iff) hig
  rw [pairsOf_trow] at hstmt
  have hlimn : limNat (limOf c) = some c.limit.toNat := by simp [limOf, hl, limNat]
  rw [hlimn] at hstmt
  exact hstmt

/-- the span arrays of `index_grouped`: non-empty, at most 100, spans of the trace inside the window -/
theorem allPairs_spans (c : Ctx) (d : TraceDb) (A : List Bytes) (k : Bytes × List Bytes) (hk : k ∈ allPairs c d.spansT A) :
    k.2 ≠ [] ∧ k.2.length ≤ 100 ∧ ∀ v ∈ k.2, v ∈ allTraceSpans c d k.1 := by
  have hk1 : k.1 ∈ (allPairs c d.spansT A).map (·.1) := List.mem_map.mpr ⟨k, hk, rfl⟩
  obtain ⟨s, hs, hst⟩ := (mem_allPairs_fst c d.spansT A k.1).mp hk1
  obtain ⟨t, _, rfl⟩ := List.mem_map.mp hk
  have ht : (firstSpans (allSearchRows c d.spansT (tasPairs c d.spansT A)) t).1 = t := rfl
  rw [ht] at hst ⊢
  refine ⟨?_, ?_, ?_⟩
  · obtain ⟨s1, _, _, hv⟩ := firstSpans_ne _ t s hs hst
    intro h0; rw [h0] at hv; simp at hv
  · exact Nat.le_trans (List.length_take_le _ _) (Nat.le_refl _)
  · intro v hv
    obtain ⟨s', hs', hs't, hs'v⟩ := mem_firstSpans _ _ _ hv
    obtain ⟨g1, g2, _⟩ := allSearchRows_sound c d.spansT A s' hs'
    exact List.mem_map.mpr ⟨s', List.mem_filter.mpr ⟨g1, by simp [hs't, g2]⟩, hs'v⟩

/-- `index_grouped` comes ordered by the newest KEPT row of a trace, newest first -/
theorem allPairs_sorted (c : Ctx) (S : List SpanRow) (A : List Bytes) :
    ((allPairs c S A).map (·.1)).Pairwise (fun a b =>
      keptRec (allSearchRows c S (tasPairs c S A)) b ≤ keptRec (allSearchRows c S (tasPairs c S A)) a) := by
  rw [allPairs_fst]
  have := sortBy_sorted_on (fun a b => decide (keptRec (allSearchRows c S (tasPairs c S A)) b ≤ keptRec (allSearchRows c S (tasPairs c S A)) a))
    (fun _ => True)
    (by intro a b _ _; simp only [decide_eq_true_eq]; exact Int.le_total _ _ |>.symm)
    (by intro a b c' _ _ _ h1 h2; simp only [decide_eq_true_eq] at h1 h2 ⊢; exact Int.le_trans h2 h1)
    (dedup ((allSearchRows c S (tasPairs c S A)).map (·.traceId))) (fun _ _ => trivial)
  exact this.imp (fun h => by simpa using h)

/-- **`{}`: the whole statement.** For every window, positive limit and database: there is a choice `A` of the `limit` traces with
    the newest span-table row inside the window (what the first sub-query `trace_ids` returns) such that `index_grouped` holds
    exactly the traces of `A`, each once, each with a non-empty array of at most 100 ids of its spans inside the window, and the
    rows of the WHOLE statement, on the columns trace_id, span_id, duration, timestamp_ns, start_time_unix_nano, are
    `assemble` of these pairs. -/
theorem plan_all_traces (o : Oracles) (ao : AggOracles) (c : Ctx) (d : TraceDb) (op : ScriptOp) (S : Sel)
    (h : plan c [(⟨none, none⟩, op)] = .ok S) (hlim : 0 < c.limit) (htab : TablesDistinct c) :
    ∃ (A : List Bytes) (K : List (Bytes × List Bytes)),
      IsTopN (allTraceRec c d) (InWindowTrace c d) c.limit.toNat A ∧
      K = allPairs c d.spansT A ∧
      (∀ t, t ∈ K.map (·.1) ↔ t ∈ A) ∧ (K.map (·.1)).Nodup ∧ K.length = A.length ∧
      (∀ k ∈ K, k.2 ≠ [] ∧ k.2.length ≤ 100 ∧ ∀ v ∈ k.2, v ∈ allTraceSpans c d k.1) ∧
      (evalStmtJ o ao (d.toDb c) S).map (fun r => r.take 5) = (assemble K d.spansT (some c.limit.toNat)).map TraceOut.row := by
  obtain ⟨A, htop, hrows⟩ := plan_all_traces_explicit o ao c d op S h hlim htab
  have hperm := allPairs_perm c d.spansT A htop.nodup htop.sound
  refine ⟨A, allPairs c d.spansT A, htop, rfl, fun t => hperm.mem_iff, allPairs_nodup c d.spansT A, ?_,
    fun k hk => allPairs_spans c d A k hk, hrows⟩
  have := hperm.length_eq
  simpa using this

/-- the statement `Qryn.C11.plan_all_traces_full`, proved -/
theorem plan_all_traces_full_holds :
    ∀ (o : Oracles) (ao : AggOracles) (c : Ctx) (d : TraceDb) (op : ScriptOp) (S : Sel),
      plan c [(⟨none, none⟩, op)] = .ok S → 0 < c.limit → TablesDistinct c →
      ∃ K : List (Bytes × List Bytes),
        (K.map (·.1)).Nodup ∧ K.length ≤ c.limit.toNat ∧
        (∀ k ∈ K, (∃ s ∈ d.spansT, s.traceId = k.1 ∧ spanInWindow c s = true) ∧ k.2 ≠ [] ∧ k.2.length ≤ 100 ∧ ∀ v ∈ k.2, v ∈ allTraceSpans c d k.1) ∧
        (∀ m, (∃ s ∈ d.spansT, s.traceId = m ∧ spanInWindow c s = true) → m ∉ K.map (·.1) →
          K.length = c.limit.toNat ∧ ∀ k ∈ K, allTraceRec c d m ≤ allTraceRec c d k.1) ∧
        (evalStmtJ o ao (d.toDb c) S).map (fun r => r.take 5) = (assemble K d.spansT (some c.limit.toNat)).map TraceOut.row := by
  intro o ao c d op S h hlim htab
  obtain ⟨A, K, htop, _, hmem, hnd, hlen, hsp, hrows⟩ := plan_all_traces o ao c d op S h hlim htab
  refine ⟨K, hnd, by rw [hlen]; exact htop.atMost, ?_, ?_, hrows⟩
  · intro k hk
    have hkA : k.1 ∈ A := (hmem k.1).mp (List.mem_map.mpr ⟨k, hk, rfl⟩)
    exact ⟨htop.sound k.1 hkA, hsp k hk⟩
  · intro m hm hnot
    have hmA : m ∉ A := fun hmA => hnot ((hmem m).mpr hmA)
    obtain ⟨h1, h2⟩ := htop.most m hm hmA
    refine ⟨by rw [hlen]; exact h1, ?_⟩
    intro k hk
    exact h2 k.1 ((hmem k.1).mp (List.mem_map.mpr ⟨k, hk, rfl⟩))

end Qryn.TraceQL
