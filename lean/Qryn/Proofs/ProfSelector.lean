import Qryn.Prof.Selector
import Qryn.Proofs.BitSetQuery
import Qryn.Proofs.PromSelect
/-! Lemmas for the Pyroscope selector planner. -/
namespace Qryn.Prof
open Qryn Qryn.Prom Qryn.Prom.Bits

/-! ties to `Gen.ProfSelect.opClauses` (the switch of `getMatcherClause`) -/
theorem plookup_eq : Gen.ProfSelect.opClauses.lookup Op.eq.str = some ("==", false) := by decide
theorem plookup_ne : Gen.ProfSelect.opClauses.lookup Op.ne.str = some ("!=", false) := by decide
theorem plookup_re : Gen.ProfSelect.opClauses.lookup Op.re.str = some ("==", true) := by decide
theorem plookup_nre : Gen.ProfSelect.opClauses.lookup Op.nre.str = some ("!=", true) := by decide
theorem fnOf_Le : fnOf "Le" = "<=" := by decide

/-- the clause `getMatcherClause` builds for a field means "op holds between the field and the value" -/
theorem matcherClause_spec (re : Bytes → Bytes → Bool) (field : String) (op : Op) (val : Bytes) :
    ∃ c, matcherClause field op val = some c ∧
      ∀ r x, c.evalX re r x = (match fieldSem field with
        | some g => opHoldsP re op (g r x) val
        | none => false) := by
  cases op
  · refine ⟨_, by simp only [matcherClause, plookup_eq]; rfl, ?_⟩
    intro r x
    cases hf : fieldSem field <;> simp [PCond.evalX, cmpBytes, opHoldsP, hf]
  · refine ⟨_, by simp only [matcherClause, plookup_ne]; rfl, ?_⟩
    intro r x
    cases hf : fieldSem field <;> simp [PCond.evalX, cmpBytes, opHoldsP, hf]
  · refine ⟨_, by simp only [matcherClause, plookup_re]; rfl, ?_⟩
    intro r x
    cases hf : fieldSem field with
    | none => simp [PCond.evalX, hf]
    | some g => cases h : re val (g r x) <;> simp [PCond.evalX, cmpInt, opHoldsP, hf, h]
  · refine ⟨_, by simp only [matcherClause, plookup_nre]; rfl, ?_⟩
    intro r x
    cases hf : fieldSem field with
    | none => simp [PCond.evalX, hf]
    | some g => cases h : re val (g r x) <;> simp [PCond.evalX, cmpInt, opHoldsP, hf, h]

theorem fieldSem_val : fieldSem "val" = some (fun r _ => r.val) := by simp [fieldSem]
theorem fieldSem_key : fieldSem "key" = some (fun r _ => r.key) := by simp [fieldSem]

/-- every selector gets a clause, global or key/value according to its name, meaning `selHolds` -/
theorem clauseOf_spec (re : Bytes → Bytes → Bool) (s : Selector) :
    (isGlobal s = true ∧ ∃ c, clauseOf s = some (.inl c) ∧ ∀ r, c.eval re r = selHolds re s r) ∨
    (isGlobal s = false ∧ ∃ c, clauseOf s = some (.inr c) ∧ ∀ r, c.eval re r = selHolds re s r) := by
  cases hp : pseudoOf s.name with
  | some p =>
    obtain ⟨field, inArr⟩ := p
    left
    obtain ⟨c, hc, hce⟩ := matcherClause_spec re field s.op (selVal s)
    refine ⟨by simp [isGlobal, hp], ?_⟩
    cases inArr
    · refine ⟨c, by simp [clauseOf, hp, hc], ?_⟩
      intro r
      simp only [PCond.eval, hce, selHolds, hp]
      cases fieldSem field <;> simp
    · refine ⟨.arrayExists c, by simp [clauseOf, hp, hc], ?_⟩
      intro r
      simp only [PCond.eval, PCond.evalX, hce, selHolds, hp]
      cases fieldSem field <;> simp
  | none =>
    right
    obtain ⟨c, hc, hce⟩ := matcherClause_spec re "val" s.op (selVal s)
    refine ⟨by simp [isGlobal, hp], .and2 (.cmp (fnOf "Eq") "key" s.name) c, by simp [clauseOf, hp, hc], ?_⟩
    intro r
    simp only [PCond.eval, PCond.evalX, hce, selHolds, hp, fieldSem_val, fieldSem_key, fnOf_Eq, cmpBytes]
    simp

theorem plan_spec (re : Bytes → Bytes → Bool) (table : String) (fromDate toDate : Bytes) (sels : List Selector) :
    ∃ q, plan table fromDate toDate sels = some q ∧ q.table = table ∧ q.fromDate = fromDate ∧ q.toDate = toDate ∧
      (∀ r, q.globals.map (·.eval re r) = (sels.filter isGlobal).map (selHolds re · r)) ∧
      (∀ r, q.kvs.map (·.eval re r) = (sels.filter (fun s => !isGlobal s)).map (selHolds re · r)) := by
  induction sels with
  | nil => exact ⟨_, rfl, rfl, rfl, rfl, fun _ => rfl, fun _ => rfl⟩
  | cons s ss ih =>
    obtain ⟨q, hq, h1, h2, h3, hg, hk⟩ := ih
    rcases clauseOf_spec re s with ⟨hgl, c, hc, hce⟩ | ⟨hgl, c, hc, hce⟩
    · refine ⟨{ q with globals := c :: q.globals }, by simp [plan, hc, hq], h1, h2, h3, ?_, ?_⟩
      · intro r; simp [hgl, hce r, hg r]
      · intro r; simp [hgl, hk r]
    · refine ⟨{ q with kvs := c :: q.kvs }, by simp [plan, hc, hq], h1, h2, h3, ?_, ?_⟩
      · intro r; simp [hgl, hg r]
      · intro r; simp [hgl, hce r, hk r]

/-- the direct reading of a selector list over the index rows -/
def Selected (re : Bytes → Bytes → Bool) (fromDate toDate : Bytes) (sels : List Selector)
    (tbl : List PRow) (f : Nat) : Prop :=
  let gs := sels.filter isGlobal
  let ks := sels.filter (fun s => !isGlobal s)
  (∃ r ∈ tbl, r.fp = f ∧ dateOk fromDate toDate r = true ∧ (∀ g ∈ gs, selHolds re g r = true) ∧
      (ks = [] ∨ ∃ k ∈ ks, selHolds re k r = true)) ∧
  ∀ k ∈ ks, ∃ r ∈ tbl, r.fp = f ∧ dateOk fromDate toDate r = true ∧ (∀ g ∈ gs, selHolds re g r = true) ∧
      selHolds re k r = true

theorem plan_correct (re : Bytes → Bytes → Bool) (W : Nat) (table : String) (fromDate toDate : Bytes)
    (sels : List Selector) (hW : (sels.filter (fun s => !isGlobal s)).length ≤ W)
    (h63 : (sels.filter (fun s => !isGlobal s)).length ≤ 63) (tbl : List PRow) (f : Nat) :
    ∃ q, plan table fromDate toDate sels = some q ∧
      (f ∈ q.eval re W tbl ↔ Selected re fromDate toDate sels tbl f) := by
  obtain ⟨q, hq, _, h2, h3, hg, hk⟩ := plan_spec re table fromDate toDate sels
  refine ⟨q, hq, ?_⟩
  have hklen : q.kvs.length = (sels.filter (fun s => !isGlobal s)).length := by
    have := congrArg List.length (hk ⟨[], [], [], [], [], [], 0⟩)
    simpa using this
  have hadm : ∀ r, q.rowOk re r = true ↔
      (dateOk fromDate toDate r = true ∧ ∀ g ∈ sels.filter isGlobal, selHolds re g r = true) := by
    intro r
    have hall : q.globals.all (·.eval re r) = (sels.filter isGlobal).all (selHolds re · r) := by
      have := congrArg (fun l => l.all id) (hg r)
      simpa [List.all_map] using this
    have e1 : cmpBytes ">=" r.date fromDate = bytesLe fromDate r.date := by simp [cmpBytes]
    have e2 : cmpBytes "<=" r.date toDate = bytesLe r.date toDate := by simp [cmpBytes]
    simp only [PQuery.rowOk, hall, fnOf_Ge, fnOf_Le, h2, h3, e1, e2, dateOk, Bool.and_eq_true, List.all_eq_true]
  unfold PQuery.eval Selected
  by_cases hemp : q.kvs.isEmpty = true
  · have hks : sels.filter (fun s => !isGlobal s) = [] := by
      have : q.kvs.length = 0 := by simpa using hemp
      exact List.eq_nil_of_length_eq_zero (by omega)
    simp only [hemp, if_true, List.mem_eraseDups, List.mem_map]
    rw [hks]
    constructor
    · rintro ⟨r, hr, hf⟩
      obtain ⟨hr, ha⟩ := List.mem_filter.mp hr
      exact ⟨⟨r, hr, hf, ((hadm r).mp ha).1, ((hadm r).mp ha).2, Or.inl rfl⟩, by intro k hk'; cases hk'⟩
    · rintro ⟨⟨r, hr, hf, hd, hgl, _⟩, _⟩
      exact ⟨r, List.mem_filter.mpr ⟨hr, (hadm r).mpr ⟨hd, hgl⟩⟩, hf⟩
  · have h63' : q.kvs.length ≤ 63 := by omega
    have hemp' : q.kvs.isEmpty = false := by simpa using hemp
    simp only [hemp', h63', ↓reduceIte, Bool.false_eq_true]
    rw [mem_bitsetSelect W _ _ _ tbl (by simpa [hklen] using hW) f]
    have hcond : ∀ (i : Nat) (hi : i < (q.kvs.map (fun (c : PCond) (r : PRow) => c.eval re r)).length) (r : PRow),
        ∃ hi' : i < (sels.filter (fun s => !isGlobal s)).length,
          (q.kvs.map (fun (c : PCond) (r : PRow) => c.eval re r))[i] r = selHolds re (sels.filter (fun s => !isGlobal s))[i] r := by
      intro i hi r
      have hi' : i < (sels.filter (fun s => !isGlobal s)).length := by simpa [hklen] using hi
      refine ⟨hi', ?_⟩
      have := congrArg (fun l => l[i]?) (hk r)
      simp only [List.getElem?_map] at this
      have hi'' : i < q.kvs.length := by simpa using hi
      simp only [List.getElem?_eq_getElem hi'', List.getElem?_eq_getElem hi', Option.map_some] at this
      simpa using this
    have hks_ne : sels.filter (fun s => !isGlobal s) ≠ [] := by
      intro h
      have : q.kvs.length = 0 := by rw [hklen, h]; rfl
      exact hemp (by simpa using this)
    constructor
    · rintro ⟨⟨r, hr, hf, ha, c, hc, hcr⟩, hall⟩
      refine ⟨⟨r, hr, hf, ((hadm r).mp ha).1, ((hadm r).mp ha).2, Or.inr ?_⟩, ?_⟩
      · obtain ⟨i, hi, rfl⟩ := List.getElem_of_mem hc
        obtain ⟨hi', he⟩ := hcond i hi r
        exact ⟨_, List.getElem_mem hi', by rw [← he]; exact hcr⟩
      · intro k hk'
        obtain ⟨i, hi', rfl⟩ := List.getElem_of_mem hk'
        have hi : i < (q.kvs.map (fun (c : PCond) (r : PRow) => c.eval re r)).length := by simpa [hklen] using hi'
        obtain ⟨r', hr', hf', ha', hcr'⟩ := hall i hi
        obtain ⟨_, he⟩ := hcond i hi r'
        exact ⟨r', hr', hf', ((hadm r').mp ha').1, ((hadm r').mp ha').2, by rw [← he]; exact hcr'⟩
    · rintro ⟨⟨r, hr, hf, hd, hgl, hor⟩, hall⟩
      have hrows : ∀ i, (hi : i < (q.kvs.map (fun (c : PCond) (r : PRow) => c.eval re r)).length) → ∃ r ∈ tbl, r.fp = f ∧
          q.rowOk re r = true ∧ (q.kvs.map (fun (c : PCond) (r : PRow) => c.eval re r))[i] r = true := by
        intro i hi
        have hi' : i < (sels.filter (fun s => !isGlobal s)).length := by simpa [hklen] using hi
        obtain ⟨r', hr', hf', hd', hgl', hs'⟩ := hall _ (List.getElem_mem hi')
        obtain ⟨_, he⟩ := hcond i hi r'
        exact ⟨r', hr', hf', (hadm r').mpr ⟨hd', hgl'⟩, by rw [he]; exact hs'⟩
      refine ⟨?_, hrows⟩
      rcases hor with h | ⟨k, hk', hkr⟩
      · exact absurd h hks_ne
      · obtain ⟨i, hi', rfl⟩ := List.getElem_of_mem hk'
        have hi : i < (q.kvs.map (fun (c : PCond) (r : PRow) => c.eval re r)).length := by simpa [hklen] using hi'
        obtain ⟨_, he⟩ := hcond i hi r
        exact ⟨r, hr, hf, (hadm r).mpr ⟨hd, hgl⟩, _, List.getElem_mem hi, by rw [he]; exact hkr⟩

end Qryn.Prof
