import Qryn.Prof.Selector
import Qryn.Proofs.BitSetQuery
import Qryn.Proofs.PromSelect
/-! Lemmas for the Pyroscope selector planner. -/
namespace Qryn.Prof
open Qryn Qryn.Prom Qryn.Prom.Bits

/-! ties to `Gen.ProfSelect.opClauses` (the switch of `getMatcherClause`) -/
theorem plookup_eq : Gen.ProfSelect.opClauses.lookup Op.eq.str = some ("==", false) := by decide
theorem plookup_ne : Gen.ProfSelect.opClauses.lookup Op.ne.str = some ("!=", false) := by decide
theorem plookup_re : Gen.ProfSelect.opClauses.lookup Op.re.str = some ("==", true) := by decide
theorem plookup_nre : Gen.ProfSelect.opClauses.lookup Op.nre.str = some ("!=", true) := by decide
theorem fnOf_Le : fnOf "Le" = "<=" := by decide

/-- the clause `getMatcherClause` builds for a field means "op holds between the field and the value" -/
theorem matcherClause_spec (re : Bytes → Bytes → Bool) (field : String) (op : Op) (val : Bytes) :
    ∃ c, matcherClause field op val = some c ∧
      ∀ r x, c.evalX re r x = (match fieldSem field with
        | some g => opHoldsP re op (g r x) val
        | none => false) := by
  cases op
  · refine ⟨_, by simp only [matcherClause, plookup_eq]; rfl, ?_⟩
    intro r x
    cases hf : fieldSem field <;> simp [PCond.evalX, cmpBytes, opHoldsP, hf]
  · refine ⟨_, by simp only [matcherClause, plookup_ne]; rfl, ?_⟩
    intro r x
    cases hf : fieldSem field <;> simp [PCond.evalX, cmpBytes, opHoldsP, hf]
  · refine ⟨_, by simp only [matcherClause, plookup_re]; rfl, ?_⟩
    intro r x
    cases hf : fieldSem field with
    | none => simp [PCond.evalX, hf]
    | some g => cases h : re val (g r x) <;> simp [PCond.evalX, cmpInt, opHoldsP, hf, h]
  · refine ⟨_, by simp only [matcherClause, plookup_nre]; rfl, ?_⟩
    intro r x
    cases hf : fieldSem field with
    | none => simp [PCond.evalX, hf]
    | some g => cases h : re val (g r x) <;> simp [PCond.evalX, cmpInt, opHoldsP, hf, h]

theorem fieldSem_val : fieldSem "val" = some (fun r _ => r.val) := by simp [fieldSem]
theorem fieldSem_key : fieldSem "key" = some (fun r _ => r.key) := by simp [fieldSem]

/-! ### selectors that accept the empty value -/
theorem absentLabelP_inverse : Gen.ProfSelect.absentLabel = "inverse" := by decide

def Op.inverse : Op → Op
  | .eq => .ne | .ne => .eq | .re => .nre | .nre => .re

/-- tie to `Gen.ProfSelect.inverseOps` (the switch of `inverseOp`) -/
theorem invOp_eq (op : Op) : invOp op = some op.inverse := by cases op <;> decide

theorem anchoredP_inverse (op : Op) :
    Gen.ProfSelect.anchoredOps.contains op.inverse.str = Gen.ProfSelect.anchoredOps.contains op.str := by
  cases op <;> decide

theorem selVal_inverse (s : Selector) : selVal { s with op := s.op.inverse } = selVal s := by
  obtain ⟨n, op, v⟩ := s
  simp only [selVal, anchoredP_inverse]

theorem acceptsEmptyP_eq (gre : Bytes → Bytes → Bool) (s : Selector) :
    acceptsEmptyP gre s = opHoldsP gre s.op [] (selVal s) := by
  simp [acceptsEmptyP, absentLabelP_inverse]

/-- the selector the label index is asked for: the inverse of a key/value selector that accepts the empty value -/
def askedP (gre : Bytes → Bytes → Bool) (s : Selector) : Selector :=
  if acceptsEmptyP gre s then { s with op := s.op.inverse } else s

theorem opHoldsP_inverse (re : Bytes → Bytes → Bool) (op : Op) (a b : Bytes) :
    opHoldsP re op.inverse a b = !opHoldsP re op a b := by
  cases op <;> simp [Op.inverse, opHoldsP, bne]

/-- every selector gets a clause, global or key/value according to its name; a global clause means `selHolds`, a
    key/value clause means `selHolds` of the selector asked (inverted when it accepts the empty value) and carries the
    bit "a row is required" -/
theorem clauseOf_spec (re gre : Bytes → Bytes → Bool) (s : Selector) :
    (isGlobal s = true ∧ ∃ c, clauseOf gre s = some (.inl c) ∧ ∀ r, c.eval re r = selHolds re s r) ∨
    (isGlobal s = false ∧ ∃ c, clauseOf gre s = some (.inr (c, !acceptsEmptyP gre s)) ∧
      ∀ r, c.eval re r = (r.key == s.name && opHoldsP re (askedP gre s).op r.val (selVal s))) := by
  cases hp : pseudoOf s.name with
  | some p =>
    obtain ⟨field, inArr⟩ := p
    left
    obtain ⟨c, hc, hce⟩ := matcherClause_spec re field s.op (selVal s)
    refine ⟨by simp [isGlobal, hp], ?_⟩
    cases inArr
    · refine ⟨c, by simp [clauseOf, hp, hc], ?_⟩
      intro r
      simp only [PCond.eval, hce, selHolds, hp]
      cases fieldSem field <;> simp
    · refine ⟨.arrayExists c, by simp [clauseOf, hp, hc], ?_⟩
      intro r
      simp only [PCond.eval, PCond.evalX, hce, selHolds, hp]
      cases fieldSem field <;> simp
  | none =>
    right
    refine ⟨by simp [isGlobal, hp], ?_⟩
    cases hacc : acceptsEmptyP gre s with
    | false =>
      obtain ⟨c, hc, hce⟩ := matcherClause_spec re "val" s.op (selVal s)
      refine ⟨.and2 (.cmp (fnOf "Eq") "key" s.name) c, by simp [clauseOf, hp, hc, hacc], ?_⟩
      intro r
      simp only [PCond.eval, PCond.evalX, hce, fieldSem_val, fieldSem_key, fnOf_Eq, cmpBytes, askedP, hacc]
      simp
    | true =>
      obtain ⟨c, hc, hce⟩ := matcherClause_spec re "val" s.op.inverse (selVal s)
      refine ⟨.and2 (.cmp (fnOf "Eq") "key" s.name) c, by simp [clauseOf, hp, hc, hacc, invOp_eq], ?_⟩
      intro r
      simp only [PCond.eval, PCond.evalX, hce, fieldSem_val, fieldSem_key, fnOf_Eq, cmpBytes, askedP, hacc]
      simp

/-- what the key/value clause of a selector asks of an index row -/
def kvHolds (re gre : Bytes → Bytes → Bool) (s : Selector) (r : PRow) : Bool :=
  r.key == s.name && opHoldsP re (askedP gre s).op r.val (selVal s)

theorem plan_spec (re gre : Bytes → Bytes → Bool) (table : String) (fromDate toDate : Bytes) (sels : List Selector) :
    ∃ q, plan gre table fromDate toDate sels = some q ∧ q.table = table ∧ q.fromDate = fromDate ∧ q.toDate = toDate ∧
      (∀ r, q.globals.map (·.eval re r) = (sels.filter isGlobal).map (selHolds re · r)) ∧
      (∀ r, q.kvs.map (·.eval re r) = (sels.filter (fun s => !isGlobal s)).map (kvHolds re gre · r)) ∧
      q.kvRequired = (sels.filter (fun s => !isGlobal s)).map (fun s => !acceptsEmptyP gre s) := by
  induction sels with
  | nil => exact ⟨_, rfl, rfl, rfl, rfl, fun _ => rfl, fun _ => rfl, rfl⟩
  | cons s ss ih =>
    obtain ⟨q, hq, h1, h2, h3, hg, hk, hr⟩ := ih
    rcases clauseOf_spec re gre s with ⟨hgl, c, hc, hce⟩ | ⟨hgl, c, hc, hce⟩
    · refine ⟨{ q with globals := c :: q.globals }, by simp [plan, hc, hq], h1, h2, h3, ?_, ?_, ?_⟩
      · intro r; simp [hgl, hce r, hg r]
      · intro r; simp [hgl, hk r]
      · simp [hgl, hr]
    · refine ⟨{ q with kvs := c :: q.kvs, kvRequired := (!acceptsEmptyP gre s) :: q.kvRequired },
        by simp [plan, hc, hq], h1, h2, h3, ?_, ?_, ?_⟩
      · intro r; simp [hgl, hg r]
      · intro r; simp [hgl, hce r, hk r, kvHolds]
      · simp [hgl, hr]

/-- the direct reading of a selector list over the index rows: a row inside the date range on which every pseudo-label
    selector holds; for every key/value selector that rejects the empty value such a row satisfying it; for every
    key/value selector that accepts the empty value no such row carrying its label that violates it -/
def Selected (re gre : Bytes → Bytes → Bool) (fromDate toDate : Bytes) (sels : List Selector)
    (tbl : List PRow) (f : Nat) : Prop :=
  let gs := sels.filter isGlobal
  let ks := sels.filter (fun s => !isGlobal s)
  let ok (r : PRow) : Prop := r.fp = f ∧ dateOk fromDate toDate r = true ∧ (∀ g ∈ gs, selHolds re g r = true)
  (∃ r ∈ tbl, ok r) ∧
  (∀ k ∈ ks, acceptsEmptyP gre k = false → ∃ r ∈ tbl, ok r ∧ selHolds re k r = true) ∧
  (∀ k ∈ ks, acceptsEmptyP gre k = true → ∀ r ∈ tbl, ok r → r.key = k.name → opHoldsP re k.op r.val (selVal k) = true)

theorem plan_correct (re gre : Bytes → Bytes → Bool) (W : Nat) (table : String) (fromDate toDate : Bytes)
    (sels : List Selector) (hW : (sels.filter (fun s => !isGlobal s)).length ≤ W)
    (h63 : (sels.filter (fun s => !isGlobal s)).length ≤ 63) (tbl : List PRow) (f : Nat) :
    ∃ q, plan gre table fromDate toDate sels = some q ∧
      (f ∈ q.eval re W tbl ↔ Selected re gre fromDate toDate sels tbl f) := by
  obtain ⟨q, hq, _, h2, h3, hg, hk, hreq⟩ := plan_spec re gre table fromDate toDate sels
  refine ⟨q, hq, ?_⟩
  generalize hks : sels.filter (fun s => !isGlobal s) = ks at hW h63 hk hreq
  have hklen : q.kvs.length = ks.length := by
    have := congrArg List.length (hk ⟨[], [], [], [], [], [], 0⟩)
    simpa using this
  have hadm : ∀ r, q.rowOk re r = true ↔
      (dateOk fromDate toDate r = true ∧ ∀ g ∈ sels.filter isGlobal, selHolds re g r = true) := by
    intro r
    have hall : q.globals.all (·.eval re r) = (sels.filter isGlobal).all (selHolds re · r) := by
      have := congrArg (fun l => l.all id) (hg r)
      simpa [List.all_map] using this
    have e1 : cmpBytes ">=" r.date fromDate = bytesLe fromDate r.date := by simp [cmpBytes]
    have e2 : cmpBytes "<=" r.date toDate = bytesLe r.date toDate := by simp [cmpBytes]
    simp only [PQuery.rowOk, hall, fnOf_Ge, fnOf_Le, h2, h3, e1, e2, dateOk, Bool.and_eq_true, List.all_eq_true]
  have hselkv : ∀ k ∈ ks, ∀ r, selHolds re k r = (r.key == k.name && opHoldsP re k.op r.val (selVal k)) := by
    intro k hkm r
    have : isGlobal k = false := by
      have := (List.mem_filter.mp (hks ▸ hkm)).2
      simpa using this
    have hp : pseudoOf k.name = none := by
      cases hp : pseudoOf k.name with
      | none => rfl
      | some p => simp [isGlobal, hp] at this
    simp [selHolds, hp]
  unfold PQuery.eval Selected
  rw [hks]
  by_cases hemp : q.kvs.isEmpty = true
  · have hks0 : ks = [] := List.eq_nil_of_length_eq_zero (by
      have : q.kvs.length = 0 := by simpa using hemp
      omega)
    simp only [hemp, if_true, List.mem_eraseDups, List.mem_map]
    subst hks0
    constructor
    · rintro ⟨r, hr, hf⟩
      obtain ⟨hr, ha⟩ := List.mem_filter.mp hr
      exact ⟨⟨r, hr, hf, ((hadm r).mp ha).1, ((hadm r).mp ha).2⟩,
        (fun k hk' => absurd hk' List.not_mem_nil), (fun k hk' => absurd hk' List.not_mem_nil)⟩
    · rintro ⟨⟨r, hr, hf, hd, hgl⟩, _⟩
      exact ⟨r, List.mem_filter.mpr ⟨hr, (hadm r).mpr ⟨hd, hgl⟩⟩, hf⟩
  · have hemp' : q.kvs.isEmpty = false := by simpa using hemp
    simp only [hemp', Bool.false_eq_true, if_false]
    have hreq63 : q.kvRequired.length ≤ 63 := by rw [hreq]; simpa using h63
    rw [mem_bitsetSelectGen W _ _ q.kvRequired _ _ _ tbl (by simpa [hklen] using hW)
      (by rw [hreq]; simp [hklen]) (by
        simp only [PQuery.useOr, requiredConst_eq _ hreq63]
        cases h : q.kvRequired.any id with
        | false =>
          have := (bits_eq_zero _).mpr h
          simp [this]
        | true =>
          have : bits q.kvRequired ≠ 0 := by
            intro h0; rw [(bits_eq_zero _).mp h0] at h; cases h
          simp only [bne_iff_ne, ne_eq]
          omega) (by
        intro x
        simp only [requiredConst_eq _ hreq63]
        cases hx : x == bits q.kvRequired with
        | true => have := eq_of_beq hx; subst this; simp
        | false =>
          have : x ≠ bits q.kvRequired := ne_of_beq_false hx
          simp only [beq_eq_false_iff_ne, ne_eq]
          omega) f]
    have hcond : ∀ (i : Nat) (hi : i < ks.length) (hi' : i < (q.kvs.map (fun (c : PCond) (r : PRow) => c.eval re r)).length) (r : PRow),
        (q.kvs.map (fun (c : PCond) (r : PRow) => c.eval re r))[i] r = kvHolds re gre ks[i] r := by
      intro i hi hi' r
      have := congrArg (fun l => l[i]?) (hk r)
      have hic : i < q.kvs.length := by omega
      simp only [List.getElem?_map, List.getElem?_eq_getElem hic, List.getElem?_eq_getElem hi, Option.map_some] at this
      simpa using this
    have hreqi : ∀ (i : Nat) (hi : i < ks.length), q.kvRequired.getD i false = !acceptsEmptyP gre ks[i] := by
      intro i hi
      rw [hreq]
      simp [List.getD, List.getElem?_map, List.getElem?_eq_getElem hi]
    have hokiff : ∀ r, (r.fp = f ∧ q.rowOk re r = true) ↔
        (r.fp = f ∧ dateOk fromDate toDate r = true ∧ ∀ g ∈ sels.filter isGlobal, selHolds re g r = true) := by
      intro r; rw [hadm r]
    constructor
    · rintro ⟨⟨r, hr, hf, ha⟩, hall⟩
      refine ⟨⟨r, hr, hf, ((hadm r).mp ha).1, ((hadm r).mp ha).2⟩, ?_, ?_⟩
      · intro k hkm hacc
        obtain ⟨i, hi, rfl⟩ := List.getElem_of_mem hkm
        have hi' : i < (q.kvs.map (fun (c : PCond) (r : PRow) => c.eval re r)).length := by simp; omega
        obtain ⟨r', hr', hf', ha', hc⟩ := (hall i hi').mpr (by rw [hreqi i hi, hacc]; rfl)
        rw [hcond i hi hi' r'] at hc
        simp only [kvHolds, askedP, hacc] at hc
        exact ⟨r', hr', ⟨hf', ((hadm r').mp ha').1, ((hadm r').mp ha').2⟩, by rw [hselkv _ hkm]; exact hc⟩
      · intro k hkm hacc r' hr' hok hkey
        obtain ⟨i, hi, rfl⟩ := List.getElem_of_mem hkm
        have hi' : i < (q.kvs.map (fun (c : PCond) (r : PRow) => c.eval re r)).length := by simp; omega
        have hno := hall i hi'
        rw [hreqi i hi, hacc] at hno
        cases hop : opHoldsP re ks[i].op r'.val (selVal ks[i]) with
        | true => rfl
        | false =>
          exfalso
          have : (false = true) := hno.mp ⟨r', hr', hok.1, (hadm r').mpr ⟨hok.2.1, hok.2.2⟩, by
            rw [hcond i hi hi' r']
            simp only [kvHolds, askedP, hacc, if_true, opHoldsP_inverse, hop, hkey]
            simp⟩
          cases this
    · rintro ⟨⟨r, hr, hf, hd, hgl⟩, hpos, hneg⟩
      refine ⟨⟨r, hr, hf, (hadm r).mpr ⟨hd, hgl⟩⟩, ?_⟩
      intro i hi'
      have hi : i < ks.length := by simp at hi'; omega
      rw [hreqi i hi]
      cases hacc : acceptsEmptyP gre ks[i] with
      | false =>
        obtain ⟨r', hr', hok, hc⟩ := hpos ks[i] (List.getElem_mem hi) hacc
        simp only [Bool.not_false, iff_true]
        refine ⟨r', hr', hok.1, (hadm r').mpr ⟨hok.2.1, hok.2.2⟩, ?_⟩
        rw [hcond i hi hi' r']
        rw [hselkv _ (List.getElem_mem hi)] at hc
        simp only [kvHolds, askedP, hacc]
        exact hc
      | true =>
        simp only [Bool.not_true, Bool.false_eq_true, iff_false]
        rintro ⟨r', hr', hf', ha', hc⟩
        rw [hcond i hi hi' r'] at hc
        simp only [kvHolds, askedP, hacc, if_true, opHoldsP_inverse, Bool.and_eq_true, beq_iff_eq, Bool.not_eq_true'] at hc
        have := hneg ks[i] (List.getElem_mem hi) hacc r' hr' ⟨hf', ((hadm r').mp ha').1, ((hadm r').mp ha').2⟩ hc.1
        rw [this] at hc
        cases hc.2

/-! ### from index rows to the label sets of profile series -/

/-- a stored profile series: per label one row of `profiles_series_gin`, each carrying the series columns -/
structure PStored where
  fp : Nat
  labels : List (Bytes × Bytes)
  date : Bytes
  typeId : Bytes
  serviceName : Bytes
  stu : List (Bytes × Bytes)

def PStored.row (s : PStored) (kv : Bytes × Bytes) : PRow := ⟨s.date, kv.1, kv.2, s.typeId, s.serviceName, s.stu, s.fp⟩

def pIndexRows (db : List PStored) : List PRow := db.flatMap (fun s => s.labels.map s.row)

theorem mem_pIndexRows {db : List PStored} {r : PRow} :
    r ∈ pIndexRows db ↔ ∃ s ∈ db, ∃ kv ∈ s.labels, r = s.row kv := by
  simp only [pIndexRows, List.mem_flatMap, List.mem_map]
  constructor
  · rintro ⟨s, hs, kv, hkv, rfl⟩; exact ⟨s, hs, kv, hkv, rfl⟩
  · rintro ⟨s, hs, kv, hkv, rfl⟩; exact ⟨s, hs, kv, hkv, rfl⟩

/-- fingerprints identify series, label names are unique inside a series, every series has a label (a series without
    any label has no index row at all) -/
structure PWellFormed (db : List PStored) : Prop where
  fps : (db.map (·.fp)).Nodup
  names : ∀ s ∈ db, (s.labels.map (·.1)).Nodup
  labelled : ∀ s ∈ db, s.labels ≠ []

theorem eq_of_fpP {db : List PStored} (hnd : (db.map (·.fp)).Nodup) {s s' : PStored} (h : s ∈ db)
    (h' : s' ∈ db) (e : s.fp = s'.fp) : s = s' := by
  induction db with
  | nil => cases h
  | cons a db ih =>
    simp only [List.map_cons, List.nodup_cons] at hnd
    rcases List.mem_cons.mp h with rfl | hm <;> rcases List.mem_cons.mp h' with rfl | hm'
    · rfl
    · exact absurd (List.mem_map.mpr ⟨s', hm', e.symm⟩) hnd.1
    · exact absurd (List.mem_map.mpr ⟨s, hm, e⟩) hnd.1
    · exact ih hnd.2 hm hm'

theorem pseudoFields : Gen.ProfSelect.pseudoLabels.map (fun e => e.2.1) =
    ["splitByChar(':', type_id)[1]", "splitByChar(':', type_id)[2]", "splitByChar(':', type_id)[3]", "x.1", "x.2",
     "format('{}:{}:{}:{}:{}', (splitByChar(':', type_id) as _parts)[1], x.1, x.2, _parts[2], _parts[3])",
     "service_name"] := by decide

theorem lookup_mem_snd {β} (k : String) : ∀ (l : List (String × β)) (v : β), l.lookup k = some v → v ∈ l.map (·.2)
  | [], _, h => by simp [List.lookup] at h
  | (a, b) :: l, v, h => by
    simp only [List.lookup] at h
    by_cases hk : k == a
    · simp only [hk] at h
      simp at h; subst h; simp
    · simp only [hk] at h
      simp only [List.map_cons, List.mem_cons]
      exact Or.inr (lookup_mem_snd k l v h)

/-- a pseudo-label selector reads columns every index row of the series carries: it does not depend on the (key, val) -/
theorem selHolds_global_row (re : Bytes → Bytes → Bool) (g : Selector) (hg : isGlobal g = true) (s : PStored)
    (kv kv' : Bytes × Bytes) : selHolds re g (s.row kv) = selHolds re g (s.row kv') := by
  cases hp : pseudoOf g.name with
  | none => simp [isGlobal, hp] at hg
  | some p =>
    obtain ⟨field, inArr⟩ := p
    have hmem : field ∈ Gen.ProfSelect.pseudoLabels.map (fun e => e.2.1) := by
      have := lookup_mem_snd _ _ _ hp
      obtain ⟨e, he, h2⟩ := List.mem_map.mp this
      exact List.mem_map.mpr ⟨e, he, by rw [h2]⟩
    rw [pseudoFields] at hmem
    simp only [List.mem_cons, List.not_mem_nil, or_false] at hmem
    rcases hmem with rfl | rfl | rfl | rfl | rfl | rfl | rfl <;>
      simp [selHolds, hp, fieldSem, PStored.row, typePart]

def dateOkS (fromDate toDate : Bytes) (s : PStored) : Bool := bytesLe fromDate s.date && bytesLe s.date toDate

/-- Pyroscope's reading of a selector list on a stored profile series: every pseudo-label selector holds on the series
    columns, every key/value selector on the value of its label — the empty value when the series does not have it -/
def profMatches (re : Bytes → Bytes → Bool) (sels : List Selector) (s : PStored) : Prop :=
  (∀ g ∈ sels.filter isGlobal, selHolds re g (s.row ([], [])) = true) ∧
  ∀ k ∈ sels.filter (fun s => !isGlobal s), opHoldsP re k.op (labelValue s.labels k.name) (selVal k) = true

theorem selected_iff_labels (re gre : Bytes → Bytes → Bool) (hemp : ∀ p, gre p [] = re p [])
    (fromDate toDate : Bytes) (sels : List Selector) (db : List PStored) (wf : PWellFormed db) (f : Nat) :
    Selected re gre fromDate toDate sels (pIndexRows db) f ↔
      ∃ s ∈ db, s.fp = f ∧ dateOkS fromDate toDate s = true ∧ profMatches re sels s := by
  have hacc : ∀ k : Selector, acceptsEmptyP gre k = opHoldsP re k.op [] (selVal k) := by
    intro k
    rw [acceptsEmptyP_eq]
    cases k.op <;> simp [opHoldsP, hemp]
  have hkv : ∀ k ∈ sels.filter (fun s => !isGlobal s), ∀ r, selHolds re k r = (r.key == k.name && opHoldsP re k.op r.val (selVal k)) := by
    intro k hkm r
    have : isGlobal k = false := by simpa using (List.mem_filter.mp hkm).2
    have hp : pseudoOf k.name = none := by
      cases hp : pseudoOf k.name with
      | none => rfl
      | some p => simp [isGlobal, hp] at this
    simp [selHolds, hp]
  have hglob : ∀ (s : PStored) (kv : Bytes × Bytes), (∀ g ∈ sels.filter isGlobal, selHolds re g (s.row kv) = true) ↔
      (∀ g ∈ sels.filter isGlobal, selHolds re g (s.row ([], [])) = true) := by
    intro s kv
    constructor <;> intro h g hgm
    · rw [selHolds_global_row re g (List.mem_filter.mp hgm).2 s ([], []) kv]; exact h g hgm
    · rw [selHolds_global_row re g (List.mem_filter.mp hgm).2 s kv ([], [])]; exact h g hgm
  unfold Selected profMatches
  constructor
  · rintro ⟨⟨r, hr, hf, hd, hgl⟩, hpos, hneg⟩
    obtain ⟨s, hs, kv, hkvm, rfl⟩ := mem_pIndexRows.mp hr
    refine ⟨s, hs, hf, by simpa [dateOk, dateOkS, PStored.row] using hd, (hglob s kv).mp hgl, ?_⟩
    intro k hkm
    cases ha : acceptsEmptyP gre k with
    | false =>
      obtain ⟨r', hr', ⟨hf', _, _⟩, hsat⟩ := hpos k hkm ha
      obtain ⟨s', hs', kv', hkv', rfl⟩ := mem_pIndexRows.mp hr'
      have : s' = s := eq_of_fpP wf.fps hs' hs (by simp only [PStored.row] at hf hf'; omega)
      subst this
      rw [hkv k hkm] at hsat
      simp only [PStored.row, Bool.and_eq_true, beq_iff_eq] at hsat
      have hl : s'.labels.lookup k.name = some kv'.2 := by
        apply lookup_of_mem (wf.names s' hs')
        rw [← hsat.1]; exact hkv'
      simpa [labelValue, hl] using hsat.2
    | true =>
      cases hl : s.labels.lookup k.name with
      | none =>
        simp only [labelValue, hl, Option.getD_none]
        rw [← hacc]; exact ha
      | some v =>
        simp only [labelValue, hl, Option.getD_some]
        have hmem : (k.name, v) ∈ s.labels := mem_of_lookup hl
        exact hneg k hkm ha (s.row (k.name, v)) (mem_pIndexRows.mpr ⟨s, hs, _, hmem, rfl⟩)
          ⟨hf, by simpa [dateOk, PStored.row] using hd, (hglob s _).mpr ((hglob s kv).mp hgl)⟩ rfl
  · rintro ⟨s, hs, hf, hd, hgl, hkvs⟩
    have hok : ∀ kv : Bytes × Bytes, (s.row kv).fp = f ∧ dateOk fromDate toDate (s.row kv) = true ∧
        ∀ g ∈ sels.filter isGlobal, selHolds re g (s.row kv) = true := by
      intro kv
      exact ⟨hf, by simpa [dateOk, dateOkS, PStored.row] using hd, (hglob s kv).mpr hgl⟩
    refine ⟨?_, ?_, ?_⟩
    · cases hls : s.labels with
      | nil => exact absurd hls (wf.labelled s hs)
      | cons kv rest =>
        exact ⟨s.row kv, mem_pIndexRows.mpr ⟨s, hs, kv, by rw [hls]; exact List.mem_cons_self, rfl⟩, hok kv⟩
    · intro k hkm ha
      have hop := hkvs k hkm
      cases hl : s.labels.lookup k.name with
      | none =>
        simp only [labelValue, hl, Option.getD_none] at hop
        rw [← hacc, ha] at hop; cases hop
      | some v =>
        simp only [labelValue, hl, Option.getD_some] at hop
        refine ⟨s.row (k.name, v), mem_pIndexRows.mpr ⟨s, hs, _, mem_of_lookup hl, rfl⟩, hok _, ?_⟩
        rw [hkv k hkm]
        simp [PStored.row, hop]
    · intro k hkm _ r hr hokr hkey
      obtain ⟨s', hs', kv', hkv', rfl⟩ := mem_pIndexRows.mp hr
      have : s' = s := eq_of_fpP wf.fps hs' hs (by have := hokr.1; simp only [PStored.row] at this hf; omega)
      subst this
      have hl : s'.labels.lookup k.name = some kv'.2 := by
        apply lookup_of_mem (wf.names s' hs')
        simp only [PStored.row] at hkey
        rw [← hkey]; exact hkv'
      have hop := hkvs k hkm
      simp only [labelValue, hl, Option.getD_some] at hop
      exact hop

end Qryn.Prof
