import Qryn.Proofs.PlanClosedMetric
import Qryn.Proofs.PlanClosedX
import Qryn.LogQL.PlannerMetricX
/-! C10: the atoms of C08's extended metric planner model `planMetricX` (metric queries whose selector carries the
    SQL-side stages `| json`, `| regexp`, `| drop` and filters after them; `quantile_over_time`) are well formed
    (`wfSel`) for every context and every query. json labels / path names, regexp group names and pattern, drop
    names and values, the names of label filters after a parser / drop, by/without labels and the unwrap label are
    string leaves; durations, `k`, comparison literals, the quantile parameter (printed by `%f`) and the `ctx.Id()`
    counters are numbers. -/
namespace Qryn.LogQL
open Qryn Qryn.Sql Qryn.Lex

/-- what the theorem assumes of the query: only the names of the label filters BEFORE the first parser / drop are
    `LabelName` tokens (written `JSONExtractString(labels, '<name>')` unescaped) -/
def MetricXNamesOK (q : MetricQueryX) : Prop := ∀ lc ∈ labelConds q.range.sel, condNamesOK lc

theorem wf_dirOrder (c : Ctx) : wfExprs [.orderBy (.raw "timestamp_ns") (dirOf c)] = true := by
  unfold dirOf
  cases c.orderAsc <;> simp only [wfExprs, wfExpr, if_true, if_false, Bool.false_eq_true, Bool.and_true] <;> decide +kernel

theorem wf_mainOrdered (c : Ctx) (q : LogQuery) (ht : TablesOK c) (hn : ∀ lc ∈ labelConds q, condNamesOK lc) :
    wfSel (mainOrdered c q) = true :=
  wfSel_setOrderBy _ _ (wf_samplesMain c q ht hn) (wf_dirOrder c)

theorem wf_runSelM (c : Ctx) (src : Option Nat) (rid : Nat) (r : Run) : wfSelBody (runSelM c src rid r).1 = true := by
  unfold runSelM
  split
  · rename_i k
    have hk : rawE (b (Alias.sub k).text) = true := rawE_word (allWord_subText k)
    simp only [wfSelBody, wfExprs, wfExpr, simpleCol, wfJoins, hk, Bool.and_eq_true, Bool.and_true]
    decide +kernel
  · exact wf_runSel c _ rid _ [] none tailOK_nil

theorem wf_planRunsM (c : Ctx) : ∀ (rs : List Run) (src : Option Nat) (id rid : Nat),
    wfWiths (planRunsM c src id rid rs).1 = true ∧ wfSelBody (planRunsM c src id rid rs).2.1 = true
  | [], _, _, _ => by simp [planRunsM, wfWiths, emptySel, wfSelBody, wfExprs]
  | [r], src, id, rid => by simp [planRunsM, wfWiths, wf_runSelM]
  | r :: r' :: rest, src, id, rid => by
    have hk : rawC (b (Alias.sub (id + 1)).text ++ b " as (") = true :=
      rawC_append (rawC_word (allWord_subText _) (subText_ne_nil _)) kw_asOpen
    have ih := wf_planRunsM c (r' :: rest) (some (id + 1)) (id + 1) (runSelM c src rid r).2
    simp only [planRunsM, wfWiths, wf_runSelM, hk, ih.1, ih.2, Bool.and_self, and_self]

theorem wfWiths_append_eq (x y : List (Alias × Sel)) : wfWiths (x ++ y) = (wfWiths x && wfWiths y) := by
  simp [wfWiths_eq_all, List.all_append]

theorem wf_fpWithsM (c : Ctx) (q : LogQuery) (ht : TablesOK c) (hn : ∀ lc ∈ labelConds q, condNamesOK lc) :
    wfWiths (fpWithsM c q) = true := by
  have hq := wf_fpQuery c q ht hn
  unfold fpWithsM
  rw [wfWiths_append_eq, wfSel_withs hq]
  simp only [fpWith, wfWiths, wfSel_body hq, word_fp_sel.withAlias, Bool.and_self]

theorem wf_runsSource (c : Ctx) (r : RangeAggX) (ht : TablesOK c) (hn : ∀ lc ∈ labelConds r.sel, condNamesOK lc) :
    wfSel (runsSource c r).sel = true := by
  unfold runsSource
  simp only
  have hr := wf_planRunsM c (runsM r.post r.kind.label?.isSome) none (labelConds r.sel).length 1
  refine wfSel_setWiths _ _ hr.2 ?_
  rw [wfWiths_append_eq, wfWiths_append_eq, wf_fpWithsM c r.sel ht hn, hr.1]
  simp only [wfWiths, word_main.withAlias, word__time_series.withAlias, wfSel_body (wf_mainOrdered c r.sel ht hn),
    wfSelBody_setWiths, wf_timeSeriesSel' c ht, Bool.and_self]

theorem wf_sourceX (c : Ctx) (r : RangeAggX) (ht : TablesOK c) (hn : ∀ lc ∈ labelConds r.sel, condNamesOK lc) :
    wfSel (sourceX c r).sel = true := by
  unfold sourceX
  split
  · exact wf_unwrapSel _ _ (wf_labelsJoin _ _ ht hn _ (wf_mainOrdered c r.sel ht hn))
  · exact wf_samplesMain c r.sel ht hn
  · exact wf_unwrapSel _ _ (wf_runsSource c r ht hn)
  · exact wf_runsSource c r ht hn

theorem word_quant_a : WordS "quant_a" := by constructor <;> decide +kernel

theorem wf_quantileCol (phi : NumLit) : wfExpr (quantileCol phi) = true := by
  simp only [quantileCol, wfExpr]
  exact rawC_toE (rawC_wrap (rawC_wrap (by decide +kernel) (rawE_fixedText _ _) (by decide +kernel))
    (by decide +kernel) (by decide +kernel))

theorem wf_quantileSel (phi : NumLit) (d : Nat) (main : Sel) (hm : wfSel main = true) :
    wfSel (quantileSel phi d main) = true := by
  unfold quantileSel
  refine wfSel_with_ _ _ ?_ ?_
  · have h1 := wf_bucketCol "quant_a.timestamp_ns" d (by decide +kernel)
    have h2 := wf_quantileCol phi
    cases hasColumn main.cols "labels" <;>
      simp only [simpleCol, wfSelBody, wfExprs, wfExpr, wfJoins, Alias.text, List.append_nil, List.cons_append, List.nil_append,
        if_true, if_false, Bool.false_eq_true, h1, h2, Bool.and_eq_true, Bool.and_true, Bool.true_and] <;>
      decide +kernel
  · intro w hw
    simp only [List.mem_singleton] at hw
    subst hw
    exact ⟨word_quant_a.withAlias, hm⟩

theorem wf_optCmp (cm : Option Comparison) (s : Sel) (hs : wfSel s = true) : wfSel (optCmp cm s) = true := by
  cases cm with
  | none => exact hs
  | some c => exact wf_comparisonSel c _ hs

theorem wf_rangePhaseX (c : MCtx) (r : RangeAggX) (h : MAtomsOK c) (hn : ∀ lc ∈ labelConds r.sel, condNamesOK lc) :
    wfSel (rangePhaseX c r).sel = true := by
  unfold rangePhaseX
  simp only
  have hs := wf_sourceX c.toCtx r h.tables hn
  refine wf_optCmp _ _ ?_
  cases r.kind with
  | lra fn => exact wf_lraSel fn _ _ _ hs
  | unwrap fn l => exact wf_unwrapFnSel fn _ _ (wf_planByWithout _ h.tables _ _ _ hs)
  | quantile phi l => exact wf_quantileSel phi _ _ (wf_planByWithout _ h.tables _ _ _ hs)

theorem wf_aggPhaseX (c : MCtx) (a : Option VecOp) (s : PState) (h : MAtomsOK c) (hs : wfSel s.sel = true) :
    wfSel (aggPhaseX c a s).sel = true := by
  cases a with
  | none => exact hs
  | some a => exact wf_optCmp _ _ (wf_aggSel a.fn _ _ (wf_planByWithout _ h.tables _ _ _ hs))

theorem wf_topkPhaseX (t : Option TopOp) (s : Sel) (hs : wfSel s = true) : wfSel (topkPhaseX t s) = true := by
  cases t with
  | none => exact hs
  | some t => exact wf_optCmp _ _ (wf_topkSel t.isTop t.k _ hs)

/-- **the atoms of every plan of the extended metric planner are well formed** -/
theorem wf_planMetricX (c : MCtx) (q : MetricQueryX) (h : MAtomsOK c) (hn : MetricXNamesOK q) :
    wfSel (planMetricX c q) = true := by
  unfold planMetricX
  exact wf_finalizeMatrix _ (wf_stepFixSel c _ _ (wf_topkPhaseX _ _ (wf_aggPhaseX c _ _ h (wf_rangePhaseX c q.range h hn))))

end Qryn.LogQL
