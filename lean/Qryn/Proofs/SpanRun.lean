import Qryn.Ingest.Span
/-! Lemmas about `onSpan` / `runSpans`: the rows of a successful parse are exactly the rows of its spans,
    in order, whatever the flush boundaries. -/
namespace Qryn.Span

def Builder.chunks (b : Builder) : List Chunk := b.sent ++ [b.cur]
def chunksTraces (cs : List Chunk) : List TraceRow := cs.flatMap (·.traces)
def chunksTags (cs : List Chunk) : List TagRow := cs.flatMap (·.tags)

/-- decode all spans, threading the decoder state; `none` as soon as one is refused -/
def decodeAll {σ ρ} (dec : σ → ρ → Except Reject (σ × Args)) : σ → List ρ → Option (List Args)
  | _, [] => some []
  | s, r :: rs =>
    match dec s r with
    | .error _ => none
    | .ok (s', a) => (decodeAll dec s' rs).map (a :: ·)

theorem onSpan_ok {c : Cfg} {pt : Int} {b b' : Builder} {a : Args} (h : onSpan c pt b a = .ok b') :
    a.accepted = true ∧
    chunksTraces b'.chunks = chunksTraces b.chunks ++ [traceRowOf pt a] ∧
    chunksTags b'.chunks = chunksTags b.chunks ++ tagRowsOf a := by
  unfold onSpan at h
  by_cases hacc : a.accepted = true
  · simp only [hacc, Bool.not_true, Bool.false_eq_true, if_false] at h
    refine ⟨hacc, ?_⟩
    split at h
    · injection h with h; subst h
      simp [Builder.chunks, chunksTraces, chunksTags, List.flatMap_append]
    · injection h with h; subst h
      simp [Builder.chunks, chunksTraces, chunksTags, List.flatMap_append]
  · simp [hacc] at h

theorem onSpan_error {c : Cfg} {pt : Int} {b : Builder} {a : Args} :
    (∃ e, onSpan c pt b a = .error e) ↔ a.accepted = false := by
  unfold onSpan
  by_cases hacc : a.accepted = true
  · simp only [hacc, Bool.not_true, Bool.false_eq_true, if_false]
    constructor
    · rintro ⟨e, h⟩; split at h <;> cases h
    · intro h; cases h
  · simp [hacc]; exact ⟨.reject, trivial⟩

/-- a successful parse: every span decoded and accepted, and the rows sent are the rows already in the
    builder followed by one trace row per span and its tag rows, in order -/
theorem runSpans_ok {σ ρ} (c : Cfg) (pt : Int) (dec : σ → ρ → Except Reject (σ × Args)) :
    ∀ (rs : List ρ) (s : σ) (b : Builder), (runSpans c pt dec s b rs).ok = true →
      ∃ as, decodeAll dec s rs = some as ∧ (∀ a ∈ as, a.accepted = true) ∧
        chunksTraces (runSpans c pt dec s b rs).chunks = chunksTraces b.chunks ++ as.map (traceRowOf pt) ∧
        chunksTags (runSpans c pt dec s b rs).chunks = chunksTags b.chunks ++ as.flatMap tagRowsOf := by
  intro rs
  induction rs with
  | nil => intro s b _; exact ⟨[], rfl, by simp, by simp [runSpans, Builder.chunks], by simp [runSpans, Builder.chunks]⟩
  | cons r rs ih =>
    intro s b h
    unfold runSpans at h ⊢
    cases hd : dec s r with
    | error e => simp [hd] at h
    | ok p =>
      obtain ⟨s', a⟩ := p
      simp only [hd] at h ⊢
      cases ho : onSpan c pt b a with
      | error e => simp [ho] at h
      | ok b' =>
        simp only [ho] at h ⊢
        obtain ⟨as, h1, h2, h3, h4⟩ := ih s' b' h
        obtain ⟨hacc, ht, hg⟩ := onSpan_ok ho
        refine ⟨a :: as, by simp [decodeAll, hd, h1], ?_, ?_, ?_⟩
        · intro x hx; rcases List.mem_cons.mp hx with rfl | hx
          · exact hacc
          · exact h2 x hx
        · rw [h3, ht]; simp
        · rw [h4, hg]; simp

/-- conversely: if every span decodes and is accepted, the parse succeeds -/
theorem runSpans_ok_of {σ ρ} (c : Cfg) (pt : Int) (dec : σ → ρ → Except Reject (σ × Args)) :
    ∀ (rs : List ρ) (s : σ) (b : Builder) (as : List Args), decodeAll dec s rs = some as →
      (∀ a ∈ as, a.accepted = true) → (runSpans c pt dec s b rs).ok = true := by
  intro rs
  induction rs with
  | nil => intro s b as _ _; rfl
  | cons r rs ih =>
    intro s b as h hacc
    unfold runSpans
    unfold decodeAll at h
    cases hd : dec s r with
    | error e => simp [hd] at h
    | ok p =>
      obtain ⟨s', a⟩ := p
      simp only [hd] at h ⊢
      cases hr : decodeAll dec s' rs with
      | none => simp [hr] at h
      | some as' =>
        simp only [hr, Option.map_some, Option.some.injEq] at h
        subst h
        cases ho : onSpan c pt b a with
        | error e =>
          have := (onSpan_error (c := c) (pt := pt) (b := b) (a := a)).mp ⟨e, ho⟩
          have := hacc a (by simp)
          simp_all
        | ok b' =>
          simp only
          exact ih s' b' as' hr (fun x hx => hacc x (by simp [hx]))

theorem Outcome.traces_eq (o : Outcome) : o.traces = chunksTraces o.chunks := rfl
theorem Outcome.tags_eq (o : Outcome) : o.tags = chunksTags o.chunks := rfl

/-- sizes: every row adds at least the per-row constant (C01's `SizePos`) -/
def Chunk.sizeOk (c : Cfg) (k : Chunk) : Prop :=
  c.spanRowSize * k.traces.length ≤ k.spansSize ∧ c.tagRowSize * k.tags.length ≤ k.tagsSize

theorem onSpan_sizeOk {c : Cfg} {pt : Int} {b b' : Builder} {a : Args} (h : onSpan c pt b a = .ok b')
    (hb : ∀ k ∈ b.chunks, k.sizeOk c) : ∀ k ∈ b'.chunks, k.sizeOk c := by
  unfold onSpan at h
  by_cases hacc : a.accepted = true
  · simp only [hacc, Bool.not_true, Bool.false_eq_true, if_false] at h
    have hcur := hb b.cur (by simp [Builder.chunks])
    have hsum : ∀ (l : List (Str × Str)), c.tagRowSize * l.length ≤ (l.map (fun e => c.tagRowSize + e.1.length + e.2.length)).sum := by
      intro l; induction l with
      | nil => simp
      | cons x xs ih => simp only [List.length_cons, List.map_cons, List.sum_cons]; rw [Nat.mul_succ]; omega
    have hnew : Chunk.sizeOk c
        { traces := b.cur.traces ++ [traceRowOf pt a], tags := b.cur.tags ++ tagRowsOf a,
          spansSize := b.cur.spansSize + (c.spanRowSize + a.parentId.length + a.name.length + a.svc.length + a.payloadLen),
          tagsSize := b.cur.tagsSize + (a.kv.map (fun e => c.tagRowSize + e.1.length + e.2.length)).sum } := by
      obtain ⟨h1, h2⟩ := hcur
      constructor
      · simp only [List.length_append, List.length_cons, List.length_nil]; rw [Nat.mul_add]; omega
      · simp only [List.length_append, tagRowsOf, List.length_map]; rw [Nat.mul_add]; have := hsum a.kv; omega
    split at h
    · injection h with h; subst h
      intro k hk
      simp only [Builder.chunks, List.mem_append, List.mem_singleton] at hk
      rcases hk with (hk | hk) | hk
      · exact hb k (by simp [Builder.chunks, hk])
      · subst hk; exact hnew
      · subst hk; exact ⟨by simp, by simp⟩
    · injection h with h; subst h
      intro k hk
      simp only [Builder.chunks, List.mem_append, List.mem_singleton] at hk
      rcases hk with hk | hk
      · exact hb k (by simp [Builder.chunks, hk])
      · subst hk; exact hnew
  · simp [hacc] at h

theorem runSpans_sizeOk {σ ρ} (c : Cfg) (pt : Int) (dec : σ → ρ → Except Reject (σ × Args)) :
    ∀ (rs : List ρ) (s : σ) (b : Builder), (∀ k ∈ b.chunks, k.sizeOk c) →
      ∀ k ∈ (runSpans c pt dec s b rs).chunks, k.sizeOk c := by
  intro rs
  induction rs with
  | nil => intro s b hb k hk; exact hb k (by simpa [runSpans, Builder.chunks] using hk)
  | cons r rs ih =>
    intro s b hb k hk
    unfold runSpans at hk
    cases hd : dec s r with
    | error e => simp only [hd] at hk; exact hb k (by simp [Builder.chunks, hk])
    | ok p =>
      obtain ⟨s', a⟩ := p
      simp only [hd] at hk
      cases ho : onSpan c pt b a with
      | error e => simp only [ho] at hk; exact hb k (by simp [Builder.chunks, hk])
      | ok b' =>
        simp only [ho] at hk
        exact ih s' b' (onSpan_sizeOk ho hb) k hk

end Qryn.Span
