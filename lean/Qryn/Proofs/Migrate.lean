import Qryn.Proofs.MigrateStmt
/-! Procedure level: invariants along `steps`, re-running a phase from any of its intermediate states,
    convergence of `sched`. Everything here is for an arbitrary program `P` whose statements satisfy
    `Rerunnable` / `Preserves`; the regenerated statement table enters only in `Props/C18.lean`. -/
set_option linter.unusedSimpArgs false
namespace Qryn.Ctrl.Migrate

/-! ### the `ver` table -/

theorem getVer_append (vs : List (Nat × Nat)) (k k' v : Nat) :
    getVer (vs ++ [(k', v)]) k = if k' == k then max (getVer vs k) v else getVer vs k := by
  induction vs with
  | nil =>
    by_cases h : (k' == k) = true
    · simp [getVer, h]
    · simp [getVer, h]
  | cons p r ih =>
    obtain ⟨a, b⟩ := p
    simp only [List.cons_append, getVer, ih]
    split <;> split <;> omega

theorem getVer_mono (vs : List (Nat × Nat)) (k k' v : Nat) : getVer vs k ≤ getVer (vs ++ [(k', v)]) k := by
  rw [getVer_append]
  split
  · omega
  · omega

theorem getVer_append_self (vs : List (Nat × Nat)) (k i : Nat) (h : getVer vs k = i) :
    getVer (vs ++ [(k, i + 1)]) k = i + 1 := by
  rw [getVer_append]; simp [h]

/-! ### sequential execution -/

theorem execAll_cons_ok {s : Stmt} {r : List Stmt} {c cfin : Cat} (h : execAll (s :: r) c = .ok cfin) :
    ∃ c1, exec c s = .ok c1 ∧ execAll r c1 = .ok cfin := by
  simp only [execAll] at h
  split at h
  · simp at h
  · rename_i c1 he; exact ⟨c1, he, h⟩

theorem loopRun_cons_ok {k : Nat} {s : Stmt} {r : List Stmt} {i : Nat} {d fin : Db}
    (h : loopRun k (s :: r) i d = .ok fin) :
    ∃ c, exec d.cat s = .ok c ∧ loopRun k r (i + 1) ⟨c, d.vers ++ [(k, i + 1)]⟩ = .ok fin := by
  simp only [loopRun] at h
  split at h
  · simp at h
  · rename_i c he; exact ⟨c, he, h⟩

theorem run_cons_ok {ph : Phase} {r : List Phase} {db fin : Db} (h : run (ph :: r) db = .ok fin) :
    ∃ d, phaseRun ph db = .ok d ∧ run r d = .ok fin := by
  simp only [run] at h
  split at h
  · simp at h
  · rename_i d he; exact ⟨d, he, h⟩

def Settled (B : List Stmt) (c : Cat) : Prop := ∀ b ∈ B, exec c b = .ok c

theorem execAll_settled : ∀ (B : List Stmt) (c : Cat), Settled B c → execAll B c = .ok c := by
  intro B
  induction B with
  | nil => intro c _; rfl
  | cons b r ih =>
    intro c h
    simp only [execAll, h b (by simp)]
    exact ih c (fun b' hb' => h b' (by simp [hb']))

theorem execAll_append : ∀ (a b : List Stmt) (c : Cat),
    execAll (a ++ b) c = match execAll a c with
      | .ok c' => execAll b c'
      | .error e => .error e := by
  intro a
  induction a with
  | nil => intro b c; rfl
  | cons s r ih =>
    intro b c
    simp only [List.cons_append, execAll]
    cases exec c s with
    | error e => rfl
    | ok c1 => exact ih b c1

/-! ### invariants along a run -/

structure InvOK (U : Stmt → Prop) (Inv : Db → Prop) : Prop where
  step : ∀ c vs s c', U s → Inv ⟨c, vs⟩ → exec c s = .ok c' → Inv ⟨c', vs⟩
  app : ∀ c vs k v, Inv ⟨c, vs⟩ → Inv ⟨c, vs ++ [(k, v)]⟩

theorem inv_boot {U : Stmt → Prop} {Inv : Db → Prop} (hI : InvOK U Inv) (vs : List (Nat × Nat)) :
    ∀ (l : List Stmt) (c : Cat), (∀ s ∈ l, U s) → Inv ⟨c, vs⟩ →
      (∀ st ∈ bootSteps vs l c, Inv st.1) ∧ (∀ c', execAll l c = .ok c' → Inv ⟨c', vs⟩) := by
  intro l
  induction l with
  | nil =>
    intro c _ h
    refine ⟨by simp [bootSteps], ?_⟩
    intro c' he; simp only [execAll, Except.ok.injEq] at he; subst he; exact h
  | cons s r ih =>
    intro c hU h
    cases he : exec c s with
    | error e =>
      refine ⟨?_, ?_⟩
      · intro st hst
        simp only [bootSteps, he, List.mem_singleton] at hst
        subst hst; exact h
      · intro c' h'; simp [execAll, he] at h'
    | ok c1 =>
      have h1 : Inv ⟨c1, vs⟩ := hI.step c vs s c1 (hU s (by simp)) h he
      have ⟨a, b⟩ := ih c1 (fun s' hs' => hU s' (by simp [hs'])) h1
      refine ⟨?_, ?_⟩
      · intro st hst
        simp only [bootSteps, he, List.mem_cons] at hst
        rcases hst with rfl | hst
        · exact h
        · exact a st hst
      · intro c' h'
        simp only [execAll, he] at h'
        exact b c' h'

theorem inv_loop {U : Stmt → Prop} {Inv : Db → Prop} (hI : InvOK U Inv) (k : Nat) :
    ∀ (l : List Stmt) (i : Nat) (d : Db), (∀ s ∈ l, U s) → Inv d →
      (∀ st ∈ loopSteps k l i d, Inv st.1) ∧ (∀ fin, loopRun k l i d = .ok fin → Inv fin) := by
  intro l
  induction l with
  | nil =>
    intro i d _ h
    refine ⟨by simp [loopSteps], ?_⟩
    intro fin he; simp only [loopRun, Except.ok.injEq] at he; subst he; exact h
  | cons s r ih =>
    intro i d hU h
    cases he : exec d.cat s with
    | error e =>
      refine ⟨?_, ?_⟩
      · intro st hst
        simp only [loopSteps, he, List.mem_singleton] at hst
        subst hst; exact h
      · intro fin h'; simp [loopRun, he] at h'
    | ok c1 =>
      have h1 : Inv ⟨c1, d.vers⟩ := hI.step d.cat d.vers s c1 (hU s (by simp)) h he
      have h2 : Inv ⟨c1, d.vers ++ [(k, i + 1)]⟩ := hI.app _ _ _ _ h1
      have ⟨a, b⟩ := ih (i + 1) _ (fun s' hs' => hU s' (by simp [hs'])) h2
      refine ⟨?_, ?_⟩
      · intro st hst
        simp only [loopSteps, he, List.mem_cons] at hst
        rcases hst with rfl | rfl | hst
        · exact h
        · exact h1
        · exact a st hst
      · intro fin h'
        simp only [loopRun, he] at h'
        exact b fin h'

theorem inv_phase {U : Stmt → Prop} {Inv : Db → Prop} (hI : InvOK U Inv) (ph : Phase) (db : Db)
    (hU : ∀ s ∈ ph.stmts, U s) (h : Inv db) :
    (∀ st ∈ phaseSteps ph db, Inv st.1) ∧ (∀ fin, phaseRun ph db = .ok fin → Inv fin) := by
  have hUb : ∀ s ∈ ph.boot, U s := fun s hs => hU s (by simp [Phase.stmts, hs])
  have ⟨a, b⟩ := inv_boot hI db.vers ph.boot db.cat hUb h
  cases he : execAll ph.boot db.cat with
  | error e =>
    refine ⟨?_, ?_⟩
    · intro st hst
      simp only [phaseSteps, he, List.append_nil] at hst
      exact a st hst
    · intro fin h'; simp [phaseRun, he] at h'
  | ok c =>
    have hc : Inv ⟨c, db.vers⟩ := b c he
    cases hs : ph.scripts with
    | none =>
      refine ⟨?_, ?_⟩
      · intro st hst
        simp only [phaseSteps, he, hs, List.append_nil] at hst
        exact a st hst
      · intro fin h'
        simp only [phaseRun, he, hs, Except.ok.injEq] at h'
        subst h'; exact hc
    | some p =>
      obtain ⟨k, ss⟩ := p
      have hUs : ∀ s ∈ ss.drop (getVer db.vers k), U s := by
        intro s hs'
        exact hU s (by simp [Phase.stmts, hs, List.mem_of_mem_drop hs'])
      have ⟨a2, b2⟩ := inv_loop hI k (ss.drop (getVer db.vers k)) (getVer db.vers k) ⟨c, db.vers⟩ hUs hc
      refine ⟨?_, ?_⟩
      · intro st hst
        simp only [phaseSteps, he, hs, List.mem_append, List.mem_cons] at hst
        rcases hst with hst | rfl | hst
        · exact a st hst
        · exact hc
        · exact a2 st hst
      · intro fin h'
        simp only [phaseRun, he, hs] at h'
        exact b2 fin h'

theorem mem_allStmts_cons {ph : Phase} {r : List Phase} {s : Stmt} :
    s ∈ allStmts (ph :: r) ↔ s ∈ ph.stmts ∨ s ∈ allStmts r := by
  simp [allStmts]

theorem mem_allBoots_cons {ph : Phase} {r : List Phase} {s : Stmt} :
    s ∈ allBoots (ph :: r) ↔ s ∈ ph.boot ∨ s ∈ allBoots r := by
  simp [allBoots]

theorem inv_run {U : Stmt → Prop} {Inv : Db → Prop} (hI : InvOK U Inv) :
    ∀ (P : List Phase) (db : Db), (∀ s ∈ allStmts P, U s) → Inv db →
      (∀ st ∈ steps P db, Inv st.1) ∧ (∀ fin, run P db = .ok fin → Inv fin) := by
  intro P
  induction P with
  | nil =>
    intro db _ h
    refine ⟨by simp [steps], ?_⟩
    intro fin he; simp only [run, Except.ok.injEq] at he; subst he; exact h
  | cons ph r ih =>
    intro db hU h
    have ⟨a, b⟩ := inv_phase hI ph db (fun s hs => hU s (mem_allStmts_cons.2 (Or.inl hs))) h
    cases he : phaseRun ph db with
    | error e =>
      refine ⟨?_, ?_⟩
      · intro st hst
        simp only [steps, he, List.append_nil] at hst
        exact a st hst
      · intro fin h'; simp [run, he] at h'
    | ok d =>
      have ⟨a2, b2⟩ := ih d (fun s hs => hU s (mem_allStmts_cons.2 (Or.inr hs))) (b d he)
      refine ⟨?_, ?_⟩
      · intro st hst
        simp only [steps, he, List.mem_append] at hst
        rcases hst with hst | hst
        · exact a st hst
        · exact a2 st hst
      · intro fin h'
        simp only [run, he] at h'
        exact b2 fin h'

theorem settled_invOK (B : List Stmt) :
    InvOK (fun s => ∀ b ∈ B, Preserves s b) (fun db => Settled B db.cat) where
  step := by
    intro c vs s c' hU h he b hb
    exact hU b hb c c' (h b hb) he
  app := by intro c vs k v h; exact h

theorem verGe_invOK (k n : Nat) : InvOK (fun _ => True) (fun db => n ≤ getVer db.vers k) where
  step := by intro c vs s c' _ h _; exact h
  app := by
    intro c vs k' v h
    exact Nat.le_trans h (getVer_mono vs k k' v)

/-- a phase that has nothing left to do: its bootstrap statements are no-ops and its stream is at the end -/
def Complete (ph : Phase) (db : Db) : Prop :=
  Settled ph.boot db.cat ∧ ∀ k ss, ph.scripts = some (k, ss) → ss.length ≤ getVer db.vers k

theorem complete_invOK (ph : Phase) : InvOK (fun s => ∀ b ∈ ph.boot, Preserves s b) (Complete ph) where
  step := by
    intro c vs s c' hU h he
    exact ⟨(settled_invOK ph.boot).step c vs s c' hU h.1 he, h.2⟩
  app := by
    intro c vs k v h
    refine ⟨h.1, ?_⟩
    intro k' ss hs
    exact Nat.le_trans (h.2 k' ss hs) (getVer_mono vs k' k v)

/-- Lemma A: a complete phase is the identity -/
theorem phaseRun_complete (ph : Phase) (d : Db) (h : Complete ph d) : phaseRun ph d = .ok d := by
  simp only [phaseRun, execAll_settled ph.boot d.cat h.1]
  cases hs : ph.scripts with
  | none => rfl
  | some p =>
    obtain ⟨k, ss⟩ := p
    have := h.2 k ss hs
    simp only [List.drop_eq_nil_of_le this, loopRun]

theorem run_complete : ∀ (P : List Phase) (d : Db), (∀ ph ∈ P, Complete ph d) → run P d = .ok d := by
  intro P
  induction P with
  | nil => intro d _; rfl
  | cons ph r ih =>
    intro d h
    simp only [run, phaseRun_complete ph d (h ph (by simp))]
    exact ih d (fun ph' hp => h ph' (by simp [hp]))

/-! ### bootstrap statements -/

theorem bootSteps_vers (vs : List (Nat × Nat)) : ∀ (l : List Stmt) (c : Cat),
    ∀ st ∈ bootSteps vs l c, st.1.vers = vs := by
  intro l
  induction l with
  | nil => intro c st h; simp [bootSteps] at h
  | cons s r ih =>
    intro c st h
    simp only [bootSteps, List.mem_cons] at h
    rcases h with rfl | h
    · rfl
    · cases he : exec c s with
      | error e => simp [he] at h
      | ok c1 => simp only [he] at h; exact ih c1 st h

theorem settled1_execAll (b : Stmt) : ∀ (l : List Stmt) (c c' : Cat), exec c b = .ok c →
    (∀ s ∈ l, Preserves s b) → execAll l c = .ok c' → exec c' b = .ok c' := by
  intro l
  induction l with
  | nil => intro c c' h _ he; simp only [execAll, Except.ok.injEq] at he; subst he; exact h
  | cons s r ih =>
    intro c c' h hp he
    obtain ⟨c1, h1, h2⟩ := execAll_cons_ok he
    exact ih c1 c' (hp s (by simp) c c1 h h1) (fun s' hs' => hp s' (by simp [hs'])) h2

theorem settled_after : ∀ (l : List Stmt) (c c' : Cat), (∀ s ∈ l, Rerunnable s) →
    (∀ b ∈ l, ∀ s ∈ l, Preserves s b) → execAll l c = .ok c' → Settled l c' := by
  intro l
  induction l with
  | nil => intro c c' _ _ _ b hb; simp at hb
  | cons s r ih =>
    intro c c' hR hP he b hb
    obtain ⟨c1, h1, h2⟩ := execAll_cons_ok he
    simp only [List.mem_cons] at hb
    rcases hb with rfl | hb
    · exact settled1_execAll b r c1 c' (hR b (by simp) c c1 h1)
        (fun s' hs' => hP b (by simp) s' (by simp [hs'])) h2
    · exact ih c1 c' (fun s' hs' => hR s' (by simp [hs']))
        (fun b' hb' s' hs' => hP b' (by simp [hb']) s' (by simp [hs'])) h2 b hb

/-- restarting the bootstrap statements from any state reached while executing them gives the same result -/
theorem boot_mid (vs : List (Nat × Nat)) : ∀ (post pre : List Stmt) (c cfin : Cat), Settled pre c →
    (∀ b ∈ pre ++ post, ∀ s ∈ post, Preserves s b) → (∀ s ∈ post, Rerunnable s) →
    execAll post c = .ok cfin → ∀ st ∈ bootSteps vs post c, execAll (pre ++ post) st.1.cat = .ok cfin := by
  intro post
  induction post with
  | nil => intro pre c cfin _ _ _ _ st hst; simp [bootSteps] at hst
  | cons s r ih =>
    intro pre c cfin hS hP hR he st hst
    obtain ⟨c1, h1, h2⟩ := execAll_cons_ok he
    simp only [bootSteps, h1, List.mem_cons] at hst
    rcases hst with rfl | hst
    · simp only [execAll_append, execAll_settled pre c hS]
      exact he
    · have hS' : Settled (pre ++ [s]) c1 := by
        intro b hb
        simp only [List.mem_append, List.mem_singleton] at hb
        rcases hb with hb | rfl
        · exact hP b (by simp [hb]) s (by simp) c c1 (hS b hb) h1
        · exact hR b (by simp) c c1 h1
      have := ih (pre ++ [s]) c1 cfin hS'
        (fun b hb s' hs' => hP b (by
          simp only [List.mem_append, List.mem_singleton] at hb
          rcases hb with (hb | hb) | hb <;> simp [hb]) s' (by simp [hs']))
        (fun s' hs' => hR s' (by simp [hs'])) h2 st hst
      simpa using this

/-! ### the version loop -/

theorem drop_succ_of_drop_cons {α : Type} {ss : List α} {i : Nat} {s : α} {r : List α}
    (h : s :: r = ss.drop i) : r = ss.drop (i + 1) := by
  have : ss.drop (i + 1) = (ss.drop i).drop 1 := by simp [List.drop_drop]
  rw [this, ← h]; rfl

/-- Lemma L4: from any state of the loop, a restart (which re-reads the version) ends like the original run -/
theorem loop_mid (k : Nat) (ss : List Stmt) : ∀ (l : List Stmt) (i : Nat) (d fin : Db),
    l = ss.drop i → getVer d.vers k = i → (∀ s ∈ l, Rerunnable s) → loopRun k l i d = .ok fin →
    ∀ st ∈ loopSteps k l i d,
      loopRun k (ss.drop (getVer st.1.vers k)) (getVer st.1.vers k) st.1 = .ok fin := by
  intro l
  induction l with
  | nil => intro i d fin _ _ _ _ st hst; simp [loopSteps] at hst
  | cons s r ih =>
    intro i d fin hl hv hR he st hst
    obtain ⟨c, h1, h2⟩ := loopRun_cons_ok he
    simp only [loopSteps, h1, List.mem_cons] at hst
    rcases hst with rfl | rfl | hst
    · simp only [hv, ← hl]; exact he
    · simp only [hv, ← hl]
      have := hR s (by simp) d.cat c h1
      simp only [loopRun, this]
      exact h2
    · exact ih (i + 1) _ fin (drop_succ_of_drop_cons hl) (getVer_append_self d.vers k i hv)
        (fun s' hs' => hR s' (by simp [hs'])) h2 st hst

theorem loopRun_ver (k : Nat) : ∀ (l : List Stmt) (i : Nat) (d fin : Db), getVer d.vers k = i →
    loopRun k l i d = .ok fin → getVer fin.vers k = i + l.length := by
  intro l
  induction l with
  | nil => intro i d fin hv he; simp only [loopRun, Except.ok.injEq] at he; subst he; simpa using hv
  | cons s r ih =>
    intro i d fin hv he
    obtain ⟨c, _, h2⟩ := loopRun_cons_ok he
    have := ih (i + 1) _ fin (getVer_append_self d.vers k i hv) h2
    simp only [List.length_cons]; omega

/-! ### one phase -/

structure PhaseOK (ph : Phase) : Prop where
  rerun : ∀ s ∈ ph.stmts, Rerunnable s
  pres : ∀ b ∈ ph.boot, ∀ s ∈ ph.stmts, Preserves s b

theorem phase_boot_settled {ph : Phase} (ok : PhaseOK ph) {c c' : Cat} (h : execAll ph.boot c = .ok c') :
    Settled ph.boot c' :=
  settled_after ph.boot c c' (fun s hs => ok.rerun s (by simp [Phase.stmts, hs]))
    (fun b hb s hs => ok.pres b hb s (by simp [Phase.stmts, hs])) h

/-- Lemma C: after a phase has run, it is complete -/
theorem phase_complete_after {ph : Phase} (ok : PhaseOK ph) {db fin : Db} (h : phaseRun ph db = .ok fin) :
    Complete ph fin := by
  simp only [phaseRun] at h
  cases he : execAll ph.boot db.cat with
  | error e => simp [he] at h
  | ok c =>
    have hS : Settled ph.boot c := phase_boot_settled ok he
    simp only [he] at h
    cases hs : ph.scripts with
    | none =>
      simp only [hs, Except.ok.injEq] at h; subst h
      exact ⟨hS, fun k ss h' => by simp [hs] at h'⟩
    | some p =>
      obtain ⟨k, ss⟩ := p
      simp only [hs] at h
      have hU : ∀ s ∈ ss.drop (getVer db.vers k), ∀ b ∈ ph.boot, Preserves s b := by
        intro s hs' b hb
        exact ok.pres b hb s (by simp [Phase.stmts, hs, List.mem_of_mem_drop hs'])
      have hfin := (inv_loop (settled_invOK ph.boot) k _ _ ⟨c, db.vers⟩ hU hS).2 fin h
      refine ⟨hfin, ?_⟩
      intro k' ss' h'
      rw [hs] at h'
      simp only [Option.some.injEq, Prod.mk.injEq] at h'
      obtain ⟨rfl, rfl⟩ := h'
      have := loopRun_ver k _ _ ⟨c, db.vers⟩ fin rfl h
      simp only [List.length_drop] at this
      omega

/-- Lemma B: restarting a phase from any state reached inside it gives the same result -/
theorem phase_mid {ph : Phase} (ok : PhaseOK ph) {db fin : Db} (h : phaseRun ph db = .ok fin) :
    ∀ st ∈ phaseSteps ph db, phaseRun ph st.1 = .ok fin := by
  intro st hst
  cases he : execAll ph.boot db.cat with
  | error e => simp [phaseRun, he] at h
  | ok c =>
    have hS : Settled ph.boot c := phase_boot_settled ok he
    have hboot : ∀ st ∈ bootSteps db.vers ph.boot db.cat, phaseRun ph st.1 = phaseRun ph db := by
      intro st hst
      have h1 := boot_mid db.vers ph.boot [] db.cat c (by intro b hb; simp at hb)
        (fun b hb s hs => ok.pres b (by simpa using hb) s (by simp [Phase.stmts, hs]))
        (fun s hs => ok.rerun s (by simp [Phase.stmts, hs])) he st hst
      have h2 : st.1.vers = db.vers := bootSteps_vers db.vers ph.boot db.cat st hst
      simp only [List.nil_append] at h1
      simp only [phaseRun, h1, he, h2]
    simp only [phaseSteps, he] at hst
    cases hs : ph.scripts with
    | none =>
      simp only [hs, List.append_nil] at hst
      rw [hboot st hst]; exact h
    | some p =>
      obtain ⟨k, ss⟩ := p
      simp only [hs, List.mem_append, List.mem_cons] at hst
      simp only [phaseRun, he, hs] at h
      rcases hst with hst | rfl | hst
      · rw [hboot st hst]; simp only [phaseRun, he, hs]; exact h
      · simp only [phaseRun, execAll_settled ph.boot c hS, hs]; exact h
      · have hRl : ∀ s ∈ ss.drop (getVer db.vers k), Rerunnable s := by
          intro s hs'
          exact ok.rerun s (by simp [Phase.stmts, hs, List.mem_of_mem_drop hs'])
        have hU : ∀ s ∈ ss.drop (getVer db.vers k), ∀ b ∈ ph.boot, Preserves s b := by
          intro s hs' b hb
          exact ok.pres b hb s (by simp [Phase.stmts, hs, List.mem_of_mem_drop hs'])
        have hSst : Settled ph.boot st.1.cat :=
          (inv_loop (settled_invOK ph.boot) k _ _ ⟨c, db.vers⟩ hU hS).1 st hst
        have := loop_mid k ss _ _ ⟨c, db.vers⟩ fin rfl rfl hRl h st hst
        simp only [phaseRun, execAll_settled ph.boot st.1.cat hSst, hs]
        exact this

/-! ### the whole start -/

theorem wf_phase {ph : Phase} {r : List Phase} (wf : WF (ph :: r)) : PhaseOK ph where
  rerun := fun s hs => wf.rerun s (mem_allStmts_cons.2 (Or.inl hs))
  pres := fun b hb s hs => wf.pres b (mem_allBoots_cons.2 (Or.inl hb)) s (mem_allStmts_cons.2 (Or.inl hs))

theorem wf_tail {ph : Phase} {r : List Phase} (wf : WF (ph :: r)) : WF r where
  rerun := fun s hs => wf.rerun s (mem_allStmts_cons.2 (Or.inr hs))
  pres := fun b hb s hs => wf.pres b (mem_allBoots_cons.2 (Or.inr hb)) s (mem_allStmts_cons.2 (Or.inr hs))

theorem wf_boot_tail {ph : Phase} {r : List Phase} (wf : WF (ph :: r)) :
    ∀ s ∈ allStmts r, ∀ b ∈ ph.boot, Preserves s b :=
  fun s hs b hb => wf.pres b (mem_allBoots_cons.2 (Or.inl hb)) s (mem_allStmts_cons.2 (Or.inr hs))

/-- after a successful start every phase is complete -/
theorem all_complete : ∀ (P : List Phase) (db fin : Db), WF P → run P db = .ok fin → ∀ ph ∈ P, Complete ph fin := by
  intro P
  induction P with
  | nil => intro db fin _ _ ph hp; simp at hp
  | cons ph r ih =>
    intro db fin wf h ph' hp
    obtain ⟨d, h1, h2⟩ := run_cons_ok h
    simp only [List.mem_cons] at hp
    rcases hp with rfl | hp
    · have hc := phase_complete_after (wf_phase wf) h1
      exact (inv_run (complete_invOK ph') r d (wf_boot_tail wf) hc).2 fin h2
    · exact ih d fin (wf_tail wf) h2 ph' hp

/-- M2: the state reached by a successful start is a fixed point of starting -/
theorem run_fixpoint (P : List Phase) (db fin : Db) (wf : WF P) (h : run P db = .ok fin) : run P fin = .ok fin :=
  run_complete P fin (all_complete P db fin wf h)

/-- M1: a start from any state in which a successful start can be stopped ends in the same final state -/
theorem run_from_step : ∀ (P : List Phase) (db fin : Db), WF P → run P db = .ok fin →
    ∀ st ∈ steps P db, run P st.1 = .ok fin := by
  intro P
  induction P with
  | nil => intro db fin _ _ st hst; simp [steps] at hst
  | cons ph r ih =>
    intro db fin wf h st hst
    obtain ⟨d, h1, h2⟩ := run_cons_ok h
    simp only [steps, h1, List.mem_append] at hst
    rcases hst with hst | hst
    · simp only [run, phase_mid (wf_phase wf) h1 st hst]; exact h2
    · have hc := phase_complete_after (wf_phase wf) h1
      have hst' : Complete ph st.1 := (inv_run (complete_invOK ph) r d (wf_boot_tail wf) hc).1 st hst
      simp only [run, phaseRun_complete ph st.1 hst']
      exact ih d fin (wf_tail wf) h2 st hst

theorem run_from_point (P : List Phase) (db fin : Db) (wf : WF P) (h : run P db = .ok fin) :
    ∀ mid ∈ points P db, run P mid = .ok fin := by
  intro mid hm
  simp only [points, h, List.mem_append, List.mem_singleton, states, List.mem_map] at hm
  rcases hm with ⟨st, hst, rfl⟩ | rfl
  · exact run_from_step P db fin wf h st hst
  · exact run_fixpoint P db mid wf h

theorem attempt_converges (P : List Phase) (db fin : Db) (wf : WF P) (h : run P db = .ok fin) (f : Option Fault) :
    run P (attempt P db f).db = .ok fin := by
  have hclean : run P (match run P db with
      | .ok fin => (⟨.done, fin, (states P db).length⟩ : Outcome)
      | .error e => ⟨.failed e, (states P db).getLast?.getD db, (states P db).length⟩).db = .ok fin := by
    simp only [h]; exact run_fixpoint P db fin wf h
  cases f with
  | none => exact hclean
  | some f =>
    simp only [attempt]
    split
    · split
      · rename_i mid hm
        exact run_from_point P db fin wf h mid (List.mem_of_getElem? hm)
      · exact hclean
    · exact hclean

theorem sched_converges (P : List Phase) (wf : WF P) : ∀ (faults : List Fault) (db fin : Db),
    run P db = .ok fin → run P (sched P db faults) = .ok fin := by
  intro faults
  induction faults with
  | nil => intro db fin h; exact h
  | cons f r ih =>
    intro db fin h
    exact ih _ fin (attempt_converges P db fin wf h (some f))

/-! ### `wfB ⇒ WF` -/

theorem wf_of_wfB (P : List Phase) (h : wfB P = true) : WF P := by
  simp only [wfB, Bool.and_eq_true, List.all_eq_true] at h
  exact ⟨fun s hs => rerunnable_of_criterion s (h.1 s hs),
         fun b hb s hs => preserves_of_criterion s b (h.2 b hb s hs)⟩

/-! ### versions are recorded in step with the scripts -/

theorem loop_calls_prefix (k : Nat) : ∀ (l : List Stmt) (i : Nat) (d : Db),
    (loopSteps k l i d).map (·.2) <+: altCalls k l i := by
  intro l
  induction l with
  | nil => intro i d; simp [loopSteps, altCalls]
  | cons s r ih =>
    intro i d
    cases he : exec d.cat s with
    | error e =>
      simp only [loopSteps, he, List.map_cons, List.map_nil, altCalls]
      exact ⟨_, rfl⟩
    | ok c =>
      simp only [loopSteps, he, List.map_cons, altCalls]
      obtain ⟨t, ht⟩ := ih (i + 1) ⟨c, d.vers ++ [(k, i + 1)]⟩
      exact ⟨t, by simp [ht]⟩

/-- at the `j`-th call of the loop the recorded version is the start version plus the number of
    completed (script, record) pairs -/
theorem loop_ver_at (k : Nat) : ∀ (l : List Stmt) (i : Nat) (d : Db), getVer d.vers k = i →
    ∀ (j : Nat) (st : Step), (loopSteps k l i d)[j]? = some st → getVer st.1.vers k = i + j / 2 := by
  intro l
  induction l with
  | nil => intro i d _ j st h; simp [loopSteps] at h
  | cons s r ih =>
    intro i d hv j st h
    cases he : exec d.cat s with
    | error e =>
      simp only [loopSteps, he] at h
      cases j with
      | zero => simp only [List.getElem?_cons_zero, Option.some.injEq] at h; subst h; simpa using hv
      | succ j => simp at h
    | ok c =>
      simp only [loopSteps, he] at h
      match j with
      | 0 => simp only [List.getElem?_cons_zero, Option.some.injEq] at h; subst h; simpa using hv
      | 1 => simp only [List.getElem?_cons_succ, List.getElem?_cons_zero, Option.some.injEq] at h; subst h; simpa using hv
      | j + 2 =>
        simp only [List.getElem?_cons_succ] at h
        have := ih (i + 1) _ (getVer_append_self d.vers k i hv) j st h
        rw [this]; omega

/-- a `record` call is issued only in the state produced by the successful execution of its script -/
theorem loop_record_after_script (k : Nat) : ∀ (l : List Stmt) (i : Nat) (d : Db)
    (j : Nat) (d' : Db) (k' v : Nat), (loopSteps k l i d)[j]? = some (d', .record k' v) →
    ∃ j0 d0 s, j = j0 + 1 ∧ (loopSteps k l i d)[j0]? = some (d0, .script k' (v - 1) s) ∧ 1 ≤ v ∧
      exec d0.cat s = .ok d'.cat ∧ d'.vers = d0.vers := by
  intro l
  induction l with
  | nil => intro i d j d' k' v h; simp [loopSteps] at h
  | cons s r ih =>
    intro i d j d' k' v h
    cases he : exec d.cat s with
    | error e =>
      simp only [loopSteps, he] at h
      cases j with
      | zero => simp at h
      | succ j => simp at h
    | ok c =>
      simp only [loopSteps, he] at h ⊢
      match j with
      | 0 => simp at h
      | 1 =>
        simp only [List.getElem?_cons_succ, List.getElem?_cons_zero, Option.some.injEq, Prod.mk.injEq,
          Call.record.injEq] at h
        obtain ⟨rfl, rfl, rfl⟩ := h
        exact ⟨0, d, s, rfl, by simp, by omega, he, rfl⟩
      | j + 2 =>
        simp only [List.getElem?_cons_succ] at h
        obtain ⟨j0, d0, s0, hj, h0, hv, hx, hvs⟩ := ih (i + 1) _ j d' k' v h
        exact ⟨j0 + 2, d0, s0, by omega, by simpa using h0, hv, hx, hvs⟩

/-! ### an up-to-date database -/

theorem boot_calls (vs : List (Nat × Nat)) : ∀ (l : List Stmt) (c : Cat),
    ∀ st ∈ bootSteps vs l c, st.2.isMigration = false := by
  intro l
  induction l with
  | nil => intro c st h; simp [bootSteps] at h
  | cons s r ih =>
    intro c st h
    simp only [bootSteps, List.mem_cons] at h
    rcases h with rfl | h
    · rfl
    · cases he : exec c s with
      | error e => simp [he] at h
      | ok c1 => simp only [he] at h; exact ih c1 st h

theorem uptodate_phase (ph : Phase) (db : Db)
    (h : ∀ k ss, ph.scripts = some (k, ss) → ss.length ≤ getVer db.vers k) :
    (∀ st ∈ phaseSteps ph db, st.2.isMigration = false) ∧ (∀ fin, phaseRun ph db = .ok fin → fin.vers = db.vers) := by
  cases he : execAll ph.boot db.cat with
  | error e =>
    refine ⟨?_, ?_⟩
    · intro st hst
      simp only [phaseSteps, he, List.append_nil] at hst
      exact boot_calls _ _ _ st hst
    · intro fin h'; simp [phaseRun, he] at h'
  | ok c =>
    cases hs : ph.scripts with
    | none =>
      refine ⟨?_, ?_⟩
      · intro st hst
        simp only [phaseSteps, he, hs, List.append_nil] at hst
        exact boot_calls _ _ _ st hst
      · intro fin h'
        simp only [phaseRun, he, hs, Except.ok.injEq] at h'
        subst h'; rfl
    | some p =>
      obtain ⟨k, ss⟩ := p
      have hd := List.drop_eq_nil_of_le (h k ss hs)
      refine ⟨?_, ?_⟩
      · intro st hst
        simp only [phaseSteps, he, hs, hd, loopSteps, List.mem_append, List.mem_singleton] at hst
        rcases hst with hst | rfl
        · exact boot_calls _ _ _ st hst
        · rfl
      · intro fin h'
        simp only [phaseRun, he, hs, hd, loopRun, Except.ok.injEq] at h'
        subst h'; rfl

theorem uptodate_run : ∀ (P : List Phase) (db : Db), UpToDate P db.vers →
    (∀ st ∈ steps P db, st.2.isMigration = false) ∧ (∀ fin, run P db = .ok fin → fin.vers = db.vers) := by
  intro P
  induction P with
  | nil =>
    intro db _
    refine ⟨by simp [steps], ?_⟩
    intro fin h; simp only [run, Except.ok.injEq] at h; subst h; rfl
  | cons ph r ih =>
    intro db hu
    have ⟨a, b⟩ := uptodate_phase ph db (fun k ss hs => hu ph (by simp) k ss hs)
    cases he : phaseRun ph db with
    | error e =>
      refine ⟨?_, ?_⟩
      · intro st hst
        simp only [steps, he, List.append_nil] at hst
        exact a st hst
      · intro fin h'; simp [run, he] at h'
    | ok d =>
      have hv := b d he
      have hu' : UpToDate r d.vers := by
        intro ph' hp k ss hs
        rw [hv]; exact hu ph' (by simp [hp]) k ss hs
      have ⟨a2, b2⟩ := ih d hu'
      refine ⟨?_, ?_⟩
      · intro st hst
        simp only [steps, he, List.mem_append] at hst
        rcases hst with hst | hst
        · exact a st hst
        · exact a2 st hst
      · intro fin h'
        simp only [run, he] at h'
        rw [b2 fin h', hv]

end Qryn.Ctrl.Migrate
