import Qryn.Proofs.SpanRun
/-! OTLP writer and reader: association lists (Go maps), last-wins look-up, service-name resolution. -/
namespace Qryn.Span

/-! ### association lists -/

theorem any_false_elim {α} {l : List α} {p : α → Bool} (h : l.any p = false) : ∀ x ∈ l, p x = false := by
  intro x hx
  cases hb : p x with
  | false => rfl
  | true => exact absurd (List.any_eq_true.mpr ⟨x, hx, hb⟩) (by simp [h])

theorem find?_none_of_any_false {α} {l : List α} {p : α → Bool} (h : l.any p = false) : l.find? p = none := by
  rw [List.find?_eq_none]; intro x hx; simp [any_false_elim h x hx]

theorem any_true_of_find?_some {α} {l : List α} {p : α → Bool} {a : α} (h : l.find? p = some a) : l.any p = true :=
  List.any_eq_true.mpr ⟨a, List.mem_of_find?_eq_some h, List.find?_some h⟩

theorem any_false_of_find?_none {α} {l : List α} {p : α → Bool} (h : l.find? p = none) : l.any p = false := by
  cases hb : l.any p with
  | false => rfl
  | true =>
    obtain ⟨x, hx, hp⟩ := List.any_eq_true.mp hb
    exact absurd hp (List.find?_eq_none.mp h x hx)

theorem filterMap_congr' {α β} {f g : α → Option β} : ∀ {l : List α}, (∀ x ∈ l, f x = g x) → l.filterMap f = l.filterMap g
  | [], _ => rfl
  | x :: xs, h => by
    have hx := h x (by simp)
    have ih := filterMap_congr' (l := xs) (fun y hy => h y (by simp [hy]))
    simp only [List.filterMap_cons, hx, ih]

theorem assocGet_append_singleton {α} (m : List (Str × α)) (k k' : Str) (v : α)
    (hm : m.any (fun e => e.1 == k) = false) :
    assocGet (m ++ [(k, v)]) k' = if k' = k then some v else assocGet m k' := by
  unfold assocGet
  rw [List.find?_append]
  by_cases hk : k' = k
  · subst hk
    simp [find?_none_of_any_false hm]
  · simp only [hk, if_false]
    cases hf : m.find? (fun e => e.1 == k') with
    | some x => simp
    | none =>
      have hb : (k == k') = false := by simpa using fun h : k = k' => hk h.symm
      simp [List.find?_cons, hb]

theorem assocGet_map_set {α} (m : List (Str × α)) (k k' : Str) (v : α) :
    assocGet (m.map (fun e => if e.1 == k then (k, v) else e)) k' =
      if k' = k then (if m.any (fun e => e.1 == k) then some v else none) else assocGet m k' := by
  unfold assocGet
  rw [List.find?_map]
  have hp : ((fun e : Str × α => e.1 == k') ∘ fun e => if e.1 == k then (k, v) else e) = fun e => e.1 == k' := by
    funext e
    by_cases he : e.1 = k <;> simp [he]
  rw [hp]
  by_cases hk : k' = k
  · subst hk
    cases hf : m.find? (fun e => e.1 == k') with
    | none => simp [any_false_of_find?_none hf]
    | some e =>
      have he : e.1 = k' := by simpa using List.find?_some hf
      simp [any_true_of_find?_some hf, he]
  · simp only [hk, if_false]
    cases hf : m.find? (fun e => e.1 == k') with
    | none => simp
    | some e =>
      have he : e.1 = k' := by simpa using List.find?_some hf
      have : ¬ e.1 = k := by rw [he]; exact hk
      simp [this]

theorem assocGet_set {α} (m : List (Str × α)) (k k' : Str) (v : α) :
    assocGet (assocSet m k v) k' = if k' = k then some v else assocGet m k' := by
  unfold assocSet
  by_cases hm : m.any (fun e => e.1 == k) = true
  · simp only [hm, if_true]; rw [assocGet_map_set]; simp [hm]
  · have hm' : m.any (fun e => e.1 == k) = false := Bool.eq_false_iff.mpr hm
    simp only [hm', Bool.false_eq_true, if_false]
    exact assocGet_append_singleton m k k' v hm'

theorem assocSet_keys_nodup {α} (m : List (Str × α)) (k : Str) (v : α) (h : (m.map (·.1)).Nodup) :
    ((assocSet m k v).map (·.1)).Nodup := by
  unfold assocSet
  by_cases hm : m.any (fun e => e.1 == k) = true
  · simp only [hm, if_true, List.map_map]
    have : (m.map ((fun (e : Str × α) => e.1) ∘ fun e => if e.1 == k then (k, v) else e)) = m.map (·.1) := by
      apply List.map_congr_left
      intro e _
      by_cases he : e.1 = k <;> simp [he]
    rw [this]; exact h
  · have hm' : m.any (fun e => e.1 == k) = false := Bool.eq_false_iff.mpr hm
    simp only [hm', Bool.false_eq_true, if_false, List.map_append, List.map_cons, List.map_nil]
    rw [List.nodup_append]
    refine ⟨h, by simp, ?_⟩
    intro a ha b hb
    simp only [List.mem_singleton] at hb; subst hb
    obtain ⟨e, he, rfl⟩ := List.mem_map.mp ha
    have := any_false_elim hm' e he
    simpa using this

theorem assocFold_keys_nodup {α} (ws : List (Str × α)) : ∀ (m : List (Str × α)), (m.map (·.1)).Nodup →
    ((ws.foldl (fun m w => assocSet m w.1 w.2) m).map (·.1)).Nodup := by
  induction ws with
  | nil => intro m h; exact h
  | cons w ws ih => intro m h; exact ih _ (assocSet_keys_nodup m w.1 w.2 h)

theorem assocOfWrites_keys_nodup {α} (ws : List (Str × α)) : ((assocOfWrites ws).map (·.1)).Nodup :=
  assocFold_keys_nodup ws [] (by simp)

/-- the last value written under `k` -/
def lastWrite {α} (ws : List (Str × α)) (k : Str) : Option α := (ws.reverse.find? (fun e => e.1 == k)).map (·.2)

theorem lastWrite_cons {α} (w : Str × α) (ws : List (Str × α)) (k : Str) :
    lastWrite (w :: ws) k = match lastWrite ws k with | some v => some v | none => if w.1 = k then some w.2 else none := by
  unfold lastWrite
  simp only [List.reverse_cons, List.find?_append]
  cases h : ws.reverse.find? (fun e => e.1 == k) with
  | some x => simp
  | none =>
    by_cases hw : w.1 = k <;> simp [hw]

theorem assocFold_get {α} (ws : List (Str × α)) : ∀ (m : List (Str × α)) (k : Str),
    assocGet (ws.foldl (fun m w => assocSet m w.1 w.2) m) k =
      match lastWrite ws k with | some v => some v | none => assocGet m k := by
  induction ws with
  | nil => intro m k; simp [lastWrite]
  | cons w ws ih =>
    intro m k
    simp only [List.foldl_cons]
    rw [ih, lastWrite_cons, assocGet_set]
    cases lastWrite ws k with
    | some v => rfl
    | none =>
      by_cases hw : w.1 = k
      · simp [hw]
      · have : ¬ k = w.1 := fun h => hw h.symm
        simp [hw, this]

/-- a map built from writes holds, under every key, the last value written -/
theorem assocOfWrites_get {α} (ws : List (Str × α)) (k : Str) : assocGet (assocOfWrites ws) k = lastWrite ws k := by
  unfold assocOfWrites
  rw [assocFold_get]
  cases lastWrite ws k <;> simp [assocGet]

theorem lookupLast_eq_lastWrite (attrs : List KV) (k : Str) : lookupLast attrs k = lastWrite attrs k := rfl

/-- with unique keys, last and first look-up coincide -/
theorem lastWrite_eq_assocGet_of_nodup {α} : ∀ (m : List (Str × α)) (k : Str), (m.map (·.1)).Nodup →
    lastWrite m k = assocGet m k := by
  intro m
  induction m with
  | nil => intro k _; rfl
  | cons x xs ih =>
    intro k hn
    simp only [List.map_cons, List.nodup_cons] at hn
    rw [lastWrite_cons, ih k hn.2]
    unfold assocGet
    simp only [List.find?_cons]
    by_cases hx : x.1 = k
    · have : xs.find? (fun e => e.1 == k) = none := by
        rw [List.find?_eq_none]; intro y hy
        have : y.1 ≠ k := by
          intro h; apply hn.1; rw [hx, ← h]; exact List.mem_map.mpr ⟨y, hy, rfl⟩
        simpa using this
      have hb : (x.1 == k) = true := by simpa using hx
      simp [hx, this]
    · have hx' : (x.1 == k) = false := by simpa using hx
      simp only [hx', hx, if_false]
      cases xs.find? (fun e => e.1 == k) <;> simp

/-- the reader's first-level map answers every key like a last-wins look-up in the stored attributes -/
theorem lookupLast_firstLevel (attrs : List KV) (k : Str) : lookupLast (firstLevel attrs) k = lookupLast attrs k := by
  rw [lookupLast_eq_lastWrite, lastWrite_eq_assocGet_of_nodup _ _ (assocOfWrites_keys_nodup attrs), assocOfWrites_get]
  rfl

theorem lookupLast_append_singleton (attrs : List KV) (k k' : Str) (v : AnyValue) :
    lookupLast (attrs ++ [(k, v)]) k' = if k' = k then some v else lookupLast attrs k' := by
  unfold lookupLast
  simp only [List.reverse_append, List.reverse_cons, List.reverse_nil, List.nil_append, List.singleton_append]
  by_cases hk : k' = k
  · subst hk; simp [List.find?_cons]
  · have hb : (k == k') = false := by simpa using fun h : k = k' => hk h.symm
    simp [List.find?_cons, hb, hk]

theorem find?_replaceFirst (key : Str) (v : AnyValue) (k' : Str) : ∀ (l : List KV),
    (replaceFirst key v l).find? (fun kv => kv.1 == k') =
      if k' = key then (if l.any (fun kv => kv.1 == key) then some (key, v) else none) else l.find? (fun kv => kv.1 == k') := by
  intro l
  induction l with
  | nil => by_cases hk : k' = key <;> simp [replaceFirst, hk]
  | cons x xs ih =>
    simp only [replaceFirst]
    cases hxb : (x.1 == key) with
    | true =>
      have hx : x.1 = key := by simpa using hxb
      simp only [if_true, List.any_cons, hxb, Bool.true_or]
      by_cases hk : k' = key
      · subst hk; simp [List.find?_cons]
      · have hb : (key == k') = false := by simpa using fun h : key = k' => hk h.symm
        have hb' : (x.1 == k') = false := by rw [hx]; exact hb
        simp [List.find?_cons, hb, hb', hk]
    | false =>
      simp only [Bool.false_eq_true, if_false, List.any_cons, hxb, Bool.false_or]
      by_cases hk : k' = key
      · subst hk
        simp only [List.find?_cons, hxb, if_true]
        simpa using ih
      · simp only [hk, if_false] at ih ⊢
        simp only [List.find?_cons]
        cases (x.1 == k') <;> simp [ih]

/-- `populateServiceNames`: after the service name is set, it is what a look-up of that key finds; other keys
    are untouched -/
theorem lookupLast_setLast (attrs : List KV) (k k' : Str) (v : AnyValue) :
    lookupLast (setLast attrs k v) k' = if k' = k then some v else lookupLast attrs k' := by
  unfold setLast
  by_cases ha : attrs.any (fun kv => kv.1 == k) = true
  · simp only [ha, if_true]
    unfold lookupLast
    rw [List.reverse_reverse, find?_replaceFirst]
    have : attrs.reverse.any (fun kv => kv.1 == k) = true := by rw [List.any_reverse]; exact ha
    by_cases hk : k' = k
    · simp [hk, this]
    · simp [hk]
  · have ha' : attrs.any (fun kv => kv.1 == k) = false := Bool.eq_false_iff.mpr ha
    simp only [ha', Bool.false_eq_true, if_false]
    exact lookupLast_append_singleton attrs k k' v

/-! ### service-name resolution -/

theorem nameHit_congr {a b : List KV} {n : Str} (h : lookupLast a n = lookupLast b n) : nameHit a n = nameHit b n := by
  unfold nameHit; rw [h]

theorem resolveService_first (names : List Str) (dflt : Str) (attrs : List KV) :
    resolveService names true dflt attrs = ((names.filterMap (nameHit attrs)).head?).getD dflt := by
  unfold resolveService
  simp only [if_true]
  cases (names.filterMap (nameHit attrs)).head? <;> rfl

/-- the first hit of a list of names does not change when one of the names is made to answer with that very
    first hit (or with the default when there was none) -/
theorem firstHit_override (sn s : Str) (h : Str → Option Str) :
    ∀ (names : List Str), sn ∈ names → ((names.filterMap h).head?).getD s = s →
      (names.filterMap (fun n => if n = sn then some s else h n)).head? = some s := by
  intro names
  induction names with
  | nil => intro hm; cases hm
  | cons n rest ih =>
    intro hm hs
    by_cases hn : n = sn
    · simp [List.filterMap_cons, hn]
    · have hm' : sn ∈ rest := by
        rcases List.mem_cons.mp hm with h | h
        · exact absurd h.symm hn
        · exact h
      cases hh : h n with
      | some t =>
        simp only [List.filterMap_cons, hh, List.head?_cons, Option.getD_some] at hs
        simp [List.filterMap_cons, hn, hh, hs]
      | none =>
        simp only [List.filterMap_cons, hh] at hs
        simp only [List.filterMap_cons, hn, if_false, hh]
        exact ih hm' hs

theorem nameHit_ne_nil {attrs : List KV} {n s : Str} (h : nameHit attrs n = some s) : s ≠ [] := by
  unfold nameHit at h
  split at h
  · split at h
    · cases h
    · rename_i hne; injection h with h; subst h; exact hne
  · cases h

theorem resolveService_ne_nil (names : List Str) (dflt : Str) (attrs : List KV) (hd : dflt ≠ []) :
    resolveService names true dflt attrs ≠ [] := by
  rw [resolveService_first]
  cases hh : (names.filterMap (nameHit attrs)).head? with
  | none => simpa using hd
  | some s =>
    simp only [Option.getD_some]
    have hm : s ∈ names.filterMap (nameHit attrs) := List.mem_of_mem_head? hh
    obtain ⟨n, _, hn⟩ := List.mem_filterMap.mp hm
    exact nameHit_ne_nil hn

/-- writer and reader agree: resolving the service name again on the stored attributes (where `service.name`
    holds the resolved name), through the reader's first-level map, gives the name the writer resolved -/
theorem resolve_stored (names : List Str) (dflt : Str) (attrs stored : List KV) (hd : dflt ≠ [])
    (hsn : kServiceName ∈ names)
    (hst : ∀ n ∈ names, lookupLast stored n =
      if n = kServiceName then some (.str (resolveService names true dflt attrs)) else lookupLast attrs n) :
    resolveService names true dflt (firstLevel stored) = resolveService names true dflt attrs := by
  have hne := resolveService_ne_nil names dflt attrs hd
  generalize hs : resolveService names true dflt attrs = s at hne hst
  rw [resolveService_first] at hs ⊢
  have hhit : ∀ n ∈ names, nameHit (firstLevel stored) n = if n = kServiceName then some s else nameHit attrs n := by
    intro n hn
    by_cases hk : n = kServiceName
    · simp only [hk, if_true]
      unfold nameHit
      rw [lookupLast_firstLevel, hst _ (hk ▸ hn)]
      simp [hne]
    · simp only [hk, if_false]
      apply nameHit_congr
      rw [lookupLast_firstLevel, hst n hn]; simp [hk]
  have : names.filterMap (nameHit (firstLevel stored)) =
      names.filterMap (fun n => if n = kServiceName then some s else nameHit attrs n) := by
    exact filterMap_congr' hhit
  rw [this]
  have hs' : ((names.filterMap (nameHit attrs)).head?).getD s = s := by
    cases hh : (names.filterMap (nameHit attrs)).head? with
    | none => rfl
    | some t => rw [hh] at hs; simpa using hs
  rw [firstHit_override kServiceName s (nameHit attrs) names hsn hs']
  rfl

end Qryn.Span
