import Qryn.Http.Auth
import Qryn.Proofs.Base64
/-! Lemmas about `authDecision`. Core-only. -/
namespace Qryn.Http
open Qryn

theorem cut_some {sep : UInt8} : ∀ {s a b : Bytes}, cut sep s = some (a, b) ↔ (s = a ++ sep :: b ∧ sep ∉ a)
  | [], a, b => by simp [cut]
  | c :: r, a, b => by
    by_cases hc : c = sep
    · subst hc
      simp only [cut, if_true, Option.some.injEq, Prod.mk.injEq]
      constructor
      · rintro ⟨rfl, rfl⟩; simp
      · rintro ⟨h, hn⟩
        cases a with
        | nil => simp only [List.nil_append, List.cons.injEq, true_and] at h; simp [h]
        | cons x a' =>
          simp only [List.cons_append, List.cons.injEq] at h
          exact absurd (by simp [h.1]) hn
    · simp only [cut, hc, if_false]
      cases hr : cut sep r with
      | none =>
        simp only [false_iff, reduceCtorEq]
        rintro ⟨h, hn⟩
        cases a with
        | nil => simp only [List.nil_append, List.cons.injEq] at h; exact hc h.1
        | cons x a' =>
          simp only [List.cons_append, List.cons.injEq] at h
          have : cut sep r = some (a', b) := cut_some.mpr ⟨h.2, fun hm => hn (by simp [hm])⟩
          rw [hr] at this; cases this
      | some ab =>
        obtain ⟨a0, b0⟩ := ab
        have h0 := cut_some.mp hr
        simp only [Option.some.injEq, Prod.mk.injEq]
        constructor
        · rintro ⟨rfl, rfl⟩
          refine ⟨by simp [h0.1], ?_⟩
          simp only [List.mem_cons, not_or]
          exact ⟨fun h => hc h.symm, h0.2⟩
        · rintro ⟨h, hn⟩
          cases a with
          | nil => simp only [List.nil_append, List.cons.injEq] at h; exact absurd h.1 hc
          | cons x a' =>
            simp only [List.cons_append, List.cons.injEq] at h
            have : cut sep r = some (a', b) := cut_some.mpr ⟨h.2, fun hm => hn (by simp [hm])⟩
            rw [hr] at this
            simp only [Option.some.injEq, Prod.mk.injEq] at this
            exact ⟨by rw [h.1, this.1], this.2⟩

theorem cut_none {sep : UInt8} : ∀ {s : Bytes}, cut sep s = none ↔ sep ∉ s
  | [] => by simp [cut]
  | c :: r => by
    by_cases hc : c = sep
    · subst hc; simp [cut]
    · have ih := @cut_none sep r
      simp only [cut, hc, if_false, List.mem_cons, not_or]
      cases hr : cut sep r with
      | none => exact ⟨fun _ => ⟨fun h => hc h.symm, ih.mp hr⟩, fun _ => rfl⟩
      | some ab =>
        simp only [reduceCtorEq, false_iff, not_and, Decidable.not_not]
        intro _
        have : ¬ (sep ∉ r) := fun h => by rw [ih.mpr h] at hr; cases hr
        simpa using this

theorem decodeOk_some {e s : Bytes} : B64.decodeOk e = some s ↔ B64.decode false e = (s, false) := by
  unfold B64.decodeOk
  cases h : B64.decode false e with
  | mk o err => cases err <;> simp

theorem decodeOk_none {e : Bytes} : B64.decodeOk e = none ↔ (B64.decode false e).2 = true := by
  unfold B64.decodeOk
  cases h : B64.decode false e with
  | mk o err => cases err <;> simp

/-- the exact set of headers `BasicAuthMiddleware(login, pass)` lets through -/
theorem authDecision_pass_iff (login pass : Bytes) (hdr : Option Bytes) :
    authDecision login pass hdr = .pass ↔
      ∃ e, hdr = some (basicWord ++ sp :: e) ∧ B64.decodeOk e = some (login ++ colon :: pass) ∧ colon ∉ login := by
  constructor
  · intro h
    unfold authDecision at h
    simp only at h
    split at h
    · cases h
    · rename_i hne
      split at h
      · cases h
      · rename_i scheme e hcut
        split at h
        · cases h
        · rename_i hs
          split at h
          · cases h
          · rename_i herr
            split at h
            · cases h
            · rename_i u p hc
              split at h
              · cases h
              · rename_i hup
                have hs' : scheme = basicWord := by simpa using hs
                have hu : u = login ∧ p = pass := by
                  constructor
                  · exact Decidable.byContradiction fun x => hup (.inl x)
                  · exact Decidable.byContradiction fun x => hup (.inr x)
                obtain ⟨rfl, rfl⟩ := hu
                have h1 := cut_some.mp hcut
                have h2 := cut_some.mp hc
                refine ⟨e, ?_, ?_, h2.2⟩
                · cases hdr with
                  | none => simp at hne
                  | some a => simp only [Option.getD_some] at h1; rw [h1.1, hs']
                · rw [decodeOk_some]
                  have : (B64.decode false e).2 = false := by simpa using herr
                  exact Prod.ext h2.1 this
  · rintro ⟨e, rfl, hd, hn⟩
    have hcut : cut sp (basicWord ++ sp :: e) = some (basicWord, e) := cut_some.mpr ⟨rfl, by decide⟩
    have hc : cut colon (login ++ colon :: pass) = some (login, pass) := cut_some.mpr ⟨rfl, hn⟩
    rw [decodeOk_some] at hd
    have hne : basicWord ++ sp :: e ≠ [] := by simp [basicWord]
    simp [authDecision, hne, hcut, hd, hc]

/-- 400 exactly for: a non-empty header that is not `Basic <something>` or whose payload is not base64 -/
theorem authDecision_400_iff (login pass : Bytes) (hdr : Option Bytes) :
    authDecision login pass hdr = .status400 ↔
      ∃ a, hdr = some a ∧ a ≠ [] ∧
        (sp ∉ a ∨ ∃ scheme e, a = scheme ++ sp :: e ∧ sp ∉ scheme ∧ (scheme ≠ basicWord ∨ B64.decodeOk e = none)) := by
  constructor
  · intro h
    unfold authDecision at h
    simp only at h
    split at h
    · cases h
    · rename_i hne
      cases hdr with
      | none => simp at hne
      | some a =>
        simp only [Option.getD_some] at hne h
        refine ⟨a, rfl, hne, ?_⟩
        split at h
        · rename_i hcut; exact .inl (cut_none.mp hcut)
        · rename_i scheme e hcut
          have h1 := cut_some.mp hcut
          refine .inr ⟨scheme, e, h1.1, h1.2, ?_⟩
          split at h
          · rename_i hs; exact .inl hs
          · split at h
            · rename_i herr; exact .inr (decodeOk_none.mpr herr)
            · split at h
              · cases h
              · split at h <;> cases h
  · rintro ⟨a, rfl, hne, h⟩
    rcases h with h | ⟨scheme, e, rfl, hn, h⟩
    · simp [authDecision, hne, cut_none.mpr h]
    · have hcut : cut sp (scheme ++ sp :: e) = some (scheme, e) := cut_some.mpr ⟨rfl, hn⟩
      rcases h with h | h
      · simp [authDecision, hne, hcut, h]
      · by_cases hs : scheme = basicWord
        · subst hs
          simp [authDecision, hne, hcut, decodeOk_none.mp h]
        · simp [authDecision, hne, hcut, hs]

theorem decision_cases (d : Decision) : d = .pass ∨ d = .status401 ∨ d = .status400 := by
  cases d <;> simp

end Qryn.Http
