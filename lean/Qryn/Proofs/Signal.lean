import Qryn.Read.Signal
import Qryn.Proofs.Confine
/-! C13, signal half: `Confine.confined` with `needType` already asks the type filter of every DATA scan and of every index
    scan that is not reached through fingerprints, with the `tp` of the window; so a confined statement is signal-confined
    for the window's `tp` (`signalConfined_of_confined`). What the `signal_confined_*` theorems of Props/C13 add is WHICH
    `tp` that is: the signal of the API, for the planner context the entry point really builds (regenerated `Type:` fields). -/
namespace Qryn.Confine
open Qryn Qryn.Sql

theorem isSignalFilter_eq (w : Window) (e : Expr) : isSignalFilter w.tp e = isTypeFilter w e := by
  unfold isSignalFilter isTypeFilter sigWin
  split <;> rfl

theorem bodySignal_of_confined (cfg : Cfg) (hT : TypedCfg cfg) (w : Window) (hn : w.needType = true) (ok : List Alias) (s : Sel)
    (h : bodyConfined cfg w ok s = true) : bodySignal cfg w.tp ok s = true := by
  obtain ⟨ws, d, c, f, j, p, wh, g, hv, ob, l⟩ := s
  unfold bodyConfined at h
  unfold bodySignal
  cases hf : fromTable f with
  | none => simp [hf]
  | some t =>
    simp only [hf] at h ⊢
    cases hty : cfg.typed t with
    | false => simp
    | true =>
      obtain ⟨hk, hb⟩ := hT t hty
      have hfun : (fun e => isSignalFilter w.tp e) = (fun e => isTypeFilter w e) := by
        funext e; exact isSignalFilter_eq w e
      simp only [hn, hty, Bool.and_self, Bool.not_true, Bool.false_or, hb, Bool.false_and, Bool.or_false] at h ⊢
      cases hkind : cfg.kind t with
      | other => exact absurd hkind hk
      | data =>
        simp only [hkind, Bool.and_eq_true] at h
        have := h.2
        simp only [Bool.or_false]
        show (conjuncts p ++ conjuncts wh).any (fun e => isSignalFilter w.tp e) = true
        rw [hfun]; exact this
      | index =>
        simp only [hkind, Bool.and_eq_true, Bool.or_eq_true] at h
        rcases h.2 with h1 | h1
        · simp only [Bool.or_eq_true]
          left
          show (conjuncts p ++ conjuncts wh).any (fun e => isSignalFilter w.tp e) = true
          rw [hfun]; exact h1.2
        · simp only [Bool.or_eq_true]; right; exact h1

theorem withsSignal_of_confined (cfg : Cfg) (hT : TypedCfg cfg) (w : Window) (hn : w.needType = true) :
    ∀ (ws : List (Alias × Sel)) (ok : List Alias), withsConfined cfg w ok ws = true → withsSignal cfg w.tp ok ws = true := by
  intro ws
  induction ws with
  | nil => intro ok _; rfl
  | cons x rest ih =>
    intro ok h
    obtain ⟨a, s⟩ := x
    simp only [withsConfined, Bool.and_eq_true] at h
    simp only [withsSignal, Bool.and_eq_true]
    exact ⟨bodySignal_of_confined cfg hT w hn ok s h.1, ih _ h.2⟩

/-- **a statement confined for a window that asks the type filter is signal-confined for that window's signal** -/
theorem signalConfined_of_confined (cfg : Cfg) (hT : TypedCfg cfg) (w : Window) (hn : w.needType = true) (s : Sel)
    (h : confined cfg w s = true) : signalConfined cfg w.tp s = true := by
  obtain ⟨ws, d, c, f, j, p, wh, g, hv, ob, l⟩ := s
  simp only [confined, Bool.and_eq_true] at h
  simp only [signalConfined, Bool.and_eq_true]
  exact ⟨withsSignal_of_confined cfg hT w hn ws [] h.1, bodySignal_of_confined cfg hT w hn _ _ h.2⟩

/-- soundness of the rule for one scan: a row that passes PREWHERE / WHERE of a select carrying the signal filter has
    `type` = the API's signal, or 0 -/
theorem signal_filter_sound (o : Oracles) (env : Env) (r : Row) (tp : Int) (pre wher : Option Expr)
    (hs : (conjuncts pre ++ conjuncts wher).any (isSignalFilter tp) = true)
    (hp : optB o env r pre = true) (hw : optB o env r wher = true) :
    r.get "type" = .int tp ∨ r.get "type" = .int 0 := by
  obtain ⟨e, he, hf⟩ := List.any_eq_true.mp hs
  have hold : evalB o env r e = true := by
    rcases List.mem_append.mp he with h | h
    · exact conjunct_holds o env r pre hp e h
    · exact conjunct_holds o env r wher hw e h
  exact type_sound o env r (sigWin tp) e hf hold

end Qryn.Confine
