import Qryn.Proofs.RotateInv
/-! Whole runs: frame, invariant, convergence, re-apply, statement log. -/
namespace Qryn.Ctrl.Rotate
open Qryn

theorem runGroups_nil (f : Option Fault) (c : Cfg) (x : Ctx) : runGroups f c [] x = (x, true) := rfl

theorem runGroups_cons (f : Option Fault) (c : Cfg) (g : GroupDef) (gs : List GroupDef) (x : Ctx) :
    runGroups f c (g :: gs) x =
      if (runGroup f c g x).2 = true then runGroups f c gs (runGroup f c g x).1 else ((runGroup f c g x).1, false) := by
  rw [runGroups]
  rcases h : runGroup f c g x with ⟨x', ok⟩
  cases ok <;> simp

/-! ## frame: a run touches only the records and tables of acting groups -/

theorem runGroups_frame (f : Option Fault) (c : Cfg) : ∀ (gs : List GroupDef) (x : Ctx),
    (∀ fp, (∀ g ∈ gs, active c g = true → g.fp ≠ fp) → (runGroups f c gs x).1.st.marker fp = x.st.marker fp) ∧
    (∀ k t, (∀ g ∈ gs, active c g = true → g.kind = k → t ∉ g.tables) →
      attr k (runGroups f c gs x).1.st t = attr k x.st t) := by
  intro gs
  induction gs with
  | nil => intro x; exact ⟨fun _ _ => rfl, fun _ _ _ => rfl⟩
  | cons g gs ih =>
    intro x
    have hres := (runGroup_result f c g x).frame
    have ih1 := ih (runGroup f c g x).1
    rw [runGroups_cons]
    constructor
    · intro fp hfp
      have h1 : (runGroup f c g x).1.st.marker fp = x.st.marker fp := by
        cases ha : active c g
        · rw [hres.2.2 ha]
        · exact hres.1 fp (fun e => hfp g (by simp) ha e.symm)
      by_cases hok : (runGroup f c g x).2 = true
      · simp only [hok, if_true]
        rw [ih1.1 fp (fun g' hg' => hfp g' (List.mem_cons_of_mem _ hg')), h1]
      · simp only [hok, Bool.false_eq_true, if_false]; exact h1
    · intro k t hkt
      have h1 : attr k (runGroup f c g x).1.st t = attr k x.st t := by
        cases ha : active c g
        · rw [hres.2.2 ha]
        · refine hres.2.1 k t ?_
          by_cases hk : g.kind = k
          · right; exact hkt g (by simp) ha hk
          · left; exact fun e => hk e.symm
      by_cases hok : (runGroup f c g x).2 = true
      · simp only [hok, if_true]
        rw [ih1.2 k t (fun g' hg' => hkt g' (List.mem_cons_of_mem _ hg')), h1]
      · simp only [hok, Bool.false_eq_true, if_false]; exact h1

/-! ## the invariant is kept by every run, whatever fails -/

theorem runGroups_inv {defs : List GroupDef} (hwf : WF defs) (f : Option Fault) (c : Cfg) :
    ∀ (gs : List GroupDef), (∀ g ∈ gs, g ∈ defs) → ∀ x : Ctx, Inv defs x.st → Inv defs (runGroups f c gs x).1.st := by
  intro gs
  induction gs with
  | nil => intro _ x h; exact h
  | cons g gs ih =>
    intro hsub x hinv
    have h1 : Inv defs (runGroup f c g x).1.st :=
      (runGroup_result f c g x).inv hwf (hsub g (by simp)) hinv
    rw [runGroups_cons]
    by_cases hok : (runGroup f c g x).2 = true
    · simp only [hok, if_true]
      exact ih (fun g' hg' => hsub g' (List.mem_cons_of_mem _ hg')) _ h1
    · simp only [hok, Bool.false_eq_true, if_false]; exact h1

theorem runGroups_none_ok (c : Cfg) : ∀ (gs : List GroupDef) (x : Ctx), (runGroups none c gs x).2 = true := by
  intro gs
  induction gs with
  | nil => intro x; rfl
  | cons g gs ih =>
    intro x
    rw [runGroups_cons]
    simp only [runGroup_none_ok, if_true]
    exact ih _

/-! ## a run that reports success leaves every acting group converged -/

theorem runGroups_converged {defs : List GroupDef} (hwf : WF defs) (f : Option Fault) (c : Cfg) :
    ∀ (gs : List GroupDef), (∀ g ∈ gs, g ∈ defs) → gs.Nodup → ∀ x : Ctx, Inv defs x.st →
      (runGroups f c gs x).2 = true →
      ∀ g ∈ gs, active c g = true →
        (runGroups f c gs x).1.st.marker g.fp = desired c g ∧
        ∀ t ∈ g.tables, attr g.kind (runGroups f c gs x).1.st t = desired c g := by
  intro gs
  induction gs with
  | nil => intro _ _ x _ _ g hg; cases hg
  | cons g0 gs ih =>
    intro hsub hnd x hinv hok g hg hact
    have hg0 : g0 ∈ defs := hsub g0 (by simp)
    have hsub' : ∀ g ∈ gs, g ∈ defs := fun g' hg' => hsub g' (List.mem_cons_of_mem _ hg')
    have hnd' := (List.nodup_cons.mp hnd)
    have hres := runGroup_result f c g0 x
    have h1 : Inv defs (runGroup f c g0 x).1.st := hres.inv hwf hg0 hinv
    rw [runGroups_cons] at hok ⊢
    by_cases hok0 : (runGroup f c g0 x).2 = true
    · simp only [hok0, if_true] at hok ⊢
      rcases List.mem_cons.mp hg with e | hmem
      · subst e
        rw [hok0] at hres
        have hc := hres.converged hg0 hinv hact
        have hfr := runGroups_frame f c gs (runGroup f c g x).1
        obtain ⟨_, hfp, hdisj⟩ := hwf
        constructor
        · rw [hfr.1 g.fp ?_]; exact hc.1
          intro g' hg' _ hfe
          have : g' = g := hfp g' (hsub' g' hg') g hg0 hfe
          subst this; exact hnd'.1 hg'
        · intro t ht
          rw [hfr.2 g.kind t ?_]; exact hc.2 t ht
          intro g' hg' _ hk htg'
          have hne : g ≠ g' := fun e => by subst e; exact hnd'.1 hg'
          exact hdisj g hg0 g' (hsub' g' hg') hne hk.symm t ht htg'
      · exact ih hsub' hnd'.2 _ h1 hok g hmem hact
    · simp [hok0] at hok

/-! ## re-apply: on a converged database a run only reads -/

theorem runGroup_skip {f : Option Fault} {c : Cfg} {g : GroupDef} {x : Ctx}
    (h : active c g = false ∨ x.st.marker g.fp = desired c g) :
    runGroup f c g x = issue f (readStmt c g) x := by
  unfold runGroup
  rcases h1 : issue f (readStmt c g) x with ⟨x1, ok1⟩
  cases ok1 with
  | false => rfl
  | true => simp only []; rw [if_pos h]

def Stmt.isRead : Stmt → Bool
  | .read .. => true
  | _ => false

theorem runGroups_noop (f : Option Fault) (c : Cfg) : ∀ (gs : List GroupDef) (x : Ctx),
    (∀ g ∈ gs, active c g = true → x.st.marker g.fp = desired c g) →
    (runGroups f c gs x).1.st = x.st ∧
    ∃ e, (runGroups f c gs x).1.log = x.log ++ e ∧ ∀ y ∈ e, y.isRead = true := by
  intro gs
  induction gs with
  | nil => intro x _; exact ⟨rfl, [], by simp [runGroups_nil], by simp⟩
  | cons g gs ih =>
    intro x hconv
    have hskip : active c g = false ∨ x.st.marker g.fp = desired c g := by
      cases ha : active c g
      · left; rfl
      · right; exact hconv g (by simp) ha
    rw [runGroups_cons, runGroup_skip hskip]
    have hst := read_st f c g x
    have hlog := issue_log f (readStmt c g) x
    by_cases hok : (issue f (readStmt c g) x).2 = true
    · simp only [hok, if_true]
      have := ih (issue f (readStmt c g) x).1 (by
        intro g' hg' ha; rw [hst]; exact hconv g' (List.mem_cons_of_mem _ hg') ha)
      obtain ⟨h1, e, h2, h3⟩ := this
      refine ⟨by rw [h1, hst], readStmt c g :: e, by rw [h2, hlog]; simp, ?_⟩
      intro y hy
      rcases List.mem_cons.mp hy with e' | hm
      · subst e'; rfl
      · exact h3 y hm
    · simp only [hok, Bool.false_eq_true, if_false]
      refine ⟨hst, [readStmt c g], hlog, ?_⟩
      intro y hy
      have : y = readStmt c g := by simpa using hy
      subst this; rfl

/-! ## the statement log -/

/-- everything `storagePolicyUpdate` / `rotateTables` can send for one group: the read, the dropped record, the
    ALTERs of every table, the record -/
def fullSeq (c : Cfg) (g : GroupDef) : List Stmt := readStmt c g :: plan c g

/-- segment `i` is a prefix of the full statement sequence of group `i` -/
def Segs (c : Cfg) : List GroupDef → List (List Stmt) → Prop
  | _, [] => True
  | [], _ :: _ => False
  | g :: gs, e :: es => e <+: fullSeq c g ∧ Segs c gs es

theorem runGroup_log (f : Option Fault) (c : Cfg) (g : GroupDef) (x : Ctx) :
    ∃ e, (runGroup f c g x).1.log = x.log ++ e ∧ e <+: fullSeq c g := by
  unfold runGroup
  have hlog := issue_log f (readStmt c g) x
  rcases h1 : issue f (readStmt c g) x with ⟨x1, ok1⟩
  rw [h1] at hlog; simp only at hlog
  have hp : [readStmt c g] <+: fullSeq c g := (List.cons_prefix_cons).mpr ⟨rfl, List.nil_prefix⟩
  cases ok1 with
  | false => exact ⟨[readStmt c g], hlog, hp⟩
  | true =>
    simp only []
    split
    · exact ⟨[readStmt c g], hlog, hp⟩
    · obtain ⟨e, he, hpe⟩ := execPlan_log_prefix f (plan c g) x1
      refine ⟨readStmt c g :: e, ?_, (List.cons_prefix_cons).mpr ⟨rfl, hpe⟩⟩
      rw [he, hlog]; simp

theorem runGroups_log (f : Option Fault) (c : Cfg) : ∀ (gs : List GroupDef) (x : Ctx),
    ∃ segs, (runGroups f c gs x).1.log = x.log ++ segs.flatten ∧ Segs c gs segs := by
  intro gs
  induction gs with
  | nil => intro x; exact ⟨[], by simp [runGroups_nil], trivial⟩
  | cons g gs ih =>
    intro x
    obtain ⟨e, he, hp⟩ := runGroup_log f c g x
    rw [runGroups_cons]
    by_cases hok : (runGroup f c g x).2 = true
    · simp only [hok, if_true]
      obtain ⟨segs, hs, hseg⟩ := ih (runGroup f c g x).1
      exact ⟨e :: segs, by rw [hs, he]; simp, hp, hseg⟩
    · simp only [hok, Bool.false_eq_true, if_false]
      exact ⟨[e], by rw [he]; simp, hp, by cases gs <;> trivial⟩

/-- in the full sequence of a group a non-empty value is written exactly once, by the last statement -/
theorem put_in_prefix {c : Cfg} {g : GroupDef} {e : List Stmt} (hp : e <+: fullSeq c g)
    {fp : Nat} {tp nm v : Bytes} (hv : v ≠ []) (hmem : Stmt.put fp tp nm v ∈ e) :
    e = fullSeq c g ∧ Stmt.put fp tp nm v = putWant c g := by
  have hfull : fullSeq c g = (readStmt c g :: putEmpty g :: alters c g) ++ [putWant c g] := by
    simp [fullSeq, plan]
  rw [hfull] at hp
  have hnot : Stmt.put fp tp nm v ∉ readStmt c g :: putEmpty g :: alters c g := by
    intro h
    rcases List.mem_cons.mp h with h | h
    · cases h
    · rcases List.mem_cons.mp h with h | h
      · simp only [putEmpty, Stmt.put.injEq] at h
        exact hv h.2.2.2
      · have := alters_isAlter h
        simp [Stmt.isAlter] at this
  rcases List.prefix_concat_iff.mp hp with h | h
  · refine ⟨by rw [hfull]; exact h, ?_⟩
    subst h
    rcases List.mem_append.mp hmem with h | h
    · exact absurd h hnot
    · simpa using h
  · exact absurd (h.subset hmem) hnot

/-! ## a reported error ends the run at the failing statement -/

theorem execPlan_fail {f : Option Fault} {xs : List Stmt} : ∀ {c : Ctx}, (execPlan f xs c).2 = false →
    ∃ ft, f = some ft ∧ (execPlan f xs c).1.log.length = ft.idx + 1 := by
  induction xs with
  | nil => intro c h; simp [execPlan_nil] at h
  | cons x xs ih =>
    intro c h
    rw [execPlan_cons] at h ⊢
    by_cases hok : (issue f x c).2 = true
    · simp only [hok, if_true] at h ⊢; exact ih h
    · simp only [hok, Bool.false_eq_true, if_false]
      obtain ⟨ft, hf, hi⟩ := issue_fail (by simpa using hok)
      exact ⟨ft, hf, by rw [issue_log, hi]; simp⟩

theorem runGroup_fail {f : Option Fault} {c : Cfg} {g : GroupDef} {x : Ctx} (h : (runGroup f c g x).2 = false) :
    ∃ ft, f = some ft ∧ (runGroup f c g x).1.log.length = ft.idx + 1 := by
  unfold runGroup at h ⊢
  rcases h1 : issue f (readStmt c g) x with ⟨x1, ok1⟩
  rw [h1] at h
  cases ok1 with
  | false =>
    obtain ⟨ft, hf, hi⟩ := issue_fail (x := readStmt c g) (c := x) (f := f) (by rw [h1])
    have hl := issue_log f (readStmt c g) x
    rw [h1] at hl
    exact ⟨ft, hf, by simp only []; rw [hl, hi]; simp⟩
  | true =>
    simp only [] at h ⊢
    split at h
    · cases h
    · rename_i hn; rw [if_neg hn]; exact execPlan_fail h

theorem runGroups_fail {f : Option Fault} {c : Cfg} : ∀ {gs : List GroupDef} {x : Ctx}, (runGroups f c gs x).2 = false →
    ∃ ft, f = some ft ∧ (runGroups f c gs x).1.log.length = ft.idx + 1 := by
  intro gs
  induction gs with
  | nil => intro x h; simp [runGroups_nil] at h
  | cons g gs ih =>
    intro x h
    rw [runGroups_cons] at h ⊢
    by_cases hok : (runGroup f c g x).2 = true
    · simp only [hok, if_true] at h ⊢; exact ih h
    · simp only [hok, Bool.false_eq_true, if_false]
      exact runGroup_fail (by simpa using hok)

/-- Databases that can exist: start without retention records (tables in any condition), then any number of
    runs with any configuration, each interrupted anywhere or not at all. -/
inductive ReachableFrom (defs : List GroupDef) : St → Prop
  | fresh (s : St) (h : ∀ g ∈ defs, s.marker g.fp = []) : ReachableFrom defs s
  | step (s : St) (c : Cfg) (f : Option Fault) (h : ReachableFrom defs s) : ReachableFrom defs (run defs c f s).st

/-- the database after a sequence of interrupted runs of one configuration -/
def afterFaultsOf (defs : List GroupDef) (c : Cfg) : List Fault → St → St
  | [], s => s
  | f :: fs, s => afterFaultsOf defs c fs (run defs c (some f) s).st

end Qryn.Ctrl.Rotate
