import Qryn.Proofs.ConfineTrace
import Qryn.LogQL.PlannerSeries
import Qryn.Prom.SelectSel
/-! C13 for the Loki series / label-values planner models and the Prometheus remote-read statements. -/
namespace Qryn.Confine
open Qryn Qryn.Sql Qryn.LogQL

theorem winK_zero (c : Ctx) : winK c 0 = winOf c := by
  simp [winK, widen, winOf]

/-! ### data scans whose bounds sit in PREWHERE / WHERE, under further `AndWhere` -/
structure DataOK (cfg : Cfg) (w : Window) (s : Sel) : Prop where
  tbl : ∃ t, fromTable (fromOf s) = some t ∧ cfg.kind t = .data
  lower : (conjuncts (preOf s) ++ conjuncts (whereOf s)).any (isLowerTs w) = true
  upper : (conjuncts (preOf s) ++ conjuncts (whereOf s)).any (isUpperTs w) = true
  type : (conjuncts (preOf s) ++ conjuncts (whereOf s)).any (isTypeFilter w) = true

/-- what the body of a statement may be: such a scan, or no base table at all -/
def BodyOK (cfg : Cfg) (w : Window) (s : Sel) : Prop := DataOK cfg w s ∨ fromTable (fromOf s) = none

section Data
variable {cfg : Cfg} {w : Window} {s : Sel}

theorem DataOK.body (h : DataOK cfg w s) (ok : List Alias) : bodyConfined cfg w ok s = true := by
  obtain ⟨t, hf, hk⟩ := h.tbl
  exact bodyConfined_data cfg w ok s t hf hk h.lower h.upper h.type

theorem BodyOK.body (h : BodyOK cfg w s) (ok : List Alias) : bodyConfined cfg w ok s = true := by
  rcases h with h | h
  · exact h.body ok
  · exact bodyConfined_noTable cfg w ok s h

theorem any_append_left {α} (l m : List α) (p : α → Bool) (h : l.any p = true) : (l ++ m).any p = true := by
  rw [List.any_append, h]; rfl

theorem DataOK.andWhere (h : DataOK cfg w s) (cl : List Expr) : DataOK cfg w (s.andWhere cl) := by
  refine ⟨by simpa using h.tbl, ?_, ?_, ?_⟩ <;>
    (simp only [preOf_andWhere, whereOf_andWhere', conjuncts_andCond, ← List.append_assoc]; apply any_append_left)
  · exact h.lower
  · exact h.upper
  · exact h.type

theorem DataOK.congr (h : DataOK cfg w s) {s' : Sel} (hf : fromOf s' = fromOf s) (hp : preOf s' = preOf s)
    (hw : whereOf s' = whereOf s) : DataOK cfg w s' :=
  ⟨by rw [hf]; exact h.tbl, by rw [hp, hw]; exact h.lower, by rw [hp, hw]; exact h.upper, by rw [hp, hw]; exact h.type⟩

theorem BodyOK.andWhere (h : BodyOK cfg w s) (cl : List Expr) : BodyOK cfg w (s.andWhere cl) := by
  rcases h with h | h
  · exact Or.inl (h.andWhere cl)
  · exact Or.inr (by simpa using h)

theorem BodyOK.congr (h : BodyOK cfg w s) {s' : Sel} (hf : fromOf s' = fromOf s) (hp : preOf s' = preOf s)
    (hw : whereOf s' = whereOf s) : BodyOK cfg w s' := by
  rcases h with h | h
  · exact Or.inl (h.congr hf hp hw)
  · exact Or.inr (by rw [hf]; exact h)

end Data

/-- statements whose WITH list satisfies the invariant and whose body is such a scan -/
structure GoodB (cfg : Cfg) (w : Window) (s : Sel) : Prop where
  withs : IM cfg w [] s.withs
  body : BodyOK cfg w s

theorem GoodB.good {cfg : Cfg} {w : Window} {s : Sel} (g : GoodB cfg w s) : GoodM cfg w s := ⟨g.withs, g.body.body⟩

theorem GoodB.andWhere {cfg : Cfg} {w : Window} {s : Sel} (g : GoodB cfg w s) (cl : List Expr) : GoodB cfg w (s.andWhere cl) :=
  ⟨by simpa using g.withs, g.body.andWhere cl⟩
theorem GoodB.setCols {cfg : Cfg} {w : Window} {s : Sel} (g : GoodB cfg w s) (cl : List Expr) : GoodB cfg w (s.setCols cl) :=
  ⟨by simpa using g.withs, g.body.congr (by simp) (by simp) (by simp)⟩

/-! ### Prometheus remote read -/
open Qryn.Prom in
theorem initRaw_ok (cfg : Cfg) (c : Ctx) (h : LokiCfg cfg c) : DataOK cfg (winOf c) (initRaw c) := by
  have hc : conjuncts (whereOf (initRaw c)) =
      [ge (.raw "samples.timestamp_ns") (.int c.fromNs), le (.raw "samples.timestamp_ns") (.int c.toNs), getTypes c] :=
    conjuncts_and_flat _ (by
      intro e he
      simp only [List.mem_cons, List.not_mem_nil, or_false] at he
      rcases he with rfl | rfl | rfl
      · exact splice_logical _ _ (by decide)
      · exact splice_logical _ _ (by decide)
      · rfl)
  have hp : conjuncts (preOf (initRaw c)) = [] := rfl
  refine ⟨⟨c.samplesTable, rfl, h.samples⟩, ?_, ?_, ?_⟩ <;> rw [hp, hc, List.nil_append]
  · exact any_of_mem _ _ (ge (.raw "samples.timestamp_ns") (.int c.fromNs)) (by simp) (by simp [isLowerTs, ge, isTsCol, winOf])
  · exact any_of_mem _ _ (le (.raw "samples.timestamp_ns") (.int c.toNs)) (by simp) (by simp [isUpperTs, le, isTsCol, winOf])
  · exact any_of_mem _ _ (getTypes c) (by simp) (getTypes_isTypeFilter c)

open Qryn.Prom in
theorem initDown_ok (cfg : Cfg) (c : Ctx) (m15 : String) (hm : cfg.kind m15 = .data) : DataOK cfg (winOf c) (initDown c m15) := by
  have hc : conjuncts (whereOf (initDown c m15)) =
      [ge (.raw "samples.timestamp_ns") (.int c.fromNs), le (.raw "samples.timestamp_ns") (.int c.toNs), getTypes c] :=
    conjuncts_and_flat _ (by
      intro e he
      simp only [List.mem_cons, List.not_mem_nil, or_false] at he
      rcases he with rfl | rfl | rfl
      · exact splice_logical _ _ (by decide)
      · exact splice_logical _ _ (by decide)
      · rfl)
  have hp : conjuncts (preOf (initDown c m15)) = [] := rfl
  refine ⟨⟨m15, rfl, hm⟩, ?_, ?_, ?_⟩ <;> rw [hp, hc, List.nil_append]
  · exact any_of_mem _ _ (ge (.raw "samples.timestamp_ns") (.int c.fromNs)) (by simp) (by simp [isLowerTs, ge, isTsCol, winOf])
  · exact any_of_mem _ _ (le (.raw "samples.timestamp_ns") (.int c.toNs)) (by simp) (by simp [isUpperTs, le, isTsCol, winOf])
  · exact any_of_mem _ _ (getTypes c) (by simp) (getTypes_isTypeFilter c)

/-- the label index query of `fingerprintsQuery` (either Go path) scans the index under the date bound and the type
    filter, whatever the required bits are -/
theorem fpSel_confined (cfg : Cfg) (c : Ctx) (h : LokiCfg cfg c) (ok : List Alias) (ms : List Matcher) (req : List Bool) :
    bodyConfined cfg (winOf c) ok (Prom.fpSel c ms req) = true := by
  have h1 := getTypes_isTypeFilter c
  have h2 := lowerDate_ok c
  have h3 : isTypeFilter (winOf c) ((Expr.raw "type").isIn [Expr.int (if c.tp = 0 then 1 else ↑c.tp), Expr.int 0]) = true := h1
  by_cases hr : (Prom.Bits.requiredConst req != 0) = true
  · have hc : conjuncts (some (and_ [ge (.raw "date") (.str (Time.formatFromDate c.fromNs)), getTypes c, or_ (ms.map matcherClause)])) =
        [ge (.raw "date") (.str (Time.formatFromDate c.fromNs)), getTypes c, or_ (ms.map matcherClause)] :=
      conjuncts_and_flat _ (by
        intro e he
        simp only [List.mem_cons, List.mem_singleton, List.not_mem_nil, or_false] at he
        rcases he with rfl | rfl | rfl
        · exact splice_logical _ _ (by decide)
        · rfl
        · exact splice_logical _ _ (by decide))
    simp only [Prom.fpSel, hr, if_true, List.cons_append, List.nil_append, bodyConfined, fromTable, h.gin, conjuncts_none, hc]
    simp only [Bool.and_eq_true, Bool.or_eq_true]
    refine ⟨?_, Or.inl ⟨?_, Or.inr ?_⟩⟩
    · simp [List.all, dateLower, dateUpper, mentionsDate, isDateCol, ge, h2, getTypes, or_]
    · simp [List.any, dateLower, isDateCol, ge]
    · simp [List.any, h3, getTypes]
  · have hc : conjuncts (some (and_ [ge (.raw "date") (.str (Time.formatFromDate c.fromNs)), getTypes c])) =
        [ge (.raw "date") (.str (Time.formatFromDate c.fromNs)), getTypes c] :=
      conjuncts_and_flat _ (by
        intro e he
        simp only [List.mem_cons, List.mem_singleton, List.not_mem_nil, or_false] at he
        rcases he with rfl | rfl
        · exact splice_logical _ _ (by decide)
        · rfl)
    simp only [Prom.fpSel, hr, Bool.false_eq_true, if_false, List.append_nil, bodyConfined, fromTable, h.gin, conjuncts_none, List.nil_append, hc]
    simp only [Bool.and_eq_true, Bool.or_eq_true]
    refine ⟨?_, Or.inl ⟨?_, Or.inr ?_⟩⟩
    · simp [List.all, dateLower, dateUpper, mentionsDate, isDateCol, ge, h2, getTypes]
    · simp [List.any, dateLower, isDateCol, ge]
    · simp [List.any, h3, getTypes]

/-- with every bit required (at most 63 matchers, at least one) `fpSel` is the shared planner's statement -/
theorem fpSel_all_required (c : Ctx) (ms : List Matcher) (hne : ms ≠ []) (h63 : ms.length ≤ 63) :
    Prom.fpSel c ms (List.replicate ms.length true) = streamSelect c ms := by
  have hb : Prom.Bits.bits (List.replicate ms.length true) = 2 ^ ms.length - 1 := by
    generalize ms.length = n
    induction n with
    | zero => rfl
    | succ k ih =>
      have hk : 2 ^ k ≥ 1 := Nat.one_le_two_pow
      simp only [List.replicate_succ, Prom.Bits.bits, Bool.toNat_true, ih, Nat.pow_succ]
      omega
  have h1 : Prom.Bits.bitsW 64 (List.replicate ms.length true) = 2 ^ ms.length - 1 := by
    rw [Prom.Bits.bitsW_eq 64 _ (by simp; omega), hb]
  have hlt : 2 ^ ms.length - 1 < 2 ^ 63 := by
    have : 2 ^ ms.length ≤ 2 ^ 63 := Nat.pow_le_pow_right (by decide) h63
    have : 2 ^ ms.length ≥ 1 := Nat.one_le_two_pow
    omega
  have hpos : 2 ^ ms.length ≥ 2 := by
    have : ms.length ≥ 1 := by
      cases ms with
      | nil => exact absurd rfl hne
      | cons a l => simp
    calc 2 ^ ms.length ≥ 2 ^ 1 := Nat.pow_le_pow_right (by decide) this
      _ = 2 := rfl
  have hr : Prom.Bits.requiredConst (List.replicate ms.length true) = (2 : Int) ^ ms.length - 1 := by
    have h2 : ((2 ^ ms.length : Nat) : Int) = (2 : Int) ^ ms.length := by simp
    simp only [Prom.Bits.requiredConst, h1, hlt, if_true]
    rw [← h2]; omega
  have hne0 : ((2 : Int) ^ ms.length - 1 != 0) = true := by
    have h2 : ((2 ^ ms.length : Nat) : Int) = (2 : Int) ^ ms.length := by simp
    simp only [bne_iff_ne, ne_eq]
    rw [← h2]; omega
  have hemp : (ms.map matcherClause).isEmpty = false := by
    cases ms with
    | nil => exact absurd rfl hne
    | cons a l => rfl
  simp [Prom.fpSel, streamSelect, hr, hne0, hemp]

open Qryn.Prom in
theorem withFp_good (cfg : Cfg) (c : Ctx) (h : LokiCfg cfg c) (ms : List Matcher) (req : List Bool) (col : String) {main : Sel}
    (hm : DataOK cfg (winOf c) main) : GoodB cfg (winOf c) (withFp c ms req col main) := by
  unfold withFp
  refine GoodB.andWhere ⟨?_, Or.inl (hm.congr (by simp) (by simp) (by simp))⟩ _
  apply with_inv _ _ _ (bodyConfined_Mono cfg _) (yieldC_Mono cfg)
  intro e he
  simp only [List.mem_singleton] at he
  subst he
  exact ⟨fpSel_confined cfg c h [] ms req, ⟨(by intro hg; cases hg), trivial⟩⟩

open Qryn.Prom in
theorem processHints_good {cfg : Cfg} {w : Window} (hh : Hints) {q : Sel} (g : GoodB cfg w q) : GoodB cfg w (processHints hh q) := by
  unfold processHints
  dsimp only
  have g1 : GoodB cfg w (if ((instantFns.contains hh.func || hh.func == "") && hh.rangeMs == 0 && lookbackMs % hh.stepMs == 0) = true then
      (Sel.mk [] false
        [.raw "fingerprint", simpleCol "argMax(spls.value, spls.timestamp_ms)" "value",
         simpleCol "max(spls.timestamp_ms)" "last_ms"]
        (some (.withRef (.named "spls"))) [] none none
        [.raw ("intDiv(spls.timestamp_ms - " ++ toString hh.startMs ++ " + " ++ toString hh.stepMs ++ " - 1, " ++
           toString hh.stepMs ++ ")"), .raw "fingerprint"] none
        [.orderBy (.raw "fingerprint") .asc, .orderBy (.raw "last_ms") .asc] none).with_ [(.named "spls", q)]
      else q) := by
    split
    · refine ⟨?_, Or.inr (by simp only [fromOf_with_]; rfl)⟩
      apply with_inv _ _ _ (bodyConfined_Mono cfg _) (yieldC_Mono cfg)
      intro e he
      simp only [List.mem_singleton] at he
      subst he
      exact g.good.entry "spls"
    · exact g
  split
  · exact g1.andWhere _
  · exact g1

open Qryn.Prom in
theorem downHints_good {cfg : Cfg} {w : Window} (hh : Hints) {q : Sel} (g : GoodB cfg w q) : GoodB cfg w (downHints hh q) := by
  unfold downHints
  dsimp only
  split
  · exact g
  · split
    · exact ((g.setCols _).setCols _).andWhere _
    · exact (g.setCols _).setCols _

/-- `TranspileLabelMatchers`: the raw-sample statement for every hint and matcher list -/
theorem transpileRaw_confined (cfg : Cfg) (c : Ctx) (h : LokiCfg cfg c) (hh : Prom.Hints) (ms : List Matcher) (req : List Bool) :
    confined cfg (winOf c) (Prom.transpileRaw c hh ms req) = true := by
  have g0 := withFp_good cfg c h ms req "samples.fingerprint" (initRaw_ok cfg c h)
  have g : GoodB cfg (winOf c) (Prom.transpileRaw c hh ms req) := by
    unfold Prom.transpileRaw
    dsimp only
    split
    · exact g0
    · exact processHints_good hh g0
  exact confined_of_inv cfg _ isSubAlias _ (.named "statement") (g.good.entry "statement")

/-- `GetLabelMatchersDownsampleRequest`: the 15 s rollup statement for every hint and matcher list -/
theorem transpileDown_confined (cfg : Cfg) (c : Ctx) (h : LokiCfg cfg c) (m15 : String) (hm : cfg.kind m15 = .data)
    (hh : Prom.Hints) (ms : List Matcher) (req : List Bool) : confined cfg (winOf c) (Prom.transpileDown c m15 hh ms req) = true := by
  have g := downHints_good hh (withFp_good cfg c h ms req "fingerprint" (initDown_ok cfg c m15 hm))
  exact confined_of_inv cfg _ isSubAlias _ (.named "statement") (g.good.entry "statement")


/-! ### Loki series and label values -/
theorem toDate_ok (c : Ctx) : (upperInstants (winOf c)).any (fun t => Time.formatDate t == toDate c) = true := by
  simp [upperInstants, winOf, toDate, fdiv_sec]

/-- an index scan whose WHERE is `and(date ≥ FormatFromDate(From), date ≤ date(To), x, y)` with the type filter among x, y -/
theorem idxLoki_body (cfg : Cfg) (c : Ctx) (t : String) (ht : cfg.kind t = .index) (x y : Expr)
    (hx : splice x = [x] ∧ mentionsDate x = false) (hy : splice y = [y] ∧ mentionsDate y = false)
    (hty : isTypeFilter (winOf c) x = true ∨ isTypeFilter (winOf c) y = true) (s : Sel)
    (hf : fromTable (fromOf s) = some t) (hp : preOf s = none)
    (hw : whereOf s = some (and_ [ge (.raw "date") (.str (Time.formatFromDate c.fromNs)), le (.raw "date") (.str (toDate c)), x, y])) :
    bodyConfined cfg (winOf c) [] s = true := by
  have hc : conjuncts (whereOf s) = [ge (.raw "date") (.str (Time.formatFromDate c.fromNs)), le (.raw "date") (.str (toDate c)), x, y] := by
    rw [hw]
    exact conjuncts_and_flat _ (by
      intro e he
      simp only [List.mem_cons, List.not_mem_nil, or_false] at he
      rcases he with rfl | rfl | rfl | rfl
      · exact splice_logical _ _ (by decide)
      · exact splice_logical _ _ (by decide)
      · exact hx.1
      · exact hy.1)
  cases s with
  | mk ws d cols f j p wh g hv ob l =>
    simp only [fromOf, preOf, whereOf] at hf hp hc
    subst hp
    simp only [bodyConfined, hf, ht, conjuncts_none, List.nil_append, hc]
    have h1 := lowerDate_ok c
    have h2 := toDate_ok c
    simp only [Bool.and_eq_true, Bool.or_eq_true]
    refine ⟨?_, Or.inl ⟨?_, Or.inr ?_⟩⟩
    · simp only [List.all_cons, List.all_nil, Bool.and_true, Bool.and_eq_true]
      refine ⟨?_, ?_, ?_, ?_⟩
      · simp [dateLower, mentionsDate, isDateCol, ge, h1]
      · simp [dateLower, dateUpper, mentionsDate, isDateCol, le, h2]
      · simp [hx.2]
      · simp [hy.2]
    · simp [List.any, dateLower, isDateCol, ge]
    · rcases hty with h | h <;> simp [List.any, h]

theorem isIn_plain (l : Expr) (rs : List Expr) : splice (.isIn l rs) = [.isIn l rs] ∧ mentionsDate (.isIn l rs) = false := ⟨rfl, rfl⟩
theorem getTypes_plain (c : Ctx) : splice (getTypes c) = [getTypes c] ∧ mentionsDate (getTypes c) = false := ⟨rfl, rfl⟩
theorem eqKey_plain (key : Bytes) : splice (eq (.raw "key") (.str key)) = [eq (.raw "key") (.str key)] ∧
    mentionsDate (eq (.raw "key") (.str key)) = false := ⟨splice_logical _ _ (by decide), rfl⟩

/-- **`SeriesPlanner.Process`** over a selector of the fragment -/
theorem fpSelWith_inv (cfg : Cfg) (c : Ctx) (h : LokiCfg cfg c) (ms : List Matcher) :
    IM cfg (winOf c) [] ((fpSelWith c ms).2.withs ++ [fpSelWith c ms]) :=
  ⟨(streamSelect_confined cfg c h [] ms).1, ⟨(by intro hg; cases hg), trivial⟩⟩

theorem planSeries_confined (cfg : Cfg) (c : Ctx) (h : LokiCfg cfg c) (ms : List Matcher) :
    confined cfg (winOf c) (planSeries c ms) = true := by
  have hfp := fpSelWith_inv cfg c h ms
  have g : GoodM cfg (winOf c) (planSeries c ms) := by
    unfold planSeries
    dsimp only
    refine ⟨by rw [withs_setLimit]; exact with_inv _ _ _ (bodyConfined_Mono cfg _) (yieldC_Mono cfg) _ _ (by
      intro e he; simp only [List.mem_singleton] at he; subst he; exact hfp), ?_⟩
    intro ok
    rw [bodyConfined_setLimit, bodyConfined_with_]
    apply bodyConfined_mono cfg _ [] ok (by intro x hx; cases hx)
    cases hcl : c.isCluster
    · exact idxLoki_body cfg c c.tsTable h.ts _ _ (isIn_plain _ _) (getTypes_plain c) (Or.inr (getTypes_isTypeFilter c)) _
        (by simp [fromOf, fromTable]) rfl rfl
    · exact idxLoki_body cfg c c.tsDistTable h.tsDist _ _ (isIn_plain _ _) (getTypes_plain c) (Or.inr (getTypes_isTypeFilter c)) _
        (by simp [fromOf, fromTable]) rfl rfl
  exact confined_of_inv cfg _ isSubAlias _ (.named "statement") (g.entry "statement")

theorem valuesBase_body (cfg : Cfg) (c : Ctx) (h : LokiCfg cfg c) (key : Bytes) : bodyConfined cfg (winOf c) [] (valuesBase c key) = true :=
  idxLoki_body cfg c c.ginTable h.gin _ _ (eqKey_plain key) (getTypes_plain c) (Or.inr (getTypes_isTypeFilter c)) _ rfl rfl rfl

/-- **`ValuesPlanner.Process`**, with or without a selector -/
theorem planValues_confined (cfg : Cfg) (c : Ctx) (h : LokiCfg cfg c) (key : Bytes) (ms : Option (List Matcher)) :
    confined cfg (winOf c) (LogQL.planValues c key ms) = true := by
  have g : GoodM cfg (winOf c) (LogQL.planValues c key ms) := by
    unfold LogQL.planValues
    cases ms with
    | none =>
      refine ⟨by rw [withs_setLimit]; trivial, fun ok => ?_⟩
      rw [bodyConfined_setLimit]
      exact bodyConfined_mono cfg _ [] ok (by intro x hx; cases hx) _ (valuesBase_body cfg c h key)
    | some ms =>
      have hfp := fpSelWith_inv cfg c h ms
      refine ⟨by rw [withs_setLimit, withs_andWhere]; exact with_inv _ _ _ (bodyConfined_Mono cfg _) (yieldC_Mono cfg) _ _ (by
        intro e he; simp only [List.mem_singleton] at he; subst he; exact hfp), fun ok => ?_⟩
      rw [bodyConfined_setLimit]
      apply bodyConfined_mono cfg _ [] ok (by intro x hx; cases hx)
      apply bodyConfined_andWhere_index cfg _ _ c.ginTable _ (by simp only [fromOf_with_]; rfl) h.gin
      · rw [bodyConfined_with_]; exact valuesBase_body cfg c h key
      · intro e he
        simp only [List.flatMap_cons, List.flatMap_nil, List.append_nil, splice_isIn, List.mem_singleton] at he
        subst he; rfl
  exact confined_of_inv cfg _ isSubAlias _ (.named "statement") (g.entry "statement")

end Qryn.Confine
