import Qryn.Ingest.Builder
/-! `strings.ToValidUTF8` as modelled by `toValidUTF8`: identity on valid UTF-8, output always valid, idempotent. -/
namespace Qryn.Ingest

theorem runeLen_stable (b : UInt8) (rest t : Bytes) (h : 2 ≤ runeLen (b :: rest)) :
    runeLen (b :: rest) - 1 ≤ rest.length ∧
    runeLen (b :: (rest.take (runeLen (b :: rest) - 1) ++ t)) = runeLen (b :: rest) := by
  simp only [runeLen] at h ⊢
  generalize lead b = l at h ⊢
  cases l <;> rcases rest with _ | ⟨b1, _ | ⟨b2, _ | ⟨b3, r⟩⟩⟩ <;> simp at h ⊢ <;>
    (try split at h) <;> simp_all <;> (try omega)

theorem toValidGo_skip (k : Nat) (inv : Bool) (s : Bytes) (h : k + 1 ≤ s.length) :
    toValidGo (k + 1) inv s = s.take (k + 1) ++ toValidGo 0 false (s.drop (k + 1)) := by
  induction k generalizing s inv with
  | zero =>
    cases s with
    | nil => simp at h
    | cons b rest => simp [toValidGo]
  | succ k ih =>
    cases s with
    | nil => simp at h
    | cons b rest =>
      simp only [List.length_cons] at h
      simp only [toValidGo, List.take_succ_cons, List.drop_succ_cons, List.cons_append]
      rw [ih false rest (by omega)]

/-- on valid UTF-8 the walk copies every byte -/
theorem toValidGo_of_valid (s : Bytes) : ∀ (k : Nat) (inv : Bool), validGo k s = true → toValidGo k inv s = s := by
  induction s with
  | nil => intro k inv _; cases k <;> simp [toValidGo]
  | cons b rest ih =>
    intro k inv h
    cases k with
    | succ k =>
      simp only [validGo] at h
      simp only [toValidGo, ih k false h]
    | zero =>
      simp only [validGo] at h
      simp only [toValidGo]
      by_cases hb : b < 0x80
      · simp only [hb, ↓reduceIte] at h ⊢
        rw [ih 0 false h]
      · simp only [hb, ↓reduceIte] at h ⊢
        by_cases hn : runeLen (b :: rest) = 1
        · simp [hn] at h
        · simp only [hn, ↓reduceIte] at h ⊢
          rw [ih _ false h]

theorem runeLen_replacement (x : Bytes) : runeLen (0xEF :: 0xBF :: 0xBD :: x) = 3 := by
  have h1 : lead 0xEF = .three 0x80 0xBF := by rfl
  have h2 : isCont 0xBD = true := by decide
  simp [runeLen, h1, h2]

/-- the output of the walk is valid UTF-8 -/
theorem validGo_toValidGo (s : Bytes) : ∀ (k : Nat) (inv : Bool), validGo k (toValidGo k inv s) = true := by
  induction s with
  | nil => intro k inv; cases k <;> simp [toValidGo, validGo]
  | cons b rest ih =>
    intro k inv
    cases k with
    | succ k => simp only [toValidGo, validGo, ih k false]
    | zero =>
      simp only [toValidGo]
      by_cases hb : b < 0x80
      · simp only [hb, ↓reduceIte, validGo, ih 0 false]
      · simp only [hb, ↓reduceIte]
        by_cases hn : runeLen (b :: rest) = 1
        · simp only [hn, ↓reduceIte]
          cases inv with
          | true => simpa using ih 0 true
          | false =>
            have h80 : ¬ ((0xEF : UInt8) < 0x80) := by decide
            simp only [Bool.false_eq_true, ↓reduceIte, replacementChar, List.cons_append, List.nil_append, validGo, h80,
              runeLen_replacement]
            exact ih 0 true
        · simp only [hn, ↓reduceIte]
          have h2 : 2 ≤ runeLen (b :: rest) := by
            have : 1 ≤ runeLen (b :: rest) := by
              simp only [runeLen]; split <;> (try split) <;> omega
            omega
          obtain ⟨hlen, hst⟩ := runeLen_stable b rest (toValidGo 0 false (rest.drop (runeLen (b :: rest) - 1))) h2
          obtain ⟨m, hm⟩ : ∃ m, runeLen (b :: rest) - 1 = m + 1 := ⟨runeLen (b :: rest) - 2, by omega⟩
          have hX : toValidGo (runeLen (b :: rest) - 1) false rest
              = rest.take (runeLen (b :: rest) - 1) ++ toValidGo 0 false (rest.drop (runeLen (b :: rest) - 1)) := by
            rw [hm]; exact toValidGo_skip m false rest (by omega)
          have hv := ih (runeLen (b :: rest) - 1) false
          simp only [validGo, hb, ↓reduceIte]
          rw [hX] at hv ⊢
          rw [hst]
          simp only [hn, ↓reduceIte]
          exact hv

theorem toValidUTF8_of_valid' (s : Bytes) (h : validUTF8 s = true) : toValidUTF8 s = s :=
  toValidGo_of_valid s 0 false h

theorem toValidUTF8_valid' (s : Bytes) : validUTF8 (toValidUTF8 s) = true := validGo_toValidGo s 0 false

end Qryn.Ingest
