import Qryn.Base.Bytes
/-! association lists with distinct keys: `lookup` is membership -/
namespace Qryn

theorem lookup_iff_mem {α β : Type} [BEq α] [LawfulBEq α] :
    ∀ (ls : List (α × β)), (ls.map Prod.fst).Nodup → ∀ k v, (ls.lookup k = some v ↔ (k, v) ∈ ls)
  | [], _, k, v => by simp
  | (a, b) :: t, nd, k, v => by
    have nd' : (t.map Prod.fst).Nodup := (List.nodup_cons.mp (by simpa using nd)).2
    have hnot : a ∉ t.map Prod.fst := (List.nodup_cons.mp (by simpa using nd)).1
    have ih := lookup_iff_mem t nd' k v
    by_cases hk : k = a
    · subst hk
      simp only [List.lookup_cons, beq_self_eq_true, List.mem_cons, Prod.mk.injEq, true_and]
      constructor
      · intro h; exact Or.inl (by simpa using h.symm)
      · intro h
        rcases h with h | h
        · simp [h]
        · exact absurd (List.mem_map.mpr ⟨(k, v), h, rfl⟩) hnot
    · have : (k == a) = false := by simpa using hk
      simp only [List.lookup_cons, this, List.mem_cons, Prod.mk.injEq, hk, false_and, false_or]
      exact ih

end Qryn
