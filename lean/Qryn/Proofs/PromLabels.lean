import Qryn.Prom.Labels
import Qryn.Proofs.PromSelect
import Qryn.Proofs.ProfSelector
/-! Lemmas for the Prometheus metadata endpoints (`Prom.Labels`): the union of the per-selector label index queries
    selects the series one of the `match[]` selectors selects; each of the three statements returns the duplicate-free
    list of exactly the label names / label values / label-set documents of those series inside the window. -/
namespace Qryn.Prom.Labels
open Qryn Qryn.Prom

theorem nodup_eraseDups {α : Type} [BEq α] [LawfulBEq α] : ∀ (n : Nat) (l : List α), l.length ≤ n → l.eraseDups.Nodup
  | _, [], _ => by simp
  | 0, _ :: _, h => by simp at h
  | n + 1, a :: as, h => by
    rw [List.eraseDups_cons, List.nodup_cons]
    refine ⟨?_, nodup_eraseDups n _ ?_⟩
    · intro hm
      have := (List.mem_filter.mp (List.mem_eraseDups.mp hm)).2
      simp at this
    · have := List.length_filter_le (fun b => !b == a) as
      simp only [List.length_cons] at h
      omega

theorem allSome_spec {α : Type} : ∀ (l : List (Option α)) (r : List α), allSome l = some r → l = r.map some
  | [], r, h => by simp [allSome] at h; subst h; rfl
  | none :: _, r, h => by simp [allSome] at h
  | some a :: rest, r, h => by
    simp only [allSome] at h
    cases hr : allSome rest with
    | none => simp [hr] at h
    | some r' =>
      simp [hr] at h
      subst h
      simp [allSome_spec rest r' hr]

theorem allSome_of_forall {α : Type} : ∀ (l : List (Option α)), (∀ x ∈ l, x.isSome = true) → ∃ r, allSome l = some r
  | [], _ => ⟨[], rfl⟩
  | none :: _, h => by have := h none List.mem_cons_self; simp at this
  | some a :: rest, h => by
    obtain ⟨r, hr⟩ := allSome_of_forall rest (fun x hx => h x (List.mem_cons_of_mem _ hx))
    exact ⟨a :: r, by simp [allSome, hr]⟩

/-- a stored series lies in the window of the request: date between the two bounds, metrics type (or type 0) -/
def inWindow (w : Win) (s : Stored) : Bool := w.dateOk s.date && w.typeOk s.type

theorem dateOk_iff (w : Win) (d : Bytes) : w.dateOk d = true ↔ bytesLe w.fromDate d = true ∧ bytesLe d w.toDate = true := by
  simp [Win.dateOk, fnOf_Ge, Prof.fnOf_Le, cmpBytes]

theorem inWindow_admissible (w : Win) (s : Stored) (h : inWindow w s = true) : admissibleS w.fromDate w.tp s = true := by
  simp only [inWindow, Bool.and_eq_true] at h
  have := (dateOk_iff w s.date).mp h.1
  simp only [admissibleS, Bool.and_eq_true]
  exact ⟨this.1, h.2⟩

/-- what the `match[]` list asks of a stored series: some selector's matchers all hold (Prometheus' reading) -/
def matchedBy (full : Bytes → Bytes → Bool) (sels : List (List Matcher)) (s : Stored) : Prop :=
  ∃ sel ∈ sels, promMatches full sel s = true

/-- the hypotheses about a selector list: at most 63 matchers each, and a series can be found in the label index (a matcher
    that rejects the empty value — `parser.ParseMetricSelector` insists on one — or every stored series has a label) -/
def SelsOk (full : Bytes → Bytes → Bool) (sels : List (List Matcher)) (db : List Stored) : Prop :=
  ∀ sel ∈ sels, sel.length ≤ 63 ∧
    ((∃ m ∈ sel, opHolds full m.type [] m.val = false) ∨ (∀ s ∈ db, s.labels ≠ []))

/-- **the union of the label index queries**: planned for every selector list, and it returns a fingerprint exactly
    when it is a stored series of the admitted dates and type that one of the selectors selects -/
theorem fpUnion_selects (search full : Bytes → Bytes → Bool) (hanch : ∀ p s, search (anchor p) s = full p s)
    (table : String) (fromDate : Bytes) (tp : Int) (sels : List (List Matcher)) (db : List Stored) (wf : WellFormed db)
    (hs : SelsOk full sels db) :
    ∃ u, fpUnion full table fromDate tp sels = some u ∧ ∀ f,
      (f ∈ u.eval search Gen.PromSelect.shiftWidth (indexRows db) ↔
        ∃ s ∈ db, s.fp = f ∧ admissibleS fromDate tp s = true ∧ matchedBy full sels s) := by
  have hplan : ∀ sel ∈ sels, ∃ q, fingerprintsQuery full table fromDate tp sel = some q ∧ ∀ f,
      (f ∈ q.eval search Gen.PromSelect.shiftWidth (indexRows db) ↔
        ∃ s ∈ db, s.fp = f ∧ admissibleS fromDate tp s = true ∧ promMatches full sel s = true) := by
    intro sel hsel
    obtain ⟨h63, hrow⟩ := hs sel hsel
    obtain ⟨q, hq, _⟩ := fpQuery_correct search full Gen.PromSelect.shiftWidth table fromDate tp sel
      (Nat.le_trans h63 (by decide : 63 ≤ Gen.PromSelect.shiftWidth)) h63 (indexRows db) 0
    refine ⟨q, hq, fun f => ?_⟩
    obtain ⟨q', hq', hiff⟩ := fpQuery_correct search full Gen.PromSelect.shiftWidth table fromDate tp sel
      (Nat.le_trans h63 (by decide : 63 ≤ Gen.PromSelect.shiftWidth)) h63 (indexRows db) f
    rw [hq] at hq'
    have e : q = q' := Option.some.inj hq'
    rw [e]
    exact hiff.trans (selected_iff_prom search full hanch fromDate tp sel db wf hrow f)
  obtain ⟨qs, hqs⟩ := allSome_of_forall (sels.map (fingerprintsQuery full table fromDate tp)) (by
    intro x hx
    obtain ⟨sel, hsel, rfl⟩ := List.mem_map.mp hx
    obtain ⟨q, hq, _⟩ := hplan sel hsel
    simp [hq])
  refine ⟨⟨qs⟩, by simp [fpUnion, hqs], fun f => ?_⟩
  have hmap := allSome_spec _ _ hqs
  simp only [FpUnion.eval, List.mem_flatMap]
  constructor
  · rintro ⟨q, hqm, hf⟩
    have : some q ∈ sels.map (fingerprintsQuery full table fromDate tp) := by
      rw [hmap]; exact List.mem_map.mpr ⟨q, hqm, rfl⟩
    obtain ⟨sel, hsel, hq⟩ := List.mem_map.mp this
    obtain ⟨q', hq', hiff⟩ := hplan sel hsel
    rw [hq] at hq'
    have e : q = q' := Option.some.inj hq'
    rw [e] at hf
    obtain ⟨s, hs', hfp, hadm, hp⟩ := (hiff f).mp hf
    exact ⟨s, hs', hfp, hadm, sel, hsel, hp⟩
  · rintro ⟨s, hs', hfp, hadm, sel, hsel, hp⟩
    obtain ⟨q, hq, hiff⟩ := hplan sel hsel
    have : some q ∈ qs.map some := by
      rw [← hmap, ← hq]; exact List.mem_map.mpr ⟨sel, hsel, rfl⟩
    obtain ⟨q', hq'm, hq'⟩ := List.mem_map.mp this
    have e : q' = q := Option.some.inj hq'
    rw [e] at hq'm
    exact ⟨q, hq'm, (hiff f).mpr ⟨s, hs', hfp, hadm, hp⟩⟩

/-- the `time_series` rows of a database; `enc` = the JSON document of a label set as the writer stores it -/
def tsRows (enc : List (Bytes × Bytes) → Bytes) (db : List Stored) : List TsRow :=
  db.map (fun s => ⟨s.date, s.fp, enc s.labels, s.type⟩)

/-- the selection a request makes among the stored series: with `match[]`, one of the selectors; without, every series -/
def wanted (full : Bytes → Bytes → Bool) (sels : Option (List (List Matcher))) (s : Stored) : Prop :=
  match sels with
  | none => True
  | some ss => matchedBy full ss s

/-- the fingerprints the optional `fp_sel` stands for are those of the wanted series (admitted by the index query) -/
def FpsFor (full : Bytes → Bytes → Bool) (fromDate : Bytes) (tp : Int) (sels : Option (List (List Matcher)))
    (db : List Stored) (fps : Option (List Nat)) : Prop :=
  match sels, fps with
  | none, none => True
  | some ss, some l => ∀ f, f ∈ l ↔ ∃ s ∈ db, s.fp = f ∧ admissibleS fromDate tp s = true ∧ matchedBy full ss s
  | _, _ => False

theorem selOk_iff (full : Bytes → Bytes → Bool) (w : Win) (sels : Option (List (List Matcher))) (db : List Stored)
    (wf : WellFormed db) (fps : Option (List Nat)) (hf : FpsFor full w.fromDate w.tp sels db fps) (s : Stored) (hs : s ∈ db)
    (hw : inWindow w s = true) : selOk fps s.fp = true ↔ wanted full sels s := by
  cases sels with
  | none => cases fps with
    | none => simp [selOk, wanted]
    | some l => simp [FpsFor] at hf
  | some ss => cases fps with
    | none => simp [FpsFor] at hf
    | some l =>
      simp only [selOk, wanted, List.contains_iff_mem]
      rw [hf s.fp]
      constructor
      · rintro ⟨s', hs', hfp, _, hm⟩
        have : s' = s := eq_of_fp wf.fps hs' hs hfp
        subst this; exact hm
      · intro hm
        exact ⟨s, hs, rfl, inWindow_admissible w s hw, hm⟩

/-- `/api/v1/labels`: duplicate-free, and exactly the label names of the wanted series inside the window -/
theorem namesEval_spec (full : Bytes → Bytes → Bool) (w : Win) (sels : Option (List (List Matcher))) (db : List Stored)
    (wf : WellFormed db) (fps : Option (List Nat)) (hf : FpsFor full w.fromDate w.tp sels db fps) :
    (namesEval w fps (indexRows db)).Nodup ∧
    ∀ n, n ∈ namesEval w fps (indexRows db) ↔
      ∃ s ∈ db, inWindow w s = true ∧ wanted full sels s ∧ n ∈ s.labels.map (·.1) := by
  refine ⟨nodup_eraseDups _ _ (Nat.le_refl _), fun n => ?_⟩
  simp only [namesEval, List.mem_eraseDups, List.mem_map, List.mem_filter, Bool.and_eq_true]
  constructor
  · rintro ⟨r, ⟨hr, ⟨ht, hd⟩, hsel⟩, rfl⟩
    obtain ⟨s, hs, kv, hkv, rfl⟩ := mem_indexRows.mp hr
    have hw : inWindow w s = true := by simp [inWindow, hd, ht]
    exact ⟨s, hs, hw, (selOk_iff full w sels db wf fps hf s hs hw).mp hsel, kv, hkv, rfl⟩
  · rintro ⟨s, hs, hw, hwant, kv, hkv, rfl⟩
    have hw' := hw
    simp only [inWindow, Bool.and_eq_true] at hw'
    exact ⟨⟨s.date, kv.1, kv.2, s.fp, s.type⟩, ⟨mem_indexRows.mpr ⟨s, hs, kv, hkv, rfl⟩, ⟨hw'.2, hw'.1⟩,
      (selOk_iff full w sels db wf fps hf s hs hw).mpr hwant⟩, rfl⟩

/-- `/api/v1/label/<name>/values`: the first `limit` entries of the duplicate-free list of exactly the values the label has
    on the wanted series inside the window -/
theorem valuesEval_spec (full : Bytes → Bytes → Bool) (w : Win) (limit : Nat) (name : Bytes)
    (sels : Option (List (List Matcher))) (db : List Stored)
    (wf : WellFormed db) (fps : Option (List Nat)) (hf : FpsFor full w.fromDate w.tp sels db fps) :
    ∃ L, valuesEval w limit name fps (indexRows db) = limited limit L ∧ L.Nodup ∧
      ∀ v, v ∈ L ↔ ∃ s ∈ db, inWindow w s = true ∧ wanted full sels s ∧ (name, v) ∈ s.labels := by
  refine ⟨_, rfl, nodup_eraseDups _ _ (Nat.le_refl _), fun v => ?_⟩
  simp only [List.mem_eraseDups, List.mem_map, List.mem_filter, Bool.and_eq_true, fnOf_Eq, cmpBytes]
  constructor
  · rintro ⟨r, ⟨hr, ⟨⟨hd, hk⟩, ht⟩, hsel⟩, rfl⟩
    obtain ⟨s, hs, kv, hkv, rfl⟩ := mem_indexRows.mp hr
    have hw : inWindow w s = true := by simp [inWindow, hd, ht]
    have hk' : kv.1 = name := by simpa using hk
    refine ⟨s, hs, hw, (selOk_iff full w sels db wf fps hf s hs hw).mp hsel, ?_⟩
    rw [← hk']; exact hkv
  · rintro ⟨s, hs, hw, hwant, hkv⟩
    have hw' := hw
    simp only [inWindow, Bool.and_eq_true] at hw'
    exact ⟨⟨s.date, name, v, s.fp, s.type⟩, ⟨mem_indexRows.mpr ⟨s, hs, (name, v), hkv, rfl⟩, ⟨⟨hw'.1, by simp⟩, hw'.2⟩,
      (selOk_iff full w sels db wf fps hf s hs hw).mpr hwant⟩, rfl⟩

/-- `/api/v1/series`: the first `limit` entries of the duplicate-free list of exactly the label-set documents of the series
    one of the selectors selects inside the window -/
theorem seriesEval_spec (full : Bytes → Bytes → Bool) (w : Win) (limit : Nat) (enc : List (Bytes × Bytes) → Bytes)
    (ss : List (List Matcher)) (db : List Stored)
    (wf : WellFormed db) (fps : List Nat) (hf : FpsFor full w.fromDate w.tp (some ss) db (some fps)) :
    ∃ L, seriesEval w limit fps (tsRows enc db) = limited limit L ∧ L.Nodup ∧
      ∀ d, d ∈ L ↔ ∃ s ∈ db, inWindow w s = true ∧ matchedBy full ss s ∧ d = enc s.labels := by
  refine ⟨_, rfl, nodup_eraseDups _ _ (Nat.le_refl _), fun d => ?_⟩
  simp only [List.mem_eraseDups, List.mem_map, List.mem_filter, Bool.and_eq_true, tsRows]
  constructor
  · rintro ⟨r, ⟨⟨s, hs, rfl⟩, ⟨hd, hsel⟩, ht⟩, rfl⟩
    have hw : inWindow w s = true := by simp [inWindow, hd, ht]
    exact ⟨s, hs, hw, (selOk_iff full w (some ss) db wf (some fps) hf s hs hw).mp hsel, rfl⟩
  · rintro ⟨s, hs, hw, hwant, rfl⟩
    have hw' := hw
    simp only [inWindow, Bool.and_eq_true] at hw'
    exact ⟨⟨s.date, s.fp, enc s.labels, s.type⟩, ⟨⟨s, hs, rfl⟩, ⟨hw'.1,
      (selOk_iff full w (some ss) db wf (some fps) hf s hs hw).mpr hwant⟩, hw'.2⟩, rfl⟩

/-- `promFingerprints` of the controller's `match[]` list: nothing without selectors -/
def unionOf (full : Bytes → Bytes → Bool) (table : String) (fromDate : Bytes) (tp : Int)
    (sels : Option (List (List Matcher))) : Option (Option FpUnion) :=
  match sels with
  | none => some none
  | some ss => (fpUnion full table fromDate tp ss).map some

theorem unionOf_spec (search full : Bytes → Bytes → Bool) (hanch : ∀ p s, search (anchor p) s = full p s)
    (table : String) (fromDate : Bytes) (tp : Int) (sels : Option (List (List Matcher))) (db : List Stored)
    (wf : WellFormed db) (hs : ∀ ss, sels = some ss → SelsOk full ss db) :
    ∃ u, unionOf full table fromDate tp sels = some u ∧
      FpsFor full fromDate tp sels db (u.map (·.eval search Gen.PromSelect.shiftWidth (indexRows db))) := by
  cases sels with
  | none => exact ⟨none, rfl, trivial⟩
  | some ss =>
    obtain ⟨u, hu, hiff⟩ := fpUnion_selects search full hanch table fromDate tp ss db wf (hs ss rfl)
    exact ⟨some u, by simp [unionOf, hu], hiff⟩

end Qryn.Prom.Labels
