import Qryn.Proofs.ProfBFS
/-! Glue for the C16 theorems: hypotheses (`NoCollision`, `NeverRoot`), the rows several profiles store for
    one sample type, and their sums in terms of the visits of all samples. -/
namespace Qryn.Prof

section
variable (nid : Nat → Nat → Nat → Nat) (k : Bool) (na : Nat)

/-- the visits of all samples of the profiles -/
def allVisits (Ps : List Profile) : List Visit := Ps.flatMap (visits nid k na)

/-- **no hash collision on these profiles**: `getNodeId` is injective on the (parent id, function id, depth)
    triples that occur while the trees of the profiles are built -/
def NoCollision (Ps : List Profile) : Prop :=
  ∀ v ∈ allVisits nid k na Ps, ∀ w ∈ allVisits nid k na Ps,
    nid v.parent v.fn v.depth = nid w.parent w.fn w.depth → v.parent = w.parent ∧ v.fn = w.fn ∧ v.depth = w.depth

/-- a node id is never the root's id 0 (proved for `getNodeId`: the depth bits are non-zero) -/
def NeverRoot : Prop := ∀ p f d, 1 ≤ d → nid p f d ≠ 0

theorem allVisits_eq (Ps : List Profile) :
    allVisits nid k na Ps = visitsOf nid k na (Ps.flatMap (·.samples)) := by
  induction Ps with
  | nil => rfl
  | cons P Ps ih =>
    simp only [allVisits, List.flatMap_cons] at ih ⊢
    rw [visitsOf_append, ← ih]; rfl

theorem mem_allVisits_of_mem {Ps : List Profile} {P : Profile} (hP : P ∈ Ps) {v : Visit}
    (hv : v ∈ visits nid k na P) : v ∈ allVisits nid k na Ps :=
  List.mem_flatMap.mpr ⟨P, hP, hv⟩

theorem allVisits_node (Ps : List Profile) :
    ∀ v ∈ allVisits nid k na Ps, v.node = nid v.parent v.fn v.depth ∧ 1 ≤ v.depth := by
  rw [allVisits_eq]; exact visitsOf_node_eq nid k na _

variable {nid k na}

theorem NoCollision.same_node {Ps : List Profile} (h : NoCollision nid k na Ps)
    {v w : Visit} (hv : v ∈ allVisits nid k na Ps) (hw : w ∈ allVisits nid k na Ps) (e : v.node = w.node) :
    v.parent = w.parent ∧ v.fn = w.fn ∧ v.depth = w.depth := by
  apply h v hv w hw
  rw [← (allVisits_node nid k na Ps v hv).1, ← (allVisits_node nid k na Ps w hw).1, e]

theorem NoCollision.parentConsistent {Ps : List Profile} (h : NoCollision nid k na Ps) :
    ParentConsistent (allVisits nid k na Ps) :=
  fun _ hv _ hw e => (h.same_node hv hw e).1

theorem NoCollision.parentConsistent_of_mem {Ps : List Profile} (h : NoCollision nid k na Ps) {P : Profile}
    (hP : P ∈ Ps) : ParentConsistent (visits nid k na P) :=
  fun _ hv _ hw e => (h.same_node (mem_allVisits_of_mem nid k na hP hv) (mem_allVisits_of_mem nid k na hP hw) e).1

theorem NeverRoot.allVisits (h : NeverRoot nid) (Ps : List Profile) : ∀ v ∈ allVisits nid k na Ps, v.node ≠ 0 := by
  intro v hv
  have := allVisits_node nid k na Ps v hv
  rw [this.1]; exact h _ _ _ this.2

/-! ### one profile -/

theorem typeRow_total (j : Nat) (n : Node) : (typeRow j n).total = ntotal j n := rfl
theorem typeRow_self (j : Nat) (n : Node) : (typeRow j n).self = nself j n := rfl

/-- sums over the stored rows of one profile are sums over its `tree` map -/
theorem fsum_storedRows (P : Profile) (Q : Node → Bool) (f : Node → Int) :
    fsum (storedRows nid k na P) Q f = fsum (treeMap P.ntypes (visits nid k na P)) Q f :=
  fsum_perm (storedRows_perm nid k na P) Q f

theorem mem_storedRows {P : Profile} {r : Node} :
    r ∈ storedRows nid k na P ↔ r ∈ treeMap P.ntypes (visits nid k na P) :=
  (storedRows_perm nid k na P).mem_iff

theorem storedRows_attr (P : Profile) : ∀ r ∈ storedRows nid k na P,
    ∃ v ∈ visits nid k na P, v.node = r.node ∧ v.parent = r.parent ∧ v.fn = r.fn :=
  fun r hr => treeMap_attr _ _ r (mem_storedRows.mp hr)

/-- the summed form of conservation for one profile's stored rows and any node id but 0 -/
theorem storedRows_balance (hnr : NeverRoot nid) (P : Profile) (hc : ParentConsistent (visits nid k na P))
    {j : Nat} (hj : j < P.ntypes) (n : Nat) (hn : n ≠ 0) :
    fsum (storedRows nid k na P) (fun a => decide (a.node = n)) (ntotal j)
      = fsum (storedRows nid k na P) (fun a => decide (a.node = n)) (nself j)
        + fsum (storedRows nid k na P) (fun a => decide (a.parent = n)) (ntotal j) := by
  have _ := hnr
  rw [fsum_storedRows, fsum_storedRows, fsum_storedRows, treeMap_total hj, treeMap_self hj, treeMap_children hj _ hc]
  exact visits_balance nid k na P.samples j n hn

theorem frames_keep_ne_nil (s : Sample) : frames true na s ≠ [] := by
  unfold frames
  cases h : s.locs with
  | nil => simp
  | cons a l => simp

theorem sum_map_congr {α : Type} {l : List α} {a b : α → Int} (h : ∀ x ∈ l, a x = b x) :
    (l.map a).sum = (l.map b).sum := by
  rw [List.map_congr_left h]

theorem sum_map_add {α : Type} (l : List α) (a b : α → Int) :
    (l.map (fun x => a x + b x)).sum = (l.map a).sum + (l.map b).sum := by
  induction l with
  | nil => rfl
  | cons x l ih => simp only [List.map_cons, List.sum_cons, ih]; omega

theorem sum_flatMap_map {α β : Type} (l : List α) (g : α → List β) (f : β → Int) :
    ((l.flatMap g).map f).sum = (l.map (fun x => ((g x).map f).sum)).sum := by
  induction l with
  | nil => rfl
  | cons x l ih => simp [List.flatMap_cons, ih]

/-! ### several profiles, one sample type -/

/-- the rows `MergeTrie` reads for sample type `j`: each profile's stored rows projected to that type,
    profile after profile -/
def inputRows (j : Nat) (Ps : List Profile) : List Row :=
  Ps.flatMap (fun P => typeRows j (storedRows nid k na P))

variable (nid k na) in
theorem inputRows_attr (j : Nat) (Ps : List Profile) : ∀ r ∈ inputRows (nid := nid) (k := k) (na := na) j Ps,
    ∃ v ∈ allVisits nid k na Ps, v.node = r.node ∧ v.parent = r.parent ∧ v.fn = r.fn := by
  intro r hr
  simp only [inputRows, List.mem_flatMap, typeRows, List.mem_map] at hr
  obtain ⟨P, hP, a, ha, rfl⟩ := hr
  obtain ⟨v, hv, h⟩ := storedRows_attr P a ha
  exact ⟨v, mem_allVisits_of_mem nid k na hP hv, h⟩

theorem fsum_inputRows (j : Nat) (Ps : List Profile) (Q : Row → Bool) (f : Row → Int) :
    fsum (inputRows (nid := nid) (k := k) (na := na) j Ps) Q f
      = (Ps.map (fun P => fsum (storedRows nid k na P) (fun a => Q (typeRow j a)) (fun a => f (typeRow j a)))).sum := by
  simp only [inputRows, fsum_flatMap, typeRows, fsum_map]

theorem fsum_allVisits (Ps : List Profile) (Q : Visit → Bool) (f : Visit → Int) :
    fsum (allVisits nid k na Ps) Q f = (Ps.map (fun P => fsum (visits nid k na P) Q f)).sum := by
  simp only [allVisits, fsum_flatMap]

theorem inputRows_total_node {j : Nat} (Ps : List Profile) (hj : ∀ P ∈ Ps, j < P.ntypes) (n : Nat) :
    fsum (inputRows (nid := nid) (k := k) (na := na) j Ps) (fun r => decide (r.node = n)) (·.total)
      = fsum (allVisits nid k na Ps) (fun v => decide (v.node = n)) (vval j) := by
  rw [fsum_inputRows, fsum_allVisits]
  apply sum_map_congr
  intro P hP
  show fsum (storedRows nid k na P) (fun a => decide (a.node = n)) (ntotal j) = _
  rw [fsum_storedRows, treeMap_total (hj P hP)]

theorem inputRows_self_node {j : Nat} (Ps : List Profile) (hj : ∀ P ∈ Ps, j < P.ntypes) (n : Nat) :
    fsum (inputRows (nid := nid) (k := k) (na := na) j Ps) (fun r => decide (r.node = n)) (·.self)
      = fsum (allVisits nid k na Ps) (fun v => decide (v.node = n)) (vself j) := by
  rw [fsum_inputRows, fsum_allVisits]
  apply sum_map_congr
  intro P hP
  show fsum (storedRows nid k na P) (fun a => decide (a.node = n)) (nself j) = _
  rw [fsum_storedRows, treeMap_self (hj P hP)]

theorem inputRows_total_parent {j : Nat} (Ps : List Profile) (hj : ∀ P ∈ Ps, j < P.ntypes)
    (hc : NoCollision nid k na Ps) (n : Nat) :
    fsum (inputRows (nid := nid) (k := k) (na := na) j Ps) (fun r => decide (r.parent = n)) (·.total)
      = fsum (allVisits nid k na Ps) (fun v => decide (v.parent = n)) (vval j) := by
  rw [fsum_inputRows, fsum_allVisits]
  apply sum_map_congr
  intro P hP
  show fsum (storedRows nid k na P) (fun a => decide (a.parent = n)) (ntotal j) = _
  rw [fsum_storedRows, treeMap_children (hj P hP) _ (hc.parentConsistent_of_mem hP)]

/-- rows of one node id have one parent and one function (from `NoCollision`) -/
theorem inputRows_consistent {j : Nat} {Ps : List Profile} (hc : NoCollision nid k na Ps) :
    ∀ r ∈ inputRows (nid := nid) (k := k) (na := na) j Ps, ∀ r' ∈ inputRows (nid := nid) (k := k) (na := na) j Ps,
      r.node = r'.node → r.parent = r'.parent ∧ r.fn = r'.fn := by
  intro r hr r' hr' e
  obtain ⟨v, hv, h1, h2, h3⟩ := inputRows_attr nid k na j Ps r hr
  obtain ⟨w, hw, g1, g2, g3⟩ := inputRows_attr nid k na j Ps r' hr'
  have := hc.same_node hv hw (by rw [h1, g1, e])
  exact ⟨by rw [← h2, ← g2]; exact this.1, by rw [← h3, ← g3]; exact this.2.1⟩

theorem inputRows_fnConsistent {j : Nat} {Ps : List Profile} (hc : NoCollision nid k na Ps) :
    FnConsistent (inputRows (nid := nid) (k := k) (na := na) j Ps) := by
  intro r hr r' hr' e
  have : r.node = r'.node := by simpa [rkey] using (Prod.mk.injEq .. ▸ e : _ ∧ _).2
  exact (inputRows_consistent hc r hr r' hr' this).2

theorem inputRows_node_ne_zero {j : Nat} {Ps : List Profile} (hnr : NeverRoot nid) :
    ∀ r ∈ inputRows (nid := nid) (k := k) (na := na) j Ps, r.node ≠ 0 := by
  intro r hr
  obtain ⟨v, hv, h1, _⟩ := inputRows_attr nid k na j Ps r hr
  rw [← h1]; exact hnr.allVisits Ps v hv

/-- the merged tree of the stored rows conserves weight at every node -/
theorem merged_conserving {j : Nat} {Ps : List Profile} (hj : ∀ P ∈ Ps, j < P.ntypes)
    (hc : NoCollision nid k na Ps) (hnr : NeverRoot nid) :
    ∀ e ∈ mergeTrie [] (inputRows (nid := nid) (k := k) (na := na) j Ps),
      e.total = e.self + sumTotals (children (mergeTrie [] (inputRows (nid := nid) (k := k) (na := na) j Ps)) e.node) := by
  intro e he
  let R := inputRows (nid := nid) (k := k) (na := na) j Ps
  have hent := mergeTrie_entry R he
  -- the key of e is the key of an input row
  have hk : rkey e ∈ R.map rkey := (mergeTrie_keys R _).mp (List.mem_map.mpr ⟨e, he, rfl⟩)
  obtain ⟨r0, hr0, hk0⟩ := List.mem_map.mp hk
  have hk0' : r0.parent = e.parent ∧ r0.node = e.node := by simpa [rkey] using hk0
  have hne : e.node ≠ 0 := hk0'.2 ▸ inputRows_node_ne_zero hnr r0 hr0
  -- rows with e's node id are the rows with e's key
  have hQ : ∀ r ∈ R, decide (rkey r = rkey e) = decide (r.node = e.node) := by
    intro r hr
    by_cases h : r.node = e.node
    · have := (inputRows_consistent hc r hr r0 hr0 (h.trans hk0'.2.symm)).1
      simp [rkey, h, this, hk0'.1]
    · simp [rkey, h]
  have ht : e.total = fsum R (fun r => decide (r.node = e.node)) (·.total) := by
    rw [hent.1]; exact fsum_congr hQ (fun _ _ _ => rfl)
  have hs : e.self = fsum R (fun r => decide (r.node = e.node)) (·.self) := by
    rw [hent.2]; exact fsum_congr hQ (fun _ _ _ => rfl)
  have hch : sumTotals (children (mergeTrie [] R) e.node) = fsum R (fun r => decide (r.parent = e.node)) (·.total) := by
    have := mergeTrie_total R (fun kk => decide (kk.1 = e.node))
    simpa [sumTotals, children, fsum, rkey] using this
  rw [hch, ht, hs, inputRows_total_node Ps hj, inputRows_self_node Ps hj, inputRows_total_parent Ps hj hc]
  rw [allVisits_eq]
  exact visits_balance nid k na _ j e.node hne

/-- values of all samples are non-negative → so are the merged self and total weights -/
theorem merged_nonneg {j : Nat} {Ps : List Profile} (hj : ∀ P ∈ Ps, j < P.ntypes)
    (hc : NoCollision nid k na Ps)
    (hv : ∀ P ∈ Ps, ∀ s ∈ P.samples, 0 ≤ s.vals.getD j 0) :
    ∀ e ∈ mergeTrie [] (inputRows (nid := nid) (k := k) (na := na) j Ps), 0 ≤ e.self ∧ 0 ≤ e.total := by
  intro e he
  let R := inputRows (nid := nid) (k := k) (na := na) j Ps
  have hent := mergeTrie_entry R he
  have hk : rkey e ∈ R.map rkey := (mergeTrie_keys R _).mp (List.mem_map.mpr ⟨e, he, rfl⟩)
  obtain ⟨r0, hr0, hk0⟩ := List.mem_map.mp hk
  have hk0' : r0.parent = e.parent ∧ r0.node = e.node := by simpa [rkey] using hk0
  have hQ : ∀ r ∈ R, decide (rkey r = rkey e) = decide (r.node = e.node) := by
    intro r hr
    by_cases h : r.node = e.node
    · have := (inputRows_consistent hc r hr r0 hr0 (h.trans hk0'.2.symm)).1
      simp [rkey, h, this, hk0'.1]
    · simp [rkey, h]
  have hvis : ∀ v ∈ allVisits nid k na Ps, 0 ≤ vval j v ∧ 0 ≤ vself j v := by
    intro v hv'
    simp only [allVisits, List.mem_flatMap, visits, sampleVisits] at hv'
    obtain ⟨P, hP, s, hs, hw⟩ := hv'
    have := (walk_node_eq nid s.vals _ 0 1 v hw).2.2
    have h0 := hv P hP s hs
    simp only [vval, vself, this]
    refine ⟨h0, ?_⟩
    split
    · exact h0
    · exact Int.le_refl 0
  constructor
  · rw [hent.2, fsum_congr hQ (fun _ _ _ => rfl), inputRows_self_node Ps hj]
    exact fsum_nonneg (fun v hv' => (hvis v hv').2)
  · rw [hent.1, fsum_congr hQ (fun _ _ _ => rfl), inputRows_total_node Ps hj]
    exact fsum_nonneg (fun v hv' => (hvis v hv').1)

end

/-! ### `getNodeId` never yields the root's id -/

theorem getNodeId_neverRoot : NeverRoot getNodeId := by
  intro p f d hd e
  unfold getNodeId at e
  have h2 := (Nat.or_eq_zero_iff.mp e).2
  rw [Nat.shiftLeft_eq] at h2
  have hc : 1 ≤ Gen.ProfTree.depthClamp := by decide
  rcases Nat.mul_eq_zero.mp h2 with h0 | h0
  · have : 1 ≤ min d Gen.ProfTree.depthClamp := Nat.le_min.mpr ⟨hd, hc⟩
    omega
  · exact absurd h0 (Nat.pos_iff_ne_zero.mp (Nat.two_pow_pos _))

end Qryn.Prof
