import Qryn.Proofs.TraceQLTerm
namespace Qryn.TraceQL
open Qryn Qryn.Sql

theorem cmpName_eq_cmpSql (op : Op) : cmpName op = cmpSql op := by cases op <;> rfl

theorem int_beq (x y : Int) : ((Val.int x) == (Val.int y)) = (x == y) := by
  rw [Bool.eq_iff_iff]; simp

theorem evalB_cmp_int (o : Oracles) (env : Env) (r : Row) (c : String) (v ns : Int) (op : Op) (fn : String)
    (hc : r.get c = .int v) (hf : cmpSql op = some fn) :
    evalB o env r (.logical fn [.raw c, .int ns]) = cmpInt op v ns := by
  cases op <;> simp [cmpSql] at hf <;> subst hf <;>
    simp [evalB, evalE, cmpOp, hc, cmpInt, int_beq, Val.cmpLe, Val.cmpLt] <;>
    (rw [Bool.eq_iff_iff]; simp <;> omega)

theorem evalE_match (o : Oracles) (env : Env) (r : Row) (x : Expr) (s p : Bytes) (hx : evalE o env r x = .str s) :
    evalE o env r (.callT "match" [x, .str p]) = boolVal (o.reMatch p s) := by
  simp [evalE, evalEs, hx]
theorem evalE_f64null (o : Oracles) (env : Env) (r : Row) (x : Expr) (s : Bytes) (hx : evalE o env r x = .str s) :
    evalE o env r (.callT "toFloat64OrNull" [x]) = .num s := by
  simp [evalE, evalEs, hx]
theorem evalE_f64zero (o : Oracles) (env : Env) (r : Row) (x : Expr) (s : Bytes) (hx : evalE o env r x = .str s) :
    evalE o env r (.callT "toFloat64OrZero" [x]) = .num s := by
  simp [evalE, evalEs, hx]
theorem evalE_isNotNull (o : Oracles) (env : Env) (r : Row) (x : Expr) (s : Bytes) (hx : evalE o env r x = .num s) :
    evalE o env r (.callT "isNotNull" [x]) = boolVal (o.isNum s) := by
  simp [evalE, evalEs, hx]

theorem evalE_raw_val (o : Oracles) (env : Env) (a : AttrRow) : evalE o env a.qrow (.raw "val") = .str a.val := by
  simp [evalE, qrow_val]

theorem evalB_and (o : Oracles) (env : Env) (r : Row) (cs : List Expr) : evalB o env r (and_ cs) = evalAll o env r cs := by
  rcases cs with _ | ⟨x, _ | ⟨y, _ | ⟨z, zs⟩⟩⟩ <;> simp [evalB, and_, evalE]
theorem evalB_or (o : Oracles) (env : Env) (r : Row) (cs : List Expr) : evalB o env r (or_ cs) = evalAny o env r cs := by
  rcases cs with _ | ⟨x, _ | ⟨y, _ | ⟨z, zs⟩⟩⟩ <;> simp [evalB, or_, evalE]
theorem evalAll_cons (o : Oracles) (env : Env) (r : Row) (e : Expr) (es : List Expr) :
    evalAll o env r (e :: es) = (evalB o env r e && evalAll o env r es) := by simp [evalAll, evalB]
theorem evalAll_nil (o : Oracles) (env : Env) (r : Row) : evalAll o env r [] = true := by simp [evalAll]
theorem evalAny_cons (o : Oracles) (env : Env) (r : Row) (e : Expr) (es : List Expr) :
    evalAny o env r (e :: es) = (evalB o env r e || evalAny o env r es) := by simp [evalAny, evalB]
theorem evalAny_nil (o : Oracles) (env : Env) (r : Row) : evalAny o env r [] = false := by simp [evalAny]

theorem evalB_eq_one (o : Oracles) (env : Env) (r : Row) (x : Expr) (v : Bool) (hx : evalE o env r x = boolVal v) :
    evalB o env r (eq x (.int 1)) = v := by
  cases v <;> simp [evalB, eq, evalE, cmpOp, hx, boolVal, int_beq, Val.truthy]
theorem evalB_eq_zero (o : Oracles) (env : Env) (r : Row) (x : Expr) (v : Bool) (hx : evalE o env r x = boolVal v) :
    evalB o env r (eq x (.int 0)) = !v := by
  cases v <;> simp [evalB, eq, evalE, cmpOp, hx, boolVal, int_beq, Val.truthy]
theorem evalB_eq_str (o : Oracles) (env : Env) (r : Row) (x : Expr) (s v : Bytes) (hx : evalE o env r x = .str s) :
    evalB o env r (eq x (.str v)) = (s == v) := by
  simp [evalB, eq, evalE, cmpOp, hx, val_str_beq]
theorem evalB_neq_str (o : Oracles) (env : Env) (r : Row) (x : Expr) (s v : Bytes) (hx : evalE o env r x = .str s) :
    evalB o env r (neq x (.str v)) = (s != v) := by
  simp [evalB, neq, evalE, cmpOp, hx, val_str_bne]
theorem evalB_cmp_num (o : Oracles) (env : Env) (r : Row) (x : Expr) (s : Bytes) (l fn : String) (op : Op)
    (hf : cmpSql op = some fn) (hx : evalE o env r x = .num s) :
    evalB o env r (.logical fn [x, .numLit l]) = (o.isNum s && o.numCmp fn s l) := by
  cases op <;> simp [cmpSql] at hf <;> subst hf <;> simp [evalB, evalE, cmpOp, hx]

/-- **one condition**: on a row of the attribute index, the SQL text of a condition is true exactly when
    the row witnesses the condition (string, numeric and duration kinds, every operator) -/
theorem termSql_correct (o : Oracles) (env : Env) (t : Term) (e : Expr) (h : termSql t = .ok e) (a : AttrRow) :
    evalB o env a.qrow e = termHolds o t a := by
  have hval := evalE_raw_val o env a
  have hstr : ∀ (k : String) (raw : Bytes) (unq : Option Bytes), t.val = .str raw unq → termStr t k = .ok e →
      evalB o env a.qrow e = (a.key == k.toUTF8.toList && valHolds o t a) := by
    intro k raw unq hv hs
    cases unq with
    | none => simp [termStr, getString, hv, bind, Except.bind] at hs
    | some s =>
      cases hop : t.op <;> simp [termStr, getString, hv, hop, bind, Except.bind, pure, Except.pure] at hs <;> subst hs <;>
        simp only [evalB_and, evalAll_cons, evalAll_nil, evalB_keyIs, Bool.and_true, valHolds, hv, hop,
          evalB_eq_str o env a.qrow _ a.val s hval, evalB_neq_str o env a.qrow _ a.val s hval,
          evalB_eq_one o env a.qrow _ _ (evalE_match o env a.qrow _ a.val s hval),
          evalB_eq_zero o env a.qrow _ _ (evalE_match o env a.qrow _ a.val s hval)]
  have hnum : ∀ (k : String) (n : Num), t.val = .num n → termNum t k n = .ok e →
      evalB o env a.qrow e = (a.key == k.toUTF8.toList && valHolds o t a) := by
    intro k n hv hs
    unfold valHolds
    rw [hv, cmpName_eq_cmpSql]
    unfold termNum at hs
    cases hc : cmpSql t.op with
    | none => simp [hc] at hs
    | some fn =>
      simp [hc, pure, Except.pure] at hs
      subst hs
      simp only [evalB_and, evalAll_cons, evalAll_nil, evalB_keyIs, Bool.and_true,
        evalB_eq_one o env a.qrow _ _ (evalE_isNotNull o env a.qrow _ a.val (evalE_f64null o env a.qrow _ a.val hval)),
        evalB_cmp_num o env a.qrow _ a.val _ fn t.op hc (evalE_f64zero o env a.qrow _ a.val hval)]
      cases o.isNum a.val <;> simp
  unfold termSql at h
  unfold termHolds labelKey
  cases hk : attrKey t.label with
  | some k =>
    simp only [hk] at h ⊢
    cases hv : t.val with
    | str raw unq => simp only [hv] at h; exact hstr k raw unq hv h
    | num n => simp only [hv] at h; exact hnum k n hv h
    | dur n u => simp [hv] at h
  | none =>
    simp only [hk] at h ⊢
    by_cases hd : t.label = "duration"
    · simp only [hd, if_true] at h ⊢
      simp only [show ("duration" = "name") = False from by decide, if_false]
      unfold termDuration at h
      unfold durHolds
      cases hv : t.val with
      | dur n u =>
        simp only [hv] at h ⊢
        cases hp : parseDuration n (some u) with
        | error m => simp [hp, bind, Except.bind] at h
        | ok ns =>
          cases hc : cmpSql t.op with
          | none => simp [hp, hc, bind, Except.bind] at h
          | some fn =>
            simp [hp, hc, bind, Except.bind, pure, Except.pure] at h
            subst h
            exact evalB_cmp_int o env a.qrow _ a.dur ns t.op fn (qrow_qdur a) hc
      | num n => simp [hv] at h
      | str raw unq => simp [hv] at h
    · simp only [hd, if_false] at h ⊢
      by_cases hn : t.label = "name"
      · simp only [hn, if_true] at h ⊢
        cases hv : t.val with
        | str raw unq => simp only [hv] at h; exact hstr "name" raw unq hv h
        | num n => simp only [hv] at h; exact hnum "name" n hv h
        | dur n u => simp [hv] at h
      · simp [hn] at h

end Qryn.TraceQL
