import Qryn.Sql.Template
import Qryn.Proofs.Closed
import Qryn.Proofs.RawAtoms
/-! Soundness of the template check: `checkT kinds ps = true` → for EVERY filling that respects the hole kinds the
    instantiated segment list is expression-like (`PE`): well formed for its string leaves from every state between
    tokens / inside a bareword, and it leaves the lexer in an entry state. -/
namespace Qryn.Sql
open Qryn Qryn.Lex

/-- what a filling of a hole of a given kind must satisfy -/
def FillOK : Hole → Fill → Prop
  | .leaf, .leaf _ => True
  | .sub, .sub g => PE g
  | .closed, .text x => rawE x = true
  | .inLit, .text x => ∀ c ∈ x, litSafe c = true
  | .inBq, .text x => ∀ c ∈ x, c ≠ 96 ∧ c ≠ 92
  | _, _ => False

/-- every hole kind has its filling -/
def FillsOK (kinds : List Hole) (fills : List Fill) : Prop :=
  ∀ (i : Nat) (k : Hole), kinds[i]? = some k → ∃ f, fills[i]? = some f ∧ FillOK k f

theorem step_bq_plain (c : UInt8) (h : c ≠ 96 ∧ c ≠ 92) : step .bq c = (.bq, [.qByte c]) := by
  simp [step, h.1, h.2]

theorem run_bq_plain (s : Bytes) (h : ∀ c ∈ s, c ≠ 96 ∧ c ≠ 92) : (run .bq s).1 = .bq := by
  induction s with
  | nil => rfl
  | cons c s ih =>
    have hc := h c (by simp)
    simp only [run, step_bq_plain c hc]
    exact ih (fun d hd => h d (by simp [hd]))

theorem entry_mem {q : St} (h : q.entry = true) : q ∈ [St.normal, .word, .strQ] := by
  cases q <;> simp_all [St.entry]

theorem ground_of_nw {q : St} (h : (q == .normal || q == .word) = true) : q.ground = true := by
  cases q <;> simp_all [St.ground]

theorem entry_of_nws {q : St} (h : (q == .normal || q == .word || q == .strQ) = true) : q.entry = true := by
  cases q <;> simp_all [St.entry]

theorem checkFrom_cons {kinds : List Hole} {qs : List St} {p : Piece} {rest : List Piece}
    (h : checkFrom kinds qs (p :: rest) = true) : ∃ qs', stepT kinds qs p = some qs' ∧ checkFrom kinds qs' rest = true := by
  simp only [checkFrom] at h
  cases hs : stepT kinds qs p with
  | none => simp [hs] at h
  | some qs' => exact ⟨qs', rfl, by simpa [hs] using h⟩

theorem checkFrom_sound (kinds : List Hole) (fills : List Fill) (hf : FillsOK kinds fills) :
    ∀ (ps : List Piece) (qs : List St), checkFrom kinds qs ps = true →
      ∀ q ∈ qs, safeSegs q (instT fills ps) = true ∧ (runSegs q (instT fills ps)).1.entry = true
  | [], qs, h, q, hq => by
    simp only [checkFrom, List.all_eq_true] at h
    exact ⟨by simp [instT, safeSegs], by simpa [instT, runSegs] using entry_of_nws (h q hq)⟩
  | .lit x :: rest, qs, h, q, hq => by
    obtain ⟨qs', hstep, hrest⟩ := checkFrom_cons h
    simp only [stepT, Option.ite_none_right_eq_some, Option.some.injEq] at hstep
    obtain ⟨hall, rfl⟩ := hstep
    have ih := checkFrom_sound kinds fills hf rest _ hrest (run q x).1 (List.mem_map.mpr ⟨q, hq, rfl⟩)
    have hq0 := (List.all_eq_true.mp hall) q hq
    simp only [instT, safeSegs, runSegs, Seg.render]
    exact ⟨by simp [hq0, ih.1], ih.2⟩
  | .hole i :: rest, qs, h, q, hq => by
    obtain ⟨qs', hstep, hrest⟩ := checkFrom_cons h
    cases hk : kinds[i]? with
    | none => simp [stepT, hk] at hstep
    | some k =>
      obtain ⟨f, hfi, hfk⟩ := hf i k hk
      cases k with
      | leaf =>
        simp only [stepT, hk, Option.ite_none_right_eq_some, Option.some.injEq] at hstep
        obtain ⟨hall, rfl⟩ := hstep
        cases f with
        | leaf s =>
          have ih := checkFrom_sound kinds fills hf rest _ hrest .strQ (by simp)
          have hs : q.safe = true := (List.all_eq_true.mp hall) q hq
          simp only [instT, hfi, fillSegs, List.singleton_append, safeSegs, runSegs, Seg.render, run_quote q hs s]
          exact ⟨by simp [hs, ih.1], ih.2⟩
        | sub g => exact absurd hfk (by simp [FillOK])
        | text x => exact absurd hfk (by simp [FillOK])
      | sub =>
        simp only [stepT, hk, Option.ite_none_right_eq_some, Option.some.injEq] at hstep
        obtain ⟨hall, rfl⟩ := hstep
        cases f with
        | sub g =>
          have hg : q.ground = true := ground_of_nw ((List.all_eq_true.mp hall) q hq)
          have hpe := hfk q hg
          have ih := checkFrom_sound kinds fills hf rest _ hrest (runSegs q g).1 (entry_mem hpe.2)
          simp only [instT, hfi, fillSegs, safeSegs_append, runSegs_append_fst]
          exact ⟨by simp [hpe.1, ih.1], ih.2⟩
        | leaf s => exact absurd hfk (by simp [FillOK])
        | text x => exact absurd hfk (by simp [FillOK])
      | closed =>
        simp only [stepT, hk, Option.ite_none_right_eq_some, Option.some.injEq] at hstep
        obtain ⟨hall, rfl⟩ := hstep
        cases f with
        | text x =>
          have hg : q.ground = true := ground_of_nw ((List.all_eq_true.mp hall) q hq)
          have hpe := (PE_raw hfk) q hg
          have ih := checkFrom_sound kinds fills hf rest _ hrest (runSegs q [.raw x]).1 (entry_mem hpe.2)
          simp only [instT, hfi, fillSegs]
          rw [safeSegs_append, runSegs_append_fst]
          exact ⟨by simp [hpe.1, ih.1], ih.2⟩
        | leaf s => exact absurd hfk (by simp [FillOK])
        | sub g => exact absurd hfk (by simp [FillOK])
      | inLit =>
        simp only [stepT, hk, Option.ite_none_right_eq_some, Option.some.injEq] at hstep
        obtain ⟨hall, rfl⟩ := hstep
        cases f with
        | text x =>
          have hq' : q = .str := by simpa using (List.all_eq_true.mp hall) q hq
          subst hq'
          have ih := checkFrom_sound kinds fills hf rest _ hrest .str (by simp)
          have hr := run_str_litSafe x hfk
          simp only [instT, hfi, fillSegs, List.singleton_append, safeSegs, runSegs, Seg.render, hr]
          exact ⟨by simpa using ih.1, ih.2⟩
        | leaf s => exact absurd hfk (by simp [FillOK])
        | sub g => exact absurd hfk (by simp [FillOK])
      | inBq =>
        simp only [stepT, hk, Option.ite_none_right_eq_some, Option.some.injEq] at hstep
        obtain ⟨hall, rfl⟩ := hstep
        cases f with
        | text x =>
          have hq' : q = .bq := by simpa using (List.all_eq_true.mp hall) q hq
          subst hq'
          have ih := checkFrom_sound kinds fills hf rest _ hrest .bq (by simp)
          have hr := run_bq_plain x hfk
          simp only [instT, hfi, fillSegs, List.singleton_append, safeSegs, runSegs, Seg.render, hr]
          exact ⟨by simpa using ih.1, ih.2⟩
        | leaf s => exact absurd hfk (by simp [FillOK])
        | sub g => exact absurd hfk (by simp [FillOK])

/-- **template soundness**: a checked template, filled in any admissible way, is an expression-like segment list -/
theorem checkT_sound (kinds : List Hole) (ps : List Piece) (h : checkT kinds ps = true) (fills : List Fill)
    (hf : FillsOK kinds fills) : PE (instT fills ps) := fun q hq =>
  checkFrom_sound kinds fills hf ps [.normal, .word] h q (by cases q <;> simp_all [St.ground])

/-- the same from the format string -/
theorem fmtClosed_sound (fmt : Bytes) (kinds : List Hole) (h : fmtClosed fmt kinds = true) :
    ∃ ps, parseFmt fmt = some ps ∧ ∀ fills, FillsOK kinds fills → PE (instT fills ps) := by
  unfold fmtClosed at h
  cases hp : parseFmt fmt with
  | none => simp [hp] at h
  | some ps =>
    simp only [hp] at h
    exact ⟨ps, rfl, fun fills hf => checkT_sound kinds ps h fills hf⟩

end Qryn.Sql
