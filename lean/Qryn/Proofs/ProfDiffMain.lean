import Qryn.Proofs.ProfDiffWalk
/-! The DIFF view, assembled: every node once, the fuel, both sides' layout, names, delta encoding. -/
namespace Qryn.Prof

/-! ### counting -/

theorem nodup_subset_length : ∀ (l m : List Nat), l.Nodup → (∀ x ∈ l, x ∈ m) → l.length ≤ m.length := by
  intro l
  induction l with
  | nil => intro m _ _; simp
  | cons x l ih =>
    intro m hnd hsub
    have hx := List.nodup_cons.mp hnd
    have hm : x ∈ m := hsub x (by simp)
    have := ih (m.erase x) hx.2 (by
      intro y hy
      have hne : y ≠ x := fun e => hx.1 (e ▸ hy)
      exact (List.mem_erase_of_ne hne).mpr (hsub y (by simp [hy])))
    rw [List.length_erase_of_mem hm] at this
    have hpos : 0 < m.length := List.length_pos_of_mem hm
    simp only [List.length_cons]
    omega

/-- rows of generations 1 … n of a flat tree -/
def rowsUpTo (U : List Row) (n : Nat) : List Row := ((List.range n).map (fun i => levelRows U (i + 1))).flatten

theorem rowsUpTo_succ (U : List Row) (n : Nat) : rowsUpTo U (n + 1) = rowsUpTo U n ++ levelRows U (n + 1) := by
  simp [rowsUpTo, List.range_succ]

theorem mem_rowsUpTo {U : List Row} {n : Nat} {e : Row} : e ∈ rowsUpTo U n ↔ ∃ i, i < n ∧ e ∈ levelRows U (i + 1) := by
  simp [rowsUpTo, List.mem_flatten, List.mem_map, List.mem_range]
  constructor
  · rintro ⟨l, ⟨i, hi, rfl⟩, he⟩; exact ⟨i, hi, he⟩
  · rintro ⟨i, hi, he⟩; exact ⟨_, ⟨i, hi, rfl⟩, he⟩

theorem rowsUpTo_nodup {U : List Row} {dep : Nat → Nat} (h : TreeShaped U dep) (n : Nat) :
    ((rowsUpTo U n).map (·.node)).Nodup := by
  induction n with
  | zero => simp [rowsUpTo]
  | succ n ih =>
    rw [rowsUpTo_succ, List.map_append]
    refine List.nodup_append.mpr ⟨ih, ?_, ?_⟩
    · have := levelRows_nodup h (n + 1)
      unfold List.Nodup
      rw [List.pairwise_map]
      exact this
    · intro x hx y hy e
      obtain ⟨a, ha, rfl⟩ := List.mem_map.mp hx
      obtain ⟨b, hb, rfl⟩ := List.mem_map.mp hy
      obtain ⟨i, hi, hai⟩ := mem_rowsUpTo.mp ha
      have d1 := (levelRows_dep h i a hai).2
      have d2 := (levelRows_dep h n b hb).2
      rw [e] at d1
      omega

def maxDep (U : List Row) (dep : Nat → Nat) : Nat := (U.map (fun e => dep e.node)).foldl max 0

theorem foldl_max_ge (l : List Nat) (m : Nat) : m ≤ l.foldl max m ∧ ∀ x ∈ l, x ≤ l.foldl max m := by
  induction l generalizing m with
  | nil => simp
  | cons a l ih =>
    simp only [List.foldl_cons]
    have := ih (max m a)
    refine ⟨by omega, ?_⟩
    intro x hx
    rcases List.mem_cons.mp hx with rfl | hx
    · omega
    · exact this.2 x hx

theorem le_maxDep {U : List Row} {dep : Nat → Nat} {e : Row} (he : e ∈ U) : dep e.node ≤ maxDep U dep :=
  (foldl_max_ge _ 0).2 _ (List.mem_map.mpr ⟨e, he, rfl⟩)

theorem levelRows_beyond {U : List Row} {dep : Nat → Nat} (h : TreeShaped U dep) :
    levelRows U (maxDep U dep + 1) = [] := by
  apply List.eq_nil_iff_forall_not_mem.mpr
  intro e he
  have := levelRows_dep h (maxDep U dep) e he
  have := le_maxDep (dep := dep) this.1
  omega

/-! ### every node once; the fuel -/

section Once
variable {T1 T2 : List Row} {dep : Nat → Nat}
variable (t1 : TreeShaped T1 dep) (t2 : TreeShaped T2 dep) (hc : Compatible T1 T2)
variable (h1 : (T1.map rkey).Nodup) (h2 : (T2.map rkey).Nodup)
include t1 t2 hc h1 h2

/-- the items the loop emits, with the fuel `renderDiff` gives it -/
def diffItems (T1 T2 : List Row) : List QItem :=
  diffLoop (kidsL T1 T2) (kidsR T1 T2) (T1.length + T2.length + 2) [rootOf T1 T2]

theorem walk_left_rows (n : Nat) :
    (walkItems (kidsL T1 T2) (kidsR T1 T2) (n + 1) [rootOf T1 T2]).map (·.left)
      = (rootBar (alignedL T1 T2)).1 :: rowsUpTo (alignedL T1 T2) n := by
  induction n with
  | zero =>
    have := (level_rows T1 T2 h1 h2 0).1
    rw [walkItems_succ]
    simpa [walkItems, rowsUpTo, itemLevel, levelRows] using this
  | succ n ih =>
    have e : walkItems (kidsL T1 T2) (kidsR T1 T2) (n + 2) [rootOf T1 T2]
        = walkItems (kidsL T1 T2) (kidsR T1 T2) (n + 1) [rootOf T1 T2]
          ++ itemLevel (kidsL T1 T2) (kidsR T1 T2) (n + 1) [rootOf T1 T2] := by
      simp [walkItems, List.range_succ]
    rw [e, List.map_append, ih, rowsUpTo_succ, (level_rows T1 T2 h1 h2 (n + 1)).1]
    simp

theorem aligned_length_le : (alignedL T1 T2).length ≤ T1.length + T2.length := by
  have tU := alignedL_treeShaped t1 t2 hc h1 h2
  have := nodup_subset_length ((alignedL T1 T2).map (·.node)) ((T1 ++ T2).map (·.node)) tU.nodup (by
    intro x hx
    rcases (alignedL_nodes h1 h2 x).mp hx with h | h
    · simp only [List.map_append, List.mem_append]; exact Or.inl h
    · simp only [List.map_append, List.mem_append]; exact Or.inr h)
  simpa using this

/-- **the loop is not cut**: on tree-shaped input the fuel of `renderDiff` (or any larger one) covers the whole walk;
    the items are the levels of the aligned trees one after the other, the root first -/
theorem diffLoop_walk (fuel : Nat) (hf : T1.length + T2.length + 2 ≤ fuel) :
    diffLoop (kidsL T1 T2) (kidsR T1 T2) fuel [rootOf T1 T2]
      = walkItems (kidsL T1 T2) (kidsR T1 T2) (maxDep (alignedL T1 T2) dep + 1) [rootOf T1 T2] := by
  have tU := alignedL_treeShaped t1 t2 hc h1 h2
  apply diffLoop_levels
  · have := (level_rows T1 T2 h1 h2 (maxDep (alignedL T1 T2) dep + 1)).1
    rw [levelRows_beyond tU] at this
    exact List.map_eq_nil_iff.mp this
  · have hl := congrArg List.length (walk_left_rows t1 t2 hc h1 h2 (maxDep (alignedL T1 T2) dep))
    rw [List.length_map, List.length_cons] at hl
    rw [hl]
    have hn := rowsUpTo_nodup tU (maxDep (alignedL T1 T2) dep)
    have := nodup_subset_length _ ((alignedL T1 T2).map (·.node)) hn (by
      intro x hx
      obtain ⟨e, he, rfl⟩ := List.mem_map.mp hx
      obtain ⟨i, _, hei⟩ := mem_rowsUpTo.mp he
      exact List.mem_map.mpr ⟨e, (levelRows_dep tU i e hei).1, rfl⟩)
    rw [List.length_map, List.length_map] at this
    have := aligned_length_le t1 t2 hc h1 h2
    omega

theorem diffItems_eq :
    diffItems T1 T2 = walkItems (kidsL T1 T2) (kidsR T1 T2) (maxDep (alignedL T1 T2) dep + 1) [rootOf T1 T2] :=
  diffLoop_walk t1 t2 hc h1 h2 _ (Nat.le_refl _)

/-- **every node of either tree is laid out exactly once**: the bars after the root bar carry pairwise different node
    ids, and these are exactly the node ids of the two trees -/
theorem diffItems_once :
    (diffItems T1 T2).head? = some (rootOf T1 T2)
      ∧ (((diffItems T1 T2).tail).map (·.left.node)).Nodup
      ∧ ∀ x, x ∈ ((diffItems T1 T2).tail).map (·.left.node) ↔ x ∈ T1.map (·.node) ∨ x ∈ T2.map (·.node) := by
  have tU := alignedL_treeShaped t1 t2 hc h1 h2
  have hw := walk_left_rows t1 t2 hc h1 h2 (maxDep (alignedL T1 T2) dep)
  rw [← diffItems_eq t1 t2 hc h1 h2] at hw
  have hhead : (diffItems T1 T2).head? = some (rootOf T1 T2) := by
    rw [diffItems_eq t1 t2 hc h1 h2, walkItems_succ]; rfl
  have htail : ((diffItems T1 T2).tail).map (·.left) = rowsUpTo (alignedL T1 T2) (maxDep (alignedL T1 T2) dep) := by
    have := congrArg List.tail hw
    simpa using this
  have hnodes : ((diffItems T1 T2).tail).map (·.left.node) = (rowsUpTo (alignedL T1 T2) (maxDep (alignedL T1 T2) dep)).map (·.node) := by
    rw [← htail, List.map_map]; rfl
  refine ⟨hhead, ?_, ?_⟩
  · rw [hnodes]; exact rowsUpTo_nodup tU _
  · intro x
    rw [hnodes, ← alignedL_nodes h1 h2 x]
    constructor
    · intro hx
      obtain ⟨e, he, rfl⟩ := List.mem_map.mp hx
      obtain ⟨i, _, hei⟩ := mem_rowsUpTo.mp he
      exact List.mem_map.mpr ⟨e, (levelRows_dep tU i e hei).1, rfl⟩
    · intro hx
      obtain ⟨e, he, rfl⟩ := List.mem_map.mp hx
      have hpos := tU.dep_pos e he
      have hle := le_maxDep (dep := dep) he
      have := mem_levelRows tU (dep e.node - 1) e he (by omega)
      exact List.mem_map.mpr ⟨e, mem_rowsUpTo.mpr ⟨dep e.node - 1, by omega, this⟩, rfl⟩

end Once

/-! ### both sides are faithful -/

/-- every item of the walk (any fuel, any trees with duplicate-free keys) is the root or an aligned pair -/
theorem diffLoop_items_pairs (T1 T2 : List Row) (h1 : (T1.map rkey).Nodup) (h2 : (T2.map rkey).Nodup) :
    ∀ (fuel : Nat) (queue : List QItem),
      (∀ q ∈ queue, SameNode q ∧ (q = rootOf T1 T2 ∨ ∃ p, (q.left, q.right) ∈ alignedKids T1 T2 p)) →
      ∀ q ∈ diffLoop (kidsL T1 T2) (kidsR T1 T2) fuel queue,
        SameNode q ∧ (q = rootOf T1 T2 ∨ ∃ p, (q.left, q.right) ∈ alignedKids T1 T2 p) := by
  intro fuel
  induction fuel with
  | zero => intro queue _ q hq; simp [diffLoop] at hq
  | succ fuel ih =>
    intro queue hQ q hq
    match queue with
    | [] => simp [diffLoop] at hq
    | c :: rest =>
      simp only [diffLoop, List.mem_cons] at hq
      rcases hq with rfl | hq
      · exact hQ _ (by simp)
      · apply ih (rest ++ kidItems (kidsL T1 T2) (kidsR T1 T2) c) ?_ q hq
        intro x hx
        rcases List.mem_append.mp hx with hx | hx
        · exact hQ x (by simp [hx])
        · have := kidItems_pairs T1 T2 h1 h2 c (hQ c (by simp)).1 x hx
          exact ⟨this.2, Or.inr ⟨_, this.1⟩⟩

/-! ### names -/

theorem internNames_spec : ∀ (ns names : List String), names.Nodup →
    (internNames names ns).1.Nodup
      ∧ (∃ ext, (internNames names ns).1 = names ++ ext)
      ∧ (internNames names ns).2.length = ns.length
      ∧ ∀ i (h : i < ns.length), ((internNames names ns).1)[((internNames names ns).2).getD i 0]? = some ns[i] := by
  intro ns
  induction ns with
  | nil => intro names h; exact ⟨h, ⟨[], by simp [internNames]⟩, rfl, fun i h => absurd h (by simp)⟩
  | cons n rest ih =>
    intro names hnd
    simp only [internNames]
    cases hfi : names.idxOf? n with
    | some k =>
      simp only []
      obtain ⟨i1, ⟨ext, i2⟩, i3, i4⟩ := ih names hnd
      refine ⟨i1, ⟨ext, i2⟩, by simp [i3], ?_⟩
      intro i hi
      cases i with
      | zero =>
        simp only [List.getD_cons_zero, List.getElem_cons_zero]
        obtain ⟨hlt, hk, _⟩ := List.idxOf?_eq_some_iff.mp hfi
        rw [i2, List.getElem?_append_left hlt, List.getElem?_eq_getElem hlt, hk]
      | succ i =>
        simp only [List.getD_cons_succ, List.getElem_cons_succ]
        exact i4 i (by simpa using hi)
    | none =>
      simp only []
      have hnot : n ∉ names := by
        intro hmem
        have := List.idxOf?_eq_none_iff.mp hfi
        exact this hmem
      have hnd' : (names ++ [n]).Nodup := List.nodup_append.mpr ⟨hnd, by simp, by
        intro a ha b hb e; simp at hb; subst hb; subst e; exact hnot ha⟩
      obtain ⟨i1, ⟨ext, i2⟩, i3, i4⟩ := ih (names ++ [n]) hnd'
      refine ⟨i1, ⟨[n] ++ ext, by rw [i2]; simp⟩, by simp [i3], ?_⟩
      intro i hi
      cases i with
      | zero =>
        simp only [List.getD_cons_zero, List.getElem_cons_zero]
        rw [i2, List.append_assoc, List.getElem?_append_right (Nat.le_refl _)]
        simp
      | succ i =>
        simp only [List.getD_cons_succ, List.getElem_cons_succ]
        exact i4 i (by simpa using hi)

/-- a name table with unique ids is read through its id → name function only -/
theorem nameOf_eq_of_mem {nt : NameTab} (hnd : (nt.map (·.1)).Nodup) {f : Nat} {s : String} (h : (f, s) ∈ nt) :
    nameOf nt f = s := by
  unfold nameOf
  induction nt with
  | nil => simp at h
  | cons p nt ih =>
    simp only [List.map_cons] at hnd
    have hp := List.nodup_cons.mp hnd
    by_cases e : p.1 = f
    · have hb : (p.1 == f) = true := by simpa using e
      simp only [List.find?_cons, hb]
      rcases List.mem_cons.mp h with h | h
      · rw [← h]
      · exfalso; exact hp.1 (List.mem_map.mpr ⟨(f, s), h, e.symm⟩)
    · have hb : (p.1 == f) = false := by simpa using e
      simp only [List.find?_cons, hb]
      rcases List.mem_cons.mp h with h | h
      · exfalso; exact e (by rw [← h])
      · exact ih hp.2 h

theorem nameOf_not_has {nt : NameTab} {f : Nat} (h : NameTab.has nt f = false) : nameOf nt f = "total" := by
  unfold nameOf
  have : nt.find? (fun p => p.1 == f) = none := by
    apply List.find?_eq_none.mpr
    intro p hp
    simp only [NameTab.has, List.any_eq_false] at h
    exact h p hp
  rw [this]

theorem nameOf_append_has {t1 ext : NameTab} {f : Nat} (h : NameTab.has t1 f = true) :
    nameOf (t1 ++ ext) f = nameOf t1 f := by
  unfold nameOf
  simp only [NameTab.has, List.any_eq_true] at h
  obtain ⟨p, hp, he⟩ := h
  rw [List.find?_append]
  cases hf : t1.find? (fun p => p.1 == f) with
  | some q => rfl
  | none => exact absurd he (by simpa using (List.find?_eq_none.mp hf) p hp)

theorem nameOf_append_not_has {t1 ext : NameTab} {f : Nat} (h : NameTab.has t1 f = false) :
    nameOf (t1 ++ ext) f = nameOf ext f := by
  unfold nameOf
  have : t1.find? (fun p => p.1 == f) = none := by
    apply List.find?_eq_none.mpr
    intro p hp
    simp only [NameTab.has, List.any_eq_false] at h
    exact h p hp
  rw [List.find?_append, this]; rfl

/-- adding entries whose ids are pairwise different and new appends them all -/
theorem syncNamesWith_fresh : ∀ (add t1 : NameTab), ((t1 ++ add).map (·.1)).Nodup → syncNamesWith t1 add = t1 ++ add := by
  intro add
  induction add with
  | nil => intro t1 _; simp [syncNamesWith]
  | cons p add ih =>
    intro t1 hnd
    simp only [syncNamesWith, List.foldl_cons]
    have hnot : NameTab.has t1 p.1 = false := by
      simp only [NameTab.has, List.any_eq_false, beq_iff_eq]
      intro q hq e
      rw [List.map_append, List.nodup_append] at hnd
      exact hnd.2.2 q.1 (List.mem_map.mpr ⟨q, hq, rfl⟩) p.1 (by simp) e
    simp only [hnot]
    have := ih (t1 ++ [p]) (by simpa using hnd)
    simp only [syncNamesWith] at this
    simpa using this

theorem missingNames_nodup {t1 t2 : NameTab} (h1 : (t1.map (·.1)).Nodup) (h2 : (t2.map (·.1)).Nodup) :
    ((t1 ++ missingNames t1 t2).map (·.1)).Nodup := by
  rw [List.map_append]
  refine List.nodup_append.mpr ⟨h1, h2.sublist ((List.filter_sublist).map _), ?_⟩
  intro a ha b hb e
  obtain ⟨p, hp, rfl⟩ := List.mem_map.mp ha
  obtain ⟨q, hq, rfl⟩ := List.mem_map.mp hb
  have := (List.mem_filter.mp hq).2
  simp only [NameTab.has, Bool.not_eq_true', List.any_eq_false, beq_iff_eq] at this
  exact this p hp e


theorem has_iff_mem {nt : NameTab} {f : Nat} : NameTab.has nt f = true ↔ ∃ s, (f, s) ∈ nt := by
  simp only [NameTab.has, List.any_eq_true, beq_iff_eq]
  constructor
  · rintro ⟨p, hp, rfl⟩; exact ⟨p.2, hp⟩
  · rintro ⟨s, hs⟩; exact ⟨(f, s), hs, rfl⟩

theorem nameOf_missing {t1 t2 : NameTab} {f : Nat} (h : NameTab.has t1 f = false) :
    nameOf (missingNames t1 t2) f = nameOf t2 f := by
  unfold nameOf missingNames
  induction t2 with
  | nil => rfl
  | cons p t2 ih =>
    by_cases e : p.1 = f
    · have hk : (!(NameTab.has t1 p.1)) = true := by rw [e, h]; rfl
      have hb : (p.1 == f) = true := by simpa using e
      simp only [List.filter_cons, hk, ↓reduceIte, List.find?_cons, hb]
    · have hb : (p.1 == f) = false := by simpa using e
      by_cases hk : (!(NameTab.has t1 p.1)) = true
      · simp only [List.filter_cons, hk, ↓reduceIte, List.find?_cons, hb]; exact ih
      · simp only [List.filter_cons, hk, Bool.false_eq_true, ↓reduceIte, List.find?_cons, hb]; exact ih

/-- what `computeFlameGraphDiff` reads after `synchronizeNames`: the left tree's own name, else the right tree's -/
theorem nameOf_syncNames {t1 t2 : NameTab} (u1 : (t1.map (·.1)).Nodup) (u2 : (t2.map (·.1)).Nodup) (f : Nat) :
    nameOf (syncNames t1 t2) f = if NameTab.has t1 f then nameOf t1 f else nameOf t2 f := by
  unfold syncNames
  rw [syncNamesWith_fresh _ _ (missingNames_nodup u1 u2)]
  cases h : NameTab.has t1 f with
  | true => simp only [↓reduceIte]; exact nameOf_append_has h
  | false =>
    simp only [Bool.false_eq_true, ↓reduceIte]
    rw [nameOf_append_not_has h, nameOf_missing h]

/-- tables with unique ids and the same entries read the same -/
theorem nameOf_perm {a b : NameTab} (ua : (a.map (·.1)).Nodup) (hp : a.Perm b) (f : Nat) : nameOf a f = nameOf b f := by
  have ub : (b.map (·.1)).Nodup := (hp.map _).nodup_iff.mp ua
  cases h : NameTab.has a f with
  | true =>
    obtain ⟨s, hs⟩ := has_iff_mem.mp h
    rw [nameOf_eq_of_mem ua hs, nameOf_eq_of_mem ub (hp.subset hs)]
  | false =>
    have hb : NameTab.has b f = false := by
      cases hb : NameTab.has b f with
      | false => rfl
      | true =>
        obtain ⟨s, hs⟩ := has_iff_mem.mp hb
        have := has_iff_mem.mpr ⟨s, hp.symm.subset hs⟩
        rw [h] at this; exact absurd this (by simp)
    rw [nameOf_not_has h, nameOf_not_has hb]

/-- **the map iteration order of `synchronizeNames` does not matter** -/
theorem nameOf_sync_order {t1 t2 add : NameTab} (u1 : (t1.map (·.1)).Nodup) (u2 : (t2.map (·.1)).Nodup)
    (hp : add.Perm (missingNames t1 t2)) (f : Nat) :
    nameOf (syncNamesWith t1 add) f = nameOf (syncNames t1 t2) f := by
  have hnd := missingNames_nodup u1 u2
  have hp' : (t1 ++ add).Perm (t1 ++ missingNames t1 t2) := List.Perm.append_left t1 hp
  have hnd' : ((t1 ++ add).map (·.1)).Nodup := (hp'.map _).nodup_iff.mpr hnd
  unfold syncNames
  rw [syncNamesWith_fresh _ _ hnd', syncNamesWith_fresh _ _ hnd]
  exact nameOf_perm hnd' hp' f

/-- the two tables give a common id the same name (ids are `city.CH64` of the name) -/
def NamesAgree (t1 t2 : NameTab) : Prop := ∀ f s s', (f, s) ∈ t1 → (f, s') ∈ t2 → s = s'

/-- **which side lists a function does not matter**: swapping the trees gives every function the same name -/
theorem nameOf_sync_comm {t1 t2 : NameTab} (u1 : (t1.map (·.1)).Nodup) (u2 : (t2.map (·.1)).Nodup)
    (ha : NamesAgree t1 t2) (f : Nat) : nameOf (syncNames t1 t2) f = nameOf (syncNames t2 t1) f := by
  rw [nameOf_syncNames u1 u2, nameOf_syncNames u2 u1]
  cases h1 : NameTab.has t1 f <;> cases h2 : NameTab.has t2 f
  · simp only [Bool.false_eq_true, ↓reduceIte]; rw [nameOf_not_has h1, nameOf_not_has h2]
  · simp
  · simp
  · simp only [↓reduceIte]
    obtain ⟨s, hs⟩ := has_iff_mem.mp h1
    obtain ⟨s', hs'⟩ := has_iff_mem.mp h2
    rw [nameOf_eq_of_mem u1 hs, nameOf_eq_of_mem u2 hs', ha f s s' hs hs']

/-! ### delta encoding -/

theorem decode_encode : ∀ (bars : List Bar) (p0 p3 : Int),
    decodeLevel p0 p3 (encodeLevel p0 p3 bars) = bars.map (fun b => (b.xl, b.xl + b.lt, b.xr, b.xr + b.rt)) := by
  intro bars
  induction bars with
  | nil => intro p0 p3; simp [encodeLevel, decodeLevel]
  | cons b rest ih =>
    intro p0 p3
    simp only [encodeLevel, List.cons_append, List.nil_append, decodeLevel, List.map_cons]
    rw [ih]
    congr 1
    simp only [Prod.mk.injEq]
    refine ⟨by omega, by omega, by omega, by omega⟩

end Qryn.Prof
