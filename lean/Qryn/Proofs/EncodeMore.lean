import Qryn.Read.EncodeMore
import Qryn.Proofs.SepEnc
import Qryn.Proofs.Encode
/-! Lemmas for the writers of `Qryn/Read/EncodeMore.lean`: each is the generic guarded-separator lemma
(`SepEnc.encode_flatten`) plus the `Repr` combinators for its envelope. Core-only. -/
namespace Qryn.Encode
open Qryn Qryn.Json

/-! ### concatenations -/
theorem searchBody_eq (items : List Bytes) : searchBody items = searchPre ++ joinTexts items ++ [93, 125] := by
  simp [searchBody, SepEnc.encode_flatten]

theorem searchQLBody_eq (batches : List (List Bytes)) :
    searchQLBody batches = searchPre ++ joinTexts batches.flatten ++ [93, 125] := by
  simp [searchQLBody, SepEnc.encode_flatten]

theorem traceBody_eq (items : List Bytes) : traceBody items = tracePre ++ joinTexts items ++ tracePost := by
  simp [traceBody, SepEnc.encode_flatten]

theorem listBuffered_flatten (pre : Bytes) (pol : SepEnc.Policy) (batches : List (List Bytes)) :
    (listBuffered pre pol batches).flatten = pre ++ joinTexts batches.flatten ++ [93, 125] := by
  simp [listBuffered, SepEnc.encode_flatten]

/-- the pinned element-list encoders (one chunk per piece, the separator a chunk of its own) are the buffered machine
    under the policy "flush every piece", in concatenation -/
theorem listChunks_is_buffered (pre : Bytes) (items : List Bytes) :
    (listChunks pre items).flatten = (listBuffered pre eachPiece [items]).flatten := by
  rw [listChunks_flatten, listBuffered_flatten]; simp

/-- `emitComma` (the vector writer of `QueryInstant`: guard `i > 0`, `i++`) is the same machine -/
theorem emitComma_is_sepenc (pre post : Bytes) (items : List Bytes) :
    (pre :: emitComma 0 items ++ [post]).flatten = (SepEnc.encode pre post eachPiece [items]).flatten := by
  rw [SepEnc.encode_flatten]; simp [emitComma_flatten]

/-- the compact printer's element and member loops (jsoniter `WriteMore` under `j > 0`: `writeMap`, the label and
    point loops of the Prometheus writers) are the machine at counter 0 -/
theorem printElems_is_seps (xs : List JVal) : printElems xs = SepEnc.seps 0 (xs.map print) := by
  rw [SepEnc.seps_zero, printElems_eq]

theorem printMembers_is_seps (kvs : List (Bytes × JVal)) :
    printMembers kvs = SepEnc.seps 0 (kvs.map (fun p => (kvMem p).text)) := by
  rw [SepEnc.seps_zero, printMembers_eq]

/-! ### Tempo search -/
theorem jstr_kTraces : jstr kTraces = [34, 116, 114, 97, 99, 101, 115, 34] := by decide

theorem search_repr (items : List (Bytes × JVal)) (h : ∀ p ∈ items, Repr p.1 p.2) :
    Repr (searchPre ++ joinTexts (items.map (·.1)) ++ [93, 125]) (oneKeyDoc kTraces (items.map (·.2))) := by
  have harr := repr_arr items h
  let m : Mem := ⟨[], jstr kTraces, kTraces, [32] ++ (91 :: joinTexts (items.map (·.1)) ++ [93]), .arr (items.map (·.2))⟩
  have hm : m.ok := ⟨allWs_nil, strTok_jstr _, repr_ws allWs_sp harr⟩
  have := repr_obj [m] (by intro x hx; simp at hx; subst hx; exact hm)
  have htxt : 123 :: joinTexts ([m].map Mem.text) ++ [125] = searchPre ++ joinTexts (items.map (·.1)) ++ [93, 125] := by
    simp [m, joinTexts_single, Mem.text, searchPre, jstr_kTraces]
  rw [htxt] at this
  simpa [m, Mem.kv, oneKeyDoc] using this

/-! ### Tempo trace -/
/-- the `resource` member of the envelope -/
def traceResource : JVal :=
  .obj [(kAttributes, .arr [.obj [(kKey, .str kCollector), (kValue, .obj [(kStringValue, .str kQryn)])]])]

/-- the document of the JSON branch of `Trace` -/
def traceDoc (spans : List JVal) : JVal :=
  .obj [(kResourceSpans, .arr [.obj [(kResource, traceResource), (kILS, .arr [.obj [(kSpans, .arr spans)]])]])]

theorem allWs_nl : allWs [32, 10, 9, 9, 9] := by
  intro c hc
  simp at hc
  rcases hc with rfl | rfl | rfl <;> rfl

theorem traceResource_wf : traceResource.wf = true := by decide

theorem trace_repr (items : List (Bytes × JVal)) (h : ∀ p ∈ items, Repr p.1 p.2) :
    Repr (tracePre ++ joinTexts (items.map (·.1)) ++ tracePost) (traceDoc (items.map (·.2))) := by
  have harr := repr_arr items h
  -- `{ "spans": [ … ]}`
  let mS : Mem := ⟨[32], jstr kSpans, kSpans, [32] ++ (91 :: joinTexts (items.map (·.1)) ++ [93]), .arr (items.map (·.2))⟩
  have hS : mS.ok := ⟨allWs_sp, strTok_jstr _, repr_ws allWs_sp harr⟩
  have hobjS := repr_obj [mS] (by intro x hx; simp at hx; subst hx; exact hS)
  -- `[{ "spans": … }]`
  have harrI := repr_arr [(123 :: joinTexts ([mS].map Mem.text) ++ [125], JVal.obj ([mS].map Mem.kv))]
    (by intro p hp; simp at hp; subst hp; exact hobjS)
  -- `{ ⏎⇥⇥⇥"resource":R, ⏎⇥⇥⇥"instrumentationLibrarySpans": [ … ]}`
  let mR : Mem := ⟨[32, 10, 9, 9, 9], jstr kResource, kResource, print traceResource, traceResource⟩
  let mI : Mem := ⟨[32, 10, 9, 9, 9], jstr kILS, kILS,
    [32] ++ (91 :: joinTexts ([(123 :: joinTexts ([mS].map Mem.text) ++ [125], JVal.obj ([mS].map Mem.kv))].map (·.1)) ++ [93]),
    .arr ([(123 :: joinTexts ([mS].map Mem.text) ++ [125], JVal.obj ([mS].map Mem.kv))].map (·.2))⟩
  have hR : mR.ok := ⟨allWs_nl, strTok_jstr _, repr_print _ traceResource_wf⟩
  have hI : mI.ok := ⟨allWs_nl, strTok_jstr _, repr_ws allWs_sp harrI⟩
  have hobjO := repr_obj [mR, mI] (by intro m hm; simp at hm; rcases hm with rfl | rfl <;> assumption)
  -- `[{ … }]`
  have harrO := repr_arr [(123 :: joinTexts ([mR, mI].map Mem.text) ++ [125], JVal.obj ([mR, mI].map Mem.kv))]
    (by intro p hp; simp at hp; subst hp; exact hobjO)
  -- `{"resourceSpans": [ … ]}`
  let mT : Mem := ⟨[], jstr kResourceSpans, kResourceSpans,
    [32] ++ (91 :: joinTexts ([(123 :: joinTexts ([mR, mI].map Mem.text) ++ [125], JVal.obj ([mR, mI].map Mem.kv))].map (·.1)) ++ [93]),
    .arr ([(123 :: joinTexts ([mR, mI].map Mem.text) ++ [125], JVal.obj ([mR, mI].map Mem.kv))].map (·.2))⟩
  have hT : mT.ok := ⟨allWs_nil, strTok_jstr _, repr_ws allWs_sp harrO⟩
  have hobjT := repr_obj [mT] (by intro x hx; simp at hx; subst hx; exact hT)
  have hk1 : jstr kResourceSpans = [34, 114, 101, 115, 111, 117, 114, 99, 101, 83, 112, 97, 110, 115, 34] := by decide
  have hk2 : jstr kResource = [34, 114, 101, 115, 111, 117, 114, 99, 101, 34] := by decide
  have hk3 : jstr kILS = [34, 105, 110, 115, 116, 114, 117, 109, 101, 110, 116, 97, 116, 105, 111, 110, 76, 105, 98, 114, 97, 114, 121, 83, 112, 97, 110, 115, 34] := by decide
  have hk4 : jstr kSpans = [34, 115, 112, 97, 110, 115, 34] := by decide
  have hk5 : print traceResource = [123, 34, 97, 116, 116, 114, 105, 98, 117, 116, 101, 115, 34, 58, 91, 123, 34, 107, 101, 121, 34, 58, 34, 99, 111, 108, 108, 101, 99, 116, 111, 114, 34, 44, 34, 118, 97, 108, 117, 101, 34, 58, 123, 34, 115, 116, 114, 105, 110, 103, 86, 97, 108, 117, 101, 34, 58, 34, 113, 114, 121, 110, 34, 125, 125, 93, 125] := by decide
  have htxt : 123 :: joinTexts ([mT].map Mem.text) ++ [125] = tracePre ++ joinTexts (items.map (·.1)) ++ tracePost := by
    simp [mT, mR, mI, mS, joinTexts_single, joinTexts_cons2, Mem.text, tracePre, tracePost, hk1, hk2, hk3, hk4, hk5]
  rw [htxt] at hobjT
  simpa [mT, mR, mI, mS, Mem.kv, traceDoc] using hobjT

/-! ### Prometheus vector / matrix -/
theorem promPoint_wf (p : Bytes × Bytes) (h : isNumTok p.1 = true) : (promPoint p).wf = true := by
  simp [promPoint, JVal.wf, wfList, h]

theorem promVecObj_wf (s : PromSample) (h : isNumTok s.t = true) : (promVecObj s).wf = true := by
  have := promPoint_wf (s.t, s.v) h
  simp [promVecObj, JVal.wf, wfMembers, labelsObj_wf, this]

theorem promMatObj_wf (s : PromSeries) (h : ∀ p ∈ s.points, isNumTok p.1 = true) : (promMatObj s).wf = true := by
  have hp : wfList (s.points.map promPoint) = true := by
    apply wfList_of_forall
    intro x hx
    obtain ⟨p, hp, rfl⟩ := List.mem_map.mp hx
    exact promPoint_wf p (h p hp)
  simp [promMatObj, JVal.wf, wfMembers, labelsObj_wf, hp]

theorem promVectorBody_eq (ss : List PromSample) : promVectorBody ss = print (promVectorDoc ss) := by
  rw [promVectorBody, SepEnc.encode_flatten, promVectorDoc, print_respDoc, printElems_map]
  simp [List.map_map, Function.comp_def]

theorem promMatrixBody_eq (ss : List PromSeries) : promMatrixBody ss = print (promMatrixDoc ss) := by
  rw [promMatrixBody, SepEnc.encode_flatten, promMatrixDoc, print_respDoc, printElems_map]
  simp [List.map_map, Function.comp_def]

theorem promVectorDoc_wf (ss : List PromSample) (h : ∀ s ∈ ss, isNumTok s.t = true) : (promVectorDoc ss).wf = true := by
  apply respDoc_wf
  intro x hx
  obtain ⟨s, hs, rfl⟩ := List.mem_map.mp hx
  exact promVecObj_wf s (h s hs)

theorem promMatrixDoc_wf (ss : List PromSeries) (h : ∀ s ∈ ss, ∀ p ∈ s.points, isNumTok p.1 = true) :
    (promMatrixDoc ss).wf = true := by
  apply respDoc_wf
  intro x hx
  obtain ⟨s, hs, rfl⟩ := List.mem_map.mp hx
  exact promMatObj_wf s (h s hs)

/-! ### straight-line documents -/
theorem promErrorDoc_wf (msg : Bytes) : (promErrorDoc msg).wf = true := by
  simp [promErrorDoc, JVal.wf, wfMembers]

theorem buildinfoDoc_wf (v : Bytes) : (buildinfoDoc v).wf = true := by
  simp [buildinfoDoc, JVal.wf, wfMembers]

theorem queryConstDoc_wf (now : Int) : (queryConstDoc now).wf = true := by
  simp [queryConstDoc, respDoc, JVal.wf, wfMembers, wfList, isNumTok_decInt]

end Qryn.Encode
