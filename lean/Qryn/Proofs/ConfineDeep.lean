import Qryn.Proofs.ConfineHoist
/-! C13: the fuel versions (`confinedDeep`, `yieldsOk`, …, statements with set operations in FROM) are monotone
    in the fuel and in the known selections; the invariant of `ConfineHoist` realises `withsDeep`. -/
namespace Qryn.Confine
open Qryn Qryn.Sql

abbrev Sub (a b : List Alias) : Prop := ∀ x, x ∈ a → x ∈ b

theorem okDeep_nil (cfg : Cfg) (f : Nat) (ok : List Alias) : okDeep cfg f ok [] = ok := by
  cases f <;> simp [okDeep]
theorem okDeep_zero (cfg : Cfg) (ok : List Alias) (ws : List (Alias × Sel)) : okDeep cfg 0 ok ws = ok := by
  cases ws <;> simp [okDeep]
theorem okDeep_succ (cfg : Cfg) (f : Nat) (ok : List Alias) (a : Alias) (s : Sel) (rest : List (Alias × Sel)) :
    okDeep cfg (f + 1) ok ((a, s) :: rest) = okDeep cfg f (if yieldsOk cfg f ok s then a :: ok else ok) rest := by
  simp [okDeep]
theorem allYield_nil (cfg : Cfg) (f : Nat) : allYield cfg f [] = true := by
  cases f <;> simp [allYield]
theorem allYield_succ (cfg : Cfg) (f : Nat) (s : Sel) (ss : List Sel) :
    allYield cfg (f + 1) (s :: ss) = (yieldsOk cfg f [] s && allYield cfg f ss) := by
  simp [allYield]
theorem yieldsOk_succ (cfg : Cfg) (f : Nat) (ok : List Alias) (s : Sel) :
    yieldsOk cfg (f + 1) ok s =
      (isIndexSelection cfg s || derivesFrom (okDeep cfg f ok (withsOf s)) s ||
        (!(fromSetop (fromOf s)).isEmpty && allYield cfg f (fromSetop (fromOf s)))) := by
  simp [yieldsOk]

theorem okDeep_super (cfg : Cfg) (ws : List (Alias × Sel)) : ∀ (f : Nat) (ok : List Alias), Sub ok (okDeep cfg f ok ws) := by
  induction ws with
  | nil => intro f ok x hx; rw [okDeep_nil]; exact hx
  | cons e rest ih =>
    obtain ⟨a, s⟩ := e
    intro f ok x hx
    cases f with
    | zero => rw [okDeep_zero]; exact hx
    | succ f =>
      rw [okDeep_succ]
      apply ih
      split
      · exact List.mem_cons_of_mem _ hx
      · exact hx

theorem yield_mono (cfg : Cfg) : ∀ f : Nat,
    (∀ f' ok ok' s, f ≤ f' → Sub ok ok' → yieldsOk cfg f ok s = true → yieldsOk cfg f' ok' s = true) ∧
    (∀ f' ss, f ≤ f' → allYield cfg f ss = true → allYield cfg f' ss = true) ∧
    (∀ f' ok ok' ws, f ≤ f' → Sub ok ok' → Sub (okDeep cfg f ok ws) (okDeep cfg f' ok' ws)) := by
  intro f
  induction f with
  | zero =>
    refine ⟨?_, ?_, ?_⟩
    · intro f' ok ok' s _ _ h; simp [yieldsOk] at h
    · intro f' ss _ h
      cases ss with
      | nil => exact allYield_nil cfg f'
      | cons s ss => simp [allYield] at h
    · intro f' ok ok' ws _ hsub x hx
      rw [okDeep_zero] at hx
      exact okDeep_super cfg ws f' ok' x (hsub x hx)
  | succ f ih =>
    obtain ⟨ih1, ih2, ih3⟩ := ih
    refine ⟨?_, ?_, ?_⟩
    · intro f' ok ok' s hle hsub h
      cases f' with
      | zero => omega
      | succ g =>
        rw [yieldsOk_succ] at h ⊢
        simp only [Bool.or_eq_true, Bool.and_eq_true] at h ⊢
        rcases h with (h | h) | h
        · exact Or.inl (Or.inl h)
        · exact Or.inl (Or.inr (derivesFrom_mono _ _ (ih3 g ok ok' _ (by omega) hsub) s h))
        · exact Or.inr ⟨h.1, ih2 g _ (by omega) h.2⟩
    · intro f' ss hle h
      cases f' with
      | zero => omega
      | succ g =>
        cases ss with
        | nil => exact allYield_nil cfg _
        | cons s ss =>
          rw [allYield_succ, Bool.and_eq_true] at h ⊢
          exact ⟨ih1 g [] [] s (by omega) (fun _ h => h) h.1, ih2 g ss (by omega) h.2⟩
    · intro f' ok ok' ws hle hsub
      cases f' with
      | zero => omega
      | succ g =>
        cases ws with
        | nil => rw [okDeep_nil, okDeep_nil]; exact hsub
        | cons e rest =>
          obtain ⟨a, s⟩ := e
          rw [okDeep_succ, okDeep_succ]
          apply ih3 g _ _ rest (by omega)
          intro x hx
          by_cases hy : yieldsOk cfg f ok s = true
          · have hy' := ih1 g ok ok' s (by omega) hsub hy
            simp only [hy, hy', if_true, List.mem_cons] at hx ⊢
            rcases hx with rfl | hx
            · exact Or.inl rfl
            · exact Or.inr (hsub x hx)
          · simp only [hy, if_false, Bool.false_eq_true] at hx
            split
            · exact List.mem_cons_of_mem _ (hsub x hx)
            · exact hsub x hx

theorem yieldsOk_mono (cfg : Cfg) {f f' : Nat} {ok ok' : List Alias} {s : Sel} (hle : f ≤ f') (hsub : Sub ok ok')
    (h : yieldsOk cfg f ok s = true) : yieldsOk cfg f' ok' s = true := (yield_mono cfg f).1 f' ok ok' s hle hsub h
theorem allYield_mono (cfg : Cfg) {f f' : Nat} {ss : List Sel} (hle : f ≤ f')
    (h : allYield cfg f ss = true) : allYield cfg f' ss = true := (yield_mono cfg f).2.1 f' ss hle h
theorem okDeep_mono (cfg : Cfg) {f f' : Nat} {ok ok' : List Alias} (ws : List (Alias × Sel)) (hle : f ≤ f') (hsub : Sub ok ok') :
    Sub (okDeep cfg f ok ws) (okDeep cfg f' ok' ws) := (yield_mono cfg f).2.2 f' ok ok' ws hle hsub

/-! ### `confinedDeep` -/
theorem allDeep_nil (cfg : Cfg) (w : Window) (f : Nat) : allDeep cfg w f [] = true := by
  cases f <;> simp [allDeep]
theorem allDeep_succ (cfg : Cfg) (w : Window) (f : Nat) (s : Sel) (ss : List Sel) :
    allDeep cfg w (f + 1) (s :: ss) = (confinedDeep cfg w f s && allDeep cfg w f ss) := by
  simp [allDeep]
theorem withsDeep_nil (cfg : Cfg) (w : Window) (f : Nat) (ok : List Alias) : withsDeep cfg w f ok [] = true := by
  cases f <;> simp [withsDeep]
theorem withsDeep_succ (cfg : Cfg) (w : Window) (f : Nat) (ok : List Alias) (a : Alias) (s : Sel) (rest : List (Alias × Sel)) :
    withsDeep cfg w (f + 1) ok ((a, s) :: rest) =
      (bodyConfined cfg w ok s && allDeep cfg w f (fromSetop (fromOf s)) &&
        withsDeep cfg w f (if yieldsOk cfg f ok s then a :: ok else ok) rest) := by
  simp [withsDeep]
theorem confinedDeep_succ (cfg : Cfg) (w : Window) (f : Nat) (s : Sel) :
    confinedDeep cfg w (f + 1) s =
      (withsDeep cfg w f [] (withsOf s) && bodyConfined cfg w (okDeep cfg f [] (withsOf s)) s &&
        allDeep cfg w f (fromSetop (fromOf s))) := by
  simp [confinedDeep]

theorem deep_mono (cfg : Cfg) (w : Window) : ∀ f : Nat,
    (∀ f' s, f ≤ f' → confinedDeep cfg w f s = true → confinedDeep cfg w f' s = true) ∧
    (∀ f' ok ok' ws, f ≤ f' → Sub ok ok' → withsDeep cfg w f ok ws = true → withsDeep cfg w f' ok' ws = true) ∧
    (∀ f' ss, f ≤ f' → allDeep cfg w f ss = true → allDeep cfg w f' ss = true) := by
  intro f
  induction f with
  | zero =>
    refine ⟨?_, ?_, ?_⟩
    · intro f' s _ h; simp [confinedDeep] at h
    · intro f' ok ok' ws _ _ h
      cases ws with
      | nil => exact withsDeep_nil cfg w f' ok'
      | cons e rest => simp [withsDeep] at h
    · intro f' ss _ h
      cases ss with
      | nil => exact allDeep_nil cfg w f'
      | cons s ss => simp [allDeep] at h
  | succ f ih =>
    obtain ⟨ih1, ih2, ih3⟩ := ih
    refine ⟨?_, ?_, ?_⟩
    · intro f' s hle h
      cases f' with
      | zero => omega
      | succ g =>
        rw [confinedDeep_succ] at h ⊢
        simp only [Bool.and_eq_true] at h ⊢
        exact ⟨⟨ih2 g [] [] _ (by omega) (fun _ h => h) h.1.1,
          bodyConfined_mono cfg w _ _ (okDeep_mono cfg _ (by omega) (fun _ h => h)) s h.1.2⟩, ih3 g _ (by omega) h.2⟩
    · intro f' ok ok' ws hle hsub h
      cases f' with
      | zero => omega
      | succ g =>
        cases ws with
        | nil => exact withsDeep_nil cfg w _ _
        | cons e rest =>
          obtain ⟨a, s⟩ := e
          rw [withsDeep_succ] at h ⊢
          simp only [Bool.and_eq_true] at h ⊢
          refine ⟨⟨bodyConfined_mono cfg w _ _ hsub s h.1.1, ih3 g _ (by omega) h.1.2⟩, ?_⟩
          apply ih2 g _ _ rest (by omega) _ h.2
          intro x hx
          by_cases hy : yieldsOk cfg f ok s = true
          · have hy' := yieldsOk_mono cfg (f' := g) (by omega) hsub hy
            simp only [hy, hy', if_true, List.mem_cons] at hx ⊢
            rcases hx with rfl | hx
            · exact Or.inl rfl
            · exact Or.inr (hsub x hx)
          · simp only [hy, if_false, Bool.false_eq_true] at hx
            split
            · exact List.mem_cons_of_mem _ (hsub x hx)
            · exact hsub x hx
    · intro f' ss hle h
      cases f' with
      | zero => omega
      | succ g =>
        cases ss with
        | nil => exact allDeep_nil cfg w _
        | cons s ss =>
          rw [allDeep_succ, Bool.and_eq_true] at h ⊢
          exact ⟨ih1 g s (by omega) h.1, ih3 g ss (by omega) h.2⟩

theorem confinedDeep_mono (cfg : Cfg) (w : Window) {f f' : Nat} {s : Sel} (hle : f ≤ f')
    (h : confinedDeep cfg w f s = true) : confinedDeep cfg w f' s = true := (deep_mono cfg w f).1 f' s hle h
theorem withsDeep_mono (cfg : Cfg) (w : Window) {f f' : Nat} {ok ok' : List Alias} {ws : List (Alias × Sel)} (hle : f ≤ f')
    (hsub : Sub ok ok') (h : withsDeep cfg w f ok ws = true) : withsDeep cfg w f' ok' ws = true :=
  (deep_mono cfg w f).2.1 f' ok ok' ws hle hsub h
theorem allDeep_mono (cfg : Cfg) (w : Window) {f f' : Nat} {ss : List Sel} (hle : f ≤ f')
    (h : allDeep cfg w f ss = true) : allDeep cfg w f' ss = true := (deep_mono cfg w f).2.2 f' ss hle h


/-! ### "for all sufficiently large fuel" -/
def Ev (P : Nat → Prop) : Prop := ∃ n, ∀ f, n ≤ f → P f

theorem Ev.and {P Q : Nat → Prop} (hp : Ev P) (hq : Ev Q) : Ev (fun f => P f ∧ Q f) := by
  obtain ⟨n, hn⟩ := hp
  obtain ⟨m, hm⟩ := hq
  exact ⟨max n m, fun f hf => ⟨hn f (by omega), hm f (by omega)⟩⟩

theorem Ev.imp {P Q : Nat → Prop} (h : ∀ f, P f → Q f) (hp : Ev P) : Ev Q := by
  obtain ⟨n, hn⟩ := hp
  exact ⟨n, fun f hf => h f (hn f hf)⟩

theorem Ev.const {P : Prop} (h : P) : Ev (fun _ => P) := ⟨0, fun _ _ => h⟩

/-- a property of fuel f implies the next property at f+1 -/
theorem Ev.succ {P Q : Nat → Prop} (h : ∀ f, P f → Q (f + 1)) (hp : Ev P) : Ev Q := by
  obtain ⟨n, hn⟩ := hp
  refine ⟨n + 1, fun f hf => ?_⟩
  obtain ⟨g, rfl⟩ : ∃ g, f = g + 1 := ⟨f - 1, by omega⟩
  exact h g (hn g (by omega))

/-! ### the per-entry check and the yield of the fuel versions, as predicates -/
def BD (cfg : Cfg) (w : Window) : List Alias → Sel → Prop :=
  fun ok s => bodyConfined cfg w ok s = true ∧ Ev (fun f => allDeep cfg w f (fromSetop (fromOf s)) = true)
def YD (cfg : Cfg) : List Alias → Sel → Prop := fun ok s => Ev (fun f => yieldsOk cfg f ok s = true)

theorem BD_Mono (cfg : Cfg) (w : Window) : Mono (BD cfg w) :=
  fun ok ok' s h hs => ⟨bodyConfined_mono cfg w ok ok' h s hs.1, hs.2⟩
theorem YD_Mono (cfg : Cfg) : Mono (YD cfg) :=
  fun _ _ _ h hs => hs.imp (fun _ hy => yieldsOk_mono cfg (Nat.le_refl _) h hy)

theorem withsOf_eq (s : Sel) : withsOf s = s.withs := by cases s; rfl

theorem withsDeep_of_inv (cfg : Cfg) (w : Window) (G : Alias → Bool) (ws : List (Alias × Sel)) :
    ∀ (seen ok : List Alias), Sub seen ok → Inv (BD cfg w) (YD cfg) G seen ws →
      Ev (fun f => withsDeep cfg w f ok ws = true ∧ Sub (seenAfter G seen ws) (okDeep cfg f ok ws)) := by
  induction ws with
  | nil =>
    intro seen ok hsub _
    exact ⟨0, fun f _ => ⟨withsDeep_nil cfg w f ok, by rw [okDeep_nil]; exact hsub⟩⟩
  | cons e rest ih =>
    obtain ⟨a, s⟩ := e
    intro seen ok hsub h
    obtain ⟨⟨hb, n1, h1⟩, hy, hrest⟩ := h
    have hsubX : Sub (if G a then a :: seen else seen) (if G a then a :: ok else ok) := by
      intro x hx
      by_cases hg : G a = true
      · simp only [hg, if_true, List.mem_cons] at hx ⊢
        rcases hx with rfl | hx
        · exact Or.inl rfl
        · exact Or.inr (hsub x hx)
      · simp only [hg, if_false, Bool.false_eq_true] at hx ⊢
        exact hsub x hx
    obtain ⟨n3, h3⟩ := ih _ _ hsubX hrest
    have hy2 : ∃ n2, ∀ f, n2 ≤ f → G a = true → yieldsOk cfg f ok s = true := by
      by_cases hg : G a = true
      · obtain ⟨n2, h2⟩ := hy hg
        exact ⟨n2, fun f hf _ => yieldsOk_mono cfg (Nat.le_refl _) hsub (h2 f hf)⟩
      · exact ⟨0, fun _ _ hg' => absurd hg' hg⟩
    obtain ⟨n2, h2⟩ := hy2
    refine ⟨max n1 (max n2 n3) + 1, fun f hf => ?_⟩
    obtain ⟨g, rfl⟩ : ∃ g, f = g + 1 := ⟨f - 1, by omega⟩
    have hokX : Sub (if G a then a :: ok else ok) (if yieldsOk cfg g ok s then a :: ok else ok) := by
      intro x hx
      by_cases hg : G a = true
      · have := h2 g (by omega) hg
        simpa only [hg, this, if_true] using hx
      · simp only [hg, if_false, Bool.false_eq_true] at hx
        split
        · exact List.mem_cons_of_mem _ hx
        · exact hx
    obtain ⟨r1, r2⟩ := h3 g (by omega)
    refine ⟨?_, ?_⟩
    · rw [withsDeep_succ]
      simp only [Bool.and_eq_true]
      exact ⟨⟨bodyConfined_mono cfg w _ _ hsub s hb, h1 g (by omega)⟩,
        withsDeep_mono cfg w (Nat.le_refl _) hokX r1⟩
    · rw [okDeep_succ]
      intro x hx
      exact okDeep_mono cfg rest (Nat.le_refl _) hokX x (r2 x hx)

/-- a statement whose WITH list, followed by the statement itself, satisfies the invariant passes `confinedDeep`
    with enough fuel -/
theorem confinedDeep_of_inv (cfg : Cfg) (w : Window) (G : Alias → Bool) (s : Sel) (a : Alias)
    (h : Inv (BD cfg w) (YD cfg) G [] (s.withs ++ [(a, s)])) : Ev (fun f => confinedDeep cfg w f s = true) := by
  rw [Inv_append] at h
  obtain ⟨h1, ⟨hb, hs⟩, _⟩ := h
  have hw := withsDeep_of_inv cfg w G s.withs [] [] (fun _ h => h) h1
  refine Ev.succ ?_ (hw.and hs)
  intro f ⟨⟨r1, r2⟩, r3⟩
  rw [confinedDeep_succ, withsOf_eq]
  simp only [Bool.and_eq_true]
  exact ⟨⟨r1, bodyConfined_mono cfg w _ _ r2 s hb⟩, r3⟩

theorem mem_okDeep (cfg : Cfg) (ws : List (Alias × Sel)) : ∀ (f : Nat) (ok : List Alias) (x : Alias),
    x ∈ okDeep cfg f ok ws → x ∈ ok ∨ hasAlias ws x = true := by
  induction ws with
  | nil => intro f ok x hx; rw [okDeep_nil] at hx; exact Or.inl hx
  | cons e rest ih =>
    obtain ⟨a, s⟩ := e
    intro f ok x hx
    cases f with
    | zero => rw [okDeep_zero] at hx; exact Or.inl hx
    | succ f =>
      rw [okDeep_succ] at hx
      rcases ih _ _ _ hx with h | h
      · split at h
        · rcases List.mem_cons.mp h with rfl | h
          · exact Or.inr (by simp [hasAlias])
          · exact Or.inl h
        · exact Or.inl h
      · exact Or.inr (by simp only [hasAlias, List.any_cons, Bool.or_eq_true]; exact Or.inr (by simpa [hasAlias] using h))

/-- every alias counts -/
def Gt : Alias → Bool := fun _ => true

/-- with every alias relied on: a statement that yields under the aliases of its own WITH list yields on its own -/
theorem yields_standalone (cfg : Cfg) (w : Window) (s : Sel) (h1 : Inv (BD cfg w) (YD cfg) Gt [] s.withs)
    (hy : YD cfg (seenAfter Gt [] s.withs) s) : Ev (fun f => yieldsOk cfg f [] s = true) := by
  have hw := withsDeep_of_inv cfg w Gt s.withs [] [] (fun _ h => h) h1
  refine Ev.succ ?_ (hw.and (show Ev (fun f => yieldsOk cfg (f + 1) (seenAfter Gt [] s.withs) s = true) from
    (by obtain ⟨n, hn⟩ := hy; exact ⟨n, fun f hf => hn (f + 1) (by omega)⟩)))
  intro f ⟨⟨_, r2⟩, r3⟩
  rw [yieldsOk_succ] at r3 ⊢
  simp only [Bool.or_eq_true, Bool.and_eq_true] at r3 ⊢
  rcases r3 with (h | h) | h
  · exact Or.inl (Or.inl h)
  · refine Or.inl (Or.inr (derivesFrom_mono _ _ ?_ s h))
    intro x hx
    rw [withsOf_eq] at hx ⊢
    apply r2
    rcases mem_okDeep cfg _ _ _ _ hx with h | h
    · exact h
    · exact (mem_seenAfter Gt [] _ x).mpr (Or.inr ⟨rfl, h⟩)
  · exact Or.inr h

end Qryn.Confine
