import Qryn.Proofs.SemGAux
import Qryn.Proofs.TraceQLTermSql
import Qryn.Proofs.TraceQLBits
import Qryn.Proofs.TraceQLAnalyze
/-! C11, stage A: the index scan (`AttrConditionPlanner` over `InitIndexPlanner`) returns one row per span
    whose conditions hold. -/
namespace Qryn.TraceQL
open Qryn Qryn.Sql

def windowE (c : Ctx) : Expr :=
  and_ [ge (.raw "date") (.str (dateFrom c)), le (.raw "date") (.str (dateTo c)),
        ge (.raw "traces_idx.timestamp_ns") (.int c.fromNs), lt (.raw "traces_idx.timestamp_ns") (.int c.toNs)]

def idxCols : List Expr :=
  [simpleCol "trace_id" "trace_id", simpleCol "span_id" "span_id",
   .col (.call "any" [.raw "duration"]) "duration", .col (.call "any" [.raw "timestamp_ns"]) "timestamp_ns"]

/-- the statement `attrCondition` builds (with the portion filter of the context, if any) -/
def idxSel (c : Ctx) (es : List Expr) (cond : Cond) (aggAttr : String) : Sel :=
  .mk [] false (idxCols ++ aggCol aggAttr) (some (.col (.raw c.attrsTable) "traces_idx")) [] none
    (some (.logical "and" ([windowE c, or_ (es ++ aggWhere aggAttr)] ++ randomFilter c))) [.raw "trace_id", .raw "span_id"]
    (some (and_ [(condSql es false cond).1])) [.orderBy (.raw "timestamp_ns") .desc] none

theorem attrCondition_shape (c : Ctx) (terms : List Term) (cond : Cond) (aggAttr : String) (S : Sel)
    (h : attrCondition c terms cond aggAttr = .ok S) :
    ∃ es, mapOk termSql terms = .ok es ∧ S = idxSel c es cond aggAttr ∧ terms.length ≤ 64 := by
  obtain ⟨h64, h⟩ := attrCondition_core h
  unfold attrConditionCore at h
  cases hm : mapOk termSql terms with
  | error e => simp [hm, bind, Except.bind] at h
  | ok es =>
    refine ⟨es, rfl, ?_, h64⟩
    simp only [hm, bind, Except.bind, pure, Except.pure, Except.ok.injEq] at h
    rw [← h]
    cases hrf : randomFilter c with
    | nil => simp only [idxSel, hrf]; rfl
    | cons f fs => simp only [idxSel, hrf]; rfl

/-- the portion filter of the context (`cityHash64(trace_id) % N == i`, cached trace ids) lets the index row through;
    `true` outside complex requests -/
def portionOk (o : Oracles) (c : Ctx) (a : AttrRow) : Bool := evalAll o [] a.qrow (randomFilter c)

/-- the index as the statement sees it behind its portion filter -/
def _root_.Qryn.TraceQL.TraceDb.seen (d : TraceDb) (o : Oracles) (c : Ctx) : TraceDb :=
  { d with attrs := d.attrs.filter (portionOk o c) }

theorem evalEs_raws (o : Oracles) (env env' : Env) (r : Row) (f : String → String) (l : List String) :
    evalEs o env r (l.map (fun t => Expr.raw (f t))) = evalEs o env' r (l.map (fun t => Expr.raw (f t))) := by
  induction l with
  | nil => simp [evalEs]
  | cons x xs ih => simp [evalEs, evalE, ih]

theorem evalAll_randomFilter_env (o : Oracles) (env : Env) (c : Ctx) (r : Row) :
    evalAll o env r (randomFilter c) = evalAll o [] r (randomFilter c) := by
  unfold randomFilter
  have hin : evalE o env r (.isIn (.raw "trace_id") (c.cached.map (fun t => Expr.raw ("unhex('" ++ t ++ "')")))) =
      evalE o [] r (.isIn (.raw "trace_id") (c.cached.map (fun t => Expr.raw ("unhex('" ++ t ++ "')")))) := by
    have := evalEs_raws o env [] r (fun t => "unhex('" ++ t ++ "')") c.cached
    rcases hc : c.cached with _ | ⟨x, _ | ⟨y, ys⟩⟩
    · simp [evalE, evalEs]
    · simp [evalE, evalEs]
    · rw [hc] at this
      simp only [List.map_cons] at this ⊢
      simp only [evalE, this]
  split
  · rw [evalAll_cons, evalAll_cons, evalAll_nil, evalAll_nil, evalB_or, evalB_or, evalAny_cons, evalAny_cons,
      evalAny_cons, evalAny_cons, evalAny_nil, evalAny_nil]
    simp only [evalB, hin]
    simp [eq, evalE]
  · split
    · simp [evalAll_cons, evalAll_nil, evalB, eq, evalE]
    · rfl

theorem seen_noFilter (d : TraceDb) (o : Oracles) (c : Ctx) (hr : c.rndMax = 0) : d.seen o c = d := by
  have : ∀ a, portionOk o c a = true := by
    intro a; simp [portionOk, randomFilter, hr, evalAll_nil]
  unfold TraceDb.seen
  rw [List.filter_eq_self.mpr (fun a _ => this a)]

theorem evalB_window (o : Oracles) (env : Env) (c : Ctx) (a : AttrRow) :
    evalB o env a.qrow (windowE c) = admissible c a := by
  simp only [windowE, evalB_and, evalAll_cons, evalAll_nil, Bool.and_true, admissible]
  have h1 : evalB o env a.qrow (ge (.raw "date") (.str (dateFrom c))) = decide (dateFrom c ≤ a.date) := by
    simp [evalB, ge, evalE, cmpOp, qrow_date, Val.cmpLe]
  have h2 : evalB o env a.qrow (le (.raw "date") (.str (dateTo c))) = decide (a.date ≤ dateTo c) := by
    simp [evalB, le, evalE, cmpOp, qrow_date, Val.cmpLe]
  have h3 : evalB o env a.qrow (ge (.raw "traces_idx.timestamp_ns") (.int c.fromNs)) = decide (c.fromNs ≤ a.ts) := by
    simp [evalB, ge, evalE, cmpOp, qrow_qts, Val.cmpLe]
  have h4 : evalB o env a.qrow (lt (.raw "traces_idx.timestamp_ns") (.int c.toNs)) = decide (a.ts < c.toNs) := by
    simp [evalB, lt, evalE, cmpOp, qrow_qts, Val.cmpLt]
  rw [h1, h2, h3, h4]
  simp [Bool.and_assoc]

def keyV (k : SpanKey) : List Val := [.str k.1, .str k.2]

theorem keyV_inj (a b : SpanKey) (h : keyV a = keyV b) : a = b := by
  obtain ⟨a1, a2⟩ := a; obtain ⟨b1, b2⟩ := b
  simp [keyV] at h
  simp [h]

/-- an index row passes WHERE: inside the window and one of the disjuncts holds -/
def rowOk (o : Oracles) (env : Env) (c : Ctx) (wh : List Expr) (a : AttrRow) : Bool :=
  admissible c a && evalAny o env a.qrow wh

theorem evalB_idxWhere (o : Oracles) (env : Env) (c : Ctx) (wh : List Expr) (a : AttrRow) :
    evalB o env a.qrow (.logical "and" ([windowE c, or_ wh] ++ randomFilter c)) = (portionOk o c a && rowOk o env c wh a) := by
  have := evalB_and o env a.qrow ([windowE c, or_ wh] ++ randomFilter c)
  simp only [and_] at this
  rw [this]
  simp only [List.cons_append, List.nil_append, evalAll_cons, evalB_window, evalB_or, rowOk, portionOk,
    evalAll_randomFilter_env o env c a.qrow]
  cases admissible c a <;> cases evalAny o env a.qrow wh <;> simp

/-- the index rows of span `k` that pass WHERE, as SQL rows -/
def grpA (o : Oracles) (env : Env) (c : Ctx) (d : TraceDb) (wh : List Expr) (k : SpanKey) : List Row :=
  ((d.attrs.filter (rowOk o env c wh)).filter (fun a => a.span == k)).map AttrRow.qrow

theorem mapOk_spec {α β} (f : α → PlanM β) : ∀ (l : List α) (ys : List β), mapOk f l = .ok ys →
    ys.length = l.length ∧ ∀ (i : Nat) (x : α), l[i]? = some x → ∃ y, ys[i]? = some y ∧ f x = .ok y
  | [], ys, h => by simp [mapOk] at h; subst h; simp
  | x :: xs, ys, h => by
    simp only [mapOk] at h
    cases hx : f x with
    | error e => simp [hx] at h
    | ok y =>
      cases hxs : mapOk f xs with
      | error e => simp [hx, hxs] at h
      | ok ys' =>
        simp [hx, hxs] at h
        subst h
        obtain ⟨hl, hi⟩ := mapOk_spec f xs ys' hxs
        refine ⟨by simp [hl], ?_⟩
        intro i z hz
        cases i with
        | zero => simp at hz; subst hz; exact ⟨y, by simp, hx⟩
        | succ i => simp at hz; simpa using hi i z hz

theorem evalAny_of_mem (o : Oracles) (env : Env) (r : Row) (e : Expr) (l : List Expr) (hm : e ∈ l)
    (he : evalB o env r e = true) : evalAny o env r l = true := by
  induction l with
  | nil => simp at hm
  | cons x xs ih =>
    rw [evalAny_cons]
    rcases List.mem_cons.mp hm with h | h
    · subst h; simp [he]
    · simp [ih h]

/-- bit `i` of the span's bit set: the span has an index row inside the window witnessing condition `i` -/
theorem bit_grpA (o : Oracles) (env : Env) (c : Ctx) (d : TraceDb) (terms : List Term) (es wh : List Expr)
    (hm : mapOk termSql terms = .ok es) (hsub : ∀ e ∈ es, e ∈ wh) (k : SpanKey) (i : Nat) (hi : i < 64) :
    (groupOr ((grpA o env c d wh k).map (fun r => es.map (evalB o env r)))).testBit i =
      ((terms[i]?).map (spanTerm o c d k)).getD false := by
  obtain ⟨hl, hix⟩ := mapOk_spec termSql terms es hm
  rw [testBit_groupOr _ _ hi]
  simp only [grpA, List.any_map, List.any_filter, Function.comp_def]
  cases ht : terms[i]? with
  | none =>
    have : es[i]? = none := by
      rw [List.getElem?_eq_none_iff] at ht ⊢; omega
    simp [this]
  | some t =>
    obtain ⟨e, he, hte⟩ := hix i t ht
    simp only [Option.map_some, Option.getD_some, spanTerm]
    apply congrArg
    funext a
    have hget : (es.map (evalB o env a.qrow)).getD i false = termHolds o t a := by
      simp [List.getD_eq_getElem?_getD, he, termSql_correct o env t e hte a]
    simp only [List.getD_eq_getElem?_getD] at hget
    simp only [List.getD_eq_getElem?_getD, hget]
    cases hth : termHolds o t a with
    | false => simp
    | true =>
      have hw : evalAny o env a.qrow wh = true :=
        evalAny_of_mem o env a.qrow e wh (hsub e (List.mem_of_getElem? he))
          (by rw [termSql_correct o env t e hte a]; exact hth)
      simp [rowOk, hw, Bool.and_comm]

/-- **HAVING of the index scan**: a span's group passes iff the selector's boolean combination holds of the span -/
theorem having_grpA (o : Oracles) (ao : AggOracles) (env : Env) (c : Ctx) (d : TraceDb) (e : AttrExp) (es wh : List Expr)
    (hinj : KeyInj (termsOf e)) (hm : mapOk termSql (analyzeCond [] e).1 = .ok es) (hsub : ∀ x ∈ es, x ∈ wh)
    (h64 : (analyzeCond [] e).1.length ≤ 64) (k : SpanKey) :
    havingG o ao env (grpA o env c d wh k) (some (and_ [(condSql es false (analyzeCond [] e).2).1])) =
      spanHolds o c d e k := by
  obtain ⟨extra, h1, _, h3, h4⟩ := analyzeCond_spec (spanTerm o c d k) e [] (by simpa using hinj)
  simp only [List.nil_append] at h1 h3 h4
  have hb : (analyzeCond [] e).2.bounded 64 := Cond.bounded_mono (by rw [← h1]; exact h64) _ h3
  have hfb : findBitSet (and_ [(condSql es false (analyzeCond [] e).2).1]) = some es := by
    simp [and_, findBitSet, findBitSetL, findBitSet_condSql]
  simp only [havingG, bitSetOf, hfb, evalHavG_and, evalHavAllG, Bool.and_true]
  rw [evalHavG_condSql o ao env _ es _ false _ hb]
  rw [Cond.eval_congr (n := extra.length) _ (fun i => (((analyzeCond [] e).1[i]?).map (spanTerm o c d k)).getD false) ?_ _ h3]
  · have := h4 []
    simp only [List.append_nil] at this
    rw [h1]; exact this
  · intro i hi
    have hi64 : i < 64 := by rw [h1] at h64; omega
    exact bit_grpA o env c d _ es wh hm hsub k i hi64

theorem source_idx (o : Oracles) (ao : AggOracles) (c : Ctx) (d : TraceDb) (env : Env) :
    sourceRowsG o ao (d.toDb c) env (.col (.raw c.attrsTable) "traces_idx") = d.attrs.map AttrRow.qrow := by
  simp [sourceRowsG, TraceDb.toDb, List.map_map, Function.comp_def, AttrRow.qrow]

theorem keyOf_qrow (o : Oracles) (env : Env) (a : AttrRow) :
    [Expr.raw "trace_id", Expr.raw "span_id"].map (fun k => evalE o env a.qrow k) = keyV a.span := by
  simp [evalE, qrow_trace, qrow_span, keyV, AttrRow.span]

/-- the groups of the index scan, up to order: one per span having a row that passes WHERE, kept by HAVING -/
theorem idx_groups (o : Oracles) (ao : AggOracles) (env : Env) (c : Ctx) (d : TraceDb) (wh : List Expr)
    (H : Option Expr) (cols ob : List Expr) :
    (groupsG o ao (d.toDb c) env (.col (.raw c.attrsTable) "traces_idx") (some (.logical "and" ([windowE c, or_ wh] ++ randomFilter c)))
        [.raw "trace_id", .raw "span_id"] H cols ob none).Perm
      (((dedup (((d.seen o c).attrs.filter (rowOk o env c wh)).map AttrRow.span)).filter
          (fun k => havingG o ao env (grpA o env c (d.seen o c) wh k) H)).map (grpA o env c (d.seen o c) wh)) := by
  unfold groupsG
  simp only [source_idx, limitG]
  have hf : (d.attrs.map AttrRow.qrow).filter (fun r => optB o env r (some (.logical "and" ([windowE c, or_ wh] ++ randomFilter c)))) =
      ((d.seen o c).attrs.filter (rowOk o env c wh)).map AttrRow.qrow := by
    rw [List.filter_map]
    congr 1
    simp only [TraceDb.seen, List.filter_filter]
    apply List.filter_congr
    intro a _
    have := evalB_idxWhere o env c wh a
    simp only [List.cons_append, List.nil_append] at this
    simp [optB, this, Bool.and_comm]
  rw [hf]
  have hg := groups_of_records ((d.seen o c).attrs.filter (rowOk o env c wh)) AttrRow.qrow AttrRow.span keyV
    (fun r => [Expr.raw "trace_id", Expr.raw "span_id"].map (fun k => evalE o env r k)) (keyOf_qrow o env) keyV_inj
  rw [hg, List.filter_map]
  have hk : ∀ (l : List (List Row)), (if ob.isEmpty = true then l else sortBy (grpLe o env cols ob) l).Perm l := by
    intro l; split
    · exact List.Perm.refl _
    · exact ListAux.sortBy_perm _ _
  refine (hk _).trans ?_
  exact List.Perm.refl _

theorem Cond.eval_true_leaf (f : Nat → Bool) : ∀ c : Cond, c.eval f = true → ∃ i, f i = true
  | .leaf i, h => ⟨i, by simpa [Cond.eval] using h⟩
  | .node op l r, h => by
    cases op <;> simp only [Cond.eval, bop, Bool.and_eq_true, Bool.or_eq_true] at h
    · exact Cond.eval_true_leaf f l h.1
    · rcases h with h | h
      · exact Cond.eval_true_leaf f l h
      · exact Cond.eval_true_leaf f r h
    · rcases h with h | h
      · exact Cond.eval_true_leaf f l h
      · exact Cond.eval_true_leaf f r h

/-- a span on which the selector holds has an index row that passes WHERE -/
theorem spanHolds_rowOk (o : Oracles) (env : Env) (c : Ctx) (d : TraceDb) (e : AttrExp) (es wh : List Expr)
    (hinj : KeyInj (termsOf e)) (hm : mapOk termSql (analyzeCond [] e).1 = .ok es) (hsub : ∀ x ∈ es, x ∈ wh)
    (k : SpanKey) (h : spanHolds o c d e k = true) :
    ∃ a ∈ d.attrs, a.span = k ∧ rowOk o env c wh a = true := by
  obtain ⟨extra, h1, _, _, h4⟩ := analyzeCond_spec (spanTerm o c d k) e [] (by simpa using hinj)
  have h4' := h4 []
  simp only [List.nil_append, List.append_nil] at h1 h4'
  unfold spanHolds at h
  rw [← h4'] at h
  obtain ⟨i, hi⟩ := Cond.eval_true_leaf _ _ h
  cases ht : extra[i]? with
  | none => simp [ht] at hi
  | some t =>
    simp only [ht, Option.map_some, Option.getD_some, spanTerm, List.any_eq_true, Bool.and_eq_true] at hi
    obtain ⟨a, ha, ⟨hsp, hadm⟩, hth⟩ := hi
    obtain ⟨_, hix⟩ := mapOk_spec termSql _ es hm
    obtain ⟨x, hx, htx⟩ := hix i t (by rw [h1]; exact ht)
    refine ⟨a, ha, by simpa using hsp, ?_⟩
    simp only [rowOk, hadm, Bool.true_and]
    exact evalAny_of_mem o env a.qrow x wh (hsub x (List.mem_of_getElem? hx))
      (by rw [termSql_correct o env t x htx a]; exact hth)

theorem rowOk_admissible (o : Oracles) (env : Env) (c : Ctx) (wh : List Expr) (a : AttrRow)
    (h : rowOk o env c wh a = true) : admissible c a = true := by
  simp only [rowOk, Bool.and_eq_true] at h; exact h.1

/-- the spans the index scan keeps are the spans of the window on which the selector holds -/
theorem idx_keys_perm (o : Oracles) (ao : AggOracles) (env : Env) (c : Ctx) (d : TraceDb) (e : AttrExp) (es wh : List Expr)
    (hinj : KeyInj (termsOf e)) (hm : mapOk termSql (analyzeCond [] e).1 = .ok es) (hsub : ∀ x ∈ es, x ∈ wh)
    (h64 : (analyzeCond [] e).1.length ≤ 64) :
    ((dedup ((d.attrs.filter (rowOk o env c wh)).map AttrRow.span)).filter
        (fun k => havingG o ao env (grpA o env c d wh k) (some (and_ [(condSql es false (analyzeCond [] e).2).1])))).Perm
      ((spans c d).filter (spanHolds o c d e)) := by
  have hh : ∀ k, havingG o ao env (grpA o env c d wh k) (some (and_ [(condSql es false (analyzeCond [] e).2).1])) =
      spanHolds o c d e k := having_grpA o ao env c d e es wh hinj hm hsub h64
  simp only [hh]
  rw [List.perm_ext_iff_of_nodup]
  · intro k
    simp only [List.mem_filter, mem_dedup, List.mem_map, spans]
    constructor
    · rintro ⟨⟨a, ⟨ha, hok⟩, hk⟩, hs⟩
      exact ⟨⟨a, ⟨ha, rowOk_admissible o env c wh a hok⟩, hk⟩, hs⟩
    · rintro ⟨_, hs⟩
      obtain ⟨a, ha, hk, hok⟩ := spanHolds_rowOk o env c d e es wh hinj hm hsub k hs
      exact ⟨⟨a, ⟨ha, hok⟩, hk⟩, hs⟩
  · exact List.Nodup.sublist List.filter_sublist (nodup_dedup _)
  · exact List.Nodup.sublist List.filter_sublist (nodup_dedup _)

/-- the row the index scan returns for span `k` -/
def rowA (o : Oracles) (env : Env) (c : Ctx) (d : TraceDb) (wh : List Expr) (aggAttr : String) (k : SpanKey) : Row :=
  projG o env (idxCols ++ aggCol aggAttr) (grpA o env c d wh k)

/-- **stage A**: the index scan returns, up to order, one row per span of the window on which the selector holds -/
theorem stageA_perm (o : Oracles) (ao : AggOracles) (c : Ctx) (d : TraceDb) (own : Bool) (env0 : Env) (e : AttrExp)
    (es : List Expr) (aggAttr : String) (hinj : KeyInj (termsOf e))
    (hm : mapOk termSql (analyzeCond [] e).1 = .ok es) (h64 : (analyzeCond [] e).1.length ≤ 64) :
    (evalSelG o ao (d.toDb c) own env0 (idxSel c es (analyzeCond [] e).2 aggAttr)).Perm
      (((spans c (d.seen o c)).filter (spanHolds o c (d.seen o c) e)).map (rowA o env0 c (d.seen o c) (es ++ aggWhere aggAttr) aggAttr)) := by
  unfold idxSel
  rw [evalSelG_grouped]
  have henv : (if own = true then evalWithsG o ao (d.toDb c) env0 [] else env0) = env0 := by
    cases own <;> simp [evalWithsG]
  rw [henv]
  have hsub : ∀ x ∈ es, x ∈ es ++ aggWhere aggAttr := fun x hx => List.mem_append_left _ hx
  have h1 := idx_groups o ao env0 c d (es ++ aggWhere aggAttr) (some (and_ [(condSql es false (analyzeCond [] e).2).1]))
    (idxCols ++ aggCol aggAttr) [.orderBy (.raw "timestamp_ns") .desc]
  have h2 := idx_keys_perm o ao env0 c (d.seen o c) e es (es ++ aggWhere aggAttr) hinj hm hsub h64
  have h3 := (h1.trans (h2.map _)).map (projG o env0 (idxCols ++ aggCol aggAttr))
  simp only [List.map_map, Function.comp_def] at h3
  exact h3

theorem grpA_mem (o : Oracles) (env : Env) (c : Ctx) (d : TraceDb) (wh : List Expr) (k : SpanKey) (r : Row)
    (h : r ∈ grpA o env c d wh k) : ∃ a ∈ d.attrs, r = a.qrow ∧ a.span = k ∧ rowOk o env c wh a = true := by
  simp only [grpA, List.mem_map, List.mem_filter] at h
  obtain ⟨a, ⟨⟨ha, hok⟩, hk⟩, rfl⟩ := h
  exact ⟨a, ha, rfl, by simpa using hk, hok⟩

theorem grpA_ne_nil (o : Oracles) (env : Env) (c : Ctx) (d : TraceDb) (wh : List Expr) (k : SpanKey)
    (a : AttrRow) (ha : a ∈ d.attrs) (hk : a.span = k) (hok : rowOk o env c wh a = true) : grpA o env c d wh k ≠ [] := by
  intro h
  have : a.qrow ∈ grpA o env c d wh k := by
    simp only [grpA, List.mem_map, List.mem_filter]
    exact ⟨a, ⟨⟨ha, hok⟩, by simpa using hk⟩, rfl⟩
  rw [h] at this; simp at this

theorem rowA_trace (o : Oracles) (env : Env) (c : Ctx) (d : TraceDb) (wh : List Expr) (aggAttr : String) (k : SpanKey)
    (hne : grpA o env c d wh k ≠ []) : (rowA o env c d wh aggAttr k).get "trace_id" = .str k.1 := by
  cases hg : grpA o env c d wh k with
  | nil => exact absurd hg hne
  | cons r rest =>
    obtain ⟨a, _, rfl, hk, _⟩ := grpA_mem o env c d wh k r (by rw [hg]; simp)
    subst hk
    simp [rowA, projG, idxCols, simpleCol, colName, Row.get, List.lookup, evalGrp, evalE]
    rw [hg]
    exact qrow_trace a

theorem rowA_span (o : Oracles) (env : Env) (c : Ctx) (d : TraceDb) (wh : List Expr) (aggAttr : String) (k : SpanKey)
    (hne : grpA o env c d wh k ≠ []) : (rowA o env c d wh aggAttr k).get "span_id" = .str k.2 := by
  cases hg : grpA o env c d wh k with
  | nil => exact absurd hg hne
  | cons r rest =>
    obtain ⟨a, _, rfl, hk, _⟩ := grpA_mem o env c d wh k r (by rw [hg]; simp)
    subst hk
    simp [rowA, projG, idxCols, simpleCol, colName, Row.get, List.lookup, evalGrp, evalE]
    rw [hg]
    exact qrow_span a

end Qryn.TraceQL
