import Qryn.Read.JsonPathSyntax
/-! `Read.parsePath` against the grammar of path_parser.go (`Path = Part+`,
    `Part = "."? Ident | "[" (String | RawString) "]" | "[" Int "]"`): the token-level parser `pparts` accepts exactly the
    token lists the grammar derives, with the typed path the grammar's `ToPathPart` gives; and every typed path of the
    fragment has a text (`printPath`) that `parsePath` reads back. Core only. -/
namespace Qryn.Read
open Qryn

/-- the participle grammar `Path = Part+` as a derivation relation on tokens: which typed path a token list denotes -/
inductive Parts : List PTok → List PathSeg → Prop
  | nil : Parts [] []
  | dotIdent (s : Bytes) {ts : List PTok} {p : List PathSeg} : Parts ts p → Parts (.dot :: .ident s :: ts) (.key s :: p)
  | ident (s : Bytes) {ts : List PTok} {p : List PathSeg} : Parts ts p → Parts (.ident s :: ts) (.key s :: p)
  | field (s : Bytes) {ts : List PTok} {p : List PathSeg} : Parts ts p → Parts (.lbr :: .str s :: .rbr :: ts) (.key s :: p)
  | index (n : Nat) {ts : List PTok} {p : List PathSeg} : Parts ts p → Parts (.lbr :: .int n :: .rbr :: ts) (.idx n :: p)

theorem pparts_sound : ∀ (n : Nat) (ts : List PTok), ts.length ≤ n → ∀ (acc q : List PathSeg), pparts ts acc = some q →
    ∃ p, Parts ts p ∧ q = acc.reverse ++ p ∧ q ≠ [] := by
  intro n
  induction n with
  | zero =>
    intro ts hl acc q h
    have : ts = [] := List.length_eq_zero_iff.mp (by omega)
    subst this
    unfold pparts at h
    by_cases he : acc.isEmpty = true
    · simp [he] at h
    · simp only [he, Bool.false_eq_true, if_false, Option.some.injEq] at h
      subst h
      exact ⟨[], .nil, by simp, by simpa using he⟩
  | succ n ih =>
    intro ts hl acc q h
    unfold pparts at h
    split at h
    · by_cases he : acc.isEmpty = true
      · simp [he] at h
      · simp only [he, Bool.false_eq_true, if_false, Option.some.injEq] at h
        subst h
        exact ⟨[], .nil, by simp, by simpa using he⟩
    · rename_i s rest
      obtain ⟨p, hp, hq, hne⟩ := ih rest (by simp at hl; omega) _ q h
      exact ⟨.key s :: p, .dotIdent s hp, by simp [hq], hne⟩
    · rename_i s rest
      obtain ⟨p, hp, hq, hne⟩ := ih rest (by simp at hl; omega) _ q h
      exact ⟨.key s :: p, .ident s hp, by simp [hq], hne⟩
    · rename_i s rest
      obtain ⟨p, hp, hq, hne⟩ := ih rest (by simp at hl; omega) _ q h
      exact ⟨.key s :: p, .field s hp, by simp [hq], hne⟩
    · rename_i m rest
      obtain ⟨p, hp, hq, hne⟩ := ih rest (by simp at hl; omega) _ q h
      exact ⟨.idx m :: p, .index m hp, by simp [hq], hne⟩
    · cases h

theorem pparts_complete (ts : List PTok) (p : List PathSeg) (hp : Parts ts p) (acc : List PathSeg)
    (hne : acc.reverse ++ p ≠ []) : pparts ts acc = some (acc.reverse ++ p) := by
  induction hp generalizing acc with
  | nil =>
    have : acc ≠ [] := by intro e; subst e; simp at hne
    simp [pparts, this]
  | dotIdent s _ ih =>
    rw [pparts]
    have := ih (.key s :: acc) (by simp)
    simpa using this
  | ident s _ ih =>
    rw [pparts]
    have := ih (.key s :: acc) (by simp)
    simpa using this
  | field s _ ih =>
    rw [pparts]
    have := ih (.key s :: acc) (by simp)
    simpa using this
  | index n _ ih =>
    rw [pparts]
    have := ih (.idx n :: acc) (by simp)
    simpa using this

/-- **exact characterisation of the token-level parser**: it accepts exactly the non-empty derivations of `Part+` and
    returns the path the derivation denotes (the grammar is unambiguous: the answer is a function of the tokens) -/
theorem pparts_iff (ts : List PTok) (q : List PathSeg) : pparts ts [] = some q ↔ (Parts ts q ∧ q ≠ []) := by
  constructor
  · intro h
    obtain ⟨p, hp, hq, hne⟩ := pparts_sound ts.length ts (Nat.le_refl _) [] q h
    simp only [List.reverse_nil, List.nil_append] at hq
    subst hq
    exact ⟨hp, hne⟩
  · rintro ⟨hp, hne⟩
    have := pparts_complete ts q hp [] (by simpa using hne)
    simpa using this

/-! ### every typed path has a text that `parsePath` reads back -/
/-- decimal digits of `n` (fuel > n suffices) -/
def decAux : Nat → Nat → Bytes
  | 0, _ => []
  | f + 1, n => if n < 10 then [UInt8.ofNat (48 + n)] else decAux f (n / 10) ++ [UInt8.ofNat (48 + n % 10)]

def decText (n : Nat) : Bytes := decAux (n + 1) n

/-- the bracket spelling of a path element: `["key"]`, `[index]` -/
def printSeg : PathSeg → Bytes
  | .key k => [91, 34] ++ k ++ [34, 93]
  | .idx n => [91] ++ decText n ++ [93]

def printPath (p : List PathSeg) : Bytes := p.flatMap printSeg

def toksOf : PathSeg → List PTok
  | .key k => [.lbr, .str k, .rbr]
  | .idx n => [.lbr, .int n, .rbr]

/-- keys the fragment can spell between double quotes: printable ASCII without `"`, `\`, `` ` `` -/
def KeyOk (k : Bytes) : Prop := k.all (fun x => 32 ≤ x && x < 127 && x != 92 && x != 34 && x != 96) = true

def SegOk : PathSeg → Prop
  | .key k => KeyOk k
  | .idx n => n < 10 ^ 18

def digitVal (a : Nat) (d : UInt8) : Nat := a * 10 + (d.toNat - 48)

theorem digit_facts (m : Nat) (hm : m < 10) :
    isDigit (UInt8.ofNat (48 + m)) = true ∧ (UInt8.ofNat (48 + m)).toNat - 48 = m ∧
    ((UInt8.ofNat (48 + m) == 48) = true → m = 0) := by
  have : m = 0 ∨ m = 1 ∨ m = 2 ∨ m = 3 ∨ m = 4 ∨ m = 5 ∨ m = 6 ∨ m = 7 ∨ m = 8 ∨ m = 9 := by omega
  rcases this with h | h | h | h | h | h | h | h | h | h <;> subst h <;> decide

theorem decAux_spec : ∀ (f n : Nat), n < f →
    (decAux f n ≠ []) ∧ ((decAux f n).all isDigit = true) ∧ ((decAux f n).foldl digitVal 0 = n) ∧
    (∀ k, n < 10 ^ k → 0 < k → (decAux f n).length ≤ k) ∧
    (∀ c rest, decAux f n = c :: rest → (c == 48) = true → rest = []) := by
  intro f
  induction f with
  | zero => intro n h; omega
  | succ f ih =>
    intro n hn
    unfold decAux
    by_cases h10 : n < 10
    · obtain ⟨d1, d2, d3⟩ := digit_facts n h10
      simp only [h10, if_true]
      refine ⟨List.cons_ne_nil _ _, by rw [List.all_cons, List.all_nil, d1]; rfl,
        by show digitVal 0 _ = n; unfold digitVal; rw [d2]; omega, ?_, ?_⟩
      · intro k _ hk
        show 1 ≤ k
        omega
      · intro c rest h _
        simp only [List.cons.injEq] at h
        exact h.2.symm
    · simp only [h10, if_false]
      have hlt : n / 10 < f := by omega
      obtain ⟨i1, i2, i3, i4, i5⟩ := ih (n / 10) hlt
      obtain ⟨d1, d2, _⟩ := digit_facts (n % 10) (Nat.mod_lt _ (by decide))
      refine ⟨by intro h; exact i1 (List.append_eq_nil_iff.mp h).1,
        by rw [List.all_append, i2, List.all_cons, List.all_nil, d1]; rfl, ?_, ?_, ?_⟩
      · rw [List.foldl_append, i3]
        show digitVal (n / 10) _ = n
        unfold digitVal
        rw [d2]
        omega
      · intro k hk hk0
        rw [List.length_append]
        simp only [List.length_cons, List.length_nil]
        cases k with
        | zero => omega
        | succ k =>
          have : n / 10 < 10 ^ k := by
            rw [Nat.pow_succ] at hk
            exact Nat.div_lt_of_lt_mul (by omega)
          have hk' : 0 < k := by
            cases k with
            | zero => simp at this; omega
            | succ _ => omega
          have := i4 k this hk'
          omega
      · intro c rest h hc
        -- the leading digit of a number ≥ 10 is not 0
        cases hd : decAux f (n / 10) with
        | nil => exact absurd hd i1
        | cons c' rest' =>
          rw [hd] at h
          simp only [List.cons_append, List.cons.injEq] at h
          have hc' : (c' == 48) = true := by rw [h.1]; exact hc
          have hr := i5 c' rest' hd hc'
          subst hr
          rw [hd] at i3
          simp only [List.foldl_cons, List.foldl_nil, digitVal] at i3
          have : c'.toNat = 48 := by
            have := hc'
            simp only [beq_iff_eq] at this
            rw [this]; rfl
          omega

theorem takeWhile_append_stop {α : Type} (p : α → Bool) (a : List α) (x : α) (rest : List α) (ha : a.all p = true) (hx : p x = false) :
    (a ++ x :: rest).takeWhile p = a ∧ (a ++ x :: rest).dropWhile p = x :: rest := by
  induction a with
  | nil => simp [List.takeWhile, List.dropWhile, hx]
  | cons y ys ih =>
    simp only [List.all_cons, Bool.and_eq_true] at ha
    obtain ⟨i1, i2⟩ := ih ha.2
    simp [List.takeWhile, List.dropWhile, ha.1, i1, i2]

/-- the tokens of one printed element followed by anything that starts a new token -/
theorem ptoks_seg (s : PathSeg) (hs : SegOk s) (rest : Bytes) (fuel : Nat) (hf : (printSeg s ++ rest).length ≤ fuel) :
    ptoks fuel (printSeg s ++ rest) = (ptoks (fuel - 3) rest).map (toksOf s ++ ·) := by
  cases s with
  | key k =>
    simp only [printSeg, List.append_assoc, List.cons_append, List.nil_append, List.length_cons, List.length_append] at hf ⊢
    obtain ⟨f3, rfl⟩ : ∃ f3, fuel = f3 + 3 := ⟨fuel - 3, by omega⟩
    have hk : k.all (fun x => x != 34) = true := by
      apply List.all_eq_true.mpr
      intro x hx
      have := List.all_eq_true.mp hs x hx
      simp only [Bool.and_eq_true] at this
      exact this.1.2
    obtain ⟨t1, t2⟩ := takeWhile_append_stop (fun x : UInt8 => x != 34) k 34 (93 :: rest) hk (by decide)
    have hlbr : ∀ (cs : Bytes) (f : Nat), ptoks (f + 1) (91 :: cs) = (ptoks f cs).map (PTok.lbr :: ·) := by
      intro cs f; simp [ptoks, isBlank, isIdStart, isDigit]
    have hrbr : ∀ (cs : Bytes) (f : Nat), ptoks (f + 1) (93 :: cs) = (ptoks f cs).map (PTok.rbr :: ·) := by
      intro cs f; simp [ptoks, isBlank, isIdStart, isDigit]
    rw [show f3 + 3 = (f3 + 2) + 1 from rfl, hlbr]
    have hq : ptoks (f3 + 1 + 1) (34 :: (k ++ 34 :: 93 :: rest)) = (ptoks f3 rest).map (fun x => PTok.str k :: PTok.rbr :: x) := by
      have hall : k.all (fun x => 32 ≤ x && x < 127 && x != 92 && x != 34 && x != 96) = true := hs
      have h1 : ptoks (f3 + 1 + 1) (34 :: (k ++ 34 :: 93 :: rest)) = (ptoks (f3 + 1) (93 :: rest)).map (PTok.str k :: ·) := by
        simp only [ptoks]
        simp [isBlank, isIdStart, isDigit, t1, t2, hall]
        rw [hrbr, Option.map_map]
      rw [h1, hrbr, Option.map_map]
      rfl
    rw [show f3 + 2 = f3 + 1 + 1 from rfl, hq, Option.map_map]
    have hsub : f3 + 1 + 1 + 1 - 3 = f3 := by omega
    rw [hsub]
    rfl
  | idx n =>
    simp only [printSeg, List.append_assoc, List.cons_append, List.nil_append, List.length_cons, List.length_append] at hf ⊢
    obtain ⟨e1, e2, e3, e4, e5⟩ := decAux_spec (n + 1) n (by omega)
    have hlen : (decText n).length ≤ 18 := e4 18 hs (by decide)
    cases hd : decText n with
    | nil => exact absurd hd e1
    | cons c ds =>
      have hd' : decAux (n + 1) n = c :: ds := hd
      rw [hd'] at e2 e3 e5
      rw [hd] at hlen hf
      simp only [List.all_cons, Bool.and_eq_true] at e2
      obtain ⟨f3, rfl⟩ : ∃ f3, fuel = f3 + 3 := ⟨fuel - 3, by simp at hf; omega⟩
      obtain ⟨t1, t2⟩ := takeWhile_append_stop isDigit ds 93 rest e2.2 (by decide)
      have hlbr : ∀ (cs : Bytes) (f : Nat), ptoks (f + 1) (91 :: cs) = (ptoks f cs).map (PTok.lbr :: ·) := by
        intro cs f; simp [ptoks, isBlank, isIdStart, isDigit]
      have hrbr : ∀ (cs : Bytes) (f : Nat), ptoks (f + 1) (93 :: cs) = (ptoks f cs).map (PTok.rbr :: ·) := by
        intro cs f; simp [ptoks, isBlank, isIdStart, isDigit]
      have hnb : isBlank c = false := by
        have := e2.1
        simp only [isDigit, Bool.and_eq_true, decide_eq_true_eq] at this
        simp only [isBlank]
        apply Bool.eq_false_iff.mpr
        intro h
        simp only [Bool.or_eq_true, beq_iff_eq] at h
        rcases h with ((h | h) | h) | h <;> subst h <;> revert this <;> decide
      have hni : isIdStart c = false := by
        have := e2.1
        simp only [isDigit, Bool.and_eq_true, decide_eq_true_eq] at this
        obtain ⟨l, u⟩ := this
        simp only [isIdStart]
        apply Bool.eq_false_iff.mpr
        intro h
        simp only [Bool.or_eq_true, Bool.and_eq_true, decide_eq_true_eq, beq_iff_eq] at h
        have hu : c.toNat ≤ 57 := by simpa using UInt8.le_iff_toNat_le.mp u
        rcases h with (⟨h1, _⟩ | ⟨h1, _⟩) | h1
        · have : (97 : UInt8).toNat ≤ c.toNat := UInt8.le_iff_toNat_le.mp h1
          simp at this; omega
        · have : (65 : UInt8).toNat ≤ c.toNat := UInt8.le_iff_toNat_le.mp h1
          simp at this; omega
        · subst h1; simp at hu
      have hzero : ¬ ((c == 48) = true ∧ (c :: ds).length > 1) := by
        rintro ⟨hc, hl⟩
        have := e5 c ds rfl hc
        subst this
        simp at hl
      have hnum : ptoks (f3 + 1 + 1) (c :: (ds ++ 93 :: rest)) = (ptoks (f3 + 1) (93 :: rest)).map (PTok.int n :: ·) := by
        simp only [ptoks, hnb, hni, e2.1, Bool.false_eq_true, if_false, if_true, t1, t2]
        have hcond : ((c == 48 && decide ((c :: ds).length > 1)) || decide ((c :: ds).length > 18)) = false := by
          apply Bool.eq_false_iff.mpr
          intro h
          simp only [Bool.or_eq_true, Bool.and_eq_true, decide_eq_true_eq] at h
          rcases h with h | h
          · exact hzero h
          · omega
        simp only [hcond, Bool.false_eq_true, if_false]
        have h93 : (isLabelChar 93 || (93 : UInt8) == 46) = false := by decide
        simp only [h93, Bool.false_eq_true, if_false]
        have : (c :: ds).foldl (fun n d => n * 10 + (d.toNat - 48)) 0 = n := e3
        rw [this]
      rw [show f3 + 3 = (f3 + 2) + 1 from rfl, hlbr, show f3 + 2 = f3 + 1 + 1 from rfl, List.cons_append, hnum, hrbr,
        Option.map_map, Option.map_map]
      have hsub : f3 + 1 + 1 + 1 - 3 = f3 := by omega
      rw [hsub]
      rfl

theorem printSeg_length (s : PathSeg) : 3 ≤ (printSeg s).length := by
  cases s with
  | key k => simp [printSeg]
  | idx n =>
    have := (decAux_spec (n + 1) n (by omega)).1
    simp only [printSeg, List.length_append, List.length_cons, List.length_nil]
    have : 0 < (decText n).length := List.length_pos_iff.mpr this
    omega

theorem ptoks_print (p : List PathSeg) (hp : ∀ s ∈ p, SegOk s) (fuel : Nat) (hf : (printPath p).length ≤ fuel) :
    ptoks fuel (printPath p) = some (p.flatMap toksOf) := by
  induction p generalizing fuel with
  | nil => cases fuel <;> rfl
  | cons s rest ih =>
    simp only [printPath, List.flatMap_cons] at hf ⊢
    rw [ptoks_seg s (hp s List.mem_cons_self) _ fuel hf]
    have h3 := printSeg_length s
    rw [List.length_append] at hf
    have := ih (fun t ht => hp t (List.mem_cons_of_mem _ ht)) (fuel - 3) (by simp only [printPath]; omega)
    simp only [printPath] at this
    rw [this]
    rfl

theorem parts_toks (p : List PathSeg) : Parts (p.flatMap toksOf) p := by
  induction p with
  | nil => exact .nil
  | cons s rest ih =>
    cases s with
    | key k => exact .field k ih
    | idx n => exact .index n ih

/-- **round trip**: every non-empty typed path whose keys are printable ASCII without quote / backslash / backquote and
    whose indexes are below 10¹⁸ is written by the parameter text `printPath p` (`["key"][index]…`), and
    `JsonPathParamToTypedArray` as modelled reads exactly that path back — the model's parser is onto the typed paths of
    the fragment and `printPath` is a right inverse -/
theorem parsePath_printPath (p : List PathSeg) (hne : p ≠ []) (hp : ∀ s ∈ p, SegOk s) :
    parsePath (printPath p) = .ok p := by
  simp only [parsePath, ptoks_print p hp _ (Nat.le_refl _)]
  rw [(pparts_iff _ p).mpr ⟨parts_toks p, hne⟩]

end Qryn.Read
