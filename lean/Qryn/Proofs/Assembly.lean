import Qryn.Read.Assembly
import Qryn.Proofs.Cursor
/-! Lemmas about the row loop of `Select`: loop invariant, preservation of the row sequence, strict
    ascent of the series fingerprints when the rows arrive ordered by fingerprint. -/
namespace Qryn.Read.Assembly
open Qryn.Read.Cursor

/-- `ORDER BY fingerprint ASC, timestamp ASC` -/
def RowLe (a b : Row) : Prop := a.fp < b.fp ∨ (a.fp = b.fp ∧ a.ts ≤ b.ts)
def SortedRows (rows : List Row) : Prop := rows.Pairwise RowLe
/-- the part of the order the grouping depends on: fingerprints ascending -/
def Grouped (rows : List Row) : Prop := rows.Pairwise (fun a b => a.fp ≤ b.fp)

theorem SortedRows.grouped {rows : List Row} (h : SortedRows rows) : Grouped rows :=
  List.Pairwise.imp (fun {a b} hab => by rcases hab with h | ⟨h, _⟩ <;> omega) h

def StrictFps (ss : List Series) : Prop := (ss.map (·.fp)).Pairwise (· < ·)

/-- loop invariant: `lastLabels` is the fingerprint of the last series; no series is empty -/
structure Good (st : St) : Prop where
  last : ∀ s, st.series.getLast? = some s → s.fp = st.last
  nonempty : ∀ s ∈ st.series, s.samples ≠ []

theorem flat_append (a b : List Series) : flat (a ++ b) = flat a ++ flat b := by
  simp [flat, List.flatMap_append]

theorem flat_singleton (s : Series) : flat [s] = rowsOf s := by simp [flat]

theorem mem_flat_of_mem {ss : List Series} {s : Series} (hs : s ∈ ss) (hne : s.samples ≠ []) :
    ∃ r ∈ flat ss, r.fp = s.fp := by
  cases hsm : s.samples with
  | nil => exact absurd hsm hne
  | cons x xs =>
    refine ⟨⟨s.fp, x.v, x.ts⟩, ?_, rfl⟩
    simp only [flat, List.mem_flatMap]
    exact ⟨s, hs, by simp [rowsOf, hsm]⟩

theorem step_spec (st : St) (r : Row) (hg : Good st) :
    ∃ st', step st r = some st' ∧ Good st' ∧ flat st'.series = flat st.series ++ [r] ∧
      (Grouped (flat st.series ++ [r]) → StrictFps st.series → StrictFps st'.series) := by
  obtain ⟨ss, last⟩ := st
  rcases List.eq_nil_or_concat ss with hnil | ⟨init, sl, hcat⟩
  · -- first row
    subst hnil
    refine ⟨⟨[⟨r.fp, [sampleOf r]⟩], r.fp⟩, ?_, ⟨?_, ?_⟩, ?_, ?_⟩
    · simp [step, appendToLast]
    · intro s h; simp at h; subst h; rfl
    · intro s h; simp at h; subst h; simp
    · simp [flat, rowsOf, sampleOf]
    · intro _ _; simp [StrictFps]
  · rw [List.concat_eq_append] at hcat
    subst hcat
    have hlast : sl.fp = last := hg.last sl (by simp)
    by_cases hfp : r.fp = last
    · -- same fingerprint: the sample joins the last series
      refine ⟨⟨init ++ [{ sl with samples := sl.samples ++ [sampleOf r] }], last⟩, ?_, ⟨?_, ?_⟩, ?_, ?_⟩
      · simp [step, appendToLast, hfp]
      · intro s h
        simp at h; subst h; exact hlast
      · intro s h
        simp only [List.mem_append, List.mem_singleton] at h
        rcases h with h | h
        · exact hg.nonempty s (by simp [h])
        · subst h; simp
      · simp only [flat_append, flat_singleton, rowsOf, List.map_append, List.map_cons, List.map_nil,
          List.append_assoc, sampleOf]
        congr 2
        cases r; simp at hfp ⊢; omega
      · intro _ hst
        simpa [StrictFps] using hst
    · -- fingerprint change: a new series
      refine ⟨⟨init ++ [sl] ++ [⟨r.fp, [sampleOf r]⟩], r.fp⟩, ?_, ⟨?_, ?_⟩, ?_, ?_⟩
      · have : (r.fp != last) = true := by simp [hfp]
        simp [step, appendToLast, this]
      · intro s h
        simp at h; subst h; rfl
      · intro s h
        simp only [List.mem_append, List.mem_singleton] at h
        rcases h with h | h
        · exact hg.nonempty s (by simpa using h)
        · subst h; simp
      · simp [flat, List.flatMap_append, rowsOf, sampleOf]
      · intro hgr hst
        simp only [StrictFps, List.map_append, List.map_cons, List.map_nil] at hst ⊢
        rw [List.pairwise_append]
        refine ⟨hst, by simp, ?_⟩
        intro a ha b hb
        simp at hb; subst hb
        -- every row laid down so far has fp ≤ r.fp
        have hle : ∀ x ∈ flat (init ++ [sl]), x.fp ≤ r.fp := by
          intro x hx
          have := (List.pairwise_append.mp hgr).2.2 x hx r (by simp)
          exact this
        have hsl : sl.fp < r.fp := by
          obtain ⟨x, hx, hxfp⟩ := mem_flat_of_mem (ss := init ++ [sl]) (s := sl) (by simp)
            (hg.nonempty sl (by simp))
          have := hle x hx
          omega
        have hst' := List.pairwise_append.mp hst
        simp only [List.mem_append, List.mem_map, List.mem_singleton] at ha
        rcases ha with ⟨s, hs, rfl⟩ | rfl
        · have := hst'.2.2 s.fp (List.mem_map.mpr ⟨s, hs, rfl⟩) sl.fp (by simp)
          omega
        · exact hsl

theorem scan_spec (rows : List Row) : ∀ st, Good st →
    ∃ st', scan st rows = some st' ∧ Good st' ∧ flat st'.series = flat st.series ++ rows ∧
      (Grouped (flat st.series ++ rows) → StrictFps st.series → StrictFps st'.series) := by
  induction rows with
  | nil => intro st hg; exact ⟨st, rfl, hg, by simp, fun _ h => h⟩
  | cons r rows ih =>
    intro st hg
    obtain ⟨st1, h1, hg1, hf1, hs1⟩ := step_spec st r hg
    obtain ⟨st2, h2, hg2, hf2, hs2⟩ := ih st1 hg1
    refine ⟨st2, by simp [scan, h1, h2], hg2, by rw [hf2, hf1]; simp, ?_⟩
    intro hgr hst
    have e : flat st.series ++ r :: rows = (flat st.series ++ [r]) ++ rows := by simp
    rw [e] at hgr
    apply hs2 (by rw [hf1]; exact hgr)
    exact hs1 (List.pairwise_append.mp hgr).1 hst

/-- in a list of series with distinct fingerprints, selecting by fingerprint picks the one series -/
theorem flatMap_select (res : List Series) (f : Nat) (hnd : (res.map (·.fp)).Nodup) (s0 : Series)
    (h0 : s0 ∈ res) (hf : s0.fp = f) :
    res.flatMap (fun s => (rowsOf s).filter (fun r => r.fp == f)) = rowsOf s0 := by
  have hsel : ∀ s : Series, (rowsOf s).filter (fun r => r.fp == f) = if s.fp = f then rowsOf s else [] := by
    intro s
    by_cases h : s.fp = f
    · simp only [h, if_true]
      apply List.filter_eq_self.mpr
      intro r hr
      simp only [rowsOf, List.mem_map] at hr
      obtain ⟨x, _, rfl⟩ := hr
      simp [h]
    · simp only [h, if_false]
      apply List.filter_eq_nil_iff.mpr
      intro r hr
      simp only [rowsOf, List.mem_map] at hr
      obtain ⟨x, _, rfl⟩ := hr
      simp [h]
  induction res with
  | nil => cases h0
  | cons a l ih =>
    simp only [List.map_cons, List.nodup_cons] at hnd
    simp only [List.flatMap_cons]
    have hnone : ∀ (l' : List Series), (∀ s ∈ l', s.fp ≠ f) →
        l'.flatMap (fun s => (rowsOf s).filter (fun r => r.fp == f)) = [] := by
      intro l' h
      apply List.flatMap_eq_nil_iff.mpr
      intro s hs
      rw [hsel]; simp [h s hs]
    rcases List.mem_cons.mp h0 with rfl | hmem
    · rw [hsel, if_pos hf, hnone l, List.append_nil]
      intro s hs hsf
      exact hnd.1 (List.mem_map.mpr ⟨s, hs, by omega⟩)
    · have : a.fp ≠ f := by
        intro haf
        exact hnd.1 (List.mem_map.mpr ⟨s0, hmem, by omega⟩)
      rw [hsel, if_neg this, List.nil_append]
      exact ih hnd.2 hmem

theorem rowsOf_map_sampleOf (s : Series) : (rowsOf s).map sampleOf = s.samples := by
  simp only [rowsOf, List.map_map]
  have : (sampleOf ∘ fun (x : Sample) => (⟨s.fp, x.v, x.ts⟩ : Row)) = id := by
    funext x; rfl
  rw [this, List.map_id]

/-- ascending in the `List.Pairwise` form ⇒ ascending in the index form the cursor theorems use -/
theorem sorted_of_pairwise {l : List Sample} (h : l.Pairwise (fun a b => a.ts ≤ b.ts)) : Sorted l := by
  intro i j hij hj
  rcases Nat.lt_or_ge i j with hlt | hge
  · have := (List.pairwise_iff_getElem.mp h) i j (by omega) hj hlt
    simpa [tsAt, List.getD, List.getElem?_eq_getElem, hj, (by omega : i < l.length)] using this
  · have : i = j := by omega
    subst this; exact Int.le_refl _

end Qryn.Read.Assembly
