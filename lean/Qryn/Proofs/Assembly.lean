import Qryn.Read.Assembly
import Qryn.Proofs.Cursor
/-! Lemmas about the row loop of `Select`: loop invariant, preservation of the row sequence, strict
    ascent of the series fingerprints when the rows arrive ordered by fingerprint. -/
namespace Qryn.Read.Assembly
open Qryn.Read.Cursor

/-- `ORDER BY fingerprint ASC, timestamp ASC` -/
def RowLe (a b : Row) : Prop := a.fp < b.fp ∨ (a.fp = b.fp ∧ a.ts ≤ b.ts)
def SortedRows (rows : List Row) : Prop := rows.Pairwise RowLe
/-- the part of the order the grouping depends on: fingerprints ascending -/
def Grouped (rows : List Row) : Prop := rows.Pairwise (fun a b => a.fp ≤ b.fp)

theorem SortedRows.grouped {rows : List Row} (h : SortedRows rows) : Grouped rows :=
  List.Pairwise.imp (fun {a b} hab => by rcases hab with h | ⟨h, _⟩ <;> omega) h

def StrictFps (ss : List Series) : Prop := (ss.map (·.fp)).Pairwise (· < ·)

/-- loop invariant: `lastLabels` is the fingerprint of the last series; no series is empty -/
structure Good (st : St) : Prop where
  last : ∀ s, st.series.getLast? = some s → s.fp = st.last
  nonempty : ∀ s ∈ st.series, s.samples ≠ []

theorem flat_append (a b : List Series) : flat (a ++ b) = flat a ++ flat b := by
  simp [flat, List.flatMap_append]

theorem flat_singleton (s : Series) : flat [s] = rowsOf s := by simp [flat]

theorem mem_flat_of_mem {ss : List Series} {s : Series} (hs : s ∈ ss) (hne : s.samples ≠ []) :
    ∃ r ∈ flat ss, r.fp = s.fp := by
  cases hsm : s.samples with
  | nil => exact absurd hsm hne
  | cons x xs =>
    refine ⟨⟨s.fp, x.v, x.ts⟩, ?_, rfl⟩
    simp only [flat, List.mem_flatMap]
    exact ⟨s, hs, by simp [rowsOf, hsm]⟩

theorem step_spec (st : St) (r : Row) (hg : Good st) :
    ∃ st', step st r = some st' ∧ Good st' ∧ flat st'.series = flat st.series ++ [r] ∧
      (Grouped (flat st.series ++ [r]) → StrictFps st.series → StrictFps st'.series) := by
  obtain ⟨ss, last⟩ := st
  rcases List.eq_nil_or_concat ss with hnil | ⟨init, sl, hcat⟩
  · -- first row
    subst hnil
    refine ⟨⟨[⟨r.fp, [sampleOf r]⟩], r.fp⟩, ?_, ⟨?_, ?_⟩, ?_, ?_⟩
    · simp [step, appendToLast]
    · intro s h; simp at h; subst h; rfl
    · intro s h; simp at h; subst h; simp
    · simp [flat, rowsOf, sampleOf]
    · intro _ _; simp [StrictFps]
  · rw [List.concat_eq_append] at hcat
    subst hcat
    have hlast : sl.fp = last := hg.last sl (by simp)
    by_cases hfp : r.fp = last
    · -- same fingerprint: the sample joins the last series
      refine ⟨⟨init ++ [{ sl with samples := sl.samples ++ [sampleOf r] }], last⟩, ?_, ⟨?_, ?_⟩, ?_, ?_⟩
      · simp [step, appendToLast, hfp]
      · intro s h
        simp at h; subst h; exact hlast
      · intro s h
        simp only [List.mem_append, List.mem_singleton] at h
        rcases h with h | h
        · exact hg.nonempty s (by simp [h])
        · subst h; simp
      · simp only [flat_append, flat_singleton, rowsOf, List.map_append, List.map_cons, List.map_nil,
          List.append_assoc, sampleOf]
        congr 2
        cases r; simp at hfp ⊢; omega
      · intro _ hst
        simpa [StrictFps] using hst
    · -- fingerprint change: a new series
      refine ⟨⟨init ++ [sl] ++ [⟨r.fp, [sampleOf r]⟩], r.fp⟩, ?_, ⟨?_, ?_⟩, ?_, ?_⟩
      · have : (r.fp != last) = true := by simp [hfp]
        simp [step, appendToLast, this]
      · intro s h
        simp at h; subst h; rfl
      · intro s h
        simp only [List.mem_append, List.mem_singleton] at h
        rcases h with h | h
        · exact hg.nonempty s (by simpa using h)
        · subst h; simp
      · simp [flat, List.flatMap_append, rowsOf, sampleOf]
      · intro hgr hst
        simp only [StrictFps, List.map_append, List.map_cons, List.map_nil] at hst ⊢
        rw [List.pairwise_append]
        refine ⟨hst, by simp, ?_⟩
        intro a ha b hb
        simp at hb; subst hb
        -- every row laid down so far has fp ≤ r.fp
        have hle : ∀ x ∈ flat (init ++ [sl]), x.fp ≤ r.fp := by
          intro x hx
          have := (List.pairwise_append.mp hgr).2.2 x hx r (by simp)
          exact this
        have hsl : sl.fp < r.fp := by
          obtain ⟨x, hx, hxfp⟩ := mem_flat_of_mem (ss := init ++ [sl]) (s := sl) (by simp)
            (hg.nonempty sl (by simp))
          have := hle x hx
          omega
        have hst' := List.pairwise_append.mp hst
        simp only [List.mem_append, List.mem_map, List.mem_singleton] at ha
        rcases ha with ⟨s, hs, rfl⟩ | rfl
        · have := hst'.2.2 s.fp (List.mem_map.mpr ⟨s, hs, rfl⟩) sl.fp (by simp)
          omega
        · exact hsl

theorem scan_spec (rows : List Row) : ∀ st, Good st →
    ∃ st', scan st rows = some st' ∧ Good st' ∧ flat st'.series = flat st.series ++ rows ∧
      (Grouped (flat st.series ++ rows) → StrictFps st.series → StrictFps st'.series) := by
  induction rows with
  | nil => intro st hg; exact ⟨st, rfl, hg, by simp, fun _ h => h⟩
  | cons r rows ih =>
    intro st hg
    obtain ⟨st1, h1, hg1, hf1, hs1⟩ := step_spec st r hg
    obtain ⟨st2, h2, hg2, hf2, hs2⟩ := ih st1 hg1
    refine ⟨st2, by simp [scan, h1, h2], hg2, by rw [hf2, hf1]; simp, ?_⟩
    intro hgr hst
    have e : flat st.series ++ r :: rows = (flat st.series ++ [r]) ++ rows := by simp
    rw [e] at hgr
    apply hs2 (by rw [hf1]; exact hgr)
    exact hs1 (List.pairwise_append.mp hgr).1 hst

/-- in a list of series with distinct fingerprints, selecting by fingerprint picks the one series -/
theorem flatMap_select (res : List Series) (f : Nat) (hnd : (res.map (·.fp)).Nodup) (s0 : Series)
    (h0 : s0 ∈ res) (hf : s0.fp = f) :
    res.flatMap (fun s => (rowsOf s).filter (fun r => r.fp == f)) = rowsOf s0 := by
  have hsel : ∀ s : Series, (rowsOf s).filter (fun r => r.fp == f) = if s.fp = f then rowsOf s else [] := by
    intro s
    by_cases h : s.fp = f
    · simp only [h, if_true]
      apply List.filter_eq_self.mpr
      intro r hr
      simp only [rowsOf, List.mem_map] at hr
      obtain ⟨x, _, rfl⟩ := hr
      simp [h]
    · simp only [h, if_false]
      apply List.filter_eq_nil_iff.mpr
      intro r hr
      simp only [rowsOf, List.mem_map] at hr
      obtain ⟨x, _, rfl⟩ := hr
      simp [h]
  induction res with
  | nil => cases h0
  | cons a l ih =>
    simp only [List.map_cons, List.nodup_cons] at hnd
    simp only [List.flatMap_cons]
    have hnone : ∀ (l' : List Series), (∀ s ∈ l', s.fp ≠ f) →
        l'.flatMap (fun s => (rowsOf s).filter (fun r => r.fp == f)) = [] := by
      intro l' h
      apply List.flatMap_eq_nil_iff.mpr
      intro s hs
      rw [hsel]; simp [h s hs]
    rcases List.mem_cons.mp h0 with rfl | hmem
    · rw [hsel, if_pos hf, hnone l, List.append_nil]
      intro s hs hsf
      exact hnd.1 (List.mem_map.mpr ⟨s, hs, by omega⟩)
    · have : a.fp ≠ f := by
        intro haf
        exact hnd.1 (List.mem_map.mpr ⟨s0, hmem, by omega⟩)
      rw [hsel, if_neg this, List.nil_append]
      exact ih hnd.2 hmem

theorem rowsOf_map_sampleOf (s : Series) : (rowsOf s).map sampleOf = s.samples := by
  simp only [rowsOf, List.map_map]
  have : (sampleOf ∘ fun (x : Sample) => (⟨s.fp, x.v, x.ts⟩ : Row)) = id := by
    funext x; rfl
  rw [this, List.map_id]

/-- ascending in the `List.Pairwise` form ⇒ ascending in the index form the cursor theorems use -/
theorem sorted_of_pairwise {l : List Sample} (h : l.Pairwise (fun a b => a.ts ≤ b.ts)) : Sorted l := by
  intro i j hij hj
  rcases Nat.lt_or_ge i j with hlt | hge
  · have := (List.pairwise_iff_getElem.mp h) i j (by omega) hj hlt
    simpa [tsAt, List.getD, List.getElem?_eq_getElem, hj, (by omega : i < l.length)] using this
  · have : i = j := by omega
    subst this; exact Int.le_refl _

/-! ### ReshuffleSeries -/
section Reshuffle
variable {K : Type} [DecidableEq K] (key : Nat → K)

def TsSorted (l : List Sample) : Prop := l.Pairwise (fun a b => a.ts ≤ b.ts)

theorem sortTs_sorted (l : List Sample) : TsSorted (sortTs l) := by
  have := List.pairwise_mergeSort (le := fun (a b : Sample) => decide (a.ts ≤ b.ts))
    (by intro a b c h1 h2; simp at *; omega) (by intro a b; simp; omega) l
  exact List.Pairwise.imp (fun {a b} h => by simpa using h) this

theorem sortTs_perm (l : List Sample) : (sortTs l).Perm l := List.mergeSort_perm _ _

theorem samplesOfKey_append (k : K) (a b : List Series) :
    samplesOfKey key k (a ++ b) = samplesOfKey key k a ++ samplesOfKey key k b := by
  simp [samplesOfKey, List.filter_append, List.flatMap_append]

/-- merging `ent` into a list with distinct keys that already has its key: keys unchanged, the samples of
    that key grow by `ent`'s (up to order), all other keys untouched, sortedness kept -/
theorem merge_existing (res : List Series) (ent : Series)
    (hnd : (res.map (fun s => key s.fp)).Nodup) (hex : ∃ s ∈ res, key s.fp = key ent.fp) :
    let f := fun (s : Series) =>
      if key s.fp = key ent.fp then { s with samples := sortTs (s.samples ++ ent.samples) } else s
    (res.map f).map (fun s => key s.fp) = res.map (fun s => key s.fp) ∧
    (∀ k, (samplesOfKey key k (res.map f)).Perm
        (samplesOfKey key k res ++ (if k = key ent.fp then ent.samples else []))) := by
  intro f
  have hfp : ∀ s, key (f s).fp = key s.fp := by
    intro s; simp only [f]; split <;> rfl
  refine ⟨by simp [List.map_map, Function.comp_def, hfp], ?_⟩
  intro k
  induction res with
  | nil => obtain ⟨s, hs, _⟩ := hex; cases hs
  | cons s rest ih =>
    simp only [List.map_cons, List.nodup_cons] at hnd
    by_cases hs : key s.fp = key ent.fp
    · -- s is the chunk; no other series has this key
      have hrest : ∀ t ∈ rest, key t.fp ≠ key ent.fp := by
        intro t ht e
        exact hnd.1 (List.mem_map.mpr ⟨t, ht, by rw [e, hs]⟩)
      have hmap : rest.map f = rest := by
        rw [List.map_congr_left (g := id)]
        · simp
        · intro t ht; simp [f, hrest t ht]
      by_cases hk : k = key ent.fp
      · have hnone : samplesOfKey key k rest = [] := by
          simp only [samplesOfKey]
          rw [List.filter_eq_nil_iff.mpr]
          · rfl
          · intro t ht; simp [hk, hrest t ht]
        have hfs : (f s).samples = sortTs (s.samples ++ ent.samples) := by simp [f, hs]
        simp only [List.map_cons, hmap]
        simp only [samplesOfKey, List.filter_cons, hfp, hs, hk, beq_self_eq_true, if_true,
          List.flatMap_cons] at hnone ⊢
        rw [hnone, hfs]
        simp only [List.append_nil]
        exact sortTs_perm _
      · have hne : ¬ key s.fp = k := by rw [hs]; exact fun e => hk e.symm
        have h1 : (key (f s).fp == k) = false := by rw [hfp]; simpa using hne
        have h2 : (key s.fp == k) = false := by simpa using hne
        simp only [List.map_cons, hmap, hk, if_false, List.append_nil]
        simp only [samplesOfKey, List.filter_cons, h1, h2]
        exact List.Perm.refl _
    · have hfs : f s = s := by simp [f, hs]
      have hex' : ∃ t ∈ rest, key t.fp = key ent.fp := by
        obtain ⟨t, ht, e⟩ := hex
        rcases List.mem_cons.mp ht with rfl | ht'
        · exact absurd e hs
        · exact ⟨t, ht', e⟩
      have := ih hnd.2 hex'
      simp only [List.map_cons, hfs]
      have e1 : samplesOfKey key k (s :: rest.map f) = samplesOfKey key k [s] ++ samplesOfKey key k (rest.map f) := by
        rw [← samplesOfKey_append]; rfl
      have e2 : samplesOfKey key k (s :: rest) = samplesOfKey key k [s] ++ samplesOfKey key k rest := by
        rw [← samplesOfKey_append]; rfl
      rw [e1, e2, List.append_assoc]
      exact List.Perm.append (List.Perm.refl _) this

structure ReshInv (res : List Series) : Prop where
  nodup : (res.map (fun s => key s.fp)).Nodup

theorem mergeInto_spec (res : List Series) (ent : Series)
    (hnd : (res.map (fun s => key s.fp)).Nodup) :
    ((mergeInto key res ent).map (fun s => key s.fp)).Nodup ∧
    (∀ k, (samplesOfKey key k (mergeInto key res ent)).Perm (samplesOfKey key k res ++ samplesOfKey key k [ent])) ∧
    ((∀ s ∈ res, TsSorted s.samples) → TsSorted ent.samples → ∀ s ∈ mergeInto key res ent, TsSorted s.samples) := by
  have hent : ∀ k, samplesOfKey key k [ent] = if k = key ent.fp then ent.samples else [] := by
    intro k
    by_cases h : k = key ent.fp
    · simp [samplesOfKey, h]
    · have : ¬ key ent.fp = k := fun e => h e.symm
      simp [samplesOfKey, h, this]
  by_cases hany : res.any (fun s => key s.fp == key ent.fp) = true
  · have hex : ∃ s ∈ res, key s.fp = key ent.fp := by simpa [List.any_eq_true] using hany
    obtain ⟨h1, h2⟩ := merge_existing key res ent hnd hex
    simp only [mergeInto, hany, if_true]
    refine ⟨by rw [h1]; exact hnd, ?_, ?_⟩
    · intro k; rw [hent]; exact h2 k
    · intro hs he s hs'
      obtain ⟨t, ht, rfl⟩ := List.mem_map.mp hs'
      by_cases e : key t.fp = key ent.fp
      · simp only [e, if_true]; exact sortTs_sorted _
      · simp only [e, if_false]; exact hs t ht
  · have hnone : ∀ s ∈ res, key s.fp ≠ key ent.fp := by
      intro s hs e
      exact hany (by simpa [List.any_eq_true] using ⟨s, hs, e⟩)
    have hany' : res.any (fun s => key s.fp == key ent.fp) = false := by simpa using hany
    simp only [mergeInto, hany', Bool.false_eq_true, ↓reduceIte]
    refine ⟨?_, ?_, ?_⟩
    · simp only [List.map_append, List.map_cons, List.map_nil]
      rw [List.nodup_append]
      refine ⟨hnd, by simp, ?_⟩
      intro a ha b hb
      simp at hb; subst hb
      obtain ⟨s, hs, rfl⟩ := List.mem_map.mp ha
      exact hnone s hs
    · intro k; rw [samplesOfKey_append]
    · intro hs he s hs'
      rcases List.mem_append.mp hs' with h | h
      · exact hs s h
      · simp at h; subst h; exact he

theorem foldl_mergeInto_spec (ss res : List Series) (hnd : (res.map (fun s => key s.fp)).Nodup) :
    ((ss.foldl (mergeInto key) res).map (fun s => key s.fp)).Nodup ∧
    (∀ k, (samplesOfKey key k (ss.foldl (mergeInto key) res)).Perm (samplesOfKey key k res ++ samplesOfKey key k ss)) ∧
    ((∀ s ∈ res, TsSorted s.samples) → (∀ s ∈ ss, TsSorted s.samples) →
      ∀ s ∈ ss.foldl (mergeInto key) res, TsSorted s.samples) := by
  induction ss generalizing res with
  | nil => exact ⟨hnd, fun k => by simp [samplesOfKey], fun h _ => h⟩
  | cons ent ss ih =>
    obtain ⟨m1, m2, m3⟩ := mergeInto_spec key res ent hnd
    obtain ⟨i1, i2, i3⟩ := ih (mergeInto key res ent) m1
    simp only [List.foldl_cons]
    refine ⟨i1, ?_, ?_⟩
    · intro k
      have e : samplesOfKey key k (ent :: ss) = samplesOfKey key k [ent] ++ samplesOfKey key k ss := by
        rw [← samplesOfKey_append]; rfl
      rw [e, ← List.append_assoc]
      exact (i2 k).trans (List.Perm.append (m2 k) (List.Perm.refl _))
    · intro hr hs
      exact i3 (m3 hr (hs ent List.mem_cons_self)) (fun s h => hs s (List.mem_cons_of_mem _ h))

/-- with distinct keys nothing is merged -/
theorem foldl_mergeInto_id (ss res : List Series)
    (hnd : ((res ++ ss).map (fun s => key s.fp)).Nodup) : ss.foldl (mergeInto key) res = res ++ ss := by
  induction ss generalizing res with
  | nil => simp
  | cons ent ss ih =>
    simp only [List.foldl_cons]
    have hnone : res.any (fun s => key s.fp == key ent.fp) = false := by
      rw [List.any_eq_false]
      intro s hs
      simp only [beq_iff_eq]
      intro e
      simp only [List.map_append, List.map_cons] at hnd
      have := (List.nodup_append.mp hnd).2.2 (key s.fp) (List.mem_map.mpr ⟨s, hs, rfl⟩) (key ent.fp) (by simp)
      exact this e
    have hm : mergeInto key res ent = res ++ [ent] := by simp [mergeInto, hnone]
    rw [hm, ih (res ++ [ent]) (by simpa using hnd)]
    simp

end Reshuffle

end Qryn.Read.Assembly
