import Qryn.Prom.LabelsSegs
import Qryn.Proofs.SelectorClosed
/-! C10 for the Prometheus metadata statements (`/api/v1/labels`, `/api/v1/label/<name>/values`, `/api/v1/series`):
    the rendered text is a segment list (`renderSegs (…Segs …) = …Render …`) whose raw parts are closed for EVERY closed
    table name, window, limit, label name and `match[]` list the planner accepts, so the date bounds, the label name and
    every matcher name / value / regular expression sit in single literals. -/
namespace Qryn.Prom.Labels
open Qryn Qryn.Sql Qryn.Lex Qryn.Prom

/-! ### rendering = segments -/
theorem FpUnion.render_segs (u : FpUnion) : renderSegs u.segs = u.render := by
  simp only [FpUnion.segs, FpUnion.render, renderSegs_joinS, joinWith_eq_joinB, List.map_map]
  congr 1
  apply List.map_congr_left
  intro q _
  exact FpQuery.render_segs q

theorem render_typeInS (tp : Int) : renderSegs (typeInS tp) = typeIn tp := by simp [typeInS, typeIn]
theorem render_dateGeS (d : Bytes) : renderSegs (dateGeS d) = dateGe d := by simp [dateGeS, dateGe, render_logicalS]
theorem render_dateLeS (d : Bytes) : renderSegs (dateLeS d) = dateLe d := by simp [dateLeS, dateLe, render_logicalS]
theorem render_withFpS (u : Option FpUnion) : renderSegs (withFpS u) = withFp u := by
  cases u <;> simp [withFpS, withFp, FpUnion.render_segs]
theorem render_inFpS (u : Option FpUnion) : (inFpS u).map renderSegs = inFp u := by
  cases u <;> simp [inFpS, inFp]
theorem render_limitS (limit : Nat) : renderSegs (limitS limit) = limitText limit := by
  unfold limitS limitText
  split <;> simp

theorem namesSegs_render (gin : String) (w : Win) (u : Option FpUnion) :
    renderSegs (namesSegs gin w u) = namesRender gin w u := by
  simp [namesSegs, namesRender, render_logicalS, render_typeInS, render_dateGeS, render_dateLeS, render_withFpS,
    render_inFpS, List.append_assoc]

theorem valuesSegs_render (gin : String) (w : Win) (limit : Nat) (name : Bytes) (u : Option FpUnion) :
    renderSegs (valuesSegs gin w limit name u) = valuesRender gin w limit name u := by
  simp [valuesSegs, valuesRender, render_logicalS, render_typeInS, render_dateGeS, render_dateLeS, render_withFpS,
    render_inFpS, render_limitS, List.append_assoc]

theorem seriesSegs_render (tsTable : String) (w : Win) (limit : Nat) (u : FpUnion) :
    renderSegs (seriesSegs tsTable w limit u) = seriesRender tsTable w limit u := by
  simp [seriesSegs, seriesRender, render_logicalS, render_typeInS, render_dateGeS, render_dateLeS, render_withFpS,
    render_limitS, List.append_assoc]

/-! ### closedness -/
/-- what `fpUnion` guarantees of every operand: the table it was given, conditions with closed operators / columns -/
def FpUnion.OK (table : String) (u : FpUnion) : Prop := ∀ q ∈ u.qs, q.table = table ∧ ∀ c ∈ q.conds, c.wf = true

theorem allSome_mem {α : Type} : ∀ (l : List (Option α)) (r : List α), allSome l = some r → ∀ x ∈ r, some x ∈ l
  | [], r, h => by simp [allSome] at h; subst h; simp
  | none :: _, r, h => by simp [allSome] at h
  | some a :: rest, r, h => by
    simp only [allSome, Option.map_eq_some_iff] at h
    obtain ⟨r', hr', rfl⟩ := h
    intro x hx
    simp only [List.mem_cons] at hx
    rcases hx with rfl | hx
    · simp
    · exact List.mem_cons_of_mem _ (allSome_mem rest r' hr' x hx)

theorem fingerprintsQuery_ok (full : Bytes → Bytes → Bool) (table : String) (fromDate : Bytes) (tp : Int) (ms : List Matcher)
    (q : FpQuery) (h : fingerprintsQuery full table fromDate tp ms = some q) :
    q.table = table ∧ ∀ c ∈ q.conds, c.wf = true := by
  unfold fingerprintsQuery at h
  cases hc : condsOf (ms.map (asked full)) with
  | none => simp [hc] at h
  | some cs =>
    simp [hc] at h
    subst h
    exact ⟨rfl, condsOf_wf _ cs hc⟩

/-- every `match[]` list the planner accepts -/
theorem fpUnion_ok (full : Bytes → Bytes → Bool) (table : String) (fromDate : Bytes) (tp : Int) (sels : List (List Matcher))
    (u : FpUnion) (h : fpUnion full table fromDate tp sels = some u) : u.OK table := by
  unfold fpUnion at h
  simp only [Option.map_eq_some_iff] at h
  obtain ⟨qs, hqs, rfl⟩ := h
  intro q hq
  have hm := allSome_mem _ qs hqs q hq
  simp only [List.mem_map] at hm
  obtain ⟨ms, _, hms⟩ := hm
  exact fingerprintsQuery_ok full table fromDate tp ms q hms

theorem kw_unionAll : rawC (ascii " UNION ALL ") = true := by decide +kernel
theorem kw_withFp : rawC (ascii "WITH fp_sel as ( ") = true := by decide +kernel
theorem kw_withFpEnd : rawC (ascii ") ") = true := by decide +kernel
theorem kw_inFp : rawC (ascii "fingerprint IN (fp_sel)") = true := by decide +kernel
theorem kw_limitA : rawC (ascii " LIMIT ") = true := by decide +kernel
theorem kw_namesHead : rawC (ascii "SELECT DISTINCT key FROM ") = true := by decide +kernel
theorem kw_namesTail : rawC (ascii " as samples WHERE ") = true := by decide +kernel
theorem kw_valuesHead : rawC (ascii "SELECT DISTINCT val FROM ") = true := by decide +kernel
theorem kw_seriesHead : rawC (ascii "SELECT DISTINCT labels as labels FROM ") = true := by decide +kernel
theorem kw_seriesTail : rawC (ascii " as time_series WHERE ") = true := by decide +kernel

theorem FpUnion.closed (table : String) (ht : rawE (ascii table) = true) (u : FpUnion) (hu : u.OK table) : PE u.segs := by
  refine PE_joinS (PC_raw kw_unionAll) _ (PE_of_mem_map ?_)
  intro q hq
  exact (FpQuery.closed q (by rw [(hu q hq).1]; exact ht) (hu q hq).2).toPE

theorem PE_typeInS (tp : Int) : PE (typeInS tp) := by
  unfold typeInS
  rw [ascii_toStringInt]
  exact (PC_raw (rawC_wrap kw_typeIn (rawE_intText tp) kw_typeInEnd)).toPE
theorem PE_dateGeS (d : Bytes) : PE (dateGeS d) := PE_logicalS kwOK_ge (PE2 (PE_raw rawE_date) (PE_str _))
theorem PE_dateLeS (d : Bytes) : PE (dateLeS d) := PE_logicalS kwOK_le (PE2 (PE_raw rawE_date) (PE_str _))

theorem PX_withFpS (table : String) (ht : rawE (ascii table) = true) (u : Option FpUnion)
    (hu : ∀ x, u = some x → x.OK table) : PX (withFpS u) := by
  cases u with
  | none => exact PX_nil
  | some x => exact (PC.wrap (PC_raw kw_withFp) (FpUnion.closed table ht x (hu x rfl)) (PC_raw kw_withFpEnd)).toPX

theorem PE_inFpS (u : Option FpUnion) : ∀ x ∈ inFpS u, PE x := by
  intro x hx
  cases u with
  | none => simp [inFpS] at hx
  | some _ =>
    simp [inFpS] at hx
    subst hx
    exact (PC_raw kw_inFp).toPE

theorem PX_limitS (limit : Nat) : PX (limitS limit) := by
  unfold limitS
  split
  · rw [ascii_toStringNat]
    exact (PC_raw (rawC_append kw_limitA (rawC_natDigits limit))).toPX
  · exact PX_nil

theorem mem_append_PE {xs ys : List (List Seg)} (hx : ∀ x ∈ xs, PE x) (hy : ∀ x ∈ ys, PE x) : ∀ x ∈ xs ++ ys, PE x := by
  intro x h
  rcases List.mem_append.mp h with h | h
  · exact hx x h
  · exact hy x h

theorem PE_cons {x : List Seg} {xs : List (List Seg)} (hx : PE x) (hxs : ∀ y ∈ xs, PE y) : ∀ y ∈ x :: xs, PE y := by
  intro y hy
  rcases List.mem_cons.mp hy with rfl | hy
  · exact hx
  · exact hxs y hy

theorem PE_none : ∀ y ∈ ([] : List (List Seg)), PE y := by intro y hy; cases hy

/-- `/api/v1/labels`: every closed index table name (`gin`, and `table` of the selector queries), window, `match[]` list -/
theorem namesSegs_closed (gin table : String) (hg : rawE (ascii gin) = true) (ht : rawE (ascii table) = true) (w : Win)
    (u : Option FpUnion) (hu : ∀ x, u = some x → x.OK table) : PX (namesSegs gin w u) := by
  have hhead : PC [Seg.raw (ascii "SELECT DISTINCT key FROM " ++ ascii gin ++ ascii " as samples WHERE ")] :=
    PC_raw (rawC_wrap kw_namesHead hg kw_namesTail)
  have hwhere : PE (logicalS "and" ([typeInS w.tp, dateGeS w.fromDate, dateLeS w.toDate] ++ inFpS u)) :=
    PE_logicalS kwOK_and (mem_append_PE
      (PE_cons (PE_typeInS _) (PE_cons (PE_dateGeS _) (PE_cons (PE_dateLeS _) PE_none))) (PE_inFpS u))
  have := PX.append (PX_withFpS table ht u hu) (PC.appendPE hhead hwhere)
  simpa [namesSegs, List.append_assoc] using this

/-- `/api/v1/label/<name>/values`: additionally EVERY label name (any bytes) and limit -/
theorem valuesSegs_closed (gin table : String) (hg : rawE (ascii gin) = true) (ht : rawE (ascii table) = true) (w : Win)
    (limit : Nat) (name : Bytes) (u : Option FpUnion) (hu : ∀ x, u = some x → x.OK table) :
    PX (valuesSegs gin w limit name u) := by
  have hhead : PC [Seg.raw (ascii "SELECT DISTINCT val FROM " ++ ascii gin ++ ascii " WHERE ")] :=
    PC_raw (rawC_wrap kw_valuesHead hg kw_whereA)
  have hname : PE (logicalS (fnOf "Eq") [[Seg.raw (ascii "key")], [Seg.str name]]) :=
    PE_logicalS kwOK_eq (PE2 (PE_raw rawE_key) (PE_str _))
  have hwhere : PE (logicalS "and" ([dateGeS w.fromDate, dateLeS w.toDate,
      logicalS (fnOf "Eq") [[Seg.raw (ascii "key")], [Seg.str name]], typeInS w.tp] ++ inFpS u)) :=
    PE_logicalS kwOK_and (mem_append_PE
      (PE_cons (PE_dateGeS _) (PE_cons (PE_dateLeS _) (PE_cons hname (PE_cons (PE_typeInS _) PE_none)))) (PE_inFpS u))
  have := PX.append (PX.append (PX_withFpS table ht u hu) (PC.appendPE hhead hwhere)) (PX_limitS limit)
  simpa [valuesSegs, List.append_assoc] using this

/-- `/api/v1/series` -/
theorem seriesSegs_closed (tsTable table : String) (hs : rawE (ascii tsTable) = true) (ht : rawE (ascii table) = true) (w : Win)
    (limit : Nat) (u : FpUnion) (hu : u.OK table) : PX (seriesSegs tsTable w limit u) := by
  have hhead : PC [Seg.raw (ascii "SELECT DISTINCT labels as labels FROM " ++ ascii tsTable ++ ascii " as time_series WHERE ")] :=
    PC_raw (rawC_wrap kw_seriesHead hs kw_seriesTail)
  have hwhere : PE (logicalS "and" [dateGeS w.fromDate, dateLeS w.toDate, [Seg.raw (ascii "fingerprint IN (fp_sel)")],
      typeInS w.tp]) :=
    PE_logicalS kwOK_and
      (PE_cons (PE_dateGeS _) (PE_cons (PE_dateLeS _) (PE_cons (PC_raw kw_inFp).toPE (PE_cons (PE_typeInS _) PE_none))))
  have := PX.append (PX.append (PX_withFpS table ht (some u) (by intro x hx; cases hx; exact hu)) (PC.appendPE hhead hwhere))
    (PX_limitS limit)
  simpa [seriesSegs, List.append_assoc] using this

/-! ### the statements in the form C10 uses: from the planner's own output, entered in `.normal` -/
theorem names_closed (full : Bytes → Bytes → Bool) (gin table : String) (hg : rawE (ascii gin) = true)
    (ht : rawE (ascii table) = true) (w : Win) (sels : List (List Matcher)) (u : FpUnion)
    (h : fpUnion full table w.fromDate w.tp sels = some u) :
    renderSegs (namesSegs gin w (some u)) = namesRender gin w (some u) ∧ safeSegs .normal (namesSegs gin w (some u)) = true :=
  ⟨namesSegs_render _ _ _,
   (namesSegs_closed gin table hg ht w (some u) (by intro x hx; cases hx; exact fpUnion_ok _ _ _ _ _ _ h) .normal rfl).1⟩

/-- without selectors (`Labels`): no WITH entry -/
theorem names_closed_none (gin : String) (hg : rawE (ascii gin) = true) (w : Win) :
    renderSegs (namesSegs gin w none) = namesRender gin w none ∧ safeSegs .normal (namesSegs gin w none) = true :=
  ⟨namesSegs_render _ _ _, (namesSegs_closed gin gin hg hg w none (by intro x hx; cases hx) .normal rfl).1⟩

theorem values_closed (full : Bytes → Bytes → Bool) (gin table : String) (hg : rawE (ascii gin) = true)
    (ht : rawE (ascii table) = true) (w : Win) (limit : Nat) (name : Bytes) (sels : List (List Matcher)) (u : FpUnion)
    (h : fpUnion full table w.fromDate w.tp sels = some u) :
    renderSegs (valuesSegs gin w limit name (some u)) = valuesRender gin w limit name (some u) ∧
      safeSegs .normal (valuesSegs gin w limit name (some u)) = true :=
  ⟨valuesSegs_render _ _ _ _ _,
   (valuesSegs_closed gin table hg ht w limit name (some u) (by intro x hx; cases hx; exact fpUnion_ok _ _ _ _ _ _ h)
      .normal rfl).1⟩

theorem values_closed_none (gin : String) (hg : rawE (ascii gin) = true) (w : Win) (limit : Nat) (name : Bytes) :
    renderSegs (valuesSegs gin w limit name none) = valuesRender gin w limit name none ∧
      safeSegs .normal (valuesSegs gin w limit name none) = true :=
  ⟨valuesSegs_render _ _ _ _ _, (valuesSegs_closed gin gin hg hg w limit name none (by intro x hx; cases hx) .normal rfl).1⟩

theorem series_closed (full : Bytes → Bytes → Bool) (tsTable table : String) (hs : rawE (ascii tsTable) = true)
    (ht : rawE (ascii table) = true) (w : Win) (limit : Nat) (sels : List (List Matcher)) (u : FpUnion)
    (h : fpUnion full table w.fromDate w.tp sels = some u) :
    renderSegs (seriesSegs tsTable w limit u) = seriesRender tsTable w limit u ∧
      safeSegs .normal (seriesSegs tsTable w limit u) = true :=
  ⟨seriesSegs_render _ _ _ _,
   (seriesSegs_closed tsTable table hs ht w limit u (fpUnion_ok _ _ _ _ _ _ h) .normal rfl).1⟩

end Qryn.Prom.Labels
