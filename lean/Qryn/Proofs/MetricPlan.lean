import Qryn.Proofs.MetricBy
/-! C08 plan-level proofs, part 3: composing the stages into `planMetric`. -/
namespace Qryn.Sql

theorem evalBodyM_eq_A (o : Oracles) (db : Db) (env : Env) (s : Sel) (h : isBitSetHaving s.having = false) :
    evalBodyM o db env s = evalBodyA o db env s := by
  unfold evalBodyM
  rw [isBitSetSel_eq, h]
  simp

theorem als_append (a b : List (Alias × Sel)) : als (a ++ b) = als a ++ als b := by simp [als]

/-- **one planner wrapping the select before it**: `body WITH (…m's WITH list…, m as a)` -/
theorem wrap_one (o : Oracles) (db : Db) (body m : Sel) (a : Alias) (hn : (als m.withs).Nodup) (hf : a ∉ als m.withs)
    (hb : isBitSetHaving body.having = false) :
    ((body.with_ [(a, m)]).withs = m.withs ++ [(a, m)]) ∧ (als (body.with_ [(a, m)]).withs).Nodup ∧
    evalSelA o db (body.with_ [(a, m)]) = evalBodyA o db ((a, evalSelA o db m) :: envOf o db m) body ∧
    envOf o db (body.with_ [(a, m)]) = (a, evalSelA o db m) :: envOf o db m := by
  rw [with_one body m a hn]
  refine ⟨withs_setWiths _ _, ?_, ?_, envOf_setWiths_snoc o db body m a⟩
  · rw [withs_setWiths, als_append]
    exact List.nodup_append.mpr ⟨hn, by simp [als], by intro x hx y hy; simp [als] at hy; subst hy; exact fun e => hf (e ▸ hx)⟩
  · rw [evalSelA_setWiths_snoc, evalBodyM_eq_A o db _ body hb]

theorem lookup_evalWithsA_notin (o : Oracles) (db : Db) (ws : List (Alias × Sel)) (env : Env) (a : Alias) (h : a ∉ als ws) :
    (evalWithsA o db env ws).lookup a = env.lookup a := by
  induction ws generalizing env with
  | nil => rfl
  | cons w ws ih =>
    obtain ⟨b, s⟩ := w
    simp only [als, List.map_cons, List.mem_cons, not_or] at h
    simp only [evalWithsA]
    rw [ih _ (by simpa [als] using h.2)]
    simp only [List.lookup]
    have : (a == b) = false := by simpa using h.1
    rw [this]

theorem having_setWiths (s : Sel) (ws : List (Alias × Sel)) : (s.setWiths ws).having = s.having := by cases s; rfl

end Qryn.Sql

namespace Qryn.LogQL
open Qryn Qryn.Sql

theorem cmpHaving_notBitSet (cm : Option Comparison) : isBitSetHaving (cmpHaving cm) = false := by
  cases cm with
  | none => rfl
  | some c => obtain ⟨op, v⟩ := c; cases op <;> rfl

theorem named_notin_fp (c : Ctx) (q : LogQuery) (n : String) (h : n ≠ "fp_sel") : Alias.named n ∉ als (fpWiths c q) := by
  intro hm
  rcases (fpWiths_als c q).2 _ hm with e | ⟨j, e⟩
  · exact h (Alias.named.inj e)
  · cases e

/-! ### the range phase without unwrap: `planSpl`, `LRAPlanner`, optional comparison -/
def lraBody (fn : RangeFn) (d : Nat) (hv : Option Expr) : Sel :=
  .mk [] false (lraCols fn d) (some (.col (.withRef (.named "agg_a")) "time_series")) [] none none
    [.raw "fingerprint", .raw "timestamp_ns"] hv [] none

def samplesRenamed (c : Ctx) (q : LogQuery) : Sel :=
  .mk (fpWiths c q) false
    [simpleCol "samples.timestamp_ns" "timestamp_ns", simpleCol "samples.fingerprint" "fingerprint",
     simpleCol "samples.string" "_string", simpleCol "toFloat64(0)" "value"]
    (some (.col (.raw c.samplesTable) "samples")) []
    (some (windowCond c)) (some (and_ (fpIn :: (lineFilters q).map lineClause))) [] none [] none

theorem lraPhase_eq (c : Ctx) (q : LogQuery) (fn : RangeFn) (d : Nat) (cm : Option Comparison) :
    cmpOpt cm (lraSel fn d false (samplesMain c q)) = (lraBody fn d (cmpHaving cm)).with_ [(.named "agg_a", samplesRenamed c q)] := by
  rw [samplesMain_eq]
  have : lraSel fn d false (Sel.mk (fpWiths c q) false samplesCols (some (.col (.raw c.samplesTable) "samples")) []
      (some (windowCond c)) (some (and_ (fpIn :: (lineFilters q).map lineClause))) [] none [] none) =
      (lraBody fn d none).with_ [(.named "agg_a", samplesRenamed c q)] := by
    unfold lraSel lraBody samplesRenamed lraCols
    simp [Sel.setCols, Sel.cols, samplesCols, renameCol, simpleCol]
  rw [this]
  unfold lraBody Sel.with_
  simp only [Sel.setWiths]
  rw [cmpOpt_eq]

/-- what the proof carries from planner to planner: the statement built so far starts with the `fp_sel` WITH list,
    its other WITH names are `L` (all distinct), and its rows are the points `pts` -/
structure PStage (o : Oracles) (c : MCtx) (d : LokiDb) (q : LogQuery) (s : Sel) (pts : List Pt) (L : List Alias) : Prop where
  withs : ∃ rest, s.withs = fpWiths c.toCtx q ++ rest ∧ als rest = L
  nodup : (als s.withs).Nodup
  rep : Rep (evalSelA o (d.toDbM c) s) pts

theorem PStage.als_eq {o c d q s pts L} (h : PStage o c d q s pts L) : als s.withs = als (fpWiths c.toCtx q) ++ L := by
  obtain ⟨rest, h1, h2⟩ := h.withs
  rw [h1, als_append, h2]

theorem PStage.fresh {o c d q s pts L} (h : PStage o c d q s pts L) (n : String) (h1 : n ≠ "fp_sel") (h2 : Alias.named n ∉ L) :
    Alias.named n ∉ als s.withs := by
  rw [h.als_eq, List.mem_append, not_or]
  exact ⟨named_notin_fp _ _ _ h1, h2⟩

/-- `fp_sel` is bound to the selected fingerprints in the environment of the statement -/
theorem PStage.fp_lookup {o c d q s pts L} (h : PStage o c d q s pts L) (hn : c.namesOk) (hm : q.matchers.length ≤ 63) :
    ∃ T, (envOf o (d.toDbM c) s).lookup (.named "fp_sel") = some T ∧ FpTable T (fpSelected o c.toCtx d q) := by
  obtain ⟨rest, h1, h2⟩ := h.withs
  obtain ⟨T, r0, hE, hT⟩ := fpWiths_eval o c hn d q hm
  refine ⟨T, ?_, hT⟩
  unfold envOf
  rw [h1, evalWithsA_append, hE, lookup_evalWithsA_notin]
  · simp [List.lookup]
  · have hnd := h.nodup
    rw [h1, als_append] at hnd
    have hfp : Alias.named "fp_sel" ∈ als (fpWiths c.toCtx q) := by simp [fpWiths, fpWith, als]
    exact fun hx => (List.nodup_append.mp hnd).2.2 _ hfp _ hx rfl

/-- **a planner that wraps the statement built so far** as `a` and selects `body` from it -/
theorem PStage.wrap {o c d q s pts L} (h : PStage o c d q s pts L) (n : String) (h1 : n ≠ "fp_sel") (h2 : Alias.named n ∉ L)
    (body : Sel) (hb : isBitSetHaving body.having = false) (pts' : List Pt)
    (hrep : Rep (evalBodyA o (d.toDbM c) ((.named n, evalSelA o (d.toDbM c) s) :: envOf o (d.toDbM c) s) body) pts') :
    PStage o c d q (body.with_ [(.named n, s)]) pts' (L ++ [.named n]) := by
  obtain ⟨w1, w2, w3, _⟩ := wrap_one o (d.toDbM c) body s (.named n) h.nodup (h.fresh n h1 h2) hb
  obtain ⟨rest, r1, r2⟩ := h.withs
  refine ⟨⟨rest ++ [(.named n, s)], by rw [w1, r1, List.append_assoc], by rw [als_append, r2]; rfl⟩, w2, ?_⟩
  rw [w3]; exact hrep

/-- **a planner that wraps the statement built so far** as `n` next to a second sub-query `m2 as n2` without WITH of its own -/
theorem PStage.wrap2 {o c d q s pts L} (h : PStage o c d q s pts L) (n n2 : String) (h1 : n ≠ "fp_sel") (h2 : Alias.named n ∉ L)
    (h1' : n2 ≠ "fp_sel") (h2' : Alias.named n2 ∉ L) (hne : n2 ≠ n)
    (body : Sel) (hb : isBitSetHaving body.having = false) (m2 : Sel) (hm2 : m2.withs = [])
    (hb2 : isBitSetHaving m2.having = false) (pts' : List Pt)
    (hrep : Rep (evalBodyA o (d.toDbM c)
      ((.named n2, evalBodyA o (d.toDbM c) ((.named n, evalSelA o (d.toDbM c) s) :: envOf o (d.toDbM c) s) m2) ::
        (.named n, evalSelA o (d.toDbM c) s) :: envOf o (d.toDbM c) s) body) pts') :
    PStage o c d q (body.with_ [(.named n, s), (.named n2, m2)]) pts' (L ++ [.named n, .named n2]) := by
  obtain ⟨rest, r1, r2⟩ := h.withs
  have hfn := h.fresh n h1 h2
  have hfn2 := h.fresh n2 h1' h2'
  have hw : body.with_ [(.named n, s), (.named n2, m2)] = body.setWiths (s.withs ++ [(.named n, s), (.named n2, m2)]) := by
    apply with_two _ _ _ _ _ h.nodup hfn2 (fun e => hne (Alias.named.inj e))
    intro x hx
    rw [hm2] at hx
    simp [als] at hx
  rw [hw]
  refine ⟨⟨rest ++ [(.named n, s), (.named n2, m2)], by rw [withs_setWiths, r1, List.append_assoc], by rw [als_append, r2]; rfl⟩, ?_, ?_⟩
  · rw [withs_setWiths, als_append]
    refine List.nodup_append.mpr ⟨h.nodup, ?_, ?_⟩
    · simp only [als, List.map_cons, List.map_nil, List.nodup_cons, List.mem_cons, List.not_mem_nil, or_false, not_false_eq_true,
        List.nodup_nil, and_true]
      exact fun e => hne (Alias.named.inj e).symm
    · intro x hx y hy
      simp only [als, List.map_cons, List.map_nil, List.mem_cons, List.not_mem_nil, or_false] at hy
      rcases hy with rfl | rfl
      · exact fun e => hfn (e ▸ hx)
      · exact fun e => hfn2 (e ▸ hx)
  · rw [evalSelA_eq, evalBodyM_setWiths, evalBodyM_eq_A _ _ _ _ hb]
    unfold envOf
    rw [withs_setWiths, evalWithsA_append]
    simp only [evalWithsA]
    rw [evalBodyM_eq_A _ _ _ m2 hb2]
    rw [evalSelA_eq] at hrep
    exact hrep

/-- **range phase (no unwrap, no shortcut).** The select after `planSpl`, `LRAPlanner` and the optional comparison
    holds the points of the direct reading's range stage and comparison. -/
theorem lraPhase_ok (o : Oracles) (c : MCtx) (hn : c.namesOk) (d : LokiDb) (q : LogQuery) (hm : q.matchers.length ≤ 63)
    (fn : RangeFn) (dur : Nat) (hd : 0 < dur) (cm : Option Comparison) :
    PStage o c d q (cmpOpt cm (lraSel fn dur false (samplesMain c.toCtx q)))
      (cmpStage cm (lraPts fn dur (d.samples.filter (entryMatches o c.toCtx d q)))) [.named "agg_a"] := by
  rw [lraPhase_eq c.toCtx q fn dur cm]
  obtain ⟨T, rest, hE, hT⟩ := fpWiths_eval o c hn d q hm
  have hw : (samplesRenamed c.toCtx q).withs = fpWiths c.toCtx q := rfl
  have henv : envOf o (d.toDbM c) (samplesRenamed c.toCtx q) = (.named "fp_sel", T) :: rest := by
    unfold envOf; rw [hw]; exact hE
  have hmain : evalSelA o (d.toDbM c) (samplesRenamed c.toCtx q) =
      (d.samples.filter (entryMatches o c.toCtx d q)).map (sampleRow "_string") := by
    rw [evalSelA_eq, evalBodyM_eq_A _ _ _ _ (by rfl), henv]
    exact samplesMain_eval o c hn d q _ T (by simp [List.lookup]) hT _ "_string" (Or.inr rfl)
  obtain ⟨h1, h2, h3, _⟩ := wrap_one o (d.toDbM c) (lraBody fn dur (cmpHaving cm)) (samplesRenamed c.toCtx q) (.named "agg_a")
    (by rw [hw]; exact (fpWiths_als c.toCtx q).1) (by rw [hw]; exact named_notin_fp _ _ _ (by decide))
    (cmpHaving_notBitSet cm)
  refine ⟨⟨[(.named "agg_a", samplesRenamed c.toCtx q)], by rw [h1, hw], rfl⟩, h2, ?_⟩
  rw [h3, hmain]
  unfold lraBody
  rw [lra_eval o (d.toDbM c) _ fn dur hd (d.samples.filter (entryMatches o c.toCtx d q)) (by simp [List.lookup])]
  exact having_rep o _ cm _ _ (lraRow_rep _ (lraPts_labels fn dur _))

end Qryn.LogQL

namespace Qryn.LogQL
open Qryn Qryn.Sql

/-! ### the end of every plan: labels join (when no stage attached labels), final select -/
theorem tsWith_eq (c : Ctx) (q : LogQuery) :
    tsWith c q = (.named "_time_series", (timeSeriesSel c).setWiths (fpWiths c q)) := by
  unfold tsWith fpWith
  rw [with_one _ _ _ (fpQuery_withs_nodup c q)]
  rfl

theorem PStage.join {o c d q s pts L} (h : PStage o c d q s pts L) (hn : c.namesOk) (hm : q.matchers.length ≤ 63)
    (hl : ∀ p ∈ pts, p.labels = .null) (h1 : Alias.named "main" ∉ L) (h2 : Alias.named "_time_series" ∉ L) :
    PStage o c d q (labelsJoin c.toCtx q s) (pts.map (withStreamLabels o c.toCtx d q))
      (L ++ [.named "main", .named "_time_series"]) := by
  obtain ⟨rest, r1, r2⟩ := h.withs
  have hfm := h.fresh "main" (by decide) h1
  have hft := h.fresh "_time_series" (by decide) h2
  have hw : labelsJoin c.toCtx q s = (joinedSel c.toCtx).setWiths
      (s.withs ++ [(.named "main", s), (.named "_time_series", (timeSeriesSel c.toCtx).setWiths (fpWiths c.toCtx q))]) := by
    unfold labelsJoin
    rw [tsWith_eq]
    apply with_two _ _ _ _ _ h.nodup hft (by decide)
    intro x hx
    rw [withs_setWiths] at hx
    rw [r1, als_append]
    exact List.mem_append_left _ hx
  rw [hw]
  obtain ⟨T, hT1, hT2⟩ := h.fp_lookup hn hm
  refine ⟨⟨rest ++ [(.named "main", s), (.named "_time_series", (timeSeriesSel c.toCtx).setWiths (fpWiths c.toCtx q))],
      by rw [withs_setWiths, r1, List.append_assoc], by rw [als_append, r2]; rfl⟩, ?_, ?_⟩
  · rw [withs_setWiths, als_append]
    refine List.nodup_append.mpr ⟨h.nodup, by simp [als], ?_⟩
    intro x hx y hy
    simp only [als, List.map_cons, List.map_nil, List.mem_cons, List.not_mem_nil, or_false] at hy
    rcases hy with rfl | rfl
    · exact fun e => hfm (e ▸ hx)
    · exact fun e => hft (e ▸ hx)
  · rw [evalSelA_eq, evalBodyM_setWiths, evalBodyM_eq_A _ _ _ _ (by rfl)]
    unfold envOf
    rw [withs_setWiths, evalWithsA_append]
    simp only [evalWithsA]
    rw [← evalBodyA_setWiths o (d.toDbM c) _ (joinedSel c.toCtx) []]
    apply labelsJoin_eval o c d q _ (evalSelA o (d.toDbM c) s) pts h.rep hl
    · simp only [List.lookup]
      rw [show (Alias.named "main" == Alias.named "_time_series") = false by decide]
      simp only [beq_self_eq_true]
      rw [evalSelA_eq]; rfl
    · simp only [List.lookup, beq_self_eq_true]
      rw [evalBodyM_eq_A _ _ _ _ (by rfl), timeSeriesA_eval o c hn d q _ T _ hT2]
      simp only [List.lookup]
      rw [show (Alias.named "fp_sel" == Alias.named "main") = false by decide]
      exact hT1

def finalBody : Sel :=
  .mk [] false matrixFinalCols (some (.withRef (.named "prefinal"))) [] none none [] none
    [.orderBy (.raw "fingerprint") .asc, .orderBy (.raw "timestamp_ns") .asc] none

theorem finalizeMatrix_eq (req : Sel) : finalizeMatrix req = finalBody.with_ [(.named "prefinal", req)] := rfl

/-- **the final select** over a stage whose points carry their labels -/
theorem PStage.final {o c d q s pts L} (h : PStage o c d q s pts L) (h1 : Alias.named "prefinal" ∉ L) :
    (evalSelA o (d.toDbM c) (finalizeMatrix s)).map normRow = sortBy (rowLe matrixKeys) (pts.map Pt.row) := by
  rw [finalizeMatrix_eq]
  obtain ⟨_, _, w3, _⟩ := wrap_one o (d.toDbM c) finalBody s (.named "prefinal") h.nodup
    (h.fresh "prefinal" (by decide) h1) (by rfl)
  rw [w3]
  exact final_eval o _ _ _ pts h.rep (by simp [List.lookup]) _

end Qryn.LogQL

namespace Qryn.LogQL
open Qryn Qryn.Sql

theorem cmpStage_labels (cm : Option Comparison) (pts : List Pt) (P : Pt → Prop) (h : ∀ p ∈ pts, P p) :
    ∀ p ∈ cmpStage cm pts, P p := by
  intro p hp
  cases cm with
  | none => exact h p hp
  | some c => exact h p (List.mem_filter.mp hp).1

theorem foldl_cmpStep (c : MCtx) (q : MetricQuery) (cm : Option Comparison) (s : PState) :
    (cmpStep cm).foldl (applyStep c q) s = { s with sel := cmpOpt cm s.sel } := by
  cases cm <;> rfl

/-- **plan_metric_correct, class `rangeFn(selector [d]) [cmp]`** (rate, count_over_time, bytes_rate, bytes_over_time;
    the samples path; step ≤ range). -/
theorem planMetric_range_lra (o : Oracles) (c : MCtx) (hn : c.namesOk) (d : LokiDb) (r : RangeAgg) (fn : RangeFn)
    (hk : r.kind = .lra fn) (hm : r.sel.matchers.length ≤ 63) (hd : 0 < r.durNs)
    (hs : takesShortcut (.range r) = false) (hstep : c.stepNs ≤ (r.durNs : Int)) :
    (evalSelA o (d.toDbM c) (planMetric c (.range r))).map normRow = evalMetric o c d (.range r) := by
  have hplan : planMetric c (.range r) =
      finalizeMatrix (labelsJoin c.toCtx r.sel (cmpOpt r.cmp (lraSel fn r.durNs false (samplesMain c.toCtx r.sel)))) := by
    unfold planMetric
    simp only [MetricQuery.rangeAgg, planSteps, hs, Bool.false_eq_true, if_false, functionOrder, orderRange, hk,
      List.foldl_append, List.foldl_cons, List.foldl_nil, applyStep, foldl_cmpStep, splSel, stepFix_identity c _ _ hstep,
      matrixLabels, RangeAgg.isUnwrap, MetricQuery.agg?, Bool.false_and, Bool.or_self, Option.isSome_none]
  rw [hplan]
  have h1 := lraPhase_ok o c hn d r.sel hm fn r.durNs hd r.cmp
  have h2 := h1.join hn hm (cmpStage_labels _ _ _ (lraPts_labels fn r.durNs _)) (by decide) (by decide)
  rw [h2.final (by decide)]
  unfold evalMetric effWindow metricPoints
  simp only [hs, Bool.false_eq_true, if_false, MetricQuery.rangeAgg, MetricQuery.agg?, stepStage, hstep, if_true,
    rangePoints_lra o c.toCtx d r fn _ _ hk, entryMatchesW_window]
  rfl

end Qryn.LogQL

namespace Qryn.LogQL
open Qryn Qryn.Sql

/-! ### names handed out by `ctx.Id()` -/
macro "str_ne" : tactic => `(tactic| (intro h; have := congrArg String.toList h; simp at this))

theorem pw_lb (j k : Nat) : ∀ x y, ("pre_without_" ++ toString j) ++ "." ++ x ≠ ("labels_" ++ toString k) ++ "." ++ y := by
  intro x y; str_ne

theorem lb_ne_pw (j k : Nat) : "labels_" ++ toString k ≠ "pre_without_" ++ toString j := by str_ne

/-! ### points after a grouping -/
/-- a point of a regrouped series: key and labels both come from the kept label set (or both are absent) -/
def Regrouped (p : Pt) : Prop := (∃ h m, p.key = .int h ∧ p.labels = .map m) ∨ (p.key = .null ∧ p.labels = .null)

theorem regroupPt_regrouped (o : Oracles) (c : Ctx) (d : LokiDb) (q : LogQuery) (g : Grouping) (p : Pt) :
    Regrouped (regroupPt o c d q g p) := by
  unfold regroupPt regroup
  cases ptLabels o c d q p with
  | map m => exact Or.inl ⟨_, _, rfl, rfl⟩
  | _ => exact Or.inr ⟨rfl, rfl⟩

theorem ptLabels_of_regrouped (o : Oracles) (c : Ctx) (d : LokiDb) (q : LogQuery) (p : Pt) (h : Regrouped p) :
    ptLabels o c d q p = p.labels := by
  unfold ptLabels
  rcases h with ⟨h, m, h1, h2⟩ | ⟨h1, h2⟩
  · rw [h1, h2]
  · rw [h1, h2]

theorem aggCore_regrouped (fn : AggFn) (pts : List Pt) (h : ∀ p ∈ pts, Regrouped p) : ∀ p ∈ aggCore o fn pts, Regrouped p := by
  intro p hp
  unfold aggCore at hp
  obtain ⟨g, hg, hgp⟩ := List.mem_filterMap.mp hp
  obtain ⟨⟨a, rest, hgr, hk⟩, hall⟩ := groupsBy_head _ pts g hg
  cases hv : aggVal o fn (g.2.map (·.value)) with
  | none => rw [hv] at hgp; cases hgp
  | some v =>
    rw [hv] at hgp
    simp only [Option.map_some, Option.some.injEq] at hgp
    subst hgp
    have ha := h a (hall a (by rw [hgr]; simp)).1
    have hk1 : a.key = g.1.1 := by rw [← hk]
    simp only [hgr, List.head?_cons, Option.map_some, Option.getD_some]
    unfold Regrouped at ha ⊢
    simp only [← hk1]
    exact ha

/-! ### the aggregation phase with a grouping clause, on the time-series path -/
theorem aggSel_eq (fn : AggFn) (main : Sel) : aggSel fn true main = (aggBody fn none).with_ [(.named "lra_main", main)] := rfl

theorem aggPhase_eq (fn : AggFn) (cm : Option Comparison) (main : Sel) :
    cmpOpt cm (aggSel fn true main) = (aggBody fn (cmpHaving cm)).with_ [(.named "lra_main", main)] := by
  rw [aggSel_eq]
  unfold aggBody Sel.with_
  simp only [Sel.setWiths]
  rw [cmpOpt_eq]

theorem byWithoutTS_eq (c : Ctx) (id : Nat) (g : Grouping) (main : Sel) :
    byWithoutTS c id g main =
      (bwBody c ("pre_without_" ++ toString (id + 2)) ("labels_" ++ toString (id + 1))).with_
        [(.named ("pre_without_" ++ toString (id + 2)), main),
         (.named ("labels_" ++ toString (id + 1)), (timeSeriesSel c).setCols
            (patchCol (timeSeriesSel c).cols "labels" (byWithoutCol g) ++ [.col hashLabels "new_fingerprint"]))] := rfl

theorem PStage.byWithoutTS {o c d q s pts L} (h : PStage o c d q s pts L) (hn : c.namesOk) (hm : q.matchers.length ≤ 63)
    (hl : ∀ x ∈ pts, x.labels = .null) (id : Nat) (g : Grouping)
    (h2 : Alias.named ("pre_without_" ++ toString (id + 2)) ∉ L) (h2' : Alias.named ("labels_" ++ toString (id + 1)) ∉ L) :
    PStage o c d q (byWithoutTS c.toCtx id g s) (pts.map (regroupPt o c.toCtx d q g))
      (L ++ [.named ("pre_without_" ++ toString (id + 2)), .named ("labels_" ++ toString (id + 1))]) := by
  rw [byWithoutTS_eq]
  obtain ⟨T, hT1, hT2⟩ := h.fp_lookup hn hm
  apply h.wrap2 _ _ (by str_ne) h2 (by str_ne) h2' (lb_ne_pw _ _) _ (by rfl) _ (by rfl) (by rfl)
  apply bw_eval o c d q _ g _ _ (pw_lb _ _) _ pts h.rep hl
  · simp only [List.lookup]
    rw [show (Alias.named ("pre_without_" ++ toString (id + 2)) == Alias.named ("labels_" ++ toString (id + 1))) = false by
      rw [alias_named_beq, beq_eq_false_iff_ne]; exact (lb_ne_pw _ _).symm]
    simp
  · simp only [List.lookup, beq_self_eq_true]
    rw [labelsSel_eval o c hn d q _ T _ hT2 g]
    simp only [List.lookup]
    rw [show (Alias.named "fp_sel" == Alias.named ("pre_without_" ++ toString (id + 2))) = false by
      rw [alias_named_beq, beq_eq_false_iff_ne]; str_ne]
    exact hT1

theorem PStage.agg {o c d q s pts L} (h : PStage o c d q s pts L) (fn : AggFn)
    (cm : Option Comparison) (h2 : Alias.named "lra_main" ∉ L) :
    PStage o c d q (cmpOpt cm (aggSel fn true s)) (cmpStage cm (aggCore o fn pts)) (L ++ [.named "lra_main"]) := by
  rw [aggPhase_eq]
  apply h.wrap "lra_main" (by decide) h2 (aggBody fn (cmpHaving cm)) (cmpHaving_notBitSet cm)
  exact agg_eval o _ _ fn _ pts h.rep (by simp [List.lookup]) cm

end Qryn.LogQL

namespace Qryn.LogQL
open Qryn Qryn.Sql

theorem map_ptLabels_regrouped (o : Oracles) (c : Ctx) (d : LokiDb) (q : LogQuery) (pts : List Pt)
    (h : ∀ p ∈ pts, Regrouped p) : pts.map (fun p => { p with labels := ptLabels o c d q p }) = pts := by
  conv => rhs; rw [← List.map_id pts]
  apply List.map_congr_left
  intro p hp
  rw [ptLabels_of_regrouped o c d q p (h p hp)]
  rfl

/-- **plan_metric_correct, class `aggOp by/without (…) (rangeFn(selector [d]) [cmp]) [cmp]`** (samples path, step ≤ range) -/
theorem planMetric_agg_lra (o : Oracles) (c : MCtx) (hn : c.namesOk) (d : LokiDb) (a : VecAgg) (fn : RangeFn)
    (hk : a.inner.kind = .lra fn)
    (hm : a.inner.sel.matchers.length ≤ 63) (hd : 0 < a.inner.durNs)
    (hs : takesShortcut (.agg a) = false) (hstep : c.stepNs ≤ (a.inner.durNs : Int)) :
    (evalSelA o (d.toDbM c) (planMetric c (.agg a))).map normRow = evalMetric o c d (.agg a) := by
  have hplan : planMetric c (.agg a) =
      finalizeMatrix (cmpOpt a.cmp (aggSel a.fn true (byWithoutTS c.toCtx (labelConds a.inner.sel).length (aggGrouping a)
        (cmpOpt a.inner.cmp (lraSel fn a.inner.durNs false (samplesMain c.toCtx a.inner.sel)))))) := by
    unfold planMetric
    simp only [MetricQuery.rangeAgg, planSteps, hs, Bool.false_eq_true, if_false, functionOrder, orderAgg, orderRange, hk,
      List.foldl_append, List.foldl_cons, List.foldl_nil, applyStep, foldl_cmpStep, splSel, stepFix_identity c _ _ hstep,
      matrixLabels, RangeAgg.isUnwrap, MetricQuery.agg?, Option.isSome_some, Bool.false_and, Bool.false_or, if_true, planByWithout,
      Bool.not_false]
  rw [hplan]
  have h1 := lraPhase_ok o c hn d a.inner.sel hm fn a.inner.durNs hd a.inner.cmp
  have h2 := h1.byWithoutTS hn hm (cmpStage_labels _ _ _ (lraPts_labels fn a.inner.durNs _)) (labelConds a.inner.sel).length
    (aggGrouping a)
    (by simp only [List.mem_singleton, Alias.named.injEq]; str_ne) (by simp only [List.mem_singleton, Alias.named.injEq]; str_ne)
  have h3 := h2.agg a.fn a.cmp (by
    simp only [List.mem_append, List.mem_cons, List.not_mem_nil, or_false, Alias.named.injEq, not_or]
    refine ⟨by decide, ?_, ?_⟩ <;> (apply Ne.symm; str_ne))
  rw [h3.final (by
    simp only [List.mem_append, List.mem_cons, List.not_mem_nil, or_false, Alias.named.injEq, not_or]
    refine ⟨⟨by decide, ?_, ?_⟩, by decide⟩ <;> (apply Ne.symm; str_ne))]
  unfold evalMetric effWindow metricPoints
  simp only [hs, Bool.false_eq_true, if_false, MetricQuery.rangeAgg, MetricQuery.agg?, stepStage, hstep, if_true,
    rangePoints_lra o c.toCtx d a.inner fn _ _ hk, entryMatchesW_window, aggStage_eq]
  show _ = sortBy (rowLe matrixKeys) (List.map Pt.row (List.map (fun p => { p with labels := ptLabels o c.toCtx d a.inner.sel p })
    (cmpStage a.cmp (aggCore o a.fn (List.map (regroupPt o c.toCtx d a.inner.sel (aggGrouping a)) _)))))
  rw [map_ptLabels_regrouped]
  apply cmpStage_labels
  apply aggCore_regrouped
  intro p hp
  obtain ⟨x, _, rfl⟩ := List.mem_map.mp hp
  exact regroupPt_regrouped ..

end Qryn.LogQL
