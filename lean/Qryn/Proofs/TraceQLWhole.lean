import Qryn.Proofs.TraceQLJoin
/-! C11: the whole statement of `Plan(script).Process(ctx)` for scripts whose selectors have conditions. -/
namespace Qryn.TraceQL
open Qryn Qryn.Sql

/-- the span table and the attribute index are different tables -/
structure TablesDistinct (c : Ctx) : Prop where
  t1 : c.tracesTable ≠ c.attrsTable
  t2 : c.tracesTable ≠ c.attrsDistTable
  t3 : c.tracesDistTable ≠ c.attrsTable
  t4 : c.tracesDistTable ≠ c.attrsDistTable

theorem toDb_traces (d : TraceDb) (c : Ctx) (h : TablesDistinct c) :
    (d.toDb c) (tracesTableOf c) = d.spansT.map SpanRow.row ∧ (d.toDb c) c.tracesTable = d.spansT.map SpanRow.row := by
  unfold TraceDb.toDb tracesTableOf
  refine ⟨?_, ?_⟩
  · split <;> simp [h.t1, h.t2, h.t3, h.t4]
  · simp [h.t1, h.t2]

theorem usesJ_idxSel (c : Ctx) (es : List Expr) (cond : Cond) (aggAttr : String) : usesJ (idxSel c es cond aggAttr) = false := by
  have hcols : (idxCols ++ aggCol aggAttr).any isJ = false := by
    unfold aggCol
    split
    · simp [idxCols, simpleCol, isJ, isJcall]
    · split <;> simp [idxCols, simpleCol, isJ, isJcall]
  have hwh : whereTuple (some (.logical "and" ([windowE c, or_ (es ++ aggWhere aggAttr)] ++ randomFilter c))) = false := by
    unfold randomFilter
    split
    · simp [whereTuple, clauseTuple, isTupleIn, windowE, and_, or_, ge, le, lt, eq]
    · split <;> simp [whereTuple, clauseTuple, isTupleIn, windowE, and_, or_, ge, le, lt, eq]
  simp only [idxSel, usesJ, hcols, hwh]
  simp [whereTuple, isJ]

theorem usesJ_setLimit (s : Sel) (l : Option Expr) : usesJ (s.setLimit l) = usesJ s := by
  obtain ⟨w, d, c, f, j, p, wh, g, h, ob, lim⟩ := s; rfl

theorem usesJ_indexLimit (c : Ctx) (s : Sel) : usesJ (indexLimit c s) = usesJ s := by
  unfold indexLimit; split
  · rfl
  · exact usesJ_setLimit _ _

theorem withs_indexLimit (c : Ctx) (s : Sel) : (indexLimit c s).withs = s.withs := by
  unfold indexLimit; split
  · rfl
  · obtain ⟨w, d, c', f, j, p, wh, g, h, ob, lim⟩ := s; rfl

theorem usesJ_grpSel (pfx : String) (hav : Option Expr) (SA : Sel) : usesJ (grpSel pfx [] hav SA) = false := by
  simp [grpSel, usesJ, grpCols, simpleCol, isJ, isJcall, whereTuple]

theorem usesJ_complexSel (isAnd : Bool) (pfx : String) (ops : List Sel) : usesJ (complexSel isAnd pfx ops) = false := by
  simp [complexSel, usesJ, simpleCol, isJ, isJcall, whereTuple]

theorem notReserved_is (pfx : String) (hp : pfx = "" ∨ ∃ k : Nat, pfx = pfxText k) : NotReserved (.named (pfx ++ "index_search")) := by
  have key : ∀ (n : String), n.toList.length ≠ (pfx ++ "index_search").toList.length ∨ n.toList.head? ≠ (pfx ++ "index_search").toList.head? →
      Alias.named (pfx ++ "index_search") ≠ .named n := by
    intro n h heq
    cases heq
    rcases h with h | h <;> exact h rfl
  rcases hp with rfl | ⟨k, rfl⟩
  · refine ⟨by decide, by decide, by decide, by decide⟩
  · have hhead : ((pfxText k) ++ "index_search").toList.head? = some '_' := by
      simp [pfxText, String.toList_append]
    refine ⟨key _ (Or.inr ?_), key _ (Or.inr ?_), key _ (Or.inr ?_), key _ (Or.inr ?_)⟩ <;> rw [hhead] <;> decide

/-- the shape of a root select: a selector's select (with its index scan as one sub-query) or a `&&` / `||` node -/
theorem rootSel_shape (c : Ctx) (script : Script) (X : Sel) (h : rootSel c script = .ok X) (hok : ∀ p ∈ script, SelOk p.1) :
    usesJ X = false ∧ (X.withs = [] ∨ ∃ a s, X.withs = [(a, s)] ∧ NotReserved a ∧ usesJ s = false) := by
  have simple : ∀ (pfx : String) (s : Selector) (op : ScriptOp) (rest : Script), (pfx = "" ∨ ∃ k : Nat, pfx = pfxText k) → SelOk s →
      simpleSel c pfx ((s, op) :: rest) = .ok X →
      usesJ X = false ∧ (X.withs = [] ∨ ∃ a s, X.withs = [(a, s)] ∧ NotReserved a ∧ usesJ s = false) := by
    intro pfx s op rest hpfx hs hX
    obtain ⟨e, he, _⟩ := hs.attrs
    obtain ⟨es, _, _, hX⟩ := simpleSel_shape c pfx s op rest X e hX he
    rcases hX with ⟨_, rfl⟩ | ⟨a, f, v, _, _, _, _, rfl⟩
    · exact ⟨usesJ_grpSel _ _ _, Or.inr ⟨_, _, rfl, notReserved_is pfx hpfx, usesJ_idxSel _ _ _ _⟩⟩
    · exact ⟨usesJ_grpSel _ _ _, Or.inr ⟨_, _, rfl, notReserved_is pfx hpfx, usesJ_idxSel _ _ _ _⟩⟩
  match script, h, hok with
  | [], h, _ => simp [rootSel] at h
  | [(s, op)], h, hok =>
    simp only [rootSel] at h
    exact simple "" s op [] (Or.inl rfl) (hok (s, op) (by simp)) h
  | p1 :: p2 :: rest, h, hok =>
    simp only [rootSel, bind, Except.bind] at h
    cases hpt : planTree (p1 :: p2 :: rest) with
    | error m => simp [hpt] at h
    | ok t =>
      simp only [hpt] at h
      cases t with
      | simple sc k =>
        have hpt' := hpt
        simp only [planTree, bind, Except.bind] at hpt'
        cases hg : groupsS (p1 :: p2 :: rest) with
        | error m => simp [hg] at hpt'
        | ok gs =>
          simp [hg, pure, Except.pure] at hpt'
          obtain ⟨_, h2, h3, h4⟩ := groupsS_spec (fun s => true) (p1 :: p2 :: rest) gs hg
          have hsc : sc ∈ (orFold 0 none gs).leaves := by rw [hpt']; simp [XTree.leaves]
          rcases (orFold_spec (fun s => true) gs 0 none h3 h2).2 sc hsc with ⟨g, hg', hscg⟩ | ⟨p, l, hl, _⟩
          · obtain ⟨s, op, rest', e1, e2⟩ := h4 g hg' sc hscg
            subst e1
            simp only [treeSel] at h
            exact simple (pfxText k) s op rest' (Or.inr ⟨k, rfl⟩) (hok (s, op) e2) h
          · simp at hl
      | complex isAnd k l r =>
        simp only [treeSel, bind, Except.bind] at h
        cases hl : treeSel c l with
        | error m => simp [hl] at h
        | ok ls =>
          cases hr : treeSel c r with
          | error m => simp [hl, hr] at h
          | ok rs =>
            simp [hl, hr, pure, Except.pure] at h
            subst h
            exact ⟨usesJ_complexSel _ _ _, Or.inl (by simp [complexSel, Sel.withs])⟩

theorem pairsOf_fst (T : Table) (hT : TraceShaped T) : (pairsOf T).map (·.1) = idsOf T := by
  induction T with
  | nil => rfl
  | cons r rs ih =>
    obtain ⟨tr, vs, h1, h2⟩ := hT r (by simp)
    rw [pairsOf_cons r rs tr vs h1 h2]
    simp only [List.map_cons, idsOf, List.filterMap_cons, traceIdOf, h1]
    have := ih (fun x hx => hT x (List.mem_cons_of_mem _ hx))
    simp only [idsOf] at this
    rw [this]

theorem mem_pairsOf (T : Table) (k : Bytes × List Bytes) (hk : k ∈ pairsOf T) :
    ∃ r ∈ T, r.get "trace_id" = .str k.1 ∧ r.get "span_id" = .strs k.2 := by
  simp only [pairsOf, List.mem_filterMap] at hk
  obtain ⟨r, hr, h⟩ := hk
  refine ⟨r, hr, ?_⟩
  cases h1 : r.get "trace_id" <;> cases h2 : r.get "span_id" <;> rw [h1, h2] at h <;> simp at h
  subst h
  exact ⟨rfl, rfl⟩

section
variable (o : Oracles) (ao : AggOracles) (hp : PermInv ao) (c : Ctx) (d : TraceDb) (hcons : DurConsistent (d.seen o c))
  (hts : TsConsistent (d.seen o c))
include hp hcons hts

/-- **the whole statement** of a script whose selectors have conditions -/
theorem plan_rows (script : Script) (S : Sel) (h : plan c script = .ok S) (hok : ∀ p ∈ script, SelOk p.1)
    (hlim : 0 < c.limit) (htab : TablesDistinct c) :
    ∃ K : List (Bytes × List Bytes),
      IsTopN (traceRec o ao c (d.seen o c) script) (fun tr => traceMatches o ao c (d.seen o c) script tr = true) c.limit.toNat (K.map (·.1)) ∧
      (∀ k ∈ K, SpanSetOk (traceSpans o ao c (d.seen o c) script k.1)
        (scriptL (fun s tr => selMatches o ao c (d.seen o c) s tr) (fun s tr => [selSpans o c (d.seen o c) s tr]) script k.1) k.2) ∧
      (evalStmtJ o ao (d.toDb c) S).map (fun r => r.take 5) = (assemble K d.spansT (some c.limit.toNat)).map TraceOut.row := by
  simp only [plan, indexGrouped, bind, Except.bind, pure, Except.pure] at h
  cases hr : rootSel c script with
  | error m => simp [hr] at h
  | ok X =>
    simp [hr] at h
    subst h
    obtain ⟨hu, hW⟩ := rootSel_shape c script X hr hok
    obtain ⟨htop, hspans, _⟩ := index_grouped_topN o ao hp c d hcons hts script X hr hok [] hlim
    have hrec := root_recSel o ao hp c d hcons hts script X hr hok
    have hTs : TraceShaped (evalSelG o ao (d.toDb c) true [] (indexLimit c X)) := by
      intro r hr'
      obtain ⟨tr, vs, h1, h2, _⟩ := hspans r hr'
      exact ⟨tr, vs, h1, h2⟩
    -- `index_grouped` as a sub-query of the statement is the select evaluated on its own
    have hgrouped := rootSel_grouped c script X hr
    have hmain : evalCteJ o ao (d.toDb c) (evalWithsJ o ao (d.toDb c) [] (indexLimit c X).withs) (indexLimit c X) =
        evalSelG o ao (d.toDb c) true [] (indexLimit c X) := by
      rw [withs_indexLimit]
      have henv : evalWithsJ o ao (d.toDb c) [] X.withs = evalWithsG o ao (d.toDb c) [] X.withs := by
        rcases hW with h0 | ⟨a, s, h0, _, hus⟩
        · rw [h0]; rfl
        · rw [h0]; simp [evalWithsJ, evalWithsG, evalCteJ, hus]
      rw [henv, evalCteJ, usesJ_indexLimit, hu]
      simp only [Bool.false_eq_true, if_false]
      rw [indexLimit_eval o ao (d.toDb c) false _ c X hgrouped, indexLimit_eval o ao (d.toDb c) true [] c X hgrouped]
      have := hrec.base.own [] []
      rw [addCols_nil] at this
      rw [this]
    obtain ⟨hdb1, hdb2⟩ := toDb_traces d c htab
    have hstmt := stmt_eval o ao (d.toDb c) c (indexLimit c X) d.spansT hdb1 hdb2
      (by
        rw [withs_indexLimit]
        rcases hW with h0 | ⟨a, s, h0, hn, _⟩
        · exact Or.inl h0
        · exact Or.inr ⟨a, s, h0, hn⟩)
      _ hTs hmain
    have hlimn : limNat (limOf c) = some c.limit.toNat := by
      have : c.limit ≠ 0 := by omega
      simp [limOf, this, limNat]
    rw [hlimn] at hstmt
    refine ⟨pairsOf (evalSelG o ao (d.toDb c) true [] (indexLimit c X)), ?_, ?_, hstmt⟩
    · rw [pairsOf_fst _ hTs]; exact htop
    · intro k hk
      obtain ⟨r, hr', h1, h2⟩ := mem_pairsOf _ k hk
      obtain ⟨tr, vs, h1', h2', hok'⟩ := hspans r hr'
      rw [h1] at h1'; cases h1'
      rw [h2] at h2'; cases h2'
      exact hok'
end

end Qryn.TraceQL
