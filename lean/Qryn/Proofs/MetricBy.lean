import Qryn.Proofs.MetricAgg
/-! C08 plan-level proofs: `by (…)` / `without (…)` on the time-series path (`ByWithoutPlanner.processTSTable`). -/
namespace Qryn.Sql
open Qryn.LogQL

theorem dot_name (a k : String) : a ++ ("." ++ k) = a ++ "." ++ k := (String.append_assoc ..).symm

theorem dotted_mem (a k : String) : '.' ∈ (a ++ "." ++ k).toList := by simp

theorem aliasVals_std (o : Oracles) (env : Env) (cols : List Expr) (X : Row)
    (h : ∀ c ∈ cols, ∀ e a, c = .col e a → Std5 a) : StdRow (aliasVals o env cols X) := by
  intro p hp
  unfold aliasVals at hp
  obtain ⟨c, hc, hcp⟩ := List.mem_filterMap.mp hp
  cases c with
  | col e a =>
    simp only at hcp
    split at hcp
    · cases hcp
    · cases hcp; exact h _ hc e a rfl
  | _ => simp at hcp

/-- a qualified name is never shadowed by an alias of the select list -/
theorem scope_get_dotted (o : Oracles) (env : Env) (cols : List Expr) (self : String) (X : Row) (a k : String)
    (h : ∀ c ∈ cols, ∀ e a, c = .col e a → Std5 a) :
    (scope o env cols self X).get (a ++ "." ++ k) = X.get (a ++ "." ++ k) := by
  unfold scope
  rw [get_append, lookup_dotted_std a k _ (fun p hp => aliasVals_std o env cols X h p (List.mem_filter.mp hp).1)]

theorem get_prefixRow (b k : String) (r : Row) :
    Row.get (r.map (fun (p : String × Val) => (b ++ "." ++ p.1, p.2))) (b ++ "." ++ k) = r.get k := by
  unfold Row.get
  rw [lookup_prefixed]

theorem lookup_prefixRow_other (a b k : String) (r : Row) (h : ∀ k', a ++ "." ++ k ≠ b ++ "." ++ k') :
    List.lookup (a ++ "." ++ k) (r.map (fun (p : String × Val) => (b ++ "." ++ p.1, p.2))) = none := by
  induction r with
  | nil => rfl
  | cons p r ih =>
    obtain ⟨k', v⟩ := p
    simp only [List.map_cons, List.lookup]
    have : (a ++ "." ++ k == b ++ "." ++ k') = false := by
      rw [beq_eq_false_iff_ne]; exact h k'
    rw [this]; exact ih

/-- the row an `a ANY LEFT JOIN b ON a.fingerprint = b.fingerprint` makes of a left row -/
def joinedRow (a b : String) (r : Row) (right : Option Row) : Row :=
  qualify a r ++ match right with
    | some rr => rr.map (fun (p : String × Val) => (b ++ "." ++ p.1, p.2))
    | none => []

theorem joinedRow_get_left (a b k : String) (r : Row) (right : Option Row) (h : StdRow r)
    (hab : ∀ k k', a ++ "." ++ k ≠ b ++ "." ++ k') : (joinedRow a b r right).get (a ++ "." ++ k) = r.get k := by
  unfold joinedRow
  rw [get_append, lookup_qualified a k r h]
  unfold Row.get
  cases r.lookup k with
  | some v => rfl
  | none =>
    cases right with
    | none => rfl
    | some rr => simp only; rw [lookup_prefixRow_other a b k rr (hab k)]

theorem joinedRow_get_right (a b k : String) (r : Row) (right : Option Row) (h : StdRow r)
    (hab : ∀ k k', a ++ "." ++ k ≠ b ++ "." ++ k') :
    (joinedRow a b r right).get (b ++ "." ++ k) = match right with | some rr => rr.get k | none => .null := by
  unfold joinedRow
  rw [get_append, lookup_qualified_other a (b ++ "." ++ k) r h (dotted_mem b k) (fun k' _ => hab k' k)]
  cases right with
  | none => rfl
  | some rr => exact get_prefixRow b k rr

/-- **ANY LEFT JOIN on the fingerprint**: every left row gets the first right row with its fingerprint (none: nothing) -/
theorem anyLeftJoin_fp {α} (o : Oracles) (env : Env) (a b : String) (hab : ∀ k k', a ++ "." ++ k ≠ b ++ "." ++ k')
    (T : Table) (hstd : ∀ r ∈ T, StdRow r) (R : List α) (rowFn : α → Row) (fpOf : α → Int)
    (hfp : ∀ t, (rowFn t).get "fingerprint" = .int (fpOf t))
    (hR : env.lookup (.named b) = some (R.map rowFn)) :
    anyLeftJoin o env (T.map (qualify a)) (.named b) (eq (.raw (a ++ "." ++ "fingerprint")) (.raw (b ++ "." ++ "fingerprint"))) =
      T.map (fun r => joinedRow a b r ((R.find? (fun t => r.get "fingerprint" == .int (fpOf t))).map rowFn)) := by
  rw [anyLeftJoin_eq, hR]
  simp only [Option.getD_some, List.map_map, Alias.text]
  apply List.map_congr_left
  intro r hr
  simp only [Function.comp_apply]
  have hfind : List.find? (fun rr => evalB o env (qualify a r ++ rr)
        (eq (.raw (a ++ "." ++ "fingerprint")) (.raw (b ++ "." ++ "fingerprint"))))
      (List.map (prefixRow b ∘ rowFn) R) =
      (R.find? (fun t => r.get "fingerprint" == .int (fpOf t))).map (prefixRow b ∘ rowFn) := by
    rw [List.find?_map]
    congr 2
    funext t
    simp only [Function.comp_apply, evalB_eq, evalE_raw]
    have e1 := joinedRow_get_left a b "fingerprint" r (some (rowFn t)) (hstd r hr) hab
    have e2 := joinedRow_get_right a b "fingerprint" r (some (rowFn t)) (hstd r hr) hab
    simp only [joinedRow] at e1 e2
    unfold prefixRow
    rw [e1, e2, hfp]
    cases r.get "fingerprint" <;> simp [cmpOp]
  rw [hfind]
  unfold joinedRow
  cases List.find? (fun t => r.get "fingerprint" == Val.int (fpOf t)) R with
  | none => simp
  | some t => simp [prefixRow]

end Qryn.Sql

namespace Qryn.LogQL
open Qryn Qryn.Sql

/-- the time-series select with any aggregate-free select list: the admissible series rows of the selected streams -/
theorem tsSel_eval (o : Oracles) (c : MCtx) (hn : c.namesOk) (d : LokiDb) (q : LogQuery) (env : Env) (T : Table)
    (hT : env.lookup (.named "fp_sel") = some T) (hP : FpTable T (fpSelected o c.toCtx d q)) (ws : List (Alias × Sel))
    (cols : List Expr) (hagg : cols.any hasAgg = false) :
    evalBodyA o (d.toDbM c) env (((timeSeriesSel c.toCtx).setCols cols).setWiths ws) =
      (d.ts.filter (tsOk o c.toCtx d q)).map (fun t => projectA o env cols (qualify "time_series" t.row)) := by
  simp only [timeSeriesSel, Sel.setCols, Sel.setWiths, evalBodyA, List.isEmpty_nil, hagg, Bool.not_false, Bool.and_self, if_true,
    List.foldl_nil, sourceRowsA, sourceRows, toDbM_tsDist d c hn, List.map_map, List.filter_map, Function.comp_def,
    optB, Bool.and_true, evalB_and, evalAll_cons, evalAll_nil, evalB_ge, evalE_raw, evalE_str, qts_date, cmpOp_ge_str,
    getTypes_eval o env _ c.toCtx _ (qts_type _), evalB_isIn_ref, hT, Option.getD_some, qts_fp, hP.contains]
  refine congrArg _ (List.filter_congr ?_)
  intro t _
  simp only [tsOk, Bool.and_assoc]
  rfl

/-- a row of `labels_<id>`: the stream, the labels the grouping keeps, cityHash64 of exactly those -/
def lblRow (o : Oracles) (g : Grouping) (t : TsRow) : Row :=
  [("fingerprint", .int t.fp), ("labels", .map (keptLabels g (o.jsonLabels t.labels))),
   ("new_fingerprint", .int (o.cityHash (keptLabels g (o.jsonLabels t.labels))))]

theorem labelsSel_eval (o : Oracles) (c : MCtx) (hn : c.namesOk) (d : LokiDb) (q : LogQuery) (env : Env) (T : Table)
    (hT : env.lookup (.named "fp_sel") = some T) (hP : FpTable T (fpSelected o c.toCtx d q)) (g : Grouping) :
    evalBodyA o (d.toDbM c) env ((timeSeriesSel c.toCtx).setCols
        (patchCol (timeSeriesSel c.toCtx).cols "labels" (byWithoutCol g) ++ [.col hashLabels "new_fingerprint"])) =
      (d.ts.filter (tsOk o c.toCtx d q)).map (lblRow o g) := by
  rw [byWithoutTS_labels_cols]
  have := tsSel_eval o c hn d q env T hT hP [] (byWithoutLabelCols g) (by simp [byWithoutLabelCols, hasAgg, simpleCol, hashLabels, byWithoutCol, aggNames])
  rw [show ((timeSeriesSel c.toCtx).setCols (byWithoutLabelCols g)).setWiths [] = (timeSeriesSel c.toCtx).setCols (byWithoutLabelCols g) from rfl] at this
  rw [this]
  apply List.map_congr_left
  intro t _
  exact byWithoutTS_row o env g _ t.labels (.int t.fp) (qts_labels t) (qts_fp t)

/-! ### the regrouping select -/
def bwCols (p l : String) : List Expr :=
  [simpleCol (l ++ ".new_fingerprint") "fingerprint", simpleCol (p ++ ".timestamp_ns") "timestamp_ns",
   simpleCol (p ++ ".value") "value", emptyStr, simpleCol (l ++ ".labels") "labels"]

def bwBody (c : Ctx) (p l : String) : Sel :=
  .mk [] false (bwCols p l) (some (.withRef (.named p)))
    [(joinType c, .named l, eq (.raw (p ++ ".fingerprint")) (.raw (l ++ ".fingerprint")))]
    none none [] none [] none

theorem bw_project (o : Oracles) (env : Env) (p l : String) (hpl : ∀ k k', p ++ "." ++ k ≠ l ++ "." ++ k')
    (r : Row) (h : StdRow r) (right : Option Row) :
    projectA o env (bwCols p l) (joinedRow p l r right) =
      [("fingerprint", match right with | some rr => rr.get "new_fingerprint" | none => .null),
       ("timestamp_ns", r.get "timestamp_ns"), ("value", r.get "value"), ("string", .str []),
       ("labels", match right with | some rr => rr.get "labels" | none => .null)] := by
  have hc : ∀ c ∈ bwCols p l, ∀ e a, c = .col e a → Std5 a := by
    intro c hc e a he
    simp only [bwCols, simpleCol, emptyStr, List.mem_cons, List.not_mem_nil, or_false] at hc
    rcases hc with rfl | rfl | rfl | rfl | rfl <;> cases he <;> simp [Std5]
  have n1 : l ++ ".new_fingerprint" = l ++ "." ++ "new_fingerprint" := dot_name l "new_fingerprint"
  have n2 : p ++ ".timestamp_ns" = p ++ "." ++ "timestamp_ns" := dot_name p "timestamp_ns"
  have n3 : p ++ ".value" = p ++ "." ++ "value" := dot_name p "value"
  have n4 : l ++ ".labels" = l ++ "." ++ "labels" := dot_name l "labels"
  have e1 := scope_get_dotted o env (bwCols p l) "fingerprint" (joinedRow p l r right) l "new_fingerprint" hc
  have e2 := scope_get_dotted o env (bwCols p l) "timestamp_ns" (joinedRow p l r right) p "timestamp_ns" hc
  have e3 := scope_get_dotted o env (bwCols p l) "value" (joinedRow p l r right) p "value" hc
  have e4 := scope_get_dotted o env (bwCols p l) "labels" (joinedRow p l r right) l "labels" hc
  rw [joinedRow_get_right p l _ r right h hpl] at e1 e4
  rw [joinedRow_get_left p l _ r right h hpl] at e2 e3
  unfold projectA
  simp only [bwCols, List.map_cons, List.map_nil, colName, simpleCol, emptyStr, evalE_col, evalE_raw, n1, n2, n3, n4] at e1 e2 e3 e4 ⊢
  rw [e1, e2, e3, e4]
  simp [evalE]

/-- **by / without on the time-series path.** Every point moves to the series of the label set the grouping keeps of its
    stream's labels: key = cityHash64 of the kept set, labels = the kept set. -/
theorem bw_eval (o : Oracles) (c : MCtx) (d : LokiDb) (q : LogQuery) (env : Env) (g : Grouping) (p l : String)
    (hpl : ∀ k k', p ++ "." ++ k ≠ l ++ "." ++ k')
    (T : Table) (pts : List Pt) (h : Rep T pts) (hl : ∀ x ∈ pts, x.labels = .null)
    (hM : env.lookup (.named p) = some T)
    (hL : env.lookup (.named l) = some ((d.ts.filter (tsOk o c.toCtx d q)).map (lblRow o g))) :
    Rep (evalBodyA o (d.toDbM c) env (bwBody c.toCtx p l)) (pts.map (regroupPt o c.toCtx d q g)) := by
  have hagg : ((bwCols p l).any hasAgg) = false := by simp [bwCols, simpleCol, emptyStr, hasAgg]
  have n5 : p ++ ".fingerprint" = p ++ "." ++ "fingerprint" := dot_name p "fingerprint"
  have n6 : l ++ ".fingerprint" = l ++ "." ++ "fingerprint" := dot_name l "fingerprint"
  simp only [bwBody, evalBodyA, List.isEmpty_nil, hagg, Bool.not_false, Bool.and_self, if_true,
    List.foldl_cons, List.foldl_nil, sourceRowsA, sourceRows, hM, Option.getD_some, optB, filter_true, Alias.text, n5, n6]
  rw [anyLeftJoin_fp o env p l hpl T h.std _ (lblRow o g) (fun t => t.fp) (fun t => by simp [lblRow, get_cons]) hL]
  rw [List.map_map]
  refine ⟨?_, ?_⟩
  · rw [List.map_map, List.map_map]
    apply map_rel rview Pt.view _ _ T pts h.view
    intro r hr x hx hv
    simp only [Function.comp_apply]
    rw [bw_project o env p l hpl r (h.std r hr)]
    simp only [rview, Pt.view, Prod.mk.injEq] at hv
    obtain ⟨h1, h2, h3, h4⟩ := hv
    have hxl := hl x hx
    have hfind : List.find? (fun t => r.get "fingerprint" == Val.int t.fp) (List.filter (tsOk o c.toCtx d q) d.ts) =
        match x.key with
        | .int fp => d.ts.find? (fun t => decide (fromDate c.toCtx ≤ t.date) && typeOk c.toCtx t.tp && fpSelected o c.toCtx d q t.fp && t.fp == fp)
        | _ => none := by
      rw [h1]
      cases hk : x.key with
      | int fp =>
        simp only [List.find?_filter]
        congr 1
        funext t
        rw [Bool.eq_iff_iff]
        simp only [tsOk, int_beq, Bool.and_eq_true, beq_iff_eq, decide_eq_true_eq]
        constructor <;> (rintro ⟨a, b⟩; exact ⟨a, b.symm⟩)
      | _ =>
        simp only
        apply List.find?_eq_none.mpr
        intro t _
        simp
    rw [hfind]
    unfold regroupPt ptLabels
    rw [hxl]
    cases hk : x.key with
    | int fp =>
      simp only [labelsOf]
      cases List.find? (fun t => decide (fromDate c.toCtx ≤ t.date) && typeOk c.toCtx t.tp && fpSelected o c.toCtx d q t.fp && t.fp == fp) d.ts with
      | none => simp [rview, Pt.view, get_cons, regroup, h2, h3]
      | some t => simp [rview, Pt.view, get_cons, regroup, h2, h3, lblRow, keptLabels]
    | _ => simp [rview, Pt.view, get_cons, regroup, h2, h3]
  · intro r hr
    obtain ⟨r0, _, rfl⟩ := List.mem_map.mp hr
    simp only [Function.comp_apply]
    intro kv hkv
    simp only [projectA, bwCols, List.map_cons, List.map_nil, colName, simpleCol, emptyStr, List.mem_cons, List.not_mem_nil, or_false] at hkv
    rcases hkv with rfl | rfl | rfl | rfl | rfl <;> simp [Std5]

end Qryn.LogQL
