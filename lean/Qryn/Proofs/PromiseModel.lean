import Qryn.Ingest.PromiseModel
/-! Invariant of the statement-by-statement model of `promise.Promise` (C01): one winner, no torn read, no double close. -/
namespace Qryn.Ingest.PromiseModel

def upd (g : Nat → Option Th) (i : Nat) (t : Th) : Nat → Option Th := fun k => if k = i then some t else g k

theorem upd_self (g i t) : upd g i t i = some t := by simp [upd]
theorem upd_ne (g i t) {k} (h : k ≠ i) : upd g i t k = g k := by simp [upd, h]

theorem mid_pc {r e pc} : mid (Th.done r e pc) = true ↔ pc = .setRes ∨ pc = .setErr ∨ pc = .close := by
  cases pc <;> simp [mid]


theorem gpc_vac₁ {pc : GPc} {P Q : Prop} (h1 : pc ≠ .readErr) (h2 : pc ≠ .ret) :
    ((pc = .readErr ∨ pc = .ret) → P) ∧ (pc = .ret → Q) :=
  ⟨fun h => by rcases h with h | h; exact absurd h h1; exact absurd h h2, fun h => absurd h h2⟩

theorem bool_contra {b : Bool} {P : Prop} (h1 : b = true) (h2 : b = false) : P := by rw [h1] at h2; cases h2

/-- a get thread stepping never disturbs the done threads -/
theorem inv_get_step {c : Cell} {g : Nat → Option Th} (hI : Inv c g) {i : Nat} {pc : GPc} {r e : Nat}
    (hi : g i = some (.get pc r e)) (pc' : GPc) (r' e' : Nat)
    (hnew : (c.closed = false → pc' = .wait) ∧
      ∀ w : Nat × Nat, c.winner = some w → ((pc' = .readErr ∨ pc' = .ret) → r' = w.1) ∧ (pc' = .ret → e' = w.2)) :
    Inv c (upd g i (.get pc' r' e')) := by
  have hdone : ∀ k r e pc, upd g i (.get pc' r' e') k = some (Th.done r e pc) → g k = some (Th.done r e pc) := by
    intro k r e pc h
    by_cases hk : k = i
    · subst hk; simp [upd] at h
    · rwa [upd_ne _ _ _ hk] at h
  have hdone' : ∀ k r e pc, g k = some (Th.done r e pc) → upd g i (.get pc' r' e') k = some (Th.done r e pc) := by
    intro k r e pc h
    have hk : k ≠ i := by intro hk; subst hk; rw [hi] at h; cases h
    rwa [upd_ne _ _ _ hk]
  have hmid : ∀ k t, upd g i (.get pc' r' e') k = some t → mid t = true → g k = some t := by
    intro k t h hm
    by_cases hk : k = i
    · subst hk; simp [upd] at h; subst h; simp [mid] at hm
    · rwa [upd_ne _ _ _ hk] at h
  refine ⟨hI.nofault, ?_, ?_, ?_, ?_⟩
  · intro hp
    obtain ⟨h1, h2, h3⟩ := hI.pend hp
    exact ⟨h1, h2, fun k r e pc h => h3 k r e pc (hdone k r e pc h)⟩
  · intro hp
    obtain ⟨w, hw, h1, h2⟩ := hI.won hp
    refine ⟨w, hw, ?_, ?_⟩
    · intro hc
      obtain ⟨j, pcj, hj, hm, huniq, hr, he⟩ := h1 hc
      exact ⟨j, pcj, hdone' j _ _ _ hj, hm, fun k t hk hmt => huniq k t (hmid k t hk hmt) hmt, hr, he⟩
    · intro hc
      obtain ⟨hn, hr, he⟩ := h2 hc
      refine ⟨?_, hr, he⟩
      intro k t hk
      by_cases hki : k = i
      · subst hki; simp [upd] at hk; subst hk; rfl
      · rw [upd_ne _ _ _ hki] at hk; exact hn k t hk
  · intro k pck rk ek hk
    by_cases hki : k = i
    · subst hki
      simp only [upd_self, Option.some.injEq, Th.get.injEq] at hk
      obtain ⟨rfl, rfl, rfl⟩ := hk
      exact hnew
    · rw [upd_ne _ _ _ hki] at hk; exact hI.gets k pck rk ek hk
  · intro w hw
    obtain ⟨j, pcj, hj⟩ := hI.origin w hw
    exact ⟨j, pcj, hdone' j _ _ _ hj⟩


/-- the goroutine past the compare-and-swap is the winner, alone there, and the promise is not closed yet -/
theorem mid_facts {c : Cell} {g : Nat → Option Th} (hI : Inv c g) {i r e : Nat} {pc : DPc}
    (hi : g i = some (Th.done r e pc)) (hm : mid (Th.done r e pc) = true) :
    c.pending = false ∧ c.closed = false ∧ c.winner = some (r, e) ∧
    (∀ k t, g k = some t → mid t = true → k = i) ∧ (pc ≠ .setRes → c.res = r) ∧ (pc = .close → c.err = e) := by
  have hp : c.pending = false := by
    cases hp : c.pending with
    | false => rfl
    | true => have := (hI.pend hp).2.2 i r e pc hi; subst this; simp [mid] at hm
  obtain ⟨w, hw, h1, h2⟩ := hI.won hp
  have hc : c.closed = false := by
    cases hc : c.closed with
    | false => rfl
    | true => have := (h2 hc).1 i _ hi; rw [hm] at this; cases this
  obtain ⟨j, pcj, hj, _, huniq, hr, he⟩ := h1 hc
  have hji : i = j := huniq i _ hi hm
  subst hji
  rw [hi] at hj
  simp only [Option.some.injEq, Th.done.injEq] at hj
  obtain ⟨h1', h2', h3'⟩ := hj
  have hwe : w = (r, e) := by cases w; simp_all
  subst h3'
  refine ⟨hp, hc, by rw [hw, hwe], huniq, ?_, ?_⟩
  · intro h; rw [hr h, h1']
  · intro h; rw [he h, h2']

/-- one statement of one goroutine keeps the invariant -/
theorem inv_step {c : Cell} {g : Nat → Option Th} (hI : Inv c g) {i : Nat} {t : Th} (hi : g i = some t) :
    Inv (stepTh c t).1 (upd g i (stepTh c t).2) := by
  cases t with
  | get pc r e =>
    cases pc with
    | wait =>
      simp only [stepTh]
      split
      · rename_i hc
        exact inv_get_step hI hi .readRes r e ⟨fun h => bool_contra hc h, fun w _ => gpc_vac₁ (by simp) (by simp)⟩
      · exact inv_get_step hI hi .wait r e ⟨fun _ => rfl, fun w _ => gpc_vac₁ (by simp) (by simp)⟩
    | readRes =>
      simp only [stepTh]
      have hcl : c.closed = true := by
        cases hc : c.closed with
        | true => rfl
        | false => have := (hI.gets i _ _ _ hi).1 hc; cases this
      have hp : c.pending = false := by
        cases hp : c.pending with
        | false => rfl
        | true => have := (hI.pend hp).2.1; rw [hcl] at this; cases this
      obtain ⟨w, hw, _, h2⟩ := hI.won hp
      refine inv_get_step hI hi .readErr c.res e ⟨fun h => bool_contra hcl h, ?_⟩
      intro w' hw'
      rw [hw] at hw'; cases hw'
      exact ⟨fun _ => (h2 hcl).2.1, fun h => (by cases h)⟩
    | readErr =>
      simp only [stepTh]
      have hcl : c.closed = true := by
        cases hc : c.closed with
        | true => rfl
        | false => have := (hI.gets i _ _ _ hi).1 hc; cases this
      have hp : c.pending = false := by
        cases hp : c.pending with
        | false => rfl
        | true => have := (hI.pend hp).2.1; rw [hcl] at this; cases this
      obtain ⟨w, hw, _, h2⟩ := hI.won hp
      refine inv_get_step hI hi .ret r c.err ⟨fun h => bool_contra hcl h, ?_⟩
      intro w' hw'
      rw [hw] at hw'; cases hw'
      exact ⟨fun _ => ((hI.gets i _ _ _ hi).2 w hw).1 (Or.inl rfl), fun _ => (h2 hcl).2.2⟩
    | ret =>
      simp only [stepTh]
      exact inv_get_step hI hi .ret r e (hI.gets i _ _ _ hi)
  | done r e pc =>
    -- facts used by several cases
    have hget : ∀ k pck rk ek t', upd g i t' k = some (Th.get pck rk ek) → (∃ r' e' p', t' = Th.done r' e' p') →
        g k = some (Th.get pck rk ek) := by
      intro k pck rk ek t' h ⟨r', e', p', ht'⟩
      by_cases hk : k = i
      · subst hk; subst ht'; simp [upd] at h
      · rwa [upd_ne _ _ _ hk] at h
    cases pc with
    | cas =>
      simp only [stepTh]
      cases hp : c.pending with
      | true =>
        simp only [if_true]
        obtain ⟨hwn, hcl, hall⟩ := hI.pend hp
        refine ⟨hI.nofault, fun h => (by cases h), ?_, ?_, ?_⟩
        · intro _
          refine ⟨(r, e), rfl, ?_, fun h => bool_contra h hcl⟩
          intro _
          refine ⟨i, .setRes, upd_self _ _ _, rfl, ?_, fun h => absurd rfl h, fun h => (by cases h)⟩
          intro k t hk hm
          by_cases hki : k = i
          · exact hki
          · rw [upd_ne _ _ _ hki] at hk
            cases t with
            | get _ _ _ => simp [mid] at hm
            | done r' e' pc' =>
              have := hall k r' e' pc' hk
              subst this; simp [mid] at hm
        · intro k pck rk ek hk
          have hk' := hget k pck rk ek _ hk ⟨_, _, _, rfl⟩
          have hw := (hI.gets k pck rk ek hk').1 hcl
          subst hw
          exact ⟨fun _ => rfl, fun w _ => gpc_vac₁ (by simp) (by simp)⟩
        · intro w hw
          simp only [Option.some.injEq] at hw
          subst hw
          exact ⟨i, .setRes, upd_self _ _ _⟩
      | false =>
        simp only [Bool.false_eq_true, if_false]
        obtain ⟨w, hw, h1, h2⟩ := hI.won hp
        have hnm : ∀ k t, upd g i (Th.done r e .fin) k = some t → mid t = true → g k = some t ∧ k ≠ i := by
          intro k t hk hm
          by_cases hki : k = i
          · subst hki; simp [upd] at hk; subst hk; simp [mid] at hm
          · rw [upd_ne _ _ _ hki] at hk; exact ⟨hk, hki⟩
        refine ⟨hI.nofault, fun h => bool_contra h hp, ?_, ?_, ?_⟩
        · intro _
          refine ⟨w, hw, ?_, ?_⟩
          · intro hc
            obtain ⟨j, pcj, hj, hm, huniq, hr, he⟩ := h1 hc
            have hji : j ≠ i := by
              intro h; subst h; rw [hi] at hj
              simp only [Option.some.injEq, Th.done.injEq] at hj
              obtain ⟨_, _, hpc⟩ := hj; subst hpc; simp [mid] at hm
            exact ⟨j, pcj, by rw [upd_ne _ _ _ hji]; exact hj, hm,
              fun k t hk hmt => huniq k t (hnm k t hk hmt).1 hmt, hr, he⟩
          · intro hc
            obtain ⟨hn, hr, he⟩ := h2 hc
            refine ⟨?_, hr, he⟩
            intro k t hk
            by_cases hki : k = i
            · subst hki; simp [upd] at hk; subst hk; rfl
            · rw [upd_ne _ _ _ hki] at hk; exact hn k t hk
        · intro k pck rk ek hk
          exact hI.gets k pck rk ek (hget k pck rk ek _ hk ⟨_, _, _, rfl⟩)
        · intro w' hw'
          obtain ⟨j, pcj, hj⟩ := hI.origin w' hw'
          by_cases hji : j = i
          · subst hji; rw [hi] at hj
            simp only [Option.some.injEq, Th.done.injEq] at hj
            obtain ⟨h1', h2', _⟩ := hj
            exact ⟨j, .fin, by rw [upd_self, h1', h2']⟩
          · exact ⟨j, pcj, by rw [upd_ne _ _ _ hji]; exact hj⟩
    | fin =>
      simp only [stepTh]
      have : upd g i (Th.done r e .fin) = g := by
        funext k
        by_cases hk : k = i
        · subst hk; simp [upd, hi]
        · simp [upd, hk]
      rw [this]; exact hI
    | setRes =>
      obtain ⟨hp, hc, hw, huniq, _, _⟩ := mid_facts hI hi rfl
      simp only [stepTh]
      refine ⟨hI.nofault, fun h => bool_contra h hp, ?_, ?_, ?_⟩
      · intro _
        refine ⟨(r, e), hw, ?_, fun h => bool_contra h hc⟩
        intro _
        refine ⟨i, .setErr, upd_self _ _ _, rfl, ?_, fun _ => rfl, fun h => (by cases h)⟩
        intro k t hk hm
        by_cases hki : k = i
        · exact hki
        · rw [upd_ne _ _ _ hki] at hk; exact huniq k t hk hm
      · intro k pck rk ek hk
        exact hI.gets k pck rk ek (hget k pck rk ek _ hk ⟨_, _, _, rfl⟩)
      · intro w' hw'
        have : w' = (r, e) := by rw [hw] at hw'; cases hw'; rfl
        subst this
        exact ⟨i, .setErr, upd_self _ _ _⟩
    | setErr =>
      obtain ⟨hp, hc, hw, huniq, hres, _⟩ := mid_facts hI hi rfl
      simp only [stepTh]
      refine ⟨hI.nofault, fun h => bool_contra h hp, ?_, ?_, ?_⟩
      · intro _
        refine ⟨(r, e), hw, ?_, fun h => bool_contra h hc⟩
        intro _
        refine ⟨i, .close, upd_self _ _ _, rfl, ?_, fun _ => hres (by simp), fun _ => rfl⟩
        intro k t hk hm
        by_cases hki : k = i
        · exact hki
        · rw [upd_ne _ _ _ hki] at hk; exact huniq k t hk hm
      · intro k pck rk ek hk
        exact hI.gets k pck rk ek (hget k pck rk ek _ hk ⟨_, _, _, rfl⟩)
      · intro w' hw'
        have : w' = (r, e) := by rw [hw] at hw'; cases hw'; rfl
        subst this
        exact ⟨i, .close, upd_self _ _ _⟩
    | close =>
      obtain ⟨hp, hc, hw, huniq, hres, herr⟩ := mid_facts hI hi rfl
      simp only [stepTh, hc, Bool.false_eq_true, if_false]
      refine ⟨hI.nofault, fun h => bool_contra h hp, ?_, ?_, ?_⟩
      · intro _
        refine ⟨(r, e), hw, fun h => (by cases h), ?_⟩
        intro _
        refine ⟨?_, hres (by simp), herr rfl⟩
        intro k t hk
        by_cases hki : k = i
        · subst hki; simp [upd] at hk; subst hk; rfl
        · rw [upd_ne _ _ _ hki] at hk
          cases hm : mid t with
          | false => rfl
          | true => exact absurd (huniq k t hk hm) hki
      · intro k pck rk ek hk
        have hk' := hget k pck rk ek _ hk ⟨_, _, _, rfl⟩
        have hwait := (hI.gets k pck rk ek hk').1 hc
        subst hwait
        exact ⟨fun h => (by cases h), fun w _ => gpc_vac₁ (by simp) (by simp)⟩
      · intro w' hw'
        have : w' = (r, e) := by rw [hw] at hw'; cases hw'; rfl
        subst this
        exact ⟨i, .fin, upd_self _ _ _⟩

/-! ### runs -/

def look (ths : List Th) : Nat → Option Th := fun k => ths[k]?

theorem look_set (ths : List Th) (i : Nat) (t t' : Th) (hi : ths[i]? = some t) : look (ths.set i t') = upd (look ths) i t' := by
  funext k
  have hlt : i < ths.length := by
    rcases Nat.lt_or_ge i ths.length with h | h
    · exact h
    · rw [List.getElem?_eq_none h] at hi; cases hi
  simp only [look, upd, List.getElem?_set]
  by_cases hk : k = i
  · subst hk; simp [hlt]
  · have : ¬ i = k := fun h => hk h.symm
    simp [hk, this]

theorem step_inv (s : Sys) (i : Nat) (hI : Inv s.c (look s.ths)) : Inv (step s i).c (look (step s i).ths) := by
  unfold step
  cases hi : s.ths[i]? with
  | none => exact hI
  | some t =>
    simp only
    rw [look_set s.ths i t _ hi]
    exact inv_step hI hi

theorem run_inv (sched : List Nat) (s : Sys) (hI : Inv s.c (look s.ths)) : Inv (run s sched).c (look (run s sched).ths) := by
  induction sched generalizing s with
  | nil => exact hI
  | cons i is ih => exact ih _ (step_inv s i hI)

theorem init_inv (ths : List Th) (hF : ∀ t ∈ ths, Fresh t) : Inv (init ths).c (look (init ths).ths) := by
  refine ⟨rfl, ?_, fun h => (by cases h), ?_, fun w h => (by cases h)⟩
  · intro _
    refine ⟨rfl, rfl, ?_⟩
    intro i r e pc hi
    exact hF _ (List.mem_of_getElem? hi)
  · intro i pc r e hi
    have := hF _ (List.mem_of_getElem? hi)
    obtain ⟨h1, _, _⟩ := this
    exact ⟨fun _ => h1, fun w h => (by cases h)⟩

/-- which goroutine is which never changes: a `Done(res, err)` call stays a `Done(res, err)` call -/
theorem step_done_args (s : Sys) (i j : Nat) (r e : Nat) (pc : DPc) (h : (step s i).ths[j]? = some (Th.done r e pc)) :
    ∃ pc', s.ths[j]? = some (Th.done r e pc') := by
  unfold step at h
  cases hi : s.ths[i]? with
  | none => simp only [hi] at h; exact ⟨pc, h⟩
  | some t =>
    simp only [hi] at h
    have hl := congrFun (look_set s.ths i t (stepTh s.c t).2 hi) j
    simp only [look] at hl
    rw [hl] at h
    by_cases hji : j = i
    · subst hji
      rw [upd_self] at h
      cases t with
      | get pcg rg eg => cases pcg <;> simp only [stepTh] at h <;> (try split at h) <;> simp at h
      | done r' e' pc' =>
        have : r' = r ∧ e' = e := by
          cases pc' <;> simp only [stepTh] at h <;> (try split at h) <;> simp_all
        obtain ⟨rfl, rfl⟩ := this
        exact ⟨pc', hi⟩
    · rw [upd_ne _ _ _ hji] at h; exact ⟨pc, h⟩

theorem run_done_args (sched : List Nat) (s : Sys) (j r e : Nat) (pc : DPc)
    (h : (run s sched).ths[j]? = some (Th.done r e pc)) : ∃ pc', s.ths[j]? = some (Th.done r e pc') := by
  induction sched generalizing s pc with
  | nil => exact ⟨pc, h⟩
  | cons i is ih =>
    obtain ⟨pc1, h1⟩ := ih (step s i) pc h
    exact step_done_args s i j r e pc1 h1


/-! ### once closed, nothing changes -/

theorem stepTh_closed {c : Cell} {g : Nat → Option Th} (hI : Inv c g) (hc : c.closed = true) {i : Nat} {t : Th}
    (hi : g i = some t) : (stepTh c t).1 = c := by
  have hp : c.pending = false := by
    cases hp : c.pending with
    | false => rfl
    | true => exact bool_contra hc (hI.pend hp).2.1
  obtain ⟨w, _, _, h2⟩ := hI.won hp
  have hnm := (h2 hc).1 i t hi
  cases t with
  | get pc r e => cases pc <;> simp only [stepTh] <;> (try split) <;> rfl
  | done r e pc =>
    cases pc with
    | cas => simp [stepTh, hp]
    | fin => rfl
    | setRes => simp [mid] at hnm
    | setErr => simp [mid] at hnm
    | close => simp [mid] at hnm

theorem step_closed (s : Sys) (i : Nat) (hI : Inv s.c (look s.ths)) (hc : s.c.closed = true) : (step s i).c = s.c := by
  unfold step
  cases hi : s.ths[i]? with
  | none => rfl
  | some t => exact stepTh_closed hI hc hi

theorem run_closed (sched : List Nat) (s : Sys) (hI : Inv s.c (look s.ths)) (hc : s.c.closed = true) :
    (run s sched).c = s.c := by
  induction sched generalizing s with
  | nil => rfl
  | cons i is ih =>
    have h1 := step_closed s i hI hc
    have h2 := ih (step s i) (step_inv s i hI) (by rw [h1]; exact hc)
    simp only [run]
    rw [h2, h1]

theorem run_append (s : Sys) (a b : List Nat) : run s (a ++ b) = run (run s a) b := by
  induction a generalizing s with
  | nil => rfl
  | cons i is ih => simp [run, ih]

end Qryn.Ingest.PromiseModel
