import Qryn.Proofs.TraceQLJoin
/-! C11, `{}`: which traces `AttrlessConditionPlanner` picks — the sub-query `trace_ids` (after fix 373aa96): a choice of the
    `limit` traces with the newest span-table row inside the window. -/
namespace Qryn.TraceQL
open Qryn Qryn.Sql

/-- the sub-query `trace_ids` of `AttrlessConditionPlanner.Process` -/
def traceIdsAll (c : Ctx) : Sel :=
  .mk [] false [simpleCol "trace_id" "trace_id"] (some (.col (.raw c.tracesTable) "traces")) [] none
    (some (and_ [and_ [ge (.raw "timestamp_ns") (.int c.fromNs), lt (.raw "timestamp_ns") (.int c.toNs)]]))
    [.raw "trace_id"] none [.orderBy (.call "max" [.raw "timestamp_ns"]) .desc] (some (.int c.limit))

theorem attrless_trace_ids (c : Ctx) : (attrless c).withs.head? = some (.named "trace_ids", traceIdsAll c) := rfl

theorem srow_ts (s : SpanRow) : (srow s).get "timestamp_ns" = .int s.ts := by rfl
theorem srow_trace (s : SpanRow) : (srow s).get "trace_id" = .str s.traceId := by rfl

/-- has a span-table row inside the window -/
def InWindowTrace (c : Ctx) (d : TraceDb) (tr : Bytes) : Prop := ∃ s ∈ d.spansT, s.traceId = tr ∧ spanInWindow c s = true

/-- **`{}`: the traces picked** are a choice of the `limit` most recent traces with a span inside `[start, end)` — recency =
    the newest such span —, newest first -/
theorem all_traces_choice (o : Oracles) (ao : AggOracles) (c : Ctx) (d : TraceDb) (env : Env)
    (hdb : (d.toDb c) c.tracesTable = d.spansT.map SpanRow.row) :
    ∃ A : List Bytes, evalSelG o ao (d.toDb c) false env (traceIdsAll c) = A.map (fun t => [("trace_id", Val.str t)]) ∧
      IsTopN (allTraceRec c d) (InWindowTrace c d) c.limit.toNat A := by
  unfold traceIdsAll
  rw [evalSelG_grouped]
  simp only [Bool.false_eq_true, if_false]
  simp only [groupsG]
  have hsrc : sourceRowsG o ao (d.toDb c) env (.col (.raw c.tracesTable) "traces") = d.spansT.map srow := by
    simp [sourceRowsG, hdb, List.map_map, srow, Function.comp_def]
  rw [hsrc]
  have hf : (d.spansT.map srow).filter (fun r => optB o env r (some (and_ [and_ [ge (.raw "timestamp_ns") (.int c.fromNs),
      lt (.raw "timestamp_ns") (.int c.toNs)]]))) = (d.spansT.filter (spanInWindow c)).map srow := by
    rw [List.filter_map]
    congr 1
    apply List.filter_congr
    intro s _
    simp only [Function.comp, optB, evalB_and, evalAll_cons, evalAll_nil, Bool.and_true, spanInWindow]
    simp [evalB, ge, lt, evalE, cmpOp, srow_ts, Val.cmpLe, Val.cmpLt]
  rw [hf]
  have hg := groups_of_records (d.spansT.filter (spanInWindow c)) srow (fun s => s.traceId) (fun t => [Val.str t])
    (fun r => [Expr.raw "trace_id"].map (fun k => evalE o env r k))
    (by intro s; simp [evalE, srow_trace]) (by intro a b h; simpa using h)
  rw [hg]
  simp only [havingG, List.filter_eq_self.mpr (fun (g : List Row) _ => rfl), List.isEmpty_cons, Bool.false_eq_true, if_false, limitG]
  generalize hkeys : dedup ((d.spansT.filter (spanInWindow c)).map (fun s => s.traceId)) = keys
  have hkmem : ∀ t, t ∈ keys ↔ InWindowTrace c d t := by
    intro t
    rw [← hkeys, mem_dedup, List.mem_map]
    constructor
    · rintro ⟨s, hs, rfl⟩
      exact ⟨s, (List.mem_filter.mp hs).1, rfl, (List.mem_filter.mp hs).2⟩
    · rintro ⟨s, hs, rfl, hw⟩
      exact ⟨s, List.mem_filter.mpr ⟨hs, hw⟩, rfl⟩
  -- the group of a trace and its order key
  have hkey : ∀ t ∈ keys, evalGrp o env (((d.spansT.filter (spanInWindow c)).filter (fun a => a.traceId == t)).map srow)
      (.call "max" [.raw "timestamp_ns"]) = .int (allTraceRec c d t) := by
    intro t ht
    obtain ⟨s0, hs0, hs0t, hs0w⟩ := (hkmem t).mp ht
    have hl : ((d.spansT.filter (fun s => s.traceId == t && spanInWindow c s)).map (·.ts)) ≠ [] := by
      intro h0
      have : s0 ∈ d.spansT.filter (fun s => s.traceId == t && spanInWindow c s) := List.mem_filter.mpr ⟨hs0, by simp [hs0t, hs0w]⟩
      have h1 : s0.ts ∈ (d.spansT.filter (fun s => s.traceId == t && spanInWindow c s)).map (·.ts) := List.mem_map.mpr ⟨s0, this, rfl⟩
      rw [h0] at h1; simp at h1
    obtain ⟨m, hm, hmax⟩ := evalGrp_max o env (((d.spansT.filter (spanInWindow c)).filter (fun a => a.traceId == t)).map srow) "timestamp_ns"
      ((d.spansT.filter (fun s => s.traceId == t && spanInWindow c s)).map (·.ts)) hl (by
        intro i
        simp only [List.map_map, List.mem_map, Function.comp, List.mem_filter, srow_ts, Bool.and_eq_true, beq_iff_eq]
        constructor
        · rintro ⟨s, ⟨⟨hs, hw⟩, hst⟩, hi⟩
          exact ⟨s, ⟨hs, hst, hw⟩, by simpa using hi⟩
        · rintro ⟨s, ⟨hs, hst, hw⟩, hi⟩
          exact ⟨s, ⟨⟨hs, hw⟩, hst⟩, by rw [hi]⟩)
    rw [hm, ← (listMax_isMax _ hl).unique hmax]
    rfl
  have hs1 : sortBy (grpLe o env [simpleCol "trace_id" "trace_id"] [.orderBy (.call "max" [.raw "timestamp_ns"]) .desc])
        (keys.map (fun k => ((d.spansT.filter (spanInWindow c)).filter (fun a => a.traceId == k)).map srow)) =
      (sortBy (fun a b => grpLe o env [simpleCol "trace_id" "trace_id"] [.orderBy (.call "max" [.raw "timestamp_ns"]) .desc]
          (((d.spansT.filter (spanInWindow c)).filter (fun x => x.traceId == a)).map srow)
          (((d.spansT.filter (spanInWindow c)).filter (fun x => x.traceId == b)).map srow)) keys).map
        (fun k => ((d.spansT.filter (spanInWindow c)).filter (fun a => a.traceId == k)).map srow) :=
    sortBy_map' _ _ _ (fun _ _ => rfl) keys
  rw [hs1]
  have hle : ∀ a ∈ keys, ∀ b ∈ keys, grpLe o env [simpleCol "trace_id" "trace_id"] [.orderBy (.call "max" [.raw "timestamp_ns"]) .desc]
        (((d.spansT.filter (spanInWindow c)).filter (fun x => x.traceId == a)).map srow)
        (((d.spansT.filter (spanInWindow c)).filter (fun x => x.traceId == b)).map srow) =
      decide (allTraceRec c d b ≤ allTraceRec c d a) := by
    intro a ha b hb
    rw [grpLe_call, hkey a ha, hkey b hb]
    simp only [Val.cmpLe]
    by_cases h : allTraceRec c d a = allTraceRec c d b
    · simp [h]
    · have : (Val.int (allTraceRec c d a) == Val.int (allTraceRec c d b)) = false := by simp; exact h
      simp [this]
  rw [sortBy_congr_on _ _ keys hle]
  generalize hsk : sortBy (fun a b => decide (allTraceRec c d b ≤ allTraceRec c d a)) keys = sk
  refine ⟨sk.take c.limit.toNat, ?_, ?_⟩
  · rw [← List.map_take, List.map_map]
    apply List.map_congr_left
    intro t ht
    have htk : t ∈ keys := by
      have := List.mem_of_mem_take ht
      rw [← hsk] at this
      exact (ListAux.mem_sortBy _ _ _).mp this
    obtain ⟨s0, hs0, hs0t, hs0w⟩ := (hkmem t).mp htk
    have hne : (d.spansT.filter (spanInWindow c)).filter (fun a => a.traceId == t) ≠ [] := by
      intro h0
      have : s0 ∈ (d.spansT.filter (spanInWindow c)).filter (fun a => a.traceId == t) :=
        List.mem_filter.mpr ⟨List.mem_filter.mpr ⟨hs0, hs0w⟩, by simp [hs0t]⟩
      rw [h0] at this; simp at this
    obtain ⟨s1, rest, hs1'⟩ := List.ne_nil_iff_exists_cons.mp hne
    have hs1t : s1.traceId = t := by
      have : s1 ∈ (d.spansT.filter (spanInWindow c)).filter (fun a => a.traceId == t) := by rw [hs1']; simp
      simpa using (List.mem_filter.mp this).2
    simp only [Function.comp, projG, hs1', List.map_cons, List.map_nil, simpleCol, colName, evalGrp, evalE, srow_trace, hs1t]
  · apply topN_of_sorted
    · rw [← hsk]
      exact (ListAux.sortBy_perm _ _).nodup_iff.mpr (by rw [← hkeys]; exact nodup_dedup _)
    · intro t
      rw [← hsk, ListAux.mem_sortBy]
      exact hkmem t
    · rw [← hsk]
      have := sortBy_sorted_on (fun a b => decide (allTraceRec c d b ≤ allTraceRec c d a)) (fun _ => True)
        (by intro a b _ _; simp only [decide_eq_true_eq]; exact Int.le_total _ _ |>.symm)
        (by intro a b c' _ _ _ h1 h2; simp only [decide_eq_true_eq] at h1 h2 ⊢; exact Int.le_trans h2 h1)
        keys (fun _ _ => trivial)
      exact this.imp (fun h => by simpa using h)

end Qryn.TraceQL
