import Qryn.Ingest.PreRequest
/-! Helper lemmas for the pre-request model (C05): invariants of the closure of `withUnsnappyRequest` under an
    arbitrary step list. -/
namespace Qryn.PreRequest
variable {β : Type}

theorem step_failed (L : Lib β) (c : β) (s : Step) (st : CState β) (e : Err) (h : st.failed = some e) :
    step L c s st = st := by
  simp [step, h]

theorem runClosure_failed (L : Lib β) (c : β) (steps : List Step) (st : CState β) (e : Err)
    (h : st.failed = some e) : runClosure L c steps st = st := by
  induction steps generalizing st with
  | nil => rfl
  | cons s r ih =>
    simp only [runClosure, List.foldl_cons]
    rw [step_failed L c s st e h]
    exact ih st h

theorem runClosure_cons (L : Lib β) (c : β) (s : Step) (r : List Step) (st : CState β) :
    runClosure L c (s :: r) st = runClosure L c r (step L c s st) := rfl

/-- what the variables of the closure hold while it has not returned: `declared` is the result of
    `DecodedLen(c)`; `out` is the result of `Decode(c)` -/
structure Sound (L : Lib β) (c : β) (st : CState β) : Prop where
  declared : ∀ n, st.declared = some n → L.decodedLen c = .ok n
  out : ∀ u, st.out = some u → L.decode c = .ok u

theorem sound_init (L : Lib β) (c : β) : Sound L c ({} : CState β) :=
  ⟨fun n h => (by cases h), fun u h => (by cases h)⟩

theorem step_sound (L : Lib β) (c : β) (s : Step) (st : CState β) (h : Sound L c st) :
    Sound L c (step L c s st) := by
  unfold step
  cases hf : st.failed with
  | some e => simpa [hf] using h
  | none =>
    cases s with
    | decodedLen =>
      cases hd : L.decodedLen c with
      | ok n =>
        refine ⟨?_, ?_⟩
        · intro m hm; simp at hm; rw [← hm]; exact hd
        · intro u hu; exact h.out u (by simpa using hu)
      | error e => exact ⟨fun n hn => h.declared n (by simpa using hn), fun u hu => h.out u (by simpa using hu)⟩
    | limitDeclared l =>
      cases hdcl : st.declared with
      | none => simpa [hdcl] using h
      | some n =>
        by_cases hgt : n > l
        · simp only [hgt, if_true]
          exact ⟨fun m hm => h.declared m (by simpa [hdcl] using hm), fun u hu => h.out u (by simpa using hu)⟩
        · simp only [hgt, if_false]; exact h
    | decode =>
      cases hd : L.decode c with
      | ok u =>
        refine ⟨fun m hm => h.declared m (by simpa using hm), ?_⟩
        intro v hv; simp at hv; rw [← hv]; exact hd
      | error e => exact ⟨fun n hn => h.declared n (by simpa using hn), fun u hu => h.out u (by simpa using hu)⟩
    | limitDecoded l =>
      cases ho : st.out with
      | none => simpa [ho] using h
      | some u =>
        by_cases hgt : L.len u > l
        · simp only [hgt, if_true]
          exact ⟨fun m hm => h.declared m (by simpa using hm), fun v hv => h.out v (by simpa [ho] using hv)⟩
        · simp only [hgt, if_false]; exact h
    | limitCompressed l =>
      by_cases hgt : L.len c > l
      · simp only [hgt, if_true]
        exact ⟨fun m hm => h.declared m (by simpa using hm), fun v hv => h.out v (by simpa using hv)⟩
      · simp only [hgt, if_false]; exact h

theorem runClosure_sound (L : Lib β) (c : β) (steps : List Step) (st : CState β) (h : Sound L c st) :
    Sound L c (runClosure L c steps st) := by
  induction steps generalizing st with
  | nil => exact h
  | cons s r ih => rw [runClosure_cons]; exact ih _ (step_sound L c s st h)

/-- the guard discipline as a property of the state: while the closure has not returned, `haveLen` means the
    declared length is known, `checked` means it has been found `≤ limit` -/
structure Guard (limit : Nat) (h chk : Bool) (st : CState β) : Prop where
  have_len : st.failed = none → h = true → ∃ n, st.declared = some n
  checked : st.failed = none → chk = true → ∃ n, st.declared = some n ∧ n ≤ limit

/-- a decoded output exists only for a block whose declared length is within the limit -/
def OutOk (L : Lib β) (c : β) (limit : Nat) (st : CState β) : Prop :=
  ∀ u, st.out = some u → ∃ n, L.decodedLen c = .ok n ∧ n ≤ limit

theorem decodeAlloc_of_declared (L : Lib β) (c : β) (n : Nat) (h : L.decodedLen c = .ok n) :
    decodeAlloc L c = n := by simp [decodeAlloc, h]

/-- how the two flags of `guardedBy` move over a step -/
def next (limit : Nat) : Step → Bool → Bool → Bool × Bool
  | .decodedLen, _, _ => (true, false)
  | .limitDeclared l, h, c => (h, c || (h && decide (l ≤ limit)))
  | _, h, c => (h, c)

/-- what a step may add to the allocation under the guard discipline -/
def cost (limit : Nat) : Step → Nat
  | .decode => limit
  | _ => 0

theorem guard_init (limit : Nat) : Guard limit false false ({} : CState β) :=
  ⟨fun _ h => (by cases h), fun _ h => (by cases h)⟩

theorem outOk_init (L : Lib β) (c : β) (limit : Nat) : OutOk L c limit ({} : CState β) := by
  intro u h; cases h

/-- **one step under the guard discipline** -/
theorem step_guarded (L : Lib β) (c : β) (limit : Nat) (s : Step) (r : List Step) (h chk : Bool)
    (st : CState β) (hg : guardedBy limit (s :: r) h chk = true) (hs : Sound L c st)
    (hgd : Guard limit h chk st) (ho : OutOk L c limit st) :
    guardedBy limit r (next limit s h chk).1 (next limit s h chk).2 = true ∧
      Guard limit (next limit s h chk).1 (next limit s h chk).2 (step L c s st) ∧
      (step L c s st).alloc ≤ st.alloc + cost limit s ∧
      OutOk L c limit (step L c s st) := by
  have hgr : guardedBy limit r (next limit s h chk).1 (next limit s h chk).2 = true := by
    cases s <;> simp [guardedBy, next] at hg ⊢ <;> first | exact hg | exact hg.2 | (obtain ⟨h1, h2⟩ := hg; subst h1; exact h2)
  refine ⟨hgr, ?_⟩
  cases hf : st.failed with
  | some e =>
    rw [step_failed L c s st e hf]
    exact ⟨⟨fun hnf => by simp [hf] at hnf, fun hnf => by simp [hf] at hnf⟩, Nat.le_add_right _ _, ho⟩
  | none =>
    cases s with
    | decodedLen =>
      unfold step; simp only [hf, next, cost]
      cases hd : L.decodedLen c with
      | ok n =>
        exact ⟨⟨fun _ _ => ⟨n, rfl⟩, fun _ hc => by cases hc⟩, Nat.le_refl _, fun u hu => ho u (by simpa using hu)⟩
      | error e =>
        exact ⟨⟨fun hnf => by simp at hnf, fun hnf => by simp at hnf⟩, Nat.le_refl _, fun u hu => ho u (by simpa using hu)⟩
    | limitDeclared l =>
      unfold step; simp only [hf, next, cost]
      cases hdcl : st.declared with
      | none =>
        refine ⟨⟨fun _ hh => ?_, fun _ hc => ?_⟩, Nat.le_refl _, ho⟩
        · obtain ⟨n, hn⟩ := hgd.have_len hf hh; simp [hdcl] at hn
        · rcases Bool.or_eq_true _ _ |>.mp hc with hc | hc
          · obtain ⟨n, hn, _⟩ := hgd.checked hf hc; simp [hdcl] at hn
          · have hh : h = true := by simp at hc; exact hc.1
            obtain ⟨n, hn⟩ := hgd.have_len hf hh; simp [hdcl] at hn
      | some n =>
        by_cases hgt : n > l
        · simp only [hgt, if_true]
          exact ⟨⟨fun hnf => by simp at hnf, fun hnf => by simp at hnf⟩, Nat.le_refl _,
            fun u hu => ho u (by simpa using hu)⟩
        · simp only [hgt, if_false]
          refine ⟨⟨fun _ _ => ⟨n, hdcl⟩, fun _ hc => ?_⟩, Nat.le_refl _, ho⟩
          rcases Bool.or_eq_true _ _ |>.mp hc with hc | hc
          · exact hgd.checked hf hc
          · have hl : l ≤ limit := by simp at hc; exact hc.2
            exact ⟨n, hdcl, by omega⟩
    | decode =>
      have hchk : chk = true := by simp [guardedBy] at hg; exact hg.1
      obtain ⟨n, hn, hle⟩ := hgd.checked hf hchk
      have hdl := hs.declared n hn
      have hda : decodeAlloc L c = n := decodeAlloc_of_declared L c n hdl
      unfold step; simp only [hf, next, cost, hda]
      cases hd : L.decode c with
      | ok u =>
        refine ⟨⟨fun _ hh => hgd.have_len hf hh, fun _ _ => ⟨n, hn, hle⟩⟩, by simp; omega, ?_⟩
        intro v _; exact ⟨n, hdl, hle⟩
      | error e =>
        exact ⟨⟨fun hnf => by simp at hnf, fun hnf => by simp at hnf⟩, by simp; omega,
          fun u hu => ho u (by simpa using hu)⟩
    | limitDecoded l =>
      unfold step; simp only [hf, next, cost]
      cases hout : st.out with
      | none => exact ⟨hgd, Nat.le_refl _, ho⟩
      | some u =>
        by_cases hgt : L.len u > l
        · simp only [hgt, if_true]
          exact ⟨⟨fun hnf => by simp at hnf, fun hnf => by simp at hnf⟩, Nat.le_refl _,
            fun v hv => ho v (by simpa [hout] using hv)⟩
        · simp only [hgt, if_false]; exact ⟨hgd, Nat.le_refl _, ho⟩
    | limitCompressed l =>
      unfold step; simp only [hf, next, cost]
      by_cases hgt : L.len c > l
      · simp only [hgt, if_true]
        exact ⟨⟨fun hnf => by simp at hnf, fun hnf => by simp at hnf⟩, Nat.le_refl _,
          fun v hv => ho v (by simpa using hv)⟩
      · simp only [hgt, if_false]; exact ⟨hgd, Nat.le_refl _, ho⟩

theorem cost_sum (limit : Nat) (s : Step) (r : List Step) :
    cost limit s + limit * countDecode r = limit * countDecode (s :: r) := by
  cases s <;> simp [cost, countDecode, Nat.mul_add, Nat.add_comm]

/-- **the allocation invariant**: under the guard discipline every `decode` step adds at most `limit`, and a
    decoded output belongs to a block whose declared length is within the limit -/
theorem runClosure_guarded (L : Lib β) (c : β) (limit : Nat) :
    ∀ (steps : List Step) (h chk : Bool) (st : CState β),
      guardedBy limit steps h chk = true → Sound L c st → Guard limit h chk st → OutOk L c limit st →
      (runClosure L c steps st).alloc ≤ st.alloc + limit * countDecode steps ∧
        OutOk L c limit (runClosure L c steps st) := by
  intro steps
  induction steps with
  | nil => intro h chk st _ _ _ ho; exact ⟨by simp [runClosure, countDecode], ho⟩
  | cons s r ih =>
    intro h chk st hg hs hgd ho
    obtain ⟨hgr, hgd', ha, ho'⟩ := step_guarded L c limit s r h chk st hg hs hgd ho
    obtain ⟨ka, ko⟩ := ih _ _ (step L c s st) hgr (step_sound L c s st hs) hgd' ho'
    rw [runClosure_cons]
    refine ⟨?_, ko⟩
    have := cost_sum limit s r
    omega

end Qryn.PreRequest
