import Qryn.Proofs.Batcher
/-! Promise accounting: a promise is completed at most as often as it was handed out, and a live promise
    stays live until it is completed (lemmas for `C01.resolve_once` and `C01.resolve_eventually`). -/
namespace Qryn.Ingest.Batcher

theorem resolvedIds_append (a b : List Event) : resolvedIds (a ++ b) = resolvedIds a ++ resolvedIds b := by
  induction a with
  | nil => rfl
  | cons e t ih => cases e <;> simp [resolvedIds, ih]

theorem resolvedIds_map (ids : List ReqId) (o : Outcome) :
    resolvedIds (ids.map (fun id => Event.resolved id o)) = ids := by
  induction ids with
  | nil => rfl
  | cons a t ih => simp [resolvedIds, ih]

theorem mem_resolvedIds {evs : List Event} {id : ReqId} : id ∈ resolvedIds evs ↔ ∃ o, Event.resolved id o ∈ evs := by
  induction evs with
  | nil => simp [resolvedIds]
  | cons e t ih =>
    cases e with
    | resolved i o =>
      simp only [resolvedIds, List.mem_cons, ih]
      constructor
      · rintro (rfl | ⟨o', h⟩)
        · exact ⟨o, Or.inl rfl⟩
        · exact ⟨o', Or.inr h⟩
      · rintro ⟨o', h | h⟩
        · left; cases h; rfl
        · exact Or.inr ⟨o', h⟩
    | insert b w o => simp [resolvedIds, ih]
    | crash => simp [resolvedIds, ih]

/-- per step: completions plus promises still live never exceed promises live before plus those handed out -/
theorem step_count (s : Svc) (op : Op) (id : ReqId) :
    (resolvedIds (step s op).2).count id + (live (step s op).1).count id
      ≤ (live s).count id + (requestIds [op]).count id := by
  cases hcr : s.crashed with
  | true => rw [step_crashed s op hcr]; simp [resolvedIds]
  | false =>
  cases op with
  | request r =>
    rw [step_request s r hcr]
    simp only [requestIds]
    rcases stepRequest_cases s r with ⟨_, he⟩ | ⟨_, f, _, he⟩ | ⟨_, res, _, _, he⟩ | ⟨_, res, _, _, he⟩
    · rw [he]; simp only [resolvedIds, live, List.count_append, List.count_nil]; omega
    · rw [he]; simp [resolvedIds, live]
    · rw [he]; simp only [resolvedIds, live, List.count_append, List.count_nil]; omega
    · rw [he]; simp only [resolvedIds, live, List.count_append, List.count_nil]; omega
  | trigger k => rw [step_trigger s k hcr]; simp [resolvedIds, requestIds, live]
  | connect ok =>
    rw [step_connect s ok hcr]
    unfold stepConnect
    split <;> simp [resolvedIds, requestIds, live]
  | swap =>
    rw [step_swap s hcr]
    unfold stepSwap
    by_cases h : (s.running && s.flushPlanned && s.client && s.inflight.isNone) = true
    · simp only [h, if_true]
      have hn : s.inflight = none := by
        simp only [Bool.and_eq_true, Option.isNone_iff_eq_none] at h; exact h.2
      split
      · simp [resolvedIds, requestIds, live]
      · split
        · simp [resolvedIds, requestIds, live]
        · simp [resolvedIds, requestIds, live, hn]
    · simp only [h]; simp [resolvedIds, requestIds, live]
  | doResult o =>
    rw [step_doResult s o hcr]
    unfold stepDoResult
    cases hq : s.inflight with
    | none => simp [resolvedIds, requestIds, live, hq]
    | some q =>
      simp only [resolvedIds, resolvedIds_map, requestIds, live, hq, List.count_append, List.count_nil]
      omega
  | ping ok =>
    rw [step_ping s ok hcr]
    unfold stepPing
    split <;> simp [resolvedIds, requestIds, live]
  | stop =>
    rw [step_stop s hcr]
    unfold stepStop
    split <;> simp [resolvedIds, requestIds, live]

theorem requestIds_cons (op : Op) (ops : List Op) : requestIds (op :: ops) = requestIds [op] ++ requestIds ops := by
  cases op <;> simp [requestIds]

theorem run_count (ops : List Op) (s : Svc) (id : ReqId) :
    (resolvedIds (run s ops).2).count id + (live (run s ops).1).count id
      ≤ (live s).count id + (requestIds ops).count id := by
  induction ops generalizing s with
  | nil => simp [run, resolvedIds, requestIds]
  | cons op ops ih =>
    simp only [run, resolvedIds_append, List.count_append]
    rw [requestIds_cons, List.count_append]
    have h1 := step_count s op id
    have h2 := ih (step s op).1
    omega

/-- a live promise is either still live after a step or was completed by it -/
theorem step_live (s : Svc) (op : Op) (id : ReqId) (h : id ∈ live s) :
    id ∈ live (step s op).1 ∨ id ∈ resolvedIds (step s op).2 := by
  cases hcr : s.crashed with
  | true => rw [step_crashed s op hcr]; exact Or.inl h
  | false =>
  cases op with
  | request r =>
    rw [step_request s r hcr]
    left
    rcases stepRequest_cases s r with ⟨_, he⟩ | ⟨_, f, _, he⟩ | ⟨_, res, _, _, he⟩ | ⟨_, res, _, _, he⟩
    · rw [he]; exact h
    · rw [he]; exact h
    · rw [he]; exact h
    · rw [he]
      simp only [live, List.mem_append] at h ⊢
      rcases h with h | h
      · exact Or.inl (Or.inl h)
      · exact Or.inr h
  | trigger k => rw [step_trigger s k hcr]; exact Or.inl h
  | connect ok =>
    rw [step_connect s ok hcr]
    unfold stepConnect
    split <;> exact Or.inl h
  | swap =>
    rw [step_swap s hcr]
    unfold stepSwap
    by_cases hc : (s.running && s.flushPlanned && s.client && s.inflight.isNone) = true
    · simp only [hc, if_true]
      have hn : s.inflight = none := by
        simp only [Bool.and_eq_true, Option.isNone_iff_eq_none] at hc; exact hc.2
      split
      · exact Or.inl h
      · split
        · exact Or.inl h
        · left; simpa [live, hn] using h
    · simp only [hc]; exact Or.inl h
  | doResult o =>
    rw [step_doResult s o hcr]
    unfold stepDoResult
    cases hq : s.inflight with
    | none => left; simpa [live, hq] using h
    | some q =>
      simp only [live, hq, List.mem_append] at h
      rcases h with h | h
      · left; simp [live, h]
      · right; simp [resolvedIds, resolvedIds_map, h]
  | ping ok =>
    rw [step_ping s ok hcr]
    unfold stepPing
    split <;> exact Or.inl h
  | stop =>
    rw [step_stop s hcr]
    unfold stepStop
    split <;> exact Or.inl h

theorem run_live (ops : List Op) (s : Svc) (id : ReqId) (h : id ∈ live s) :
    id ∈ live (run s ops).1 ∨ id ∈ resolvedIds (run s ops).2 := by
  induction ops generalizing s with
  | nil => exact Or.inl h
  | cons op ops ih =>
    simp only [run, resolvedIds_append, List.mem_append]
    rcases step_live s op id h with h1 | h1
    · rcases ih _ h1 with h2 | h2
      · exact Or.inl h2
      · exact Or.inr (Or.inr h2)
    · exact Or.inr (Or.inl h1)

theorem count_le_one_of_nodup {l : List ReqId} (h : l.Nodup) (a : ReqId) : l.count a ≤ 1 := by
  induction l with
  | nil => simp
  | cons b t ih =>
    rw [List.nodup_cons] at h
    by_cases hb : b = a
    · subst hb
      have : t.count b = 0 := List.count_eq_zero.mpr h.1
      simp [this]
    · have := ih h.2
      simp [List.count_cons, hb]; exact this

/-! ### the same accounting for the multi-service machine -/

def liveAll (subs : List Svc) : List ReqId := subs.flatMap live

theorem liveAll_set_count (subs : List Svc) (i : Nat) (s s' : Svc) (hs : subs[i]? = some s) (id : ReqId) :
    (liveAll (subs.set i s')).count id + (live s).count id = (liveAll subs).count id + (live s').count id := by
  induction subs generalizing i with
  | nil => simp at hs
  | cons a t ih =>
    cases i with
    | zero =>
      simp only [List.getElem?_cons_zero, Option.some.injEq] at hs
      subst hs
      simp only [List.set_cons_zero, liveAll, List.flatMap_cons, List.count_append]
      omega
    | succ j =>
      simp only [List.getElem?_cons_succ] at hs
      have := ih j hs
      simp only [List.set_cons_succ, liveAll, List.flatMap_cons, List.count_append] at this ⊢
      omega

theorem stepAt_count (subs : List Svc) (i : Nat) (op : Op) (id : ReqId) :
    (resolvedIds (stepAt subs i op).2).count id + (liveAll (stepAt subs i op).1).count id
      ≤ (liveAll subs).count id + (requestIds [op]).count id := by
  unfold stepAt
  cases hs : subs[i]? with
  | none => simp [resolvedIds]
  | some s =>
    have h1 := step_count s op id
    have h2 := liveAll_set_count subs i s (step s op).1 hs id
    simp only
    omega

theorem liveAll_map_trigger (subs : List Svc) :
    liveAll (subs.map (fun s => (step s (.trigger .forced)).1)) = liveAll subs := by
  induction subs with
  | nil => rfl
  | cons a t ih =>
    simp only [liveAll, List.map_cons, List.flatMap_cons] at ih ⊢
    rw [ih]
    congr 1
    cases hcr : a.crashed with
    | true => rw [step_crashed a _ hcr]
    | false => rw [step_trigger a _ hcr]; rfl

theorem multi_step_count (m : Multi) (op : SysOp) (id : ReqId) :
    (resolvedIds (m.step op).2).count id + (liveAll (m.step op).1.subs).count id
      ≤ (liveAll m.subs).count id + (sysRequestIds [op]).count id := by
  cases op with
  | request mode pick r =>
    simp only [Multi.step, sysRequestIds]
    cases (candidates m.subs (m.range mode).1 (m.range mode).2)[pick]? with
    | none => simp [resolvedIds]
    | some i =>
      have := stepAt_count m.subs i (.request r) id
      simpa [requestIds] using this
  | sub i op =>
    cases op with
    | request r => simp [Multi.step, resolvedIds, sysRequestIds]
    | trigger k => have := stepAt_count m.subs i (.trigger k) id; simpa [Multi.step, requestIds, sysRequestIds] using this
    | connect ok => have := stepAt_count m.subs i (.connect ok) id; simpa [Multi.step, requestIds, sysRequestIds] using this
    | swap => have := stepAt_count m.subs i .swap id; simpa [Multi.step, requestIds, sysRequestIds] using this
    | doResult o => have := stepAt_count m.subs i (.doResult o) id; simpa [Multi.step, requestIds, sysRequestIds] using this
    | ping ok => have := stepAt_count m.subs i (.ping ok) id; simpa [Multi.step, requestIds, sysRequestIds] using this
    | stop => have := stepAt_count m.subs i .stop id; simpa [Multi.step, requestIds, sysRequestIds] using this
  | planFlush =>
    simp only [Multi.step, liveAll_map_trigger, resolvedIds, sysRequestIds]
    simp

theorem sysRequestIds_cons (op : SysOp) (ops : List SysOp) :
    sysRequestIds (op :: ops) = sysRequestIds [op] ++ sysRequestIds ops := by
  cases op <;> simp [sysRequestIds]

theorem multi_run_count (ops : List SysOp) (m : Multi) (id : ReqId) :
    (resolvedIds (m.run ops).2).count id + (liveAll (m.run ops).1.subs).count id
      ≤ (liveAll m.subs).count id + (sysRequestIds ops).count id := by
  induction ops generalizing m with
  | nil => simp [Multi.run, resolvedIds, sysRequestIds]
  | cons op ops ih =>
    simp only [Multi.run, resolvedIds_append, List.count_append]
    rw [sysRequestIds_cons, List.count_append]
    have h1 := multi_step_count m op id
    have h2 := ih (m.step op).1
    omega

theorem liveAll_init (p : Plan) (mq n : Nat) : liveAll (Multi.init p mq n).subs = [] := by
  simp only [Multi.init, liveAll]
  induction (2 * n) with
  | zero => rfl
  | succ k ih => simp [List.replicate_succ, ih, live, Svc.init]

end Qryn.Ingest.Batcher
