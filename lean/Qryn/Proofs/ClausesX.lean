import Qryn.Proofs.LogQLPlan
import Qryn.Proofs.SemXBasics
import Qryn.LogQL.SemX
/-! The filter clauses of the planner evaluated on an arbitrary row that has the columns they read
    (the rows of `Sql.SemX` carry the SELECT's aliases in front of the source columns). -/
namespace Qryn.LogQL
open Qryn Qryn.Sql

section
variable (o : Oracles) (env : Env) (ρ : Row)

theorem likeClause_row (l needle : Bytes) (h : ρ.get "samples.string" = .str l) :
    evalB o env ρ (likeClause "like" needle) = contains needle l := by
  unfold likeClause contains
  rw [evalB_eq, evalE_call_like o env _ _ _ l _ (by simp [h]) (evalE_str o env _ _), evalE_int, cmpOp_eq_bool_one,
    Bool.eq_iff_iff, like_contains']
  simp

theorem notLikeClause_row (l needle : Bytes) (h : ρ.get "samples.string" = .str l) :
    evalB o env ρ (likeClause "notLike" needle) = !contains needle l := by
  have h' := likeClause_row o env ρ l needle h
  unfold likeClause at h' ⊢
  rw [evalB_eq, evalE_call_like o env _ _ _ l _ (by simp [h]) (evalE_str o env _ _), evalE_int, cmpOp_eq_bool_one] at h'
  rw [evalB_eq, evalE_call_notLike o env _ _ _ l _ (by simp [h]) (evalE_str o env _ _), evalE_int, cmpOp_eq_bool_one, h']

theorem lineClause_row (f : LineFilter) (l : Bytes) (h : ρ.get "samples.string" = .str l) (h' : ρ.get "string" = .str l) :
    evalB o env ρ (lineClause f) = lineHolds o f l := by
  unfold lineClause lineHolds
  have hmf := evalE_matchFn o env ρ (.raw "string") f.val l (by simp [h'])
  cases f.op with
  | contains => exact likeClause_row o env ρ l _ h
  | notContains => exact notLikeClause_row o env ρ l _ h
  | re =>
    cases f.like with
    | none => simp [hmf]
    | some li =>
      obtain ⟨lit, ins⟩ := li
      cases ins
      · simpa using likeClause_row o env ρ l lit h
      · simp only [if_true]
        unfold likeClause
        rw [evalB_eq, evalE_call_ilike o env _ _ _ l _ (by simp [h]) (evalE_str o env _ _), evalE_int, cmpOp_eq_bool_one]
  | nre =>
    cases f.like with
    | none => simp [hmf]
    | some li =>
      obtain ⟨lit, ins⟩ := li
      cases ins
      · simpa using notLikeClause_row o env ρ l lit h
      · simp only [if_true]
        unfold likeClause
        rw [evalB_eq, evalE_call_notILike o env _ _ _ l _ (by simp [h]) (evalE_str o env _ _), evalE_int, cmpOp_eq_bool_one]

/-- `LabelFilterPlanner.makeSqlCond` over any getter that yields the label's value -/
theorem labelCond_gen (getter : String → Expr) (lbls : List (Bytes × Bytes))
    (hg : ∀ l, evalE o env ρ (getter l) = .str (labelValue lbls l)) (lc : LabelCond) :
    evalB o env ρ (labelCondSql getter lc) = labelCondHolds o lbls lc := by
  induction lc with
  | str l op v =>
    have hm := evalE_call_match o env ρ (getter l) (.str v) _ v (hg l) (by simp)
    cases op <;> simp [labelCondSql, labelCondHolds, hg, hm]
  | num l op v =>
    have hf := evalE_call_toFloat o env ρ (getter l) _ (hg l)
    have hnn := evalB_notNull_num o env ρ _ _ hf
    cases op <;> simp [labelCondSql, labelCondHolds, hf, hnn, cmpName]
  | and a b iha ihb => simp [labelCondSql, labelCondHolds, iha, ihb]
  | or a b iha ihb => simp [labelCondSql, labelCondHolds, iha, ihb]

theorem labelCondTS_row (doc : Bytes) (h : ρ.get "labels" = .str doc) (lc : LabelCond) :
    evalB o env ρ (labelCondSql labelGetterTS lc) = labelCondHolds o (o.jsonLabels doc) lc :=
  labelCond_gen o env ρ labelGetterTS _ (fun l => by
    unfold labelGetterTS labelValue
    exact evalE_call_json o env ρ _ _ doc l.toUTF8.toList (by simp [h]) (by simp)) lc

theorem labelCondMap_row (m : List (Bytes × Bytes)) (h : ρ.get "labels" = .map m) (lc : LabelCond) :
    evalB o env ρ (labelCondSql labelGetterMap lc) = labelCondHolds o m lc :=
  labelCond_gen o env ρ labelGetterMap _ (fun l => by
    unfold labelGetterMap labelValue
    exact evalE_mapAt o env ρ _ _ m (by simp [h])) lc
end

end Qryn.LogQL
