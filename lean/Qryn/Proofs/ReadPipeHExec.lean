import Qryn.ReadSide.PipelineHExec
import Qryn.Proofs.ReadPipeH
/-! The executable schedule only takes moves of the transition system; what its verdicts mean. -/
namespace Qryn.ReadSide.Pipe

theorem findIdx_spec (p : Nat → Bool) (n i : Nat) (h : findIdx p n = some i) : i < n ∧ p i = true := by
  induction n with
  | zero => simp [findIdx] at h
  | succ n ih =>
    simp only [findIdx] at h
    cases hf : findIdx p n with
    | some j =>
      rw [hf] at h
      simp only [Option.some.injEq] at h
      subst h
      have := ih hf
      exact ⟨by omega, this.2⟩
    | none =>
      rw [hf] at h
      by_cases hp : p n = true
      · simp only [hp, if_true, Option.some.injEq] at h
        subst h
        exact ⟨by omega, hp⟩
      · simp [hp] at h

theorem readyB_ready (s : Stg) (h : s.readyB = true) : s.ready := by
  simp only [Stg.readyB, Bool.and_eq_true, Bool.or_eq_true, Bool.not_eq_true', List.isEmpty_iff] at h
  exact ⟨h.1.1, h.1.2, h.2⟩

theorem upClosedB_upClosed (S : Sys) (i : Nat) (h : S.upClosedB i = true) : S.upClosed i := by
  cases i with
  | zero => exact h
  | succ j => exact h

theorem ne_cons_self {α} (l : List α) (a : α) : l ≠ a :: l := by
  intro h
  have := congrArg List.length h
  simp at this

/-- a move that leaves the last stage's buffer as it is, or finds it empty, is not a receive from the last stage -/
theorem not_lastRecv_same {S T : Sys} (h : (T.stg (S.n - 1)).buf = (S.stg (S.n - 1)).buf) : ¬ lastRecv S T := by
  intro ⟨it, hl⟩
  rw [h] at hl
  exact ne_cons_self _ _ hl

theorem not_lastRecv_empty {S T : Sys} (h : (S.stg (S.n - 1)).buf = []) : ¬ lastRecv S T := by
  intro ⟨it, hl⟩
  rw [h] at hl
  cases hl

theorem isEmpty_false_cons {α} (l : List α) (h : l.isEmpty = false) : ∃ a r, l = a :: r := by
  cases l with
  | nil => simp at h
  | cons a r => exact ⟨a, r, rfl⟩

/-- **every step of the schedule is a move of the transition system** -/
theorem hnext_sound (k : Nat) (S S' : HSys) (d d' : Nat) (h : hnext k S d = some (S', d')) : HStep S S' := by
  unfold hnext at h
  split at h
  · -- the handler has been handed k chunks: it leaves
    rename_i hc
    simp only [Bool.and_eq_true] at hc
    simp only [Option.some.injEq, Prod.mk.injEq] at h
    rw [← h.1]
    exact HStep.stop S hc.1
  · split at h
    · -- the last stage hands a chunk to its consumer
      rename_i it rest hb hacc
      simp only [Bool.and_eq_true, decide_eq_true_eq, Bool.or_eq_true] at hacc
      simp only [Option.some.injEq, Prod.mk.injEq] at h
      rw [← h.1]
      have hl : S.sys.n - 1 + 1 = S.sys.n := by omega
      refine HStep.work S _ (Step.sendLast S.sys (S.sys.n - 1) it rest hl hb) (fun _ => ?_)
      rcases hacc.2 with hr | hd
      · exact Or.inl hr
      · right
        cases ho : S.onStop <;> simp [ho, OnStop.drains] at hd ⊢
    · split at h
      · -- a stage sends to the next one
        rename_i i hfi
        obtain ⟨hi, hp⟩ := findIdx_spec _ _ _ hfi
        simp only [canSend, Bool.and_eq_true, decide_eq_true_eq, Bool.not_eq_true'] at hp
        split at h
        · rename_i it rest hb
          simp only [Option.some.injEq, Prod.mk.injEq] at h
          rw [← h.1]
          have hr := readyB_ready _ hp.2
          refine HStep.work S _ (Step.send S.sys i it rest hp.1.1 hb hr) (fun hl => ?_)
          exfalso
          revert hl
          by_cases h1 : S.sys.n - 1 = i + 1
          · apply not_lastRecv_empty; rw [h1]; exact hr.1
          · apply not_lastRecv_same
            have h2 : S.sys.n - 1 ≠ i := by omega
            simp only [upd, h1, h2, if_false]
        · cases h
      · split at h
        · -- the scanner sends a batch
          rename_i it rest hs hr0
          simp only [Bool.and_eq_true, decide_eq_true_eq] at hr0
          simp only [Option.some.injEq, Prod.mk.injEq] at h
          rw [← h.1]
          have hr := readyB_ready _ hr0.2
          refine HStep.work S _ (Step.srcSend S.sys it rest hs hr0.1 hr) (fun hl => ?_)
          exfalso
          revert hl
          by_cases h1 : S.sys.n - 1 = 0
          · apply not_lastRecv_empty; rw [h1]; exact hr.1
          · apply not_lastRecv_same
            simp only [upd, h1, if_false]
        · split at h
          · -- the scanner closes its channel
            rename_i src _ _ hc
            simp only [Bool.and_eq_true, Bool.not_eq_true', List.isEmpty_iff] at hc
            simp only [Option.some.injEq, Prod.mk.injEq] at h
            rw [← h.1]
            exact HStep.work S _ (Step.srcClose S.sys hc.1 hc.2) (fun hl => absurd hl (not_lastRecv_same rfl))
          · split at h
            · -- a stage sees its input closed
              rename_i i hfi
              obtain ⟨hi, hp⟩ := findIdx_spec _ _ _ hfi
              simp only [canSeeClose, Bool.and_eq_true] at hp
              simp only [Option.some.injEq, Prod.mk.injEq] at h
              rw [← h.1]
              have hr := readyB_ready _ hp.1
              refine HStep.work S _ (Step.seeClose S.sys i hi hr (upClosedB_upClosed _ _ hp.2)) (fun hl => ?_)
              exfalso
              revert hl
              by_cases h1 : S.sys.n - 1 = i
              · apply not_lastRecv_empty; rw [h1]; exact hr.1
              · apply not_lastRecv_same
                simp only [upd, h1, if_false]
            · split at h
              · -- a stage closes its output
                rename_i i hfi
                obtain ⟨hi, hp⟩ := findIdx_spec _ _ _ hfi
                simp only [canClose, Bool.and_eq_true, Bool.not_eq_true', Bool.or_eq_true, List.isEmpty_iff] at hp
                simp only [Option.some.injEq, Prod.mk.injEq] at h
                rw [← h.1]
                refine HStep.work S _ (Step.close S.sys i hi hp.1.1 hp.1.2 hp.2) (fun hl => ?_)
                exfalso
                revert hl
                apply not_lastRecv_same
                by_cases h1 : S.sys.n - 1 = i
                · simp only [upd, h1, if_true, Stg.closeOut]
                · simp only [upd, h1, if_false]
              · split at h
                · rename_i hr
                  simp only [Option.some.injEq, Prod.mk.injEq] at h
                  rw [← h.1]
                  exact HStep.stop S hr
                · cases h

/-- the state the schedule ends in is reachable -/
theorem hsched_run (k fuel : Nat) (S : HSys) (d : Nat) : HRun S (hsched k fuel S d).1 := by
  induction fuel generalizing S d with
  | zero => exact HRun.refl S
  | succ f ih =>
    simp only [hsched]
    cases hn : hnext k S d with
    | none => exact HRun.refl S
    | some p =>
      obtain ⟨S', d'⟩ := p
      exact HRun.step (hnext_sound k S S' d d' hn) (ih S' d')

theorem allBelow_spec (p : Nat → Bool) (n : Nat) (h : allBelow p n = true) : ∀ i, i < n → p i = true := by
  induction n with
  | zero => intro i hi; omega
  | succ n ih =>
    simp only [allBelow, Bool.and_eq_true] at h
    intro i hi
    by_cases hin : i = n
    · subst hin; exact h.2
    · exact ih h.1 i (by omega)

/-- verdict `final`: every goroutine has returned -/
theorem hfinalB_sound (S : HSys) (h : hfinalB S = true) : HFinal S := by
  simp only [hfinalB, Bool.and_eq_true, Bool.not_eq_true', List.isEmpty_iff] at h
  obtain ⟨⟨⟨hs, hc⟩, hr⟩, ha⟩ := h
  refine ⟨⟨hs, hc, fun i hi => ?_⟩, hr⟩
  have := allBelow_spec _ _ ha i hi
  simp only [Bool.and_eq_true, List.isEmpty_iff] at this
  exact ⟨this.1.1, this.1.2, this.2⟩

/-- verdict `blocked`: the state is an abandoned one — by `hrun_abandoned` no continuation reaches the final state -/
theorem abandonedB_sound (S : HSys) (h : abandonedB S = true) : Abandoned S := by
  simp only [abandonedB, Bool.and_eq_true, Bool.not_eq_true', decide_eq_true_eq] at h
  obtain ⟨⟨⟨⟨hr, hd⟩, hsel⟩, hn⟩, hb⟩ := h
  refine ⟨hr, ?_, hsel, hn, ?_⟩
  · intro hc; rw [hc] at hd; simp [OnStop.drains] at hd
  · intro he; rw [he] at hb; simp at hb

end Qryn.ReadSide.Pipe
