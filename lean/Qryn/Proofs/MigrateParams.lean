import Qryn.Proofs.MigrateCluster
/-! The criteria the convergence proofs rest on (`wfB`, `CProg.wfB`) do not look at the text identity of objects:
    they hold of a program under every parameter instance iff they hold under the default one. -/
set_option linter.unusedSimpArgs false
namespace Qryn.Ctrl.Migrate

theorem rerunnableB_mapBody (g : Nat → Nat) (s : Stmt) : (s.mapBody g).rerunnableB = s.rerunnableB := by
  cases s <;> rfl

theorem bootTarget_mapBody (g : Nat → Nat) (s : Stmt) : (s.mapBody g).bootTarget = s.bootTarget := by
  cases s with
  | create k n gd cols b needs => cases gd <;> rfl
  | _ => rfl

theorem removes_mapBody (g : Nat → Nat) (s : Stmt) : (s.mapBody g).removes = s.removes := by
  cases s <;> rfl

theorem preservesB_mapBody (g g' : Nat → Nat) (s b : Stmt) : preservesB (s.mapBody g) (b.mapBody g') = preservesB s b := by
  simp only [preservesB, bootTarget_mapBody, removes_mapBody]

theorem phase_stmts_mapBody (g : Nat → Nat) (ph : Phase) : (ph.mapBody g).stmts = ph.stmts.map (Stmt.mapBody g) := by
  simp only [Phase.stmts, Phase.mapBody]
  cases ph.scripts with
  | none => simp
  | some p => obtain ⟨k, ss⟩ := p; simp

theorem allStmts_mapBody (g : Nat → Nat) (P : List Phase) :
    allStmts (P.map (Phase.mapBody g)) = (allStmts P).map (Stmt.mapBody g) := by
  induction P with
  | nil => rfl
  | cons ph r ih =>
    simp only [allStmts, List.map_cons, List.flatMap_cons, List.map_append] at ih ⊢
    rw [ih, phase_stmts_mapBody]

theorem allBoots_mapBody (g : Nat → Nat) (P : List Phase) :
    allBoots (P.map (Phase.mapBody g)) = (allBoots P).map (Stmt.mapBody g) := by
  induction P with
  | nil => rfl
  | cons ph r ih =>
    simp only [allBoots, List.map_cons, List.flatMap_cons, List.map_append] at ih ⊢
    rw [ih]; rfl

theorem wfB_mapBody (g : Nat → Nat) (P : List Phase) : wfB (P.map (Phase.mapBody g)) = wfB P := by
  simp only [wfB, allStmts_mapBody, allBoots_mapBody, List.all_map]
  congr 1
  · congr 1; funext s; exact rerunnableB_mapBody g s
  · congr 1; funext b
    simp only [Function.comp, List.all_map]
    congr 1; funext s; exact preservesB_mapBody g g s b

theorem toPhase_mapBody (g : Nat → Nat) (ph : CPhase) : (ph.mapBody g).toPhase = ph.toPhase.mapBody g := by
  simp only [CPhase.toPhase, CPhase.mapBody, Phase.mapBody, List.map_map]
  cases ph.scripts with
  | none => rfl
  | some p => obtain ⟨k, ss⟩ := p; simp [CStmt.mapBody, Function.comp_def]

theorem toProg_mapBody (g : Nat → Nat) (P : CProg) : (P.mapBody g).toProg = P.toProg.map (Phase.mapBody g) := by
  have hp : (P.phases.map (CPhase.mapBody g)).map CPhase.toPhase = (P.phases.map CPhase.toPhase).map (Phase.mapBody g) := by
    simp only [List.map_map]
    congr 1; funext ph; exact toPhase_mapBody g ph
  simp only [CProg.toProg, CProg.mapBody]
  by_cases hs : P.skipInit = true
  · simp only [hs, if_true]; exact hp
  · simp only [hs, if_false, List.map_cons, hp]; rfl

theorem clusterOkB_mapBody (g : Nat → Nat) (s : CStmt) : (s.mapBody g).clusterOkB = s.clusterOkB := by
  obtain ⟨st, oc⟩ := s
  cases st <;> rfl

theorem isCreateDb_mapBody (g : Nat → Nat) (s : Stmt) : (s.mapBody g).isCreateDb = s.isCreateDb := by
  cases s <;> rfl

theorem cphase_stmts_mapBody (g : Nat → Nat) (ph : CPhase) : (ph.mapBody g).stmts = ph.stmts.map (CStmt.mapBody g) := by
  simp only [CPhase.stmts, CPhase.mapBody]
  cases ph.scripts with
  | none => simp
  | some p => obtain ⟨k, ss⟩ := p; simp

theorem cphases_stmts_mapBody (g : Nat → Nat) (P : List CPhase) :
    (P.map (CPhase.mapBody g)).flatMap CPhase.stmts = (P.flatMap CPhase.stmts).map (CStmt.mapBody g) := by
  induction P with
  | nil => rfl
  | cons ph r ih =>
    simp only [List.map_cons, List.flatMap_cons, List.map_append] at ih ⊢
    rw [ih, cphase_stmts_mapBody]

theorem headOc_mapBody (g : Nat → Nat) (P : List CPhase) : headOc (P.map (CPhase.mapBody g)) = headOc P := by
  cases P with
  | nil => rfl
  | cons ph r =>
    simp only [List.map_cons, headOc, CPhase.mapBody]
    cases ph.boot with
    | nil => rfl
    | cons s B => rfl

theorem createDbEq_mapBody (g : Nat → Nat) (s : Stmt) :
    (s.mapBody g == Stmt.createDatabase true) = (s == Stmt.createDatabase true) := by
  cases s with
  | create k n gd cols b needs =>
    have h : ∀ x, (Stmt.create k n gd cols x needs == Stmt.createDatabase true) = false := by intro x; simp
    simp only [Stmt.mapBody, h]
  | _ => rfl

theorem cwfB_mapBody (g : Nat → Nat) (P : CProg) : (P.mapBody g).wfB = P.wfB := by
  obtain ⟨dist, skip, cdb, phases⟩ := P
  have h1 : ∀ s : CStmt, (if dist = true then (s.mapBody g).clusterOkB else !(s.mapBody g).oc) =
      (if dist = true then s.clusterOkB else !s.oc) := by
    intro s; rw [clusterOkB_mapBody]; rfl
  have h2 : ∀ s : CStmt, (!(s.mapBody g).stmt.isCreateDb) = !s.stmt.isCreateDb := by
    intro s; simp only [CStmt.mapBody, isCreateDb_mapBody]
  simp only [CProg.wfB, CProg.mapBody, CProg.stmts, cphases_stmts_mapBody, List.all_cons, List.all_map, Function.comp_def,
    h1, h2, headOc_mapBody]
  have h3 : ∀ s : CStmt, ({ stmt := Stmt.mapBody g s.stmt, oc := s.oc } : CStmt).clusterOkB = s.clusterOkB :=
    fun s => clusterOkB_mapBody g s
  simp only [CStmt.mapBody, createDbEq_mapBody, h3]

end Qryn.Ctrl.Migrate
