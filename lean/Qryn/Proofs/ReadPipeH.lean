import Qryn.ReadSide.PipelineH
import Qryn.Proofs.ReadPipe
/-! Lemmas for the pipeline with its consumer: measure, invariant, progress under the two conventions
    (handler drains / handler cancels a context every producer selects on), and the abandoned exporter. -/
namespace Qryn.ReadSide.Pipe

theorem weight_abort (s : Stg) (hb : s.buf ≠ []) : s.abort.weight < s.weight := by
  have := sizeL_pos_of_ne_nil _ hb
  unfold Stg.weight Stg.abort
  simp only [sizeL]
  omega

/-- **every move of the system with its consumer decreases the measure** -/
theorem hstep_measure {S S' : HSys} (h : HStep S S') : S'.measure < S.measure := by
  cases h with
  | work T hs _ =>
    have := step_measure hs
    simp only [HSys.measure]; omega
  | stop hr =>
    simp only [HSys.measure, hr]
    cases S.ctxDone <;> cases (S.onStop == OnStop.cancel) <;> simp <;> omega
  | envCancel hc =>
    simp only [HSys.measure, hc]; simp
  | abort i hc hs hi hb =>
    have h1 := sumTo_upd S.sys.n S.sys.stg i (S.sys.stg i).abort hi
    have h2 := weight_abort (S.sys.stg i) hb
    simp only [HSys.measure, Sys.measure]; omega
  | srcAbort hc hs hne =>
    have := sizeL_pos_of_ne_nil _ hne
    simp only [HSys.measure, Sys.measure, sizeL]; omega

/-- an aborted send keeps the invariant: the stage counts as stopped, with nothing left to send -/
theorem abort_inv {S : Sys} (hI : Inv S) (i : Nat) (hi : i < S.n) :
    Inv { S with stg := upd S.stg i (S.stg i).abort } := by
  refine ⟨hI.pos, ?_, ?_, ?_, ?_, hI.srcEmpty, ?_⟩
  · intro j hj ho
    by_cases h : j = i
    · subst h; simp [upd, Stg.abort]
    · simp only [upd, h, if_false] at ho ⊢; exact hI.closedEmpty j hj ho
  · intro j hj ho
    by_cases h : j = i
    · subst h; simp [upd, Stg.abort]
    · simp only [upd, h, if_false] at ho ⊢; exact hI.outStop j hj ho
  · intro j hj hc
    have hcj : (S.stg (j + 1)).inClosed = true := by
      by_cases h : j + 1 = i
      · simp only [upd, h, if_true, Stg.abort] at hc; rw [h]; exact hc
      · simp only [upd, h, if_false] at hc; exact hc
    have := hI.inAfterOut j hj hcj
    by_cases h : j = i
    · subst h; simp only [upd, if_true, Stg.abort]; exact this
    · simp only [upd, h, if_false]; exact this
  · intro hc
    by_cases h : 0 = i
    · subst h; simp only [upd, if_true, Stg.abort] at hc; exact hI.in0 hc
    · simp only [upd, h, if_false] at hc; exact hI.in0 hc
  · intro j hj
    by_cases h : j = i
    · subst h; simp only [upd, if_true, Stg.abort]; exact hI.drains j hj
    · simp only [upd, h, if_false]; exact hI.drains j hj

theorem srcAbort_inv {S : Sys} (hI : Inv S) : Inv { S with src := [] } :=
  ⟨hI.pos, hI.closedEmpty, hI.outStop, hI.inAfterOut, hI.in0, fun _ => rfl, hI.drains⟩

/-- **the invariant is kept by every move** -/
theorem hstep_inv {S S' : HSys} (hI : HInv S) (h : HStep S S') : HInv S' := by
  cases h with
  | work T hs _ => exact ⟨step_inv hI.inv hs, hI.cancelled⟩
  | stop hr =>
    refine ⟨hI.inv, ?_⟩
    intro _ hc
    have hc' : S.onStop = OnStop.cancel := hc
    simp [hc']
  | envCancel hc => exact ⟨hI.inv, fun _ _ => rfl⟩
  | abort i hc hs hi hb => exact ⟨abort_inv hI.inv i hi, hI.cancelled⟩
  | srcAbort hc hs hne => exact ⟨srcAbort_inv hI.inv, hI.cancelled⟩

theorem hstart_inv (n : Nat) (hn : 0 < n) (rows : List Item) (flush : Nat → List Item) (c : OnStop) (sel : Bool) :
    HInv (hstart n rows flush (fun _ => true) c sel) :=
  ⟨start_inv n hn rows flush, fun h => by simp [hstart] at h⟩

theorem hrun_inv {S S' : HSys} (hI : HInv S) (h : HRun S S') : HInv S' := by
  induction h with
  | refl => exact hI
  | step hs _ ih => exact ih (hstep_inv hI hs)

theorem hrun_measure {S S' : HSys} (h : HRun S S') : S'.measure ≤ S.measure := by
  induction h with
  | refl => exact Nat.le_refl _
  | step hs _ ih => have := hstep_measure hs; omega

/-- the two code properties are never changed by a move -/
theorem hstep_code {S S' : HSys} (h : HStep S S') : S'.onStop = S.onStop ∧ S'.sel = S.sel := by
  cases h <;> exact ⟨rfl, rfl⟩

theorem hrun_code {S S' : HSys} (h : HRun S S') : S'.onStop = S.onStop ∧ S'.sel = S.sel := by
  induction h with
  | refl => exact ⟨rfl, rfl⟩
  | step hs _ ih =>
    have := hstep_code hs
    exact ⟨ih.1.trans this.1, ih.2.trans this.2⟩

/-- the code's convention: the handler drains, or it cancels a context on which every producer's send selects -/
def Convention (S : HSys) : Prop := S.onStop = .drain ∨ (S.onStop = .cancel ∧ S.sel = true)

/-- **no blocked sender**: under either convention a state that is not final has a move -/
theorem hprogress {S : HSys} (hI : HInv S) (hc : Convention S) (hF : ¬ HFinal S) : ∃ S', HStep S S' := by
  cases hr : S.reading with
  | true => exact ⟨_, HStep.stop S hr⟩
  | false =>
    have hnf : ¬ Final S.sys := fun h => hF ⟨h, hr⟩
    rcases hc with hd | ⟨hcan, hsel⟩
    · obtain ⟨T, hs⟩ := progress hI.inv hnf
      exact ⟨_, HStep.work S T hs (fun _ => Or.inr hd)⟩
    · have hdone := hI.cancelled hr hcan
      by_cases hA : ∃ i, i < S.sys.n ∧ (S.sys.stg i).buf ≠ []
      · obtain ⟨i, hi, hb⟩ := hA
        exact ⟨_, HStep.abort S i hdone hsel hi hb⟩
      · obtain ⟨T, hs⟩ := progress hI.inv hnf
        refine ⟨_, HStep.work S T hs ?_⟩
        intro ⟨it, hl⟩
        exfalso
        apply hA
        refine ⟨S.sys.n - 1, ?_, ?_⟩
        · have := hI.inv.pos; omega
        · rw [hl]; exact List.cons_ne_nil _ _

theorem hrun_trans {A B C : HSys} (h1 : HRun A B) (h2 : HRun B C) : HRun A C := by
  induction h1 with
  | refl => exact h2
  | step hs _ ih => exact HRun.step hs (ih h2)

/-- from every state some schedule reaches the final state -/
theorem hreaches_final (S : HSys) (hI : HInv S) (hc : Convention S) : ∃ S', HRun S S' ∧ HFinal S' := by
  generalize hm : S.measure = m
  induction m using Nat.strongRecOn generalizing S with
  | _ m ih =>
    by_cases hF : HFinal S
    · exact ⟨S, HRun.refl S, hF⟩
    · obtain ⟨S1, hs⟩ := hprogress hI hc hF
      have hlt := hstep_measure hs
      have hc1 : Convention S1 := by
        have := hstep_code hs
        unfold Convention; rw [this.1, this.2]; exact hc
      obtain ⟨S2, hr, hf⟩ := ih S1.measure (by omega) S1 (hstep_inv hI hs) hc1 rfl
      exact ⟨S2, HRun.step hs hr, hf⟩

/-! ## the abandoned exporter -/

/-- a move of the pipeline that is not a receive from the last stage leaves a non-empty buffer of the last stage
    non-empty -/
theorem step_keeps_pending {S T : Sys} (h : Step S T) (hn : 0 < S.n) (hp : (S.stg (S.n - 1)).buf ≠ [])
    (hl : ¬ lastRecv S T) : T.n = S.n ∧ (T.stg (S.n - 1)).buf ≠ [] := by
  cases h with
  | srcSend it rest hs hn' hr =>
    refine ⟨rfl, ?_⟩
    by_cases h0 : S.n - 1 = 0
    · rw [h0] at hp; exact absurd hr.1 hp
    · simp only [upd, h0, if_false]; exact hp
  | cancel k hk => exact ⟨rfl, hp⟩
  | srcClose hs hc => exact ⟨rfl, hp⟩
  | seeClose i hi hr hu =>
    refine ⟨rfl, ?_⟩
    by_cases h0 : S.n - 1 = i
    · rw [h0] at hp; exact absurd hr.1 hp
    · simp only [upd, h0, if_false]; exact hp
  | send i it rest hi hb hr =>
    refine ⟨rfl, ?_⟩
    by_cases h1 : S.n - 1 = i + 1
    · rw [h1] at hp; exact absurd hr.1 hp
    · have h2 : S.n - 1 ≠ i := by omega
      simp only [upd, h1, h2, if_false]; exact hp
  | sendLast i it rest hi hb =>
    exfalso
    apply hl
    have : S.n - 1 = i := by omega
    refine ⟨it, ?_⟩
    simp only [this, upd, if_true, Stg.setBuf]
    exact hb
  | close i hi hb hc hs =>
    refine ⟨rfl, ?_⟩
    by_cases h0 : S.n - 1 = i
    · simp only [upd, h0, if_true, Stg.closeOut]; rw [h0] at hp; exact hp
    · simp only [upd, h0, if_false]; exact hp

theorem hstep_abandoned {S S' : HSys} (hA : Abandoned S) (h : HStep S S') : Abandoned S' := by
  cases h with
  | work T hs hside =>
    have hna : ¬ S.accepts := by
      intro ha
      rcases ha with h | h
      · rw [hA.left] at h; cases h
      · exact hA.code h
    have hl : ¬ lastRecv S.sys T := fun hl => hna (hside hl)
    obtain ⟨hn, hb⟩ := step_keeps_pending hs hA.pos hA.pending hl
    exact ⟨hA.left, hA.code, hA.nosel, by simp only [hn]; exact hA.pos, by simp only [hn]; exact hb⟩
  | stop hr => rw [hA.left] at hr; cases hr
  | envCancel hc => exact ⟨hA.left, hA.code, hA.nosel, hA.pos, hA.pending⟩
  | abort i hc hs hi hb => rw [hA.nosel] at hs; cases hs
  | srcAbort hc hs hne => rw [hA.nosel] at hs; cases hs

theorem hrun_abandoned {S S' : HSys} (hA : Abandoned S) (h : HRun S S') : Abandoned S' := by
  induction h with
  | refl => exact hA
  | step hs _ ih => exact ih (hstep_abandoned hA hs)

theorem abandoned_not_final {S : HSys} (hA : Abandoned S) : ¬ HFinal S := by
  intro hF
  have := (hF.1.2.2 (S.sys.n - 1) (by have := hA.pos; omega)).1
  exact hA.pending this

end Qryn.ReadSide.Pipe
