import Qryn.Ingest.SeriesIndex
/-! Invariant of the series-index machine: every cache entry and every acknowledged sample has its
    `time_series` row stored. Core only. -/
namespace Qryn.SeriesIndex
open Qryn.Gen

theorem mem_dedup {α : Type} [DecidableEq α] (a : α) : ∀ (l : List α), a ∈ dedup l ↔ a ∈ l
  | [] => by simp [dedup]
  | b :: t => by
    have ih := mem_dedup a t
    simp only [dedup]
    split
    · rename_i hb
      rw [ih]
      constructor
      · intro h; exact List.mem_cons_of_mem _ h
      · intro h
        rcases List.mem_cons.mp h with h | h
        · subst h; exact hb
        · exact h
    · simp [ih]

variable {K : Type} [DecidableEq K]

/-! ### one chunk -/

theorem emit_fold (key : Cand → K) (loc : Int) (cache : List K) (xs : List Cand) :
    ∀ (seen : List K) (rows : List Row),
      let r := xs.foldl (emitOne key loc cache) (seen, rows)
      ((∀ k, k ∈ seen → k ∈ r.1) ∧ (∀ w, w ∈ rows → w ∈ r.2)) ∧
      (∀ x, x ∈ xs → key x ∈ cache ∨ key x ∈ r.1) ∧
      (∀ k, k ∈ r.1 → k ∈ seen ∨ ∃ x, x ∈ xs ∧ key x = k ∧ rowOf loc x ∈ r.2) := by
  induction xs with
  | nil => intro seen rows; simp
  | cons x t ih =>
    intro seen rows
    simp only [List.foldl_cons]
    by_cases hx : key x ∈ seen ∨ key x ∈ cache
    · have he : emitOne key loc cache (seen, rows) x = (seen, rows) := by simp [emitOne, hx]
      rw [he]
      obtain ⟨⟨a1, a2⟩, b, c⟩ := ih seen rows
      refine ⟨⟨a1, a2⟩, ?_, ?_⟩
      · intro y hy
        rcases List.mem_cons.mp hy with h | h
        · subst h
          rcases hx with h | h
          · exact Or.inr (a1 _ h)
          · exact Or.inl h
        · exact b y h
      · intro k hk
        rcases c k hk with h | ⟨y, hy, h1, h2⟩
        · exact Or.inl h
        · exact Or.inr ⟨y, List.mem_cons_of_mem _ hy, h1, h2⟩
    · have he : emitOne key loc cache (seen, rows) x = (key x :: seen, rowOf loc x :: rows) := by
        simp [emitOne, hx]
      rw [he]
      obtain ⟨⟨a1, a2⟩, b, c⟩ := ih (key x :: seen) (rowOf loc x :: rows)
      refine ⟨⟨fun k hk => a1 k (List.mem_cons_of_mem _ hk), fun w hw => a2 w (List.mem_cons_of_mem _ hw)⟩, ?_, ?_⟩
      · intro y hy
        rcases List.mem_cons.mp hy with h | h
        · subst h; exact Or.inr (a1 _ (List.mem_cons_self))
        · exact b y h
      · intro k hk
        rcases c k hk with h | ⟨y, hy, h1, h2⟩
        · rcases List.mem_cons.mp h with h | h
          · exact Or.inr ⟨x, List.mem_cons_self, h.symm, a2 _ List.mem_cons_self⟩
          · exact Or.inl h
        · exact Or.inr ⟨y, List.mem_cons_of_mem _ hy, h1, h2⟩

/-! ### all chunks of a request -/

theorem emitChunks_spec (key : Cand → K) (loc : Int) (cache : List K) (cs : List Chunk) :
    ∀ (seen : List K),
      let r := emitChunks key loc cache seen cs
      (∀ k, k ∈ seen → k ∈ r.1) ∧
      (∀ c, c ∈ cs → ∀ x, x ∈ chunkCands loc c → key x ∈ cache ∨ key x ∈ r.1) ∧
      (∀ k, k ∈ r.1 → k ∈ seen ∨ ∃ c, c ∈ cs ∧ ∃ x, x ∈ chunkCands loc c ∧ key x = k ∧ rowOf loc x ∈ r.2.flatten) ∧
      r.2.length = cs.length := by
  induction cs with
  | nil => intro seen; simp [emitChunks]
  | cons c t ih =>
    intro seen
    simp only [emitChunks]
    obtain ⟨⟨a1, _⟩, b, cc⟩ := emit_fold key loc cache (chunkCands loc c) seen []
    obtain ⟨e3, e2, e1, e4⟩ := ih (emitCands key loc cache seen (chunkCands loc c)).1
    refine ⟨fun k hk => e3 k (a1 k hk), ?_, ?_, by simp [e4]⟩
    · intro c' hc' x hx
      rcases List.mem_cons.mp hc' with h | h
      · subst h
        rcases b x hx with h | h
        · exact Or.inl h
        · exact Or.inr (e3 _ h)
      · exact e2 c' h x hx
    · intro k hk
      rcases e1 k hk with h | ⟨c', hc', x, hx, h1, h2⟩
      · rcases cc k h with h | ⟨x, hx, h1, h2⟩
        · exact Or.inl h
        · refine Or.inr ⟨c, List.mem_cons_self, x, hx, h1, ?_⟩
          simp only [List.flatten_cons, List.mem_append]
          exact Or.inl h2
      · refine Or.inr ⟨c', List.mem_cons_of_mem _ hc', x, hx, h1, ?_⟩
        simp only [List.flatten_cons, List.mem_append]
        exact Or.inr h2

theorem insertedRows_all : ∀ (cs : List Chunk) (rs : List (List Row)),
    (∀ c, c ∈ cs → c.seriesOk = true) → rs.length = cs.length → insertedRows cs rs = rs.flatten
  | [], [], _, _ => by simp [insertedRows]
  | [], _ :: _, _, h => by simp at h
  | _ :: _, [], _, h => by simp at h
  | c :: cs, r :: rs, hok, hl => by
    have h1 : c.seriesOk = true := hok c List.mem_cons_self
    have ih := insertedRows_all cs rs (fun c' hc' => hok c' (List.mem_cons_of_mem _ hc')) (by simpa using hl)
    simp [insertedRows, h1, ih]

/-! ### samples and their candidates -/

theorem sample_cand (loc : Int) (cl : Call) (e : Int × Nat) (he : e ∈ cl.entries) (ht : e.2 ≤ 2) :
    (⟨(sampleDay loc e.1).unix, cl.fp, e.2⟩ : Cand) ∈ callCands loc cl := by
  simp only [callCands, List.mem_flatMap, List.mem_map, List.mem_filter]
  refine ⟨(sampleDay loc e.1).unix, ?_, e.2, ⟨?_, ?_⟩, rfl⟩
  · rw [mem_dedup]; exact List.mem_map.mpr ⟨e, he, rfl⟩
  · have : e.2 = 0 ∨ e.2 = 1 ∨ e.2 = 2 := by omega
    rcases this with h | h | h <;> simp [h]
  · simp only [List.any_eq_true, decide_eq_true_eq]
    exact ⟨e, he, rfl⟩

theorem rowOf_sample (loc : Int) (fp : Nat) (e : Int × Nat) :
    rowOf loc ⟨(sampleDay loc e.1).unix, fp, e.2⟩ = rowFor loc ⟨fp, e.1, e.2⟩ := by
  simp only [rowOf, rowFor, seriesDate, sampleDay, Row.mk.injEq, and_true]
  cases Fingerprint.seriesDateUTC <;> simp [GoTime.truncate24h, GoTime.utc, timeUnix]

/-! ### the invariant -/

/-- every cache entry stands for a candidate whose row is stored; every acknowledged sample has its row -/
structure Inv (key : Cand → K) (loc : Int) (U : Cand → Prop) (st : St K) : Prop where
  cache : ∀ k, k ∈ st.cache → ∃ x, U x ∧ key x = k ∧ rowOf loc x ∈ st.series
  acked : ∀ s, s ∈ st.acked → s.tp ≤ 2 → rowFor loc s ∈ st.series

omit [DecidableEq K] in
theorem inv_init (key : Cand → K) (loc : Int) (U : Cand → Prop) : Inv key loc U (St.init : St K) :=
  ⟨by simp [St.init], by simp [St.init]⟩

theorem inv_push (key : Cand → K) (loc : Int) (U : Cand → Prop)
    (hinj : ∀ x y, U x → U y → key x = key y → x = y)
    (st : St K) (r : Req) (hU : ∀ x, x ∈ opCands loc (.push r) → U x) (h : Inv key loc U st) :
    Inv key loc U (pushWith false true key loc st r) := by
  obtain ⟨e3, e2, e1, e4⟩ := emitChunks_spec key loc st.cache r.chunks []
  simp only [pushWith, Bool.false_eq_true, if_false, Bool.and_true]
  by_cases hack : reqAcked r = true
  · -- the request is acknowledged: every chunk was stored
    have hok : ∀ c, c ∈ r.chunks → c.seriesOk = true := by
      intro c hc
      have := hack
      simp only [reqAcked, Bool.and_eq_true, List.all_eq_true] at this
      exact (this.2 c hc).1
    have hins := insertedRows_all r.chunks (emitChunks key loc st.cache [] r.chunks).2 hok e4
    have hUc : ∀ c, c ∈ r.chunks → ∀ x, x ∈ chunkCands loc c → U x := by
      intro c hc x hx
      apply hU
      simp only [opCands, List.mem_append, List.mem_flatMap]
      exact Or.inl ⟨c, hc, hx⟩
    simp only [hack, if_true, hins]
    constructor
    · intro k hk
      rcases List.mem_append.mp hk with hk | hk
      · rcases e1 k hk with h0 | ⟨c, hc, x, hx, h1, h2⟩
        · simp at h0
        · exact ⟨x, hUc c hc x hx, h1, List.mem_append.mpr (Or.inr h2)⟩
      · obtain ⟨x, ux, h1, h2⟩ := h.cache k hk
        exact ⟨x, ux, h1, List.mem_append.mpr (Or.inl h2)⟩
    · intro s hs hs2
      rcases List.mem_append.mp hs with hs | hs
      · exact List.mem_append.mpr (Or.inl (h.acked s hs hs2))
      · obtain ⟨c, hc, hsc⟩ := List.mem_flatMap.mp hs
        obtain ⟨cl, hcl, hscl⟩ := List.mem_flatMap.mp hsc
        obtain ⟨e, he, hes⟩ := List.mem_map.mp hscl
        subst hes
        have hx : (⟨(sampleDay loc e.1).unix, cl.fp, e.2⟩ : Cand) ∈ chunkCands loc c :=
          List.mem_flatMap.mpr ⟨cl, hcl, sample_cand loc cl e he hs2⟩
        rw [← rowOf_sample]
        have ux := hUc c hc _ hx
        rcases e2 c hc _ hx with hk | hk
        · obtain ⟨y, uy, h1, h2⟩ := h.cache _ hk
          have := hinj _ _ uy ux h1
          subst this
          exact List.mem_append.mpr (Or.inl h2)
        · rcases e1 _ hk with h0 | ⟨c', hc', y, hy, h1, h2⟩
          · simp at h0
          · have := hinj _ _ (hUc c' hc' y hy) ux h1
            subst this
            exact List.mem_append.mpr (Or.inr h2)
  · -- not acknowledged: nothing is announced, the tables only grow
    have hack' : reqAcked r = false := by simpa using hack
    simp only [hack', Bool.false_eq_true, if_false]
    constructor
    · intro k hk
      obtain ⟨x, ux, h1, h2⟩ := h.cache k hk
      exact ⟨x, ux, h1, List.mem_append.mpr (Or.inl h2)⟩
    · intro s hs hs2
      exact List.mem_append.mpr (Or.inl (h.acked s hs hs2))

theorem inv_step (key : Cand → K) (loc : Int) (U : Cand → Prop)
    (hinj : ∀ x y, U x → U y → key x = key y → x = y)
    (st : St K) (op : Op) (hU : ∀ x, x ∈ opCands loc op → U x) (h : Inv key loc U st) :
    Inv key loc U (stepWith false true key loc st op) := by
  cases op with
  | push r => exact inv_push key loc U hinj st r hU h
  | cacheReset => exact ⟨by simp [stepWith], by simpa [stepWith] using h.acked⟩

theorem inv_run (key : Cand → K) (loc : Int) (U : Cand → Prop)
    (hinj : ∀ x y, U x → U y → key x = key y → x = y) (ops : List Op) :
    ∀ (st : St K), Inv key loc U st → (∀ op, op ∈ ops → ∀ x, x ∈ opCands loc op → U x) →
      Inv key loc U (ops.foldl (stepWith false true key loc) st) := by
  induction ops with
  | nil => intro st h _; exact h
  | cons op t ih =>
    intro st h hU
    simp only [List.foldl_cons]
    exact ih _ (inv_step key loc U hinj st op (hU op List.mem_cons_self) h)
      (fun op' hop' => hU op' (List.mem_cons_of_mem _ hop'))

end Qryn.SeriesIndex
