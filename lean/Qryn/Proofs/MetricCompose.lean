import Qryn.Proofs.MetricPlan
import Qryn.Proofs.MetricStep
import Qryn.Proofs.MetricTopk
/-! C08 plan-level proofs, part 4: top/bottom-k and step re-bucketing as plan phases; `planMetric` as the composition
    of its phases; the plan-level theorem for every query shape over a proved range phase. -/
namespace Qryn.LogQL
open Qryn Qryn.Sql

/-! ### does the select built so far have a `labels` column -/
theorem cols_with (body : Sel) (ws : List (Alias × Sel)) : (body.with_ ws).cols = body.cols := by
  cases body; rfl

theorem cols_cmpOpt (cm : Option Comparison) (s : Sel) : (cmpOpt cm s).cols = s.cols := by
  cases cm with
  | none => rfl
  | some c => cases s; rfl

theorem hasLabels_lra (cm : Option Comparison) (fn : RangeFn) (d : Nat) (main : Sel) :
    hasColumn (cmpOpt cm (lraSel fn d false main)).cols "labels" = false := by
  rw [cols_cmpOpt]
  unfold lraSel
  rw [cols_with]
  cases fn <;> simp [Sel.cols, hasColumn, bucketCol, simpleCol, emptyStr]

theorem hasLabels_agg (cm : Option Comparison) (fn : AggFn) (main : Sel) :
    hasColumn (cmpOpt cm (aggSel fn true main)).cols "labels" = true := by
  rw [cols_cmpOpt, aggSel_eq, cols_with]
  cases fn <;> simp [aggBody, aggCols, Sel.cols, hasColumn, simpleCol, emptyStr]

/-! ### atomic keys and labels -/
def PtAtomic (p : Pt) : Prop := Atomic p.key ∧ Atomic p.labels

/-- a point of a stream, before any labels are attached -/
def StreamPt (p : Pt) : Prop := (∃ fp, p.key = .int fp) ∧ p.labels = .null

theorem StreamPt.atomic {p : Pt} (h : StreamPt p) : PtAtomic p := by
  obtain ⟨⟨fp, h1⟩, h2⟩ := h
  unfold PtAtomic Atomic
  rw [h1, h2]; exact ⟨rfl, rfl⟩

theorem Regrouped.atomic {p : Pt} (h : Regrouped p) : PtAtomic p := by
  unfold PtAtomic Atomic
  rcases h with ⟨k, m, h1, h2⟩ | ⟨h1, h2⟩ <;> rw [h1, h2] <;> exact ⟨rfl, rfl⟩

theorem lraPts_stream (fn : RangeFn) (d : Nat) (es : List Sample) : ∀ p ∈ lraPts fn d es, StreamPt p := by
  intro p hp
  unfold lraPts at hp
  obtain ⟨g, _, rfl⟩ := List.mem_map.mp hp
  exact ⟨⟨_, rfl⟩, rfl⟩

theorem topkStage_sub (isTop : Bool) (k : Nat) (pts : List Pt) : ∀ p ∈ topkStage isTop k pts, p ∈ pts := by
  intro p hp
  unfold topkStage at hp
  obtain ⟨t, _, hp'⟩ := List.mem_flatMap.mp hp
  have := (mem_sortBy _ _ p).mp (List.mem_of_mem_take hp')
  exact (List.mem_filter.mp this).1

/-! ### top/bottom-k as a plan phase -/
theorem topkSel_eq (isTop : Bool) (k : Nat) (main : Sel) :
    topkSel isTop k main = (topOuterBody (hasColumn main.cols "labels") none).with_
      [(.named "par_b", (parBBody isTop (hasColumn main.cols "labels") k).with_ [(.named "par_a", main)])] := rfl

theorem topkPhase_eq (isTop : Bool) (k : Nat) (cm : Option Comparison) (main : Sel) :
    cmpOpt cm (topkSel isTop k main) = (topOuterBody (hasColumn main.cols "labels") (cmpHaving cm)).with_
      [(.named "par_b", (parBBody isTop (hasColumn main.cols "labels") k).with_ [(.named "par_a", main)])] := by
  rw [topkSel_eq]
  unfold topOuterBody Sel.with_
  simp only [Sel.setWiths]
  rw [cmpOpt_eq]

theorem PStage.topk {o c d q s pts L} (h : PStage o c d q s pts L) (isTop : Bool) (k : Nat) (cm : Option Comparison) (wl : Bool)
    (hwl : hasColumn s.cols "labels" = wl) (hat : ∀ p ∈ pts, PtAtomic p) (hl : wl = false → ∀ p ∈ pts, p.labels = .null)
    (h2 : Alias.named "par_a" ∉ L) (h2' : Alias.named "par_b" ∉ L) :
    PStage o c d q (cmpOpt cm (topkSel isTop k s)) (cmpStage cm (topkStage isTop k pts))
      (L ++ [.named "par_a", .named "par_b"]) := by
  rw [topkPhase_eq, hwl]
  obtain ⟨a1, a2, a3, a4⟩ := wrap_one o (d.toDbM c) (parBBody isTop wl k) s (.named "par_a") h.nodup
    (h.fresh "par_a" (by decide) h2) (by rfl)
  have hfb : Alias.named "par_b" ∉ als ((parBBody isTop wl k).with_ [(.named "par_a", s)]).withs := by
    rw [a1, als_append]
    simp only [List.mem_append, not_or]
    exact ⟨h.fresh "par_b" (by decide) h2', by simp [als]⟩
  obtain ⟨b1, b2, b3, _⟩ := wrap_one o (d.toDbM c) (topOuterBody wl (cmpHaving cm)) _ (.named "par_b") a2 hfb
    (cmpHaving_notBitSet cm)
  obtain ⟨rest, r1, r2⟩ := h.withs
  refine ⟨⟨rest ++ [(.named "par_a", s), (.named "par_b", (parBBody isTop wl k).with_ [(.named "par_a", s)])], ?_, ?_⟩, b2, ?_⟩
  · rw [b1, a1, r1]; simp
  · rw [als_append, r2]; rfl
  · rw [b3, a3, a4]
    rw [topOuter_eval o (d.toDbM c) _ isTop wl k (groupsBy (fun (r : Row) => r.get "timestamp_ns") (evalSelA o (d.toDbM c) s))
      (by
        simp only [List.lookup, beq_self_eq_true]
        rw [parB_eval o (d.toDbM c) _ isTop wl k _ h.rep.std (by simp [List.lookup])])]
    apply having_rep
    exact topk_rep o _ isTop wl k _ pts h.rep (fun p hp => ⟨(hat p hp).1, (hat p hp).2, fun hw => hl hw p hp⟩)

/-! ### step re-bucketing as a plan phase -/
theorem stepFixSel_eq (c : MCtx) (d : Nat) (main : Sel) (h : ¬ c.stepNs ≤ (d : Int)) :
    stepFixSel c d main = (stepBody c.stepNs (hasColumn main.cols "labels")).with_ [(.named "pre_step_fix", main)] := by
  unfold stepFixSel
  rw [if_neg h]
  rfl

/-- the names `StepFixPlanner` adds -/
def stepAls (c : MCtx) (d : Nat) : List Alias := if c.stepNs ≤ (d : Int) then [] else [.named "pre_step_fix"]

theorem PStage.stepFix {o c d q s pts L} (h : PStage o c d q s pts L) (dur : Nat) (wl : Bool)
    (hwl : hasColumn s.cols "labels" = wl) (hl : wl = false → ∀ p ∈ pts, p.labels = .null)
    (h2 : Alias.named "pre_step_fix" ∉ L) :
    PStage o c d q (stepFixSel c dur s) (stepStage c.stepNs dur pts) (L ++ stepAls c dur) := by
  by_cases hs : c.stepNs ≤ (dur : Int)
  · rw [stepFix_identity c dur s hs]
    unfold stepStage stepAls
    simp only [hs, if_true, List.append_nil]
    exact h
  · rw [stepFixSel_eq c dur s hs, stepStage_eq _ _ _ hs, hwl]
    unfold stepAls
    simp only [hs, if_false]
    apply h.wrap "pre_step_fix" (by decide) h2 (stepBody c.stepNs wl) (by rfl)
    exact step_eval o _ _ c.stepNs (by omega) wl _ pts h.rep hl (by simp [List.lookup])

end Qryn.LogQL

namespace Qryn.LogQL
open Qryn Qryn.Sql

/-! ### `planMetric` as the composition of its phases -/
/-- `matrixFunctionsLabelsIDX != -1`, with the outcome of `AnalyzeMetrics15sShortcut` as a parameter -/
def matrixLabelsW (short : Bool) (q : MetricQuery) : Bool :=
  (q.rangeAgg.isUnwrap && !short) || q.agg?.isSome

/-- the planner state after the steps of the range node (range function, optional comparison); `short` = the
    metrics_15s shortcut is planned -/
def rangeState (short : Bool) (c : MCtx) (q : MetricQuery) : PState :=
  (if short then shortcutRange q.rangeAgg else orderRange q.rangeAgg).foldl (applyStep c q)
    ⟨splSel c q, (labelConds q.rangeAgg.sel).length⟩

def aggPhase (short : Bool) (c : MCtx) (q : MetricQuery) (s : PState) : Sel :=
  match q.agg? with
  | none => s.sel
  | some a => cmpOpt a.cmp (aggSel a.fn (matrixLabelsW short q)
      (planByWithout c.toCtx (!q.rangeAgg.isUnwrap) (some (aggGrouping a)) s).sel)

def topkPhase (q : MetricQuery) (s : Sel) : Sel :=
  match q with
  | .topk t => cmpOpt t.cmp (topkSel t.isTop t.k s)
  | _ => s

def joinPhase (short : Bool) (c : MCtx) (q : MetricQuery) (s : Sel) : Sel :=
  if matrixLabelsW short q then s else labelsJoin c.toCtx q.rangeAgg.sel s

/-- the statement `plan()` builds, as the composition of its phases; `short = false`: the plan of the matrix functions
    (`getFunctionOrder`), `short = true`: the plan of `planMetrics15Shortcut` -/
def planPhases (short : Bool) (c : MCtx) (q : MetricQuery) : Sel :=
  finalizeMatrix (joinPhase short c q (stepFixSel c q.rangeAgg.durNs
    (topkPhase q (aggPhase short c q (rangeState short c q)))))

theorem planMetric_phases (c : MCtx) (q : MetricQuery) : planMetric c q = planPhases (takesShortcut q) c q := by
  unfold planMetric planPhases joinPhase rangeState planSteps
  cases q with
  | range r =>
    by_cases hs : takesShortcut (.range r) = true <;>
      simp [hs, functionOrder, shortcutOrder, topkPhase, aggPhase, MetricQuery.agg?, MetricQuery.rangeAgg, matrixLabels, matrixLabelsW]
  | agg a =>
    by_cases hs : takesShortcut (.agg a) = true <;>
      simp [hs, functionOrder, shortcutOrder, orderAgg, shortcutAgg, topkPhase, aggPhase, MetricQuery.agg?, MetricQuery.rangeAgg,
        List.foldl_append, applyStep, foldl_cmpStep, matrixLabels, matrixLabelsW]
  | topk t =>
    cases hi : t.inner with
    | range r =>
      by_cases hs : takesShortcut (.topk t) = true <;>
        simp [hs, hi, functionOrder, shortcutOrder, topkPhase, aggPhase, MetricQuery.agg?, MetricQuery.rangeAgg, TopInner.rangeAgg,
          List.foldl_append, applyStep, foldl_cmpStep, matrixLabels, matrixLabelsW]
    | agg a =>
      by_cases hs : takesShortcut (.topk t) = true <;>
        simp [hs, hi, functionOrder, shortcutOrder, orderAgg, shortcutAgg, topkPhase, aggPhase, MetricQuery.agg?,
          MetricQuery.rangeAgg, TopInner.rangeAgg, List.foldl_append, applyStep, foldl_cmpStep, matrixLabels, matrixLabelsW]

end Qryn.LogQL

namespace Qryn.LogQL
open Qryn Qryn.Sql

theorem notin_append {α} {a : α} {l1 l2 : List α} (h1 : a ∉ l1) (h2 : a ∉ l2) : a ∉ l1 ++ l2 := by
  rw [List.mem_append, not_or]; exact ⟨h1, h2⟩

/-! ### what the later stages keep of key and labels -/
theorem stepStage_kl (step : Int) (d : Nat) (pts : List Pt) :
    ∀ p ∈ stepStage step d pts, ∃ x ∈ pts, p.key = x.key ∧ p.labels = x.labels := by
  intro p hp
  by_cases hs : step ≤ (d : Int)
  · unfold stepStage at hp
    simp only [hs, if_true] at hp
    exact ⟨p, hp, rfl, rfl⟩
  · rw [stepStage_eq _ _ _ hs, stepCore_eq] at hp
    obtain ⟨g, hg, rfl⟩ := List.mem_map.mp hp
    obtain ⟨⟨a, rest, hgr, hk⟩, hall⟩ := groupsBy_head _ pts g hg
    refine ⟨a, (hall a (by rw [hgr]; simp)).1, ?_, ?_⟩
    · simp only [← hk, stepKey]
    · simp only [hgr, List.head?_cons, Option.map_some, Option.getD_some]

theorem stepStage_pred (step : Int) (d : Nat) (pts : List Pt) (P : Val → Val → Prop) (h : ∀ p ∈ pts, P p.key p.labels) :
    ∀ p ∈ stepStage step d pts, P p.key p.labels := by
  intro p hp
  obtain ⟨x, hx, h1, h2⟩ := stepStage_kl step d pts p hp
  rw [h1, h2]; exact h x hx

theorem grouped_of_chosen (a : VecAgg) (g : Grouping) (hg : chosenGrouping a.byPrefix a.bySuffix = some g) :
    a.grouped = true := by
  unfold VecAgg.grouped
  unfold chosenGrouping at hg
  cases hb : a.bySuffix with
  | some x => simp
  | none => rw [hb] at hg; simp only at hg; rw [hg]; simp

/-- (kept for the statements that name it) every vector aggregation is covered: without a grouping clause `planAgg` plans
    the grouping of the empty label list (the `fix:` of C08/agg-without-grouping-keeps-streams) -/
def aggOk (_q : MetricQuery) : Prop := True

/-- points of the direct reading above the range stage (before step re-bucketing) -/
def upperPts (o : Oracles) (c : MCtx) (d : LokiDb) (q : MetricQuery) (p0 : List Pt) : List Pt :=
  let p1 := match q.agg? with
    | some a => cmpStage a.cmp (aggStage o c.toCtx d q.rangeAgg.sel a p0)
    | none => p0
  match q with
  | .topk t => cmpStage t.cmp (topkStage t.isTop t.k p1)
  | _ => p1

/-- the matrix of the direct reading over the entry window `[lo, hi)` -/
def matrixPts (o : Oracles) (c : MCtx) (d : LokiDb) (q : MetricQuery) (lo hi : Int) : Table :=
  sortBy (rowLe matrixKeys) ((metricPoints o c d q lo hi).map Pt.row)

theorem evalMetric_matrixPts (o : Oracles) (c : MCtx) (d : LokiDb) (q : MetricQuery) :
    evalMetric o c d q = matrixPts o c d q (effWindow c q).1 (effWindow c q).2 := rfl

theorem matrixPts_eq (o : Oracles) (c : MCtx) (d : LokiDb) (q : MetricQuery) (lo hi : Int) :
    matrixPts o c d q lo hi = sortBy (rowLe matrixKeys)
      (((stepStage c.stepNs q.rangeAgg.durNs (upperPts o c d q (cmpStage q.rangeAgg.cmp
          (rangePoints o c.toCtx d q.rangeAgg lo hi)))).map
        (fun p => { p with labels := ptLabels o c.toCtx d q.rangeAgg.sel p })).map Pt.row) := by
  unfold matrixPts metricPoints upperPts
  cases q <;> rfl

/-- **every query shape over a proved range phase (streams path).** If the statement after the range node's planners
    holds the points of the direct reading's range stage (as stream points, without labels column), then the whole plan
    — optional grouped vector aggregation, optional top/bottom-k, their comparisons, step re-bucketing, labels join
    where no stage attached labels, final select — returns the matrix of the direct reading. -/
theorem planPhases_of_range (short : Bool) (o : Oracles) (c : MCtx) (hn : c.namesOk) (d : LokiDb) (q : MetricQuery)
    (hm : q.rangeAgg.sel.matchers.length ≤ 63) (hun : q.rangeAgg.isUnwrap = false) (hok : aggOk q)
    (p0 : List Pt) (Lr : List Alias) (hLr : ∀ a ∈ Lr, a = .named "agg_a")
    (hr : PStage o c d q.rangeAgg.sel (rangeState short c q).sel p0 Lr)
    (hid : (rangeState short c q).id = (labelConds q.rangeAgg.sel).length)
    (hstream : ∀ p ∈ p0, StreamPt p) (hcol : hasColumn (rangeState short c q).sel.cols "labels" = false)
    (lo hi : Int) (hp0 : p0 = cmpStage q.rangeAgg.cmp (rangePoints o c.toCtx d q.rangeAgg lo hi)) :
    (evalSelA o (d.toDbM c) (planPhases short c q)).map normRow = matrixPts o c d q lo hi := by
  unfold planPhases
  rw [matrixPts_eq, ← hp0]
  have hfreshLr : ∀ n : String, n ≠ "agg_a" → Alias.named n ∉ Lr := by
    intro n hne hmem
    exact hne (Alias.named.inj (hLr _ hmem))
  -- the aggregation phase
  cases hagg : q.agg? with
  | none =>
    have hml : matrixLabelsW short q = false := by unfold matrixLabelsW; simp [hun, hagg]
    have hA : aggPhase short c q (rangeState short c q) = (rangeState short c q).sel := by unfold aggPhase; rw [hagg]
    have hU1 : (match q.agg? with
        | some a => cmpStage a.cmp (aggStage o c.toCtx d q.rangeAgg.sel a p0)
        | none => p0) = p0 := by rw [hagg]
    rw [hA]
    unfold joinPhase upperPts
    rw [hml, hU1]
    simp only [Bool.false_eq_true, if_false]
    cases q with
    | topk t =>
      simp only [topkPhase]
      have h2 := hr.topk t.isTop t.k t.cmp false hcol (fun p hp => (hstream p hp).atomic) (fun _ p hp => (hstream p hp).2)
        (hfreshLr _ (by decide)) (hfreshLr _ (by decide))
      have hst2 : ∀ p ∈ cmpStage t.cmp (topkStage t.isTop t.k p0), StreamPt p :=
        cmpStage_labels _ _ _ (fun p hp => hstream p (topkStage_sub _ _ _ p hp))
      have h3 := h2.stepFix (MetricQuery.topk t).rangeAgg.durNs false (by
          rw [cols_cmpOpt, topkSel_eq, cols_with, hcol]; rfl) (fun _ p hp => (hst2 p hp).2)
        (by simp only [List.mem_append, not_or]; exact ⟨hfreshLr _ (by decide), by decide⟩)
      have h4 := h3.join hn hm (stepStage_pred _ _ _ (fun _ l => l = .null) (fun p hp => (hst2 p hp).2)) (by
          simp only [List.mem_append, not_or]
          refine ⟨⟨hfreshLr _ (by decide), by decide⟩, ?_⟩
          unfold stepAls; split <;> simp) (by
          simp only [List.mem_append, not_or]
          refine ⟨⟨hfreshLr _ (by decide), by decide⟩, ?_⟩
          unfold stepAls; split <;> simp)
      rw [h4.final (by
          simp only [List.mem_append, not_or]
          refine ⟨⟨⟨hfreshLr _ (by decide), by decide⟩, ?_⟩, by decide⟩
          unfold stepAls; split <;> simp)]
      rfl
    | range r =>
      simp only [topkPhase]
      have h3 := hr.stepFix (MetricQuery.range r).rangeAgg.durNs false hcol (fun _ p hp => (hstream p hp).2)
        (hfreshLr _ (by decide))
      have h4 := h3.join hn hm (stepStage_pred _ _ _ (fun _ l => l = .null) (fun p hp => (hstream p hp).2)) (by
          simp only [List.mem_append, not_or]
          refine ⟨hfreshLr _ (by decide), ?_⟩
          unfold stepAls; split <;> simp) (by
          simp only [List.mem_append, not_or]
          refine ⟨hfreshLr _ (by decide), ?_⟩
          unfold stepAls; split <;> simp)
      rw [h4.final (by
          simp only [List.mem_append, not_or]
          refine ⟨⟨hfreshLr _ (by decide), ?_⟩, by decide⟩
          unfold stepAls; split <;> simp)]
      rfl
    | agg a => simp [MetricQuery.agg?] at hagg
  | some a =>
    obtain ⟨g, hg⟩ : ∃ g, aggGrouping a = g := ⟨_, rfl⟩
    have hml : matrixLabelsW short q = true := by unfold matrixLabelsW; simp [hagg]
    have hA : aggPhase short c q (rangeState short c q) =
        cmpOpt a.cmp (aggSel a.fn true (byWithoutTS c.toCtx (labelConds q.rangeAgg.sel).length g (rangeState short c q).sel)) := by
      unfold aggPhase
      rw [hagg]
      simp only [hml, hun, Bool.not_false, hg, planByWithout, if_true, hid]
    have hU1 : (match q.agg? with
        | some a => cmpStage a.cmp (aggStage o c.toCtx d q.rangeAgg.sel a p0)
        | none => p0) = cmpStage a.cmp (aggCore o a.fn (p0.map (regroupPt o c.toCtx d q.rangeAgg.sel g))) := by
      rw [hagg]; simp only [aggStage_eq]; rw [← hg]; rfl
    rw [hA]
    unfold joinPhase upperPts
    rw [hml, hU1]
    simp only [if_true]
    have h2 := hr.byWithoutTS hn hm (fun p hp => (hstream p hp).2) (labelConds q.rangeAgg.sel).length g
      (by intro hmem; have := Alias.named.inj (hLr _ hmem); revert this; str_ne)
      (by intro hmem; have := Alias.named.inj (hLr _ hmem); revert this; str_ne)
    have h3 := h2.agg a.fn a.cmp (by
      simp only [List.mem_append, List.mem_cons, List.not_mem_nil, or_false, Alias.named.injEq, not_or]
      refine ⟨hfreshLr _ (by decide), ?_, ?_⟩ <;> (apply Ne.symm; str_ne))
    have hreg : ∀ p ∈ cmpStage a.cmp (aggCore o a.fn (p0.map (regroupPt o c.toCtx d q.rangeAgg.sel g))), Regrouped p := by
      apply cmpStage_labels
      apply aggCore_regrouped
      intro p hp
      obtain ⟨x, _, rfl⟩ := List.mem_map.mp hp
      exact regroupPt_regrouped ..
    have hfreshL3 : ∀ n : String, n ≠ "agg_a" → n ≠ "lra_main" → (∀ k : Nat, n ≠ "pre_without_" ++ toString k) →
        (∀ k : Nat, n ≠ "labels_" ++ toString k) →
        Alias.named n ∉ Lr ++ [Alias.named ("pre_without_" ++ toString ((labelConds q.rangeAgg.sel).length + 2)),
          Alias.named ("labels_" ++ toString ((labelConds q.rangeAgg.sel).length + 1))] ++ [Alias.named "lra_main"] := by
      intro n h1 h2 h3 h4
      simp only [List.mem_append, List.mem_cons, List.not_mem_nil, or_false, Alias.named.injEq, not_or]
      exact ⟨⟨hfreshLr n h1, h3 _, h4 _⟩, h2⟩
    cases q with
    | topk t =>
      simp only [topkPhase]
      have h4 := h3.topk t.isTop t.k t.cmp true (hasLabels_agg _ _ _) (fun p hp => (hreg p hp).atomic) (fun hw => by cases hw)
        (hfreshL3 _ (by decide) (by decide) (by intro k; str_ne) (by intro k; str_ne))
        (hfreshL3 _ (by decide) (by decide) (by intro k; str_ne) (by intro k; str_ne))
      have hreg2 : ∀ p ∈ cmpStage t.cmp (topkStage t.isTop t.k
          (cmpStage a.cmp (aggCore o a.fn (p0.map (regroupPt o c.toCtx d (MetricQuery.topk t).rangeAgg.sel g))))), Regrouped p :=
        cmpStage_labels _ _ _ (fun p hp => hreg p (topkStage_sub _ _ _ p hp))
      have h5 := h4.stepFix (MetricQuery.topk t).rangeAgg.durNs true (by
          rw [cols_cmpOpt, topkSel_eq, cols_with, hasLabels_agg]
          simp [topOuterBody, topOuterCols, Sel.cols, hasColumn, simpleCol, emptyStr]) (fun hw => by cases hw)
        (notin_append (hfreshL3 _ (by decide) (by decide) (by intro k; str_ne) (by intro k; str_ne)) (by decide))
      rw [h5.final (notin_append (notin_append (hfreshL3 _ (by decide) (by decide) (by intro k; str_ne) (by intro k; str_ne))
          (by decide)) (by unfold stepAls; split <;> simp))]
      rw [map_ptLabels_regrouped]
      exact stepStage_pred _ _ _ (fun k l => Regrouped ⟨k, l, 0, 0⟩) hreg2
    | agg a' =>
      simp only [topkPhase]
      have h5 := h3.stepFix (MetricQuery.agg a').rangeAgg.durNs true (hasLabels_agg _ _ _) (fun hw => by cases hw)
        (hfreshL3 _ (by decide) (by decide) (by intro k; str_ne) (by intro k; str_ne))
      rw [h5.final (notin_append (hfreshL3 _ (by decide) (by decide) (by intro k; str_ne) (by intro k; str_ne))
          (by unfold stepAls; split <;> simp))]
      rw [map_ptLabels_regrouped]
      exact stepStage_pred _ _ _ (fun k l => Regrouped ⟨k, l, 0, 0⟩) hreg
    | range r => simp [MetricQuery.agg?] at hagg

end Qryn.LogQL

namespace Qryn.LogQL
open Qryn Qryn.Sql

theorem isUnwrap_lra (r : RangeAgg) (fn : RangeFn) (hk : r.kind = .lra fn) : r.isUnwrap = false := by
  unfold RangeAgg.isUnwrap; rw [hk]

theorem rangeState_lra (c : MCtx) (q : MetricQuery) (fn : RangeFn) (hk : q.rangeAgg.kind = .lra fn) :
    rangeState false c q = ⟨cmpOpt q.rangeAgg.cmp (lraSel fn q.rangeAgg.durNs false (samplesMain c.toCtx q.rangeAgg.sel)),
      (labelConds q.rangeAgg.sel).length⟩ := by
  unfold rangeState
  simp only [Bool.false_eq_true, if_false, orderRange, hk, List.foldl_append, List.foldl_cons, List.foldl_nil, applyStep,
    foldl_cmpStep, splSel, isUnwrap_lra _ fn hk]

/-- the plan of the matrix functions (no shortcut) over rate / count_over_time / bytes_rate / bytes_over_time, every
    query shape: the matrix of the direct reading over the entries of `[from, to)` -/
theorem planPhases_lra (o : Oracles) (c : MCtx) (hn : c.namesOk) (d : LokiDb) (q : MetricQuery) (fn : RangeFn)
    (hk : q.rangeAgg.kind = .lra fn) (hok : aggOk q)
    (hm : q.rangeAgg.sel.matchers.length ≤ 63) (hd : 0 < q.rangeAgg.durNs) :
    (evalSelA o (d.toDbM c) (planPhases false c q)).map normRow = matrixPts o c d q c.fromNs c.toNs := by
  have hrs := rangeState_lra c q fn hk
  apply planPhases_of_range false o c hn d q hm (isUnwrap_lra _ fn hk) hok
    (cmpStage q.rangeAgg.cmp (lraPts fn q.rangeAgg.durNs (d.samples.filter (entryMatches o c.toCtx d q.rangeAgg.sel))))
    [.named "agg_a"] (by simp)
  · rw [hrs]; exact lraPhase_ok o c hn d q.rangeAgg.sel hm fn q.rangeAgg.durNs hd q.rangeAgg.cmp
  · rw [hrs]
  · exact cmpStage_labels _ _ _ (lraPts_stream fn _ _)
  · rw [hrs]; exact hasLabels_lra _ _ _ _
  · rw [rangePoints_lra o c.toCtx d q.rangeAgg fn _ _ hk, entryMatchesW_window]

/-- **plan_metric_correct on the samples path**: every query whose range aggregation is rate / count_over_time /
    bytes_rate / bytes_over_time without the metrics_15s shortcut — alone, under a grouped vector aggregation, under
    topk/bottomk, with any of the three comparisons, for step ≤ range and step > range alike. -/
theorem planMetric_lra (o : Oracles) (c : MCtx) (hn : c.namesOk) (d : LokiDb) (q : MetricQuery) (fn : RangeFn)
    (hk : q.rangeAgg.kind = .lra fn) (hs : takesShortcut q = false) (hok : aggOk q)
    (hm : q.rangeAgg.sel.matchers.length ≤ 63) (hd : 0 < q.rangeAgg.durNs) :
    (evalSelA o (d.toDbM c) (planMetric c q)).map normRow = evalMetric o c d q := by
  rw [planMetric_phases, hs, planPhases_lra o c hn d q fn hk hok hm hd, evalMetric_matrixPts]
  unfold effWindow
  simp [hs]

end Qryn.LogQL
