import Qryn.Sql.Closed
import Qryn.Proofs.SegsOf
/-! C10 `closed_fragments`: a tree whose raw atoms are well formed (`wfSel`) renders to a segment list that is
    well formed for its string leaves (`safeSegs`), whatever the leaves contain. Compositional: every clause
    of `render…` is a concatenation of keyword fragments (`PC`) and expression fragments (`PE`). -/
namespace Qryn.Sql
open Qryn Qryn.Lex

/-- expression-like segment lists: entered in a ground state they are well formed and end in an entry state -/
def PE (segs : List Seg) : Prop := ∀ q : St, q.ground = true → safeSegs q segs = true ∧ (runSegs q segs).1.entry = true
/-- keyword-like: entered in any entry state (also right after a literal) they are well formed and end in a ground state -/
def PC (segs : List Seg) : Prop := ∀ q : St, q.entry = true → safeSegs q segs = true ∧ (runSegs q segs).1.ground = true
/-- clause-like: entry state in, entry state out -/
def PX (segs : List Seg) : Prop := ∀ q : St, q.entry = true → safeSegs q segs = true ∧ (runSegs q segs).1.entry = true

theorem ground_entry {q : St} (h : q.ground = true) : q.entry = true := by cases q <;> simp_all [St.ground, St.entry]
theorem ground_safe {q : St} (h : q.ground = true) : q.safe = true := by cases q <;> simp_all [St.ground, St.safe]

theorem runSegs_append_fst (q : St) (x y : List Seg) : (runSegs q (x ++ y)).1 = (runSegs (runSegs q x).1 y).1 := by
  simp [runSegs_eq_run, run_append]

theorem safeSegs_append (q : St) (x y : List Seg) :
    safeSegs q (x ++ y) = (safeSegs q x && safeSegs (runSegs q x).1 y) := by
  induction x generalizing q with
  | nil => simp [safeSegs, runSegs]
  | cons sg rest ih =>
    cases sg with
    | raw bs => simp [safeSegs, runSegs, ih, Seg.render, Bool.and_assoc]
    | str s =>
      by_cases hq : q.safe = true
      · simp [safeSegs, runSegs, hq, ih, Seg.render, run_quote q hq s]
      · simp [safeSegs, hq]

theorem PX_nil : PX [] := fun q h => by simp [safeSegs, runSegs, h]
theorem PE_nil : PE [] := fun q h => by simp [safeSegs, runSegs, ground_entry h]
theorem PC.toPX {x} (h : PC x) : PX x := fun q hq => ⟨(h q hq).1, ground_entry (h q hq).2⟩
theorem PX.toPE {x} (h : PX x) : PE x := fun q hq => h q (ground_entry hq)
theorem PC.toPE {x} (h : PC x) : PE x := h.toPX.toPE

theorem PX.append {x y} (hx : PX x) (hy : PX y) : PX (x ++ y) := fun q hq => by
  have h1 := hx q hq
  have h2 := hy _ h1.2
  simp [safeSegs_append, runSegs_append_fst, h1.1, h2.1, h2.2]
theorem PC.appendPE {x y} (hx : PC x) (hy : PE y) : PX (x ++ y) := fun q hq => by
  have h1 := hx q hq
  have h2 := hy _ h1.2
  simp [safeSegs_append, runSegs_append_fst, h1.1, h2.1, h2.2]
theorem PE.appendPC {x y} (hx : PE x) (hy : PC y) : PE (x ++ y) := fun q hq => by
  have h1 := hx q hq
  have h2 := hy _ h1.2
  simp [safeSegs_append, runSegs_append_fst, h1.1, h2.1, ground_entry h2.2]
theorem PC.append {x y} (hx : PC x) (hy : PC y) : PC (x ++ y) := fun q hq => by
  have h1 := hx q hq
  have h2 := hy _ (ground_entry h1.2)
  simp [safeSegs_append, runSegs_append_fst, h1.1, h2.1, h2.2]
/-- keyword, expression, keyword -/
theorem PC.wrap {x y z} (hx : PC x) (hy : PE y) : PC z → PC (x ++ y ++ z) := fun hz q hq => by
  have h1 := hx q hq
  have h2 := hy _ h1.2
  have h3 := hz _ h2.2
  simp [safeSegs_append, runSegs_append_fst, h1.1, h2.1, h3.1, h3.2]
/-- expression, separator, expression -/
theorem PE.sep {x y z} (hx : PE x) (hy : PC y) (hz : PE z) : PE (x ++ y ++ z) := fun q hq => by
  have h1 := hx q hq
  have h2 := hy _ h1.2
  have h3 := hz _ h2.2
  simp [safeSegs_append, runSegs_append_fst, h1.1, h2.1, h3.1, h3.2]

theorem PE_joinS {sep : Bytes} (hs : PC [.raw sep]) : ∀ xs : List (List Seg), (∀ x ∈ xs, PE x) → PE (joinS sep xs)
  | [], _ => PE_nil
  | [x], h => by simpa [joinS] using h x (by simp)
  | x :: y :: xs, h => by
    have ih := PE_joinS hs (y :: xs) (fun z hz => h z (by simp [hz]))
    simpa [joinS] using PE.sep (h x (by simp)) hs ih

theorem PC_raw {x : Bytes} (h : rawC x = true) : PC [.raw x] := fun q hq => by
  simp [rawC] at h
  cases q <;> simp [St.entry] at hq <;> simp_all [safeSegs, runSegs, Seg.render]
theorem PE_raw {x : Bytes} (h : rawE x = true) : PE [.raw x] := fun q hq => by
  simp [rawE] at h
  cases q <;> simp [St.ground] at hq <;> simp_all [safeSegs, runSegs, Seg.render]
theorem PE_str (s : Bytes) : PE [.str s] := fun q hq => by
  simp [safeSegs, runSegs, Seg.render, ground_safe hq, run_quote q (ground_safe hq) s, St.entry]

theorem b_quote : b "'" = [39] := by decide +kernel

/-- an identifier-restricted name embedded as `'name'` without escaping -/
theorem PE_lit (s : String) (h : (b s).all litSafe = true) : PE [.raw (b "'" ++ b s ++ b "'")] := fun q hq => by
  have hs : ∀ c ∈ b s, litSafe c = true := by simpa using h
  have hr := run_rawQuoted q (ground_safe hq) (b s) hs
  have hr' : run q (39 :: (b s ++ [39])) = (.strQ, openEv q ++ (b s).map .sByte) := by simpa using hr
  have hne : q ≠ .strQ := by cases q <;> simp_all [St.ground]
  simp [safeSegs, runSegs, Seg.render, b_quote, hr', St.entry, hne]

/-! the keyword fragments written by `render…` -/
theorem kw_in : rawC (b " IN (") = true := by decide +kernel
theorem kw_close : rawC (b ")") = true := by decide +kernel
theorem kw_open : rawC (b "(") = true := by decide +kernel
theorem kw_comma : rawC (b ",") = true := by decide +kernel
theorem kw_commaSp : rawC (b ", ") = true := by decide +kernel
theorem kw_not : rawC (b "!(") = true := by decide +kernel
theorem kw_notNull : rawC (b " IS NOT NULL") = true := by decide +kernel
theorem kw_match : rawC (b "match(") = true := by decide +kernel
theorem kw_gbo : rawC (b "groupBitOr(") = true := by decide +kernel
theorem kw_plus : rawC (b " + ") = true := by decide +kernel
theorem kw_shift : rawC (b "bitShiftLeft(toUInt64(") = true := by decide +kernel
theorem kw_asc : rawC (b " asc") = true := by decide +kernel
theorem kw_desc : rawC (b " desc") = true := by decide +kernel
theorem kw_select : rawC (b " SELECT " ++ []) = true := by decide +kernel
theorem kw_selectDistinct : rawC (b " SELECT " ++ b " DISTINCT ") = true := by decide +kernel
theorem kw_from : rawC (b " FROM ") = true := by decide +kernel
theorem kw_prewhere : rawC (b " PREWHERE ") = true := by decide +kernel
theorem kw_where : rawC (b " WHERE ") = true := by decide +kernel
theorem kw_groupBy : rawC (b " GROUP BY ") = true := by decide +kernel
theorem kw_having : rawC (b " HAVING ") = true := by decide +kernel
theorem kw_orderBy : rawC (b " ORDER BY ") = true := by decide +kernel
theorem kw_limit : rawC (b " LIMIT ") = true := by decide +kernel
theorem kw_with : rawC (b "WITH ") = true := by decide +kernel
theorem kw_plusT : rawC (b "+") = true := by decide +kernel
theorem kw_arrayJoin : rawC (b " array JOIN ") = true := by decide +kernel
theorem kw_space : rawC (b " ") = true := by decide +kernel
theorem kw_anyIf : rawC (b "anyIf(toFloat64OrNull(val), key == ") = true := by decide +kernel
theorem kw_distinct : rawC (b "distinct ") = true := by decide +kernel
theorem kw_mul : rawC (b " * ") = true := by decide +kernel
theorem kw_div : rawC (b " / ") = true := by decide +kernel
theorem kw_mapFilterNone : rawC (b "mapFilter((k,v) -> 0, ") = true := by decide +kernel
theorem kw_mapFilterIn : rawC (b "mapFilter((k,v) -> k " ++ b "IN" ++ b " (") = true := by decide +kernel
theorem kw_mapFilterNotIn : rawC (b "mapFilter((k,v) -> k " ++ b "NOT IN" ++ b " (") = true := by decide +kernel
theorem kw_closeComma : rawC (b "), ") = true := by decide +kernel
theorem kw_osb : rawC (b "[") = true := by decide +kernel
theorem kw_csb : rawC (b "]") = true := by decide +kernel
theorem kw_tsLabels : rawE (b tsLabelsText) = true := by decide +kernel

theorem PE_of_mem_map' {α} {f : α → List Seg} {l : List α} (h : ∀ a ∈ l, PE (f a)) : ∀ x ∈ l.map f, PE x := by
  intro x hx
  rcases List.mem_map.mp hx with ⟨a, ha, rfl⟩
  exact h a ha

theorem kw_labelsFp : rawE (b labelsFpText) = true := by decide +kernel
theorem kw_jsonMapOpen : rawC (b "mapFromArrays([") = true := by decide +kernel
theorem kw_jsonMapMid : rawC (b "], [") = true := by decide +kernel
theorem kw_jsonMapClose : rawC (b "])") = true := by decide +kernel
theorem kw_jsonGet1 : rawC (b "if(JSONType(string, ") = true := by decide +kernel
theorem kw_jsonGet2 : rawC (b ") == 'String', JSONExtractString(string, ") = true := by decide +kernel
theorem kw_jsonGet3 : rawC (b "), JSONExtractRaw(string, ") = true := by decide +kernel
theorem kw_jsonGet4 : rawC (b "))") = true := by decide +kernel
theorem kw_regexOpen : rawC (b "mapFromArrays(arrayFilter( (x,y) -> x != '' AND y != '',  [") = true := by decide +kernel
theorem kw_dropOpen : rawC (b "mapFilter((k,v) -> ") = true := by decide +kernel
theorem kw_dropAnd : rawC (b " and ") = true := by decide +kernel
theorem kw_dropKey : rawC (b "k!=") = true := by decide +kernel
theorem kw_dropPair : rawC (b "(k, v)!=(") = true := by decide +kernel

theorem PE_jargSegs (a : JArg) (h : (match a with | .key _ => true | .idx i => rawE (intText i)) = true) : PE (jargSegs a) := by
  cases a with
  | key k => exact PE_str k
  | idx i => exact PE_raw h

theorem PE_jsonGetSegs (path : List JArg)
    (h : path.all (fun a => match a with | .key _ => true | .idx i => rawE (intText i)) = true) : PE (jsonGetSegs path) := by
  have hp : PE (joinS (b ",") (path.map jargSegs)) :=
    PE_joinS (PC_raw kw_comma) _ (PE_of_mem_map' (fun a ha => PE_jargSegs a (List.all_eq_true.mp h a ha)))
  have h1 := PC.wrap (PC_raw kw_jsonGet1) hp (PC_raw kw_jsonGet2)
  have h2 := PC.wrap h1 hp (PC_raw kw_jsonGet3)
  have h3 := PC.wrap h2 hp (PC_raw kw_jsonGet4)
  simpa [jsonGetSegs, List.append_assoc] using h3.toPE

theorem PE_jsonMapSegs (ps : List (Bytes × List JArg))
    (h : ps.all (fun p => p.2.all (fun a => match a with | .key _ => true | .idx i => rawE (intText i))) = true) :
    PE (jsonMapSegs ps) := by
  have hk : PE (joinS (b ",") (ps.map (fun p => [Seg.str p.1]))) :=
    PE_joinS (PC_raw kw_comma) _ (PE_of_mem_map' (fun p _ => PE_str p.1))
  have hv : PE (joinS (b ",") (ps.map (fun p => jsonGetSegs p.2))) :=
    PE_joinS (PC_raw kw_comma) _ (PE_of_mem_map' (fun p hp => PE_jsonGetSegs p.2 (List.all_eq_true.mp h p hp)))
  have h1 := PC.wrap (PC_raw kw_jsonMapOpen) hk (PC_raw kw_jsonMapMid)
  have h2 := PC.wrap h1 hv (PC_raw kw_jsonMapClose)
  simpa [jsonMapSegs, List.append_assoc] using h2.toPE

theorem PE_regexMapSegs (labels : List Bytes) (re : Bytes) (id : Nat) (h1 : rawC (regexMid id) = true)
    (h2 : rawC (regexPost id) = true) : PE (regexMapSegs labels re id) := by
  have hl : PE (joinS (b ",") (labels.map (fun l => [Seg.str l]))) :=
    PE_joinS (PC_raw kw_comma) _ (PE_of_mem_map' (fun l _ => PE_str l))
  have a := PC.wrap (PC_raw kw_regexOpen) hl (PC_raw h1)
  have c := PC.wrap a (PE_str re) (PC_raw h2)
  simpa [regexMapSegs, List.append_assoc] using c.toPE

theorem PE_dropClauseSegs (p : Bytes × Bytes) : PE (dropClauseSegs p) := by
  by_cases h : p.2.isEmpty
  · simpa [dropClauseSegs, h] using (PC.appendPE (PC_raw kw_dropKey) (PE_str p.1)).toPE
  · have a := PC.wrap (PC_raw kw_dropPair) (PE_str p.1) (PC_raw kw_commaSp)
    have c := PC.wrap a (PE_str p.2) (PC_raw kw_close)
    simpa [dropClauseSegs, h] using c.toPE

theorem PE_of_mem_map {α} {f : α → List Seg} {l : List α} (h : ∀ a ∈ l, PE (f a)) : ∀ x ∈ l.map f, PE x := by
  intro x hx
  rcases List.mem_map.mp hx with ⟨a, ha, rfl⟩
  exact h a ha

mutual
theorem closedExpr : ∀ e : Expr, wfExpr e = true → PE (segsExpr e)
  | .raw s, h => by simpa [segsExpr] using PE_raw (by simpa [wfExpr] using h)
  | .str s, _ => by simpa [segsExpr] using PE_str s
  | .int i, h => by simpa [segsExpr] using PE_raw (by simpa [wfExpr] using h)
  | .col e a, h => by
    simp [wfExpr] at h
    have he := closedExpr e h.1
    by_cases ha : a.isEmpty = true
    · simpa [segsExpr, ha] using he
    · have hc : rawC (b " as " ++ b a) = true := by
        rcases h.2 with h0 | h0
        · exact absurd (by simp [h0]) ha
        · exact h0
      simpa [segsExpr, ha] using PE.appendPC he (PC_raw hc)
  | .withRef a, h => by simpa [segsExpr] using PE_raw (by simpa [wfExpr] using h)
  | .lit s, h => by simpa [segsExpr] using PE_lit s (by simpa [wfExpr] using h)
  | .tsLabels, _ => by simpa [segsExpr] using PE_raw kw_tsLabels
  | .numLit s, h => by simpa [segsExpr] using PE_raw (by simpa [wfExpr] using h)
  | .isIn l r, h => by
    simp [wfExpr] at h
    have hl := closedExpr l h.1
    have hr := PE_joinS (PC_raw kw_comma) _ (closedExprs r h.2)
    have := PE.appendPC (PE.sep hl (PC_raw kw_in) hr) (PC_raw kw_close)
    simpa [segsExpr, List.append_assoc] using this
  | .logical fn cs, h => by
    simp [wfExpr] at h
    have := PE_joinS (PC_raw h.1) _ (fun x hx => (closedParens cs h.2 x hx).toPE)
    simpa [segsExpr] using this
  | .not e, h => by
    simp [wfExpr] at h
    simpa [segsExpr] using (PC.wrap (PC_raw kw_not) (closedExpr e h) (PC_raw kw_close)).toPE
  | .notNull e, h => by
    simp [wfExpr] at h
    simpa [segsExpr] using PE.appendPC (closedExpr e h) (PC_raw kw_notNull)
  | .matchFn c p, h => by
    simp [wfExpr] at h
    have h1 := PC.wrap (PC_raw kw_match) (closedExpr c h) (PC_raw kw_commaSp)
    have h2 := PC.wrap h1 (PE_str p) (PC_raw kw_close)
    simpa [segsExpr, List.append_assoc] using h2.toPE
  | .bitSetAnd cs, h => by
    simp [wfExpr] at h
    have hj := PE_joinS (PC_raw kw_plus) _ (closedShift 0 cs h)
    simpa [segsExpr] using (PC.wrap (PC_raw kw_gbo) hj (PC_raw kw_close)).toPE
  | .call fn args, h => by
    simp [wfExpr] at h
    have hj := PE_joinS (PC_raw kw_commaSp) _ (closedExprs args h.2)
    simpa [segsExpr] using (PC.wrap (PC_raw h.1) hj (PC_raw kw_close)).toPE
  | .orderBy e d, h => by
    simp [wfExpr] at h
    cases d
    · simpa [segsExpr] using PE.appendPC (closedExpr e h) (PC_raw kw_asc)
    · simpa [segsExpr] using PE.appendPC (closedExpr e h) (PC_raw kw_desc)
  | .sub s, h => by
    simp [wfExpr] at h
    simpa [segsExpr] using (closedSel s h).toPE
  | .callT fn args, h => by
    simp [wfExpr] at h
    have hj := PE_joinS (PC_raw kw_comma) _ (closedExprs args h.2)
    simpa [segsExpr] using (PC.wrap (PC_raw h.1) hj (PC_raw kw_close)).toPE
  | .bitSet cs a, h => by
    simp only [wfExpr, Bool.and_eq_true] at h
    have hj := PE_joinS (PC_raw kw_plusT) _ (closedShiftT 0 cs h.1)
    simpa [segsExpr] using (PC.wrap (PC_raw kw_gbo) hj (PC_raw h.2)).toPE
  | .setOp k ss, h => by
    simp [wfExpr] at h
    have hj := PE_joinS (PC_raw h.1) _ (closedSels ss h.2)
    simpa [segsExpr] using (PC.wrap (PC_raw kw_open) hj (PC_raw kw_close)).toPE
  | .arrayJoin src arr, h => by
    simp [wfExpr] at h
    have := PE.appendPC (PE.sep (closedExpr src h.1) (PC_raw kw_arrayJoin) (closedExpr arr h.2)) (PC_raw kw_space)
    simpa [segsExpr, List.append_assoc] using this
  | .anyIfNum k, _ => by
    have := PC.wrap (PC_raw kw_anyIf) (PE_str k) (PC_raw kw_close)
    simpa [segsExpr] using this.toPE
  | .distinct e, h => by
    simp [wfExpr] at h
    simpa [segsExpr] using (PC.appendPE (PC_raw kw_distinct) (closedExpr e h)).toPE
  | .mulOp x y, h => by
    simp [wfExpr] at h
    simpa [segsExpr, List.append_assoc] using PE.sep (closedExpr x h.1) (PC_raw kw_mul) (closedExpr y h.2)
  | .divOp x y, h => by
    simp [wfExpr] at h
    simpa [segsExpr, List.append_assoc] using PE.sep (closedExpr x h.1) (PC_raw kw_div) (closedExpr y h.2)
  | .mapFilterKeys keep keys m, h => by
    simp [wfExpr] at h
    by_cases he : (keep && keys.isEmpty) = true
    · have h2 := PC.wrap (PC_raw kw_mapFilterNone) (closedExpr m h) (PC_raw kw_close)
      simpa [segsExpr, he, List.append_assoc] using h2.toPE
    have hk : PE (joinS (b ",") (keys.map (fun k => [Seg.str k]))) :=
      PE_joinS (PC_raw kw_comma) _ (PE_of_mem_map (fun k _ => PE_str k))
    have hpre : PC [Seg.raw (b "mapFilter((k,v) -> k " ++ b (if keep then "IN" else "NOT IN") ++ b " (")] := by
      cases keep
      · exact PC_raw kw_mapFilterNotIn
      · exact PC_raw kw_mapFilterIn
    have h1 := PC.wrap hpre hk (PC_raw kw_closeComma)
    have h2 := PC.wrap h1 (closedExpr m h) (PC_raw kw_close)
    simpa [segsExpr, he, List.append_assoc] using h2.toPE
  | .mapAt m key, h => by
    simp [wfExpr] at h
    have := PE.appendPC (PE.sep (closedExpr m h) (PC_raw kw_osb) (PE_str key)) (PC_raw kw_csb)
    simpa [segsExpr, List.append_assoc] using this
  | .tupleAt name i, h => by simpa [segsExpr] using PE_raw (by simpa [wfExpr] using h)
  | .topkSlice isTop hasLabels k, h => by simpa [segsExpr] using PE_raw (by simpa [wfExpr] using h)
  | .arrayJoinFrom src arr, h => by
    simp [wfExpr] at h
    have := PE.appendPC (PE.sep (closedExpr src h.1) (PC_raw kw_arrayJoin) (closedExpr arr h.2)) (PC_raw kw_space)
    simpa [segsExpr, List.append_assoc] using this
  | .fixedLit units scale, h => by simpa [segsExpr] using PE_raw (by simpa [wfExpr] using h)
  | .jsonMap ps, h => by
    simp only [wfExpr] at h
    simpa [segsExpr] using PE_jsonMapSegs ps h
  | .regexMap labels re id, h => by
    simp only [wfExpr, Bool.and_eq_true] at h
    simpa [segsExpr] using PE_regexMapSegs labels re id h.1 h.2
  | .mapDrop m ps, h => by
    simp only [wfExpr] at h
    have hc : PE (joinS (b " and ") (ps.map dropClauseSegs)) :=
      PE_joinS (PC_raw kw_dropAnd) _ (PE_of_mem_map' (fun p _ => PE_dropClauseSegs p))
    have h1 := PC.wrap (PC_raw kw_dropOpen) hc (PC_raw kw_commaSp)
    have h2 := PC.wrap h1 (closedExpr m h) (PC_raw kw_close)
    simpa [segsExpr, List.append_assoc] using h2.toPE
  | .labelsFp, _ => by simpa [segsExpr] using PE_raw kw_labelsFp
  | .quantileAgg units scale col, h => by simpa [segsExpr] using PE_raw (by simpa [wfExpr] using h)
theorem closedSels : ∀ ss : List Sel, wfSels ss = true → ∀ x ∈ segsSels ss, PE x
  | [], _ => by simp [segsSels]
  | s :: ss, h => by
    simp [wfSels] at h
    intro x hx
    simp [segsSels] at hx
    rcases hx with rfl | hx
    · exact (closedSel s h.1).toPE
    · exact closedSels ss h.2 x hx
theorem closedExprs : ∀ os : List Expr, wfExprs os = true → ∀ x ∈ segsExprs os, PE x
  | [], _ => by simp [segsExprs]
  | o :: os, h => by
    simp [wfExprs] at h
    intro x hx
    simp [segsExprs] at hx
    rcases hx with rfl | hx
    · exact closedExpr o h.1
    · exact closedExprs os h.2 x hx
theorem closedParens : ∀ os : List Expr, wfExprs os = true → ∀ x ∈ segsParens os, PC x
  | [], _ => by simp [segsParens]
  | o :: os, h => by
    simp [wfExprs] at h
    intro x hx
    simp [segsParens] at hx
    rcases hx with rfl | hx
    · simpa using PC.wrap (PC_raw kw_open) (closedExpr o h.1) (PC_raw kw_close)
    · exact closedParens os h.2 x hx
theorem closedShift : ∀ (i : Nat) (os : List Expr), wfShift i os = true → ∀ x ∈ segsShift i os, PE x
  | _, [], _ => by simp [segsShift]
  | i, o :: os, h => by
    simp [wfShift] at h
    intro x hx
    simp [segsShift] at hx
    rcases hx with rfl | hx
    · simpa using (PC.wrap (PC_raw kw_shift) (closedExpr o h.1.1) (PC_raw h.1.2)).toPE
    · exact closedShift (i + 1) os h.2 x hx
theorem closedShiftT : ∀ (i : Nat) (os : List Expr), wfShiftT i os = true → ∀ x ∈ segsShiftT i os, PE x
  | _, [], _ => by simp [segsShiftT]
  | i, o :: os, h => by
    simp [wfShiftT] at h
    intro x hx
    simp [segsShiftT] at hx
    rcases hx with rfl | hx
    · simpa using (PC.wrap (PC_raw kw_shift) (closedExpr o h.1.1) (PC_raw h.1.2)).toPE
    · exact closedShiftT (i + 1) os h.2 x hx
theorem closedWiths : ∀ ws : List (Alias × Sel), wfWiths ws = true → ∀ x ∈ segsWiths ws, PE x
  | [], _ => by simp [segsWiths]
  | (a, s) :: ws, h => by
    simp [wfWiths] at h
    intro x hx
    simp [segsWiths] at hx
    rcases hx with rfl | hx
    · simpa using (PC.wrap (PC_raw h.1.1) (closedSelBody s h.1.2).toPE (PC_raw kw_close)).toPE
    · exact closedWiths ws h.2 x hx
theorem closedJoins : ∀ js : List (String × Alias × Expr), wfJoins js = true → PX (segsJoins js)
  | [], _ => by simpa [segsJoins] using PX_nil
  | (tp, tbl, on) :: js, h => by
    simp [wfJoins] at h
    have := PX.append (PC.appendPE (PC_raw h.1.1) (closedExpr on h.1.2)) (closedJoins js h.2)
    simpa [segsJoins, List.append_assoc] using this
theorem closedSelBody : ∀ s : Sel, wfSelBody s = true → PX (segsSelBody s)
  | .mk ws distinct cols from_ joins pre wher gb having ob limit, h => by
    unfold wfSelBody at h
    simp only [Bool.and_eq_true] at h
    obtain ⟨⟨⟨⟨⟨⟨⟨hcols, hfrom⟩, hpre⟩, hwh⟩, hgbw⟩, hhav⟩, hobw⟩, hlim⟩ := h
    unfold segsSelBody
    refine PX.append (PX.append (PX.append (PX.append (PX.append (PX.append (PX.append ?h1 ?h2) ?h3) ?h4) ?h5) ?h6) ?h7) ?h8
    case h1 =>
      refine PC.appendPE (PC_raw ?_) (PE_joinS (PC_raw kw_commaSp) _ (closedExprs cols hcols))
      cases distinct
      · exact kw_select
      · exact kw_selectDistinct
    case h2 =>
      cases from_ with
      | none => exact PX_nil
      | some f =>
        simp only [Bool.and_eq_true] at hfrom
        exact PX.append (PC.appendPE (PC_raw kw_from) (closedExpr f hfrom.1)) (closedJoins joins hfrom.2)
    case h3 =>
      cases pre with
      | none => exact PX_nil
      | some p => exact PC.appendPE (PC_raw kw_prewhere) (closedExpr p hpre)
    case h4 =>
      cases wher with
      | none => exact PX_nil
      | some p => exact PC.appendPE (PC_raw kw_where) (closedExpr p hwh)
    case h5 =>
      by_cases hg : gb.isEmpty = true
      · simpa [hg] using PX_nil
      · simpa [hg] using PC.appendPE (PC_raw kw_groupBy) (PE_joinS (PC_raw kw_commaSp) _ (closedExprs gb hgbw))
    case h6 =>
      cases having with
      | none => exact PX_nil
      | some p => exact PC.appendPE (PC_raw kw_having) (closedExpr p hhav)
    case h7 =>
      by_cases hg : ob.isEmpty = true
      · simpa [hg] using PX_nil
      · simpa [hg] using PC.appendPE (PC_raw kw_orderBy) (PE_joinS (PC_raw kw_commaSp) _ (closedExprs ob hobw))
    case h8 =>
      cases limit with
      | none => exact PX_nil
      | some p => exact PC.appendPE (PC_raw kw_limit) (closedExpr p hlim)
theorem closedSel : ∀ s : Sel, wfSel s = true → PX (segsSel s)
  | .mk ws distinct cols from_ joins pre wher gb having ob limit, h => by
    simp [wfSel] at h
    have hb := closedSelBody (.mk ws distinct cols from_ joins pre wher gb having ob limit) h.2
    by_cases hw : ws.isEmpty = true
    · simpa [segsSel, hw] using hb
    · have hj := PE_joinS (PC_raw kw_comma) _ (closedWiths ws h.1)
      have := PX.append (PC.appendPE (PC_raw kw_with) hj) hb
      simpa [segsSel, hw, List.append_assoc] using this
end

end Qryn.Sql
