import Qryn.Proofs.Json
/-! Decimal integers are JSON numbers. Core-only. -/
namespace Qryn.Json
open Qryn

theorem foldl_step_append (st : NumSt) (a b : Bytes) :
    (a ++ b).foldl NumSt.step st = b.foldl NumSt.step (a.foldl NumSt.step st) := List.foldl_append

theorem step_digit_first : ∀ n, n < 10 →
    NumSt.step .start (UInt8.ofNat (48 + n)) = (if n = 0 then .zero else .int) ∧
    NumSt.step .minus (UInt8.ofNat (48 + n)) = (if n = 0 then .zero else .int) := by decide

theorem step_digit_int : ∀ n, n < 10 →
    NumSt.step .int (UInt8.ofNat (48 + n)) = .int ∧ NumSt.step .dot (UInt8.ofNat (48 + n)) = .frac ∧
    NumSt.step .frac (UInt8.ofNat (48 + n)) = .frac := by decide

/-- reading the decimal digits of `n` from the start (or after a minus sign) ends in `zero` for 0, `int` else -/
theorem natDigits_run (st : NumSt) (hst : st = .start ∨ st = .minus) (f n : Nat) (hf : n < f) :
    (natDigits f n).foldl NumSt.step st = (if n = 0 then .zero else .int) := by
  induction f generalizing n with
  | zero => omega
  | succ f ih =>
    simp only [natDigits]
    by_cases h10 : n < 10
    · simp only [h10, if_true, List.foldl_cons, List.foldl_nil]
      rcases hst with rfl | rfl
      · exact (step_digit_first n h10).1
      · exact (step_digit_first n h10).2
    · simp only [h10, if_false]
      rw [foldl_step_append, ih (n / 10) (by omega)]
      have h1 : n / 10 ≠ 0 := by omega
      have h2 : n ≠ 0 := by omega
      simp only [h1, h2, if_false, List.foldl_cons, List.foldl_nil]
      exact (step_digit_int (n % 10) (Nat.mod_lt _ (by decide))).1

theorem decNat_run (st : NumSt) (hst : st = .start ∨ st = .minus) (n : Nat) :
    (decNat n).foldl NumSt.step st = (if n = 0 then .zero else .int) :=
  natDigits_run st hst (n + 1) n (Nat.lt_succ_self n)

theorem isNumTok_decNat (n : Nat) : isNumTok (decNat n) = true := by
  simp only [isNumTok, decNat_run .start (Or.inl rfl)]
  split <;> rfl

/-- `%d`, `strconv.Itoa`, `WriteInt64`: always a JSON number -/
theorem isNumTok_decInt (n : Int) : isNumTok (decInt n) = true := by
  cases n with
  | ofNat n => exact isNumTok_decNat n
  | negSucc n =>
    simp only [decInt, isNumTok, List.foldl_cons]
    have : NumSt.step .start 45 = .minus := by decide
    rw [this, decNat_run .minus (Or.inr rfl)]
    simp [NumSt.accept]

end Qryn.Json
