import Qryn.Sql.Wf
import Qryn.TraceQL.Planner
/-! C11: every statement the TraceQL planner model builds is structurally well formed (`Sql.wfS`). -/
namespace Qryn.Sql

theorem wfEs_append (a b : List Expr) : wfEs (a ++ b) = (wfEs a && wfEs b) := by
  induction a with
  | nil => simp [wfEs]
  | cons x xs ih => simp [wfEs, ih, Bool.and_assoc]

theorem wfWs_append (a b : List (Alias × Sel)) : wfWs (a ++ b) = (wfWs a && wfWs b) := by
  induction a with
  | nil => simp [wfWs]
  | cons x xs ih => obtain ⟨al, s⟩ := x; simp [wfWs, ih, Bool.and_assoc]

theorem wfS_iff (ws : List (Alias × Sel)) (d : Bool) (c : List Expr) (f : Option Expr) (j : List (String × Alias × Expr))
    (p w : Option Expr) (g : List Expr) (hv : Option Expr) (ob : List Expr) (l : Option Expr) :
    wfS (.mk ws d c f j p w g hv ob l) = true ↔
      (wfWs ws = true ∧ c ≠ [] ∧ wfEs c = true ∧ wfO f = true ∧ wfJs j = true ∧ wfO p = true ∧ wfO w = true ∧
        wfEs g = true ∧ wfO hv = true ∧ wfEs ob = true ∧ wfO l = true) := by
  rw [wfS]
  cases c <;> simp [Bool.and_eq_true, and_assoc]

theorem wfWs_withs (s : Sel) (h : wfS s = true) : wfWs s.withs = true := by
  obtain ⟨ws, d, c, f, j, p, w, g, hv, ob, l⟩ := s
  rw [wfS_iff] at h
  exact h.1

theorem wfS_setWiths (s : Sel) (ws : List (Alias × Sel)) (h : wfS s = true) (hw : wfWs ws = true) :
    wfS (s.setWiths ws) = true := by
  obtain ⟨ws0, d, c, f, j, p, w, g, hv, ob, l⟩ := s
  rw [wfS_iff] at h
  simp only [Sel.setWiths]
  rw [wfS_iff]
  exact ⟨hw, h.2⟩

theorem wfWs_hoist (inner : List (Alias × Sel)) : ∀ (acc : List (Alias × Sel)), wfWs acc = true → wfWs inner = true →
    wfWs (inner.foldl (fun acc w' => if hasAlias acc w'.1 then acc else acc ++ [w']) acc) = true := by
  induction inner with
  | nil => intro acc h _; simpa using h
  | cons w ws ih =>
    intro acc hacc hin
    obtain ⟨al, s⟩ := w
    simp only [wfWs, Bool.and_eq_true] at hin
    simp only [List.foldl_cons]
    apply ih _ _ hin.2
    split
    · exact hacc
    · simp [wfWs_append, wfWs, hacc, hin.1]

theorem wfWs_addWith1 (cur : List (Alias × Sel)) (w : Alias × Sel) (hc : wfWs cur = true) (hw : wfS w.2 = true) :
    wfWs (addWith1 cur w) = true := by
  unfold addWith1
  split
  · exact hc
  · obtain ⟨al, s⟩ := w
    simp only [wfWs_append, wfWs, Bool.and_eq_true, Bool.and_true]
    exact ⟨wfWs_hoist _ _ hc (wfWs_withs s hw), hw⟩

theorem wfWs_foldl_addWith1 (ws : List (Alias × Sel)) : ∀ (cur : List (Alias × Sel)), wfWs cur = true → wfWs ws = true →
    wfWs (ws.foldl addWith1 cur) = true := by
  induction ws with
  | nil => intro cur h _; simpa using h
  | cons w ws ih =>
    intro cur hc hw
    obtain ⟨al, s⟩ := w
    simp only [wfWs, Bool.and_eq_true] at hw
    exact ih _ (wfWs_addWith1 cur (al, s) hc hw.1) hw.2

/-- `Select.With`: hoisting keeps well-formedness -/
theorem wfS_with (s : Sel) (ws : List (Alias × Sel)) (h : wfS s = true) (hw : wfWs ws = true) : wfS (s.with_ ws) = true :=
  wfS_setWiths s _ h (wfWs_foldl_addWith1 ws [] rfl hw)

theorem wfS_addCols (s : Sel) (cs : List Expr) (h : wfS s = true) (hc : wfEs cs = true) : wfS (s.addCols cs) = true := by
  obtain ⟨ws0, d, c, f, j, p, w, g, hv, ob, l⟩ := s
  rw [wfS_iff] at h
  simp only [Sel.addCols]
  rw [wfS_iff]
  obtain ⟨h1, h2, h3, h4⟩ := h
  refine ⟨h1, ?_, ?_, h4⟩
  · cases c <;> simp_all
  · rw [wfEs_append, h3, hc]; rfl

theorem wfE_andCond (cur : Option Expr) (cl : List Expr) (hcur : wfO cur = true)
    (hne : cl ≠ []) (hcl : wfEs cl = true) : wfE (andCond cur cl) = true := by
  have hnil : cl.isEmpty = false := by cases cl <;> simp_all
  unfold andCond
  split
  · simp [and_, wfE, hnil, hcl]
  · rename_i fn cs
    simp only [wfO, wfE, Bool.and_eq_true] at hcur
    split
    · simp only [wfE, wfEs_append, Bool.and_eq_true, hcur.2, hcl, and_true]
      cases cs <;> simp_all
    · simp [and_, wfE, wfEs, hcur.1, hcur.2, hcl]
  · simp only [and_, wfE, wfEs, hcl, Bool.and_true]
    simp only [wfO] at hcur
    simp [hcur]

theorem wfS_andWhere (s : Sel) (cl : List Expr) (h : wfS s = true) (hne : cl ≠ []) (hcl : wfEs cl = true) :
    wfS (s.andWhere cl) = true := by
  obtain ⟨ws0, d, c, f, j, p, w, g, hv, ob, l⟩ := s
  rw [wfS_iff] at h
  simp only [Sel.andWhere]
  rw [wfS_iff]
  obtain ⟨h1, h2, h3, h4, h5, h6, h7, h8⟩ := h
  exact ⟨h1, h2, h3, h4, h5, h6, by simp only [wfO]; exact wfE_andCond w cl h7 hne hcl, h8⟩

theorem wfS_andHaving (s : Sel) (cl : List Expr) (h : wfS s = true) (hne : cl ≠ []) (hcl : wfEs cl = true) :
    wfS (s.andHaving cl) = true := by
  obtain ⟨ws0, d, c, f, j, p, w, g, hv, ob, l⟩ := s
  rw [wfS_iff] at h
  simp only [Sel.andHaving]
  rw [wfS_iff]
  obtain ⟨h1, h2, h3, h4, h5, h6, h7, h8, h9, h10⟩ := h
  exact ⟨h1, h2, h3, h4, h5, h6, h7, h8, by simp only [wfO]; exact wfE_andCond hv cl h9 hne hcl, h10⟩

theorem wfS_setLimit (s : Sel) (e : Expr) (h : wfS s = true) (he : wfE e = true) : wfS (s.setLimit (some e)) = true := by
  obtain ⟨ws0, d, c, f, j, p, w, g, hv, ob, l⟩ := s
  rw [wfS_iff] at h
  simp only [Sel.setLimit]
  rw [wfS_iff]
  obtain ⟨h1, h2, h3, h4, h5, h6, h7, h8, h9, h10, _⟩ := h
  exact ⟨h1, h2, h3, h4, h5, h6, h7, h8, h9, h10, by simp only [wfO]; exact he⟩

end Qryn.Sql

namespace Qryn.TraceQL
open Qryn Qryn.Sql

theorem termSql_wf (t : Term) (e : Expr) (h : termSql t = .ok e) : wfE e = true := by
  have hstr : ∀ k, termStr t k = .ok e → wfE e = true := by
    intro k hs
    unfold termStr at hs
    cases hg : getString t.val with
    | error m => simp [hg, bind, Except.bind] at hs
    | ok s =>
      cases hop : t.op <;> simp [hg, hop, bind, Except.bind, pure, Except.pure] at hs <;> subst hs <;>
        simp [and_, keyIs, eq, neq, wfE, wfEs]
  have hnum : ∀ k n, termNum t k n = .ok e → wfE e = true := by
    intro k n hs
    unfold termNum at hs
    cases hc : cmpSql t.op with
    | none => simp [hc] at hs
    | some fn =>
      simp [hc, pure, Except.pure] at hs
      subst hs
      simp [and_, keyIs, eq, wfE, wfEs]
  have hkey : ∀ k, (match t.val with
      | .str _ _ => termStr t k | .num n => termNum t k n | .dur _ _ => throw "unsupported statement") = .ok e → wfE e = true := by
    intro k hk
    cases hv : t.val with
    | str raw unq => simp only [hv] at hk; exact hstr k hk
    | num n => simp only [hv] at hk; exact hnum k n hk
    | dur n u => simp [hv, throw, throwThe, MonadExceptOf.throw] at hk
  unfold termSql at h
  cases hk : attrKey t.label with
  | some k => simp only [hk] at h; exact hkey k h
  | none =>
    simp only [hk] at h
    by_cases hd : t.label = "duration"
    · simp only [hd, if_true] at h
      unfold termDuration at h
      cases hv : t.val with
      | dur n u =>
        simp only [hv] at h
        cases hp : parseDuration n (some u) with
        | error m => simp [hp, bind, Except.bind] at h
        | ok ns =>
          cases hc : cmpSql t.op with
          | none => simp [hp, hc, bind, Except.bind] at h
          | some fn =>
            simp [hp, hc, bind, Except.bind, pure, Except.pure] at h
            subst h
            simp [wfE, wfEs]
      | num n => simp [hv, throw, throwThe, MonadExceptOf.throw] at h
      | str raw unq => simp [hv, throw, throwThe, MonadExceptOf.throw] at h
    · simp only [hd, if_false] at h
      by_cases hn : t.label = "name"
      · simp only [hn, if_true] at h; exact hkey "name" h
      · simp [hn, throw, throwThe, MonadExceptOf.throw] at h

theorem mapOk_wf : ∀ (ts : List Term) (es : List Expr), mapOk termSql ts = .ok es → wfEs es = true ∧ es.length = ts.length
  | [], es, h => by simp [mapOk] at h; subst h; simp [wfEs]
  | t :: ts, es, h => by
    simp only [mapOk] at h
    cases ht : termSql t with
    | error m => simp [ht] at h
    | ok e =>
      cases hts : mapOk termSql ts with
      | error m => simp [ht, hts] at h
      | ok es' =>
        simp [ht, hts] at h
        subst h
        obtain ⟨h1, h2⟩ := mapOk_wf ts es' hts
        simp [wfEs, termSql_wf t e ht, h1, h2]

theorem condSql_wf (es : List Expr) (hne : es ≠ []) (hes : wfEs es = true) : ∀ (c : Cond) (al : Bool), wfE (condSql es al c).1 = true
  | .leaf i, al => by
    have : es.isEmpty = false := by cases es <;> simp_all
    cases al <;> simp [condSql, neq, wfE, wfEs, this, hes]
  | .node op l r, al => by
    have h1 := condSql_wf es hne hes l al
    have h2 := condSql_wf es hne hes r (condSql es al l).2
    cases op <;> simp [condSql, and_, or_, wfE, wfEs, h1, h2]

theorem internTerm_len (ts : List Term) (t : Term) : (internTerm ts t).1 ≠ [] ∧ ts.length ≤ (internTerm ts t).1.length := by
  unfold internTerm
  cases h : ts.findIdx? (fun u => u.key == t.key) with
  | none => simp
  | some i =>
    rw [List.findIdx?_eq_some_iff_getElem] at h
    obtain ⟨hi, _⟩ := h
    refine ⟨?_, Nat.le_refl _⟩
    intro hnil
    simp only at hnil
    rw [hnil] at hi
    exact Nat.not_lt_zero _ hi

theorem analyzeChain_len : ∀ (e : AttrExp) (ts : List Term), (analyzeChain ts e).1 ≠ [] ∧ ts.length ≤ (analyzeChain ts e).1.length
  | .leaf t, ts => by simpa [analyzeChain] using internTerm_len ts t
  | .paren e, ts => by simpa [analyzeChain] using analyzeChain_len e ts
  | .leafOp t op tail, ts => by
    obtain ⟨h1, h2⟩ := internTerm_len ts t
    obtain ⟨g1, g2⟩ := analyzeChain_len tail (internTerm ts t).1
    simp only [analyzeChain]
    exact ⟨g1, Nat.le_trans h2 g2⟩
  | .parenOp e op tail, ts => by
    obtain ⟨h1, h2⟩ := analyzeChain_len e ts
    obtain ⟨g1, g2⟩ := analyzeChain_len tail (analyzeChain ts e).1
    simp only [analyzeChain]
    exact ⟨g1, Nat.le_trans h2 g2⟩

theorem analyzeCond_len (e : AttrExp) (ts : List Term) : (analyzeCond ts e).1 ≠ [] ∧ ts.length ≤ (analyzeCond ts e).1.length := by
  simpa [analyzeCond] using analyzeChain_len e ts

theorem initIndex_wf (c : Ctx) : wfS (initIndex c) = true := by
  simp [initIndex, wfS_iff, wfWs, wfEs, wfE, wfO, wfJs, simpleCol, and_, ge, le, lt]

theorem aggCol_wf (a : String) : wfEs (aggCol a) = true := by
  unfold aggCol; split
  · rfl
  · split <;> simp [wfEs, wfE]

theorem aggWhere_wf (a : String) : wfEs (aggWhere a) = true := by
  unfold aggWhere; split
  · rfl
  · split <;> simp [wfEs, wfE, keyIs, eq]

theorem randomFilter_wf (c : Ctx) : wfEs (randomFilter c) = true := by
  unfold randomFilter
  split
  · rename_i h
    have : (c.cached.map (fun t => Expr.raw ("unhex('" ++ t ++ "')"))).isEmpty = false := by
      cases hc : c.cached with
      | nil => simp [hc] at h
      | cons x xs => simp
    have hall : wfEs (c.cached.map (fun t => Expr.raw ("unhex('" ++ t ++ "')"))) = true := by
      induction c.cached with
      | nil => rfl
      | cons x xs ih => simp [wfEs, wfE, ih]
    simp [wfEs, wfE, or_, eq, this, hall]
  · split <;> simp [wfEs, wfE, eq]

theorem attrCondition_wf (c : Ctx) (terms : List Term) (cond : Cond) (aggAttr : String) (S : Sel) (hne : terms ≠ [])
    (h : attrCondition c terms cond aggAttr = .ok S) : wfS S = true := by
  obtain ⟨_, h⟩ := attrCondition_core h
  unfold attrConditionCore at h
  cases hm : mapOk termSql terms with
  | error e => simp [hm, bind, Except.bind] at h
  | ok es =>
    obtain ⟨hes, hlen⟩ := mapOk_wf terms es hm
    have hesne : es ≠ [] := by
      intro h0; rw [h0] at hlen; simp at hlen; exact hne (List.eq_nil_of_length_eq_zero hlen.symm)
    simp only [hm, bind, Except.bind, pure, Except.pure, Except.ok.injEq] at h
    have hbase : wfS ((((initIndex c).addCols (aggCol aggAttr)).andWhere [or_ (es ++ aggWhere aggAttr)]).andHaving
        [(condSql es false cond).1]) = true := by
      apply wfS_andHaving _ _ _ (by simp) (by simp [wfEs, condSql_wf es hesne hes])
      apply wfS_andWhere _ _ _ (by simp)
      · have : (es ++ aggWhere aggAttr).isEmpty = false := by cases es <;> simp_all
        simp [wfEs, or_, wfE, this, wfEs_append, hes, aggWhere_wf]
      · exact wfS_addCols _ _ (initIndex_wf c) (aggCol_wf aggAttr)
    rw [← h]
    split
    · exact hbase
    · rename_i f hf
      refine wfS_andWhere _ _ hbase ?_ (randomFilter_wf c)
      intro h0; exact hf h0

theorem attrless_wf (c : Ctx) : wfS (attrless c) = true := by
  unfold attrless
  apply wfS_with
  · simp [wfS_iff, wfWs, wfEs, wfE, wfO, wfJs, simpleCol, and_, ge, lt]
  · simp [wfS_iff, wfWs, wfEs, wfE, wfO, wfJs, simpleCol, and_, ge, le, lt]

theorem indexGroupBy_wf (pfx : String) (main : Sel) (h : wfS main = true) : wfS (indexGroupBy pfx main) = true := by
  unfold indexGroupBy
  apply wfS_with
  · simp [wfS_iff, wfWs, wfEs, wfE, wfO, wfJs, simpleCol]
  · simp [wfWs, h]

theorem aggregatorSql_wf (pfx : String) (fn : AggFn) : wfE (aggregatorSql pfx fn) = true := by
  cases fn <;> simp [aggregatorSql, wfE, wfEs]

theorem aggregator_wf (pfx : String) (a : Agg) (main X : Sel) (hm : wfS main = true) (h : aggregator pfx a main = .ok X) :
    wfS X = true := by
  unfold aggregator at h
  cases hf : cmpSql a.cmp with
  | none => simp [hf, bind, Except.bind, throw, throwThe, MonadExceptOf.throw] at h
  | some f =>
    cases hv : aggCmpText a with
    | error m => simp [hf, hv, bind, Except.bind, pure, Except.pure] at h
    | ok v =>
      simp [hf, hv, bind, Except.bind, pure, Except.pure] at h
      rw [← h]
      exact wfS_andHaving _ _ hm (by simp) (by simp [wfEs, wfE, aggregatorSql_wf])

theorem simpleSel_wf (c : Ctx) (pfx : String) (script : Script) (X : Sel) (h : simpleSel c pfx script = .ok X) : wfS X = true := by
  unfold simpleSel at h
  cases hc : check script with
  | error m => simp [hc, bind, Except.bind] at h
  | ok u =>
    simp only [hc, bind, Except.bind] at h
    cases script with
    | nil => simp [throw, throwThe, MonadExceptOf.throw] at h
    | cons p rest =>
      obtain ⟨s, op⟩ := p
      simp only at h
      cases ha : s.agg with
      | none =>
        cases he : s.attrs with
        | none =>
          simp only [ha, he, pure, Except.pure, Except.ok.injEq] at h
          rw [← h]; exact indexGroupBy_wf pfx _ (attrless_wf c)
        | some e =>
          simp only [ha, he] at h
          cases hat : attrCondition c (analyzeCond [] e).1 (analyzeCond [] e).2 "" with
          | error m => simp [hat] at h
          | ok SA =>
            simp only [hat, pure, Except.pure, Except.ok.injEq] at h
            rw [← h]
            exact indexGroupBy_wf pfx _ (attrCondition_wf c _ _ _ SA (analyzeCond_len e []).1 hat)
      | some a =>
        cases he : s.attrs with
        | none =>
          simp only [ha, he, pure, Except.pure] at h
          exact aggregator_wf pfx a _ X (indexGroupBy_wf pfx _ (attrless_wf c)) h
        | some e =>
          simp only [ha, he] at h
          cases hat : attrCondition c (analyzeCond [] e).1 (analyzeCond [] e).2 a.attr with
          | error m => simp [hat] at h
          | ok SA =>
            simp only [hat] at h
            exact aggregator_wf pfx a _ X (indexGroupBy_wf pfx _ (attrCondition_wf c _ _ _ SA (analyzeCond_len e []).1 hat)) h

theorem operandSel_wf (isAnd : Bool) (i : Nat) (s : Sel) (h : wfS s = true) : wfS (operandSel isAnd i s) = true := by
  unfold operandSel
  apply wfS_with
  · cases isAnd <;> simp [wfS_iff, wfWs, wfEs, wfE, wfO, wfJs, simpleCol]
  · simp only [wfWs, Bool.and_true]
    exact wfS_addCols s _ h (by simp [wfEs, wfE])

theorem operandSels_wf (isAnd : Bool) : ∀ (ss : List Sel) (i : Nat), wfSs ss = true → wfSs (operandSels isAnd i ss) = true
  | [], _, _ => rfl
  | s :: ss, i, h => by
    simp only [wfSs, Bool.and_eq_true] at h
    simp [operandSels, wfSs, operandSel_wf isAnd i s h.1, operandSels_wf isAnd ss (i + 1) h.2]

theorem complexSel_wf (isAnd : Bool) (pfx : String) (ops : List Sel) (hne : ops ≠ []) (h : wfSs ops = true) :
    wfS (complexSel isAnd pfx ops) = true := by
  have h1 : (operandSels isAnd 0 ops).isEmpty = false := by cases ops <;> simp_all [operandSels]
  cases isAnd <;>
    simp [complexSel, wfS_iff, wfWs, wfEs, wfE, wfO, wfJs, simpleCol, h1, operandSels_wf _ ops 0 h, and_, eq]

theorem treeSel_wf (c : Ctx) : ∀ (t : XTree) (X : Sel), treeSel c t = .ok X → wfS X = true
  | .simple script k, X, h => simpleSel_wf c _ script X (by simpa [treeSel] using h)
  | .complex isAnd k l r, X, h => by
    simp only [treeSel, bind, Except.bind] at h
    cases hl : treeSel c l with
    | error m => simp [hl] at h
    | ok ls =>
      cases hr : treeSel c r with
      | error m => simp [hl, hr] at h
      | ok rs =>
        simp [hl, hr, pure, Except.pure] at h
        rw [← h]
        exact complexSel_wf isAnd _ [ls, rs] (by simp) (by simp [wfSs, treeSel_wf c l ls hl, treeSel_wf c r rs hr])

theorem rootSel_wf (c : Ctx) (script : Script) (X : Sel) (h : rootSel c script = .ok X) : wfS X = true := by
  unfold rootSel at h
  split at h
  · simp [throw, throwThe, MonadExceptOf.throw] at h
  · exact simpleSel_wf c "" _ X h
  · simp only [bind, Except.bind] at h
    cases hp : planTree script with
    | error m => simp [hp] at h
    | ok t => simp only [hp] at h; exact treeSel_wf c t X h

theorem indexLimit_wf (c : Ctx) (s : Sel) (h : wfS s = true) : wfS (indexLimit c s) = true := by
  unfold indexLimit
  split
  · exact h
  · exact wfS_setLimit s _ h (by simp [wfE])

theorem tracesData_wf (c : Ctx) (main : Sel) (h : wfS main = true) : wfS (tracesData c main) = true := by
  unfold tracesData
  apply wfS_with
  · simp [wfS_iff, wfWs, wfEs, wfE, wfO, wfJs, simpleCol, and_, eq]
  · simp [wfWs, h, wfS_iff, wfEs, wfE, wfO, wfJs, simpleCol, and_]

/-- every statement `plan` builds is structurally well formed -/
theorem plan_wf (c : Ctx) (script : Script) (X : Sel) (h : plan c script = .ok X) : wfS X = true := by
  simp only [plan, indexGrouped, bind, Except.bind, pure, Except.pure] at h
  cases hr : rootSel c script with
  | error m => simp [hr] at h
  | ok R =>
    simp [hr] at h
    rw [← h]
    exact indexLimit_wf c _ (tracesData_wf c _ (indexLimit_wf c _ (rootSel_wf c script R hr)))

end Qryn.TraceQL
