import Qryn.Proofs.InternalJsonPath
/-! `| json n₁="p₁", n₂="p₂", …` with any number of parameters (names may repeat, may be stream labels, paths may
    be prefixes of each other) on any document, malformed ones included: the streaming walk of
    `jsonPathProcessor` (`process/processObject/processArray`, `filterAhead`, the `path[1:]` loop, `Skip`) sets the
    labels exactly as `LogQL.Stages.jsonPathLabels` says — scalars in document order up to the failure point, each
    giving its value to the parameters whose path is its address. Then every parser kind meets its definition
    (`parser_meets_all`). Core only. -/
namespace Qryn.Read
open Qryn Qryn.LogQL.Stages

/-! ### `setMatching` against `filterAhead` -/
theorem setMatching_nil (l : Labels) (pv : List PathSeg × Bytes) : setMatching [] l pv = l := rfl

theorem foldl_setMatching_nil (lv : List (List PathSeg × Bytes)) (l : Labels) : lv.foldl (setMatching []) l = l := by
  induction lv generalizing l with
  | nil => rfl
  | cons x xs ih => simp only [List.foldl_cons, setMatching_nil, ih]

/-- a scalar below the member `seg`: the parameters it serves are those `filterAhead` keeps, with the paths cut -/
theorem setMatching_cons (as : List Ahead) (seg : PathSeg) (l : Labels) (p : List PathSeg) (x : Bytes) :
    setMatching as l (seg :: p, x) = setMatching (aheadsFor seg as) l (p, x) := by
  induction as generalizing l with
  | nil => rfl
  | cons a rest ih =>
    obtain ⟨n, path⟩ := a
    simp only [setMatching, List.foldl_cons, aheadsFor, List.filterMap_cons] at ih ⊢
    cases path with
    | nil =>
      simp only [reduceCtorEq, if_false]
      exact ih l
    | cons s r =>
      by_cases hs : s = seg
      · subst hs
        simp only [List.cons.injEq, true_and, if_true, List.foldl_cons]
        exact ih _
      · have : ¬ (s :: r = seg :: p) := fun e => hs (List.cons.inj e).1
        simp only [this, hs, if_false]
        exact ih l

theorem foldl_setMatching_map (as : List Ahead) (seg : PathSeg) (lv : List (List PathSeg × Bytes)) (l : Labels) :
    (lv.map (fun pv => (seg :: pv.1, pv.2))).foldl (setMatching as) l = lv.foldl (setMatching (aheadsFor seg as)) l := by
  induction lv generalizing l with
  | nil => rfl
  | cons x xs ih =>
    simp only [List.map_cons, List.foldl_cons, setMatching_cons]
    exact ih _

/-- the scalar itself (`process`, cases String and default): the parameters whose path ends here -/
theorem setAll_eq (as : List Ahead) (l : Labels) (x : Bytes) : setAll l as x = setMatching as l ([], x) := by
  simp only [setAll, setMatching]
  congr 1
  funext acc a
  cases h : a.2 <;> simp

/-! ### aheads whose path is exhausted, aheads that go on -/
theorem deeperOf_nil_of_all (as : List Ahead) (h : (deeperOf as).isEmpty = true) : ∀ a ∈ as, a.2 = [] := by
  intro a ha
  have : deeperOf as = [] := List.isEmpty_iff.mp h
  have hnot : a ∉ deeperOf as := by rw [this]; simp
  simp only [deeperOf, List.mem_filter, ha, true_and] at hnot
  simpa using hnot

/-- no path ends here (`len(deeper) == len(aheads)`): every ahead goes on -/
theorem deeperOf_eq_self (as : List Ahead) (h : ¬ (deeperOf as).length < as.length) : deeperOf as = as := by
  have hle := List.length_filter_le (fun a : Ahead => !a.2.isEmpty) as
  have : (as.filter (fun a : Ahead => !a.2.isEmpty)).length = as.length := by
    simp only [deeperOf] at h; omega
  exact List.filter_eq_self.mpr (List.length_filter_eq_length_iff.mp this)

/-- a value below the root (non-empty address) serves only the aheads that go on -/
theorem setMatching_deeper (as : List Ahead) (l : Labels) (seg : PathSeg) (p : List PathSeg) (x : Bytes) :
    setMatching as l (seg :: p, x) = setMatching (deeperOf as) l (seg :: p, x) := by
  induction as generalizing l with
  | nil => rfl
  | cons a rest ih =>
    simp only [setMatching, List.foldl_cons, deeperOf, List.filter_cons] at ih ⊢
    cases hp : a.2 with
    | nil =>
      simp only [List.isEmpty_nil, Bool.not_true, Bool.false_eq_true, if_false, reduceCtorEq]
      exact ih l
    | cons s r =>
      simp only [List.isEmpty_cons, Bool.not_false, if_true, List.foldl_cons, hp]
      exact ih _

theorem foldl_setMatching_deeper (as : List Ahead) (seg : PathSeg) (lv : List (List PathSeg × Bytes)) (l : Labels) :
    (lv.map (fun pv => (seg :: pv.1, pv.2))).foldl (setMatching as) l =
      (lv.map (fun pv => (seg :: pv.1, pv.2))).foldl (setMatching (deeperOf as)) l := by
  induction lv generalizing l with
  | nil => rfl
  | cons x xs ih => simp only [List.map_cons, List.foldl_cons, setMatching_deeper as l seg]; exact ih _

theorem foldl_kvs_deeper (as : List Ahead) (kvs : JKvs) (l : Labels) :
    (pleavesKvs kvs).foldl (setMatching as) l = (pleavesKvs kvs).foldl (setMatching (deeperOf as)) l := by
  cases kvs with
  | nil => rfl
  | cons k v rest =>
    simp only [pleavesKvs, List.foldl_append, foldl_setMatching_deeper as (.key k)]
    exact foldl_kvs_deeper as rest _

theorem foldl_arr_deeper (as : List Ahead) (i : Nat) (xs : JList) (l : Labels) :
    (pleavesArr i xs).foldl (setMatching as) l = (pleavesArr i xs).foldl (setMatching (deeperOf as)) l := by
  cases xs with
  | nil => rfl
  | cons v rest =>
    simp only [pleavesArr, List.foldl_append, foldl_setMatching_deeper as (.idx i)]
    exact foldl_arr_deeper as (i + 1) rest _

/-- the root value itself serves nobody when every ahead goes on -/
theorem setMatching_root_none (as : List Ahead) (h : deeperOf as = as) (l : Labels) (x : Bytes) :
    setMatching as l ([], x) = l := by
  have hall : ∀ a ∈ as, a.2 ≠ [] := by
    intro a ha
    rw [← h] at ha
    simp only [deeperOf, List.mem_filter] at ha
    intro e; simp [e] at ha
  clear h
  induction as generalizing l with
  | nil => rfl
  | cons a rest ih =>
    simp only [setMatching, List.foldl_cons]
    have : ¬ a.2 = [] := hall a List.mem_cons_self
    simp only [this, if_false]
    exact ih l (fun b hb => hall b (List.mem_cons_of_mem _ hb))

/-! ### the walk: on a document read to the end, values in document order; the decoder fails exactly where the document does -/
/-- what the walk claims for a value: the flag says whether the value could be read, and if so the labels are those
    of the document-order pass -/
def WalkOk (r : Labels × Bool) (bad : Bool) (want : Labels) : Prop := r.2 = !bad ∧ (bad = false → r.1 = want)

/-- one member (of an object or an array): `filterAhead`, then `Skip` or `process` on the value -/
theorem member_step (as' : List Ahead) (l : Labels) (v : JVal)
    (ih : WalkOk (jppVal as' (l, true) v) (hasBad v) ((pleavesVal v).foldl (setMatching as') l)) :
    WalkOk (if as'.isEmpty then (l, !hasBad v) else jppVal as' (l, true) v) (hasBad v)
      ((pleavesVal v).foldl (setMatching as') l) := by
  cases as' with
  | nil => exact ⟨rfl, fun _ => by simp only [List.isEmpty_nil, if_true, foldl_setMatching_nil]⟩
  | cons a rest => simpa using ih

mutual
theorem jppVal_walk (as : List Ahead) (l : Labels) (v : JVal) :
    WalkOk (jppVal as (l, true) v) (hasBad v) ((pleavesVal v).foldl (setMatching as) l) := by
  cases v with
  | obj text kvs =>
    simp only [jppVal, pleavesVal, hasBad, List.foldl_cons]
    by_cases hlt : (deeperOf as).length < as.length
    · simp only [hlt, if_true]
      by_cases hb : hasBadKvs kvs = true
      · simp only [hb, if_true]
        exact ⟨rfl, fun h => by simp at h⟩
      · have hb' : hasBadKvs kvs = false := by simpa using hb
        simp only [hb', Bool.false_eq_true, if_false]
        by_cases hd : (deeperOf as).isEmpty = true
        · simp only [hd, if_true]
          refine ⟨rfl, fun _ => ?_⟩
          rw [foldl_kvs_deeper, List.isEmpty_iff.mp hd, foldl_setMatching_nil, setAll_eq]
        · simp only [hd, Bool.false_eq_true, if_false]
          have := jppKvs_walk (deeperOf as) (setAll l as text) kvs
          rw [hb'] at this
          refine ⟨this.1, fun _ => ?_⟩
          rw [this.2 rfl, foldl_kvs_deeper as, setAll_eq]
    · have hself := deeperOf_eq_self as hlt
      simp only [hlt, if_false]
      cases as with
      | nil =>
        simp only [List.isEmpty_nil, if_true]
        exact ⟨rfl, fun _ => by simp only [foldl_setMatching_nil, setMatching_nil]⟩
      | cons a rest =>
        simp only [List.isEmpty_cons, Bool.false_eq_true, if_false]
        rw [setMatching_root_none (a :: rest) hself]
        exact jppKvs_walk (a :: rest) l kvs
  | arr text xs =>
    simp only [jppVal, pleavesVal, hasBad, List.foldl_cons]
    by_cases hlt : (deeperOf as).length < as.length
    · simp only [hlt, if_true]
      by_cases hb : hasBadList xs = true
      · simp only [hb, if_true]
        exact ⟨rfl, fun h => by simp at h⟩
      · have hb' : hasBadList xs = false := by simpa using hb
        simp only [hb', Bool.false_eq_true, if_false]
        by_cases hd : (deeperOf as).isEmpty = true
        · simp only [hd, if_true]
          refine ⟨rfl, fun _ => ?_⟩
          rw [foldl_arr_deeper, List.isEmpty_iff.mp hd, foldl_setMatching_nil, setAll_eq]
        · simp only [hd, Bool.false_eq_true, if_false]
          have := jppArr_walk (deeperOf as) 0 (setAll l as text) xs
          rw [hb'] at this
          refine ⟨this.1, fun _ => ?_⟩
          rw [this.2 rfl, foldl_arr_deeper as, setAll_eq]
    · have hself := deeperOf_eq_self as hlt
      simp only [hlt, if_false]
      cases as with
      | nil =>
        simp only [List.isEmpty_nil, if_true]
        exact ⟨rfl, fun _ => by simp only [foldl_setMatching_nil, setMatching_nil]⟩
      | cons a rest =>
        simp only [List.isEmpty_cons, Bool.false_eq_true, if_false]
        rw [setMatching_root_none (a :: rest) hself]
        exact jppArr_walk (a :: rest) 0 l xs
  | str s => exact ⟨rfl, fun _ => by simp only [jppVal, pleavesVal, List.foldl_cons, List.foldl_nil, setAll_eq]⟩
  | raw t => exact ⟨rfl, fun _ => by simp only [jppVal, pleavesVal, List.foldl_cons, List.foldl_nil, setAll_eq]⟩
  | bad => exact ⟨rfl, fun h => by simp [hasBad] at h⟩
theorem jppKvs_walk (as : List Ahead) (l : Labels) (kvs : JKvs) :
    WalkOk (jppKvs as (l, true) kvs) (hasBadKvs kvs) ((pleavesKvs kvs).foldl (setMatching as) l) := by
  cases kvs with
  | nil => exact ⟨rfl, fun _ => rfl⟩
  | cons k v rest =>
    simp only [jppKvs, pleavesKvs, hasBadKvs, List.foldl_append, foldl_setMatching_map]
    have hm := member_step (aheadsFor (.key k) as) l v (jppVal_walk _ l v)
    generalize (if (aheadsFor (PathSeg.key k) as).isEmpty = true then (l, !hasBad v)
      else jppVal (aheadsFor (PathSeg.key k) as) (l, true) v) = r at hm
    obtain ⟨h1, h2⟩ := hm
    cases hb : hasBad v with
    | true =>
      rw [hb] at h1
      simp only [h1, Bool.not_true, Bool.false_eq_true, if_false, Bool.true_or]
      exact ⟨h1, fun h => by simp at h⟩
    | false =>
      rw [hb] at h1
      have hr : r = (r.1, true) := Prod.ext rfl (by simpa using h1)
      simp only [h1, Bool.not_false, if_true, Bool.false_or]
      rw [hr, h2 hb]
      exact jppKvs_walk as _ rest
theorem jppArr_walk (as : List Ahead) (i : Nat) (l : Labels) (xs : JList) :
    WalkOk (jppArr as i (l, true) xs) (hasBadList xs) ((pleavesArr i xs).foldl (setMatching as) l) := by
  cases xs with
  | nil => exact ⟨rfl, fun _ => rfl⟩
  | cons v rest =>
    simp only [jppArr, pleavesArr, hasBadList, List.foldl_append, foldl_setMatching_map]
    have hm := member_step (aheadsFor (.idx i) as) l v (jppVal_walk _ l v)
    generalize (if (aheadsFor (PathSeg.idx i) as).isEmpty = true then (l, !hasBad v)
      else jppVal (aheadsFor (PathSeg.idx i) as) (l, true) v) = r at hm
    obtain ⟨h1, h2⟩ := hm
    cases hb : hasBad v with
    | true =>
      rw [hb] at h1
      simp only [h1, Bool.not_true, Bool.false_eq_true, if_false, Bool.true_or]
      exact ⟨h1, fun h => by simp at h⟩
    | false =>
      rw [hb] at h1
      have hr : r = (r.1, true) := Prod.ext rfl (by simpa using h1)
      simp only [h1, Bool.not_false, if_true, Bool.false_or]
      rw [hr, h2 hb]
      exact jppArr_walk as (i + 1) _ rest
end

/-- what the walk found = the document-order definition, on a line that is one readable JSON document; nothing otherwise -/
theorem jsonFound_meets (valid : Bool) (ps : List Ahead) (doc : JVal) :
    jsonFound valid ps doc = if valid && !hasBad doc then jsonPathFound ps doc else [] := by
  obtain ⟨h1, h2⟩ := jppVal_walk ps [] doc
  simp only [jsonFound, jsonPathFound]
  cases valid with
  | false => rfl
  | true =>
    cases hb : hasBad doc with
    | true => rw [hb] at h1; simp [h1]
    | false => rw [hb] at h1; simp [h1, h2 hb]

/-- **`| json` with parameters, general case** -/
theorem jsonParams_meets (valid : Bool) (ps : List Ahead) (doc : JVal) (l : Labels) :
    jsonParams valid ps doc l = jsonPathLabels (valid && !hasBad doc) ps doc l := by
  simp only [jsonParams, jsonPathLabels, jsonFound_meets]

/-! ### parameters with pairwise different names on a document read to the end: the reading by lookup -/
theorem bytes_lt_total (a b : Bytes) (h : a ≠ b) (h2 : ¬ a < b) : b < a :=
  Std.lt_of_le_of_ne h2 (Ne.symm h)

/-- assignments to different keys of the label map commute (on any list, sorted or not) -/
theorem set_comm (l : Labels) (a b x y : Bytes) (hab : a ≠ b) : (l.set a x).set b y = (l.set b y).set a x := by
  have hba : ¬ b = a := fun e => hab e.symm
  induction l with
  | nil =>
    by_cases h : b < a
    · have : ¬ a < b := List.lt_asymm h
      simp [Labels.set, hab, hba, h, this]
    · have : a < b := bytes_lt_total b a hba h
      simp [Labels.set, hab, hba, h, this]
  | cons p rest ih =>
    obtain ⟨k, v⟩ := p
    by_cases hka : k = a
    · subst hka
      by_cases h : b < k
      · have : ¬ k < b := List.lt_asymm h
        simp [Labels.set, hab, hba, h, this]
      · simp [Labels.set, hab, h]
    · by_cases hkb : k = b
      · subst hkb
        by_cases h : a < k
        · have : ¬ k < a := List.lt_asymm h
          simp [Labels.set, hab, hba, h, this]
        · simp [Labels.set, hba, h, hka]
      · by_cases h1 : a < k <;> by_cases h2 : b < k
        · by_cases h : b < a
          · have : ¬ a < b := List.lt_asymm h
            simp [Labels.set, hab, hba, h, this, hka, hkb, h1, h2]
          · have : a < b := bytes_lt_total b a hba h
            simp [Labels.set, hab, hba, h, this, hka, hkb, h1, h2]
        · have : ¬ b < a := fun h => h2 (List.lt_trans h h1)
          simp [Labels.set, hab, this, hka, hkb, h1, h2]
        · have : ¬ a < b := fun h => h1 (List.lt_trans h h2)
          simp [Labels.set, hba, this, hka, hkb, h1, h2]
        · simp [Labels.set, hka, hkb, h1, h2, ih]

theorem setMatching_set_comm (ps : List Ahead) (n x : Bytes) (hn : n ∉ ps.map (·.1)) (acc : Labels)
    (pv : List PathSeg × Bytes) : setMatching ps (acc.set n x) pv = (setMatching ps acc pv).set n x := by
  induction ps generalizing acc with
  | nil => rfl
  | cons a rest ih =>
    have hna : n ≠ a.1 := fun e => hn (by simp [e])
    have hrest : n ∉ rest.map (·.1) := fun h => hn (by simp only [List.map_cons, List.mem_cons]; exact Or.inr h)
    simp only [setMatching, List.foldl_cons] at ih ⊢
    by_cases h : a.2 = pv.1
    · simp only [h, if_true]
      rw [set_comm acc n a.1 x pv.2 hna]
      exact ih hrest _
    · simp only [h, if_false]
      exact ih hrest _

theorem setMatching_single (a : Ahead) (acc : Labels) (pv : List PathSeg × Bytes) :
    setMatching [a] acc pv = if a.2 = pv.1 then acc.set a.1 pv.2 else acc := rfl

/-- the steps of one parameter commute with the steps of the others when its name is not among theirs -/
theorem setMatching_comm (a : Ahead) (ps : List Ahead) (hn : a.1 ∉ ps.map (·.1)) (acc : Labels)
    (pv pv' : List PathSeg × Bytes) :
    setMatching ps (setMatching [a] acc pv) pv' = setMatching [a] (setMatching ps acc pv') pv := by
  simp only [setMatching_single]
  by_cases h : a.2 = pv.1
  · simp only [h, if_true]; exact setMatching_set_comm ps a.1 pv.2 hn acc pv'
  · simp only [h, if_false]

theorem foldl_push {α β : Type} (F G : α → β → α) (hcomm : ∀ acc x y, G (F acc x) y = F (G acc y) x)
    (lv : List β) (z : α) (y : β) : lv.foldl F (G z y) = G (lv.foldl F z) y := by
  induction lv generalizing z with
  | nil => rfl
  | cons x xs ih => simp only [List.foldl_cons, ← hcomm, ih]

theorem foldl_interchange {α β : Type} (F G : α → β → α) (hcomm : ∀ acc x y, G (F acc x) y = F (G acc y) x)
    (lv : List β) (l : α) : lv.foldl (fun acc x => G (F acc x) x) l = lv.foldl G (lv.foldl F l) := by
  induction lv generalizing l with
  | nil => rfl
  | cons x xs ih =>
    simp only [List.foldl_cons]
    rw [ih, foldl_push F G hcomm]

/-- parameters with pairwise different names: the document-order definition decomposes into one pass per parameter -/
theorem jsonPathLabels_distinct (ps : List Ahead) (hd : (ps.map (·.1)).Nodup) (lv : List (List PathSeg × Bytes)) (l : Labels) :
    lv.foldl (setMatching ps) l = ps.foldl (fun acc a => lv.foldl (setMatching [a]) acc) l := by
  induction ps generalizing l with
  | nil => simp only [List.foldl_nil, foldl_setMatching_nil]
  | cons a rest ih =>
    have hn : a.1 ∉ rest.map (·.1) := (List.nodup_cons.mp hd).1
    have hsplit : setMatching (a :: rest) = fun acc pv => setMatching rest (setMatching [a] acc pv) pv := by
      funext acc pv; rfl
    rw [hsplit, foldl_interchange (setMatching [a]) (setMatching rest) (fun acc x y => setMatching_comm a rest hn acc x y)]
    simp only [List.foldl_cons]
    exact ih (List.nodup_cons.mp hd).2 _

theorem foldl_congr_mem {α β : Type} (f g : β → α → β) (l : List α) (h : ∀ acc, ∀ a ∈ l, f acc a = g acc a) (z : β) :
    l.foldl f z = l.foldl g z := by
  induction l generalizing z with
  | nil => rfl
  | cons x xs ih =>
    simp only [List.foldl_cons, h z x List.mem_cons_self]
    exact ih (fun acc a ha => h acc a (List.mem_cons_of_mem _ ha)) _

/-- after one pass per parameter over pairwise different names, the label of a parameter holds what its pass left -/
theorem get_foldl_setFound (ps : List Ahead) (hd : (ps.map (·.1)).Nodup) (f : Ahead → Option Bytes) (init : Labels)
    (a : Ahead) (ha : a ∈ ps) :
    (ps.foldl (fun acc b => setFound acc b.1 (f b)) init).get a.1 = (match f a with | some x => x | none => init.get a.1) := by
  induction ps generalizing init with
  | nil => simp at ha
  | cons b rest ih =>
    have hn : b.1 ∉ rest.map (·.1) := (List.nodup_cons.mp hd).1
    have hd' := (List.nodup_cons.mp hd).2
    simp only [List.foldl_cons]
    rcases List.mem_cons.mp ha with hab | har
    · subst hab
      -- the later passes do not touch this name
      have hkeep : ∀ (rs : List Ahead) (acc : Labels), a.1 ∉ rs.map (·.1) →
          (rs.foldl (fun acc b => setFound acc b.1 (f b)) acc).get a.1 = acc.get a.1 := by
        intro rs
        induction rs with
        | nil => intros; rfl
        | cons c cs ihc =>
          intro acc hc
          have hca : a.1 ≠ c.1 := fun e => hc (by simp [e])
          simp only [List.foldl_cons]
          rw [ihc _ (fun h => hc (by simp only [List.map_cons, List.mem_cons]; exact Or.inr h))]
          cases f c with
          | none => rfl
          | some x => exact get_set_ne acc c.1 a.1 x hca
      rw [hkeep rest _ hn]
      cases f a with
      | none => rfl
      | some x => exact get_set_self init a.1 x
    · rw [ih hd' _ har]
      have hne : a.1 ≠ b.1 := fun e => hn (e ▸ List.mem_map_of_mem har)
      cases f a with
      | some x => rfl
      | none =>
        cases f b with
        | none => rfl
        | some y => exact get_set_ne init b.1 a.1 y hne

/-- **no two parameters share a name**: the general definition is the reading by lookup, parameter by parameter — each
    label is the text its path leads to ("" when it leads nowhere, or the line is not a readable document), independent
    of the order of the parameters and of the order of the members in the document -/
theorem jsonParams_distinct_lookup (readable : Bool) (ps : List Ahead) (hd : (ps.map (·.1)).Nodup) (doc : JVal)
    (l : Labels) : jsonPathLabels readable ps doc l = jsonParamLabels readable ps doc l := by
  simp only [jsonPathLabels, jsonParamLabels]
  apply foldl_congr_mem
  intro acc a ha
  cases readable with
  | false => rfl
  | true =>
    simp only [if_true]
    congr 1
    simp only [jsonPathFound, jsonPathLabels_distinct ps hd]
    have : (fun acc (a : Ahead) => (pleavesVal doc).foldl (setMatching [a]) acc) =
        (fun acc (a : Ahead) => setFound acc a.1 (lookupPath doc a.2)) := by
      funext acc a
      obtain ⟨n, p⟩ := a
      rw [foldl_setMatching_single, lookupPath_last]
    rw [this, get_foldl_setFound ps hd (fun a => lookupPath doc a.2) [] a ha]
    cases lookupPath doc a.2 <;> rfl

variable {V : Type}

theorem parseLabels_meets (E : Env V) (k : ParserKind) (msg : Bytes) (l : Labels) :
    parseLabels E k msg l = parserLabels E k msg l := by
  cases k with
  | json => exact json_meets _ _
  | jsonParams ps => exact jsonParams_meets _ ps _ _
  | logfmt => rfl
  | logfmtParams ps => exact logfmtParams_meets _ _ _

/-- every parser stage of the in-process engine is its LogQL definition, on every line -/
theorem parser_meets_all (E : Env V) (k : ParserKind) (es : List (Entry V)) (hp : ∀ e ∈ es, e.err = none) :
    stageFlat E (.parser k) es = parserStage E k es := by
  simp only [stageFlat, parserStage]
  apply List.map_congr_left
  intro e he
  simp only [parserFn, hp e he, Option.isSome_none, Bool.false_eq_true, if_false, relabel, parseLabels_meets]

end Qryn.Read
