import Qryn.Proofs.InternalJsonPath
/-! `| json n₁="p₁", n₂="p₂", …` with any number of parameters (names may repeat, may be stream labels, paths may
    be prefixes of each other) on any document, malformed ones included: the streaming walk of
    `jsonPathProcessor` (`process/processObject/processArray`, `filterAhead`, the `path[1:]` loop, `Skip`) sets the
    labels exactly as `LogQL.Stages.jsonPathLabels` says — scalars in document order up to the failure point, each
    giving its value to the parameters whose path is its address. Then every parser kind meets its definition
    (`parser_meets_all`). Core only. -/
namespace Qryn.Read
open Qryn Qryn.LogQL.Stages

/-! ### `setMatching` against `filterAhead` -/
theorem setMatching_nil (l : Labels) (pv : List PathSeg × Bytes) : setMatching [] l pv = l := rfl

theorem foldl_setMatching_nil (lv : List (List PathSeg × Bytes)) (l : Labels) : lv.foldl (setMatching []) l = l := by
  induction lv generalizing l with
  | nil => rfl
  | cons x xs ih => simp only [List.foldl_cons, setMatching_nil, ih]

/-- a scalar below the member `seg`: the parameters it serves are those `filterAhead` keeps, with the paths cut -/
theorem setMatching_cons (as : List Ahead) (seg : PathSeg) (l : Labels) (p : List PathSeg) (x : Bytes) :
    setMatching as l (seg :: p, x) = setMatching (aheadsFor seg as) l (p, x) := by
  induction as generalizing l with
  | nil => rfl
  | cons a rest ih =>
    obtain ⟨n, path⟩ := a
    simp only [setMatching, List.foldl_cons, aheadsFor, List.filterMap_cons] at ih ⊢
    cases path with
    | nil =>
      simp only [reduceCtorEq, if_false]
      exact ih l
    | cons s r =>
      by_cases hs : s = seg
      · subst hs
        simp only [List.cons.injEq, true_and, if_true, List.foldl_cons]
        exact ih _
      · have : ¬ (s :: r = seg :: p) := fun e => hs (List.cons.inj e).1
        simp only [this, hs, if_false]
        exact ih l

theorem foldl_setMatching_map (as : List Ahead) (seg : PathSeg) (lv : List (List PathSeg × Bytes)) (l : Labels) :
    (lv.map (fun pv => (seg :: pv.1, pv.2))).foldl (setMatching as) l = lv.foldl (setMatching (aheadsFor seg as)) l := by
  induction lv generalizing l with
  | nil => rfl
  | cons x xs ih =>
    simp only [List.map_cons, List.foldl_cons, setMatching_cons]
    exact ih _

/-- the scalar itself (`process`, cases String and default): the parameters whose path ends here -/
theorem setAll_eq (as : List Ahead) (l : Labels) (x : Bytes) : setAll l as x = setMatching as l ([], x) := by
  simp only [setAll, setMatching]
  congr 1
  funext acc a
  cases h : a.2 <;> simp

/-! ### the decoder reads exactly to the failure point -/
mutual
theorem pleavesVal_ok (v : JVal) : (pleavesVal v).2 = !hasBad v := by
  cases v with
  | obj kvs => simp only [pleavesVal, hasBad]; exact pleavesKvs_ok kvs
  | arr xs => simp only [pleavesVal, hasBad]; exact pleavesArr_ok 0 xs
  | str s => rfl
  | raw t => rfl
  | bad => rfl
theorem pleavesKvs_ok (kvs : JKvs) : (pleavesKvs kvs).2 = !hasBadKvs kvs := by
  cases kvs with
  | nil => rfl
  | cons k v rest =>
    simp only [pleavesKvs, hasBadKvs]
    have h1 := pleavesVal_ok v
    have h2 := pleavesKvs_ok rest
    cases hb : hasBad v <;> simp [hb] at h1 <;> simp [h1, h2]
theorem pleavesArr_ok (i : Nat) (xs : JList) : (pleavesArr i xs).2 = !hasBadList xs := by
  cases xs with
  | nil => rfl
  | cons v rest =>
    simp only [pleavesArr, hasBadList]
    have h1 := pleavesVal_ok v
    have h2 := pleavesArr_ok (i + 1) rest
    cases hb : hasBad v <;> simp [hb] at h1 <;> simp [h1, h2]
end

/-! ### the walk -/
/-- one member (of an object or an array): `filterAhead`, then `Skip` or `process` on the value -/
theorem member_step (as' : List Ahead) (l : Labels) (v : JVal)
    (ih : jppVal as' (l, true) v = ((pleavesVal v).1.foldl (setMatching as') l, (pleavesVal v).2)) :
    (if as'.isEmpty then (l, !hasBad v) else jppVal as' (l, true) v) =
      (((pleavesVal v).1.foldl (setMatching as') l, (pleavesVal v).2) : Labels × Bool) := by
  cases as' with
  | nil => simp only [List.isEmpty_nil, if_true, foldl_setMatching_nil, pleavesVal_ok]
  | cons a rest => simp only [List.isEmpty_cons, Bool.false_eq_true, if_false, ih]

mutual
theorem jppVal_leaves (as : List Ahead) (l : Labels) (v : JVal) :
    jppVal as (l, true) v = ((pleavesVal v).1.foldl (setMatching as) l, (pleavesVal v).2) := by
  cases v with
  | obj kvs =>
    cases as with
    | nil => simp only [jppVal, List.isEmpty_nil, if_true, pleavesVal, foldl_setMatching_nil, pleavesKvs_ok]
    | cons a rest =>
      simp only [jppVal, List.isEmpty_cons, Bool.false_eq_true, if_false, pleavesVal]
      exact jppKvs_leaves (a :: rest) l kvs
  | arr xs =>
    cases as with
    | nil => simp only [jppVal, List.isEmpty_nil, if_true, pleavesVal, foldl_setMatching_nil, pleavesArr_ok]
    | cons a rest =>
      simp only [jppVal, List.isEmpty_cons, Bool.false_eq_true, if_false, pleavesVal]
      exact jppArr_leaves (a :: rest) 0 l xs
  | str s => simp only [jppVal, pleavesVal, List.foldl_cons, List.foldl_nil, setAll_eq]
  | raw t => simp only [jppVal, pleavesVal, List.foldl_cons, List.foldl_nil, setAll_eq]
  | bad => simp only [jppVal, pleavesVal, List.foldl_nil]
theorem jppKvs_leaves (as : List Ahead) (l : Labels) (kvs : JKvs) :
    jppKvs as (l, true) kvs = ((pleavesKvs kvs).1.foldl (setMatching as) l, (pleavesKvs kvs).2) := by
  cases kvs with
  | nil => simp only [jppKvs, pleavesKvs, List.foldl_nil]
  | cons k v rest =>
    simp only [jppKvs, pleavesKvs]
    rw [member_step (aheadsFor (.key k) as) l v (jppVal_leaves _ l v)]
    by_cases h : (pleavesVal v).2 = true
    · simp only [h, if_true]
      rw [jppKvs_leaves as _ rest]
      simp only [List.foldl_append, foldl_setMatching_map]
    · simp only [h, Bool.false_eq_true, if_false, foldl_setMatching_map]
theorem jppArr_leaves (as : List Ahead) (i : Nat) (l : Labels) (xs : JList) :
    jppArr as i (l, true) xs = ((pleavesArr i xs).1.foldl (setMatching as) l, (pleavesArr i xs).2) := by
  cases xs with
  | nil => simp only [jppArr, pleavesArr, List.foldl_nil]
  | cons v rest =>
    simp only [jppArr, pleavesArr]
    rw [member_step (aheadsFor (.idx i) as) l v (jppVal_leaves _ l v)]
    by_cases h : (pleavesVal v).2 = true
    · simp only [h, if_true]
      rw [jppArr_leaves as (i + 1) _ rest]
      simp only [List.foldl_append, foldl_setMatching_map]
    · simp only [h, Bool.false_eq_true, if_false, foldl_setMatching_map]
end

/-- **`| json` with parameters, general case** -/
theorem jsonParams_meets (ps : List Ahead) (doc : JVal) (l : Labels) : jsonParams ps doc l = jsonPathLabels ps doc l := by
  simp only [jsonParams, jsonPathLabels, jppVal_leaves]

variable {V : Type}

theorem parseLabels_meets (E : Env V) (k : ParserKind) (msg : Bytes) (l : Labels) :
    parseLabels E k msg l = parserLabels E k msg l := by
  cases k with
  | json => exact json_meets _ _
  | jsonParams ps => exact jsonParams_meets ps _ _
  | logfmt => rfl
  | logfmtParams ps => exact logfmtParams_meets _ _ _

/-- every parser stage of the in-process engine is its LogQL definition, on every line -/
theorem parser_meets_all (E : Env V) (k : ParserKind) (es : List (Entry V)) (hp : ∀ e ∈ es, e.err = none) :
    stageFlat E (.parser k) es = parserStage E k es := by
  simp only [stageFlat, parserStage]
  apply List.map_congr_left
  intro e he
  simp only [parserFn, hp e he, Option.isSome_none, Bool.false_eq_true, if_false, relabel, parseLabels_meets]

end Qryn.Read
