import Qryn.Proofs.InternalJsonPath
/-! `| json n₁="p₁", n₂="p₂", …` with any number of parameters (names may repeat, may be stream labels, paths may
    be prefixes of each other) on any document, malformed ones included: the streaming walk of
    `jsonPathProcessor` (`process/processObject/processArray`, `filterAhead`, the `path[1:]` loop, `Skip`) sets the
    labels exactly as `LogQL.Stages.jsonPathLabels` says — scalars in document order up to the failure point, each
    giving its value to the parameters whose path is its address. Then every parser kind meets its definition
    (`parser_meets_all`). Core only. -/
namespace Qryn.Read
open Qryn Qryn.LogQL.Stages

/-! ### `setMatching` against `filterAhead` -/
theorem setMatching_nil (l : Labels) (pv : List PathSeg × Bytes) : setMatching [] l pv = l := rfl

theorem foldl_setMatching_nil (lv : List (List PathSeg × Bytes)) (l : Labels) : lv.foldl (setMatching []) l = l := by
  induction lv generalizing l with
  | nil => rfl
  | cons x xs ih => simp only [List.foldl_cons, setMatching_nil, ih]

/-- a scalar below the member `seg`: the parameters it serves are those `filterAhead` keeps, with the paths cut -/
theorem setMatching_cons (as : List Ahead) (seg : PathSeg) (l : Labels) (p : List PathSeg) (x : Bytes) :
    setMatching as l (seg :: p, x) = setMatching (aheadsFor seg as) l (p, x) := by
  induction as generalizing l with
  | nil => rfl
  | cons a rest ih =>
    obtain ⟨n, path⟩ := a
    simp only [setMatching, List.foldl_cons, aheadsFor, List.filterMap_cons] at ih ⊢
    cases path with
    | nil =>
      simp only [reduceCtorEq, if_false]
      exact ih l
    | cons s r =>
      by_cases hs : s = seg
      · subst hs
        simp only [List.cons.injEq, true_and, if_true, List.foldl_cons]
        exact ih _
      · have : ¬ (s :: r = seg :: p) := fun e => hs (List.cons.inj e).1
        simp only [this, hs, if_false]
        exact ih l

theorem foldl_setMatching_map (as : List Ahead) (seg : PathSeg) (lv : List (List PathSeg × Bytes)) (l : Labels) :
    (lv.map (fun pv => (seg :: pv.1, pv.2))).foldl (setMatching as) l = lv.foldl (setMatching (aheadsFor seg as)) l := by
  induction lv generalizing l with
  | nil => rfl
  | cons x xs ih =>
    simp only [List.map_cons, List.foldl_cons, setMatching_cons]
    exact ih _

/-- the scalar itself (`process`, cases String and default): the parameters whose path ends here -/
theorem setAll_eq (as : List Ahead) (l : Labels) (x : Bytes) : setAll l as x = setMatching as l ([], x) := by
  simp only [setAll, setMatching]
  congr 1
  funext acc a
  cases h : a.2 <;> simp

/-! ### the decoder reads exactly to the failure point -/
mutual
theorem pleavesVal_ok (v : JVal) : (pleavesVal v).2 = !hasBad v := by
  cases v with
  | obj kvs => simp only [pleavesVal, hasBad]; exact pleavesKvs_ok kvs
  | arr xs => simp only [pleavesVal, hasBad]; exact pleavesArr_ok 0 xs
  | str s => rfl
  | raw t => rfl
  | bad => rfl
theorem pleavesKvs_ok (kvs : JKvs) : (pleavesKvs kvs).2 = !hasBadKvs kvs := by
  cases kvs with
  | nil => rfl
  | cons k v rest =>
    simp only [pleavesKvs, hasBadKvs]
    have h1 := pleavesVal_ok v
    have h2 := pleavesKvs_ok rest
    cases hb : hasBad v <;> simp [hb] at h1 <;> simp [h1, h2]
theorem pleavesArr_ok (i : Nat) (xs : JList) : (pleavesArr i xs).2 = !hasBadList xs := by
  cases xs with
  | nil => rfl
  | cons v rest =>
    simp only [pleavesArr, hasBadList]
    have h1 := pleavesVal_ok v
    have h2 := pleavesArr_ok (i + 1) rest
    cases hb : hasBad v <;> simp [hb] at h1 <;> simp [h1, h2]
end

/-! ### the walk -/
/-- one member (of an object or an array): `filterAhead`, then `Skip` or `process` on the value -/
theorem member_step (as' : List Ahead) (l : Labels) (v : JVal)
    (ih : jppVal as' (l, true) v = ((pleavesVal v).1.foldl (setMatching as') l, (pleavesVal v).2)) :
    (if as'.isEmpty then (l, !hasBad v) else jppVal as' (l, true) v) =
      (((pleavesVal v).1.foldl (setMatching as') l, (pleavesVal v).2) : Labels × Bool) := by
  cases as' with
  | nil => simp only [List.isEmpty_nil, if_true, foldl_setMatching_nil, pleavesVal_ok]
  | cons a rest => simp only [List.isEmpty_cons, Bool.false_eq_true, if_false, ih]

mutual
theorem jppVal_leaves (as : List Ahead) (l : Labels) (v : JVal) :
    jppVal as (l, true) v = ((pleavesVal v).1.foldl (setMatching as) l, (pleavesVal v).2) := by
  cases v with
  | obj kvs =>
    cases as with
    | nil => simp only [jppVal, List.isEmpty_nil, if_true, pleavesVal, foldl_setMatching_nil, pleavesKvs_ok]
    | cons a rest =>
      simp only [jppVal, List.isEmpty_cons, Bool.false_eq_true, if_false, pleavesVal]
      exact jppKvs_leaves (a :: rest) l kvs
  | arr xs =>
    cases as with
    | nil => simp only [jppVal, List.isEmpty_nil, if_true, pleavesVal, foldl_setMatching_nil, pleavesArr_ok]
    | cons a rest =>
      simp only [jppVal, List.isEmpty_cons, Bool.false_eq_true, if_false, pleavesVal]
      exact jppArr_leaves (a :: rest) 0 l xs
  | str s => simp only [jppVal, pleavesVal, List.foldl_cons, List.foldl_nil, setAll_eq]
  | raw t => simp only [jppVal, pleavesVal, List.foldl_cons, List.foldl_nil, setAll_eq]
  | bad => simp only [jppVal, pleavesVal, List.foldl_nil]
theorem jppKvs_leaves (as : List Ahead) (l : Labels) (kvs : JKvs) :
    jppKvs as (l, true) kvs = ((pleavesKvs kvs).1.foldl (setMatching as) l, (pleavesKvs kvs).2) := by
  cases kvs with
  | nil => simp only [jppKvs, pleavesKvs, List.foldl_nil]
  | cons k v rest =>
    simp only [jppKvs, pleavesKvs]
    rw [member_step (aheadsFor (.key k) as) l v (jppVal_leaves _ l v)]
    by_cases h : (pleavesVal v).2 = true
    · simp only [h, if_true]
      rw [jppKvs_leaves as _ rest]
      simp only [List.foldl_append, foldl_setMatching_map]
    · simp only [h, Bool.false_eq_true, if_false, foldl_setMatching_map]
theorem jppArr_leaves (as : List Ahead) (i : Nat) (l : Labels) (xs : JList) :
    jppArr as i (l, true) xs = ((pleavesArr i xs).1.foldl (setMatching as) l, (pleavesArr i xs).2) := by
  cases xs with
  | nil => simp only [jppArr, pleavesArr, List.foldl_nil]
  | cons v rest =>
    simp only [jppArr, pleavesArr]
    rw [member_step (aheadsFor (.idx i) as) l v (jppVal_leaves _ l v)]
    by_cases h : (pleavesVal v).2 = true
    · simp only [h, if_true]
      rw [jppArr_leaves as (i + 1) _ rest]
      simp only [List.foldl_append, foldl_setMatching_map]
    · simp only [h, Bool.false_eq_true, if_false, foldl_setMatching_map]
end

/-- **`| json` with parameters, general case** -/
theorem jsonParams_meets (ps : List Ahead) (doc : JVal) (l : Labels) : jsonParams ps doc l = jsonPathLabels ps doc l := by
  simp only [jsonParams, jsonPathLabels, jppVal_leaves]

/-! ### parameters with pairwise different names on a document read to the end: the reading by lookup -/
theorem bytes_lt_total (a b : Bytes) (h : a ≠ b) (h2 : ¬ a < b) : b < a :=
  Std.lt_of_le_of_ne h2 (Ne.symm h)

/-- assignments to different keys of the label map commute (on any list, sorted or not) -/
theorem set_comm (l : Labels) (a b x y : Bytes) (hab : a ≠ b) : (l.set a x).set b y = (l.set b y).set a x := by
  have hba : ¬ b = a := fun e => hab e.symm
  induction l with
  | nil =>
    by_cases h : b < a
    · have : ¬ a < b := List.lt_asymm h
      simp [Labels.set, hab, hba, h, this]
    · have : a < b := bytes_lt_total b a hba h
      simp [Labels.set, hab, hba, h, this]
  | cons p rest ih =>
    obtain ⟨k, v⟩ := p
    by_cases hka : k = a
    · subst hka
      by_cases h : b < k
      · have : ¬ k < b := List.lt_asymm h
        simp [Labels.set, hab, hba, h, this]
      · simp [Labels.set, hab, h]
    · by_cases hkb : k = b
      · subst hkb
        by_cases h : a < k
        · have : ¬ k < a := List.lt_asymm h
          simp [Labels.set, hab, hba, h, this]
        · simp [Labels.set, hba, h, hka]
      · by_cases h1 : a < k <;> by_cases h2 : b < k
        · by_cases h : b < a
          · have : ¬ a < b := List.lt_asymm h
            simp [Labels.set, hab, hba, h, this, hka, hkb, h1, h2]
          · have : a < b := bytes_lt_total b a hba h
            simp [Labels.set, hab, hba, h, this, hka, hkb, h1, h2]
        · have : ¬ b < a := fun h => h2 (List.lt_trans h h1)
          simp [Labels.set, hab, this, hka, hkb, h1, h2]
        · have : ¬ a < b := fun h => h1 (List.lt_trans h h2)
          simp [Labels.set, hba, this, hka, hkb, h1, h2]
        · simp [Labels.set, hka, hkb, h1, h2, ih]

theorem setMatching_set_comm (ps : List Ahead) (n x : Bytes) (hn : n ∉ ps.map (·.1)) (acc : Labels)
    (pv : List PathSeg × Bytes) : setMatching ps (acc.set n x) pv = (setMatching ps acc pv).set n x := by
  induction ps generalizing acc with
  | nil => rfl
  | cons a rest ih =>
    have hna : n ≠ a.1 := fun e => hn (by simp [e])
    have hrest : n ∉ rest.map (·.1) := fun h => hn (by simp only [List.map_cons, List.mem_cons]; exact Or.inr h)
    simp only [setMatching, List.foldl_cons] at ih ⊢
    by_cases h : a.2 = pv.1
    · simp only [h, if_true]
      rw [set_comm acc n a.1 x pv.2 hna]
      exact ih hrest _
    · simp only [h, if_false]
      exact ih hrest _

theorem setMatching_single (a : Ahead) (acc : Labels) (pv : List PathSeg × Bytes) :
    setMatching [a] acc pv = if a.2 = pv.1 then acc.set a.1 pv.2 else acc := rfl

/-- the steps of one parameter commute with the steps of the others when its name is not among theirs -/
theorem setMatching_comm (a : Ahead) (ps : List Ahead) (hn : a.1 ∉ ps.map (·.1)) (acc : Labels)
    (pv pv' : List PathSeg × Bytes) :
    setMatching ps (setMatching [a] acc pv) pv' = setMatching [a] (setMatching ps acc pv') pv := by
  simp only [setMatching_single]
  by_cases h : a.2 = pv.1
  · simp only [h, if_true]; exact setMatching_set_comm ps a.1 pv.2 hn acc pv'
  · simp only [h, if_false]

theorem foldl_push {α β : Type} (F G : α → β → α) (hcomm : ∀ acc x y, G (F acc x) y = F (G acc y) x)
    (lv : List β) (z : α) (y : β) : lv.foldl F (G z y) = G (lv.foldl F z) y := by
  induction lv generalizing z with
  | nil => rfl
  | cons x xs ih => simp only [List.foldl_cons, ← hcomm, ih]

theorem foldl_interchange {α β : Type} (F G : α → β → α) (hcomm : ∀ acc x y, G (F acc x) y = F (G acc y) x)
    (lv : List β) (l : α) : lv.foldl (fun acc x => G (F acc x) x) l = lv.foldl G (lv.foldl F l) := by
  induction lv generalizing l with
  | nil => rfl
  | cons x xs ih =>
    simp only [List.foldl_cons]
    rw [ih, foldl_push F G hcomm]

/-- parameters with pairwise different names: the document-order definition decomposes into one pass per parameter -/
theorem jsonPathLabels_distinct (ps : List Ahead) (hd : (ps.map (·.1)).Nodup) (lv : List (List PathSeg × Bytes)) (l : Labels) :
    lv.foldl (setMatching ps) l = ps.foldl (fun acc a => lv.foldl (setMatching [a]) acc) l := by
  induction ps generalizing l with
  | nil => simp only [List.foldl_nil, foldl_setMatching_nil]
  | cons a rest ih =>
    have hn : a.1 ∉ rest.map (·.1) := (List.nodup_cons.mp hd).1
    have hsplit : setMatching (a :: rest) = fun acc pv => setMatching rest (setMatching [a] acc pv) pv := by
      funext acc pv; rfl
    rw [hsplit, foldl_interchange (setMatching [a]) (setMatching rest) (fun acc x y => setMatching_comm a rest hn acc x y)]
    simp only [List.foldl_cons]
    exact ih (List.nodup_cons.mp hd).2 _

/-- **no two parameters share a name, the document is read to the end**: the general definition is the reading by
    lookup, parameter by parameter — each label is the scalar its path leads to, independent of the order of the
    parameters and of the order of the members in the document -/
theorem jsonParams_distinct_lookup (ps : List Ahead) (hd : (ps.map (·.1)).Nodup) (doc : JVal) (hb : hasBad doc = false)
    (l : Labels) : jsonPathLabels ps doc l = jsonParamLabels ps doc l := by
  simp only [jsonPathLabels, jsonPathLabels_distinct ps hd, jsonParamLabels]
  congr 1
  funext acc a
  have h1 := jsonParams_meets [a] doc acc
  have h2 := jsonParams_single a.1 a.2 doc acc hb
  simp only [jsonPathLabels] at h1
  rw [← h1, h2]
  simp only [jsonParamLabels, List.foldl_cons, List.foldl_nil]

variable {V : Type}

theorem parseLabels_meets (E : Env V) (k : ParserKind) (msg : Bytes) (l : Labels) :
    parseLabels E k msg l = parserLabels E k msg l := by
  cases k with
  | json => exact json_meets _ _
  | jsonParams ps => exact jsonParams_meets ps _ _
  | logfmt => rfl
  | logfmtParams ps => exact logfmtParams_meets _ _ _

/-- every parser stage of the in-process engine is its LogQL definition, on every line -/
theorem parser_meets_all (E : Env V) (k : ParserKind) (es : List (Entry V)) (hp : ∀ e ∈ es, e.err = none) :
    stageFlat E (.parser k) es = parserStage E k es := by
  simp only [stageFlat, parserStage]
  apply List.map_congr_left
  intro e he
  simp only [parserFn, hp e he, Option.isSome_none, Bool.false_eq_true, if_false, relabel, parseLabels_meets]

end Qryn.Read
