import Qryn.Proofs.ProfC16
/-! `BFS` is complete on tree-shaped inputs: when node ids are unique and every node hangs (through its parent
    id) on a chain down to the root — what the merged tree of collision-free profiles is — the `reviewed` exit
    is never taken, level i is exactly the i-th generation of children of the root, and every node is laid out. -/
namespace Qryn.Prof

/-- the ideal level structure: generation i of the root's descendants, in `BFS` order -/
def levelRows (T : List Row) : Nat → List Row
  | 0 => [(rootBar T).1]
  | i + 1 => (levelRows T i).flatMap (fun p => children T p.node)

/-- `dep` assigns every node its depth: unique non-zero node ids, roots' children at depth 1, every other node
    one below the node its parent id names -/
structure TreeShaped (T : List Row) (dep : Nat → Nat) : Prop where
  nodup : (T.map (·.node)).Nodup
  nonzero : ∀ e ∈ T, e.node ≠ 0
  root : ∀ e ∈ T, e.parent = 0 → dep e.node = 1
  up : ∀ e ∈ T, e.parent ≠ 0 → ∃ e' ∈ T, e'.node = e.parent ∧ dep e'.node + 1 = dep e.node

section
variable {T : List Row} {dep : Nat → Nat}

theorem children_sub (T : List Row) (n : Nat) : ∀ c ∈ children T n, c ∈ T ∧ c.parent = n := by
  intro c hc
  have := List.mem_filter.mp hc
  exact ⟨this.1, by simpa using this.2⟩

theorem TreeShaped.eq_of_node (h : TreeShaped T dep) {a b : Row} (ha : a ∈ T) (hb : b ∈ T) (e : a.node = b.node) :
    a = b := by
  have hp : T.Pairwise (fun x y => x.node ≠ y.node) := List.pairwise_map.mp h.nodup
  by_cases hab : a = b
  · exact hab
  · exfalso
    rcases List.mem_iff_append.mp ha with ⟨s, t, rfl⟩
    rcases List.mem_append.mp hb with hb' | hb'
    · exact (List.pairwise_append.mp hp).2.2 b hb' a (by simp) e.symm
    · rcases List.mem_cons.mp hb' with rfl | hb''
      · exact hab rfl
      · exact (List.rel_of_pairwise_cons (List.pairwise_append.mp hp).2.1 hb'') e

theorem TreeShaped.dep_pos (h : TreeShaped T dep) (e : Row) (he : e ∈ T) : 1 ≤ dep e.node := by
  by_cases hp : e.parent = 0
  · rw [h.root e he hp]; exact Nat.le_refl 1
  · obtain ⟨_, _, _, hd⟩ := h.up e he hp; omega

theorem levelRows_dep (h : TreeShaped T dep) : ∀ i, ∀ e ∈ levelRows T (i + 1), e ∈ T ∧ dep e.node = i + 1 := by
  intro i
  induction i with
  | zero =>
    intro e he
    simp only [levelRows, List.flatMap_cons, List.flatMap_nil, List.append_nil, rootBar] at he
    have := children_sub T 0 e he
    exact ⟨this.1, h.root e this.1 this.2⟩
  | succ i ih =>
    intro e he
    simp only [levelRows] at he ih
    obtain ⟨p, hp, hc⟩ := List.mem_flatMap.mp he
    have hpT := ih p hp
    have hcs := children_sub T p.node e hc
    obtain ⟨e', he', hn, hd⟩ := h.up e hcs.1 (by rw [hcs.2]; exact h.nonzero p hpT.1)
    have : e' = p := h.eq_of_node he' hpT.1 (hn.trans hcs.2)
    subst this
    exact ⟨hcs.1, by omega⟩

theorem levelRows_nodup (h : TreeShaped T dep) : ∀ i, (levelRows T i).Pairwise (fun a b => a.node ≠ b.node) := by
  intro i
  induction i with
  | zero => simp [levelRows]
  | succ i ih =>
    simp only [levelRows]
    rw [List.pairwise_flatMap]
    constructor
    · intro p _
      exact (List.pairwise_map.mp h.nodup).sublist List.filter_sublist
    · have hmem : ∀ p ∈ levelRows T i, True := fun _ _ => trivial
      refine ih.imp_of_mem ?_
      intro a b _ _ hab x hx y hy e
      have hxs := children_sub T a.node x hx
      have hys := children_sub T b.node y hy
      have : x = y := h.eq_of_node hxs.1 hys.1 e
      exact hab (by rw [← hxs.2, ← hys.2, this])

/-- every node sits in the generation its depth names -/
theorem mem_levelRows (h : TreeShaped T dep) : ∀ (d : Nat) (e : Row), e ∈ T → dep e.node = d + 1 → e ∈ levelRows T (d + 1) := by
  intro d
  induction d with
  | zero =>
    intro e he hd
    have hp : e.parent = 0 := by
      by_cases hp : e.parent = 0
      · exact hp
      · obtain ⟨e', he', _, hd'⟩ := h.up e he hp
        have := h.dep_pos e' he'
        omega
    simp only [levelRows, List.flatMap_cons, List.flatMap_nil, List.append_nil, rootBar]
    exact List.mem_filter.mpr ⟨he, by simpa using hp⟩
  | succ d ih =>
    intro e he hd
    have hp : e.parent ≠ 0 := by
      intro hp; have := h.root e he hp; omega
    obtain ⟨e', he', hn, hd'⟩ := h.up e he hp
    have := ih e' he' (by omega)
    simp only [levelRows]
    exact List.mem_flatMap.mpr ⟨e', this, List.mem_filter.mpr ⟨he, by simpa using hn.symm⟩⟩

theorem levelRows_empty_succ (T : List Row) (i : Nat) (h : levelRows T i = []) : levelRows T (i + 1) = [] := by
  simp [levelRows, h]

theorem levelRows_ne_nil_of_le (T : List Row) {i j : Nat} (hij : j ≤ i) (h : levelRows T i ≠ []) : levelRows T j ≠ [] := by
  induction hij with
  | refl => exact h
  | step _ ih => exact ih (fun e => h (levelRows_empty_succ T _ e))

/-! ### the real loop follows the generations -/

theorem emitChildren_ok : ∀ (cs : List Row) (rv : List Nat) (pre : Int),
    (cs.Pairwise (fun a b => a.node ≠ b.node)) → (∀ c ∈ cs, c.node ∉ rv) →
    ∃ out rv' pre', emitChildren rv pre cs = some (out, rv', pre') ∧ out.map (·.1) = cs
      ∧ (∀ n ∈ rv', n ∈ rv ∨ n ∈ cs.map (·.node)) := by
  intro cs
  induction cs with
  | nil => intro rv pre _ _; exact ⟨[], rv, pre, rfl, rfl, fun n hn => Or.inl hn⟩
  | cons c cs ih =>
    intro rv pre hnd hrv
    have hc := List.pairwise_cons.mp hnd
    have hnot : rv.contains c.node = false := by
      simpa using hrv c (by simp)
    obtain ⟨out, rv', pre', he, ho, hr⟩ := ih (c.node :: rv) 0 hc.2 (by
      intro c' hc' hmem
      rcases List.mem_cons.mp hmem with e | hmem
      · exact hc.1 c' hc' e.symm
      · exact hrv c' (by simp [hc']) hmem)
    refine ⟨(c, pre) :: out, rv', pre', ?_, by simp [ho], ?_⟩
    · simp only [emitChildren, hnot, Bool.false_eq_true, if_false, he]
    · intro n hn
      rcases hr n hn with h1 | h1
      · rcases List.mem_cons.mp h1 with rfl | h1
        · exact Or.inr (by simp)
        · exact Or.inl h1
      · exact Or.inr (by simp only [List.map_cons, List.mem_cons]; exact Or.inr h1)

theorem bfsLevel_ok (T : List Row) : ∀ (cur : List (Row × Int)) (pre : Int) (rv : List Nat),
    ((cur.flatMap (fun b => children T b.1.node)).Pairwise (fun a b => a.node ≠ b.node)) →
    (∀ c ∈ cur.flatMap (fun b => children T b.1.node), c.node ∉ rv) →
    ∃ next rv', bfsLevel T cur pre rv = some (next, rv')
      ∧ next.map (·.1) = cur.flatMap (fun b => children T b.1.node)
      ∧ (∀ n ∈ rv', n ∈ rv ∨ n ∈ (cur.flatMap (fun b => children T b.1.node)).map (·.node)) := by
  intro cur
  induction cur with
  | nil => intro pre rv _ _; exact ⟨[], rv, rfl, rfl, fun n hn => Or.inl hn⟩
  | cons b rest ih =>
    obtain ⟨p, d⟩ := b
    intro pre rv hnd hrv
    simp only [List.flatMap_cons] at hnd hrv ⊢
    have hap := List.pairwise_append.mp hnd
    cases hch : children T p.node with
    | nil =>
      simp only [hch, List.nil_append] at hnd hrv ⊢
      obtain ⟨next, rv', h1, h2, h3⟩ := ih (pre + d + p.total) rv hnd hrv
      exact ⟨next, rv', by simp only [bfsLevel, hch, h1], h2, h3⟩
    | cons c cs =>
      rw [hch] at hap hrv
      obtain ⟨out, rv1, pre1, he, ho, hr⟩ := emitChildren_ok (c :: cs) rv (pre + d) hap.1
        (fun x hx => hrv x (List.mem_append.mpr (Or.inl hx)))
      obtain ⟨out2, rv2, h1, h2, h3⟩ := ih (pre1 + p.self) rv1 hap.2.1 (by
        intro x hx hmem
        rcases hr x.node hmem with h4 | h4
        · exact hrv x (List.mem_append.mpr (Or.inr hx)) h4
        · obtain ⟨y, hy, hyx⟩ := List.mem_map.mp h4
          exact hap.2.2 y hy x hx hyx)
      refine ⟨out ++ out2, rv2, ?_, by simp [ho, h2], ?_⟩
      · simp only [bfsLevel, hch, he, h1]
      · intro n hn
        rcases h3 n hn with h4 | h4
        · rcases hr n h4 with h5 | h5
          · exact Or.inl h5
          · exact Or.inr (by simp only [List.map_append, List.mem_append]; exact Or.inl h5)
        · exact Or.inr (by simp only [List.map_append, List.mem_append]; exact Or.inr h4)

theorem bfsLoop_levels (h : TreeShaped T dep) : ∀ (m fuel : Nat) (cur : List (Row × Int)) (rv : List Nat) (i : Nat),
    m + 1 ≤ fuel → cur.map (·.1) = levelRows T i →
    (∀ n ∈ rv, ∃ j, 1 ≤ j ∧ j ≤ i ∧ n ∈ (levelRows T j).map (·.node)) →
    (∀ j, i ≤ j → j < i + m → levelRows T j ≠ []) →
    ((cur :: bfsLoop T fuel cur rv)[m]?).map (fun L => L.map (·.1)) = some (levelRows T (i + m)) := by
  intro m
  induction m with
  | zero => intro fuel cur rv i _ hc _ _; simp [hc]
  | succ m ih =>
    intro fuel cur rv i hf hc hrv hne
    obtain ⟨f, rfl⟩ : ∃ f, fuel = f + 1 := ⟨fuel - 1, by omega⟩
    have hcur : cur.isEmpty = false := by
      have := hne i (Nat.le_refl _) (by omega)
      rw [← hc] at this
      cases cur with
      | nil => simp at this
      | cons _ _ => rfl
    have hkids : cur.flatMap (fun b => children T b.1.node) = levelRows T (i + 1) := by
      simp only [levelRows, ← hc, List.flatMap_map]
    obtain ⟨next, rv', h1, h2, h3⟩ := bfsLevel_ok T cur 0 rv
      (by rw [hkids]; exact levelRows_nodup h (i + 1))
      (by
        rw [hkids]
        intro c hc' hmem
        obtain ⟨j, hj1, hj2, hjn⟩ := hrv c.node hmem
        obtain ⟨x, hx, hxn⟩ := List.mem_map.mp hjn
        obtain ⟨j', rfl⟩ : ∃ j', j = j' + 1 := ⟨j - 1, by omega⟩
        have d1 := (levelRows_dep h j' x hx).2
        have d2 := (levelRows_dep h i c hc').2
        rw [hxn] at d1; omega)
    simp only [bfsLoop, hcur, Bool.false_eq_true, if_false, h1, List.getElem?_cons_succ]
    have := ih f next rv' (i + 1) (by omega) (by rw [h2, hkids])
      (by
        intro n hn
        rcases h3 n hn with h4 | h4
        · obtain ⟨j, hj1, hj2, hjn⟩ := hrv n h4
          exact ⟨j, hj1, by omega, hjn⟩
        · exact ⟨i + 1, by omega, Nat.le_refl _, by rw [← hkids]; exact h4⟩)
      (fun j hj1 hj2 => hne j (by omega) (by omega))
    rw [this]; congr 2; omega

/-- **levels are generations**: as long as the earlier generations are non-empty, level i of `BFS` consists of
    exactly the i-th generation (the `reviewed` exit is not taken) -/
theorem bfs_levels (h : TreeShaped T dep) (i : Nat) (hne : ∀ j, j < i → levelRows T j ≠ []) :
    ((bfs T)[i]?).map (fun L => L.map (·.1)) = some (levelRows T i) := by
  have hf := bfsLoop_fuel T i
  have := bfsLoop_levels h i (T.length + 2 + i) [rootBar T] [] 0 (by omega) rfl (by simp)
    (fun j _ hj => hne j (by omega))
  simp only [Nat.zero_add] at this
  unfold bfs
  rw [← hf]; exact this

/-- **BFS is complete**: every node of a tree-shaped tree is laid out, in the level its depth names -/
theorem bfs_complete (h : TreeShaped T dep) (e : Row) (he : e ∈ T) :
    ∃ L, (bfs T)[dep e.node]? = some L ∧ e ∈ L.map (·.1) := by
  have hd : 1 ≤ dep e.node := h.dep_pos e he
  obtain ⟨d, hd'⟩ : ∃ d, dep e.node = d + 1 := ⟨dep e.node - 1, by omega⟩
  have hmem := mem_levelRows h d e he hd'
  have hne : levelRows T (d + 1) ≠ [] := fun e' => by rw [e'] at hmem; simp at hmem
  have := bfs_levels h (d + 1) (fun j hj => levelRows_ne_nil_of_le T (by omega) hne)
  rw [hd']
  cases hL : (bfs T)[d + 1]? with
  | none => rw [hL] at this; simp at this
  | some L =>
    rw [hL] at this
    simp only [Option.map_some, Option.some.injEq] at this
    exact ⟨L, rfl, this ▸ hmem⟩

end

/-! ### the merged tree of collision-free profiles is tree-shaped -/

theorem walk_pred (nid : Nat → Nat → Nat → Nat) (vals : List Int) :
    ∀ (fr : List Nat) (p0 d0 : Nat), ∀ v ∈ walk nid vals p0 d0 fr,
      (v.parent = p0 ∧ v.depth = d0) ∨ ∃ u ∈ walk nid vals p0 d0 fr, u.node = v.parent ∧ u.depth + 1 = v.depth := by
  intro fr
  induction fr with
  | nil => intro _ _ v hv; simp [walk] at hv
  | cons f rest ih =>
    intro p0 d0 v hv
    simp only [walk, List.mem_cons] at hv
    rcases hv with rfl | hv
    · exact Or.inl ⟨rfl, rfl⟩
    · right
      rcases ih _ _ v hv with ⟨h1, h2⟩ | ⟨u, hu, h1, h2⟩
      · exact ⟨⟨p0, f, nid p0 f d0, d0, rest.isEmpty, vals⟩, by simp [walk], h1.symm, by simp [h2]⟩
      · exact ⟨u, by simp only [walk, List.mem_cons]; exact Or.inr hu, h1, h2⟩

section
variable {nid : Nat → Nat → Nat → Nat} {k : Bool} {na : Nat}

/-- the depth the visits give a node id (0 for ids never visited) -/
def depOf (V : List Visit) (n : Nat) : Nat :=
  match V.find? (fun v => decide (v.node = n)) with
  | some v => v.depth
  | none => 0

theorem depOf_eq {Ps : List Profile} (hc : NoCollision nid k na Ps) {v : Visit} (hv : v ∈ allVisits nid k na Ps) :
    depOf (allVisits nid k na Ps) v.node = v.depth := by
  unfold depOf
  cases hf : (allVisits nid k na Ps).find? (fun w => decide (w.node = v.node)) with
  | none =>
    have := List.find?_eq_none.mp hf v hv
    simp at this
  | some w =>
    have hw := List.mem_of_find?_eq_some hf
    have hwn : w.node = v.node := by simpa using List.find?_some hf
    exact (hc.same_node hw hv hwn).2.2

theorem allVisits_pred (hnr : NeverRoot nid) (Ps : List Profile) : ∀ v ∈ allVisits nid k na Ps,
    (v.parent = 0 ∧ v.depth = 1) ∨ (v.parent ≠ 0 ∧ ∃ u ∈ allVisits nid k na Ps, u.node = v.parent ∧ u.depth + 1 = v.depth) := by
  intro v hv
  simp only [allVisits, List.mem_flatMap, visits, sampleVisits] at hv
  obtain ⟨P, hP, s, hs, hw⟩ := hv
  have hin : ∀ u ∈ walk nid s.vals 0 1 (frames k na s), u ∈ allVisits nid k na Ps := fun u hu => by
    simp only [allVisits, List.mem_flatMap, visits, sampleVisits]; exact ⟨P, hP, s, hs, hu⟩
  rcases walk_pred nid s.vals _ 0 1 v hw with h | ⟨u, hu, h1, h2⟩
  · exact Or.inl h
  · exact Or.inr ⟨by rw [← h1]; exact hnr.allVisits Ps u (hin u hu), u, hin u hu, h1, h2⟩

/-- every visit's node has an entry in the merged tree, with the visit's parent -/
theorem merged_has_visit {j : Nat} (Ps : List Profile) (hc : NoCollision nid k na Ps) :
    ∀ v ∈ allVisits nid k na Ps, ∃ e ∈ mergeTrie [] (inputRows (nid := nid) (k := k) (na := na) j Ps),
      e.node = v.node ∧ e.parent = v.parent := by
  intro v hv
  simp only [allVisits, List.mem_flatMap] at hv
  obtain ⟨P, hP, hvP⟩ := hv
  have hk : v.node ∈ (treeMap P.ntypes (visits nid k na P)).map (·.node) :=
    (treeMap_keys _ _ _).mpr (List.mem_map.mpr ⟨v, hvP, rfl⟩)
  obtain ⟨a, ha, han⟩ := List.mem_map.mp hk
  have har : typeRow j a ∈ inputRows (nid := nid) (k := k) (na := na) j Ps :=
    List.mem_flatMap.mpr ⟨P, hP, List.mem_map.mpr ⟨a, mem_storedRows.mpr ha, rfl⟩⟩
  obtain ⟨w, hw, h1, h2, _⟩ := inputRows_attr nid k na j Ps _ har
  have hpar : (typeRow j a).parent = v.parent := by
    rw [← h2]
    exact (hc.same_node hw (mem_allVisits_of_mem nid k na hP hvP) (by rw [h1]; exact han)).1
  have : rkey (typeRow j a) ∈ (mergeTrie [] (inputRows (nid := nid) (k := k) (na := na) j Ps)).map rkey :=
    (mergeTrie_keys _ _).mpr (List.mem_map.mpr ⟨_, har, rfl⟩)
  obtain ⟨e, he, hke⟩ := List.mem_map.mp this
  have hke' : e.parent = (typeRow j a).parent ∧ e.node = (typeRow j a).node := by simpa [rkey] using hke
  exact ⟨e, he, hke'.2.trans han, hke'.1.trans hpar⟩

theorem merged_treeShaped {j : Nat} (Ps : List Profile) (hc : NoCollision nid k na Ps) (hnr : NeverRoot nid) :
    TreeShaped (mergeTrie [] (inputRows (nid := nid) (k := k) (na := na) j Ps)) (depOf (allVisits nid k na Ps)) := by
  let R := inputRows (nid := nid) (k := k) (na := na) j Ps
  -- every entry has a visit of its node with its parent
  have hvis : ∀ e ∈ mergeTrie [] R, ∃ v ∈ allVisits nid k na Ps, v.node = e.node ∧ v.parent = e.parent := by
    intro e he
    have hk : rkey e ∈ R.map rkey := (mergeTrie_keys R _).mp (List.mem_map.mpr ⟨e, he, rfl⟩)
    obtain ⟨r, hr, hkr⟩ := List.mem_map.mp hk
    have hkr' : r.parent = e.parent ∧ r.node = e.node := by simpa [rkey] using hkr
    obtain ⟨v, hv, h1, h2, _⟩ := inputRows_attr nid k na j Ps r hr
    exact ⟨v, hv, h1.trans hkr'.2, h2.trans hkr'.1⟩
  refine ⟨?_, ?_, ?_, ?_⟩
  · -- node ids unique: keys (parent, node) are, and a node id has one parent
    have hp := List.pairwise_map.mp (mergeTrie_nodup R)
    apply List.pairwise_map.mpr
    refine hp.imp_of_mem ?_
    intro a b ha hb hne e
    obtain ⟨v, hv, h1, h2⟩ := hvis a ha
    obtain ⟨w, hw, g1, g2⟩ := hvis b hb
    have := (hc.same_node hv hw (by rw [h1, g1, e])).1
    exact hne (by simp only [rkey, Prod.mk.injEq]; exact ⟨by rw [← h2, ← g2, this], e⟩)
  · intro e he
    obtain ⟨v, hv, h1, _⟩ := hvis e he
    rw [← h1]; exact hnr.allVisits Ps v hv
  · intro e he hp
    obtain ⟨v, hv, h1, h2⟩ := hvis e he
    rw [← h1, depOf_eq hc hv]
    rcases allVisits_pred hnr Ps v hv with h | h
    · exact h.2
    · exact absurd (h2.trans hp) h.1
  · intro e he hp
    obtain ⟨v, hv, h1, h2⟩ := hvis e he
    rcases allVisits_pred hnr Ps v hv with h | ⟨_, u, hu, hu1, hu2⟩
    · exact absurd (h2.symm.trans h.1) hp
    · obtain ⟨e', he', hn', _⟩ := merged_has_visit (j := j) Ps hc u hu
      refine ⟨e', he', by rw [hn', hu1, h2], ?_⟩
      rw [hn', depOf_eq hc hu, ← h1, depOf_eq hc hv]; exact hu2

end
end Qryn.Prof

namespace Qryn.Prof
theorem TreeShaped.perm {T T' : List Row} {dep : Nat → Nat} (h : TreeShaped T dep) (hp : T.Perm T') : TreeShaped T' dep :=
  ⟨(hp.map _).nodup_iff.mp h.nodup,
   fun e he => h.nonzero e (hp.symm.subset he),
   fun e he => h.root e (hp.symm.subset he),
   fun e he hne => by
     obtain ⟨e', he', h1, h2⟩ := h.up e (hp.symm.subset he) hne
     exact ⟨e', hp.subset he', h1, h2⟩⟩
end Qryn.Prof
