import Qryn.TraceQL.Sem
import Qryn.Proofs.SemGAux
import Qryn.Gen.TraceQLOps
/-! C11 helper lemmas: rows of the attribute index as SQL rows, and the SQL text of one condition. -/
namespace Qryn.TraceQL
open Qryn Qryn.Sql

/-- the row the index scan sees: `FROM <table> as traces_idx` -/
def AttrRow.qrow (a : AttrRow) : Row := qualify "traces_idx" a.row

theorem qrow_nodot (a : AttrRow) (n : String) (hn : '.' ∉ n.toList) : a.qrow.get n = a.row.get n :=
  get_qualify_nodot "traces_idx" a.row n hn

theorem qrow_key (a : AttrRow) : a.qrow.get "key" = .str a.key := by rw [qrow_nodot a _ (by decide)]; rfl
theorem qrow_val (a : AttrRow) : a.qrow.get "val" = .str a.val := by rw [qrow_nodot a _ (by decide)]; rfl
theorem qrow_date (a : AttrRow) : a.qrow.get "date" = .str a.date := by rw [qrow_nodot a _ (by decide)]; rfl
theorem qrow_trace (a : AttrRow) : a.qrow.get "trace_id" = .str a.traceId := by rw [qrow_nodot a _ (by decide)]; rfl
theorem qrow_span (a : AttrRow) : a.qrow.get "span_id" = .str a.spanId := by rw [qrow_nodot a _ (by decide)]; rfl
theorem qrow_ts (a : AttrRow) : a.qrow.get "timestamp_ns" = .int a.ts := by rw [qrow_nodot a _ (by decide)]; rfl
theorem qrow_dur (a : AttrRow) : a.qrow.get "duration" = .int a.dur := by rw [qrow_nodot a _ (by decide)]; rfl
theorem qrow_qts (a : AttrRow) : a.qrow.get "traces_idx.timestamp_ns" = .int a.ts := by
  have := get_qualify_dot "traces_idx" a.row "timestamp_ns"
  simp only [AttrRow.qrow]
  rw [show "traces_idx.timestamp_ns" = "traces_idx" ++ "." ++ "timestamp_ns" from by decide, this]
  rfl
theorem qrow_qdur (a : AttrRow) : a.qrow.get "traces_idx.duration" = .int a.dur := by
  have := get_qualify_dot "traces_idx" a.row "duration"
  simp only [AttrRow.qrow]
  rw [show "traces_idx.duration" = "traces_idx" ++ "." ++ "duration" from by decide, this]
  rfl

end Qryn.TraceQL

namespace Qryn.Sql
@[simp] theorem truthy_boolVal (x : Bool) : (boolVal x).truthy = x := by
  cases x <;> simp [boolVal, Val.truthy]

theorem val_str_beq (x y : Bytes) : ((Val.str x) == (Val.str y)) = (x == y) := by
  rw [Bool.eq_iff_iff]; simp

theorem val_str_bne (x y : Bytes) : ((Val.str x) != (Val.str y)) = (x != y) := by
  simp [bne, val_str_beq]
end Qryn.Sql

namespace Qryn.TraceQL
open Qryn Qryn.Sql

theorem evalB_keyIs (o : Oracles) (env : Env) (a : AttrRow) (k : String) :
    evalB o env a.qrow (keyIs k) = (a.key == k.toUTF8.toList) := by
  simp [evalB, keyIs, eq, evalE, cmpOp, qrow_key, val_str_beq]

end Qryn.TraceQL
