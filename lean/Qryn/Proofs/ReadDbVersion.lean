import Qryn.ReadSide.DbVersion
import Qryn.Proofs.ReadPipe
/-! Lemmas for `ReadSide/DbVersion.lean`: the measure decreases, the invariant is kept, a state with a lookup that has
    not returned has a move. -/
namespace Qryn.ReadSide.DbVersion
open Qryn.ReadSide Qryn.ReadSide.Pipe

theorem sumTo_setPc (n : Nat) (f : Nat → Lookup) (i : Nat) (p : PC) (hi : i < n) :
    sumTo n (fun j => (setPc f i p j).pc.weight) + (f i).pc.weight = sumTo n (fun j => (f j).pc.weight) + p.weight := by
  induction n with
  | zero => omega
  | succ n ih =>
    simp only [sumTo]
    by_cases h : i = n
    · subst h
      have : sumTo i (fun j => (setPc f i p j).pc.weight) = sumTo i (fun j => (f j).pc.weight) :=
        sumTo_congr _ _ _ (fun j hj => by
          have : j ≠ i := by omega
          simp [setPc, this])
      rw [this]; simp [setPc]; omega
    · have := ih (by omega)
      have hn : (setPc f i p n).pc.weight = (f n).pc.weight := by
        have : n ≠ i := by omega
        simp [setPc, this]
      rw [hn]; omega

theorem afterQuery_weight_lt (c : Code) (o : Out) (next : PC) (w : Nat) (hn : next.weight < w) (h4 : 4 < w) :
    (afterQuery c o next).weight < w := by
  cases o <;> simp [afterQuery, afterErr] <;> try assumption
  all_goals (cases c.share <;> simp [PC.weight] <;> omega)

/-- every move uses up some of the measure: no schedule goes on for ever -/
theorem step_measure (c : Code) (S S' : Sys) (h : Step c S S') : S'.measure < S.measure := by
  cases h with
  | hit i hi hp hc =>
    have := sumTo_setPc S.n S.lk i (.returned .value true) hi
    simp only [Sys.measure]; rw [hp] at this; simp [PC.weight] at this ⊢; omega
  | join i ld hi hp hc hs hf =>
    have := sumTo_setPc S.n S.lk i (.waiting ld) hi
    simp only [Sys.measure]; rw [hp] at this; simp [PC.weight] at this ⊢; omega
  | lead i hi hp hc hf =>
    have := sumTo_setPc S.n S.lk i .settings hi
    simp only [Sys.measure]; rw [hp] at this; simp [PC.weight] at this ⊢; omega
  | settings i o hi hp =>
    have := sumTo_setPc S.n S.lk i (afterQuery c o .tables) hi
    have hw := afterQuery_weight_lt c o .tables 6 (by simp [PC.weight]) (by omega)
    have h6 : (S.lk i).pc.weight = 6 := by rw [hp]; rfl
    simp only [Sys.measure]; omega
  | tables i o hi hp =>
    have := sumTo_setPc S.n S.lk i (afterQuery c o (.finishing .value)) hi
    have hw := afterQuery_weight_lt c o (.finishing .value) 5 (by simp [PC.weight]) (by omega)
    have h6 : (S.lk i).pc.weight = 5 := by rw [hp]; rfl
    simp only [Sys.measure]; omega
  | finish i r hi hp =>
    have := sumTo_setPc S.n S.lk i
      (.returned r (!c.share || r == .value || c.signalOnError)) hi
    rw [hp] at this
    simp only [Sys.measure, DbVersion.finish]
    simp [PC.weight] at this ⊢
    split <;> omega
  | wake j ld r hj hp hl =>
    have := sumTo_setPc S.n S.lk j (.returned r true) hj
    simp only [Sys.measure]; rw [hp] at this; simp [PC.weight] at this ⊢; omega
  | sleeperWakes h => simp only [Sys.measure]; omega
  | reset h => simp only [Sys.measure]; omega

theorem initial_inv (c : Code) (S : Sys) (h : Initial S) : Inv c S where
  waiter := fun j ld _ hp => by rw [h.1 j] at hp; cases hp
  leader := fun d ld hf => by rw [h.2 d] at hf; cases hf
  noShare := fun _ d => h.2 d

/-- a code that wakes its waiters on every path: whatever a lookup `i` that is on its way becomes, it is still on its way
    or has returned with `done` closed -/
theorem afterQuery_ok (c : Code) (o : Out) (next : PC)
    (hn : next.inFlight = true) :
    (afterQuery c o next).inFlight = true ∨ ∃ r, afterQuery c o next = .returned r true := by
  cases o <;> simp [afterQuery, afterErr, hn]
  all_goals (cases hs : c.share <;> simp [PC.inFlight])

/-- generic preservation: lookup `i`, which was NOT awaited-incompatible (it was at `start`/`waiting`, or on its way),
    gets a new pc that is on its way or `returned _ true`; `inflight` changes only at keys whose new value is described -/
theorem inv_setPc (c : Code) (S : Sys) (hI : Inv c S) (i : Nat) (hi : i < S.n) (p : PC)
    (infl : Nat → Option Nat)
    (hp : p.inFlight = true ∨ (∃ r, p = .returned r true) ∨
          ((S.lk i).pc.inFlight = false ∧ (S.lk i).pc.isReturned = false ∧ (∀ ld, p = .waiting ld →
              ld < S.n ∧ ld ≠ i ∧ ((S.lk ld).pc.inFlight = true ∨ ∃ r, (S.lk ld).pc = .returned r true))))
    (hinfl : ∀ d ld, infl d = some ld →
        (S.inflight d = some ld ∧ (ld ≠ i ∨ p.inFlight = true)) ∨ (ld = i ∧ (S.lk i).db = d ∧ p.inFlight = true))
    (hns : c.share = false → ∀ d, infl d = none) :
    Inv c { S with lk := setPc S.lk i p, inflight := infl } where
  waiter := by
    intro j ld hj hw
    simp only [setPc] at hw ⊢
    by_cases hji : j = i
    · subst hji
      simp at hw
      rcases hp with h | ⟨r, h⟩ | ⟨_, _, h⟩
      · rw [hw] at h; simp [PC.inFlight] at h
      · rw [hw] at h; cases h
      · obtain ⟨h1, h2, h3⟩ := h ld hw
        refine ⟨h1, ?_⟩
        simp [h2]; exact h3
    · simp [hji] at hw
      obtain ⟨h1, h2⟩ := hI.waiter j ld hj hw
      refine ⟨h1, ?_⟩
      by_cases hl : ld = i
      · subst hl
        simp
        rcases hp with h | h | ⟨h3, h4, _⟩
        · exact Or.inl h
        · exact Or.inr h
        · rcases h2 with h2 | ⟨r, h2⟩
          · rw [h2] at h3; cases h3
          · rw [h2] at h4; simp [PC.isReturned] at h4
      · simp [hl]; exact h2
  leader := by
    intro d ld hf
    simp only [setPc]
    rcases hinfl d ld hf with ⟨h1, h2⟩ | ⟨h1, h2, h3⟩
    · obtain ⟨a, b, c'⟩ := hI.leader d ld h1
      refine ⟨a, ?_, ?_⟩
      · by_cases hl : ld = i <;> simp [hl] <;> (try subst hl) <;> exact b
      · by_cases hl : ld = i
        · subst hl; simp; rcases h2 with h2 | h2
          · exact absurd rfl h2
          · exact h2
        · simp [hl]; exact c'
    · subst h1; exact ⟨hi, by simp [h2], by simp [h3]⟩
  noShare := hns

theorem afterQuery_share (c : Code) (hs : c.share = true) (o : Out) (next : PC) (hn : next.inFlight = true) :
    (afterQuery c o next).inFlight = true := by
  cases o
  · simpa [afterQuery] using hn
  · simp [afterQuery, afterErr, hs, PC.inFlight]
  · simp [afterQuery, afterErr, hs, PC.inFlight]

theorem step_inv (c : Code) (hc : c.share = false ∨ c.signalOnError = true) (S S' : Sys) (hI : Inv c S)
    (h : Step c S S') : Inv c S' := by
  have notLeader : ∀ i, (S.lk i).pc.inFlight = false → ∀ d ld, S.inflight d = some ld → ld ≠ i := by
    intro i hnf d ld hf hli
    have := (hI.leader d ld hf).2.2
    rw [hli, hnf] at this; cases this
  cases h with
  | hit i hi hp hc' =>
    have hnf : (S.lk i).pc.inFlight = false := by rw [hp]; rfl
    exact inv_setPc c S hI i hi _ S.inflight (Or.inr (Or.inl ⟨_, rfl⟩))
      (fun d ld hf => Or.inl ⟨hf, Or.inl (notLeader i hnf d ld hf)⟩) hI.noShare
  | join i ld hi hp hc' hs hf =>
    have hnf : (S.lk i).pc.inFlight = false := by rw [hp]; rfl
    have hl := hI.leader _ ld hf
    refine inv_setPc c S hI i hi _ S.inflight (Or.inr (Or.inr ⟨hnf, by rw [hp]; rfl, ?_⟩))
      (fun d ld hf => Or.inl ⟨hf, Or.inl (notLeader i hnf d ld hf)⟩) hI.noShare
    intro ld' he
    cases he
    exact ⟨hl.1, notLeader i hnf _ ld hf, Or.inl hl.2.2⟩
  | lead i hi hp hc' hf =>
    have hnf : (S.lk i).pc.inFlight = false := by rw [hp]; rfl
    refine inv_setPc c S hI i hi .settings _ (Or.inl rfl) ?_ ?_
    · intro d ld hfl
      cases hs : c.share
      · simp [hs] at hfl
        exact Or.inl ⟨hfl, Or.inr rfl⟩
      · simp [hs, setKey] at hfl
        by_cases hd : d = (S.lk i).db
        · simp [hd] at hfl
          exact Or.inr ⟨hfl.symm, hd.symm, rfl⟩
        · simp [hd] at hfl
          exact Or.inl ⟨hfl, Or.inr rfl⟩
    · intro hs d
      simp [hs]; exact hI.noShare hs d
  | settings i o hi hp =>
    refine inv_setPc c S hI i hi _ S.inflight ?_ ?_ hI.noShare
    · rcases afterQuery_ok c o .tables rfl with h | h
      · exact Or.inl h
      · exact Or.inr (Or.inl h)
    · intro d ld hf
      cases hs : c.share
      · rw [hI.noShare hs d] at hf; cases hf
      · exact Or.inl ⟨hf, Or.inr (afterQuery_share c hs o _ rfl)⟩
  | tables i o hi hp =>
    refine inv_setPc c S hI i hi _ S.inflight ?_ ?_ hI.noShare
    · rcases afterQuery_ok c o (.finishing .value) rfl with h | h
      · exact Or.inl h
      · exact Or.inr (Or.inl h)
    · intro d ld hf
      cases hs : c.share
      · rw [hI.noShare hs d] at hf; cases hf
      · exact Or.inl ⟨hf, Or.inr (afterQuery_share c hs o _ rfl)⟩
  | finish i r hi hp =>
    have hsig : (!c.share || r == .value || c.signalOnError) = true := by
      rcases hc with h | h <;> simp [h]
    have := inv_setPc c S hI i hi (.returned r (!c.share || r == .value || c.signalOnError))
      (if c.share then setKey S.inflight (S.lk i).db none else S.inflight)
      (Or.inr (Or.inl ⟨r, by rw [hsig]⟩))
      (by
        intro d ld hf
        cases hs : c.share
        · simp [hs] at hf
          rw [hI.noShare hs d] at hf; cases hf
        · simp [hs, setKey] at hf
          by_cases hd : d = (S.lk i).db
          · simp [hd] at hf
          · simp [hd] at hf
            refine Or.inl ⟨hf, Or.inl ?_⟩
            intro hli
            have := (hI.leader d ld hf).2.1
            rw [hli] at this
            exact hd this.symm)
      (by
        intro hs d
        simp [hs]; exact hI.noShare hs d)
    exact ⟨this.waiter, this.leader, this.noShare⟩
  | wake j ld r hj hp hl =>
    have hnf : (S.lk j).pc.inFlight = false := by rw [hp]; rfl
    exact inv_setPc c S hI j hj _ S.inflight (Or.inr (Or.inl ⟨_, rfl⟩))
      (fun d ld hf => Or.inl ⟨hf, Or.inl (notLeader j hnf d ld hf)⟩) hI.noShare
  | sleeperWakes h => exact ⟨hI.waiter, hI.leader, hI.noShare⟩
  | reset h => exact ⟨hI.waiter, hI.leader, hI.noShare⟩

theorem run_inv (c : Code) (hc : c.share = false ∨ c.signalOnError = true) {S S' : Sys} (hr : Run c S S')
    (hI : Inv c S) : Inv c S' := by
  induction hr with
  | refl => exact hI
  | step hs _ ih => exact ih (step_inv c hc _ _ hI hs)

/-- a lookup that is on its way has a move of its own, whatever the database answers -/
theorem inFlight_moves (c : Code) (S : Sys) (i : Nat) (hi : i < S.n) (h : (S.lk i).pc.inFlight = true) :
    ∃ S', Step c S S' := by
  cases hp : (S.lk i).pc with
  | settings => exact ⟨_, Step.settings S i .ok hi hp⟩
  | tables => exact ⟨_, Step.tables S i .ok hi hp⟩
  | finishing r => exact ⟨_, Step.finish S i r hi hp⟩
  | start => rw [hp] at h; cases h
  | waiting ld => rw [hp] at h; cases h
  | returned r s => rw [hp] at h; cases h

/-- a state in which some lookup has not returned is not stuck -/
theorem progress (c : Code) (S : Sys) (hI : Inv c S) (i : Nat) (hi : i < S.n)
    (hnr : (S.lk i).pc.isReturned = false) : ∃ S', Step c S S' := by
  cases hp : (S.lk i).pc with
  | start =>
    cases hc : S.cache (S.lk i).db
    · cases hs : c.share
      · exact ⟨_, Step.lead S i hi hp hc (fun h => by rw [hs] at h; cases h)⟩
      · cases hf : S.inflight (S.lk i).db with
        | none => exact ⟨_, Step.lead S i hi hp hc (fun _ => hf)⟩
        | some ld => exact ⟨_, Step.join S i ld hi hp hc hs hf⟩
    · exact ⟨_, Step.hit S i hi hp hc⟩
  | settings => exact inFlight_moves c S i hi (by rw [hp]; rfl)
  | tables => exact inFlight_moves c S i hi (by rw [hp]; rfl)
  | finishing r => exact inFlight_moves c S i hi (by rw [hp]; rfl)
  | waiting ld =>
    obtain ⟨hld, h | ⟨r, h⟩⟩ := hI.waiter i ld hi hp
    · exact inFlight_moves c S ld hld h
    · exact ⟨_, Step.wake S i ld r hi hp h⟩
  | returned r s => rw [hp] at hnr; cases hnr

theorem not_all_returned (S : Sys) (h : ¬ AllReturned S) : ∃ i, i < S.n ∧ (S.lk i).pc.isReturned = false := by
  apply Classical.byContradiction
  intro hne
  apply h
  intro i hi
  cases hr : (S.lk i).pc.isReturned
  · exact absurd ⟨i, hi, hr⟩ hne
  · rfl

theorem run_trans (c : Code) {A B C : Sys} (h1 : Run c A B) (h2 : Run c B C) : Run c A C := by
  induction h1 with
  | refl => exact h2
  | step hs _ ih => exact Run.step hs (ih h2)

/-- from every state that satisfies the invariant a state with every lookup returned is reachable -/
theorem reaches_all_returned (c : Code) (hc : c.share = false ∨ c.signalOnError = true) :
    ∀ (m : Nat) (S : Sys), S.measure ≤ m → Inv c S → ∃ S', Run c S S' ∧ AllReturned S' := by
  intro m
  induction m with
  | zero =>
    intro S hm hI
    by_cases ha : AllReturned S
    · exact ⟨S, Run.refl S, ha⟩
    · obtain ⟨i, hi, hnr⟩ := not_all_returned S ha
      obtain ⟨S1, hs⟩ := progress c S hI i hi hnr
      have := step_measure c S S1 hs
      omega
  | succ m ih =>
    intro S hm hI
    by_cases ha : AllReturned S
    · exact ⟨S, Run.refl S, ha⟩
    · obtain ⟨i, hi, hnr⟩ := not_all_returned S ha
      obtain ⟨S1, hs⟩ := progress c S hI i hi hnr
      have hlt := step_measure c S S1 hs
      obtain ⟨S2, hr, hf⟩ := ih S1 (by omega) (step_inv c hc S S1 hI hs)
      exact ⟨S2, Run.step hs hr, hf⟩

theorem orphaned_setPc (S S' : Sys) (i : Nat) (p : PC) (j ld : Nat) (r : Res) (hj : j < S.n)
    (hw : (S.lk j).pc = .waiting ld) (hr : (S.lk ld).pc = .returned r false) (hij : j ≠ i) (hil : ld ≠ i)
    (hn : S'.n = S.n) (hlk : S'.lk = setPc S.lk i p) : Orphaned S' :=
  ⟨j, ld, r, by omega, by rw [hlk]; simp [setPc, hij, hw], by rw [hlk]; simp [setPc, hil, hr]⟩

/-- no move of anybody releases an orphaned waiter: the pattern persists -/
theorem step_keeps_orphaned (c : Code) (S S' : Sys) (h : Orphaned S) (hs : Step c S S') : Orphaned S' := by
  obtain ⟨j, ld, r, hj, hw, hr⟩ := h
  have ne : ∀ i, (S.lk i).pc.isReturned = false → (∀ l, (S.lk i).pc ≠ .waiting l) → j ≠ i ∧ ld ≠ i := by
    intro i h1 h2
    refine ⟨fun e => h2 ld (e ▸ hw), fun e => ?_⟩
    rw [← e, hr] at h1; cases h1
  cases hs with
  | hit i hi hp hc =>
    obtain ⟨a, b⟩ := ne i (by rw [hp]; rfl) (by intro l; rw [hp]; intro e; cases e)
    exact orphaned_setPc S _ i _ j ld r hj hw hr a b rfl rfl
  | join i l2 hi hp hc hs hf =>
    obtain ⟨a, b⟩ := ne i (by rw [hp]; rfl) (by intro l; rw [hp]; intro e; cases e)
    exact orphaned_setPc S _ i _ j ld r hj hw hr a b rfl rfl
  | lead i hi hp hc hf =>
    obtain ⟨a, b⟩ := ne i (by rw [hp]; rfl) (by intro l; rw [hp]; intro e; cases e)
    exact orphaned_setPc S _ i _ j ld r hj hw hr a b rfl rfl
  | settings i o hi hp =>
    obtain ⟨a, b⟩ := ne i (by rw [hp]; rfl) (by intro l; rw [hp]; intro e; cases e)
    exact orphaned_setPc S _ i _ j ld r hj hw hr a b rfl rfl
  | tables i o hi hp =>
    obtain ⟨a, b⟩ := ne i (by rw [hp]; rfl) (by intro l; rw [hp]; intro e; cases e)
    exact orphaned_setPc S _ i _ j ld r hj hw hr a b rfl rfl
  | finish i r' hi hp =>
    obtain ⟨a, b⟩ := ne i (by rw [hp]; rfl) (by intro l; rw [hp]; intro e; cases e)
    exact orphaned_setPc S _ i _ j ld r hj hw hr a b rfl rfl
  | wake j' l2 r' hj' hp hl =>
    have a : j ≠ j' := by
      intro e; subst e
      rw [hw] at hp; cases hp
      rw [hr] at hl; cases hl
    have b : ld ≠ j' := by
      intro e; subst e
      rw [hr] at hp; cases hp
    exact orphaned_setPc S _ j' _ j ld r hj hw hr a b rfl rfl
  | sleeperWakes h => exact ⟨j, ld, r, hj, hw, hr⟩
  | reset h => exact ⟨j, ld, r, hj, hw, hr⟩

/-- … so no continuation ever has every lookup returned -/
theorem orphaned_never_returns (c : Code) {S S' : Sys} (hr : Run c S S') (h : Orphaned S) : ¬ AllReturned S' := by
  induction hr with
  | refl S =>
    obtain ⟨j, ld, r, hj, hw, _⟩ := h
    intro ha
    have := ha j hj
    rw [hw] at this; cases this
  | step hs _ ih => exact ih (step_keeps_orphaned c _ _ h hs)

end Qryn.ReadSide.DbVersion
