import Qryn.Proofs.TraceQLRec
/-! C11: the per-trace lists the tree carries, read off the script: the lists of the selectors of the `&&`-groups
    all of whose selectors match. -/
namespace Qryn.TraceQL
open Qryn Qryn.Sql

def headSel : Script → List Selector
  | (s, _) :: _ => [s]
  | [] => []

/-- the selectors of the leaves under nodes that hold -/
def XTree.matched (f : Selector → Bool) : XTree → List Selector
  | .simple sc _ => if headHolds f sc then headSel sc else []
  | .complex true _ l r => if treeHolds f l && treeHolds f r then l.matched f ++ r.matched f else []
  | .complex false _ l r => l.matched f ++ r.matched f

theorem matched_nil (f : Selector → Bool) : ∀ t : XTree, treeHolds f t = false → t.matched f = []
  | .simple sc _, h => by simp [XTree.matched, treeHolds] at h ⊢; simp [h]
  | .complex true _ l r, h => by simp [XTree.matched, treeHolds] at h ⊢; intro h1 h2; rw [h h1] at h2; cases h2
  | .complex false _ l r, h => by
    simp only [treeHolds, Bool.false_eq_true, if_false, Bool.or_eq_false_iff] at h
    simp [XTree.matched, matched_nil f l h.1, matched_nil f r h.2]

theorem treeL_matched {α} (m : Selector → Bytes → Bool) (leaf : Selector → Bytes → List α) (tr : Bytes) :
    ∀ t : XTree, treeP m t tr = true →
      treeL m leaf t tr = (t.matched (fun s => m s tr)).flatMap (fun s => leaf s tr)
  | .simple sc _, h => by
    cases sc with
    | nil => simp [treeP, treeHolds, headHolds] at h
    | cons p rest =>
      obtain ⟨s, op⟩ := p
      simp only [treeP, treeHolds, headHolds] at h
      simp [treeL, XTree.matched, headHolds, headSel, h]
  | .complex true _ l r, h => by
    simp only [treeP, treeHolds, if_true, Bool.and_eq_true] at h
    have hl := treeL_matched m leaf tr l h.1
    have hr := treeL_matched m leaf tr r h.2
    have h1 : treeP m l tr = true := h.1
    have h2 : treeP m r tr = true := h.2
    have h1' : treeHolds (fun s => m s tr) l = true := h.1
    have h2' : treeHolds (fun s => m s tr) r = true := h.2
    simp [treeL, nodeList, XTree.matched, h1, h2, h1', h2', hl, hr]
  | .complex false _ l r, h => by
    simp only [treeP, treeHolds, Bool.false_eq_true, if_false, Bool.or_eq_true] at h
    have hside : ∀ t : XTree, (if treeP m t tr = true then treeL m leaf t tr else []) =
        (t.matched (fun s => m s tr)).flatMap (fun s => leaf s tr) → True := fun _ _ => trivial
    have key : ∀ t : XTree, (treeP m t tr = true → treeL m leaf t tr = (t.matched (fun s => m s tr)).flatMap (fun s => leaf s tr)) →
        (if treeP m t tr = true then treeL m leaf t tr else []) = (t.matched (fun s => m s tr)).flatMap (fun s => leaf s tr) := by
      intro t ih
      by_cases hp : treeP m t tr = true
      · simp [hp, ih hp]
      · have : treeHolds (fun s => m s tr) t = false := by simpa [treeP] using hp
        simp [hp, matched_nil _ t this]
    have kl := key l (treeL_matched m leaf tr l)
    have kr := key r (treeL_matched m leaf tr r)
    simp only [treeL, nodeList, Bool.false_eq_true, if_false, XTree.matched, List.flatMap_append]
    rw [← kl, ← kr]

theorem andNest_matched (f : Selector → Bool) : ∀ (g : List Script) (k : Nat), g ≠ [] →
    (andNest k g).1.matched f = if g.all (headHolds f) then g.flatMap headSel else []
  | [], _, h => absurd rfl h
  | [sc], k, _ => by simp [andNest, XTree.matched]
  | sc :: sc2 :: more, k, _ => by
    have ih := andNest_matched f (sc2 :: more) (k + 2) (by simp)
    have hh := (andNest_spec f (sc2 :: more) (k + 2) (by simp)).1
    simp only [andNest, XTree.matched, treeHolds, hh, ih]
    by_cases h1 : headHolds f sc = true <;> by_cases h2 : (sc2 :: more).all (headHolds f) = true
    · simp [h1, h2]
    · simp only [Bool.not_eq_true] at h2; simp [h1, h2]
    · simp only [Bool.not_eq_true] at h1; simp [h1, h2]
    · simp only [Bool.not_eq_true] at h1 h2; simp [h1, h2]

theorem orFold_matched (f : Selector → Bool) : ∀ (gs : List (List Script)) (k : Nat) (left : Option (Nat × XTree)),
    gs ≠ [] → (∀ g ∈ gs, g ≠ []) →
    (orFold k left gs).matched f =
      (match left with | none => [] | some (_, l) => l.matched f) ++
        (gs.filter (fun g => g.all (headHolds f))).flatMap (fun g => g.flatMap headSel)
  | [], _, _, h, _ => absurd rfl h
  | [g], k, left, _, hne => by
    have h1 := andNest_matched f g k (hne g (by simp))
    rw [orFold_single]
    cases left with
    | none =>
      by_cases hg : g.all (headHolds f) = true
      · simp [h1, hg]
      · simp only [Bool.not_eq_true] at hg; simp [h1, hg]
    | some pl =>
      obtain ⟨p, l⟩ := pl
      by_cases hg : g.all (headHolds f) = true
      · simp [XTree.matched, h1, hg]
      · simp only [Bool.not_eq_true] at hg; simp [XTree.matched, h1, hg]
  | g :: g2 :: gs, k, left, _, hne => by
    have h1 := andNest_matched f g k (hne g (by simp))
    have r1 := orFold_matched f (g2 :: gs) ((andNest k g).2 + 1)
      (some ((andNest k g).2 + 1, (match left with | none => (andNest k g).1 | some (p, l) => .complex false p l (andNest k g).1)))
      (by simp) (fun x hx => hne x (List.mem_cons_of_mem _ hx))
    rw [orFold_cons2]
    refine r1.trans ?_
    cases left with
    | none =>
      by_cases hg : g.all (headHolds f) = true
      · simp [h1, hg, List.filter_cons]
      · simp only [Bool.not_eq_true] at hg; simp [h1, hg, List.filter_cons]
    | some pl =>
      obtain ⟨p, l⟩ := pl
      by_cases hg : g.all (headHolds f) = true
      · simp [XTree.matched, h1, hg, List.filter_cons, List.append_assoc]
      · simp only [Bool.not_eq_true] at hg; simp [XTree.matched, h1, hg, List.filter_cons]

/-- the groups of scripts `groupsS` makes and the groups of selectors of the specification, side by side -/
theorem groupsS_sels (f : Selector → Bool) : ∀ (script : Script) (gs : List (List Script)), groupsS script = .ok gs →
    gs.map (fun g => (g.all (headHolds f), g.flatMap headSel)) = (groups script).map (fun g => (g.all f, g))
  | [], gs, h => by simp [groupsS] at h
  | (s, .none) :: rest, gs, h => by
    simp [groupsS, pure, Except.pure] at h
    subst h
    simp [groups, headHolds, headSel]
  | (s, .or) :: rest, gs, h => by
    simp only [groupsS, bind, Except.bind] at h
    cases hr : groupsS rest with
    | error m => simp [hr] at h
    | ok gs0 =>
      simp [hr, pure, Except.pure] at h
      subst h
      have ih := groupsS_sels f rest gs0 hr
      simp [groups, headHolds, headSel, ih]
  | (s, .and) :: rest, gs, h => by
    simp only [groupsS, bind, Except.bind] at h
    cases hr : groupsS rest with
    | error m => simp [hr] at h
    | ok gs0 =>
      have ih := groupsS_sels f rest gs0 hr
      cases gs0 with
      | nil => simp [hr, throw, throwThe, MonadExceptOf.throw] at h
      | cons g gs' =>
        simp [hr, pure, Except.pure] at h
        subst h
        cases hg2 : groups rest with
        | nil => rw [hg2] at ih; simp at ih
        | cons g2 gs2 =>
          rw [hg2] at ih
          simp only [List.map_cons, List.cons.injEq, Prod.mk.injEq] at ih
          simp [groups, hg2, headHolds, headSel, ih.1.1, ih.1.2, ih.2]

theorem filter_flatMap_pairs {α β γ} (l : List α) (l' : List β) (a : α → Bool) (b : α → List γ) (a' : β → Bool) (b' : β → List γ)
    (h : l.map (fun x => (a x, b x)) = l'.map (fun x => (a' x, b' x))) :
    (l.filter a).flatMap b = (l'.filter a').flatMap b' := by
  induction l generalizing l' with
  | nil => cases l' with
    | nil => rfl
    | cons y ys => simp at h
  | cons x xs ih =>
    cases l' with
    | nil => simp at h
    | cons y ys =>
      simp only [List.map_cons, List.cons.injEq, Prod.mk.injEq] at h
      have := ih ys h.2
      by_cases hx : a x = true
      · have hy : a' y = true := by rw [← h.1.1]; exact hx
        simp [List.filter_cons, hx, hy, h.1.2, this]
      · simp only [Bool.not_eq_true] at hx
        have hy : a' y = false := by rw [← h.1.1]; exact hx
        simp [List.filter_cons, hx, hy, this]

/-- **the lists of the planner's tree are the lists of the script**: for a trace the tree holds of, a per-trace
    list of the tree is the concatenation of the selectors' lists over the matching groups -/
theorem planTree_lists {α} (m : Selector → Bytes → Bool) (leaf : Selector → Bytes → List α) (script : Script) (t : XTree)
    (h : planTree script = .ok t) (tr : Bytes) (hp : treeP m t tr = true) :
    treeL m leaf t tr = (matchedSels (fun s => m s tr) script).flatMap (fun s => leaf s tr) := by
  simp only [planTree, bind, Except.bind] at h
  cases hg : groupsS script with
  | error e => simp [hg] at h
  | ok gs =>
    simp [hg, pure, Except.pure] at h
    subst h
    obtain ⟨_, h2, h3, _⟩ := groupsS_spec (fun s => m s tr) script gs hg
    rw [treeL_matched m leaf tr _ hp, orFold_matched _ gs 0 none h3 h2]
    simp only [List.nil_append, matchedSels]
    rw [filter_flatMap_pairs gs (groups script) _ _ (fun g => g.all (fun s => m s tr)) (fun g => g)
      (groupsS_sels (fun s => m s tr) script gs hg)]
    simp [List.flatMap_id']

/-- the tree `planComplex` builds means the script with `&&` binding tighter than `||` -/
theorem tree_means_script' (f : Selector → Bool) (script : Script) (gs : List (List Script)) (h : groupsS script = .ok gs) :
    treeHolds f (orFold 0 none gs) = scriptHolds f script := by
  obtain ⟨e1, h2, h3, _⟩ := groupsS_spec f script gs h
  rw [(orFold_spec f gs 0 none h3 h2).1]
  simp only [Bool.false_or, scriptHolds]
  have e2 := congrArg (fun ll : List (List Bool) => ll.any (fun bs => bs.all id)) e1
  simp only [List.any_map, List.all_map, Function.comp_def, id] at e2
  exact e2

end Qryn.TraceQL
