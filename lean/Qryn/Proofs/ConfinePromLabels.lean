import Qryn.Read.ConfinePromLabels
import Qryn.Proofs.ConfineRead
import Qryn.Proofs.Signal
/-! C13: the Prometheus metadata statements (`Prom.promLabels / promValues / promSeries`) are confined and signal-confined,
    for every `match[]` list, every assignment of required bits, both layouts. -/
namespace Qryn.Confine
open Qryn Qryn.Sql Qryn.LogQL Qryn.Prom

theorem fpSel_index (cfg : Cfg) (c : Ctx) (h : LokiCfg cfg c) (ms : List Matcher) (req : List Bool) :
    isIndexSelection cfg (fpSel c ms req) = true := by
  simp [fpSel, isIndexSelection, fromTable, h.gin]

/-- a main select that is confined on its own, over `fp_sel` = one selector statement or the union of several -/
theorem overFps_confined (cfg : Cfg) (c : Ctx) (h : LokiCfg cfg c) (sels : List PromSel) (main : Sel)
    (hm : bodyConfined cfg (winOf c) [] main = true) : promConfined cfg (winOf c) (overFps c sels main) = true := by
  have single : ∀ p : PromSel, confined cfg (winOf c) (main.with_ [(.named "fp_sel", fpSel c p.ms p.req)]) = true := by
    intro p
    have g : GoodM cfg (winOf c) (main.with_ [(.named "fp_sel", fpSel c p.ms p.req)]) := by
      refine ⟨with_inv _ _ _ (bodyConfined_Mono cfg _) (yieldC_Mono cfg) _ _ (by
        intro e he; simp only [List.mem_singleton] at he; subst he
        exact ⟨fpSel_confined cfg c h [] p.ms p.req, ⟨(by intro hg; cases hg), trivial⟩⟩), fun ok => ?_⟩
      rw [bodyConfined_with_]
      exact bodyConfined_mono cfg _ [] ok (by intro x hx; cases hx) _ hm
    exact confined_of_inv cfg _ isSubAlias _ (.named "statement") (g.entry "statement")
  have union : ∀ l : List PromSel, promConfined cfg (winOf c) (.union (l.map (fun p => fpSel c p.ms p.req)) main) = true := by
    intro l
    simp only [promConfined, Bool.and_eq_true, List.all_map, List.all_eq_true, Function.comp]
    exact ⟨fun p _ => ⟨fpSel_confined cfg c h [] p.ms p.req, fpSel_index cfg c h p.ms p.req⟩, hm⟩
  unfold overFps
  split
  · exact single _
  · exact union _

theorem labelsMain_body (cfg : Cfg) (c : Ctx) (table : String) (ht : cfg.kind table = .index) (lt : Int)
    (hlt : lt = (winOf c).tp) (withFp : Bool) : bodyConfined cfg (winOf c) [] (labelsMain c table lt withFp) = true := by
  have h1 := lowerDate_ok c
  have h2 := toDate_ok c
  have hc : conjuncts (whereOf (labelsMain c table lt withFp)) =
      [.isIn (.raw "type") [.int lt, .int 0], ge (.raw "date") (.str (Time.formatFromDate c.fromNs)),
       le (.raw "date") (.str (toDate c))] ++ (if withFp then [fpIn_] else []) :=
    conjuncts_and_flat _ (by
      intro e he
      simp only [List.mem_append, List.mem_cons, List.not_mem_nil, or_false] at he
      rcases he with (rfl | rfl | rfl) | he
      · rfl
      · exact splice_logical _ _ (by decide)
      · exact splice_logical _ _ (by decide)
      · cases withFp
        · cases he
        · simp only [if_true, List.mem_singleton] at he; subst he; rfl)
  have hty : isTypeFilter (winOf c) (.isIn (.raw "type") [.int lt, .int 0]) = true := by
    simp [isTypeFilter, hlt]
  simp only [whereOf, labelsMain] at hc
  simp only [labelsMain, bodyConfined, fromTable, ht, conjuncts_none, List.nil_append, hc]
  simp only [Bool.and_eq_true, Bool.or_eq_true]
  refine ⟨?_, Or.inl ⟨?_, Or.inr ?_⟩⟩
  · cases withFp <;> simp [List.all, dateLower, dateUpper, mentionsDate, isDateCol, ge, le, h1, h2, fpIn_]
  · cases withFp <;> simp [List.any, dateLower, isDateCol, ge, le, fpIn_]
  · cases withFp <;> simp [List.any, hty]

theorem seriesMain_body (cfg : Cfg) (c : Ctx) (h : LokiCfg cfg c) : bodyConfined cfg (winOf c) [] (seriesMain c) = true := by
  unfold seriesMain
  rw [bodyConfined_setLimit]
  cases hcl : c.isCluster
  · exact idxLoki_body cfg c c.tsTable h.ts _ _ (isIn_plain _ _) (getTypes_plain c) (Or.inr (getTypes_isTypeFilter c)) _
      (by simp [fromOf, fromTable]) rfl rfl
  · exact idxLoki_body cfg c c.tsDistTable h.tsDist _ _ (isIn_plain _ _) (getTypes_plain c) (Or.inr (getTypes_isTypeFilter c)) _
      (by simp [fromOf, fromTable]) rfl rfl

theorem valuesMain_body (cfg : Cfg) (c : Ctx) (h : LokiCfg cfg c) (key : Bytes) :
    bodyConfined cfg (winOf c) [] (((valuesBase c key).andWhere [fpIn_]).setLimit (LogQL.limitOf c)) = true := by
  rw [bodyConfined_setLimit]
  apply bodyConfined_andWhere_index cfg _ _ c.ginTable _ rfl h.gin
  · exact valuesBase_body cfg c h key
  · intro e he
    simp only [List.flatMap_cons, List.flatMap_nil, List.append_nil, fpIn_, splice_isIn, List.mem_singleton] at he
    subst he; rfl

theorem single_body_confined (cfg : Cfg) (w : Window) (s : Sel) (hw : withsOf s = []) (hb : bodyConfined cfg w [] s = true) :
    confined cfg w s = true := by
  obtain ⟨ws, d, c, f, j, p, wh, g, hv, ob, l⟩ := s
  simp only [withsOf] at hw
  subst hw
  simp only [confined, withsConfined, okAfter, Bool.true_and]
  exact hb

theorem promLabels_confined (cfg : Cfg) (c : Ctx) (h : LokiCfg cfg c) (table : String) (ht : cfg.kind table = .index) (lt : Int)
    (hlt : lt = (winOf c).tp) (sels : List PromSel) : promConfined cfg (winOf c) (promLabels c table lt sels) = true := by
  unfold promLabels
  split
  · exact single_body_confined cfg _ _ rfl (labelsMain_body cfg c table ht lt hlt false)
  · exact overFps_confined cfg c h sels _ (labelsMain_body cfg c c.ginTable h.gin lt hlt true)

theorem promValues_confined (cfg : Cfg) (c : Ctx) (h : LokiCfg cfg c) (key : Bytes) (sels : List PromSel) :
    promConfined cfg (winOf c) (promValues c key sels) = true := by
  unfold promValues
  split
  · show confined cfg (winOf c) ((valuesBase c key).setLimit (LogQL.limitOf c)) = true
    apply single_body_confined cfg _ _ rfl
    rw [bodyConfined_setLimit]; exact valuesBase_body cfg c h key
  · exact overFps_confined cfg c h sels _ (valuesMain_body cfg c h key)

theorem promSeries_confined (cfg : Cfg) (c : Ctx) (h : LokiCfg cfg c) (sels : List PromSel) :
    promConfined cfg (winOf c) (promSeries c sels) = true :=
  overFps_confined cfg c h sels _ (seriesMain_body cfg c h)

/-- a confined statement of these endpoints is signal-confined for the window's signal -/
theorem promSignal_of_confined (cfg : Cfg) (hT : TypedCfg cfg) (w : Window) (hn : w.needType = true) (st : PromStmt)
    (h : promConfined cfg w st = true) : promSignal cfg w.tp st = true := by
  cases st with
  | single s => exact signalConfined_of_confined cfg hT w hn s h
  | union ops main =>
    simp only [promConfined, Bool.and_eq_true, List.all_eq_true] at h
    simp only [promSignal, Bool.and_eq_true, List.all_eq_true]
    exact ⟨fun s hs => bodySignal_of_confined cfg hT w hn [] s (h.1 s hs).1, bodySignal_of_confined cfg hT w hn [] main h.2⟩

end Qryn.Confine
